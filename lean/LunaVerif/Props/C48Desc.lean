import LunaVerif.Props.C48
/-!
# C48, part 2 — GET_DESCRIPTOR data (`GetDescriptorHandler` + 32-bit `ConstantStreamGenerator`)

"GET_DESCRIPTOR answers with the first min(wLength, length) bytes of the requested descriptor and
the matching length field, and unknown descriptors are STALLed."

Setting: a descriptor collection `c` (any number of descriptors), a request value `v` selecting
descriptor `d = c[k]` (non-empty, shorter than 65536 bytes, byte values < 256), any `wLength = L <
65536`, the handler in any quiescent state (selected generator idle, `tx` register empty — the reset
state is one), `start` strobed for one cycle with `v`, `L` held afterwards, and an ARBITRARY
`tx.ready` pattern.  `delivered` is the concatenation of the bytes taken from `tx` (cycles with
`tx.valid ≠ 0 ∧ tx.ready`, bytes selected by the valid mask).

* `ss_descriptor_prefix`: at every moment, delivered ++ (bytes still held in the tx register and the
  generator) = the first min(L, len) bytes of the descriptor; and `tx_length = min(L, len)` in
  every cycle in which `tx` is valid.
* `ss_descriptor_complete`: once the handler is quiescent again (generator not streaming, tx register
  empty), delivered is exactly that prefix.  (That quiescence is reached after finitely many ready
  cycles is NOT proved here — see PARTIAL in harness/props/c48.py; the monitor checks it on traces.)
* `ss_unknown_stalls`: with no matching descriptor, `stall = start` and the tx register is never loaded.
-/
namespace LunaVerif.SSDesc
open LunaVerif.SSSetup (cnt wordBytes)

def BytesOK (bs : List Nat) : Prop := ∀ b ∈ bs, b < 256

/-! ## ROM packing -/

theorem pack_length : ∀ bs : List Nat, (pack bs).length = (bs.length + 3) / 4
  | [] => rfl
  | [_] => by simp [pack]
  | [_, _] => by simp [pack]
  | [_, _, _] => by simp [pack]
  | _ :: _ :: _ :: _ :: rest => by
    simp only [pack, List.length_cons, pack_length rest]; omega

theorem wordBytes4 (a b c d : Nat) (ha : a < 256) (hb : b < 256) (hc : c < 256) (hd : d < 256) :
    wordBytes (a + 256 * b + 65536 * c + 16777216 * d) 4 = [a, b, c, d] := by
  simp only [wordBytes, List.take, List.cons.injEq, and_true]
  refine ⟨?_, ?_, ?_, ?_⟩ <;> omega

/-- word `p` of the packed ROM holds bytes `4p … 4p+3` of the data, zero padded -/
theorem pack_word : ∀ (bs : List Nat) (p : Nat), BytesOK bs → 4 * p < bs.length →
    wordBytes ((pack bs).getD p 0) 4 = (bs.drop (4 * p) ++ [0, 0, 0, 0]).take 4
  | [], p, _, h => by simp at h
  | [a], p, hb, h => by
    have : p = 0 := by simp at h; omega
    subst this
    have := wordBytes4 a 0 0 0 (hb a (by simp)) (by omega) (by omega) (by omega)
    simpa [pack] using this
  | [a, b], p, hb, h => by
    have : p = 0 := by simp at h; omega
    subst this
    have := wordBytes4 a b 0 0 (hb a (by simp)) (hb b (by simp)) (by omega) (by omega)
    simpa [pack] using this
  | [a, b, c], p, hb, h => by
    have : p = 0 := by simp at h; omega
    subst this
    have := wordBytes4 a b c 0 (hb a (by simp)) (hb b (by simp)) (hb c (by simp)) (by omega)
    simpa [pack] using this
  | a :: b :: c :: d :: rest, 0, hb, _ => by
    have := wordBytes4 a b c d (hb a (by simp)) (hb b (by simp)) (hb c (by simp)) (hb d (by simp))
    simpa [pack] using this
  | a :: b :: c :: d :: rest, p + 1, hb, h => by
    have hr : BytesOK rest := fun x hx => hb x (by simp [hx])
    have hl : 4 * p < rest.length := by simp at h; omega
    have := pack_word rest p hr hl
    have e : 4 * (p + 1) = 4 * p + 4 := by omega
    simpa [pack, e] using this

theorem wordBytes_take (w j : Nat) (hj : j ≤ 4) : wordBytes w j = (wordBytes w 4).take j := by
  simp only [wordBytes, List.take_take]
  congr 1; omega

/-- the first `j` bytes of ROM word `p` are bytes `4p … 4p+j-1` of the descriptor -/
theorem rom_bytes (d : Desc) (p j : Nat) (hb : BytesOK d.bytes) (hj : j ≤ 4)
    (h : 4 * p + j ≤ d.len) (hj1 : 1 ≤ j) :
    wordBytes (romAt d p) j = (d.bytes.drop (4 * p)).take j := by
  unfold Desc.len at h
  rw [wordBytes_take _ _ hj, romAt, Desc.rom, pack_word d.bytes p hb (by omega), List.take_take,
    Nat.min_eq_left hj, List.take_append_of_le_length (by simp; omega)]

/-! ## the valid mask -/

theorem validMask_cnt (ed em : Bool) (a b : Nat) (ha : ed = true → 1 ≤ a ∧ a ≤ 4)
    (hb : em = true → 1 ≤ b ∧ b ≤ 4) :
    cnt (validMask ed em a b) =
      (if ed then (if em then min a b else a) else if em then b else 4) := by
  cases ed <;> cases em <;> simp only [validMask, Bool.or_self, Bool.and_self, Bool.or_true,
    Bool.or_false, Bool.and_true, Bool.and_false, Bool.false_eq_true, if_false, if_true]
  · rfl
  · obtain ⟨h1, h2⟩ := hb rfl
    have : b = 1 ∨ b = 2 ∨ b = 3 ∨ b = 4 := by omega
    rcases this with h | h | h | h <;> subst h <;> decide
  · obtain ⟨h1, h2⟩ := ha rfl
    have : a = 1 ∨ a = 2 ∨ a = 3 ∨ a = 4 := by omega
    rcases this with h | h | h | h <;> subst h <;> decide
  · obtain ⟨h1, h2⟩ := ha rfl
    obtain ⟨h3, h4⟩ := hb rfl
    have : a = 1 ∨ a = 2 ∨ a = 3 ∨ a = 4 := by omega
    have : b = 1 ∨ b = 2 ∨ b = 3 ∨ b = 4 := by omega
    rcases ‹a = 1 ∨ _› with h | h | h | h <;> rcases ‹b = 1 ∨ _› with h' | h' | h' | h' <;>
      subst h <;> subst h' <;> decide

theorem cnt_pos_ne_zero (m : Nat) (h : 1 ≤ cnt m) : m ≠ 0 := by
  intro h0; subst h0; simp [cnt] at h

/-! ## one generator under the handler -/

/-- Facts about a streaming generator serving `min L len` bytes. -/
structure GInv (d : Desc) (L : Nat) (g : Gen) : Prop where
  maxLen : g.maxLen = L
  sent   : g.sent = 4 * g.pos
  pos    : 4 * g.pos < min L d.len
  rdata  : g.rdata = romAt d g.pos

theorem onLast_iff (d : Desc) (L : Nat) (g : Gen) (h : GInv d L g) :
    onLast d g = true ↔ min L d.len ≤ 4 * g.pos + 4 := by
  obtain ⟨h1, h2, h3, _⟩ := h
  have hl : d.rom.length = (d.len + 3) / 4 := by simp [Desc.rom, Desc.len, pack_length]
  simp only [onLast, Bool.or_eq_true, beq_iff_eq, decide_eq_true_eq, hl, h1, h2]
  omega

/-- What a streaming generator offers: a non-empty byte-prefix mask selecting `min 4 (n − 4·pos)`
bytes, `output_length = n`, the ROM word at `pos`. -/
theorem genOut_streaming (d : Desc) (L : Nat) (g : Gen) (hs : g.fsm = .streaming)
    (h : GInv d L g) (hL : L < 65536) (hlen : d.len < 65536) :
    cnt (genOut d g).valid = min 4 (min L d.len - 4 * g.pos) ∧ (genOut d g).outLen = min L d.len
      ∧ (genOut d g).payload = romAt d g.pos := by
  obtain ⟨h1, h2, h3, h4⟩ := h
  have hl : d.rom.length = (d.len + 3) / 4 := by simp [Desc.rom, Desc.len, pack_length]
  simp only [genOut, hs]
  refine ⟨?_, ?_, h4⟩
  · rw [validMask_cnt]
    · simp only [beq_iff_eq, decide_eq_true_eq, hl, h1, h2]
      split
      · split
        · split <;> omega
        · split <;> omega
      · split <;> omega
    · intro he; simp only [beq_iff_eq, hl] at he; split <;> omega
    · intro he; simp only [decide_eq_true_eq, h1, h2] at he; omega
  · simp only [h1]; split <;> omega

/-! ## the handler, projected on the selected generator -/

theorem gensNext_get (sel : Option Nat) (i : In) (ld : Bool) :
    ∀ (c : List Desc) (gs : List Gen) (off k : Nat) (d : Desc) (g : Gen),
      c[k]? = some d → gs[k]? = some g →
      (gensNext sel i ld off c gs)[k]? =
        some (genNext d g ((sel == some (off + k)) && i.start)
          (if sel == some (off + k) then i.length else 0) ((sel == some (off + k)) && ld))
  | [], _, _, k, _, _, hc, _ => by simp at hc
  | _ :: _, [], _, k, _, _, _, hg => by simp at hg
  | d0 :: ds, g0 :: gs, off, 0, d, g, hc, hg => by
    simp at hc hg; subst hc; subst hg; simp [gensNext]
  | d0 :: ds, g0 :: gs, off, k + 1, d, g, hc, hg => by
    simp at hc hg
    have := gensNext_get sel i ld ds gs (off + 1) k d g hc hg
    simp only [gensNext, List.getElem?_cons_succ, this]
    have e : off + 1 + k = off + (k + 1) := by omega
    rw [e]

/-- bytes still to come from the generator -/
def genBytes (d : Desc) (L : Nat) (g : Gen) : List Nat :=
  if g.fsm = .streaming then (d.bytes.take (min L d.len)).drop (4 * g.pos) else []

def txBytes (s : State) : List Nat := wordBytes s.txData (cnt s.txValid)

/-- bytes handed to the consumer in this cycle -/
def xfer (s : State) (i : In) : List Nat :=
  if s.txValid ≠ 0 ∧ i.ready = true then txBytes s else []

/-- Invariant of a response in progress (selected generator `k`, descriptor `d`, wLength `L`). -/
structure Inv (k : Nat) (d : Desc) (L : Nat) (s : State) (g : Gen) : Prop where
  gen   : s.gens[k]? = some g
  ginv  : g.fsm = .streaming → GInv d L g
  txlen : s.txValid ≠ 0 → s.txLen = min L d.len

def pending (d : Desc) (L : Nat) (s : State) (g : Gen) : List Nat := txBytes s ++ genBytes d L g

/-- One cycle of the response (value and length held): the invariant is kept and the bytes
delivered in this cycle are exactly what leaves `pending`. -/
theorem step_inv (c : List Desc) (v k : Nat) (d : Desc) (L : Nat) (s : State) (g : Gen) (i : In)
    (hsel : select c v = some k) (hd : c[k]? = some d) (hb : BytesOK d.bytes)
    (hlen : d.len < 65536) (hL : L < 65536)
    (hi : Inv k d L s g) (hv : i.value = v) (hl : i.length = L)
    (hst : i.start = false ∨ g.fsm ≠ .idle) :
    ∃ g', Inv k d L (next c s i) g' ∧ xfer s i ++ pending d L (next c s i) g' = pending d L s g := by
  obtain ⟨hgen, hginv, htx⟩ := hi
  have hg' := gensNext_get (select c i.value) i (load s i) c s.gens 0 k d g hd hgen
  simp only [hv, hsel, Nat.zero_add, beq_self_eq_true, Bool.true_and, if_true] at hg'
  by_cases hld : load s i = true
  · -- the tx register is (re)loaded from the generator
    have hnext : next c s i = ⟨gensNext (some k) i true 0 c s.gens, (genOut d g).valid,
        (genOut d g).first, (genOut d g).last, (genOut d g).payload, (genOut d g).outLen⟩ := by
      simp [next, hv, hsel, hld, hd, hgen]
    rw [hld] at hg'
    have hx : xfer s i = txBytes s := by
      simp only [xfer, load, Bool.or_eq_true, beq_iff_eq] at hld ⊢
      by_cases h0 : s.txValid = 0
      · simp [h0, txBytes, cnt, wordBytes]
      · rcases hld with h | h
        · exact absurd h h0
        · simp [h0, h]
    cases hfsm : g.fsm
    · -- idle (stays idle: no start)
      have hstart : i.start = false := by rcases hst with h | h <;> simp_all
      refine ⟨_, ⟨by rw [hnext]; exact hg', ?_, ?_⟩, ?_⟩
      · intro h; simp [genNext, hfsm, hstart] at h
      · rw [hnext]; simp [genOut, hfsm]
      · rw [hx, hnext]
        simp [pending, genBytes, genNext, hfsm, hstart, txBytes, genOut, cnt, wordBytes]
    · -- streaming: one word moves from the generator into the tx register
      have hG := hginv hfsm
      obtain ⟨hc, hol, hpay⟩ := genOut_streaming d L g hfsm hG hL hlen
      have hon := onLast_iff d L g hG
      obtain ⟨g1, g2, g3, g4⟩ := hG
      have hj : 1 ≤ cnt (genOut d g).valid := by rw [hc]; omega
      have hword : wordBytes (genOut d g).payload (cnt (genOut d g).valid)
          = ((d.bytes.take (min L d.len)).drop (4 * g.pos)).take (cnt (genOut d g).valid) := by
        rw [hpay, rom_bytes d g.pos _ hb (by rw [hc]; omega) (by rw [hc]; omega) hj,
          List.drop_take, List.take_take]
        congr 1; rw [hc]; omega
      by_cases hlast : onLast d g = true
      · -- last word: the generator is done
        have hn := hon.1 hlast
        refine ⟨_, ⟨by rw [hnext]; exact hg', ?_, ?_⟩, ?_⟩
        · intro h; simp [genNext, hfsm, hlast] at h
        · intro _; rw [hnext]; exact hol
        · rw [hx, hnext]
          simp only [pending, genBytes, genNext, hfsm, hlast, txBytes, if_true, Bool.not_true,
            Bool.false_eq_true, if_false, List.append_nil, reduceCtorEq]
          rw [hword, List.take_of_length_le]
          simp only [List.length_drop, List.length_take, hc]
          unfold Desc.len at *; omega
      · -- not the last word
        have hn : ¬ (min L d.len ≤ 4 * g.pos + 4) := fun h => hlast (hon.2 h)
        have hnl : onLast d g = false := by simpa using hlast
        refine ⟨_, ⟨by rw [hnext]; exact hg', ?_, ?_⟩, ?_⟩
        · intro _
          simp only [genNext, hfsm, hnl, Bool.not_false, if_true]
          exact ⟨g1, by simp only [g2]; omega, by simp only; omega, rfl⟩
        · intro _; rw [hnext]; exact hol
        · rw [hx, hnext]
          simp only [pending, genBytes, genNext, hfsm, hnl, txBytes, if_true, Bool.not_false]
          rw [hword, hc]
          have e : min 4 (min L d.len - 4 * g.pos) = 4 := by omega
          rw [e]
          congr 1
          have e2 : 4 * (g.pos + 1) = 4 * g.pos + 4 := by omega
          rw [e2, ← List.drop_drop, List.take_append_drop]
    · -- done -> idle
      refine ⟨_, ⟨by rw [hnext]; exact hg', ?_, ?_⟩, ?_⟩
      · intro h; simp [genNext, hfsm] at h
      · rw [hnext]; simp [genOut, hfsm]
      · rw [hx, hnext]
        simp [pending, genBytes, genNext, hfsm, txBytes, genOut, cnt, wordBytes]
  · -- the tx register is full and not taken: nothing moves
    have hldf : load s i = false := by simpa using hld
    have hnext : next c s i = { s with gens := gensNext (some k) i false 0 c s.gens } := by
      simp [next, hv, hsel, hldf]
    rw [hldf] at hg'
    have hx : xfer s i = [] := by
      simp only [load, Bool.or_eq_false_iff] at hldf
      simp [xfer, hldf.2]
    cases hfsm : g.fsm
    · have hstart : i.start = false := by rcases hst with h | h <;> simp_all
      refine ⟨_, ⟨by rw [hnext]; exact hg', ?_, ?_⟩, ?_⟩
      · intro h; simp [genNext, hfsm, hstart] at h
      · rw [hnext]; exact htx
      · rw [hx, hnext]; simp [pending, genBytes, genNext, hfsm, hstart, txBytes]
    · have hG := hginv hfsm
      refine ⟨_, ⟨by rw [hnext]; exact hg', ?_, ?_⟩, ?_⟩
      · intro _
        simp only [genNext, hfsm, Bool.and_false, Bool.false_eq_true, if_false]
        exact ⟨hG.1, hG.2, hG.3, rfl⟩
      · rw [hnext]; exact htx
      · rw [hx, hnext]; simp [pending, genBytes, genNext, hfsm, txBytes]
    · refine ⟨_, ⟨by rw [hnext]; exact hg', ?_, ?_⟩, ?_⟩
      · intro h; simp [genNext, hfsm] at h
      · rw [hnext]; exact htx
      · rw [hx, hnext]; simp [pending, genBytes, genNext, hfsm, txBytes]

/-! ## whole responses -/

/-- `value` / `length` held, no further start, arbitrary `tx.ready` pattern -/
def heldIns (v L : Nat) (rs : List Bool) : List In := rs.map (fun r => ⟨v, L, false, r⟩)

/-- all bytes handed to the consumer during a run -/
def delivered (c : List Desc) : State → List In → List Nat
  | _, [] => []
  | s, i :: is => xfer s i ++ delivered c (next c s i) is

def runState (c : List Desc) : State → List In → State
  | s, [] => s
  | s, i :: is => runState c (next c s i) is

/-- the `tx_length` values shown in the cycles in which `tx` is valid -/
def lengthsShown (c : List Desc) : State → List In → List Nat
  | _, [] => []
  | s, i :: is => (if s.txValid ≠ 0 then [s.txLen] else []) ++ lengthsShown c (next c s i) is

theorem run_inv (c : List Desc) (v k : Nat) (d : Desc) (L : Nat)
    (hsel : select c v = some k) (hd : c[k]? = some d) (hb : BytesOK d.bytes)
    (hlen : d.len < 65536) (hL : L < 65536) :
    ∀ (rs : List Bool) (s : State) (g : Gen), Inv k d L s g →
      ∃ g', Inv k d L (runState c s (heldIns v L rs)) g' ∧
        delivered c s (heldIns v L rs) ++ pending d L (runState c s (heldIns v L rs)) g'
          = pending d L s g ∧
        ∀ x ∈ lengthsShown c s (heldIns v L rs), x = min L d.len
  | [], s, g, hi => ⟨g, hi, by simp [heldIns, delivered, runState], by simp [heldIns, lengthsShown]⟩
  | r :: rs, s, g, hi => by
    obtain ⟨g1, hi1, he1⟩ := step_inv c v k d L s g ⟨v, L, false, r⟩ hsel hd hb hlen hL hi rfl rfl
      (Or.inl rfl)
    obtain ⟨g2, hi2, he2, hl2⟩ := run_inv c v k d L hsel hd hb hlen hL rs _ g1 hi1
    refine ⟨g2, hi2, ?_, ?_⟩
    · simp only [heldIns, List.map_cons, delivered, runState] at he2 ⊢
      rw [List.append_assoc, he2, he1]
    · intro x hx
      simp only [heldIns, List.map_cons, lengthsShown, List.mem_append] at hx hl2
      rcases hx with hx | hx
      · by_cases h0 : s.txValid = 0
        · simp [h0] at hx
        · simp [h0] at hx; rw [hx]; exact hi.txlen h0
      · exact hl2 x hx

/-- The handler is ready for a request on descriptor `k`: its generator idle, `tx` empty. -/
def Quiescent (k : Nat) (s : State) : Prop :=
  ∃ g, s.gens[k]? = some g ∧ g.fsm = .idle ∧ s.txValid = 0

theorem init_quiescent (c : List Desc) (k : Nat) (d : Desc) (hd : c[k]? = some d) :
    Quiescent k (init c) := by
  refine ⟨Gen.init, ?_, rfl, rfl⟩
  simp only [init, List.getElem?_map, hd, Option.map_some]

/-- the start cycle: everything is still to come -/
theorem start_step (c : List Desc) (v k : Nat) (d : Desc) (L : Nat) (s : State) (r : Bool)
    (hsel : select c v = some k) (hd : c[k]? = some d) (hpos : 0 < d.len) (hq : Quiescent k s) :
    ∃ g', Inv k d L (next c s ⟨v, L, true, r⟩) g' ∧
      pending d L (next c s ⟨v, L, true, r⟩) g' = d.bytes.take (min L d.len) ∧
      xfer s ⟨v, L, true, r⟩ = [] := by
  obtain ⟨g, hgen, hidle, htx⟩ := hq
  have hg' := gensNext_get (select c v) ⟨v, L, true, r⟩ true c s.gens 0 k d g hd hgen
  simp only [hsel, Nat.zero_add, beq_self_eq_true, Bool.true_and, if_true] at hg'
  have hld : load s ⟨v, L, true, r⟩ = true := by simp [load, htx]
  have hnext : next c s ⟨v, L, true, r⟩ = ⟨gensNext (some k) ⟨v, L, true, r⟩ true 0 c s.gens,
      (genOut d g).valid, (genOut d g).first, (genOut d g).last, (genOut d g).payload,
      (genOut d g).outLen⟩ := by
    simp [next, hsel, hld, hd, hgen]
  refine ⟨_, ⟨by rw [hnext]; exact hg', ?_, ?_⟩, ?_, by simp [xfer, htx]⟩
  · intro _
    by_cases hL0 : L = 0
    · simp_all [genNext]
    · simp only [genNext, hidle]
      exact ⟨rfl, rfl, by simp only; omega, rfl⟩
  · rw [hnext]; simp [genOut, hidle]
  · rw [hnext]
    by_cases hL0 : L = 0
    · simp [pending, txBytes, genBytes, genOut, genNext, hidle, hL0, cnt, wordBytes]
    · have : (decide (L > 0)) = true := by simp; omega
      simp [pending, txBytes, genBytes, genOut, genNext, hidle, this, cnt, wordBytes]

/-- **C48 (descriptor data, safety)**: from any quiescent state (e.g. reset), after `start` with
`value` selecting descriptor `d` and `length = L`, under EVERY `tx.ready` pattern `r0 :: rs`: the
bytes delivered so far followed by the bytes still pending in the tx register and the generator are
exactly the first `min L len` bytes of the descriptor (so what the host has received is always a
prefix, each byte once, in order), and `tx_length` reads `min L len` whenever `tx` is valid. -/
theorem ss_descriptor_prefix (c : List Desc) (v k : Nat) (d : Desc) (L : Nat) (s : State)
    (r0 : Bool) (rs : List Bool)
    (hsel : select c v = some k) (hd : c[k]? = some d) (hb : BytesOK d.bytes)
    (hpos : 0 < d.len) (hlen : d.len < 65536) (hL : L < 65536) (hq : Quiescent k s) :
    ∃ g', (runState c s (⟨v, L, true, r0⟩ :: heldIns v L rs)).gens[k]? = some g' ∧
      delivered c s (⟨v, L, true, r0⟩ :: heldIns v L rs)
          ++ pending d L (runState c s (⟨v, L, true, r0⟩ :: heldIns v L rs)) g'
        = d.bytes.take (min L d.len) ∧
      ∀ x ∈ lengthsShown c s (⟨v, L, true, r0⟩ :: heldIns v L rs), x = min L d.len := by
  have htx0 : s.txValid = 0 := by obtain ⟨_, _, _, h⟩ := hq; exact h
  obtain ⟨g1, hi1, hp1, hx1⟩ := start_step c v k d L s r0 hsel hd hpos hq
  obtain ⟨g2, hi2, he2, hl2⟩ := run_inv c v k d L hsel hd hb hlen hL rs _ g1 hi1
  refine ⟨g2, hi2.gen, ?_, ?_⟩
  · simp only [delivered, runState, hx1, List.nil_append]
    rw [he2, hp1]
  · intro x hx
    simp only [lengthsShown, htx0, ne_eq, not_true_eq_false, if_false, List.nil_append] at hx
    exact hl2 x hx

/-- **C48 (descriptor data, exactness)**: when the handler has become quiescent again (generator no
longer streaming, tx register empty), the host has received exactly the first `min L len` bytes. -/
theorem ss_descriptor_complete (c : List Desc) (v k : Nat) (d : Desc) (L : Nat) (s : State)
    (r0 : Bool) (rs : List Bool)
    (hsel : select c v = some k) (hd : c[k]? = some d) (hb : BytesOK d.bytes)
    (hpos : 0 < d.len) (hlen : d.len < 65536) (hL : L < 65536) (hq : Quiescent k s)
    (hdone : ∀ g', (runState c s (⟨v, L, true, r0⟩ :: heldIns v L rs)).gens[k]? = some g' →
      g'.fsm ≠ .streaming)
    (hempty : (runState c s (⟨v, L, true, r0⟩ :: heldIns v L rs)).txValid = 0) :
    delivered c s (⟨v, L, true, r0⟩ :: heldIns v L rs) = d.bytes.take (min L d.len) := by
  obtain ⟨g', hg, he, _⟩ := ss_descriptor_prefix c v k d L s r0 rs hsel hd hb hpos hlen hL hq
  have h1 := hdone g' hg
  rw [← he]
  simp [pending, txBytes, genBytes, hempty, h1, cnt, wordBytes]

/-- **C48 (unknown descriptor)**: when no descriptor matches `value`, `stall` equals `start` in that
cycle and the tx register keeps its contents (nothing is ever loaded, so nothing is offered from an
empty register). -/
theorem ss_unknown_stalls (c : List Desc) (s : State) (i : In) (h : select c i.value = none) :
    (out c s i).stall = i.start ∧ (next c s i).txValid = s.txValid
      ∧ (next c s i).txData = s.txData ∧ (next c s i).txLen = s.txLen := by
  simp [out, next, h]

/-- `select` finds a descriptor exactly when some key matches, and then it is the first match. -/
theorem select_some (c : List Desc) (v k : Nat) (h : select c v = some k) :
    ∃ d, c[k]? = some d ∧ d.key = v := by
  unfold select at h
  rw [List.findIdx?_eq_some_iff_getElem] at h
  obtain ⟨hk, hkey, _⟩ := h
  exact ⟨c[k], by simp [hk], by simpa using hkey⟩

theorem select_none (c : List Desc) (v : Nat) : select c v = none ↔ ∀ d ∈ c, d.key ≠ v := by
  unfold select
  rw [List.findIdx?_eq_none_iff]
  simp

/- Non-vacuity: an 18-byte device descriptor and a 5-byte one; GET_DESCRIPTOR(0x0100, wLength 8)
with a stuttering consumer delivers bytes 0..7 and shows tx_length 8. -/
def demoC : List Desc :=
  [⟨0x0300, [4, 3, 9, 4, 0]⟩, ⟨0x0100, [18, 1, 0, 3, 0, 0, 0, 9, 0xd0, 0x16, 0x3b, 0x0f, 0, 0, 1, 2, 3, 1]⟩]

example : select demoC 0x0100 = some 1 := by decide
example : delivered demoC (init demoC) (⟨0x0100, 8, true, true⟩ :: heldIns 0x0100 8 [false, true, false, true, true, true])
    = [18, 1, 0, 3, 0, 0, 0, 9] := by decide
example : lengthsShown demoC (init demoC) (⟨0x0100, 8, true, true⟩ :: heldIns 0x0100 8 [false, true, false, true, true, true])
    = [8, 8, 8] := by decide
example : (out demoC (init demoC) ⟨0x0200, 8, true, true⟩).stall = true := by decide

end LunaVerif.SSDesc
