import LunaVerif.Props.C25RxUsbDrift
import LunaVerif.Lemmas.C25RxCdcDriftErr
/-!
# C25 (receive direction, end to end, under CLOCK DRIFT) — a bit-stuffing violation is reported while in progress

`stuff_error_seen_by_usb_drift`: same environment as `rx_delivers_to_usb_drift`, a packet whose bit stream after SYNC is
`pre ++ 1111111 ++ post` (anything before and after) as any `trackable` cell stream (`trackable_of_drift`: cell lengths 3,
4, 5 with the slips further apart than the longest run of the -- illegal -- packet): at one of the `usb` edges at which
`o_pkt_in_progress` (= `rx_active`) is high, `o_receive_error` (= `rx_error`) is high.  Proof: the error is latched from
the seventh 1 on and held over the end of the packet and the idle line (`err_sticky`, `eop_run`, `idle_gen`); the flags
FIFO is empty and settled when the end flag is written (the start flag was written ≥ 7 strobes ≥ 21 cycles earlier) and
shows it at the 4th `usb`-edge cycle after the write (`fifo_window`), when `o_pkt_in_progress` is still high
(`err_seen_core`).  Whatever the payload FIFO does in such a packet does not matter.
-/
set_option linter.unusedSimpArgs false
set_option linter.unusedVariables false
namespace LunaVerif.FsRxCdc
open LunaVerif.FsRx LunaVerif.FsCodec

/-- the same (`o_pkt_start`, `o_receive_error`) pair in every cycle at nominal rate ⇒ in every cycle under drift -/
theorem bitSEsD_const (v : Bool) (l : List (Nat × (Bool × Bool))) (hl : ∀ p ∈ l, 3 ≤ p.1) : ∀ a,
    (∀ p ∈ bitSEs a (l.map (·.2)), p = (false, v)) →
    (bitSEsD a l).map (·.2) = List.replicate (lsum l) v := by
  intro a h
  apply List.eq_replicate_iff.mpr
  refine ⟨by simp [bitSEsD_length l hl a], ?_⟩
  intro x hx
  obtain ⟨p, hp, rfl⟩ := List.mem_map.mp hx
  suffices hh : ∀ (l : List (Nat × (Bool × Bool))) a, (∀ p ∈ l, 3 ≤ p.1) → ∀ p ∈ bitSEsD a l, p ∈ bitSEs a (l.map (·.2)) by
    rw [h p (hh l a hl p hp)]
  intro l
  induction l with
  | nil => intro a _ p hp; simp [bitSEsD] at hp
  | cons q l ih =>
    intro a hl p hp
    obtain ⟨n, b⟩ := q
    simp only [bitSEsD, List.mem_append] at hp
    simp only [List.map, bitSEs, List.mem_append]
    rcases hp with hp | hp
    · left
      simp only [bitSEn, List.mem_append, List.mem_cons, List.mem_replicate, List.not_mem_nil, or_false] at hp
      simp only [bitSE, List.mem_cons, List.not_mem_nil, or_false]
      rcases hp with (hp | hp) | hp
      · exact Or.inl hp
      · exact Or.inr (Or.inl hp)
      · exact Or.inr (Or.inr (Or.inl hp.2))
    · right; exact ih _ (fun p hp => hl p (by simp [hp])) p hp

/-- **a bit-stuffing violation is reported while the packet is in progress, under clock drift** (see the module comment) -/
theorem stuff_error_seen_by_usb_drift (φ c0 : Nat) (hφ : φ < 4) (hc0 : c0 < 4) (pre post : List Bool)
    (cells : List Cell) (m : Nat)
    (hs : cells.map (·.1) =
      (nrzi true (syncBits ++ (pre ++ List.replicate 7 true ++ post))).map lvl ++ [.SE0, .SE0])
    (ht : trackable (packetCells cells (m + 4)) = true)
    (c : Nat) (e : Bool) (hc : c ≤ 6) (pp pf : Nat) (hpp : pp < 8) (hpf : pf < 8) (memp memf : List Nat)
    (hmp : memp.length = 4) (hmf : memf.length = 4) (k : Nat) :
    EvU.err ∈ evsU (runCdc φ (idleCdc c e pp memp pf memf c0) (rxInputD k cells (m + 4))).2 := by
  obtain ⟨a0c, prefx, l, h0, hprel, hquiet, hl, hbits, houts⟩ :=
    run_packetD_outs c e hc k (pre ++ List.replicate 7 true ++ post) (m + 4) cells hs ht
  obtain ⟨qp, qf, _⟩ := quiet_map_pay e prefx hquiet
  obtain ⟨os1, os2⟩ := outs_vstreams l hl ⟨0, a0c, srInit, e⟩ true
  -- the blocks
  let x := !lastLvl true (nrzi true (syncBits ++ (pre ++ List.replicate 7 true ++ post)))
  have hpb : packetBits (pre ++ List.replicate 7 true ++ post) (m + 4) =
      (List.replicate 7 (false, false) ++ [(true, false)]) ++ (fbits (pre ++ List.replicate 7 true ++ post) ++
        ((x, true) :: (true, true) :: (false, false) :: List.replicate (m + 5) (true, false))) := by
    simp only [packetBits, x]; rfl
  rw [hpb] at hbits
  obtain ⟨lS, lr, rfl, hS, hr⟩ := List.map_eq_append_iff.mp hbits
  obtain ⟨lA, lB, rfl, hA, hB⟩ := List.map_eq_append_iff.mp hS
  obtain ⟨n8, lB', rfl, hB'⟩ := map_snd_cons lB _ _ hB
  have : lB' = [] := by simpa using hB'
  subst this
  obtain ⟨lD, lT, rfl, hD, hT⟩ := List.map_eq_append_iff.mp hr
  obtain ⟨nT, lT', rfl, hT'⟩ := map_snd_cons lT _ _ hT
  have hlA : ∀ p ∈ lA, 3 ≤ p.1 := fun p hp => hl p (by simp [hp])
  have hn8 : 3 ≤ n8 := hl (n8, (true, false)) (by simp)
  have hlD : ∀ p ∈ lD, 3 ≤ p.1 := fun p hp => hl p (by simp [hp])
  have hnT : 3 ≤ nT := hl (nT, (x, true)) (by simp)
  have hlT' : ∀ p ∈ lT', 3 ≤ p.1 := fun p hp => hl p (by simp [hp])
  have hlT : ∀ p ∈ (nT, (x, true)) :: lT', 3 ≤ p.1 := by
    intro p hp
    rcases List.mem_cons.mp hp with rfl | hp
    · exact hnT
    · exact hlT' p hp
  have hlS : ∀ p ∈ lA ++ [(n8, (true, false))], 3 ≤ p.1 := by
    intro p hp
    rcases List.mem_append.mp hp with hp | hp
    · exact hlA p hp
    · rw [List.mem_singleton.mp hp]; exact hn8
  -- bit level
  obtain ⟨s1, _, s3⟩ := sync7 ⟨a0c, by omega⟩ e
  simp only at s1 s3
  obtain ⟨t1, _, t3⟩ := sync8 e
  obtain ⟨n1, sr1, e1, hn1, p1⟩ := active_run pre 1 srInit false (by omega)
  obtain ⟨n2, sr2, hn2, p2⟩ := seven_ones_run n1 hn1 sr1 e1
  obtain ⟨n3, sr3, p3, hn3⟩ := err_sticky post n2 sr2
  have hrunD : bitRun ⟨6, 1, srInit, false⟩ (lD.map (·.2)) = ⟨6, n3, sr3, true⟩ := by
    rw [hD]
    simp only [fbits, List.map_append] at p1 p2 p3 ⊢
    simp only [bitRun_append, p1, p2, p3]
  obtain ⟨⟨c1, hc1, q1⟩, _, q3⟩ := eop_run n3 sr3 x true (hn3 hn2)
  obtain ⟨_, q2⟩ := eop_streams n3 sr3 x true
  obtain ⟨_, r2⟩ := idle_streams (m + 5) 1 c1 srInit true (by omega)
  obtain ⟨_, _, i3⟩ := idle_gen (m + 5) 1 c1 true (by omega) hc1
  have hflD := active_flgs (pre ++ List.replicate 7 true ++ post) 1 srInit false
  have hxs : bitStep ⟨6, n3, sr3, true⟩ (x, true) = ⟨0, bsStep n3 x, srInit, true⟩ := by
    simp [bitStep, detStep]
  have hTF : bitFlg ⟨6, n3, sr3, true⟩ (x, true) = some 1 ∧
      bitFlgs ⟨0, bsStep n3 x, srInit, true⟩ (lT'.map (·.2)) = List.replicate (2 + (m + 5)) none := by
    have h0 : bitFlgs ⟨6, n3, sr3, true⟩ ((x, true) :: ((true, true) :: (false, false) ::
        List.replicate (m + 5) (true, false))) = some 1 :: (List.replicate 2 none ++ List.replicate (m + 5) none) := by
      have := bitFlgs_append [(x, true), (true, true), (false, false)] (List.replicate (m + 5) (true, false))
        ⟨6, n3, sr3, true⟩
      simp only [List.cons_append, List.nil_append] at this
      rw [this, q2, q1, r2]; rfl
    rw [bitFlgs, hxs] at h0
    injection h0 with h1 h2
    exact ⟨h1, by rw [hT', h2, List.replicate_append_replicate]⟩
  have hlT'len : lT'.length = m + 7 := by
    have : lT'.length = (lT'.map (·.2)).length := by simp
    rw [this, hT']; simp
  have hlDlen : 7 ≤ lD.length := by
    have : lD.length = (lD.map (·.2)).length := by simp
    rw [this, hD]; simp [fbits]; omega
  have htrue : ∀ p ∈ bitSEs ⟨6, n3, sr3, true⟩ (((nT, (x, true)) :: lT').map (·.2)), p = (false, true) := by
    have : ((nT, (x, true)) :: lT').map (·.2) = [(x, true), (true, true), (false, false)] ++
        List.replicate (m + 5) (true, false) := by simp [hT']
    rw [this, bitSEs_append, q1]
    intro p hp
    rcases List.mem_append.mp hp with hp | hp
    · exact q3 p hp
    · exact i3 p hp
  -- runs
  have hrunA : bitRun ⟨0, a0c, srInit, e⟩ (lA.map (·.2)) = ⟨5, 0, srInit, e⟩ := by rw [hA]; exact s1
  have hrunS : bitRun ⟨0, a0c, srInit, e⟩ ((lA ++ [(n8, (true, false))]).map (·.2)) = ⟨6, 1, srInit, false⟩ := by
    rw [List.map_append, bitRun_append, hrunA]; simp only [List.map, bitRun, t1]
  -- the flags stream
  have hFA : flatV 0 (blkF ⟨0, a0c, srInit, e⟩ lA) = List.replicate (lsum lA) none :=
    flatF_quiet lA hlA _ 7 (by rw [hA]; exact s3)
  have hFD : flatV 0 (blkF ⟨6, 1, srInit, false⟩ lD) = List.replicate (lsum lD) none :=
    flatF_quiet lD hlD _ _ (by rw [hD]; exact hflD)
  have hFT : flatV 0 (blkF ⟨0, bsStep n3 x, srInit, true⟩ lT') = List.replicate (lsum lT') none :=
    flatF_quiet lT' hlT' _ _ hTF.2
  have hFB : flatV 0 (blkF ⟨5, 0, srInit, e⟩ [(n8, (true, false))]) = some 2 :: List.replicate (n8 - 1) none := by
    simp only [blkF, flatV, t3, vblk, beq_self_eq_true, if_true, List.append_nil]
  have hFT2 : flatV 0 (blkF ⟨6, n3, sr3, true⟩ ((nT, (x, true)) :: lT')) =
      some 1 :: List.replicate (nT - 1 + lsum lT') none := by
    simp only [blkF, flatV, hTF.1, hxs, hFT, vblk, beq_self_eq_true, if_true, List.cons_append,
      List.replicate_append_replicate]
  have hF : List.replicate (k + 7) none ++ flatV 0 (blkF ⟨0, a0c, srInit, e⟩
        ((lA ++ [(n8, (true, false))]) ++ (lD ++ (nT, (x, true)) :: lT'))) =
      window (k + 7 + lsum lA) 2 (n8 - 1 + lsum lD) ++ window 0 1 (nT - 1 + lsum lT') := by
    rw [blkF_append, hrunS, blkF_append, hrunA, blkF_append, hrunD]
    simp only [flatV_append, hFA, hFD, hFB, hFT2, window, ← List.replicate_append_replicate, List.replicate_zero]
    simp only [List.append_assoc, List.cons_append, List.nil_append]
  -- the error stream
  have hE : prefx.map (·.rxErr) ++ (bitSEsD ⟨0, a0c, srInit, e⟩
        ((lA ++ [(n8, (true, false))]) ++ (lD ++ (nT, (x, true)) :: lT'))).map (·.2) =
      (prefx.map (·.rxErr) ++ ((bitSEsD ⟨0, a0c, srInit, e⟩ (lA ++ [(n8, (true, false))])).map (·.2) ++
        (bitSEsD ⟨6, 1, srInit, false⟩ lD).map (·.2))) ++ List.replicate (1 + (nT - 1 + lsum lT')) true := by
    rw [bitSEsD_append (lA ++ [(n8, (true, false))]), hrunS, bitSEsD_append lD, hrunD, List.map_append,
      List.map_append, bitSEsD_const true _ hlT _ htrue]
    have : lsum ((nT, (x, true)) :: lT') = 1 + (nT - 1 + lsum lT') := by simp only [lsum]; omega
    rw [this]
    simp only [List.append_assoc]
  have hE1l : (prefx.map (·.rxErr) ++ ((bitSEsD ⟨0, a0c, srInit, e⟩ (lA ++ [(n8, (true, false))])).map (·.2) ++
      (bitSEsD ⟨6, 1, srInit, false⟩ lD).map (·.2))).length = k + 7 + lsum lA + 1 + (n8 - 1 + lsum lD) := by
    simp only [List.length_append, List.length_map, hprel, bitSEsD_length _ hlS, bitSEsD_length _ hlD, lsum_append, lsum]
    omega
  have hKB : 16 ≤ n8 - 1 + lsum lD := by
    have := lsum_ge lD hlD
    omega
  have hK2 : 16 ≤ nT - 1 + lsum lT' := by
    have := lsum_ge lT' hlT'
    rw [hlT'len] at this
    omega
  -- streams of the run
  have hpayL : ((FsRx.run (idleSt c e) (rxInputD k cells (m + 4))).2.map payW).length =
      k + 7 + lsum lA + 1 + (n8 - 1 + lsum lD) + (1 + (nT - 1 + lsum lT')) := by
    rw [houts, List.map_append, qp, hprel, os1, List.length_append, List.length_replicate,
      flatV_length 2 _ (blkP_lens _ hl _), lenSum_blkP]
    simp only [lsum_append, lsum]
    omega
  have hflgS : (FsRx.run (idleSt c e) (rxInputD k cells (m + 4))).2.map flgW =
      window (k + 7 + lsum lA) 2 (n8 - 1 + lsum lD) ++ window 0 1 (nT - 1 + lsum lT') := by
    rw [houts, List.map_append, qf, hprel, os2, hF]
  have hErr : errSamples φ c0 (FsRx.run (idleSt c e) (rxInputD k cells (m + 4))).2 =
      smpB φ c0 ((prefx.map (·.rxErr) ++ ((bitSEsD ⟨0, a0c, srInit, e⟩ (lA ++ [(n8, (true, false))])).map (·.2) ++
        (bitSEsD ⟨6, 1, srInit, false⟩ lD).map (·.2))) ++ List.replicate (1 + (nT - 1 + lsum lT')) true) := by
    rw [errSamples_smpB, houts, List.map_append, outs_verrs _ hl, hE]
  obtain ⟨_, sp2⟩ := cdc_split φ (rxInputD k cells (m + 4)) (idleCdc c e pp memp pf memf c0) hc0
  simp only [idleCdc] at sp2 ⊢
  rw [sp2, hflgS, hErr, usbEv_eq_O]
  exact err_seen_core φ hφ _ _ _ _ hKB hK2 _ hE1l hpayL _ c0 pf memf hc0 hpf hmf

/-- the same with the envelope spelt out: at most `L - 1` consecutive 1s in the (illegal) packet, cell lengths 3, 4, 5 with
two cells of length ≠ 4 at least `M ≥ L + 1` cells apart, skew at J↔K transitions only -/
theorem stuff_error_seen_by_usb_drift_env (L M : Nat) (hL : 2 ≤ L) (hLM : L + 1 ≤ M)
    (φ c0 : Nat) (hφ : φ < 4) (hc0 : c0 < 4) (pre post : List Bool) (cells : List Cell) (m : Nat)
    (hs : cells.map (·.1) =
      (nrzi true (syncBits ++ (pre ++ List.replicate 7 true ++ post))).map lvl ++ [.SE0, .SE0])
    (hr : runOKL L 0 (syncBits ++ (pre ++ List.replicate 7 true ++ post)) = true)
    (hd : driftOk M M (cells.map (·.2.1)) = true) (hk : skewOk .J cells = true)
    (c : Nat) (e : Bool) (hc : c ≤ 6) (pp pf : Nat) (hpp : pp < 8) (hpf : pf < 8) (memp memf : List Nat)
    (hmp : memp.length = 4) (hmf : memf.length = 4) (k : Nat) :
    EvU.err ∈ evsU (runCdc φ (idleCdc c e pp memp pf memf c0) (rxInputD k cells (m + 4))).2 :=
  stuff_error_seen_by_usb_drift φ c0 hφ hc0 pre post cells m hs
    (trackable_of_drift L M hL hLM _ (m + 4) cells hs hr hd hk) c e hc pp pf hpp hpf memp memf hmp hmf k

/-- non-vacuity: seven 1s on a drifting line (a 5 and a 3), from reset, `usb` phase 2: the error is seen -/
example : EvU.err ∈ evsU (runCdc 2 {} (jn 15 ++ rxInputD 1 sevenCells 4)).2 ∧
    trackable (packetCells sevenCells 4) = true := by decide +kernel

end LunaVerif.FsRxCdc
