import LunaVerif.Model.Device.Endpoints
import LunaVerif.Model.Usb2.InTransferGate
import LunaVerif.Model.Usb2.EndpointMux
import LunaVerif.Model.Usb2.StreamOutEndpoint
import LunaVerif.Model.Usb2.SignalInEndpoint
/-!
# C12 — Endpoints only act on tokens for their own endpoint number

"A non-control endpoint transmits data or requests a handshake only in response to a token carrying its
own endpoint number and direction (IN endpoints: IN; OUT endpoints: OUT/PING); tokens, data and
handshakes exchanged with other endpoints never change what it sends next, its data toggle, or the data
it delivers."  Quantifier: all interleavings of traffic to several endpoints (same and different
numbers/directions) sharing one device.

Three layers:

1. `USBEndpointMultiplexer` / `OneHotMultiplexer` (`EpMux`): `mux_passes_selected` and companions — the
   shared transmit stream, PID select and halt-clear strobe are those of the single driving interface.
2. per-cycle non-interference of each endpoint kind, on the cycle-level models (`InGate` = control path of
   `USBInTransferManager` + `USBStreamInEndpoint`; `StreamOutEndpoint`; `SignalIn`):
   `*_step_foreign_is_silent` — in a cycle in which the token register does not show the endpoint's own
   number and direction it requests no handshake, does not start a transmission, does not move its
   data toggle and neither writes to nor commits/discards its stream buffer.
3. transaction level (`EpDev`): `foreign_transaction_invisible` — deleting a complete transaction that
   is addressed to another non-control endpoint from a host history does not change anything the
   endpoint puts out afterwards; `at_most_one_answers`.
-/
set_option linter.unusedSimpArgs false
set_option linter.unusedVariables false

namespace LunaVerif.C12
open LunaVerif

/-! ## 1. The multiplexer -/
section Mux
open EpMux

/-- "interface `k` is the only one with `p`" -/
def Only (p : Drv → Bool) (ds : List Drv) (k : Nat) : Prop :=
  ∃ d, ds[k]? = some d ∧ p d = true ∧ ∀ j d', j ≠ k → ds[j]? = some d' → p d' = false

/-- the same on the list of valid bits -/
def OnlyBit (bs : List Bool) (k : Nat) : Prop :=
  bs[k]? = some true ∧ ∀ (j : Nat) (b : Bool), j ≠ k → bs[j]? = some b → b = false

theorem onlyBit_tail {b : Bool} {bs : List Bool} {k : Nat} (h : OnlyBit (b :: bs) (k + 1)) :
    b = false ∧ OnlyBit bs k :=
  ⟨h.2 0 b (by omega) (by simp), by simpa using h.1,
   fun j x hj hx => h.2 (j + 1) x (by omega) (by simpa using hx)⟩

theorem countTrue_all_false (bs : List Bool) (h : ∀ (j : Nat) (b : Bool), bs[j]? = some b → b = false) : countTrue bs = 0 := by
  induction bs with
  | nil => rfl
  | cons b bs ih =>
    have hb : b = false := h 0 b (by simp)
    have := ih (fun j x hx => h (j + 1) x (by simpa using hx))
    simpa [countTrue, hb] using this

theorem countTrue_only (bs : List Bool) (k : Nat) (h : OnlyBit bs k) : countTrue bs = 1 := by
  induction bs generalizing k with
  | nil => simp [OnlyBit] at h
  | cons b bs ih =>
    cases k with
    | zero =>
      have hb : b = true := by simpa using h.1
      have hz := countTrue_all_false bs (fun j x hx => h.2 (j + 1) x (by omega) (by simpa using hx))
      simp [countTrue, hb] at hz ⊢; exact hz
    | succ k =>
      obtain ⟨hb, ht⟩ := onlyBit_tail h
      have := ih k ht
      simpa [countTrue, hb] using this

theorem firstIdx_only (bs : List Bool) (k : Nat) (h : OnlyBit bs k) : firstIdx bs = k := by
  induction bs generalizing k with
  | nil => simp [OnlyBit] at h
  | cons b bs ih =>
    cases k with
    | zero =>
      have hb : b = true := by simpa using h.1
      simp [firstIdx, hb]
    | succ k =>
      obtain ⟨hb, ht⟩ := onlyBit_tail h
      simp [firstIdx, hb, ih k ht]

theorem onlyBit_of_only (p : Drv → Bool) (ds : List Drv) (k : Nat) (h : Only p ds k) : OnlyBit (ds.map p) k := by
  obtain ⟨d, hk, hv, ho⟩ := h
  refine ⟨by simp [hk, hv], fun j b hj hb => ?_⟩
  simp only [List.getElem?_map, Option.map_eq_some_iff] at hb
  obtain ⟨d', hd', rfl⟩ := hb
  exact ho j d' hj hd'

theorem encoder_of_only (ds : List Drv) (k : Nat) (h : Only (·.valid) ds k) :
    encoderO (ds.map (·.valid)) = k := by
  have hb := onlyBit_of_only _ ds k h
  simp [encoderO, countTrue_only _ k hb, firstIdx_only _ k hb]

theorem any_of_only (p : Drv → Bool) (ds : List Drv) (k : Nat) (h : Only p ds k) : ds.any p = true := by
  obtain ⟨d, hk, hv, _⟩ := h
  exact List.any_eq_true.mpr ⟨d, List.mem_of_getElem? hk, hv⟩

/-- An OR-joined field equals the field of interface `k` when every other interface holds it low. -/
theorem any_eq_of_others_low (p : Drv → Bool) (ds : List Drv) (k : Nat) (d : Drv) (hk : ds[k]? = some d)
    (ho : ∀ j d', j ≠ k → ds[j]? = some d' → p d' = false) : ds.any p = p d := by
  cases hp : p d with
  | true => exact any_of_only p ds k ⟨d, hk, hp, ho⟩
  | false =>
    apply Bool.eq_false_iff.mpr
    intro h
    obtain ⟨x, hx, hpx⟩ := List.any_eq_true.mp h
    obtain ⟨j, hj⟩ := List.getElem?_of_mem hx
    by_cases hjk : j = k
    · subst hjk; rw [hk] at hj; cases hj; simp [hp] at hpx
    · simp [ho j x hjk hj] at hpx

/-- **mux_passes_selected**: when exactly one interface asserts `tx.valid`, the shared transmit stream is
valid and carries that interface's payload; its `first`/`last` are that interface's whenever the other
interfaces keep theirs low (which every endpoint does while it is not valid). -/
theorem mux_passes_selected (past : State) (ds : List Drv) (k : Nat) (d : Drv) (hk : ds[k]? = some d)
    (hv : d.valid = true) (ho : ∀ j d', j ≠ k → ds[j]? = some d' → d'.valid = false) :
    (outOf past ds).valid = true ∧ (outOf past ds).payload = d.payload ∧
    ((∀ j d', j ≠ k → ds[j]? = some d' → d'.first = false) → (outOf past ds).first = d.first) ∧
    ((∀ j d', j ≠ k → ds[j]? = some d' → d'.last = false) → (outOf past ds).last = d.last) := by
  have henc := encoder_of_only ds k ⟨d, hk, hv, ho⟩
  refine ⟨any_of_only _ ds k ⟨d, hk, hv, ho⟩, ?_, fun h => any_eq_of_others_low _ ds k d hk h,
          fun h => any_eq_of_others_low _ ds k d hk h⟩
  simp only [outOf, henc, hk]

/-- No valid interface: the shared stream is not valid. -/
theorem mux_idle (past : State) (ds : List Drv) (h : ∀ d ∈ ds, d.valid = false) :
    (outOf past ds).valid = false := by
  simp only [outOf]
  apply Bool.eq_false_iff.mpr
  intro hv
  obtain ⟨x, hx, hpx⟩ := List.any_eq_true.mp hv
  simp [h x hx] at hpx

/-- Two or more valid interfaces (outside the documented one-hot contract): `Encoder` reports index 0,
so the payload of interface 0 is passed — modelled as coded. -/
theorem mux_collision_takes_index0 (past : State) (ds : List Drv) (h : 2 ≤ countTrue (ds.map (·.valid))) :
    (outOf past ds).payload = (match ds[0]? with | some d => d.payload | none => 0) := by
  have : encoderO (ds.map (·.valid)) = 0 := by simp only [encoderO]; split <;> omega
  simp only [outOf, this]; rfl

theorem prio_of_only (l : List (Bool × Nat)) (k : Nat) (v : Nat) (hk : l[k]? = some (true, v))
    (ho : ∀ j x, j < k → l[j]? = some x → x.1 = false) : prio l = v := by
  induction l generalizing k with
  | nil => simp at hk
  | cons a as ih =>
    cases k with
    | zero => simp at hk; subst hk; simp [prio]
    | succ k =>
      have ha : a.1 = false := ho 0 a (by omega) (by simp)
      obtain ⟨c, w⟩ := a
      simp at ha; subst ha
      simp only [prio, Bool.false_eq_true, if_false]
      exact ih k (by simpa using hk) (fun j x hj hx => ho (j + 1) x (by omega) (by simpa using hx))

/-- The PID toggle handed to the packet generator is that of the interface that is (or in the previous
cycle was) transmitting, provided no interface listed before it is. -/
theorem mux_pid_of_transmitter (past : State) (ds : List Drv) (k : Nat) (d : Drv) (p : Bool)
    (hk : ds[k]? = some d) (hp : past[k]? = some p) (hv : (d.valid || p) = true)
    (ho : ∀ j d' p', j < k → ds[j]? = some d' → past[j]? = some p' → (d'.valid || p') = false) :
    (outOf past ds).pid = d.pid := by
  simp only [outOf]
  apply prio_of_only _ k
  · simp [List.getElem?_zipWith, hk, hp, hv]
  · intro j x hj hx
    simp only [List.getElem?_zipWith] at hx
    cases hd : ds[j]? with
    | none => simp [hd] at hx
    | some d' =>
      cases hq : past[j]? with
      | none => simp [hd, hq] at hx
      | some p' => simp [hd, hq] at hx; subst hx; exact ho j d' p' hj hd hq

theorem foldr_bitOr_single (ns : List Nat) (k v : Nat) (hk : ns[k]? = some v)
    (ho : ∀ j x, j ≠ k → ns[j]? = some x → x = 0) : ns.foldr bitOr 0 = v := by
  induction ns generalizing k with
  | nil => simp at hk
  | cons a as ih =>
    cases k with
    | zero =>
      simp at hk; subst hk
      have : as.foldr bitOr 0 = 0 := by
        clear ih
        induction as with
        | nil => rfl
        | cons b bs ih2 =>
          have hb : b = 0 := ho 1 b (by omega) (by simp)
          have := ih2 (fun j x hj hx => by
            cases j with
            | zero => exact absurd rfl hj
            | succ j => exact ho (j + 2) x (by omega) (by simpa using hx))
          simp [List.foldr, bitOr, hb, this]
      simp [List.foldr, bitOr, this]
    | succ k =>
      have ha : a = 0 := ho 0 a (by omega) (by simp)
      have := ih k (by simpa using hk) (fun j x hj hx => ho (j + 1) x (by omega) (by simpa using hx))
      simp [List.foldr, bitOr, ha, this]

/-- The halt-clear strobe seen by every endpoint (`clear_endpoint_halt_in` = the OR-join of all
`clear_endpoint_halt_out`) is exactly what the single driving interface (the control endpoint) puts out:
enable, direction and the 4-bit endpoint number. -/
theorem halt_clear_single_driver (past : State) (ds : List Drv) (k : Nat) (d : Drv) (hk : ds[k]? = some d)
    (ho : ∀ j d', j ≠ k → ds[j]? = some d' → d'.chEnable = false ∧ d'.chDir = false ∧ d'.chNum = 0) :
    (outOf past ds).chEnable = d.chEnable ∧ (outOf past ds).chDir = d.chDir ∧ (outOf past ds).chNum = d.chNum := by
  refine ⟨any_eq_of_others_low _ ds k d hk (fun j d' hj hd => (ho j d' hj hd).1),
          any_eq_of_others_low _ ds k d hk (fun j d' hj hd => (ho j d' hj hd).2.1), ?_⟩
  simp only [outOf]
  apply foldr_bitOr_single _ k
  · simp [hk]
  · intro j x hj hx
    simp only [List.getElem?_map, Option.map_eq_some_iff] at hx
    obtain ⟨d', hd', rfl⟩ := hx
    exact (ho j d' hj hd').2.2

/-- Handshake requests are OR-joined: the shared request equals that of the only requesting endpoint. -/
theorem mux_handshakes (past : State) (ds : List Drv) (k : Nat) (d : Drv) (hk : ds[k]? = some d)
    (ho : ∀ j d', j ≠ k → ds[j]? = some d' → d'.ack = false ∧ d'.nak = false ∧ d'.stall = false) :
    (outOf past ds).ack = d.ack ∧ (outOf past ds).nak = d.nak ∧ (outOf past ds).stall = d.stall :=
  ⟨any_eq_of_others_low _ ds k d hk (fun j d' hj hd => (ho j d' hj hd).1),
   any_eq_of_others_low _ ds k d hk (fun j d' hj hd => (ho j d' hj hd).2.1),
   any_eq_of_others_low _ ds k d hk (fun j d' hj hd => (ho j d' hj hd).2.2)⟩

example : (outOf [false, false, false] [{}, { valid := true, payload := 0x5A, last := true, pid := 1 }, {}]).payload = 0x5A := by decide
example : (outOf [false, true] [{ pid := 2 }, { pid := 1 }]).pid = 1 := by decide
example : (outOf [false, false] [{ valid := true, payload := 1 }, { valid := true, payload := 2 }]).payload = 1 := by decide

end Mux

/-! ## 2. Per-cycle non-interference of the endpoint kinds -/

/-! projections through the buffer-bookkeeping setters of `InGate` -/
namespace InGateLemmas
open InGate
@[simp] theorem setWFill_fsm (s : State) (v) : (setWFill s v).fsm = s.fsm := by unfold setWFill; split <;> rfl
@[simp] theorem setWEnded_fsm (s : State) (v) : (setWEnded s v).fsm = s.fsm := by unfold setWEnded; split <;> rfl
@[simp] theorem setRFill_fsm (s : State) (v) : (setRFill s v).fsm = s.fsm := by unfold setRFill; split <;> rfl
@[simp] theorem setREnded_fsm (s : State) (v) : (setREnded s v).fsm = s.fsm := by unfold setREnded; split <;> rfl
@[simp] theorem setWFill_pid0 (s : State) (v) : (setWFill s v).pid0 = s.pid0 := by unfold setWFill; split <;> rfl
@[simp] theorem setWEnded_pid0 (s : State) (v) : (setWEnded s v).pid0 = s.pid0 := by unfold setWEnded; split <;> rfl
@[simp] theorem setRFill_pid0 (s : State) (v) : (setRFill s v).pid0 = s.pid0 := by unfold setRFill; split <;> rfl
@[simp] theorem setREnded_pid0 (s : State) (v) : (setREnded s v).pid0 = s.pid0 := by unfold setREnded; split <;> rfl
@[simp] theorem setWFill_pid1 (s : State) (v) : (setWFill s v).pid1 = s.pid1 := by unfold setWFill; split <;> rfl
@[simp] theorem setWEnded_pid1 (s : State) (v) : (setWEnded s v).pid1 = s.pid1 := by unfold setWEnded; split <;> rfl
@[simp] theorem setRFill_pid1 (s : State) (v) : (setRFill s v).pid1 = s.pid1 := by unfold setRFill; split <;> rfl
@[simp] theorem setREnded_pid1 (s : State) (v) : (setREnded s v).pid1 = s.pid1 := by unfold setREnded; split <;> rfl

/-- The registers after steps (1) and (2) of `next` (PID reset, fill bookkeeping), before the FSM. -/
def pre (c : Config) (s : State) (i : In) : State :=
  let a := if i.resetSeq then { s with pid0 := !i.start1, pid1 := false } else s
  let wen := writeEn c s i
  let b := if i.discard then setREnded (setRFill (setWEnded (setWFill a 0) false) 0) false
           else if wen then setWFill a (wFill s + 1) else a
  if i.sLast && wen then setWEnded b true else b

@[simp] theorem pre_fsm (c : Config) (s : State) (i : In) : (pre c s i).fsm = s.fsm := by
  simp only [pre, apply_ite State.fsm, setWFill_fsm, setWEnded_fsm, setRFill_fsm, setREnded_fsm, ite_self]
@[simp] theorem pre_pid0 (c : Config) (s : State) (i : In) :
    (pre c s i).pid0 = if i.resetSeq then !i.start1 else s.pid0 := by
  simp only [pre, apply_ite State.pid0, setWFill_pid0, setWEnded_pid0, setRFill_pid0, setREnded_pid0, ite_self]
@[simp] theorem pre_pid1 (c : Config) (s : State) (i : In) :
    (pre c s i).pid1 = if i.resetSeq then false else s.pid1 := by
  simp only [pre, apply_ite State.pid1, setWFill_pid1, setWEnded_pid1, setRFill_pid1, setREnded_pid1, ite_self]

/-- `next` with its first two steps folded into `pre`. -/
theorem next_eq (c : Config) (s : State) (i : In) :
    next c s i =
      (let b := pre c s i
       match s.fsm with
       | .waitData =>
         if packetReady c s i then
           let d := setREnded b false
           if c.f8Repaired && i.resetSeq then
             { d with fsm := .waitSend, toggle := !s.toggle, pid0 := i.start1, pid1 := false }
           else { d with fsm := .waitSend, toggle := !s.toggle, pid0 := !s.pid0 }
         else b
       | .waitSend =>
         let d := { b with sendPos := 0 }
         if i.discard then { d with pid0 := !s.pid0, fsm := .waitData }
         else if i.resetSeq then { d with pid0 := i.start1, pid1 := false }
         else if inTokenReceived i then
           if rFill s != 0 then { d with fsm := .send, first := true }
           else { setREnded d false with fsm := .waitAck }
         else d
       | .send =>
         if i.txReady then
           let d := { b with sendPos := (s.sendPos + 1) % 2 ^ bitsFor c.mps, first := false }
           if s.sendPos + 1 == rFill s then { d with fsm := .waitAck } else d
         else b
       | .waitAck =>
         let d :=
           if i.discard then { b with fsm := .waitData }
           else if i.ack && i.active && i.isIn then
             let e := setRFill b 0
             if i.genZlp && rFill s == c.mps && rEnded s then { e with pid0 := !s.pid0, fsm := .waitSend }
             else if !sReady c s || packetReady c s i then
               { setREnded e false with fsm := .waitSend, toggle := !s.toggle, pid0 := !s.pid0 }
             else { e with fsm := .waitData }
           else b
         if i.newToken && !i.discard then { d with fsm := .waitSend } else d) := rfl

/-- The FSM state after a cycle, as a function of the FSM state before it and the inputs. -/
theorem next_fsm (c : Config) (s : State) (i : In) :
    (next c s i).fsm =
      match s.fsm with
      | .waitData => if packetReady c s i then .waitSend else .waitData
      | .waitSend =>
        if i.discard then .waitData else if i.resetSeq then .waitSend
        else if inTokenReceived i then (if rFill s != 0 then .send else .waitAck) else .waitSend
      | .send => if i.txReady && s.sendPos + 1 == rFill s then .waitAck else .send
      | .waitAck =>
        if i.newToken && !i.discard then .waitSend
        else if i.discard then .waitData
        else if i.ack && i.active && i.isIn then
          (if i.genZlp && rFill s == c.mps && rEnded s then .waitSend
           else if !sReady c s || packetReady c s i then .waitSend else .waitData)
        else .waitAck := by
  rw [next_eq]
  cases hf : s.fsm <;> simp only [] <;> (repeat' split) <;> simp_all
end InGateLemmas

section PerCycle
open InGateLemmas

/-- `USBStreamInEndpoint` / `USBInTransferManager`: the token register does not show an IN token for
this endpoint number. -/
def InForeign (c : InGate.Config) (i : InGate.EpIn) : Prop := i.tokEp ≠ c.epNum ∨ i.isIn = false

/-- **step_foreign_is_silent (stream IN)**.  In a cycle whose token register shows another endpoint
number, or a token that is not IN:
 * no NAK is requested, and `tx.valid` can only be high because a packet started earlier is still being
   sent (FSM already in SEND_PACKET) — in particular no transmission *starts* (the FSM does not enter
   SEND_PACKET, and no zero-length packet is emitted);
 * the `ready_for_response` strobe of that token is ignored altogether: registers and outputs are the
   same as without it (so the data toggle, the buffers and the stream handshake are untouched by it). -/
theorem in_step_foreign_is_silent (c : InGate.Config) (s : InGate.State) (i : InGate.EpIn) (h : InForeign c i) :
    (InGate.epStep c s i).2.nak = false ∧
    ((InGate.epStep c s i).2.valid = true → s.fsm = .send) ∧
    ((InGate.epStep c s i).1.fsm = .send → s.fsm = .send) ∧
    InGate.epStep c s i = InGate.epStep c s { i with rfr := false } := by
  have htok : InGate.inTokenReceived (InGate.wire c i) = false := by
    rcases h with h | h
    · simp [InGate.inTokenReceived, InGate.wire, h]
    · simp [InGate.inTokenReceived, InGate.wire, h]
  have htok' : InGate.inTokenReceived (InGate.wire c { i with rfr := false }) = false := by
    simp [InGate.inTokenReceived, InGate.wire]
  refine ⟨?_, ?_, ?_, ?_⟩
  · simp [InGate.epStep, InGate.step, InGate.outOf, htok]
  · simp only [InGate.epStep, InGate.step, InGate.outOf, htok]
    cases s.fsm <;> simp
  · simp only [InGate.epStep, InGate.step, next_fsm, htok]
    cases hf : s.fsm <;> simp <;> (repeat' split) <;> simp_all
  · simp only [InGate.epStep, InGate.step, Prod.mk.injEq]
    constructor
    · simp only [InGate.next, htok, htok']
      rfl
    · simp only [InGate.outOf, htok, htok']
      rfl

/-- The producer-side handshake of a stream IN endpoint never looks at the token register at all. -/
theorem in_stream_ready_ignores_tokens (c : InGate.Config) (s : InGate.State) (i : InGate.EpIn) :
    (InGate.epStep c s i).2.sReady = InGate.sReady c s := rfl

/-- `USBStreamOutEndpoint`: the token register shows another endpoint number, or neither OUT nor PING. -/
def OutForeign (c : StreamOutEndpoint.Config) (i : StreamOutEndpoint.In) : Prop :=
  i.tokEp ≠ c.epNum ∨ (i.tokIsOut = false ∧ i.tokIsPing = false)

/-- **step_foreign_is_silent (stream OUT)**: no handshake is requested, the expected data toggle only
moves by a halt-clear, and the FIFO sees no write, commit or discard (so the delivered stream is that of
the consumer side alone).  (Stated on the ports and on the FIFO command only, so that it is independent of
how the model's packet bookkeeping — `transfer_active`, `overflow` — is organised.) -/
theorem out_step_foreign_is_silent (c : StreamOutEndpoint.Config) (s : StreamOutEndpoint.State)
    (i : StreamOutEndpoint.In) (h : OutForeign c i) :
    (StreamOutEndpoint.step c s i).2.ack = false ∧ (StreamOutEndpoint.step c s i).2.nak = false ∧
    (StreamOutEndpoint.step c s i).1.expectedToggle = (if i.clearHalt then false else s.expectedToggle) ∧
    (StreamOutEndpoint.fifoIn c s i).wen = false ∧ (StreamOutEndpoint.fifoIn c s i).wcommit = false ∧
    (StreamOutEndpoint.fifoIn c s i).wdiscard = false := by
  rcases h with h | ⟨h1, h2⟩
  · have : (i.tokEp == c.epNum) = false := by simpa using h
    simp [StreamOutEndpoint.step, StreamOutEndpoint.outOf, StreamOutEndpoint.comb, StreamOutEndpoint.fifoIn, this]
  · simp [StreamOutEndpoint.step, StreamOutEndpoint.outOf, StreamOutEndpoint.comb, StreamOutEndpoint.fifoIn, h1, h2]

/-- A PING for the OUT endpoint itself is answered, but moves neither the toggle nor the FIFO. -/
theorem out_ping_changes_nothing (c : StreamOutEndpoint.Config) (s : StreamOutEndpoint.State)
    (i : StreamOutEndpoint.In) (h : i.tokIsOut = false) :
    (StreamOutEndpoint.step c s i).1.expectedToggle = (if i.clearHalt then false else s.expectedToggle) ∧
    (StreamOutEndpoint.fifoIn c s i).wen = false ∧ (StreamOutEndpoint.fifoIn c s i).wcommit = false ∧
    (StreamOutEndpoint.fifoIn c s i).wdiscard = false := by
  simp [StreamOutEndpoint.step, StreamOutEndpoint.comb, StreamOutEndpoint.fifoIn, h]

/-- `USBSignalInEndpoint`: the token register does not show an IN token for this endpoint number. -/
def SigForeign (c : SignalIn.Config) (i : SignalIn.In) : Prop := i.endpoint ≠ c.epNum ∨ i.isIn = false

/-- **step_foreign_is_silent (status IN)**: a waiting endpoint (IDLE / RETRANSMIT) keeps its FSM state and
`tx.valid` low; in no state does a transmission start; the toggle only moves on the host's ACK of the
endpoint's own packet (WAIT_FOR_ACK) or by a halt-clear naming the endpoint. -/
theorem sig_step_foreign_is_silent (c : SignalIn.Config) (s : SignalIn.State) (i : SignalIn.In)
    (h : SigForeign c i) :
    ((s.fsm = .idle ∨ s.fsm = .retransmit) →
        (SignalIn.step c s i).1.fsm = s.fsm ∧ (SignalIn.step c s i).2.valid = false) ∧
    ((SignalIn.step c s i).2.valid = true → s.fsm = .transmit) ∧
    ((SignalIn.step c s i).1.fsm = .transmit → s.fsm = .transmit) ∧
    ((SignalIn.step c s i).1.toggle ≠ s.toggle → (s.fsm = .waitAck ∧ i.ack = true) ∨ i.clearHalt = true) := by
  have hp : SignalIn.packetRequested c i = false := by
    rcases h with h | h
    · simp [SignalIn.packetRequested, h]
    · simp [SignalIn.packetRequested, h]
  obtain ⟨fsm, latched, sent, toggle⟩ := s
  cases hc : i.clearHalt <;> cases fsm <;> simp [SignalIn.step, SignalIn.stepCore, hp, hc] <;>
    (repeat' split) <;> simp_all [SignalIn.ackTaken]

end PerCycle

/-! ## 3. Transaction level -/
section Events
open EpDev
open LunaVerif.Device hiding step run final init LegalHost legalEvent legalFrom

/-- The part of the device endpoint `ec` can be influenced by: the control endpoint (token registers,
halt-clear strobe) and the endpoint itself.  `slice_of_run` shows that the endpoint's outputs inside the
whole device are those of this two-component machine, whatever the other endpoints do. -/
def sliceStep (c : DevConfig) (ec : EpCfg) (s : DevState × EpState) (e : HostEvent) :
    (DevState × EpState) × EpOut :=
  let r := epStep ec (sharedOf c s.1 e) s.2 e
  (((core c s.1 e).1, r.1), r.2)

def sliceRun (c : DevConfig) (ec : EpCfg) : DevState × EpState → List HostEvent → List EpOut
  | _, [] => []
  | s, e :: es => (sliceStep c ec s e).2 :: sliceRun c ec (sliceStep c ec s e).1 es

def sliceFinal (c : DevConfig) (ec : EpCfg) : DevState × EpState → List HostEvent → DevState × EpState
  | s, [] => s
  | s, e :: es => sliceFinal c ec (sliceStep c ec s e).1 es

/-- Endpoint `k`'s outputs in the whole device = the outputs of its slice: no other endpoint's state
enters. -/
theorem slice_of_run (c : Config) (k : Nat) (ec : EpCfg) (hk : c.eps[k]? = some ec) (h : List HostEvent) :
    ∀ (s : State) (ek : EpState), s.eps[k]? = some ek →
      (run c s h).map (fun o => o.eps[k]?) = (sliceRun c.dev ec (s.ctl, ek) h).map some := by
  induction h with
  | nil => intros; rfl
  | cons e es ih =>
    intro s ek hek
    have hstep : (step c s e).2.eps[k]? = some (sliceStep c.dev ec (s.ctl, ek) e).2 := by
      simp [step, stepEps, sliceStep, List.getElem?_zipWith, hk, hek]
    have hst : (step c s e).1.eps[k]? = some (sliceStep c.dev ec (s.ctl, ek) e).1.2 := by
      simp [step, stepEps, sliceStep, List.getElem?_zipWith, hk, hek]
    have hctl : (step c s e).1.ctl = (sliceStep c.dev ec (s.ctl, ek) e).1.1 := by
      simp [step, sliceStep]
    simp only [run, sliceRun, List.map_cons, hstep]
    congr 1
    have := ih (step c s e).1 _ hst
    rw [hctl] at this
    exact this

/-- Endpoint `ec` owns a token with this PID and endpoint number. -/
def owns (ec : EpCfg) (pid ep : Nat) : Bool :=
  ep == ec.num && (if dirIn ec.kind then pid == PID_IN else (pid == PID_OUT || pid == PID_PING))

/-- The state constructor matches the configured kind (true from reset on, preserved by every step). -/
def kindOk (ec : EpCfg) : EpState → Bool
  | .sin _ => ec.kind == .streamIn
  | .sout _ => ec.kind == .streamOut
  | .sig _ => ec.kind == .signalIn

theorem kindOk_init (ec : EpCfg) : kindOk ec (initEp ec) = true := by
  cases hk : ec.kind <;> simp [initEp, kindOk, hk]

theorem kindOk_step (ec : EpCfg) (sh : Shared) (st : EpState) (e : HostEvent) (h : kindOk ec st = true) :
    kindOk ec (epStep ec sh st e).1 = true := by
  cases st <;> cases e <;> simp only [epStep] <;> (repeat' split) <;> simpa [kindOk] using h

/-- An endpoint stays silent in every event whose token register does not show a token it owns. -/
theorem silent_of_not_owned (ec : EpCfg) (sh : Shared) (st : EpState) (e : HostEvent) (hk : kindOk ec st = true)
    (h : owns ec sh.tokPid sh.tokEp = false) : (epStep ec sh st e).2.resp = .none := by
  cases st with
  | sin s =>
    have hkind : ec.kind = .streamIn := by simpa [kindOk] using hk
    have h' : ¬(sh.tokEp = ec.num ∧ sh.tokPid = PID_IN) := by
      intro ⟨h1, h2⟩; simp [owns, dirIn, hkind, h1, h2] at h
    cases e <;> simp only [epStep] <;> (repeat' split) <;> first | rfl | (exfalso; simp_all)
  | sout s =>
    have hkind : ec.kind = .streamOut := by simpa [kindOk] using hk
    have h' : ¬(sh.tokEp = ec.num ∧ sh.tokPid = PID_PING) := by
      intro ⟨h1, h2⟩; simp [owns, dirIn, hkind, h1, h2] at h
    have h'' : ¬(sh.tokEp = ec.num ∧ sh.tokPid = PID_OUT) := by
      intro ⟨h1, h2⟩; simp [owns, dirIn, hkind, h1, h2] at h
    cases e <;> simp only [epStep] <;> (repeat' split) <;> first | rfl | (exfalso; simp_all)
  | sig s =>
    have hkind : ec.kind = .signalIn := by simpa [kindOk] using hk
    have h' : ¬(sh.tokEp = ec.num ∧ sh.tokPid = PID_IN) := by
      intro ⟨h1, h2⟩; simp [owns, dirIn, hkind, h1, h2] at h
    cases e <;> simp only [epStep] <;> (repeat' split) <;> first | rfl | (exfalso; simp_all)

/-- An endpoint transmits only in an event whose token register shows a token it owns. -/
theorem answers_only_own (ec : EpCfg) (sh : Shared) (st : EpState) (e : HostEvent) (hk : kindOk ec st = true)
    (h : (epStep ec sh st e).2.resp ≠ .none) : owns ec sh.tokPid sh.tokEp = true := by
  cases ho : owns ec sh.tokPid sh.tokEp with
  | true => rfl
  | false => exact absurd (silent_of_not_owned ec sh st e hk ho) h

/-- Two different endpoints of a well-formed configuration never own the same token. -/
theorem owns_exclusive (a b : EpCfg) (pid ep : Nat)
    (hab : (a.num == b.num && dirIn a.kind == dirIn b.kind) = false)
    (ha : owns a pid ep = true) (hb : owns b pid ep = true) : False := by
  simp only [owns, Bool.and_eq_true, beq_iff_eq] at ha hb
  have hn : a.num = b.num := by rw [← ha.1, ← hb.1]
  have hd : dirIn a.kind = dirIn b.kind := by
    cases hda : dirIn a.kind <;> cases hdb : dirIn b.kind <;> simp_all [PID_IN, PID_OUT, PID_PING]
  simp [hn, hd] at hab

/-- **at_most_one_answers**: in a device whose endpoints have distinct (number, direction), at most one
non-control endpoint transmits in any event — the OR-merge of the multiplexer never mixes two answers. -/
theorem at_most_one_answers (cs : List EpCfg) (hw : wellFormed cs = true) (sh : Shared) (e : HostEvent)
    (i j : Nat) (hij : i < j) (ci cj : EpCfg) (si sj : EpState)
    (hci : cs[i]? = some ci) (hcj : cs[j]? = some cj)
    (hki : kindOk ci si = true) (hkj : kindOk cj sj = true)
    (hi : (epStep ci sh si e).2.resp ≠ .none) : (epStep cj sh sj e).2.resp = .none := by
  apply Classical.byContradiction
  intro hj
  have hoi := answers_only_own ci sh si e hki hi
  have hoj := answers_only_own cj sh sj e hkj hj
  have hpw : cs.Pairwise (fun a b => (!(a.num == b.num && dirIn a.kind == dirIn b.kind)) = true) := by
    simp only [wellFormed, Bool.and_eq_true, decide_eq_true_eq] at hw
    exact hw.2
  have hi' : i < cs.length := (List.getElem?_eq_some_iff.mp hci).1
  have hj' : j < cs.length := (List.getElem?_eq_some_iff.mp hcj).1
  have := List.pairwise_iff_getElem.mp hpw i j hi' hj' hij
  rw [(List.getElem?_eq_some_iff.mp hci).2, (List.getElem?_eq_some_iff.mp hcj).2] at this
  exact owns_exclusive ci cj _ _ (by simpa using Bool.not_eq_true' _ |>.mp this) hoi hoj

/-! ### foreign_transaction_invisible -/

/-- What `new_token` does to an endpoint that waits for an ACK: it will retransmit. -/
def settle : EpState → EpState
  | .sin s => .sin (inNewToken s)
  | .sout s => .sout s
  | .sig s => .sig (sigNewToken s)

/-- The control state without the three registers every accepted token overwrites. -/
def clearRegs (s : DevState) : DevState := { s with tokPid := 0, tokEp := 0, sdWait := false }

/-- Two slices that behave alike from the next accepted token on. -/
def Sim (a b : DevState × EpState) : Prop := clearRegs a.1 = clearRegs b.1 ∧ settle a.2 = settle b.2

/-- Events outside any transaction: application-side stream events, idle time, start of frame. -/
def isIdleEvent : HostEvent → Bool
  | .produce .. => true
  | .consume .. => true
  | .setSignal .. => true
  | .quiet => true
  | .sof _ => true
  | _ => false

/-- What follows the token inside a transaction: a data packet, a handshake, or silence. -/
def isFollowUp : HostEvent → Bool
  | .data .. => true
  | .handshake _ => true
  | .quiet => true
  | _ => false

theorem afterToken_clearRegs (s : DevState) (pid ep : Nat) :
    afterToken (clearRegs s) pid ep = afterToken s pid ep := by
  simp [afterToken, clearRegs, tokenStage]

theorem onToken_clearRegs (c : DevConfig) (s : DevState) (pid ep : Nat) :
    onToken c (clearRegs s) pid ep = onToken c s pid ep := by
  simp only [onToken, afterToken_clearRegs]

theorem clearRegs_afterToken (s : DevState) (pid ep : Nat) (hpid : pid ≠ PID_SETUP) (hep : ep ≠ 0) :
    clearRegs (afterToken s pid ep) = clearRegs s := by
  simp [afterToken, clearRegs, tokenStage, hpid, hep]

/-- The token of a foreign transaction: the endpoint only notes that a new token has arrived. -/
theorem foreign_token_step (c : DevConfig) (ec : EpCfg) (s : DevState × EpState) (pid ep : Nat)
    (hk : kindOk ec s.2 = true) (hep : ep ≠ 0) (hown : owns ec pid ep = false) :
    sliceStep c ec s (.token pid s.1.address ep) = ((afterToken s.1 pid ep, settle s.2), {}) := by
  obtain ⟨ctl, st⟩ := s
  have hcore : core c ctl (.token pid ctl.address ep) = (afterToken ctl pid ep, .none) := by
    simp [core, onToken, hep]
  have hsh : sharedOf c ctl (.token pid ctl.address ep) =
      { tokPid := pid, tokEp := ep, newTok := true, halt := none } := by
    simp [sharedOf, hcore, acceptedToken, haltStrobe, afterToken]
  simp only [sliceStep, hcore, hsh]
  cases st with
  | sin x =>
    have hkind : ec.kind = .streamIn := by simpa [kindOk] using hk
    have h' : ¬(ep = ec.num ∧ pid = PID_IN) := by
      intro ⟨h1, h2⟩; simp [owns, dirIn, hkind, h1, h2] at hown
    simp [epStep, haltHits, settle, h']
  | sout x =>
    have hkind : ec.kind = .streamOut := by simpa [kindOk] using hk
    have h' : ¬(ep = ec.num ∧ pid = PID_PING) := by
      intro ⟨h1, h2⟩; simp [owns, dirIn, hkind, h1, h2] at hown
    simp [epStep, haltHits, settle, h']
  | sig x =>
    have hkind : ec.kind = .signalIn := by simpa [kindOk] using hk
    have h' : ¬(ep = ec.num ∧ pid = PID_IN) := by
      intro ⟨h1, h2⟩; simp [owns, dirIn, hkind, h1, h2] at hown
    simp [epStep, haltHits, settle, h']

/-- The packets that follow a foreign token leave the slice exactly as it is. -/
theorem foreign_followup_step (c : DevConfig) (ec : EpCfg) (t : DevState × EpState) (e : HostEvent)
    (hk : kindOk ec t.2 = true) (hep : t.1.tokEp ≠ 0) (hsd : t.1.sdWait = false)
    (hown : owns ec t.1.tokPid t.1.tokEp = false) (he : isFollowUp e = true) :
    sliceStep c ec t e = (t, {}) := by
  obtain ⟨ctl, st⟩ := t
  simp only at hep hsd hown
  have hcore : core c ctl e = (ctl, .none) := by
    cases e <;> simp [isFollowUp] at he <;> simp [core, onData, onHandshake, hep, hsd]
  have hsh : sharedOf c ctl e = { tokPid := ctl.tokPid, tokEp := ctl.tokEp, newTok := false, halt := none } := by
    cases e <;> simp [isFollowUp] at he <;> simp [sharedOf, hcore, acceptedToken, haltStrobe, hep]
  simp only [sliceStep, hcore, hsh]
  cases st with
  | sin x =>
    have hkind : ec.kind = .streamIn := by simpa [kindOk] using hk
    have h' : ¬(ctl.tokEp = ec.num ∧ ctl.tokPid = PID_IN) := by
      intro ⟨h1, h2⟩; simp [owns, dirIn, hkind, h1, h2] at hown
    cases e <;> simp [isFollowUp] at he <;> simp [epStep, haltHits, h']
  | sout x =>
    have hkind : ec.kind = .streamOut := by simpa [kindOk] using hk
    have h' : ¬(ctl.tokEp = ec.num ∧ ctl.tokPid = PID_OUT) := by
      intro ⟨h1, h2⟩; simp [owns, dirIn, hkind, h1, h2] at hown
    cases e <;> simp [isFollowUp] at he <;> simp [epStep, haltHits, h']
  | sig x =>
    have hkind : ec.kind = .signalIn := by simpa [kindOk] using hk
    have h' : ¬(ctl.tokEp = ec.num ∧ ctl.tokPid = PID_IN) := by
      intro ⟨h1, h2⟩; simp [owns, dirIn, hkind, h1, h2] at hown
    cases e <;> simp [isFollowUp] at he <;> simp [epStep, haltHits, h']

theorem foreign_followups (c : DevConfig) (ec : EpCfg) (t : DevState × EpState) (rest : List HostEvent)
    (hk : kindOk ec t.2 = true) (hep : t.1.tokEp ≠ 0) (hsd : t.1.sdWait = false)
    (hown : owns ec t.1.tokPid t.1.tokEp = false) (hrest : ∀ e ∈ rest, isFollowUp e = true) :
    sliceFinal c ec t rest = t ∧ ∀ o ∈ sliceRun c ec t rest, o = {} := by
  induction rest with
  | nil => simp [sliceFinal, sliceRun]
  | cons e es ih =>
    have h1 := foreign_followup_step c ec t e hk hep hsd hown (hrest e (by simp))
    have := ih (fun x hx => hrest x (by simp [hx]))
    simp only [sliceFinal, sliceRun, h1, List.mem_cons]
    exact ⟨this.1, fun o ho => ho.elim (fun h => h) (this.2 o)⟩

theorem inFeed_settle (mps : Nat) (s : InState) (b : Nat) (last : Bool) :
    inFeed mps (inNewToken s) b last = (inNewToken (inFeed mps s b last).1, (inFeed mps s b last).2) := by
  obtain ⟨fsm, pid, wbuf, wended, rbuf, rended⟩ := s
  cases fsm <;> simp only [inFeed, inNewToken] <;> (repeat' split) <;> simp_all

theorem inProduce_settle (mps : Nat) (bytes : List Nat) (last : Bool) (s : InState) :
    inProduce mps (inNewToken s) bytes last = (inNewToken (inProduce mps s bytes last).1, (inProduce mps s bytes last).2) := by
  induction bytes generalizing s with
  | nil => rfl
  | cons b bs ih =>
    simp only [inProduce, inFeed_settle]
    split
    · simp only [ih]
    · rfl

theorem inNewToken_idem (s : InState) : inNewToken (inNewToken s) = inNewToken s := by
  obtain ⟨fsm, pid, wbuf, wended, rbuf, rended⟩ := s
  cases fsm <;> simp [inNewToken]

theorem sigNewToken_idem (s : SigState) : sigNewToken (sigNewToken s) = sigNewToken s := by
  obtain ⟨fsm, latched, toggle, signal⟩ := s
  cases fsm <;> simp [sigNewToken]

/-- An idle event commutes with `settle` and its outputs do not depend on the settled part. -/
theorem idle_step_settle (ec : EpCfg) (sh sh' : Shared) (st : EpState) (e : HostEvent)
    (hn : sh.newTok = false) (hh : sh.halt = none) (hn' : sh'.newTok = false) (hh' : sh'.halt = none)
    (he : isIdleEvent e = true) :
    (epStep ec sh' (settle st) e).1 = settle (epStep ec sh st e).1 ∧ (epStep ec sh' (settle st) e).2 = (epStep ec sh st e).2 := by
  cases st with
  | sin x =>
    cases e <;> simp [isIdleEvent] at he <;>
      simp [epStep, settle, haltHits, hn, hh, hn', hh', inProduce_settle] <;> split <;> simp [inProduce_settle]
  | sout x =>
    cases e <;> simp [isIdleEvent] at he <;>
      simp [epStep, settle, haltHits, hn, hh, hn', hh'] <;> split <;> simp
  | sig x =>
    cases e <;> simp [isIdleEvent] at he <;>
      simp [epStep, settle, haltHits, hn, hh, hn', hh'] <;> split <;> simp [sigNewToken] <;> (try (split <;> rfl))

theorem core_idle (c : DevConfig) (s : DevState) (e : HostEvent) (he : isIdleEvent e = true) :
    core c s e = (s, .none) := by
  cases e <;> simp [isIdleEvent] at he <;> rfl

theorem shared_idle (c : DevConfig) (s : DevState) (e : HostEvent) (he : isIdleEvent e = true) :
    (sharedOf c s e).newTok = false ∧ (sharedOf c s e).halt = none := by
  cases e <;> simp [isIdleEvent] at he <;> simp [sharedOf, acceptedToken, haltStrobe]

/-- Idle events keep two similar slices similar and draw the same outputs from them. -/
theorem sim_idle_step (c : DevConfig) (ec : EpCfg) (a b : DevState × EpState) (e : HostEvent)
    (h : Sim a b) (he : isIdleEvent e = true) :
    Sim (sliceStep c ec a e).1 (sliceStep c ec b e).1 ∧ (sliceStep c ec a e).2 = (sliceStep c ec b e).2 ∧
    (sliceStep c ec a e).1.1 = a.1 ∧ (sliceStep c ec b e).1.1 = b.1 := by
  obtain ⟨ha, hb⟩ := shared_idle c a.1 e he, shared_idle c b.1 e he
  have h1 := idle_step_settle ec (sharedOf c a.1 e) (sharedOf c a.1 e) a.2 e ha.1 ha.2 ha.1 ha.2 he
  have h2 := idle_step_settle ec (sharedOf c b.1 e) (sharedOf c a.1 e) b.2 e hb.1 hb.2 ha.1 ha.2 he
  simp only [sliceStep, core_idle c _ e he, Sim]
  refine ⟨⟨h.1, ?_⟩, ?_, trivial, trivial⟩
  · rw [← h1.1, ← h2.1, h.2]
  · rw [← h1.2, ← h2.2, h.2]

/-- An accepted token makes two similar slices equal: the three token registers are overwritten, and an
endpoint that was still waiting for an ACK falls back to "retransmit" in both. -/
theorem sim_token_step (c : DevConfig) (ec : EpCfg) (a b : DevState × EpState) (pid ep : Nat) (h : Sim a b) :
    sliceStep c ec a (.token pid a.1.address ep) = sliceStep c ec b (.token pid a.1.address ep) := by
  obtain ⟨ca, sa⟩ := a
  obtain ⟨cb, sb⟩ := b
  obtain ⟨hc, hs⟩ := h
  simp only at hc hs
  have haddr : ca.address = cb.address := by
    have := congrArg DevState.address hc; simpa [clearRegs] using this
  have hcore : core c ca (.token pid ca.address ep) = core c cb (.token pid ca.address ep) := by
    simp only [core, haddr, if_true]
    rw [← onToken_clearRegs c ca, ← onToken_clearRegs c cb, hc]
  have hsh : sharedOf c ca (.token pid ca.address ep) = sharedOf c cb (.token pid ca.address ep) := by
    simp only [sharedOf, hcore, acceptedToken, haltStrobe]; simp [haddr]
  have hnt : (sharedOf c cb (.token pid ca.address ep)).newTok = true := by
    simp [sharedOf, acceptedToken, haddr]
  simp only [sliceStep, hcore, hsh]
  have hep : epStep ec (sharedOf c cb (.token pid ca.address ep)) sa (.token pid ca.address ep)
           = epStep ec (sharedOf c cb (.token pid ca.address ep)) sb (.token pid ca.address ep) := by
    generalize sharedOf c cb (.token pid ca.address ep) = sh at hnt
    cases sa <;> cases sb <;> simp [settle] at hs <;> simp [epStep, hnt, hs]
  rw [hep]

theorem sim_run (c : DevConfig) (ec : EpCfg) (idle : List HostEvent) (hidle : ∀ e ∈ idle, isIdleEvent e = true) :
    ∀ (a b : DevState × EpState) (post : List HostEvent), Sim a b →
      (post = [] ∨ ∃ p e' tl, post = .token p a.1.address e' :: tl) →
      sliceRun c ec a (idle ++ post) = sliceRun c ec b (idle ++ post) := by
  induction idle with
  | nil =>
    intro a b post h hp
    rcases hp with rfl | ⟨p, e', tl, rfl⟩
    · rfl
    · simp only [List.nil_append, sliceRun, sim_token_step c ec a b p e' h]
  | cons e es ih =>
    intro a b post h hp
    have hs := sim_idle_step c ec a b e h (hidle e (by simp))
    simp only [List.cons_append, sliceRun, hs.2.1]
    congr 1
    apply ih (fun x hx => hidle x (by simp [hx])) _ _ post hs.1
    rw [hs.2.2.1]; exact hp

/-- **foreign_transaction_invisible** (slice form).  `s` is the state of the control endpoint and of
endpoint `ec` at some point of a host history.  A transaction `token pid addr ep :: rest` follows whose
token the device accepts (`addr` = its address) and which is addressed to another non-control endpoint
(`ep ≠ 0`, not a SETUP, and `ec` does not own `(pid, ep)`: other number, or same number in the other
direction); `rest` are its data / handshake packets or the host's silence.  Then

 * during the transaction `ec` puts out nothing (no response, no application-side activity), and
 * whatever follows — stream events and idle time (`idle`), then the next transaction (`post` begins with
   a token the device accepts; by `LegalHost` nothing else can follow a complete transaction) — draws
   exactly the outputs from `ec` that it would have drawn had the foreign transaction not happened. -/
theorem foreign_transaction_invisible (c : DevConfig) (ec : EpCfg) (s : DevState × EpState)
    (pid ep : Nat) (rest idle post : List HostEvent)
    (hk : kindOk ec s.2 = true) (hpid : pid ≠ PID_SETUP) (hep : ep ≠ 0) (hown : owns ec pid ep = false)
    (hrest : ∀ e ∈ rest, isFollowUp e = true) (hidle : ∀ e ∈ idle, isIdleEvent e = true)
    (hpost : post = [] ∨ ∃ p e' tl, post = .token p s.1.address e' :: tl) :
    (∀ o ∈ sliceRun c ec s (.token pid s.1.address ep :: rest), o = {}) ∧
    sliceRun c ec (sliceFinal c ec s (.token pid s.1.address ep :: rest)) (idle ++ post)
      = sliceRun c ec s (idle ++ post) := by
  have h1 := foreign_token_step c ec s pid ep hk hep hown
  have hk' : kindOk ec (settle s.2) = true := by
    cases hs : s.2 <;> simp [settle, kindOk, hs] at hk ⊢ <;> exact hk
  have h2 := foreign_followups c ec (afterToken s.1 pid ep, settle s.2) rest hk'
    (by simpa [afterToken] using hep) (by simp [afterToken, hpid])
    (by simpa [afterToken] using hown) hrest
  constructor
  · intro o ho
    simp only [sliceRun, h1, List.mem_cons] at ho
    exact ho.elim (fun h => h) (h2.2 o)
  · simp only [sliceFinal, h1, h2.1]
    apply sim_run c ec idle hidle
    · refine ⟨clearRegs_afterToken s.1 pid ep hpid hep, ?_⟩
      cases hs : s.2 <;> simp [settle, inNewToken_idem, sigNewToken_idem]
    · simpa [afterToken] using hpost

/-- The state of endpoint `k` and of the control endpoint inside the whole device follow the slice. -/
theorem slice_of_final (c : Config) (k : Nat) (ec : EpCfg) (hk : c.eps[k]? = some ec) (h : List HostEvent) :
    ∀ (s : State) (ek : EpState), s.eps[k]? = some ek →
      (EpDev.final c s h).ctl = (sliceFinal c.dev ec (s.ctl, ek) h).1 ∧
      (EpDev.final c s h).eps[k]? = some (sliceFinal c.dev ec (s.ctl, ek) h).2 := by
  induction h with
  | nil => intro s ek hek; exact ⟨rfl, hek⟩
  | cons e es ih =>
    intro s ek hek
    have hst : (EpDev.step c s e).1.eps[k]? = some (sliceStep c.dev ec (s.ctl, ek) e).1.2 := by
      simp [EpDev.step, stepEps, sliceStep, List.getElem?_zipWith, hk, hek]
    have hctl : (EpDev.step c s e).1.ctl = (sliceStep c.dev ec (s.ctl, ek) e).1.1 := by
      simp [EpDev.step, sliceStep]
    have := ih (EpDev.step c s e).1 _ hst
    rw [hctl] at this
    simpa [EpDev.final, sliceFinal] using this

/-- **foreign_transaction_invisible** on the whole device: for endpoint `k` of any configuration, in any
device state `s` (in particular any state reached by a `LegalHost` history), the outputs of endpoint `k`
after a complete transaction addressed to another non-control endpoint are those it would have produced
without that transaction — whatever the other endpoints are and do. -/
theorem foreign_transaction_invisible_device (c : Config) (k : Nat) (ec : EpCfg) (hc : c.eps[k]? = some ec)
    (s : State) (ek : EpState) (hek : s.eps[k]? = some ek) (hk : kindOk ec ek = true)
    (pid ep : Nat) (rest idle post : List HostEvent)
    (hpid : pid ≠ PID_SETUP) (hep : ep ≠ 0) (hown : owns ec pid ep = false)
    (hrest : ∀ e ∈ rest, isFollowUp e = true) (hidle : ∀ e ∈ idle, isIdleEvent e = true)
    (hpost : post = [] ∨ ∃ p e' tl, post = .token p s.ctl.address e' :: tl) :
    (EpDev.run c (EpDev.final c s (.token pid s.ctl.address ep :: rest)) (idle ++ post)).map (fun o => o.eps[k]?)
      = (EpDev.run c s (idle ++ post)).map (fun o => o.eps[k]?) := by
  have hf := slice_of_final c k ec hc (.token pid s.ctl.address ep :: rest) s ek hek
  rw [slice_of_run c k ec hc _ _ _ hf.2, slice_of_run c k ec hc _ s ek hek, hf.1]
  congr 1
  exact (foreign_transaction_invisible c.dev ec (s.ctl, ek) pid ep rest idle post hk hpid hep hown hrest hidle hpost).2

/-! ### Non-vacuity: a concrete instance (IN 1 and OUT 1 share their number; IN 2 is a third endpoint) -/

def exCfg : Config :=
  { eps := [⟨.streamIn, 1, 4, 0⟩, ⟨.streamOut, 1, 4, 7⟩, ⟨.streamIn, 2, 4, 0⟩] }

/-- endpoint IN 1 sent DATA0 `[1,2]` and got no ACK -/
def exPre : List HostEvent := [.produce 1 [1, 2] true, .token PID_IN 0 1]
/-- a complete OUT transaction for the OUT endpoint with the same number -/
def exForeign : List HostEvent := [.token PID_OUT 0 1, .data PID_DATA0 [9] true]
/-- the producer adds a packet, the host asks again and ACKs, then asks for the next packet -/
def exPost : List HostEvent :=
  [.produce 1 [7] true, .token PID_IN 0 1, .handshake PID_ACK, .token PID_IN 0 1]

/-- with and without the foreign transaction endpoint IN 1 retransmits DATA0 `[1,2]`, then sends DATA1 `[7]` -/
example : ((run exCfg (EpDev.final exCfg (EpDev.init exCfg) (exPre ++ exForeign)) exPost).map (fun o => o.eps[0]?))
    = [some { app := [1] }, some { resp := .data PID_DATA0 [1, 2] }, some ({} : EpOut), some { resp := .data PID_DATA1 [7] }] := by
  decide
example : ((run exCfg (EpDev.final exCfg (EpDev.init exCfg) exPre) exPost).map (fun o => o.eps[0]?))
    = [some { app := [1] }, some { resp := .data PID_DATA0 [1, 2] }, some ({} : EpOut), some { resp := .data PID_DATA1 [7] }] := by
  decide
/-- the hypotheses of `foreign_transaction_invisible` hold for this instance -/
example : owns ⟨.streamIn, 1, 4, 0⟩ PID_OUT 1 = false ∧ (∀ e ∈ exForeign.tail, isFollowUp e = true) ∧
    (∀ e ∈ [HostEvent.produce 1 [7] true], isIdleEvent e = true) := by decide
/-- … and the statement is not trivially true: deleting one of the endpoint's OWN transactions is visible -/
example : ((run exCfg (EpDev.init exCfg) exPost).map (fun o => o.eps[0]?))
    ≠ ((run exCfg (EpDev.final exCfg (EpDev.init exCfg) exPre) exPost).map (fun o => o.eps[0]?)) := by
  decide

end Events

end LunaVerif.C12
