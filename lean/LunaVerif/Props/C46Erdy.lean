import LunaVerif.Props.C46Once
import LunaVerif.Props.C46Framing
import LunaVerif.Model.Usb3.SSInLoop
/-!
# C46 — the endpoint wired to the transaction packet generator: NRDY, then ERDY, within a bound

"… answers an IN request with a data packet when it holds data (NRDY otherwise), notifies the host with ERDY
once data becomes available after an NRDY …"

The theorems of `Props/C46.lean`, `C46Once.lean`, `C46Framing.lean` are about the endpoint with the completion of
its ERDY as an input (`In.done`).  Here the endpoint is wired as the library wires it
(`Model/Usb3/SSInLoop.lean`): `handshakes_out` connected to the `TransactionPacketGenerator` (model of C45),
directly or through `SuperSpeedEndpointMultiplexer`, the generator feeding the header queue (`qReady`).  The
generator pulses `done` for *every* packet it completes.  The unrepaired endpoint took the `done` of its own NRDY
for the `done` of the ERDY it had just started to request whenever the packet completed while the NRDY was still in
the generator (`unrepaired_loses_erdy`); the repaired endpoint honours `done` only after the generator has taken the
ERDY request (`erdy_in_flight`).

* `hs_refines_core`, `loop_refines_core` — the wired endpoint is the `In.done` endpoint run on the inputs
  `done := handshakes_out.done ∧ erdy_in_flight`: every theorem about `next`/`out` (all inputs) applies.
* `loop_exactly_once`, `loop_framing` — the history-level host-view theorems for closed-loop histories.
* `loop_inv_run` — `erdy_in_flight ↔ generator in SEND_ERDY`, only in REQUEST_IN_TOKEN; the generator only ever sends
  NRDY / ERDY, for this endpoint (`loop_tp_names_endpoint`).
* `loop_nrdy_then_erdy` — all closed-loop histories from reset: from an NRDY request until an ERDY transaction packet
  has been handed to the header queue the endpoint starts no data packet and no ZLP.
* `loop_erdy_within_bound` — all closed-loop histories from reset: if an ERDY is owed and the packet completes in
  cycle `i` (or has completed: REQUEST_IN_TOKEN), and the header queue never lets `L + 1` consecutive cycles pass
  without `ready`, the ERDY transaction packet is handed to the queue within `2 L + 4` cycles.
-/
namespace LunaVerif.SSInLoop
open LunaVerif LunaVerif.SSStreamIn

/-! ## The endpoint's outputs do not depend on `done` -/

theorem out_done_irrel (c : SSStreamIn.Config) (s : SSStreamIn.State) (i : SSStreamIn.In) (d : Bool) :
    SSStreamIn.out c s { i with done := d } = SSStreamIn.out c s i := by
  unfold SSStreamIn.out SSStreamIn.control
  cases hf : s.fsm <;> simp only [] <;> grind

theorem outHs_eq (c : SSStreamIn.Config) (s : HsState) (i : HsIn) :
    (outHs c s i).base = SSStreamIn.out c s.core i.base := by
  simp only [outHs, effIn]; exact out_done_irrel c s.core i.base _

/-- the endpoint's outputs in the loop are those of the core model on the inputs it effectively sees -/
theorem epOut_base (c : Config) (s : State) (i : In) :
    (epOut c s i).base = SSStreamIn.out c.ep s.ep.core (effIn s.ep (epIn c s i)) := by
  simp only [epOut, outHs, effIn, epIn]
  rw [out_done_irrel]
  exact (out_done_irrel c.ep s.ep.core i.ep _).symm


/-! ## Refinement: the wired endpoint is the `In.done` endpoint on the inputs it effectively sees -/

/-- one cycle of the endpoint with `handshakes_out.ready/done` and `erdy_in_flight` is one cycle of the core model
with `done := handshakes_out.done ∧ erdy_in_flight`; every one-step theorem of `Props/C46.lean` (they hold for all
inputs) therefore applies to it. -/
theorem hs_refines_core (c : SSStreamIn.Config) (s : HsState) (i : HsIn) :
    (nextHs c s i).core = SSStreamIn.next c s.core (effIn s i) ∧
      (outHs c s i).base = SSStreamIn.out c s.core (effIn s i) ∧
      (outHs c s i).base = SSStreamIn.out c s.core i.base :=
  ⟨rfl, rfl, outHs_eq c s i⟩

/-- a closed-loop history: per cycle the loop's inputs and the link oracle of the host observer -/
def runGL (c : Config) : State → Ghost → List (In × Bool) → State × Ghost
  | s, g, [] => (s, g)
  | s, g, (i, d) :: r => runGL c (next c s i) (gnext i.ep (out c s i).ep.base d g) r

def runFL (c : Config) : State → Ghost → Frame → List (In × Bool) → State × Ghost × Frame
  | s, g, f, [] => (s, g, f)
  | s, g, f, (i, d) :: r =>
    runFL c (next c s i) (gnext i.ep (out c s i).ep.base d g) (fnext c.ep.mps i.ep (out c s i).ep.base d g f) r

def envAllL (c : Config) : State → Ghost → List (In × Bool) → Bool
  | _, _, [] => true
  | s, g, (i, d) :: r =>
    decide (EnvOK c.ep g i.ep (out c s i).ep.base) && envAllL c (next c s i) (gnext i.ep (out c s i).ep.base d g) r

/-- the inputs the endpoint FSM effectively sees along a closed-loop run -/
def coreHist (c : Config) : State → List (In × Bool) → List (SSStreamIn.In × Bool)
  | _, [] => []
  | s, (i, d) :: r => (effIn s.ep (epIn c s i), d) :: coreHist c (next c s i) r

theorem gnext_done_irrel (i : SSStreamIn.In) (b : Bool) (o : SSStreamIn.Out) (d : Bool) (g : Ghost) :
    gnext { i with done := b } o d g = gnext i o d g := rfl

theorem fnext_done_irrel (m : Nat) (i : SSStreamIn.In) (b : Bool) (o : SSStreamIn.Out) (d : Bool) (g : Ghost)
    (f : Frame) : fnext m { i with done := b } o d g f = fnext m i o d g f := rfl

theorem envOK_done_irrel (c : SSStreamIn.Config) (g : Ghost) (i : SSStreamIn.In) (b : Bool) (o : SSStreamIn.Out) :
    EnvOK c g { i with done := b } o ↔ EnvOK c g i o := Iff.rfl

theorem loop_refines_core (c : Config) (h : List (In × Bool)) (s : State) (g : Ghost) :
    ((runGL c s g h).1.ep.core, (runGL c s g h).2) = runG c.ep s.ep.core g (coreHist c s h) := by
  induction h generalizing s g with
  | nil => rfl
  | cons e r ih =>
    obtain ⟨i, d⟩ := e
    simp only [runGL, coreHist, runG]
    rw [ih]
    have ho : (out c s i).ep.base = SSStreamIn.out c.ep s.ep.core (effIn s.ep (epIn c s i)) := epOut_base c s i
    rw [ho]
    rfl

theorem loop_refines_frame (c : Config) (h : List (In × Bool)) (s : State) (g : Ghost) (f : Frame) :
    ((runFL c s g f h).1.ep.core, (runFL c s g f h).2) = runF c.ep s.ep.core g f (coreHist c s h) := by
  induction h generalizing s g f with
  | nil => rfl
  | cons e r ih =>
    obtain ⟨i, d⟩ := e
    simp only [runFL, coreHist, runF]
    rw [ih]
    have ho : (out c s i).ep.base = SSStreamIn.out c.ep s.ep.core (effIn s.ep (epIn c s i)) := epOut_base c s i
    rw [ho]
    rfl

theorem envAllL_eq (c : Config) (h : List (In × Bool)) (s : State) (g : Ghost) :
    envAllL c s g h = envAll c.ep s.ep.core g (coreHist c s h) := by
  induction h generalizing s g with
  | nil => rfl
  | cons e r ih =>
    obtain ⟨i, d⟩ := e
    simp only [envAllL, coreHist, envAll]
    rw [ih]
    have ho : (out c s i).ep.base = SSStreamIn.out c.ep s.ep.core (effIn s.ep (epIn c s i)) := epOut_base c s i
    rw [ho]
    rfl

/-- **loop_exactly_once**: `ss_in_exactly_once` for the endpoint wired to the transaction packet generator — for
every closed-loop history allowed by the environment, at every reachable cycle, bytes accepted by the host ++ bytes
held by the endpoint = bytes accepted from the producer. -/
theorem loop_exactly_once (c : Config) (hc : CfgOK c.ep) (hist : List (In × Bool))
    (henv : envAllL c (init c) Ghost.init hist = true) :
    (runGL c (init c) Ghost.init hist).2.deliv ++
        pending (runGL c (init c) Ghost.init hist).1.ep.core (runGL c (init c) Ghost.init hist).2 =
      (runGL c (init c) Ghost.init hist).2.prod := by
  have e := loop_refines_core c hist (init c) Ghost.init
  rw [envAllL_eq] at henv
  have h := ss_in_exactly_once c.ep hc (coreHist c (init c) hist) henv
  have e1 : (runGL c (init c) Ghost.init hist).1.ep.core =
      (runG c.ep (SSStreamIn.init c.ep) Ghost.init (coreHist c (init c) hist)).1 := congrArg Prod.fst e
  have e2 : (runGL c (init c) Ghost.init hist).2 =
      (runG c.ep (SSStreamIn.init c.ep) Ghost.init (coreHist c (init c) hist)).2 := congrArg Prod.snd e
  rw [e1, e2]; exact h

/-- **loop_framing**: `ss_in_framing` for closed-loop histories. -/
theorem loop_framing (c : Config) (hc : CfgOK c.ep) (hist : List (In × Bool))
    (henv : envAllL c (init c) Ghost.init hist = true) :
    (runFL c (init c) Ghost.init Frame.init hist).2.2.pkts ++
        pendingPkts c.ep (runFL c (init c) Ghost.init Frame.init hist).1.ep.core
          (runFL c (init c) Ghost.init Frame.init hist).2.1 =
      (runFL c (init c) Ghost.init Frame.init hist).2.2.exp := by
  have e := loop_refines_frame c hist (init c) Ghost.init Frame.init
  rw [envAllL_eq] at henv
  have h := ss_in_framing c.ep hc (coreHist c (init c) hist) henv
  have e1 : (runFL c (init c) Ghost.init Frame.init hist).1.ep.core =
      (runF c.ep (SSStreamIn.init c.ep) Ghost.init Frame.init (coreHist c (init c) hist)).1 := congrArg Prod.fst e
  have e2 : (runFL c (init c) Ghost.init Frame.init hist).2 =
      (runF c.ep (SSStreamIn.init c.ep) Ghost.init Frame.init (coreHist c (init c) hist)).2 := congrArg Prod.snd e
  rw [e1, e2]; exact h


/-! ## The loop invariant: `erdy_in_flight` ↔ the generator is sending this endpoint's ERDY -/

/-- the generator hands an ERDY transaction packet to the header queue in this cycle -/
def erdyHanded (s : State) (i : In) : Bool := decide (s.gen.fsm = .sendErdy) && i.qReady

/-- ghost flag: an NRDY has been requested and no ERDY transaction packet has reached the header queue since -/
def owedNextL (c : Config) (s : State) (i : In) (owed : Bool) : Bool :=
  if (out c s i).ep.base.sendNrdy then true
  else if erdyHanded s i then false
  else owed

structure LoopInv (c : Config) (s : State) (owed : Bool) : Prop where
  genk : s.gen.fsm = .dispatch ∨ s.gen.fsm = .sendNrdy ∨ s.gen.fsm = .sendErdy
  genep : s.gen.fsm ≠ .dispatch → s.gen.ep = c.ep.ep % 128
  fl : s.ep.flight = true ↔ s.gen.fsm = .sendErdy
  flreq : s.ep.flight = true → s.ep.core.fsm = .reqIn
  owed : owed = true → (s.ep.core.fsm = .waitData ∨ s.ep.core.fsm = .reqIn) ∧ s.ep.core.erdyReq = true

theorem epOut_erdy (c : Config) (s : State) (i : In) :
    (epOut c s i).base.sendErdy = decide (s.ep.core.fsm = .reqIn) := by
  rw [epOut_base]
  have h := erdy_iff c.ep s.ep.core (effIn s.ep (epIn c s i))
  simp only [SSStreamIn.out]
  cases hq : (control c.ep s.ep.core (effIn s.ep (epIn c s i))).erdy
  · have : ¬ s.ep.core.fsm = .reqIn := fun hh => by rw [h.2 hh] at hq; cases hq
    simp [this]
  · simp [h.1 hq]

theorem epOut_nrdy_not_reqIn (c : Config) (s : State) (i : In) (h : (epOut c s i).base.sendNrdy = true) :
    s.ep.core.fsm ≠ .reqIn := by
  rw [epOut_base] at h
  intro hf
  simp [SSStreamIn.out, SSStreamIn.control, hf] at h

theorem epOut_hsEp (c : Config) (s : State) (i : In) : (epOut c s i).hsEp = c.ep.ep % 128 := rfl

theorem sel_erdy (c : Config) (s : State) (i : In) :
    (selected c s i && (epOut c s i).base.sendErdy) = (epOut c s i).base.sendErdy := by
  unfold selected
  cases c.viaMux <;> cases (epOut c s i).base.sendNrdy <;> cases (epOut c s i).base.sendErdy <;> rfl

theorem sel_nrdy (c : Config) (s : State) (i : In) :
    (selected c s i && (epOut c s i).base.sendNrdy) = (epOut c s i).base.sendNrdy := by
  unfold selected
  cases c.viaMux <;> cases (epOut c s i).base.sendNrdy <;> cases (epOut c s i).base.sendErdy <;> rfl

theorem sel_of_req (c : Config) (s : State) (i : In)
    (h : (epOut c s i).base.sendNrdy = true ∨ (epOut c s i).base.sendErdy = true) : selected c s i = true := by
  unfold selected
  rcases h with h | h <;> simp [h]

/-- the generator's next state -/
theorem gen_next_dispatch (c : Config) (s : State) (i : In) (h : s.gen.fsm = .dispatch) :
    (next c s i).gen.fsm = (if (epOut c s i).base.sendErdy then .sendErdy
        else if (epOut c s i).base.sendNrdy then .sendNrdy else .dispatch) ∧
      (next c s i).gen.ep = (if selected c s i then c.ep.ep % 128 else 0) % 128 := by
  simp only [next, TransactionPacketGenerator.step, h, genIn, TransactionPacketGenerator.dispatchNext,
    TransactionPacketGenerator.repaired, sel_erdy, sel_nrdy, epOut_hsEp]
  simp

theorem gen_next_send (c : Config) (s : State) (i : In) (h : s.gen.fsm ≠ .dispatch) :
    (next c s i).gen = { s.gen with fsm := if i.qReady then .dispatch else s.gen.fsm } := by
  cases s with
  | mk e g =>
    cases g with
    | mk f a b c' d =>
      cases f
      · exact absurd rfl h
      all_goals rfl

theorem genOut_dispatch (c : Config) (s : State) (i : In) (h : s.gen.fsm = .dispatch) :
    (genOut c s i).ifReady = true ∧ (genOut c s i).done = false ∧ (genOut c s i).valid = false := by
  simp [genOut, TransactionPacketGenerator.step, h]

theorem genOut_send (c : Config) (s : State) (i : In) (h : s.gen.fsm ≠ .dispatch) :
    (genOut c s i).ifReady = false ∧ (genOut c s i).done = i.qReady ∧ (genOut c s i).valid = true ∧
      (genOut c s i).header = TransactionPacketGenerator.headerOf s.gen.fsm s.gen := by
  cases s with
  | mk e g =>
    cases g with
    | mk f a b c' d =>
      cases f
      · exact absurd rfl h
      all_goals exact ⟨rfl, rfl, rfl, rfl⟩

/-- the endpoint side of one closed-loop cycle -/
theorem ep_next_core (c : Config) (s : State) (i : In) :
    (next c s i).ep.core = SSStreamIn.next c.ep s.ep.core (effIn s.ep (epIn c s i)) := rfl

theorem ep_next_flight (c : Config) (s : State) (i : In) :
    (next c s i).ep.flight =
      (if s.ep.core.fsm = .reqIn then
        (if (selected c s i && (genOut c s i).done) && s.ep.flight then false
         else s.ep.flight || (selected c s i && (genOut c s i).ifReady))
       else s.ep.flight) := rfl

/-- what REQUEST_IN_TOKEN sees as `done` -/
theorem eff_done (c : Config) (s : State) (i : In) :
    (effIn s.ep (epIn c s i)).done = ((selected c s i && (genOut c s i).done) && s.ep.flight) := rfl

theorem core_fsm_reqIn (c : SSStreamIn.Config) (s : SSStreamIn.State) (i : SSStreamIn.In) (h : s.fsm = .reqIn) :
    (SSStreamIn.next c s i).fsm = (if i.done then .waitSend else .reqIn) ∧
      (SSStreamIn.next c s i).erdyReq = (if i.done then false else s.erdyReq) := by
  simp [SSStreamIn.next, SSStreamIn.control, h]


/-- under the invariant, "REQUEST_IN_TOKEN sees done" is exactly "the ERDY packet is handed to the header queue" -/
theorem eff_done_iff_handed (c : Config) (s : State) (i : In) (owed : Bool) (h : LoopInv c s owed) :
    ((epOut c s i).base.sendErdy && (effIn s.ep (epIn c s i)).done) = erdyHanded s i := by
  rw [eff_done, epOut_erdy, erdyHanded]
  rcases h.genk with hg | hg | hg
  · have hfl : s.ep.flight = false := by
      cases hq : s.ep.flight
      · rfl
      · have := h.fl.1 hq; rw [hg] at this; cases this
    simp [hg, hfl]
  · have hfl : s.ep.flight = false := by
      cases hq : s.ep.flight
      · rfl
      · have := h.fl.1 hq; rw [hg] at this; cases this
    simp [hg, hfl]
  · have hfl : s.ep.flight = true := h.fl.2 hg
    have hreq := h.flreq hfl
    have hsel : selected c s i = true := sel_of_req c s i (Or.inr (by rw [epOut_erdy]; simp [hreq]))
    have hd := (genOut_send c s i (by rw [hg]; intro hh; cases hh)).2.1
    simp [hg, hfl, hreq, hsel, hd]

theorem owedNext_eq (c : Config) (s : State) (i : In) (owed : Bool) (h : LoopInv c s owed) :
    owedNext c.ep s.ep.core (effIn s.ep (epIn c s i)) owed = owedNextL c s i owed := by
  have h1 := eff_done_iff_handed c s i owed h
  have h2 := epOut_base c s i
  unfold owedNext owedNextL
  simp only [out]
  rw [← h2, h1]
  rfl

/-- **the loop invariant is inductive** -/
theorem loop_inv_step (c : Config) (s : State) (i : In) (owed : Bool) (h : LoopInv c s owed) :
    LoopInv c (next c s i) (owedNextL c s i owed) := by
  have howed : OwedInv (next c s i).ep.core (owedNextL c s i owed) := by
    rw [← owedNext_eq c s i owed h, ep_next_core]
    exact owed_step c.ep s.ep.core _ owed h.owed
  have hed := eff_done c s i
  rcases h.genk with hg | hg | hg
  · -- DISPATCH_REQUESTS: a request of this cycle is taken
    have hfl : s.ep.flight = false := by
      cases hq : s.ep.flight
      · rfl
      · have := h.fl.1 hq; rw [hg] at this; cases this
    obtain ⟨hn1, hn2⟩ := gen_next_dispatch c s i hg
    obtain ⟨hr, hd, _⟩ := genOut_dispatch c s i hg
    have hfl' := ep_next_flight c s i
    rw [hfl, hr, hd] at hfl'
    rw [hfl, hd] at hed
    by_cases hreq : s.ep.core.fsm = .reqIn
    · have he : (epOut c s i).base.sendErdy = true := by rw [epOut_erdy]; simp [hreq]
      have hsel := sel_of_req c s i (Or.inr he)
      have hc := core_fsm_reqIn c.ep s.ep.core (effIn s.ep (epIn c s i)) hreq
      rw [he] at hn1; rw [hsel] at hn2
      refine ⟨Or.inr (Or.inr (by simpa using hn1)), fun _ => by rw [hn2]; simp, ?_, ?_, howed⟩
      · simp [hfl', hreq, hsel, hn1]
      · intro _; rw [ep_next_core, hc.1]; simp [hed]
    · have he : (epOut c s i).base.sendErdy = false := by rw [epOut_erdy]; simp [hreq]
      rw [he] at hn1
      have hflf : (next c s i).ep.flight = false := by simp [hfl', hreq]
      refine ⟨?_, ?_, ?_, ?_, howed⟩
      · cases hn : (epOut c s i).base.sendNrdy <;> simp [hn] at hn1 <;> simp [hn1]
      · intro hne
        cases hn : (epOut c s i).base.sendNrdy
        · simp [hn] at hn1; exact absurd hn1 hne
        · rw [hn2, sel_of_req c s i (Or.inl hn)]; simp
      · rw [hflf]
        cases hn : (epOut c s i).base.sendNrdy <;> simp [hn] at hn1 <;> simp [hn1]
      · rw [hflf]; intro hh; cases hh
  · -- SEND_NRDY: its done is not for the endpoint's ERDY
    have hfl : s.ep.flight = false := by
      cases hq : s.ep.flight
      · rfl
      · have := h.fl.1 hq; rw [hg] at this; cases this
    have hne : s.gen.fsm ≠ .dispatch := by rw [hg]; intro hh; cases hh
    have hn := gen_next_send c s i hne
    obtain ⟨hr, hd, _⟩ := genOut_send c s i hne
    have hfl' := ep_next_flight c s i
    rw [hfl, hr] at hfl'
    have hflf : (next c s i).ep.flight = false := by
      rw [hfl']; split <;> simp
    refine ⟨?_, ?_, ?_, ?_, howed⟩
    · rw [hn]; cases i.qReady <;> simp [hg]
    · intro _; rw [hn]; exact h.genep hne
    · rw [hflf, hn]; cases i.qReady <;> simp [hg]
    · rw [hflf]; intro hh; cases hh
  · -- SEND_ERDY: the endpoint waits in REQUEST_IN_TOKEN with erdy_in_flight
    have hfl : s.ep.flight = true := h.fl.2 hg
    have hreq := h.flreq hfl
    have hne : s.gen.fsm ≠ .dispatch := by rw [hg]; intro hh; cases hh
    have hsel : selected c s i = true := sel_of_req c s i (Or.inr (by rw [epOut_erdy]; simp [hreq]))
    have hn := gen_next_send c s i hne
    obtain ⟨hr, hd, _⟩ := genOut_send c s i hne
    have hfl' := ep_next_flight c s i
    rw [hfl, hr, hd, hsel] at hfl'
    rw [hfl, hd, hsel] at hed
    have hc := core_fsm_reqIn c.ep s.ep.core (effIn s.ep (epIn c s i)) hreq
    refine ⟨?_, ?_, ?_, ?_, howed⟩
    · rw [hn]; cases i.qReady <;> simp [hg]
    · intro _; rw [hn]; exact h.genep hne
    · rw [hfl', hn]; cases i.qReady <;> simp [hg, hreq]
    · rw [hfl', ep_next_core, hc.1, hed]; cases i.qReady <;> simp [hreq]


theorem loop_inv_init (c : Config) : LoopInv c (init c) false := by
  refine ⟨Or.inl rfl, fun h => absurd rfl h, ⟨?_, ?_⟩, ?_, ?_⟩ <;> intro h <;> cases h

/-- a closed-loop history (inputs only) with the ghost flag -/
def runL (c : Config) : State → Bool → List In → State × Bool
  | s, o, [] => (s, o)
  | s, o, i :: is => runL c (next c s i) (owedNextL c s i o) is

theorem loop_inv_run (c : Config) (is : List In) (s : State) (o : Bool) (h : LoopInv c s o) :
    LoopInv c (runL c s o is).1 (runL c s o is).2 := by
  induction is generalizing s o with
  | nil => exact h
  | cons i is ih => exact ih _ _ (loop_inv_step c s i o h)

/-- **loop_nrdy_then_erdy** (all closed-loop histories from reset): in any cycle in which an ERDY is still owed —
an NRDY has been requested and no ERDY transaction packet has been handed to the header queue since — the endpoint
neither strobes a ZLP nor loads a data word, whatever the inputs of that cycle: no data packet starts between an NRDY
and the ERDY the host actually gets. -/
theorem loop_nrdy_then_erdy (c : Config) (hist : List In) (i : SSStreamIn.In)
    (ho : (runL c (init c) false hist).2 = true) :
    transmits c.ep (runL c (init c) false hist).1.ep.core i = false := by
  have hinv := loop_inv_run c hist (init c) false (loop_inv_init c)
  obtain ⟨hf, _⟩ := hinv.owed ho
  obtain ⟨h1, h2⟩ := no_transmit c.ep _ i hf
  simp [transmits, SSStreamIn.out, h1, h2]

/-- every transaction packet the generator offers to the header queue in the closed loop is an NRDY or an ERDY
naming this endpoint (4-bit field), direction IN -/
theorem loop_tp_names_endpoint (c : Config) (hist : List In) (i : In)
    (hv : (genOut c (runL c (init c) false hist).1 i).valid = true) :
    (genOut c (runL c (init c) false hist).1 i).header.dw1 =
        TransactionPacketGenerator.SUB_NRDY + 2 ^ 7 + 2 ^ 8 * (c.ep.ep % 128 % 16) ∨
      (genOut c (runL c (init c) false hist).1 i).header.dw1 =
        TransactionPacketGenerator.SUB_ERDY + 2 ^ 7 + 2 ^ 8 * (c.ep.ep % 128 % 16) + 2 ^ 16 := by
  have hinv := loop_inv_run c hist (init c) false (loop_inv_init c)
  generalize (runL c (init c) false hist).1 = s at hv hinv
  rcases hinv.genk with hg | hg | hg
  · rw [(genOut_dispatch c s i hg).2.2] at hv; cases hv
  · have hne : s.gen.fsm ≠ .dispatch := by rw [hg]; intro hh; cases hh
    left
    rw [(genOut_send c s i hne).2.2.2, hg]
    simp [TransactionPacketGenerator.headerOf, hinv.genep hne]
  · have hne : s.gen.fsm ≠ .dispatch := by rw [hg]; intro hh; cases hh
    right
    rw [(genOut_send c s i hne).2.2.2, hg]
    simp [TransactionPacketGenerator.headerOf, hinv.genep hne]


/-! ## Liveness with a bound: the ERDY reaches the header queue within `2 L + 4` cycles -/

/-- environment: the header queue never lets more than `L` consecutive cycles pass without `ready`
(`w` = cycles without `ready` immediately before the list) -/
def QOK (L : Nat) : Nat → List In → Bool
  | _, [] => true
  | w, i :: is => if i.qReady = true then QOK L 0 is else (decide (w < L) && QOK L (w + 1) is)

/-- an ERDY transaction packet is handed to the header queue in one of the cycles of the run -/
def erdySent (c : Config) : State → List In → Bool
  | _, [] => false
  | s, i :: is => erdyHanded s i || erdySent c (next c s i) is

/-- cycles until the ERDY is handed over, at most: the packet in progress, one DISPATCH cycle, the ERDY -/
def remaining (L : Nat) (s : State) (w : Nat) : Nat :=
  match s.gen.fsm with
  | .sendErdy => L - w + 1
  | .dispatch => 1 + (L + 1)
  | _ => (L - w + 1) + 1 + (L + 1)

theorem flight_false (c : Config) (s : State) (o : Bool) (h : LoopInv c s o) (hg : s.gen.fsm ≠ .sendErdy) :
    s.ep.flight = false := by
  cases hq : s.ep.flight
  · rfl
  · exact absurd (h.fl.1 hq) hg

/-- REQUEST_IN_TOKEN is left only when the ERDY is handed over: the `done` of any other packet is ignored -/
theorem reqIn_stays (c : Config) (s : State) (i : In) (o : Bool) (h : LoopInv c s o)
    (hreq : s.ep.core.fsm = .reqIn) (hh : erdyHanded s i = false) : (next c s i).ep.core.fsm = .reqIn := by
  have h1 := eff_done_iff_handed c s i o h
  rw [hh, epOut_erdy] at h1
  have hd : (effIn s.ep (epIn c s i)).done = false := by simpa [hreq] using h1
  rw [ep_next_core, (core_fsm_reqIn c.ep s.ep.core _ hreq).1, hd]; rfl

theorem erdy_sent_of_reqIn (c : Config) (L : Nat) : ∀ (is : List In) (s : State) (o : Bool) (w : Nat),
    LoopInv c s o → s.ep.core.fsm = .reqIn → w ≤ L → QOK L w is = true → remaining L s w ≤ is.length →
    erdySent c s is = true := by
  intro is
  induction is with
  | nil =>
    intro s o w _ _ _ _ hlen
    unfold remaining at hlen
    split at hlen <;> simp at hlen
  | cons i is ih =>
    intro s o w h hreq hw hq hlen
    have h' := loop_inv_step c s i o h
    simp only [erdySent, Bool.or_eq_true]
    simp only [QOK] at hq
    simp only [List.length_cons] at hlen
    have he : (epOut c s i).base.sendErdy = true := by rw [epOut_erdy]; simp [hreq]
    rcases h.genk with hg | hg | hg
    · -- DISPATCH_REQUESTS: the request is taken in this cycle
      right
      have hh : erdyHanded s i = false := by simp [erdyHanded, hg]
      have hn := (gen_next_dispatch c s i hg).1
      rw [he] at hn
      have hn' : (next c s i).gen.fsm = .sendErdy := by simpa using hn
      have hr := reqIn_stays c s i o h hreq hh
      simp only [remaining, hg] at hlen
      by_cases hqr : i.qReady = true
      · rw [if_pos hqr] at hq
        exact ih _ _ 0 h' hr (Nat.zero_le _) hq (by simp only [remaining, hn']; omega)
      · rw [if_neg hqr, Bool.and_eq_true, decide_eq_true_eq] at hq
        exact ih _ _ (w + 1) h' hr (by omega) hq.2 (by simp only [remaining, hn']; omega)
    · -- SEND_NRDY: wait for the queue, its done does not count
      right
      have hh : erdyHanded s i = false := by simp [erdyHanded, hg]
      have hne : s.gen.fsm ≠ .dispatch := by rw [hg]; intro hh; cases hh
      have hn := gen_next_send c s i hne
      have hr := reqIn_stays c s i o h hreq hh
      simp only [remaining, hg] at hlen
      by_cases hqr : i.qReady = true
      · rw [if_pos hqr] at hq
        have hn' : (next c s i).gen.fsm = .dispatch := by rw [hn]; simp [hqr]
        exact ih _ _ 0 h' hr (Nat.zero_le _) hq (by simp only [remaining, hn']; omega)
      · rw [if_neg hqr, Bool.and_eq_true, decide_eq_true_eq] at hq
        have hn' : (next c s i).gen.fsm = .sendNrdy := by rw [hn]; simp [hqr, hg]
        exact ih _ _ (w + 1) h' hr (by omega) hq.2 (by simp only [remaining, hn']; omega)
    · -- SEND_ERDY: handed over as soon as the queue is ready
      by_cases hqr : i.qReady = true
      · left; simp [erdyHanded, hg, hqr]
      · right
        have hh : erdyHanded s i = false := by simp [erdyHanded, hqr]
        have hne : s.gen.fsm ≠ .dispatch := by rw [hg]; intro hh; cases hh
        have hn := gen_next_send c s i hne
        have hr := reqIn_stays c s i o h hreq hh
        simp only [remaining, hg] at hlen
        rw [if_neg hqr, Bool.and_eq_true, decide_eq_true_eq] at hq
        have hn' : (next c s i).gen.fsm = .sendErdy := by rw [hn]; simp [hqr, hg]
        exact ih _ _ (w + 1) h' hr (by omega) hq.2 (by simp only [remaining, hn']; omega)

theorem remaining_le (L : Nat) (s : State) (w : Nat) : remaining L s w ≤ 2 * L + 3 := by
  unfold remaining; split <;> omega

/-- **loop_erdy_within_bound** (all closed-loop histories from reset, all continuations): if an ERDY is owed (an
NRDY has been requested, no ERDY has reached the header queue since) and the packet completes in cycle `i` — a valid
word that fills the buffer or carries `last`, or the stream has ended in the write buffer — or has completed before
(REQUEST_IN_TOKEN), and the header queue never lets more than `L` consecutive cycles pass without `ready`, then an
ERDY transaction packet is handed to the header queue within the next `2 L + 4` cycles (one cycle to enter
REQUEST_IN_TOKEN, the packet the generator may still be sending, one DISPATCH cycle, the ERDY). -/
theorem loop_erdy_within_bound (c : Config) (L : Nat) (hist : List In) (i : In) (is : List In)
    (ho : (runL c (init c) false hist).2 = true)
    (hdata : (runL c (init c) false hist).1.ep.core.fsm = .waitData →
      (i.ep.sValid % 2 == 1 &&
          (decide (fillW (runL c (init c) false hist).1.ep.core + 4 ≥ c.ep.mps) || i.ep.sLast)) = true ∨
        endedW (runL c (init c) false hist).1.ep.core = true)
    (hq : QOK L 0 (i :: is) = true) (hlen : (i :: is).length = 2 * L + 4) :
    erdySent c (runL c (init c) false hist).1 (i :: is) = true := by
  have hinv := loop_inv_run c hist (init c) false (loop_inv_init c)
  generalize (runL c (init c) false hist).1 = s at *
  generalize (runL c (init c) false hist).2 = o at *
  obtain ⟨hf, hreq⟩ := hinv.owed ho
  rcases hf with hf | hf
  · -- WAIT_FOR_DATA: the packet completes now, REQUEST_IN_TOKEN in the next cycle
    have hn := (nrdy_leads_to_erdy_request c.ep s.ep.core (effIn s.ep (epIn c s i)) hf hreq (hdata hf)).1
    have h' := loop_inv_step c s i o hinv
    simp only [erdySent, Bool.or_eq_true]
    right
    simp only [QOK] at hq
    simp only [List.length_cons] at hlen
    have hrem := remaining_le L (next c s i)
    by_cases hqr : i.qReady = true
    · rw [if_pos hqr] at hq
      exact erdy_sent_of_reqIn c L is _ _ 0 h' hn (Nat.zero_le _) hq (by have := hrem 0; omega)
    · rw [if_neg hqr, Bool.and_eq_true, decide_eq_true_eq] at hq
      exact erdy_sent_of_reqIn c L is _ _ 1 h' hn (by omega) hq.2 (by have := hrem 1; omega)
  · exact erdy_sent_of_reqIn c L (i :: is) s o 0 hinv hf (Nat.zero_le _) hq
      (by have := remaining_le L s 0; simp only [List.length_cons] at hlen ⊢; omega)


/-! ## Non-vacuity, and the unrepaired endpoint

max_packet_size 8, endpoint 1, direct wiring.  `raceHist`: the IN request arrives in the very cycle in which the
second word completes the packet (NRDY and buffer swap in one cycle); the header queue stalls every header for one
cycle. -/

def cfgL : Config := ⟨cfg8, false⟩
def lin (e : SSStreamIn.In) (q : Bool) : In := ⟨e, q, 5⟩

def raceHist : List In :=
  [lin (word 0x11111111 false) true,
   lin { tp false 0 1 with sValid := 15, sData := 0x22222222 } true,    -- IN request + completing word: NRDY
   lin idle false, lin idle true,                                       -- the NRDY waits one cycle for the queue
   lin idle true, lin idle false, lin idle true, lin idle true]          -- DISPATCH, the ERDY waits, handed over

/-- the hypotheses of `loop_erdy_within_bound` are satisfiable: after two cycles of `raceHist` an ERDY is owed, the
endpoint is in REQUEST_IN_TOKEN, the rest of the history (6 = 2·1 + 4 cycles) satisfies `QOK 1` … -/
example : (runL cfgL (init cfgL) false (raceHist.take 2)).2 = true ∧
    (runL cfgL (init cfgL) false (raceHist.take 2)).1.ep.core.fsm = .reqIn ∧
    QOK 1 0 (raceHist.drop 2) = true ∧ (raceHist.drop 2).length = 2 * 1 + 4 := by decide

/-- … and the ERDY is handed over (in the 5th of those cycles: NRDY 2, DISPATCH 1, ERDY 2), after which the endpoint
waits for the IN request with nothing owed; the transaction packets name endpoint 1 -/
example : erdySent cfgL (runL cfgL (init cfgL) false (raceHist.take 2)).1 (raceHist.drop 2) = true ∧
    erdySent cfgL (runL cfgL (init cfgL) false (raceHist.take 2)).1 ((raceHist.drop 2).take 4) = false ∧
    (runL cfgL (init cfgL) false raceHist).2 = false ∧
    (runL cfgL (init cfgL) false raceHist).1.ep.core.fsm = .waitSend ∧
    (genOut cfgL (runL cfgL (init cfgL) false (raceHist.take 6)).1 (lin idle true)).header.dw1 = 0x10183 := by decide

/-- the same through the multiplexer -/
example : erdySent ⟨cfg8, true⟩ (init ⟨cfg8, true⟩) raceHist = true ∧
    (runL ⟨cfg8, true⟩ (init ⟨cfg8, true⟩) false raceHist).1.ep = (runL cfgL (init cfgL) false raceHist).1.ep := by decide

/-- The endpoint before the repair: REQUEST_IN_TOKEN honours every `done` (no `erdy_in_flight`). -/
def nextU (c : Config) (s : State) (i : In) : State :=
  ⟨⟨SSStreamIn.next c.ep s.ep.core (epIn c s i).base, s.ep.flight⟩,
   (TransactionPacketGenerator.step TransactionPacketGenerator.repaired s.gen (genIn c s i)).1⟩

def runU (c : Config) : State → Bool → List In → State × Bool
  | s, o, [] => (s, o)
  | s, o, i :: is => runU c (nextU c s i) (owedNextL c s i o) is

def erdySentU (c : Config) : State → List In → Bool
  | _, [] => false
  | s, i :: is => erdyHanded s i || erdySentU c (nextU c s i) is

/-- **unrepaired_loses_erdy**: on the same history (followed by 24 more idle cycles) the unrepaired endpoint takes
the `done` of its NRDY for the `done` of the ERDY: it leaves REQUEST_IN_TOKEN for WAIT_TO_SEND with
`erdy_required` cleared, no ERDY transaction packet is ever handed to the header queue, and the ERDY stays owed — the
flow-controlled host is never told that data is available. -/
theorem unrepaired_loses_erdy :
    erdySentU cfgL (init cfgL) (raceHist ++ List.replicate 24 (lin idle true)) = false ∧
    (runU cfgL (init cfgL) false (raceHist ++ List.replicate 24 (lin idle true))).2 = true ∧
    (runU cfgL (init cfgL) false (raceHist ++ List.replicate 24 (lin idle true))).1.ep.core.fsm = .waitSend ∧
    (runU cfgL (init cfgL) false (raceHist ++ List.replicate 24 (lin idle true))).1.ep.core.erdyReq = false ∧
    (runU cfgL (init cfgL) false (raceHist ++ List.replicate 24 (lin idle true))).1.gen.fsm = .dispatch := by
  decide

end LunaVerif.SSInLoop
