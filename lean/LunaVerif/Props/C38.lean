import LunaVerif.Lemmas.HeaderRx
/-!
# C38 — Link re-entry always re-advertises sequence number and credits

"Every time the link layer is re-enabled after leaving U0, or after a USB reset, the header receiver
begins by sending one LGOOD advertising the last received sequence number followed by LCRD credits for
all of its buffers, and its receive state is fresh, regardless of which link command it was sending
when the link went down or the reset arrived."

Quantifier: all points in time at which the link can be disabled or reset (including in the middle of
sending an LGOOD, LCRD, LBAD, LRTY or keepalive).

**Defect F14 (confirmed on the gateware).**  In the code as found (`Config.fix = false`) the
reset-on-disable block is evaluated only in DISPATCH_COMMAND; a falling edge of `enable` (a one-cycle
condition) or a `usb_reset` that arrives while a link command is being sent is lost
(`reenable_fails`).  The theorems below are about the repaired code (`Config.fix = true`, the `fix:`
commit in the wt-sslink branch): the block is evaluated in every state, returns the dispatch FSM to
DISPATCH_COMMAND, and re-arms the advertisement with `expected_sequence_number - 1`.

`reenable_readvertises` quantifies over **every** model state `s` in which the raw receiver is not in
its two-cycle CHECK_PACKET / `new_packet` window (`RxQuiet`, i.e. no header is being taken over in the
very cycle the link goes down) and every input `i0` with `(last_enable & ~enable) | usb_reset`.
Environment afterwards: while the link is down and until the advertisement is complete the sink is
silent and the transmitter requests no LRTY (`DisIn`, `EnIn`: a partner cannot send headers or LBADs
before it has been given credits again), and the link command that was in flight when the link went
down has left the generator by the time `enable` rises (`hidle`; the generator has no abort input).
-/
namespace LunaVerif.HeaderRx

def fixed : Config := { fix := true, downstream := false }

/-- raw receiver outside its two-cycle check / new_packet window -/
def RxQuiet (r : RawRx.State) : Prop := r.newPkt = false ∧ r.st ≠ .check

theorem rxQuiet_step (r : RawRx.State) (i : RawRx.In) (e : Nat) (hq : RxQuiet r) (hv : i.valid = false) :
    RxQuiet (RawRx.step r i e) := by
  obtain ⟨st, pkt, np, op⟩ := r
  obtain ⟨h1, h2⟩ := hq
  cases st <;> simp_all [RxQuiet, RawRx.step, RawRx.isHpStart]

/-- The receive bookkeeping right after a link-down / reset event, as long as nothing has been
dispatched yet. -/
structure Fresh (s : State) : Prop where
  bf : s.bf = 0
  rp : s.rp = 0
  wp : s.wp = 0
  acks : s.acks = 1
  cti : s.cti = 4
  nc : s.nextCredit = 0
  na : s.nextAck = (s.expSeq + 7) % 8
  lrty : s.lrty = false
  lbad : s.lbad = false
  ka : s.keepalive = false
  ign : s.ignore = false
  fsm : s.fsm = .dispatch
  rx : RxQuiet s.rx

/-- **C38 (a)** with the repair, a falling edge of `enable` or a `usb_reset` makes the receive state
fresh in the next cycle from *every* state (whatever command was being sent), provided no header is
being taken over in that very cycle. -/
theorem reset_makes_fresh (c : Config) (hc : c.fix = true) (s : State) (i : In) (hr : resetCond s i = true)
    (hq : RxQuiet s.rx) (hv : i.sink.valid = false) :
    Fresh (step c s i).1 ∧ (step c s i).1.expSeq = (if i.usbReset then 0 else s.expSeq) := by
  have hrn : resetNow c s i = true := by simp [resetNow, hr, hc]
  have hacc : accept s = false := by simp [accept, hq.1]
  refine ⟨⟨?_, ?_, ?_, ?_, ?_, ?_, ?_, ?_, ?_, ?_, ?_, ?_, ?_⟩, ?_⟩
  all_goals first
    | exact rxQuiet_step _ _ _ hq hv
    | (simp only [step_bf, step_rp, step_wp, step_acks, step_cti, step_nextCredit, step_nextAck, step_lrty,
        step_lbad, step_keepalive, step_ignore, step_fsm, step_expSeq, fsmNext, hrn, hr, hc, hacc]
       cases i.usbReset <;> simp)

/-- What is needed for a correct advertisement once the link comes up again (preserved while the link
is down). -/
structure Armed (s : State) : Prop where
  bf : s.bf = 0
  acks : s.acks = 1
  cti : s.cti = 4
  nc : s.nextCredit = 0
  na : s.nextAck = (s.expSeq + 7) % 8
  lrty : s.lrty = false
  fsm : s.fsm = .dispatch
  rx : RxQuiet s.rx

theorem Fresh.armed {s : State} (h : Fresh s) : Armed s :=
  ⟨h.bf, h.acks, h.cti, h.nc, h.na, h.lrty, h.fsm, h.rx⟩

/-- inputs while the link is down: no sink traffic, no retry request from the transmitter -/
def DisIn (i : In) : Prop := i.enable = false ∧ i.sink.valid = false ∧ i.retryRequired = false
/-- inputs after the link came up, until the advertisement is complete -/
def EnIn (i : In) : Prop := i.enable = true ∧ i.usbReset = false ∧ i.sink.valid = false ∧ i.retryRequired = false

def run (c : Config) : State → List In → State
  | s, [] => s
  | s, i :: is => run c (step c s i).1 is

theorem dis_step (c : Config) (hc : c.fix = true) (s : State) (i : In) (h : Armed s) (hi : DisIn i) :
    Armed (step c s i).1 ∧ (s.gen = .idle → (step c s i).1.gen = .idle) := by
  obtain ⟨hen, hv, hrr⟩ := hi
  have hacc : accept s = false := by simp [accept, h.rx.1]
  have hpop : pop s i = false := by simp [pop, qValid, h.bf]
  have hlg : lgoodDone s i = false := by simp [lgoodDone, h.fsm]
  have hlc : lcrdDone s i = false := by simp [lcrdDone, h.fsm]
  have hgen : generate s = false := by simp [generate, h.fsm]
  refine ⟨⟨?_, ?_, ?_, ?_, ?_, ?_, ?_, ?_⟩, ?_⟩
  · simp [step_bf, hacc, hpop, updown, h.bf]
  · simp [step_acks, hacc, hlg, updown, h.acks]
  · simp [step_cti, hpop, hlc, updown, h.cti]
  · simp [step_nextCredit, hlc, h.nc]
  · simp only [step_nextAck, step_expSeq, hacc, hlg, hc, resetNow, h.fsm, h.na]
    cases resetCond s i <;> cases i.usbReset <;> simp
  · simp [step_lrty, hrr, h.lrty, h.fsm]
  · simp [step_fsm, fsmNext, h.fsm, hen]
  · exact rxQuiet_step _ _ _ h.rx hv
  · intro hg; rw [step_gen]; split
    · rfl
    · simp [genNext, hg, hgen]

theorem dis_run (c : Config) (hc : c.fix = true) (dis : List In) : ∀ (s : State), Armed s →
    (∀ i ∈ dis, DisIn i) → Armed (run c s dis) ∧ (s.gen = .idle → (run c s dis).gen = .idle) := by
  induction dis with
  | nil => intro s h _; exact ⟨h, id⟩
  | cons i is ih =>
    intro s h hd
    obtain ⟨a, b⟩ := dis_step c hc s i h (hd i (by simp))
    obtain ⟨a', b'⟩ := ih _ a (fun j hj => hd j (by simp [hj]))
    exact ⟨a', fun hg => b' (b hg)⟩

/-- the commands the receiver must start with: LGOOD_a, LCRD_A, LCRD_B, LCRD_C, LCRD_D -/
def expectedCmds (a : Nat) : List (Nat × Nat) := [(LGOOD, a), (LCRD, 0), (LCRD, 1), (LCRD, 2), (LCRD, 3)]

/-- the link commands completed on the wire, in order: (command, subtype) -/
def cmdStep (s : State) (i : In) (log : List (Nat × Nat)) : List (Nat × Nat) :=
  if done s i then log ++ [(s.gCmd, s.gSub)] else log

def runLog (c : Config) : State → List (Nat × Nat) → List In → List (Nat × Nat)
  | _, log, [] => log
  | s, log, i :: is => runLog c (step c s i).1 (cmdStep s i log) is

structure AdvInv (c : Config) (a : Nat) (s : State) (log : List (Nat × Nat)) : Prop where
  pre  : ∀ k, k < log.length → k < 5 → log[k]? = (expectedCmds a)[k]?
  st   : log.length < 5 →
    s.bf = 0 ∧ RxQuiet s.rx ∧ s.lrty = false ∧
    (s.fsm = .dispatch → s.gen = .idle) ∧ (s.gen ≠ .idle → s.gCmd = genCmd c s ∧ s.gSub = genSub s) ∧
    (log.length = 0 → s.acks = 1 ∧ s.cti = 4 ∧ s.nextCredit = 0 ∧ s.nextAck = a ∧
        (s.fsm = .dispatch ∨ s.fsm = .sendAcks)) ∧
    (1 ≤ log.length → s.acks = 0 ∧ s.cti = 5 - log.length ∧ s.nextCredit = log.length - 1 ∧
        (s.fsm = .issueCredits ∨ (log.length = 1 ∧ s.fsm = .dispatch)))

theorem adv_step (c : Config) (a : Nat) (ha : a < 8) (s : State) (log : List (Nat × Nat)) (i : In)
    (h : AdvInv c a s log) (hi : EnIn i) : AdvInv c a (step c s i).1 (cmdStep s i log) := by
  obtain ⟨hen, hrst, hv, hrr⟩ := hi
  by_cases hL5 : 5 ≤ log.length
  · -- the advertisement is complete: later commands do not touch the first five
    constructor
    · intro k hk h5
      have hk' : k < log.length := by omega
      have := h.pre k hk' h5
      unfold cmdStep; split
      · rw [List.getElem?_append_left hk']; exact this
      · exact this
    · intro h5; unfold cmdStep at h5; split at h5 <;> (try simp at h5) <;> omega
  have hL : log.length < 5 := by omega
  obtain ⟨hbf, hrx, hlrty, hg0, hg1, hp0, hp1⟩ := h.st hL
  have hacc : accept s = false := by simp [accept, hrx.1]
  have hpop : pop s i = false := by simp [pop, qValid, hbf]
  have hnr : resetNow c s i = false := by simp [resetNow, resetCond, hen, hrst]
  have hnf : (c.fix && resetCond s i) = false := by simp [resetCond, hen, hrst]
  have hab : (c.abort && resetCond s i) = false := by simp [resetCond, hen, hrst]
  have hrx' := rxQuiet_step s.rx i.sink s.expSeq hrx hv
  by_cases hd : done s i = true
  · -- a command completes
    have hgc : s.gen = .command := by simp [done] at hd; exact hd.1
    have hrdy : i.srcReady = true := by simp [done] at hd; exact hd.2
    obtain ⟨hcmd, hsub⟩ := hg1 (by simp [hgc])
    have hfd : s.fsm ≠ .dispatch := fun hf => by have := hg0 hf; simp [hgc] at this
    rcases Nat.eq_zero_or_pos log.length with h0 | h1
    · -- the LGOOD
      obtain ⟨q1, q2, q3, q4, q5⟩ := hp0 h0
      have hf : s.fsm = .sendAcks := by rcases q5 with q | q; exact absurd q hfd; exact q
      have hlog : log = [] := List.eq_nil_of_length_eq_zero h0
      constructor
      · intro k hk h5
        simp only [cmdStep, hd, if_true, hlog, List.nil_append, List.length_singleton] at hk ⊢
        have : k = 0 := by omega
        subst this
        simp [expectedCmds, hcmd, hsub, genCmd, genSub, hf, q4]
      · intro _
        simp only [cmdStep, hd, if_true, hlog, List.nil_append, List.length_singleton]
        refine ⟨by simp [step_bf, hnr, hacc, hpop, updown, hbf], hrx', ?_, ?_, ?_, by simp, ?_⟩
        · simp [step_lrty, hnr, hrr, hlrty, hf]
        · intro _; simp [step_gen, hab, genNext, hgc, hrdy]
        · intro hb; simp [step_gen, hab, genNext, hgc, hrdy] at hb
        · intro _
          refine ⟨?_, ?_, ?_, ?_⟩
          · simp [step_acks, hnr, hacc, lgoodDone, hf, hd, updown, q1]
          · simp [step_cti, hnr, hpop, lcrdDone, hf, updown, q2]
          · simp [step_nextCredit, hnr, lcrdDone, hf, q3]
          · right; simp [step_fsm, fsmNext, hnf, hf, hd, q1]
    · -- an LCRD
      obtain ⟨q1, q2, q3, q5⟩ := hp1 h1
      have hf : s.fsm = .issueCredits := by
        rcases q5 with q | ⟨_, q⟩; exact q; exact absurd q hfd
      constructor
      · intro k hk h5
        simp only [cmdStep, hd, if_true, List.length_append, List.length_singleton] at hk ⊢
        by_cases hkl : k < log.length
        · rw [List.getElem?_append_left hkl]; exact h.pre k hkl h5
        · have hke : k = log.length := by omega
          rw [hke, List.getElem?_append_right (Nat.le_refl _)]
          simp only [Nat.sub_self, List.getElem?_cons_zero, hcmd, hsub, genCmd, genSub, hf, q3]
          have : log.length = 1 ∨ log.length = 2 ∨ log.length = 3 ∨ log.length = 4 := by omega
          rcases this with e | e | e | e <;> simp [e, expectedCmds]
      · intro h5
        simp only [cmdStep, hd, if_true, List.length_append, List.length_singleton] at h5 ⊢
        refine ⟨by simp [step_bf, hnr, hacc, hpop, updown, hbf], hrx', ?_, ?_, ?_, by omega, ?_⟩
        · simp [step_lrty, hnr, hrr, hlrty, hf]
        · intro _; simp [step_gen, hab, genNext, hgc, hrdy]
        · intro hb; simp [step_gen, hab, genNext, hgc, hrdy] at hb
        · intro _
          refine ⟨?_, ?_, ?_, ?_⟩
          · simp [step_acks, hnr, hacc, lgoodDone, hf, updown, q1]
          · simp only [step_cti, hnr, hpop, lcrdDone, hf, hd, updown, q2]; simp; omega
          · simp only [step_nextCredit, hnr, lcrdDone, hf, hd, q3]; simp; omega
          · left; simp only [step_fsm, fsmNext, hnf, hf, hd, q2]
            have : (5 - log.length == 1) = false := by simp; omega
            simp [this]
  · -- no command completes: only the dispatch FSM / the generator move
    have hd' : done s i = false := by simpa using hd
    have hlg : lgoodDone s i = false := by simp [lgoodDone, hd']
    have hlc : lcrdDone s i = false := by simp [lcrdDone, hd']
    have hlog : cmdStep s i log = log := by simp [cmdStep, hd']
    rw [hlog]
    refine ⟨h.pre, fun _ => ?_⟩
    have hacks : (step c s i).1.acks = s.acks := by simp [step_acks, hnr, hacc, hlg, updown]
    have hcti : (step c s i).1.cti = s.cti := by simp [step_cti, hnr, hpop, hlc, updown]
    have hnc : (step c s i).1.nextCredit = s.nextCredit := by simp [step_nextCredit, hnr, hlc]
    have hna : (step c s i).1.nextAck = s.nextAck := by simp [step_nextAck, hnr, hlg]
    have hfs : (step c s i).1.fsm = if s.fsm = .dispatch then dispatchNext s else s.fsm := by
      simp only [step_fsm, fsmNext, hnf, hd', hen]
      cases s.fsm <;> simp
    have hlr : (step c s i).1.lrty = false := by
      simp only [step_lrty, hnr, hrr, hlrty, hd']; simp
    -- where the dispatch FSM goes from DISPATCH_COMMAND
    have hdn : s.fsm = .dispatch → dispatchNext s = (if log.length = 0 then Fsm.sendAcks else Fsm.issueCredits) := by
      intro hf
      rcases Nat.eq_zero_or_pos log.length with h0 | h1
      · obtain ⟨q1, _⟩ := hp0 h0; simp [dispatchNext, hlrty, q1, h0]
      · obtain ⟨q1, q2, _, q5⟩ := hp1 h1
        have : log.length = 1 := by rcases q5 with q | ⟨q, _⟩; rw [hf] at q; cases q; exact q
        simp [dispatchNext, hlrty, q1, q2, this]
    refine ⟨by simp [step_bf, hnr, hacc, hpop, updown, hbf], hrx', hlr, ?_, ?_, ?_, ?_⟩
    · intro hf'
      rw [hfs] at hf'
      by_cases hf : s.fsm = .dispatch
      · rw [if_pos hf, hdn hf] at hf'; split at hf' <;> cases hf'
      · rw [if_neg hf] at hf'; exact absurd hf' hf
    · intro hb
      have hsub : genSub (step c s i).1 = genSub s ∧ genCmd c (step c s i).1 = genCmd c s ∨ s.fsm = .dispatch := by
        by_cases hf : s.fsm = .dispatch
        · exact Or.inr hf
        · left; rw [if_neg hf] at hfs; simp only [genSub, genCmd, hfs, hna, hnc]; simp
      rcases hsub with ⟨e1, e2⟩ | hf
      · rw [e1, e2, step_gCmd, step_gSub, hab]
        simp only [Bool.false_eq_true, if_false]
        by_cases hgi : s.gen = .idle
        · have hgen : generate s = true := by
            simp only [step_gen, hab, genNext, hgi, Bool.false_eq_true, if_false] at hb; simp only [generate]
            by_cases hf : s.fsm = .dispatch
            · simp [generate, hf] at hb
            · cases hx : s.fsm <;> simp_all
          have hlt : genSub s % 16 = genSub s := by
            simp only [genSub]
            rcases Nat.eq_zero_or_pos log.length with h0 | h1
            · obtain ⟨_, _, q3, q4, _⟩ := hp0 h0; split <;> omega
            · obtain ⟨_, _, q3, q5⟩ := hp1 h1
              rcases q5 with q | ⟨_, q⟩
              · simp [q]; omega
              · simp [q]
          simp [hgi, hgen, hlt]
        · have hb' : (s.gen == Gen.idle) = false := by cases hx : s.gen <;> simp_all
          simp [hb', hg1 hgi]
      · have := hg0 hf
        simp [step_gen, hab, genNext, this, generate, hf] at hb
    · intro h0
      obtain ⟨q1, q2, q3, q4, q5⟩ := hp0 h0
      refine ⟨by rw [hacks, q1], by rw [hcti, q2], by rw [hnc, q3], by rw [hna, q4], ?_⟩
      rw [hfs]
      rcases q5 with q | q
      · rw [if_pos q, hdn q, if_pos h0]; exact Or.inr rfl
      · rw [if_neg (by rw [q]; simp)]; exact Or.inr q
    · intro h1
      obtain ⟨q1, q2, q3, q5⟩ := hp1 h1
      refine ⟨by rw [hacks, q1], by rw [hcti, q2], by rw [hnc, q3], ?_⟩
      rw [hfs]
      rcases q5 with q | ⟨ql, q⟩
      · rw [if_neg (by rw [q]; simp)]; exact Or.inl q
      · rw [if_pos q, hdn q, if_neg (by omega)]; exact Or.inl rfl

theorem adv_run (c : Config) (a : Nat) (ha : a < 8) (en : List In) : ∀ (s : State) (log : List (Nat × Nat)),
    AdvInv c a s log → (∀ i ∈ en, EnIn i) → AdvInv c a (run c s en) (runLog c s log en) := by
  induction en with
  | nil => intro s log h _; exact h
  | cons i is ih =>
    intro s log h he
    exact ih _ _ (adv_step c a ha s log i h (he i (by simp))) (fun j hj => he j (by simp [hj]))

theorem armed_adv (c : Config) (s : State) (h : Armed s) (hg : s.gen = .idle) :
    AdvInv c ((s.expSeq + 7) % 8) s [] := by
  refine ⟨fun k hk => by simp at hk, fun _ => ⟨h.bf, h.rx, h.lrty, fun _ => hg, fun hb => absurd hg hb, ?_, ?_⟩⟩
  · intro _; exact ⟨h.acks, h.cti, h.nc, h.na, Or.inl h.fsm⟩
  · intro h1; simp at h1

/-- **C38** (repaired code).  From every state, when `enable` falls or `usb_reset` is asserted:
(1) the receive state is fresh in the next cycle; (2) it stays armed while the link is down; (3) after
`enable` rises the first five link commands completed on the wire are LGOOD_(n-1), LCRD_A, LCRD_B,
LCRD_C, LCRD_D, where n is the expected sequence number (0 after a USB reset) — stated for every prefix,
so it holds however long the generator is kept waiting. -/
theorem reenable_readvertises (c : Config) (hc : c.fix = true) (s : State) (i0 : In)
    (hr : resetCond s i0 = true) (hq : RxQuiet s.rx) (hv : i0.sink.valid = false)
    (dis en : List In) (hdis : ∀ i ∈ dis, DisIn i) (hen : ∀ i ∈ en, EnIn i)
    (hidle : (run c (step c s i0).1 dis).gen = .idle) :
    Fresh (step c s i0).1 ∧
    (step c s i0).1.expSeq = (if i0.usbReset then 0 else s.expSeq) ∧
    Armed (run c (step c s i0).1 dis) ∧
    ∀ k, k < (runLog c (run c (step c s i0).1 dis) [] en).length → k < 5 →
      (runLog c (run c (step c s i0).1 dis) [] en)[k]? =
        (expectedCmds (((run c (step c s i0).1 dis).expSeq + 7) % 8))[k]? := by
  obtain ⟨hf, he⟩ := reset_makes_fresh c hc s i0 hr hq hv
  obtain ⟨ha, _⟩ := dis_run c hc dis _ hf.armed hdis
  refine ⟨hf, he, ha, ?_⟩
  exact (adv_run c _ (Nat.mod_lt _ (by decide)) en _ _ (armed_adv c _ ha hidle) hen).pre

/-- while the link is down without a USB reset the expected sequence number is kept -/
theorem dis_expSeq (c : Config) (dis : List In) : ∀ (s : State), RxQuiet s.rx →
    (∀ i ∈ dis, DisIn i ∧ i.usbReset = false) → (run c s dis).expSeq = s.expSeq := by
  induction dis with
  | nil => intro s _ _; rfl
  | cons i is ih =>
    intro s hq hd
    obtain ⟨⟨_, hv, _⟩, hu⟩ := hd i (by simp)
    have h1 : (step c s i).1.expSeq = s.expSeq := by simp [step_expSeq, hu, accept, hq.1]
    have := ih (step c s i).1 (rxQuiet_step _ _ _ hq hv) (fun j hj => hd j (by simp [hj]))
    simp only [run]; rw [this, h1]

/-! ## The generator has no abort input (second defect) and its repair

As coded the `LinkCommandGenerator` completes a command it has started whenever `source.ready` allows — also
after the link has gone down and come up again (in the link layer its stream is stalled by the training-set
stream while the link retrains, so this is the normal course of events when the link goes down mid-command).
The dispatch FSM cannot tell whose completion it sees: a `done` in SEND_ACKS is taken for the LGOOD
(`stale_completion_taken_for_lgood`).  So when `enable` rises while the stale command is still in the
generator, the wire shows the stale command followed by LCRD_A..D and **no sequence number advertisement**
(`reenable_stale_fails`, confirmed on the gateware).  Repair (`Config.abort`): the generator is reset by
`link_reset`; then `hidle` of `reenable_readvertises` always holds (`reenable_readvertises_abort`). -/

/-- As coded the dispatch FSM takes *any* completion while it is in SEND_ACKS for the LGOOD: whatever command
the generator has latched is what goes out, and `acks_to_send` / `next_header_to_ack` advance. -/
theorem stale_completion_taken_for_lgood (c : Config) (s : State) (i : In) (log : List (Nat × Nat))
    (hf : s.fsm = .sendAcks) (hg : s.gen = .command) (hr : i.srcReady = true)
    (hn : resetNow c s i = false) (ha : accept s = false) :
    cmdStep s i log = log ++ [(s.gCmd, s.gSub)] ∧ (step c s i).1.acks = (s.acks + 7) % 8 ∧
    (step c s i).1.nextAck = (s.nextAck + 1) % 8 := by
  have hd : done s i = true := by simp [done, hg, hr]
  refine ⟨by simp [cmdStep, hd], ?_, ?_⟩
  · simp [step_acks, hn, ha, lgoodDone, hf, hd, updown]
  · simp [step_nextAck, hn, lgoodDone, hf, hd]

/-- with the repair the generator is idle in the cycle after every `link_reset` -/
theorem reset_aborts_generator (c : Config) (ha : c.abort = true) (s : State) (i : In)
    (hr : resetCond s i = true) : (step c s i).1.gen = .idle := by
  simp [step_gen, ha, hr]

/-- **C38** (both repairs): `reenable_readvertises` without the hypothesis that the generator has drained —
whatever command was in flight when the link went down, and however `source.ready` behaves while the link is
down, the first five commands after the rise of `enable` are LGOOD_(n-1), LCRD_A..D. -/
theorem reenable_readvertises_abort (c : Config) (hc : c.fix = true) (ha : c.abort = true) (s : State) (i0 : In)
    (hr : resetCond s i0 = true) (hq : RxQuiet s.rx) (hv : i0.sink.valid = false)
    (dis en : List In) (hdis : ∀ i ∈ dis, DisIn i) (hen : ∀ i ∈ en, EnIn i) :
    Fresh (step c s i0).1 ∧
    (step c s i0).1.expSeq = (if i0.usbReset then 0 else s.expSeq) ∧
    Armed (run c (step c s i0).1 dis) ∧
    (run c (step c s i0).1 dis).gen = .idle ∧
    ∀ k, k < (runLog c (run c (step c s i0).1 dis) [] en).length → k < 5 →
      (runLog c (run c (step c s i0).1 dis) [] en)[k]? =
        (expectedCmds (((run c (step c s i0).1 dis).expSeq + 7) % 8))[k]? := by
  have hidle : (run c (step c s i0).1 dis).gen = .idle :=
    (dis_run c hc dis _ (reset_makes_fresh c hc s i0 hr hq hv).1.armed hdis).2
      (reset_aborts_generator c ha s i0 hr)
  obtain ⟨h1, h2, h3, h4⟩ := reenable_readvertises c hc s i0 hr hq hv dis en hdis hen hidle
  exact ⟨h1, h2, h3, hidle, h4⟩

/-! ## The defect in the code as found, and non-vacuity -/

def offCyc : In :=
  { sink := ⟨false, 0, 0⟩, srcReady := true, enable := false, usbReset := false, qReady := false,
    retryReceived := false, retryRequired := false, keepaliveRequired := false, rejectPower := false }
def onCyc : In := { offCyc with enable := true }

/-- reset state, one cycle after `enable` rose, generator about to finish the first LGOOD -/
def midLgood : State :=
  { init with fsm := .sendAcks, gen := .command, gCmd := LGOOD, gSub := 7, lastEnable := true }

/-- **F14**: in the code as found the falling edge of `enable` during SEND_ACKS is lost: after the link
comes up again the first command is LCRD_A — no sequence-number advertisement. -/
theorem reenable_fails :
    let c : Config := { fix := false }
    let s1 := run c (step c midLgood offCyc).1 [offCyc, offCyc]
    resetCond midLgood offCyc = true ∧ RxQuiet midLgood.rx ∧ s1.gen = .idle ∧
    (runLog c s1 [] (List.replicate 8 onCyc))[0]? = some (LCRD, 0) ∧
    (expectedCmds ((s1.expSeq + 7) % 8))[0]? = some (LGOOD, 7) := by
  refine ⟨by decide, ⟨by decide, by decide⟩, by decide, by decide +kernel, by decide⟩

/-- the same scenario on the repaired code: all five commands, in order -/
example :
    let c : Config := { fix := true }
    let s1 := run c (step c midLgood offCyc).1 [offCyc, offCyc]
    s1.gen = .idle ∧ runLog c s1 [] (List.replicate 20 onCyc) = expectedCmds 7 := by
  refine ⟨by decide, by decide +kernel⟩


/-- after the advertisement, a keepalive requested, the generator stalled in its header word -/
def midKeepalive : State :=
  { init with acks := 0, cti := 0, nextAck := 0, fsm := .sendKeepalive, gen := .header, gCmd := LUP, gSub := 0,
              lastEnable := true }
def stallOff : In := { offCyc with srcReady := false }
def stallOn : In := { onCyc with srcReady := false }

/-- **Second defect** (first repair only): `enable` falls while the LUP is stalled in the generator and rises
again before it has been sent: the wire shows LUP, LCRD_A..D — the stale command is taken for the
advertisement, no LGOOD is sent. -/
theorem reenable_stale_fails :
    let c : Config := { fix := true }
    let s1 := run c (step c midKeepalive stallOff).1 [stallOff, stallOff]
    resetCond midKeepalive stallOff = true ∧ RxQuiet midKeepalive.rx ∧ s1.gen = .header ∧
    runLog c s1 [] ([stallOn, stallOn] ++ List.replicate 20 onCyc) =
      [(LUP, 0), (LCRD, 0), (LCRD, 1), (LCRD, 2), (LCRD, 3)] := by
  refine ⟨by decide, ⟨by decide, by decide⟩, by decide, by decide +kernel⟩

/-- the same scenario with the generator abort: the stale LUP is dropped, all five commands in order -/
example :
    let c : Config := { fix := true, abort := true }
    let s1 := run c (step c midKeepalive stallOff).1 [stallOff, stallOff]
    s1.gen = .idle ∧
    runLog c s1 [] ([stallOn, stallOn] ++ List.replicate 20 onCyc) = expectedCmds 7 := by
  refine ⟨by decide, by decide +kernel⟩

end LunaVerif.HeaderRx
