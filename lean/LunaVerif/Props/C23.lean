import LunaVerif.Model.Ulpi.Translator
/-!
# C23 — ULPI transmit translation delivers the UTMI packet unchanged

"For any PHY NXT schedule, each UTMI transmission reaches the PHY as one transmit command (carrying
the PID nibble in normal mode, NOPID otherwise), followed by the remaining bytes in order, followed
by STP in the cycle after the last accepted byte (driving 0xFF to force a bit-stuff error in
non-encoding mode); a UTMI byte is reported accepted exactly when the PHY accepted it, and the link
never drives the data bus while DIR is high."

As coded, "NOPID otherwise" means `op_mode == 0b10` (bit stuffing disabled); op modes 1 and 3 send
the PID form.  The NXT schedule is a list of waits: the PHY lets every presented byte sit on the
bus for `w` cycles and takes it in cycle `w+1`.  The transmit command cannot be taken in the very
cycle the transmission is requested (`ulpi_out_req` is a register, the PHY sees the command one
cycle later), hence `1 ≤ w₀`.
-/
namespace LunaVerif.Ulpi

/-- What the bus-side of the transmit translator shows in one cycle: the registered
`ulpi_out_req` (the mux of `UTMITranslator` puts `o` on the pins iff it is set) and `o`. -/
abbrev TxCycle := Bool × TxOut

/-- Outputs of the transmit translator over an input history (oldest first). -/
def Tx.outs : Tx → List TxIn → List TxCycle
  | _, [] => []
  | t, i :: is => (t.outReq, (t.step i).2) :: Tx.outs (t.step i).1 is

def Tx.final : Tx → List TxIn → Tx
  | t, [] => t
  | t, i :: is => Tx.final (t.step i).1 is

/-- The UTMI transmitter presents byte `b` with `tx_valid`, the PHY keeps NXT low for `w` cycles and
takes the byte in the next one.  `bi` is `bus_idle` during these cycles. -/
def holdInputs (op : Nat) (bi : Bool) (b w : Nat) : List TxIn :=
  List.replicate w ⟨b, true, op, bi, false⟩ ++ [⟨b, true, op, bi, true⟩]

/-- Bytes with their waits, one after the other. -/
def packetInputs (op : Nat) (bi : Bool) : List (Nat × Nat) → List TxIn
  | [] => []
  | (b, w) :: rest => holdInputs op bi b w ++ packetInputs op bi rest

/-- What the PHY must see for a held byte: the byte, no STP, `tx_ready` exactly in the last cycle. -/
def holdCycles (b w : Nat) : List TxCycle :=
  List.replicate w (true, ⟨b, false, false⟩) ++ [(true, ⟨b, true, false⟩)]

def packetCycles : List (Nat × Nat) → List TxCycle
  | [] => []
  | (b, w) :: rest => holdCycles b w ++ packetCycles rest

theorem outs_append (t : Tx) (a b : List TxIn) :
    Tx.outs t (a ++ b) = Tx.outs t a ++ Tx.outs (Tx.final t a) b := by
  induction a generalizing t with
  | nil => rfl
  | cons i is ih => simp [Tx.outs, Tx.final, ih]

theorem final_append (t : Tx) (a b : List TxIn) :
    Tx.final t (a ++ b) = Tx.final (Tx.final t a) b := by
  induction a generalizing t with
  | nil => rfl
  | cons i is ih => simp [Tx.final, ih]

/-- In TRANSMIT a presented byte is shown until NXT, `tx_ready` is NXT. -/
theorem transmit_hold (op : Nat) (bi : Bool) (b w : Nat) :
    Tx.outs ⟨.transmit, true⟩ (holdInputs op bi b w) = holdCycles b w ∧
    Tx.final ⟨.transmit, true⟩ (holdInputs op bi b w) = ⟨.transmit, true⟩ := by
  induction w with
  | zero => simp [holdInputs, holdCycles, Tx.outs, Tx.final, Tx.step]
  | succ w ih =>
    obtain ⟨ih1, ih2⟩ := ih
    simp only [holdInputs, holdCycles, List.replicate_succ, List.cons_append, Tx.outs, Tx.final] at *
    simp [Tx.step, ih1, ih2]

theorem transmit_packet (op : Nat) (bi : Bool) (items : List (Nat × Nat)) :
    Tx.outs ⟨.transmit, true⟩ (packetInputs op bi items) = packetCycles items ∧
    Tx.final ⟨.transmit, true⟩ (packetInputs op bi items) = ⟨.transmit, true⟩ := by
  induction items with
  | nil => simp [packetInputs, packetCycles, Tx.outs, Tx.final]
  | cons it rest ih =>
    obtain ⟨b, w⟩ := it
    obtain ⟨h1, h2⟩ := transmit_hold op bi b w
    simp [packetInputs, packetCycles, outs_append, final_append, h1, h2, ih.1, ih.2]

/-- The transmit command as coded: PID form unless bit stuffing is disabled. -/
def txCommand (op b0 : Nat) : Nat :=
  if op == OP_MODE_NO_BIT_STUFFING then TRANSMIT_COMMAND else TRANSMIT_COMMAND ||| (b0 % 16)

/-- Waiting in IDLE with the bus claimed: the command stays on the bus. -/
theorem idle_wait (op b0 w : Nat) :
    Tx.outs ⟨.idle, true⟩ (List.replicate w ⟨b0, true, op, true, false⟩)
      = List.replicate w (true, ⟨txCommand op b0, false, false⟩) ∧
    Tx.final ⟨.idle, true⟩ (List.replicate w ⟨b0, true, op, true, false⟩) = ⟨.idle, true⟩ := by
  induction w with
  | zero => simp [Tx.outs, Tx.final]
  | succ w ih =>
    simp only [List.replicate_succ, Tx.outs, Tx.final]
    have hs : (Tx.step ⟨.idle, true⟩ ⟨b0, true, op, true, false⟩)
        = (⟨.idle, true⟩, ⟨txCommand op b0, false, false⟩) := by
      unfold Tx.step txCommand; by_cases h : op = OP_MODE_NO_BIT_STUFFING <;> simp [h]
    rw [hs]; simp [ih.1, ih.2]

/-- The cycles of the transmit command: requested in the first cycle (not yet on the pins:
`ulpi_out_req` still low), held `w0 - 1` further cycles, taken by the PHY in the last; `tx_ready`
accompanies the PHY's NXT in PID form and stays low in NOPID form. -/
def commandCycles (op b0 w0 : Nat) : List TxCycle :=
  (false, ⟨txCommand op b0, false, false⟩) ::
    (List.replicate (w0 - 1) (true, ⟨txCommand op b0, false, false⟩)
      ++ [(true, ⟨txCommand op b0, !(op == OP_MODE_NO_BIT_STUFFING), false⟩)])

theorem command_phase (op b0 w0 : Nat) (hw : 1 ≤ w0) :
    Tx.outs {} (holdInputs op true b0 w0) = commandCycles op b0 w0 ∧
    Tx.final {} (holdInputs op true b0 w0) = ⟨.transmit, true⟩ := by
  obtain ⟨w, rfl⟩ : ∃ w, w0 = w + 1 := ⟨w0 - 1, by omega⟩
  have h1 : (Tx.step {} ⟨b0, true, op, true, false⟩)
      = (⟨.idle, true⟩, ⟨txCommand op b0, false, false⟩) := by
    unfold Tx.step txCommand; by_cases h : op = OP_MODE_NO_BIT_STUFFING <;> simp [h]
  have h2 : (Tx.step ⟨.idle, true⟩ ⟨b0, true, op, true, true⟩)
      = (⟨.transmit, true⟩, ⟨txCommand op b0, !(op == OP_MODE_NO_BIT_STUFFING), false⟩) := by
    unfold Tx.step txCommand; by_cases h : op = OP_MODE_NO_BIT_STUFFING <;> simp [h]
  obtain ⟨i1, i2⟩ := idle_wait op b0 w
  simp only [holdInputs, commandCycles, List.replicate_succ, List.cons_append, Tx.outs, Tx.final, h1]
  simp [outs_append, final_append, i1, i2, Tx.outs, Tx.final, h2]

/-- The bytes that follow the command: all but the first in PID form (the PID went out inside the
command), all of them in NOPID form. -/
def afterCommand (op b0 : Nat) (w1 : Nat) (rest : List (Nat × Nat)) : List (Nat × Nat) :=
  if op == OP_MODE_NO_BIT_STUFFING then (b0, w1) :: rest else rest

/-- The whole stimulus of one packet: first byte `b0` (command wait `w0`; in NOPID form it is then
presented again and waits `w1`), the remaining bytes with their waits, and the cycle in which the
UTMI transmitter has dropped `tx_valid` (other inputs arbitrary). -/
def packetStimulus (op : Nat) (bi : Bool) (b0 w0 w1 : Nat) (rest : List (Nat × Nat)) (last : TxIn) :
    List TxIn :=
  holdInputs op true b0 w0 ++ packetInputs op bi (afterCommand op b0 w1 rest) ++ [last]

/-- **tx_cmd_then_bytes_then_stp.**  For every packet (`b0 :: rest`), op mode, NXT schedule and
`bus_idle` behaviour after the command: from reset/idle the translator shows the transmit command
until the PHY takes it, then every remaining byte until the PHY takes it, then STP for one cycle —
the cycle after the last accepted byte — with 0x00 on the data lines, 0xFF when bit stuffing is
disabled; `ulpi_out_req` covers exactly the cycles after the first up to and including STP; and the
translator is back in its reset state, ready for the next packet. -/
theorem tx_cmd_then_bytes_then_stp (op : Nat) (bi : Bool) (b0 w0 w1 : Nat) (rest : List (Nat × Nat))
    (last : TxIn) (hw : 1 ≤ w0) (hlast : last.txValid = false) (hop : last.opMode = op) :
    Tx.outs {} (packetStimulus op bi b0 w0 w1 rest last)
      = commandCycles op b0 w0 ++ packetCycles (afterCommand op b0 w1 rest)
        ++ [(true, ⟨if op == OP_MODE_NO_BIT_STUFFING then 0xFF else 0, last.nxt, true⟩)]
    ∧ Tx.final {} (packetStimulus op bi b0 w0 w1 rest last) = {} := by
  obtain ⟨c1, c2⟩ := command_phase op b0 w0 hw
  obtain ⟨p1, p2⟩ := transmit_packet op bi (afterCommand op b0 w1 rest)
  obtain ⟨d, v, o, b, n⟩ := last
  simp only at hlast hop
  subst hlast hop
  simp [packetStimulus, outs_append, final_append, c1, c2, p1, p2, Tx.outs, Tx.final, Tx.step]

/-- Non-vacuity: a three byte packet C3 11 22, PID form, waits 2/0/1; and the NOPID form. -/
example : (Tx.outs {} (packetStimulus 0 true 0xC3 2 0 [(0x11, 0), (0x22, 1)] ⟨0, false, 0, true, false⟩)).map
    (fun c => (c.1, c.2.dataOut, c.2.txReady, c.2.stp))
    = [(false, 0x43, false, false), (true, 0x43, false, false), (true, 0x43, true, false),
       (true, 0x11, true, false), (true, 0x22, false, false), (true, 0x22, true, false),
       (true, 0, false, true)] := by decide
example : (Tx.outs {} (packetStimulus 2 true 0xC3 1 1 [(0x11, 0)] ⟨0, false, 2, true, false⟩)).map
    (fun c => (c.1, c.2.dataOut, c.2.txReady, c.2.stp))
    = [(false, 0x40, false, false), (true, 0x40, false, false), (true, 0xC3, false, false),
       (true, 0xC3, true, false), (true, 0x11, true, false), (true, 0xFF, false, true)] := by decide

/-- **tx_ready_iff_phy_accepted.**  In every state and for every input: the translator reports a
UTMI byte accepted exactly when the PHY asserts NXT in a cycle in which the translator presents
that byte to it — in TRANSMIT (the byte itself is on `ulpi_data_out`), or in IDLE with the bus
granted and the PID-form command (which carries the byte's PID nibble) on `ulpi_data_out`. -/
theorem tx_ready_iff_phy_accepted (t : Tx) (i : TxIn) :
    (t.step i).2.txReady =
      (i.nxt && (t.st == .transmit ||
                 (t.st == .idle && i.txValid && i.busIdle && !(i.opMode == OP_MODE_NO_BIT_STUFFING)))) := by
  obtain ⟨st, r⟩ := t
  cases st <;> simp [Tx.step] <;> split <;> simp_all <;> split <;> simp_all

/-- …and in those cycles (with `tx_valid` high: UTMI ignores `tx_ready` otherwise) the data lines of
the translator carry the byte (TRANSMIT) or the command with its PID nibble (IDLE), without STP. -/
theorem tx_ready_data (t : Tx) (i : TxIn) (h : (t.step i).2.txReady = true) (hv : i.txValid = true) :
    (t.step i).2.dataOut = (if t.st == .transmit then i.txData else TRANSMIT_COMMAND ||| (i.txData % 16))
    ∧ (t.step i).2.stp = false := by
  obtain ⟨st, r⟩ := t
  cases st
  · by_cases hb : i.busIdle = true <;> by_cases ho : i.opMode = OP_MODE_NO_BIT_STUFFING <;>
      simp_all [Tx.step]
  · simp_all [Tx.step]

/-- **never_drive_when_dir.**  The link's output enable is the complement of DIR in every cycle,
whatever the state and the other inputs; and the pins show the transmit translator exactly while
its `ulpi_out_req` is set (the register window otherwise). -/
theorem never_drive_when_dir (cfg : Config) (s : Utmi) (i : UtmiIn) :
    (s.step cfg i).2.oe = !i.phy.dir := by
  simp [Utmi.step]

theorem mux_shows_transmitter (cfg : Config) (s : Utmi) (i : UtmiIn) (h : s.tx.outReq = true) :
    (s.step cfg i).2.dataO =
      (s.tx.step ⟨i.txData, i.txValid, i.ctrl.opMode % 4, s.txBusIdle i.ctrl i.phy.dir, i.phy.nxt⟩).2.dataOut ∧
    (s.step cfg i).2.stp =
      (s.tx.step ⟨i.txData, i.txValid, i.ctrl.opMode % 4, s.txBusIdle i.ctrl i.phy.dir, i.phy.nxt⟩).2.stp ∧
    (s.step cfg i).2.txReady =
      (s.tx.step ⟨i.txData, i.txValid, i.ctrl.opMode % 4, s.txBusIdle i.ctrl i.phy.dir, i.phy.nxt⟩).2.txReady := by
  simp [Utmi.step, h]

/-- The transmitter never starts while DIR is high: `bus_idle` of the transmit translator implies
DIR low (and start-up finished, and no register write in progress or requested). -/
theorem tx_bus_idle_needs_dir_low (s : Utmi) (c : Controls) (dir : Bool) (h : s.txBusIdle c dir = true) :
    dir = false ∧ s.ctl.busy = false ∧ (s.ctlOut c).writeReq = false ∧ s.phyReady = true := by
  simp [Utmi.txBusIdle] at h; simp [h]

end LunaVerif.Ulpi
