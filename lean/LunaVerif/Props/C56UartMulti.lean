import LunaVerif.Props.C56UartLive
/-!
# C56 — AsyncSerialILA: back to the start hypotheses after a read-out, and several captures in one history

`uart_readout_returns_idle`: one read-out time after the hand-over cycle the composite satisfies the start hypotheses of the
read-out theorems again (`WIdle`, `UartQuiet`).  `uart_multi_capture` / `uart_multi_capture_decoded` iterate
`uart_readout_total` over any number of captures in one history: `tx` carries the bytes of capture 1, then of capture 2, ...,
each capture's samples in order, each once.  `idle_prefix`: trigger-free cycles before the first capture change nothing.
-/

namespace LunaVerif.IlaStream
open LunaVerif.Ila

/-- invariant of the read-out phase: the core rests (idle, write enable low, memory of full length), the wrapper is not
SAMPLING, and when it is IDLE `first` and `data_valid` are low -/
def Resting (c : Config) (s : State) : Prop :=
  IdleState c s.core ∧ s.fsm ≠ .sampling ∧ (s.fsm = .idle → s.first = false ∧ s.dv = false)

theorem resting_step (c : Config) (s : State) (hs : Resting c s) (i : In) (hi : s.fsm = .idle → i.trigger = false) :
    Resting c (step c s i).1 := by
  obtain ⟨⟨cf, wpos, wen, cpl, mem, rd, dl⟩, fsm, csn, f, dv⟩ := s
  obtain ⟨⟨hcf, hw, hm⟩, hns, hid⟩ := hs
  simp only at hcf hw hm hns hid hi; subst hcf hw
  cases fsm
  · obtain ⟨h1, h2⟩ := hid rfl
    subst h1 h2
    simp [step, coreIn, Ila.step, hi rfl, Resting, IdleState, hm]
  · exact absurd rfl hns
  · cases hr : i.ready <;> cases dv <;> simp [step, coreIn, Ila.step, hr, Resting, IdleState, hm]
    split <;> simp

theorem resting_run (c : Config) (ys : List In) : ∀ s, Resting c s → noRetrigger c s ys →
    Resting c (runState c s ys) := by
  induction ys with
  | nil => intro s hs _; exact hs
  | cons y ys ih => intro s hs hq; exact ih _ (resting_step c s hs y hq.1) hq.2

theorem resting_idle (c : Config) (s : State) (hs : Resting c s) (hf : s.fsm = .idle) : WIdle c s ∧ s.dv = false :=
  ⟨⟨hf, hs.1, (hs.2.2 hf).1, fun h => by rw [(hs.2.2 hf).2] at h; cases h⟩, (hs.2.2 hf).2⟩

end LunaVerif.IlaStream

namespace LunaVerif.IlaUart
open LunaVerif.Uart LunaVerif.Ila

/-- the state after the hand-over cycle satisfies the read-out invariant `Resting` -/
theorem handover_resting (c : Config) (hD : 1 ≤ c.ila.depth) (σ : State) (hσ : IlaStream.WIdle c.ila σ.ila)
    (x0 : In) (ht : x0.trigger = true) (xs : List In) (hl : xs.length = c.ila.depth) (xl : In) :
    IlaStream.Resting c.ila (runState c σ (x0 :: xs ++ [xl])).ila := by
  have hpre : ilaHist c σ (x0 :: xs ++ [xl]) = ilaIn c σ x0 :: ilaHist c (step c σ x0).1 xs ++
      [ilaIn c (runState c σ (x0 :: xs)) xl] := by
    have : x0 :: xs ++ [xl] = (x0 :: xs) ++ [xl] := rfl
    rw [this, ilaHist_append]
    simp [ilaHist, runState]
  have hlen := IlaStream.samples_length c.ila σ.ila (ilaIn c σ x0) (ilaHist c (step c σ x0).1 xs)
    (by rw [ilaHist_length, hl])
  obtain ⟨_, wpos, dl, hs⟩ := IlaStream.capture_then_sending c.ila hD σ.ila hσ (ilaIn c σ x0) ht
    (ilaHist c (step c σ x0).1 xs) (by rw [ilaHist_length, hl]) (ilaIn c (runState c σ (x0 :: xs)) xl)
  rw [← hpre] at hs
  rw [ila_view, hs]
  exact ⟨⟨rfl, rfl, hlen⟩, by simp, by simp⟩

/-- **uart_readout_returns_idle**: `10·divisor·bytes_per_sample·depth + 3` cycles after the hand-over cycle (or later, as
long as no new capture is started) the composite is back in a state that satisfies the start hypotheses of the read-out
theorems (`WIdle`, `UartQuiet`), with `data_valid` low: the next trigger starts the next capture and the theorems apply
again. -/
theorem uart_readout_returns_idle (c : Config) (hD : 1 ≤ c.ila.depth) (hd : 1 ≤ c.d) (hw : 1 ≤ c.w) (σ : State)
    (hσ : IlaStream.WIdle c.ila σ.ila) (hu : UartQuiet σ)
    (x0 : In) (ht : x0.trigger = true) (xs : List In) (hl : xs.length = c.ila.depth) (xl : In) (ys : List In)
    (hq : noRetrigger c (runState c σ (x0 :: xs ++ [xl])) ys)
    (hn : 10 * c.d * c.w * c.ila.depth + 3 ≤ ys.length) :
    IlaStream.WIdle c.ila (runState c σ (x0 :: xs ++ xl :: ys)).ila ∧ UartQuiet (runState c σ (x0 :: xs ++ xl :: ys)) ∧
    (runState c σ (x0 :: xs ++ xl :: ys)).ila.dv = false := by
  obtain ⟨h1, h2⟩ := uart_readout_within c hD hd hw σ hσ hu x0 ht xs hl xl ys hq hn
  have hr := handover_resting c hD σ hσ x0 ht xs hl xl
  have hr2 := IlaStream.resting_run c.ila _ _ hr (noRetrigger_view c ys _ hq)
  rw [← ila_view] at hr2
  have hsplit : x0 :: xs ++ xl :: ys = (x0 :: xs ++ [xl]) ++ ys := by simp
  rw [← runState_append, ← hsplit] at hr2
  obtain ⟨w1, w2⟩ := IlaStream.resting_idle c.ila _ hr2 h1
  exact ⟨w1, h2, w2⟩

/-! ## several captures in one history -/

/-- one capture with its read-out: trigger cycle, `depth` capture cycles, hand-over cycle, continuation -/
structure Capture where
  x0 : In
  xs : List In
  xl : In
  ys : List In

def Capture.hist (b : Capture) : List In := b.x0 :: b.xs ++ b.xl :: b.ys

/-- every capture of the list starts with a trigger, and its continuation starts no new capture and lasts at least one
read-out time (`10·divisor·bytes_per_sample·depth + 3` cycles); anything may happen on the other inputs -/
def CapturesOK (c : Config) : State → List Capture → Prop
  | _, [] => True
  | σ, b :: bs => b.x0.trigger = true ∧ b.xs.length = c.ila.depth ∧
      noRetrigger c (runState c σ (b.x0 :: b.xs ++ [b.xl])) b.ys ∧
      10 * c.d * c.w * c.ila.depth + 3 ≤ b.ys.length ∧ CapturesOK c (runState c σ b.hist) bs

/-- the bytes owed to the line: the little-endian bytes of the samples of each capture, capture after capture -/
def capturedBytes (c : Config) : State → List Capture → List Nat
  | _, [] => []
  | σ, b :: bs => (samples c σ b.x0 b.xs).flatMap (bytesLE c.w) ++ capturedBytes c (runState c σ b.hist) bs

theorem run_append (c : Config) (a b : List In) : ∀ s, run c s (a ++ b) = run c s a ++ run c (runState c s a) b := by
  induction a with
  | nil => intro s; rfl
  | cons x a ih => intro s; simp [run, runState, ih]

/-- **uart_multi_capture**: any number of captures in one history, each followed by at least one read-out time without a
new trigger being accepted: the `tx` waveform of the whole history consists of idle-high cycles and complete 8N1 frames whose
bytes are the little-endian bytes of the samples of capture 1, then of capture 2, ... — each capture's `depth` samples in
order, each once, nothing else. -/
theorem uart_multi_capture (c : Config) (hD : 1 ≤ c.ila.depth) (hd : 1 ≤ c.d) (hw : 1 ≤ c.w) (bs : List Capture) :
    ∀ (σ : State), IlaStream.WIdle c.ila σ.ila → UartQuiet σ → CapturesOK c σ bs →
    ∃ segs, (run c σ (bs.flatMap Capture.hist)).map (·.tx) = wave c.d segs ∧ segBytes segs = capturedBytes c σ bs := by
  induction bs with
  | nil => intro σ _ _ _; exact ⟨[], rfl, rfl⟩
  | cons b bs ih =>
    intro σ hσ hu ⟨ht, hl, hq, hn, hrest⟩
    obtain ⟨s1, a1, a2⟩ := uart_readout_total c hD hd hw σ hσ hu b.x0 ht b.xs hl b.xl b.ys hq hn
    obtain ⟨w1, w2, _⟩ := uart_readout_returns_idle c hD hd hw σ hσ hu b.x0 ht b.xs hl b.xl b.ys hq hn
    obtain ⟨s2, b1, b2⟩ := ih _ w1 w2 hrest
    refine ⟨s1 ++ s2, ?_, ?_⟩
    · simp only [List.flatMap_cons, run_append, List.map_append, wave_append]
      rw [← b1]; congr 1
    · simp only [segBytes_append, capturedBytes, a2, b2]; rfl

theorem capturedBytes_lt (c : Config) (bs : List Capture) : ∀ σ, ∀ v ∈ capturedBytes c σ bs, v < 256 := by
  induction bs with
  | nil => intro σ v h; simp [capturedBytes] at h
  | cons b bs ih =>
    intro σ v h
    simp only [capturedBytes, List.mem_append] at h
    rcases h with h | h
    · obtain ⟨x, _, hx⟩ := List.mem_flatMap.mp h
      exact bytesLE_lt _ _ v hx
    · exact ih _ v h

/-- **uart_multi_capture_decoded**: an independent 8N1 receiver listening to `tx` over the whole multi-capture history
receives exactly those bytes. -/
theorem uart_multi_capture_decoded (c : Config) (hD : 1 ≤ c.ila.depth) (hd : 1 ≤ c.d) (hw : 1 ≤ c.w) (bs : List Capture)
    (σ : State) (hσ : IlaStream.WIdle c.ila σ.ila) (hu : UartQuiet σ) (hok : CapturesOK c σ bs) :
    decode c.d ((run c σ (bs.flatMap Capture.hist)).map (·.tx)) = capturedBytes c σ bs := by
  obtain ⟨segs, h1, h2⟩ := uart_multi_capture c hD hd hw bs σ hσ hu hok
  rw [h1, decode_wave c.d hd, h2]
  have hid : ∀ v ∈ capturedBytes c σ bs, v % 256 = id v := fun v hv =>
    Nat.mod_eq_of_lt (capturedBytes_lt c bs σ v hv)
  rw [List.map_congr_left hid, List.map_id]

/-- trigger-free cycles of the quiescent composite: it stays quiescent, the line stays high (so a history may begin with
any number of them, and `init` satisfies the start hypotheses: `init_WIdle`) -/
theorem idle_prefix (c : Config) (pre : List In) : ∀ (σ : State), (∀ x ∈ pre, x.trigger = false) →
    IlaStream.WIdle c.ila σ.ila → UartQuiet σ →
    IlaStream.WIdle c.ila (runState c σ pre).ila ∧ UartQuiet (runState c σ pre) ∧
      (run c σ pre).map (·.tx) = List.replicate pre.length true := by
  induction pre with
  | nil => intro σ _ hσ hu; exact ⟨hσ, hu, rfl⟩
  | cons x pre ih =>
    intro σ hp hσ hu
    have hx : x.trigger = false := hp x (by simp)
    obtain ⟨w1, _, _⟩ := IlaStream.idle_step c.ila σ.ila hσ (ilaIn c σ x) hx
    obtain ⟨wv, _, _, _⟩ := wrap_idle c.ila σ.ila (ilaIn c σ x) hσ.1 hx
    have hq := quiet_step c σ x hu wv
    obtain ⟨i1, i2, i3⟩ := ih (step c σ x).1 (fun y hy => hp y (by simp [hy])) w1 hq
    refine ⟨i1, i2, ?_⟩
    have htx : (step c σ x).2.tx = true := by
      obtain ⟨ila, ⟨f, shift, bytes, ⟨uf, baud, ush, bits⟩⟩⟩ := σ
      obtain ⟨h1, h2⟩ := hu
      simp only at h1 h2; subst h1 h2
      simp [step, mbStep, Uart.step]
      split <;> rfl
    simp only [run, List.map_cons, htx, i3, List.length_cons, List.replicate_succ]

instance (c : Config) : ∀ σ bs, Decidable (CapturesOK c σ bs)
  | _, [] => isTrue trivial
  | σ, b :: bs =>
    have := instDecidableCapturesOK c (runState c σ b.hist) bs
    inferInstanceAs (Decidable (_ ∧ _ ∧ _ ∧ _ ∧ _))

/-! ## Non-vacuity: two captures in one history (depth 2, divisor 1, 2 bytes per sample), the second trigger 45 cycles after
the first hand-over; a blocked trigger during the first read-out -/
def exCap1 : Capture := ⟨⟨true, 0x0102⟩, [⟨false, 0x0304⟩, ⟨false, 7⟩], ⟨false, 8⟩, ⟨true, 9⟩ :: List.replicate 44 ⟨false, 9⟩⟩
def exCap2 : Capture := ⟨⟨true, 0x0506⟩, [⟨false, 0x0708⟩, ⟨false, 7⟩], ⟨false, 8⟩, List.replicate 43 ⟨false, 9⟩⟩

example : CapturesOK exCfg (init exCfg) [exCap1, exCap2] := by decide +kernel
example : capturedBytes exCfg (init exCfg) [exCap1, exCap2] = [0x02, 0x01, 0x04, 0x03, 0x06, 0x05, 0x08, 0x07] := by
  decide +kernel
example : decode 1 ((run exCfg (init exCfg) ([exCap1, exCap2].flatMap Capture.hist)).map (·.tx)) =
    [0x02, 0x01, 0x04, 0x03, 0x06, 0x05, 0x08, 0x07] := by decide +kernel

end LunaVerif.IlaUart
