import LunaVerif.Model.Usb3.Lfps
/-!
# C42 — LFPS patterns are detected exactly within their timing windows

"A periodic LFPS pattern (polling, ping) is reported only after consecutive bursts whose durations lie
within the pattern's burst window and whose repeat periods lie within its repeat window, and a
non-repeating pattern (warm reset) only after a burst within its window; signalling outside the
windows is never reported. The generator produces bursts of the typical length at the typical period
while enabled."

All durations are `ss` cycle counts (`Config` fields, any values satisfying the stated side
conditions).  Histories of the synchronised `present` signal are most-recent-first lists; the full
detector is the core behind a two-cycle delay (`full_eq_core`).
-/

namespace LunaVerif.Lfps.Detector

/-! ## Detector -/

/-- state of the core after a history of `present` values (most recent first) -/
def coreAfter (c : Config) : List Bool → Core
  | [] => coreInit
  | p :: past => coreStep c (coreAfter c past) p

/-- `present` was low in the cycle before `r` begins … or `r` reaches back to reset -/
def Edge (r : List Bool) : Prop := r = [] ∨ ∃ r', r = false :: r'

/-- the history ends with `G ≥ 1` idle cycles preceded by a burst of `B` cycles that began at a
rising edge, burst length and start-to-start period inside the windows -/
def PrevOK (c : Config) (rest : List Bool) : Prop :=
  ∃ G B r, 1 ≤ G ∧ rest = List.replicate G false ++ (List.replicate B true ++ r) ∧ Edge r ∧
    c.bmin ≤ B ∧ B ≤ c.bmax ∧ c.rmin ≤ B + G ∧ B + G ≤ c.rmax

/-- side conditions on the windows (hold for Polling/Ping/Reset at every clock; `wrap` = 2^width
of a counter able to hold max(bmax, rmax)) -/
structure Valid (c : Config) : Prop where
  bmax_pos : 1 ≤ c.bmax
  b_lt_r   : c.hasRepeat = true → c.bmax < c.rmax
  b_wrap   : c.bmax < c.wrap
  r_wrap   : c.hasRepeat = true → c.rmax < c.wrap

def Inv (c : Config) (s : Core) (past : List Bool) : Prop :=
  match s.fsm with
  | .wait => s.delayed = false → Edge past
  | .burst => s.delayed = true ∧ ∃ B r, 1 ≤ B ∧ s.count = B ∧ past = List.replicate B true ++ r ∧ Edge r ∧
      B ≤ c.bmax ∧ (s.last = true → PrevOK c r)
  | .rep => s.delayed = true ∧ c.hasRepeat = true ∧ ∃ G B r, 1 ≤ G ∧ s.count = B + G ∧
      past = List.replicate G false ++ (List.replicate B true ++ r) ∧ Edge r ∧
      c.bmin ≤ B ∧ B ≤ c.bmax ∧ B + G ≤ c.rmax ∧ (s.last = true → PrevOK c r)

theorem inv_step (c : Config) (hv : Valid c) (s : Core) (past : List Bool) (p : Bool)
    (h : Inv c s past) : Inv c (coreStep c s p) (p :: past) := by
  obtain ⟨fsm, count, delayed, last⟩ := s
  cases fsm with
  | wait =>
    simp only [Inv] at h
    cases hd : delayed <;> cases hp : p
    · show Inv c ⟨.wait, _, false, false⟩ (false :: past)
      simp [Inv, Edge]
    · show Inv c ⟨.burst, 1, true, false⟩ (true :: past)
      exact ⟨rfl, 1, past, by omega, rfl, rfl, h hd, hv.bmax_pos, by simp⟩
    · show Inv c ⟨.wait, _, false, false⟩ (false :: past)
      simp [Inv, Edge]
    · show Inv c ⟨.wait, _, true, false⟩ (true :: past)
      simp [Inv]
  | burst =>
    simp only [Inv] at h
    obtain ⟨hdl, B, r, hB, hc, hpast, he, hle, hl⟩ := h
    subst hc; subst hdl
    cases hp : p
    · -- burst over
      by_cases hmin : count < c.bmin
      · simp [coreStep, hmin, Inv]
      · cases hr : c.hasRepeat
        · simp [coreStep, hmin, hr, Inv]
        · have hlt := hv.b_lt_r hr
          have hw := hv.r_wrap hr
          have hm : (count + 1) % c.wrap = count + 1 := Nat.mod_eq_of_lt (by omega)
          simp only [coreStep, hmin, hr, Inv, hm]
          simp only [Bool.not_false, if_true, if_false]
          exact ⟨trivial, trivial, 1, count, r, by omega, rfl, by simp [hpast], he, by omega, hle, by omega, hl⟩
    · by_cases hmax : count = c.bmax
      · simp [coreStep, hmax, Inv]
      · have hw := hv.b_wrap
        have hm : (count + 1) % c.wrap = count + 1 := Nat.mod_eq_of_lt (by omega)
        have hne : (count == c.bmax) = false := by simpa using hmax
        simp only [coreStep, hne, Inv, hm]
        simp only [Bool.not_true, Bool.false_eq_true, if_false]
        exact ⟨trivial, count + 1, r, by omega, rfl, by simp [hpast, List.replicate_succ], he, by omega, hl⟩
  | rep =>
    simp only [Inv] at h
    obtain ⟨hdl, hr, G, B, r, hG, hc, hpast, he, hbmin, hbmax, hrmax, hl⟩ := h
    subst hc; subst hdl
    cases hp : p
    · by_cases hmax : B + G = c.rmax
      · simp [coreStep, hmax, Inv]
      · have hw := hv.r_wrap hr
        have hm : (B + G + 1) % c.wrap = B + G + 1 := Nat.mod_eq_of_lt (by omega)
        have hne : (B + G == c.rmax) = false := by simpa using hmax
        simp only [coreStep, hne, Inv, hm]
        simp only [Bool.false_eq_true, if_false]
        exact ⟨trivial, hr, G + 1, B, r, by omega, by omega, by simp [hpast, List.replicate_succ], he,
               hbmin, hbmax, by omega, hl⟩
    · simp only [coreStep, Inv, if_true]
      refine ⟨trivial, 1, past, by omega, rfl, by simp, ?_, hv.bmax_pos, ?_⟩
      · obtain ⟨g, hg⟩ : ∃ g, G = g + 1 := ⟨G - 1, by omega⟩
        exact Or.inr ⟨List.replicate g false ++ (List.replicate B true ++ r), by simp [hpast, hg, List.replicate_succ]⟩
      · intro hlast
        have : c.rmin ≤ B + G := by simpa using hlast
        exact ⟨G, B, r, hG, hpast, he, hbmin, hbmax, this, hrmax⟩

theorem inv_coreAfter (c : Config) (hv : Valid c) (past : List Bool) :
    Inv c (coreAfter c past) past := by
  induction past with
  | nil => simp [Inv, coreAfter, coreInit, Edge]
  | cons p past ih => exact inv_step c hv _ past p ih

/-- **C42 (detect ⇒ windows), on the synchronised signal.**  For all windows (`Valid`) and every
history: a `detect` in the cycle with `present = p` after the history `past` implies
* periodic pattern: `p` is the first cycle of a burst, and the history before it is
  idle `G1` · burst `B1` · idle `G0` · burst `B0` (most recent first), the earlier burst beginning at
  a rising edge, with both burst lengths in `[bmin, bmax]` and both start-to-start periods
  `B0 + G0`, `B1 + G1` in `[rmin, rmax]`;
* non-repeating pattern: `p` is the first idle cycle after a burst of `B ∈ [bmin, bmax]` cycles
  that began at a rising edge. -/
theorem core_detect_implies_windows (c : Config) (hv : Valid c) (past : List Bool) (p : Bool)
    (h : coreDetect c (coreAfter c past) p = true) :
    (c.hasRepeat = true ∧ p = true ∧ ∃ G1 B1 G0 B0 r, 1 ≤ G1 ∧ 1 ≤ G0 ∧
        past = List.replicate G1 false ++ (List.replicate B1 true ++
                (List.replicate G0 false ++ (List.replicate B0 true ++ r))) ∧ Edge r ∧
        c.bmin ≤ B1 ∧ B1 ≤ c.bmax ∧ c.rmin ≤ B1 + G1 ∧ B1 + G1 ≤ c.rmax ∧
        c.bmin ≤ B0 ∧ B0 ≤ c.bmax ∧ c.rmin ≤ B0 + G0 ∧ B0 + G0 ≤ c.rmax) ∨
    (c.hasRepeat = false ∧ p = false ∧ ∃ B r, 1 ≤ B ∧ past = List.replicate B true ++ r ∧ Edge r ∧
        c.bmin ≤ B ∧ B ≤ c.bmax) := by
  have hi := inv_coreAfter c hv past
  generalize coreAfter c past = s at h hi
  obtain ⟨fsm, count, delayed, last⟩ := s
  cases fsm with
  | wait => simp [coreDetect] at h
  | burst =>
    simp only [coreDetect, Bool.and_eq_true, Bool.not_eq_true', decide_eq_false_iff_not] at h
    obtain ⟨hr, hp, hmin⟩ := h
    simp only [Inv] at hi
    obtain ⟨_, B, r, hB, hc, hpast, he, hle, _⟩ := hi
    subst hc
    exact Or.inr ⟨hr, hp, count, r, hB, hpast, he, by omega, hle⟩
  | rep =>
    simp only [coreDetect, Bool.and_eq_true, decide_eq_true_eq] at h
    obtain ⟨hp, hmin, hl⟩ := h
    simp only [Inv] at hi
    obtain ⟨_, hr, G, B, r, hG, hc, hpast, he, hbmin, hbmax, hrmax, hprev⟩ := hi
    subst hc
    obtain ⟨G0, B0, r0, hG0, hr0, he0, h1, h2, h3, h4⟩ := hprev hl
    exact Or.inl ⟨hr, hp, G, B, G0, B0, r0, hG, hG0, by rw [hpast, hr0], he0, hbmin, hbmax, hmin, hrmax,
                  h1, h2, h3, h4⟩

/-! ### the synchroniser: the full detector is the core two cycles later -/

def stateAfter (c : Config) : List Bool → State
  | [] => init
  | x :: sigs => (step c (stateAfter c sigs) x).1

/-- history of `present` belonging to a history of `signaling_received` (both most recent first):
two cycles older, `present` being low in the first two cycles after reset -/
def delayed2 (sigs : List Bool) : List Bool := sigs.drop 2 ++ List.replicate (min 2 sigs.length) false

theorem delayed2_cons (x : Bool) (sigs : List Bool) :
    delayed2 (x :: sigs) = sigs.getD 1 false :: delayed2 sigs := by
  match sigs with
  | [] => rfl
  | [a] => rfl
  | a :: b :: r => simp [delayed2, List.getD]

theorem full_eq_core (c : Config) (sigs : List Bool) :
    stateAfter c sigs = ⟨sigs.getD 0 false, sigs.getD 1 false, coreAfter c (delayed2 sigs)⟩ := by
  induction sigs with
  | nil => rfl
  | cons x sigs ih =>
    rw [stateAfter, ih, delayed2_cons]
    cases sigs <;> simp [step, coreAfter, List.getD]

def outsFrom (c : Config) : List Bool → List Bool → List Bool
  | _, [] => []
  | sigs, x :: xs => (step c (stateAfter c sigs) x).2 :: outsFrom c (x :: sigs) xs

theorem run_eq_outsFrom (c : Config) (sigs hist : List Bool) :
    run c (stateAfter c sigs) hist = outsFrom c sigs hist := by
  induction hist generalizing sigs with
  | nil => rfl
  | cons x xs ih => simp only [run, outsFrom]; rw [← ih (x :: sigs)]; rfl

/-- **C42 (detect ⇒ windows), full detector.**  `detect` in the cycle after the input history
`sigs` (whatever the input of the current cycle is) implies the window facts of
`core_detect_implies_windows` for the input as it was two cycles earlier. -/
theorem detect_implies_windows (c : Config) (hv : Valid c) (sigs : List Bool) (x : Bool)
    (h : (step c (stateAfter c sigs) x).2 = true) :
    let past := delayed2 sigs
    let p := sigs.getD 1 false
    (c.hasRepeat = true ∧ p = true ∧ ∃ G1 B1 G0 B0 r, 1 ≤ G1 ∧ 1 ≤ G0 ∧
        past = List.replicate G1 false ++ (List.replicate B1 true ++
                (List.replicate G0 false ++ (List.replicate B0 true ++ r))) ∧ Edge r ∧
        c.bmin ≤ B1 ∧ B1 ≤ c.bmax ∧ c.rmin ≤ B1 + G1 ∧ B1 + G1 ≤ c.rmax ∧
        c.bmin ≤ B0 ∧ B0 ≤ c.bmax ∧ c.rmin ≤ B0 + G0 ∧ B0 + G0 ≤ c.rmax) ∨
    (c.hasRepeat = false ∧ p = false ∧ ∃ B r, 1 ≤ B ∧ past = List.replicate B true ++ r ∧ Edge r ∧
        c.bmin ≤ B ∧ B ≤ c.bmax) := by
  rw [full_eq_core] at h
  exact core_detect_implies_windows c hv _ _ (by simpa [step] using h)

/-! ### converse: patterns inside the windows are reported -/

/-- feed `present` values, oldest first -/
def coreFeed (c : Config) : Core → List Bool → Core
  | s, [] => s
  | s, p :: ps => coreFeed c (coreStep c s p) ps

theorem coreFeed_append (c : Config) (s : Core) (a b : List Bool) :
    coreFeed c s (a ++ b) = coreFeed c (coreFeed c s a) b := by
  induction a generalizing s with
  | nil => rfl
  | cons p ps ih => simp only [List.cons_append, coreFeed]; exact ih _

theorem burst_hold (c : Config) (hw : c.bmax < c.wrap) (n cnt : Nat) (d l : Bool)
    (h : cnt + n ≤ c.bmax) :
    coreFeed c ⟨.burst, cnt, d, l⟩ (List.replicate n true) = ⟨.burst, cnt + n, d, l⟩ := by
  induction n generalizing cnt with
  | zero => rfl
  | succ n ih =>
    have hne : (cnt == c.bmax) = false := by simp; omega
    have hm : (cnt + 1) % c.wrap = cnt + 1 := Nat.mod_eq_of_lt (by omega)
    simp only [List.replicate_succ, coreFeed, coreStep, hne, hm]
    simp only [Bool.not_true, Bool.false_eq_true, if_false]
    rw [ih (cnt + 1) (by omega)]
    congr 1; omega

theorem rep_hold (c : Config) (hw : c.rmax < c.wrap) (n cnt : Nat) (d l : Bool)
    (h : cnt + n ≤ c.rmax) :
    coreFeed c ⟨.rep, cnt, d, l⟩ (List.replicate n false) = ⟨.rep, cnt + n, d, l⟩ := by
  induction n generalizing cnt with
  | zero => rfl
  | succ n ih =>
    have hne : (cnt == c.rmax) = false := by simp; omega
    have hm : (cnt + 1) % c.wrap = cnt + 1 := Nat.mod_eq_of_lt (by omega)
    simp only [List.replicate_succ, coreFeed, coreStep, hne, hm]
    simp only [Bool.false_eq_true, if_false]
    rw [ih (cnt + 1) (by omega)]
    congr 1; omega

/-- one complete burst of `B` cycles seen from a state that measures it from its first cycle
(count just set to 1) followed by its first idle cycle: the repeat measurement begins -/
theorem burst_then_idle (c : Config) (hv : Valid c) (hr : c.hasRepeat = true) (B : Nat) (d l : Bool)
    (hB : 1 ≤ B) (hmin : c.bmin ≤ B) (hmax : B ≤ c.bmax) :
    coreFeed c (coreFeed c ⟨.burst, 1, d, l⟩ (List.replicate (B - 1) true)) [false] = ⟨.rep, B + 1, d, l⟩ := by
  have hlt := hv.b_lt_r hr
  have hw := hv.r_wrap hr
  rw [burst_hold c hv.b_wrap (B - 1) 1 d l (by omega)]
  have h1 : 1 + (B - 1) = B := by omega
  have hnm : ¬ B < c.bmin := by omega
  have hm : (B + 1) % c.wrap = B + 1 := Nat.mod_eq_of_lt (by omega)
  simp [coreFeed, coreStep, h1, hnm, hr, hm]

/-- **C42 (windows ⇒ detect).**  Periodic pattern, all windows (`Valid`): when the detector waits
on a quiet line (`WAIT_FOR_NEXT_BURST`, `present` low in the previous cycle) and then sees
burst `B0` · idle `G0` · burst `B1` · idle `G1` with both burst lengths in `[bmin, bmax]` and both
periods `B + G` in `[rmin, rmax]` (in particular: strictly inside), `detect` is asserted in the first
cycle of the third burst. -/
theorem in_window_is_detected (c : Config) (hv : Valid c) (hr : c.hasRepeat = true)
    (s : Core) (hs : s.fsm = .wait ∧ s.delayed = false)
    (B0 G0 B1 G1 : Nat) (hB0 : 1 ≤ B0) (hG0 : 1 ≤ G0) (hB1 : 1 ≤ B1) (hG1 : 1 ≤ G1)
    (b0 : c.bmin ≤ B0 ∧ B0 ≤ c.bmax) (p0 : c.rmin ≤ B0 + G0 ∧ B0 + G0 ≤ c.rmax)
    (b1 : c.bmin ≤ B1 ∧ B1 ≤ c.bmax) (p1 : c.rmin ≤ B1 + G1 ∧ B1 + G1 ≤ c.rmax) :
    coreDetect c (coreFeed c s
      ([true] ++ (List.replicate (B0 - 1) true ++ [false]) ++ List.replicate (G0 - 1) false ++
       [true] ++ (List.replicate (B1 - 1) true ++ [false]) ++ List.replicate (G1 - 1) false)) true = true := by
  obtain ⟨fsm, count, delayed, last⟩ := s
  obtain ⟨hf, hd⟩ := hs
  simp only at hf hd; subst hf; subst hd
  have hw := hv.r_wrap hr
  simp only [coreFeed_append]
  have e1 : coreFeed c ⟨.wait, count, false, last⟩ [true] = ⟨.burst, 1, true, false⟩ := by
    simp [coreFeed, coreStep]
  rw [e1, burst_then_idle c hv hr B0 true false hB0 b0.1 b0.2,
      rep_hold c hw (G0 - 1) (B0 + 1) true false (by omega)]
  have e2 : coreFeed c ⟨.rep, B0 + 1 + (G0 - 1), true, false⟩ [true] = ⟨.burst, 1, true, true⟩ := by
    have : c.rmin ≤ B0 + 1 + (G0 - 1) := by omega
    simp [coreFeed, coreStep, this]
  rw [e2, burst_then_idle c hv hr B1 true true hB1 b1.1 b1.2,
      rep_hold c hw (G1 - 1) (B1 + 1) true true (by omega)]
  have : c.rmin ≤ B1 + 1 + (G1 - 1) := by omega
  simp [coreDetect, this]

/-- … and the non-repeating pattern: a burst of `B ∈ [bmin, bmax]` cycles after a quiet line is
reported in its first idle cycle. -/
theorem in_window_is_detected_single (c : Config) (hv : Valid c) (hr : c.hasRepeat = false)
    (s : Core) (hs : s.fsm = .wait ∧ s.delayed = false) (B : Nat) (hB : 1 ≤ B)
    (b : c.bmin ≤ B ∧ B ≤ c.bmax) :
    coreDetect c (coreFeed c s ([true] ++ List.replicate (B - 1) true)) false = true := by
  obtain ⟨fsm, count, delayed, last⟩ := s
  obtain ⟨hf, hd⟩ := hs
  simp only at hf hd; subst hf; subst hd
  simp only [coreFeed_append]
  have e1 : coreFeed c ⟨.wait, count, false, last⟩ [true] = ⟨.burst, 1, true, false⟩ := by
    simp [coreFeed, coreStep]
  rw [e1, burst_hold c hv.b_wrap (B - 1) 1 true false (by omega)]
  have hnm : ¬ (1 + (B - 1) < c.bmin) := by omega
  simp [coreDetect, hr, hnm]

/-- the three USB patterns at the real 125 MHz clock satisfy the side conditions -/
example : Valid ⟨75, 175, true, 750, 1750, 2048⟩ := ⟨by decide, by decide, by decide, by decide⟩
example : Valid ⟨5, 20, true, 20000000, 30000000, 33554432⟩ := ⟨by decide, by decide, by decide, by decide⟩
example : Valid ⟨10000000, 15000000, false, 0, 0, 16777216⟩ := ⟨by decide, by simp, by decide, by simp⟩

/-- Non-vacuity: windows burst 2..3, period 5..7; bursts of 2 every 6 cycles: `detect` with the third
burst (two cycles after the input, through the synchroniser); a 4-cycle burst breaks the chain. -/
example : run ⟨2, 3, true, 5, 7, 8⟩ init
    [true, true, false, false, false, false, true, true, false, false, false, false, true, true, false, false]
    = [false, false, false, false, false, false, false, false, false, false, false, false, false, false,
       true, false] := by decide

end LunaVerif.Lfps.Detector

namespace LunaVerif.Lfps.Generator

/-! ## Generator -/

def runState (c : Config) : State → List Bool → State
  | s, [] => s
  | s, x :: xs => runState c (step c s x).1 xs

theorem run_append (c : Config) (s : State) (a b : List Bool) :
    run c s (a ++ b) = run c s a ++ run c (runState c s a) b := by
  induction a generalizing s with
  | nil => rfl
  | cons x xs ih => simp only [List.cons_append, run, runState, ih]

theorem runState_append (c : Config) (s : State) (a b : List Bool) :
    runState c s (a ++ b) = runState c (runState c s a) b := by
  induction a generalizing s with
  | nil => rfl
  | cons x xs ih => simp only [List.cons_append, runState, ih]

def sendOut : Out := ⟨true, true, false⟩
def idleOut : Out := ⟨true, false, false⟩
def doneOut : Out := ⟨true, false, true⟩

theorem burst_phase (c : Config) (hw : c.burst < c.wrap) (xs : List Bool) (cnt : Nat)
    (h : cnt + xs.length < c.burst) :
    run c ⟨.burst, cnt⟩ xs = List.replicate xs.length sendOut ∧
    runState c ⟨.burst, cnt⟩ xs = ⟨.burst, cnt + xs.length⟩ := by
  induction xs generalizing cnt with
  | nil => exact ⟨rfl, rfl⟩
  | cons x xs ih =>
    simp only [List.length_cons] at h
    have hne : (cnt + 1 == c.burst) = false := by simp; omega
    have hm : (cnt + 1) % c.wrap = cnt + 1 := Nat.mod_eq_of_lt (by omega)
    obtain ⟨h1, h2⟩ := ih (cnt + 1) (by omega)
    simp only [run, runState, step, hne, hm, List.length_cons, List.replicate_succ]
    simp only [Bool.false_eq_true, if_false]
    exact ⟨by rw [h1]; rfl, by rw [h2]; congr 1; omega⟩

theorem wait_phase (c : Config) (hw : c.period ≤ c.wrap) (xs : List Bool) (cnt : Nat)
    (h : cnt + xs.length < c.period) :
    run c ⟨.wait, cnt⟩ xs = List.replicate xs.length idleOut ∧
    runState c ⟨.wait, cnt⟩ xs = ⟨.wait, cnt + xs.length⟩ := by
  induction xs generalizing cnt with
  | nil => exact ⟨rfl, rfl⟩
  | cons x xs ih =>
    simp only [List.length_cons] at h
    have hne : (cnt + 1 == c.period) = false := by simp; omega
    have hm : (cnt + 1) % c.wrap = cnt + 1 := Nat.mod_eq_of_lt (by omega)
    obtain ⟨h1, h2⟩ := ih (cnt + 1) (by omega)
    simp only [run, runState, step, hne, hm, List.length_cons, List.replicate_succ]
    simp only [Bool.false_eq_true, if_false]
    exact ⟨by rw [h1]; rfl, by rw [h2]; congr 1; omega⟩

/-- **C42 (generator).**  For all cycle counts `1 ≤ burst < period ≤ wrap`: a request seen in IDLE
(any counter value) is followed — whatever `generate` does meanwhile — by exactly `burst` cycles of
`send_signaling`, then `period - burst` cycles of electrical idle without signalling, the last of
them carrying `completed`; `drive_electrical_idle` is high throughout; then the generator is in IDLE
again.  With `generate` held the next burst therefore starts `period + 1` cycles after the previous
one (one IDLE cycle per LFPS cycle). -/
theorem generator_burst_and_period (c : Config) (hb : 1 ≤ c.burst) (hbp : c.burst < c.period)
    (hw : c.period ≤ c.wrap) (n : Nat) (xs1 : List Bool) (a : Bool) (xs2 : List Bool) (b : Bool)
    (h1 : xs1.length + 1 = c.burst) (h2 : xs2.length + 1 + c.burst = c.period) :
    run c ⟨.idle, n⟩ ([true] ++ xs1 ++ [a] ++ xs2 ++ [b]) =
      [idleOut] ++ List.replicate c.burst sendOut ++ List.replicate (c.period - c.burst - 1) idleOut ++ [doneOut] ∧
    (runState c ⟨.idle, n⟩ ([true] ++ xs1 ++ [a] ++ xs2 ++ [b])).fsm = .idle := by
  obtain ⟨p1, q1⟩ := burst_phase c (by omega) xs1 0 (by omega)
  have e0r : run c ⟨.idle, n⟩ [true] = [idleOut] := by simp [run, step, idleOut]
  have e0s : runState c ⟨.idle, n⟩ [true] = ⟨.burst, 0⟩ := by simp [runState, step]
  have hlast : (0 + xs1.length + 1 == c.burst) = true := by simp; omega
  have hmw : (0 + xs1.length + 1) % c.wrap = c.burst := by
    rw [Nat.mod_eq_of_lt (by omega)]; omega
  have ear : run c ⟨.burst, 0 + xs1.length⟩ [a] = [sendOut] := by simp [run, step, sendOut]
  have eas : runState c ⟨.burst, 0 + xs1.length⟩ [a] = ⟨.wait, c.burst⟩ := by
    simp only [runState, step, hlast, if_true, hmw]
  obtain ⟨p2, q2⟩ := wait_phase c hw xs2 c.burst (by omega)
  have hfin : (c.burst + xs2.length + 1 == c.period) = true := by simp; omega
  have ebr : run c ⟨.wait, c.burst + xs2.length⟩ [b] = [doneOut] := by simp [run, step, hfin, doneOut]
  have ebs : (runState c ⟨.wait, c.burst + xs2.length⟩ [b]).fsm = .idle := by simp [runState, step, hfin]
  have hl2 : xs2.length = c.period - c.burst - 1 := by omega
  have hl1 : List.replicate xs1.length sendOut ++ [sendOut] = List.replicate c.burst sendOut := by
    rw [← h1, List.replicate_succ']
  constructor
  · simp only [run_append, runState_append, e0r, e0s, p1, q1, ear, eas, p2, q2, ebr]
    rw [← hl1, ← hl2]
    simp only [List.append_assoc]
  · simp only [runState_append, e0s, q1, eas, q2, ebs]

/-- the real Polling generator at 125 MHz: 125-cycle bursts (1 µs), LFPS cycle 1250 + 1 idle cycle
= 10.008 µs, inside the 6–14 µs repeat window (750..1750 cycles) -/
example : (1 : Nat) ≤ 125 ∧ 125 < 1250 ∧ 1250 ≤ 2048 ∧ 750 ≤ 1250 + 1 ∧ 1250 + 1 ≤ 1750 := by decide

/-- Non-vacuity: burst 2, period 5 with `generate` held: bursts start every 6 cycles -/
example : (run ⟨2, 5, 8⟩ init (List.replicate 13 true)).map (·.send)
    = [false, true, true, false, false, false, false, true, true, false, false, false, false] := by decide

end LunaVerif.Lfps.Generator
