import LunaVerif.Model.Usb3.PacketTx
import LunaVerif.Lemmas.HeaderRx
/-!
# C39 — Header transmission respects credits and retransmits unacknowledged headers

"The link transmits a new header packet only while the partner has advertised an unused credit,
numbers headers consecutively from the partner's advertised sequence, retires a header only on an
LGOOD carrying its sequence number, and after an LBAD retransmits every unacknowledged header in order
with the delayed flag set before sending new ones."

Quantifier: all partner link-command histories (LCRD/LGOOD/LBAD/LRTY orderings and mismatches) and all
header-queue timings.

The theorems are about `PacketTx.step`, the model of the **repaired** transmitter (see the model file
and notes/C39.md: four one-cycle races around LBAD were found in the code as found and repaired by the
`fix:` commit in branch wt-sslink), and the observer's record `Ghost`.

Environment (`EnvStep`): the link stays up (`en`); the partner acknowledges only outstanding headers
(`ack`) and hands out a credit only for a buffer it has — four at first, one more per acknowledged
header (`cred`).  Credit-letter and sequence *mismatches* are not excluded: they simply do not count
(`creditReceived`, `retire` are false) and raise `recovery_required` (`mismatch_requests_recovery`).

Part (4) of the property (retransmission after LBAD) is proved at history level in `Props/C39Retry.lean`
(`lbad_retransmits_all_unacked_in_order_with_dl`, built on `Lemmas/C39Round.lean` — control invariant,
one preservation lemma per FSM state — and `Lemmas/C39RoundRun.lean` — the ghost retry round and the
induction over the history).  This file keeps the one-step facts (`lbad_retry_one_step_facts`): (ii) an
LBAD reloads the read pointer with the acknowledge pointer, the send counter with the number of
unacknowledged headers (plus one enqueued in the same cycle) and sets `retry_pending` in every state,
(iii) a packet in flight never advances the reloaded pointer (FLUSH_PACKET / WAIT_FOR_SEND do not
dequeue), (iv) in WAIT_FOR_RETRY every header handed to the raw transmitter is `buffers[read pointer]`
with the delayed bit set, generation waits for `lrty_pending` to clear, each completion advances the
pointer by one and the state is left only when the counter runs out, and from DISPATCH_PACKET a pending
retry always leads to WAIT_FOR_RETRY; and (i) the invariant `hwin`: the buffers between the acknowledge
pointer and the write pointer hold exactly the unacknowledged headers in order.
-/
namespace LunaVerif.PacketTx
open LunaVerif.HeaderRx (Hdr Bufs bufQ bufQ_pop bufQ_push bufQ_both)

section proj
variable (c : Config) (s : State) (i : In)
theorem step_credits : (step c s i).1.credits = if !i.enable then 0
    else if creditReceived s && !enq s i then (s.credits + 1) % 8
    else if enq s i && !creditReceived s then (s.credits + 7) % 8 else s.credits := rfl
theorem step_paa : (step c s i).1.paa = if !i.enable then 0
    else if enq s i && !retire s then (s.paa + 1) % 8
    else if retire s && !enq s i && s.paa != 0 then (s.paa + 7) % 8 else s.paa := rfl
theorem step_pts : (step c s i).1.pts = if !i.enable then 0
    else if retryRequired s then (if enq s i then (s.paa + 1) % 8 else s.paa)
    else if enq s i && !deq s i then (s.pts + 1) % 8
    else if deq s i && !enq s i then (s.pts + 7) % 8 else s.pts := rfl
theorem step_rp : (step c s i).1.rp = if !i.enable then 0 else if retryRequired s then s.ap
    else if deq s i then (s.rp + 1) % 4 else s.rp := rfl
theorem step_wp : (step c s i).1.wp = if !i.enable then 0 else if enq s i then (s.wp + 1) % 4 else s.wp := rfl
theorem step_ap : (step c s i).1.ap = if !i.enable then 0 else if retire s then (s.ap + 1) % 4 else s.ap := rfl
theorem step_bufs : (step c s i).1.bufs =
    if enq s i then s.bufs.set s.wp { i.qHdr with dw3 := setSeq i.qHdr.dw3 s.txSeq } else s.bufs := rfl
theorem step_txSeq : (step c s i).1.txSeq =
    if advert s then (s.dSub + 1) % 8 else if enq s i then (s.txSeq + 1) % 8 else s.txSeq := rfl
theorem step_nextAck : (step c s i).1.nextAck =
    if advert s then (s.dSub + 1) % 8 else if retire s then (s.nextAck + 1) % 8 else s.nextAck := rfl
theorem step_bringup : (step c s i).1.bringup =
    if !i.enable then false else if advert s then true else s.bringup := rfl
theorem step_retryPending : (step c s i).1.retryPending = if !i.enable then false
    else if s.fsm == .waitRetry && rawDone s i && s.pts == 1 && !retryRequired s then false
    else if retryRequired s then true else s.retryPending := rfl
theorem step_fsm : (step c s i).1.fsm = fsmNext s i := rfl
theorem step_rHdr : (step c s i).1.rHdr = if latch s i then txHeader s else s.rHdr := rfl
end proj

theorem seq_setSeq (h : Hdr) (n : Nat) : ({ h with dw3 := setSeq h.dw3 n } : Hdr).seq = n % 8 := by
  simp only [Hdr.seq, setSeq]
  generalize h.dw3 = d
  omega

/-- What an observer has seen since the link came up. -/
structure Ghost where
  adv     : Nat          -- subtype of the sequence advertisement (first LGOOD)
  taken   : List Hdr     -- headers taken from the queue, as stored (with their assigned sequence number)
  lcrds   : Nat          -- credits accepted (LCRDs carrying the expected letter)
  retired : Nat          -- headers retired
deriving Repr

def Ghost.init : Ghost := ⟨0, [], 0, 0⟩

def ghostStep (s : State) (i : In) (g : Ghost) : Ghost :=
  { adv := if advert s then s.dSub else g.adv
    taken := if enq s i then g.taken ++ [{ i.qHdr with dw3 := setSeq i.qHdr.dw3 s.txSeq }] else g.taken
    lcrds := if creditReceived s then g.lcrds + 1 else g.lcrds
    retired := if retire s then g.retired + 1 else g.retired }

def runG (c : Config) : State → Ghost → List In → State × Ghost
  | s, g, [] => (s, g)
  | s, g, i :: is => runG c (step c s i).1 (ghostStep s i g) is

/-- Environment: the link stays up; the partner acknowledges only headers that are outstanding, and
hands out a credit only for a buffer it has (four initially, one more per acknowledged header). -/
structure EnvStep (s : State) (g : Ghost) (i : In) : Prop where
  en   : i.enable = true
  ack  : retire s = true → s.paa ≠ 0
  cred : creditReceived s = true → g.lcrds < 4 + g.retired

def EnvOk (c : Config) : State → Ghost → List In → Prop
  | _, _, [] => True
  | s, g, i :: is => EnvStep s g i ∧ EnvOk c (step c s i).1 (ghostStep s i g) is

structure Inv (s : State) (g : Ghost) : Prop where
  hcred : s.credits + g.taken.length = g.lcrds
  hlim  : g.lcrds ≤ 4 + g.retired
  hpaa  : s.paa + g.retired = g.taken.length
  hnob  : s.bringup = false → g.taken = [] ∧ g.retired = 0
  hseq  : s.bringup = true → s.txSeq = (g.adv + 1 + g.taken.length) % 8
  hseqs : g.taken.map Hdr.seq = (List.range g.taken.length).map (fun k => (g.adv + 1 + k) % 8)
  hack  : s.bringup = true → s.nextAck = (g.adv + 1 + g.retired) % 8
  hap   : s.ap < 4
  hwp   : s.wp = (s.ap + s.paa) % 4
  hwin  : bufQ s.bufs s.ap s.paa = g.taken.drop g.retired

theorem inv_init : Inv init Ghost.init := by
  constructor <;> simp [init, Ghost.init, bufQ]

set_option linter.unusedSectionVars false
set_option linter.unusedSimpArgs false
section stepinv
variable {c : Config} {s : State} {g : Ghost} {i : In} (h : Inv s g) (e : EnvStep s g i)
include h e

theorem excl : (advert s = true → enq s i = false ∧ retire s = false ∧ creditReceived s = false) ∧
    (retire s = true → creditReceived s = false) ∧ (enq s i = true → s.bringup = true ∧ 1 ≤ s.credits) := by
  simp only [advert, enq, qReady, retire, creditReceived, LGOOD, LCRD, Bool.and_eq_true, beq_iff_eq, bne_iff_ne,
    Bool.not_eq_true', Bool.and_eq_false_iff]
  refine ⟨?_, ?_, ?_⟩
  · rintro ⟨⟨_, hc⟩, hb⟩; simp [hb, hc]
  · rintro ⟨⟨⟨_, hc⟩, _⟩, _⟩; simp [hc]
  · rintro ⟨_, hb, hc⟩; exact ⟨hb, by omega⟩

theorem counts_step :
    (step c s i).1.credits + (ghostStep s i g).taken.length = (ghostStep s i g).lcrds ∧
    (ghostStep s i g).lcrds ≤ 4 + (ghostStep s i g).retired ∧
    (step c s i).1.paa + (ghostStep s i g).retired = (ghostStep s i g).taken.length := by
  obtain ⟨x1, x2, x3⟩ := excl h e
  have := h.hcred; have := h.hlim; have := h.hpaa
  have ea := e.ack; have ec := e.cred
  simp only [step_credits, step_paa, ghostStep, e.en, Bool.not_true, Bool.false_eq_true, if_false]
  rcases Bool.eq_false_or_eq_true (enq s i) with he | he <;>
  rcases Bool.eq_false_or_eq_true (retire s) with hr | hr <;>
  rcases Bool.eq_false_or_eq_true (creditReceived s) with hc | hc <;>
    simp_all <;> omega

theorem nob_step : (step c s i).1.bringup = false →
    (ghostStep s i g).taken = [] ∧ (ghostStep s i g).retired = 0 := by
  obtain ⟨x1, x2, x3⟩ := excl h e
  have hn := h.hnob
  simp only [step_bringup, ghostStep, e.en, Bool.not_true, Bool.false_eq_true, if_false]
  intro hb
  have ha : advert s = false := by cases hx : advert s <;> simp_all
  have hb' : s.bringup = false := by simpa [ha] using hb
  have he : enq s i = false := by cases hx : enq s i <;> simp_all
  have hr : retire s = false := by simp [retire, hb']
  simp [he, hr, hn hb']

theorem seq_step : ((step c s i).1.bringup = true →
      (step c s i).1.txSeq = ((ghostStep s i g).adv + 1 + (ghostStep s i g).taken.length) % 8) ∧
    (ghostStep s i g).taken.map Hdr.seq =
      (List.range (ghostStep s i g).taken.length).map (fun k => ((ghostStep s i g).adv + 1 + k) % 8) ∧
    ((step c s i).1.bringup = true →
      (step c s i).1.nextAck = ((ghostStep s i g).adv + 1 + (ghostStep s i g).retired) % 8) := by
  obtain ⟨x1, x2, x3⟩ := excl h e
  have hn := h.hnob; have hs := h.hseq; have hl := h.hseqs; have hk := h.hack
  simp only [step_bringup, step_txSeq, step_nextAck, ghostStep, e.en, Bool.not_true, Bool.false_eq_true, if_false]
  rcases Bool.eq_false_or_eq_true (advert s) with ha | ha
  · -- the advertisement: nothing taken yet
    obtain ⟨y1, y2, y3⟩ := x1 ha
    have hb : s.bringup = false := by simp [advert] at ha; exact ha.2
    obtain ⟨t0, r0⟩ := hn hb
    simp [ha, y1, y2, t0, r0]
  · simp only [ha, Bool.false_eq_true, if_false]
    rcases Bool.eq_false_or_eq_true (enq s i) with he | he
    · obtain ⟨hb, _⟩ := x3 he
      have hts := hs hb
      simp only [he, if_true, hb, forall_const]
      refine ⟨by simp [hts]; omega, ?_, ?_⟩
      · rw [List.map_append, List.length_append, List.length_singleton, List.range_succ, List.map_append, ← hl]
        simp [seq_setSeq, hts]
      · rcases Bool.eq_false_or_eq_true (retire s) with hr | hr <;> simp [hr, hk hb] <;> omega
    · simp only [he, Bool.false_eq_true, if_false]
      refine ⟨hs, hl, ?_⟩
      intro hb
      rcases Bool.eq_false_or_eq_true (retire s) with hr | hr <;> simp [hr, hk hb] <;> omega

theorem win_step : (step c s i).1.ap < 4 ∧
    (step c s i).1.wp = ((step c s i).1.ap + (step c s i).1.paa) % 4 ∧
    bufQ (step c s i).1.bufs (step c s i).1.ap (step c s i).1.paa =
      (ghostStep s i g).taken.drop (ghostStep s i g).retired := by
  obtain ⟨x1, x2, x3⟩ := excl h e
  have hap := h.hap; have hwp := h.hwp; have hw := h.hwin; have hp := h.hpaa
  have hc := h.hcred; have hl := h.hlim; have ea := e.ack
  have hp4 : s.paa + s.credits ≤ 4 := by omega
  simp only [step_ap, step_wp, step_paa, step_bufs, ghostStep, e.en, Bool.not_true, Bool.false_eq_true, if_false]
  rcases Bool.eq_false_or_eq_true (enq s i) with he | he <;>
  rcases Bool.eq_false_or_eq_true (retire s) with hr | hr <;>
    simp only [he, hr, if_true, if_false, Bool.false_eq_true, Bool.not_true, Bool.not_false, Bool.and_true,
      Bool.and_false, Bool.true_and, Bool.false_and]
  · -- enqueue and retire
    have h1 := (x3 he).2; have h2 := ea hr
    refine ⟨Nat.mod_lt _ (by decide), by omega, ?_⟩
    have hd : g.taken.drop (g.retired + 1) = (g.taken.drop g.retired).drop 1 := by simp [Nat.add_comm]
    have hlen : g.retired < g.taken.length := by omega
    rw [List.drop_append_of_le_length (by omega), hd, ← hw, hwp,
      bufQ_pop s.bufs s.ap s.paa (by omega) (by omega) hap]
    simp only [List.drop_one, List.tail_cons]
    have := bufQ_both s.bufs s.ap s.paa { i.qHdr with dw3 := setSeq i.qHdr.dw3 s.txSeq } (by omega) (by omega) hap
    rw [bufQ_pop s.bufs s.ap s.paa (by omega) (by omega) hap] at this
    simpa using this
  · -- enqueue only
    have h1 := (x3 he).2
    have e1 : (s.paa + 1) % 8 = s.paa + 1 := by omega
    refine ⟨hap, by omega, ?_⟩
    rw [e1, hwp, bufQ_push _ _ _ _ (by omega) hap, hw, List.drop_append_of_le_length (by omega)]
  · -- retire only
    have h2 := ea hr
    have e1 : (s.paa + 7) % 8 = s.paa - 1 := by omega
    have hne : (s.paa != 0) = true := by simp [h2]
    simp only [hne, if_true]
    refine ⟨Nat.mod_lt _ (by decide), by omega, ?_⟩
    have hd : g.taken.drop (g.retired + 1) = (g.taken.drop g.retired).drop 1 := by simp [Nat.add_comm]
    rw [e1, hd, ← hw, bufQ_pop s.bufs s.ap s.paa (by omega) (by omega) hap]; simp
  · exact ⟨hap, hwp, hw⟩

/-- **The invariant is preserved by every cycle in which the environment holds.** -/
theorem inv_step : Inv (step c s i).1 (ghostStep s i g) := by
  obtain ⟨a1, a2, a3⟩ := counts_step (c := c) h e
  obtain ⟨b1, b2, b3⟩ := seq_step (c := c) h e
  obtain ⟨d1, d2, d3⟩ := win_step (c := c) h e
  exact ⟨a1, a2, a3, nob_step h e, b1, b2, b3, d1, d2, d3⟩
end stepinv

theorem inv_run (c : Config) (ins : List In) : ∀ (s : State) (g : Ghost), Inv s g → EnvOk c s g ins →
    Inv (runG c s g ins).1 (runG c s g ins).2 := by
  induction ins with
  | nil => intro s g h _; exact h
  | cons i is ih => intro s g h e; exact ih _ _ (inv_step h e.1) e.2

theorem inv_reachable (c : Config) (ins : List In) (e : EnvOk c init Ghost.init ins) :
    Inv (runG c init Ghost.init ins).1 (runG c init Ghost.init ins).2 :=
  inv_run c ins _ _ inv_init e

/-- **C39 (1)**: a header is taken from the queue only after bring-up and while an advertised credit is
unused: `credits_available` is exactly credits received minus headers taken, `queue.ready` needs it to
be non-zero, so the headers taken never exceed the credits received. -/
theorem send_only_with_credit (c : Config) (ins : List In) (e : EnvOk c init Ghost.init ins) :
    let r := runG c init Ghost.init ins
    r.1.credits + r.2.taken.length = r.2.lcrds ∧ r.1.credits ≤ 4 ∧
    (∀ i, (step c r.1 i).2.qReady = true → r.1.bringup = true ∧ r.2.taken.length < r.2.lcrds) := by
  have h := inv_reachable c ins e
  refine ⟨h.hcred, ?_, fun i hq => ?_⟩
  · have := h.hcred; have := h.hlim; have := h.hpaa; omega
  · have hq' : qReady (runG c init Ghost.init ins).1 = true := hq
    simp only [qReady, Bool.and_eq_true, bne_iff_ne] at hq'
    have := h.hcred
    exact ⟨hq'.1, by omega⟩

/-- **C39 (2)**: the k-th header taken after the sequence advertisement LGOOD_n is stored (and, by
`tx_word_carries_header`, transmitted and retransmitted) with sequence number n + 1 + k (mod 8). -/
theorem sequence_numbers_consecutive_from_advertised (c : Config) (ins : List In)
    (e : EnvOk c init Ghost.init ins) :
    let r := runG c init Ghost.init ins
    ∀ k (hk : k < r.2.taken.length), (r.2.taken[k]).seq = (r.2.adv + 1 + k) % 8 := by
  intro r k hk
  have h := inv_reachable c ins e
  have hs := List.getElem_of_eq h.hseqs (i := k) (by simpa using hk)
  simpa using hs

/-- The raw transmitter sends the latched header's words unchanged and composes DW3 from the latched
link control word (sequence number, delayed flag, …) with freshly computed CRCs (`txDw3`). -/
theorem tx_word_carries_header (c : Config) (s : State) (i : In) :
    (s.raw = .dw0 → (step c s i).2.srcData = s.rHdr.dw0) ∧ (s.raw = .dw1 → (step c s i).2.srcData = s.rHdr.dw1) ∧
    (s.raw = .dw2 → (step c s i).2.srcData = s.rHdr.dw2) ∧
    (s.raw = .dw3 → (step c s i).2.srcData =
        HeaderRx.hdrCrc16 s.rHdr + s.rHdr.lcw * 65536 + Crc.usb3Crc5 s.rHdr.lcw * 134217728) := by
  refine ⟨?_, ?_, ?_, ?_⟩ <;> intro h <;> simp [step, h, txDw3]

/-- **C39 (3)**: a header is retired exactly when an LGOOD arrives after bring-up whose number is the
expected acknowledgement number — and that number is the sequence number of the oldest unacknowledged
header, which sits at the acknowledge pointer.  Any other LGOOD after bring-up raises
`recovery_required` (`mismatch_requests_recovery`). -/
theorem retire_only_on_matching_lgood (c : Config) (ins : List In) (e : EnvOk c init Ghost.init ins) :
    let r := runG c init Ghost.init ins
    (retire r.1 = true ↔ (r.1.dNew = true ∧ r.1.dCmd = LGOOD ∧ r.1.bringup = true ∧ r.1.dSub = r.1.nextAck)) ∧
    (retire r.1 = true → r.1.paa ≠ 0 →
      ∃ hk : r.2.retired < r.2.taken.length,
        (r.2.taken[r.2.retired]).seq = r.1.dSub ∧ r.1.bufs.get r.1.ap = r.2.taken[r.2.retired]) := by
  intro r
  have h : Inv r.1 r.2 := inv_reachable c ins e
  refine ⟨?_, fun hr hp => ?_⟩
  · simp only [retire, Bool.and_eq_true, beq_iff_eq]
    constructor
    · rintro ⟨⟨⟨a, b⟩, c'⟩, d⟩; exact ⟨a, b, c', d.symm⟩
    · rintro ⟨a, b, c', d⟩; exact ⟨⟨⟨a, b⟩, c'⟩, d.symm⟩
  · have hk : r.2.retired < r.2.taken.length := by have := h.hpaa; omega
    refine ⟨hk, ?_, ?_⟩
    · have hs := List.getElem_of_eq h.hseqs (i := r.2.retired) (by simpa using hk)
      simp only [List.getElem_map, List.getElem_range] at hs
      simp only [retire, Bool.and_eq_true, beq_iff_eq] at hr
      rw [hs, ← hr.2, h.hack hr.1.2]
    · have hw := h.hwin
      obtain ⟨n, hn⟩ : ∃ n, r.1.paa = n + 1 := ⟨r.1.paa - 1, by omega⟩
      have h0 : (bufQ r.1.bufs r.1.ap r.1.paa)[0]? = some (r.1.bufs.get r.1.ap) := by
        simp [bufQ, hn, List.range_succ_eq_map]
      rw [hw] at h0
      simp only [List.getElem?_drop, Nat.add_zero] at h0
      rw [List.getElem?_eq_getElem hk] at h0
      exact (Option.some.inj h0).symm

/-- A credit with the wrong letter or an acknowledgement with the wrong number (after bring-up) is not
counted and requests recovery. -/
theorem mismatch_requests_recovery (c : Config) (s : State) (i : In) :
    (s.dNew = true → s.dCmd = LCRD → s.dSub ≠ s.nextCredit →
        creditReceived s = false ∧ (step c s i).2.recoveryRequired = true) ∧
    (s.dNew = true → s.dCmd = LGOOD → s.bringup = true → s.dSub ≠ s.nextAck →
        retire s = false ∧ (step c s i).2.recoveryRequired = true) := by
  constructor
  · intro a b d
    have : (s.nextCredit == s.dSub) = false := by simp; exact fun h => d h.symm
    simp [creditReceived, step, recovery, a, b, this, LCRD, LGOOD]
    exact Or.inl (fun h => d h.symm)
  · intro a b b2 d
    have : (s.nextAck == s.dSub) = false := by simp; exact fun h => d h.symm
    simp [retire, step, recovery, a, b, b2, this, LCRD, LGOOD]
    exact Or.inl (fun h => d h.symm)

/-! ### (4) retransmission after LBAD -/

/-- **C39 (4), one-step facts** (the history-level theorem is in `Props/C39Retry.lean`).
(ii) an LBAD (while the link is up) reloads read pointer and send counter from the acknowledge pointer /
the number of unacknowledged headers and sets `retry_pending`, in every state;
(iii) FLUSH_PACKET and a WAIT_FOR_SEND with a pending retry never dequeue, so a packet in flight cannot
advance the reloaded pointer; (iv) in WAIT_FOR_RETRY the header offered to the raw transmitter is
`buffers[read pointer]` with the delayed bit set, nothing is generated while `lrty_pending`, a completion
advances the pointer by one, the state is left only on the last completion or for FLUSH_PACKET, and
DISPATCH_PACKET with a retry pending goes to WAIT_FOR_RETRY. -/
theorem lbad_retry_one_step_facts (c : Config) (s : State) (i : In)
    (hen : i.enable = true) :
    (retryRequired s = true →
        (step c s i).1.rp = s.ap ∧ (step c s i).1.retryPending = true ∧
        (step c s i).1.pts = (if enq s i then (s.paa + 1) % 8 else s.paa) ∧
        (s.fsm ≠ .waitSend → (step c s i).1.fsm ≠ .waitSend)) ∧
    (s.fsm = .flush → deq s i = false ∧ generate s i = false) ∧
    (s.fsm = .waitSend → s.retryPending = true → deq s i = false) ∧
    (s.fsm = .waitRetry →
        (txHeader s).delayed = true ∧ (txHeader s).dw0 = (s.bufs.get s.rp).dw0 ∧
        (txHeader s).dw1 = (s.bufs.get s.rp).dw1 ∧ (txHeader s).dw2 = (s.bufs.get s.rp).dw2 ∧
        (txHeader s).seq = (s.bufs.get s.rp).seq ∧
        (i.lrtyPending = true → latch s i = false) ∧
        (retryRequired s = false → deq s i = true → (step c s i).1.rp = (s.rp + 1) % 4) ∧
        (retryRequired s = false → (step c s i).1.fsm = .dispatch → (rawDone s i = true ∧ s.pts = 1))) ∧
    (s.fsm = .dispatch → s.retryPending = true → (step c s i).1.fsm ≠ .waitSend) := by
  refine ⟨fun hr => ?_, fun hf => ?_, fun hf hp => ?_, fun hf => ?_, fun hf hp => ?_⟩
  · refine ⟨by simp [step_rp, hen, hr], by simp [step_retryPending, hen, hr], by simp [step_pts, hen, hr], ?_⟩
    intro hs
    simp only [step_fsm, fsmNext, hr]
    cases hx : s.fsm <;> simp_all <;> split <;> simp
  · simp [deq, generate, hf]
  · simp [deq, hf, hp]
  · refine ⟨?_, ?_, ?_, ?_, ?_, ?_, ?_, ?_⟩
    · simp only [txHeader, hf, HeaderRx.Hdr.delayed, setDelayed]; simp; split <;> omega
    · simp [txHeader, hf]
    · simp [txHeader, hf]
    · simp [txHeader, hf]
    · simp only [txHeader, hf, HeaderRx.Hdr.seq, setDelayed]; simp; split <;> omega
    · intro hl; simp [latch, generate, hf, hl]
    · intro hr hd; simp [step_rp, hen, hr, hd]
    · intro hr hd
      simp only [step_fsm, fsmNext, hf, hr, Bool.false_eq_true, if_false] at hd
      split at hd
      · rename_i hc; simpa using hc
      · cases hd
  · simp only [step_fsm, fsmNext, hf, hp]
    split <;> simp


/-! ## Non-vacuity -/

def idleIn : In :=
  { sinkValid := false, sinkData := 0, sinkCtrl := 0, srcReady := true, enable := true, qValid := false,
    qHdr := .zero, lrtyPending := false }
/-- a link command on the sink: LCSTART, then the command word -/
def lcIn (cmd sub : Nat) : List In :=
  [{ idleIn with sinkValid := true, sinkData := HeaderRx.lcStart, sinkCtrl := 15 },
   { idleIn with sinkValid := true, sinkData := HeaderRx.lcWord cmd sub }]
def qIn (h : Hdr) : In := { idleIn with qValid := true, qHdr := h }

instance (s : State) (g : Ghost) (i : In) : Decidable (EnvStep s g i) :=
  decidable_of_iff (i.enable = true ∧ (retire s = true → s.paa ≠ 0) ∧
      (creditReceived s = true → g.lcrds < 4 + g.retired))
    ⟨fun ⟨a, b, c⟩ => ⟨a, b, c⟩, fun ⟨a, b, c⟩ => ⟨a, b, c⟩⟩

def decEnvOk (c : Config) : (s : State) → (g : Ghost) → (ins : List In) → Decidable (EnvOk c s g ins)
  | _, _, [] => isTrue trivial
  | s, g, i :: is =>
    match (inferInstance : Decidable (EnvStep s g i)), decEnvOk c (step c s i).1 (ghostStep s i g) is with
    | isTrue a, isTrue b => isTrue ⟨a, b⟩
    | isFalse a, _ => isFalse (fun h => a h.1)
    | _, isFalse b => isFalse (fun h => b h.2)
instance (c : Config) (s : State) (g : Ghost) (ins : List In) : Decidable (EnvOk c s g ins) := decEnvOk c s g ins

/-- advertisement LGOOD_5, two credits, two headers from the queue, their transmission, LGOOD_6, then an
LBAD: the remaining header is retransmitted. -/
def demo : List In :=
  lcIn LGOOD 5 ++ lcIn LCRD 0 ++ lcIn LCRD 1 ++ [idleIn, qIn ⟨4, 1, 2, 0⟩, qIn ⟨4, 3, 4, 0⟩] ++
  List.replicate 16 idleIn ++ lcIn LGOOD 6 ++ lcIn LBAD 0 ++ List.replicate 10 idleIn

example : EnvOk ⟨201, 256⟩ init Ghost.init demo := by decide +kernel
example : let r := runG ⟨201, 256⟩ init Ghost.init demo
    r.2.adv = 5 ∧ r.2.taken.map Hdr.seq = [6, 7] ∧ r.2.lcrds = 2 ∧ r.2.retired = 1 ∧ r.1.paa = 1 ∧
    r.1.credits = 0 := by decide +kernel

end LunaVerif.PacketTx
