import LunaVerif.Model.Usb3.Scrambler
/-!
# C31 — SuperSpeed scrambling uses the USB3 LFSR and descrambling inverts it

"The scrambling keystream is the x^16+x^5+x^4+x^3+1 LFSR sequence, one byte per symbol; data
symbols are XORed with it and control symbols pass unchanged. The keystream advances only when a
word is actually transferred (not while held for SKP insertion) and restarts after a COM in a
word's first symbol, so descrambling a scrambled stream from the same starting state returns the
original stream."

The reference LFSR (USB 3.2 Appendix B) is the bit-serial Galois register `XorAlg.serialStep` with
polynomial 0039h fed with zeros; its output bit is the MSB before each advance; a symbol consumes
eight output bits, first bit = bit 0 of the key byte.  The two XOR networks of `ScramblerLFSR` are
compared with it symbolically (`*_table`, kernel evaluation of coefficient tables regenerated from
/repo) and the comparison is lifted to all 2^16 register values by `XorAlg.transfer_*`.
-/
namespace LunaVerif.Scrambler
open LunaVerif.Crc LunaVerif.XorAlg LunaVerif.Generated

/-- x^16 + x^5 + x^4 + x^3 + 1 (top term implicit) -/
def polyL : List Bool := lsbBits 0x0039 16

/-- the key byte of the next symbol: 8 output bits of the serial LFSR -/
def keyByte (r : Reg) : List Bool := keystream polyL 8 r
/-- the register after `n` symbols: `8 n` serial advances -/
def skip (n : Nat) (r : Reg) : Reg := advance polyL (8 * n) r

/-! ## 1. The LFSR networks -/

theorem lfsr_tables_wellFormed :
    wellFormed 16 AffineLfsr.lfsrNext ∧ wellFormed 16 AffineLfsr.lfsrValue ∧
    AffineLfsr.lfsrNext.length = 16 ∧ AffineLfsr.lfsrValue.length = 32 ∧ AffineLfsr.lfsrWidth = 16 ∧
    AffineLfsr.lfsrClearIsInit = 1 := by decide +kernel

/-- the defaults of `ScramblerLFSR` and `Descrambler` are the specification's restart value FFFFh -/
theorem lfsr_default_init_is_spec :
    AffineLfsr.lfsrDefaultInit = 0xFFFF ∧ AffineLfsr.descramblerDefaultInit = 0xFFFF := by decide

theorem lfsr_next_table :
    net symOne (symIn 16) AffineLfsr.lfsrNext = advance polyL 32 (symIn 16) := by decide +kernel

theorem lfsr_value_table :
    net symOne (symIn 16) AffineLfsr.lfsrValue = keystream polyL 32 (symIn 16) := by decide +kernel

/-- **One gateware advance = 32 serial steps**, for every register value. -/
theorem lfsr_next_generated_eq_serial32 (r : Reg) (hr : r.length = 16) :
    lfsrNext r = advance polyL 32 r :=
  transfer_advance _ polyL 32 lfsr_next_table r hr

/-- **The 32-bit `value` = the next 32 keystream bits**, for every register value. -/
theorem lfsr_value_generated_eq_keystream (r : Reg) (hr : r.length = 16) :
    lfsrValue r = keystream polyL 32 r :=
  transfer_keystream _ polyL 32 lfsr_value_table r hr

theorem length_polyL : polyL.length = 16 := by simp [polyL, lsbBits]

theorem length_keystream {α : Type} [XorAlg α] (poly : List Bool) (k : Nat) (r : List α) :
    (keystream poly k r).length = k := by
  induction k generalizing r with
  | zero => rfl
  | succ k ih => simp [keystream, ih]

theorem advance_add {α : Type} [XorAlg α] (poly : List Bool) (a b : Nat) (r : List α) :
    advance poly (a + b) r = advance poly b (advance poly a r) := by
  rw [advance, advance, advance, ← serial_append, List.replicate_append_replicate]

theorem advance_succ {α : Type} [XorAlg α] (poly : List Bool) (a : Nat) (r : List α) :
    advance poly (a + 1) r = advance poly a (serialStep poly r XorAlg.zero) := by
  simp [advance, List.replicate_succ, XorAlg.serial]

theorem keystream_add {α : Type} [XorAlg α] (poly : List Bool) (a b : Nat) (r : List α) :
    keystream poly (a + b) r = keystream poly a r ++ keystream poly b (advance poly a r) := by
  induction a generalizing r with
  | zero => simp [keystream, advance, XorAlg.serial]
  | succ a ih =>
    have : a + 1 + b = (a + b) + 1 := by omega
    rw [this]
    simp only [keystream, List.cons_append, ih, advance_succ]

theorem length_skip (n : Nat) (r : Reg) (hr : r.length = 16) : (skip n r).length = 16 := by
  have := length_serial polyL r (List.replicate (8 * n) XorAlg.zero) (by rw [hr, length_polyL]) (by rw [length_polyL]; decide)
  rw [length_polyL] at this
  exact this

theorem skip_add (a b : Nat) (r : Reg) : skip (a + b) r = skip b (skip a r) := by
  simp only [skip, Nat.mul_add, advance_add]

theorem lfsrNext_eq_skip4 (r : Reg) (hr : r.length = 16) : lfsrNext r = skip 4 r :=
  lfsr_next_generated_eq_serial32 r hr

/-- **The four key bytes of a word are the next four keystream bytes**: byte `i` is the
eight LFSR output bits after `i` symbols. -/
theorem keyBytes_eq_keystream (r : Reg) (hr : r.length = 16) :
    keyBytes r = [keyByte r, keyByte (skip 1 r), keyByte (skip 2 r), keyByte (skip 3 r)] := by
  have e : keystream polyL 32 r
      = keyByte r ++ (keyByte (skip 1 r) ++ (keyByte (skip 2 r) ++ keyByte (skip 3 r))) := by
    have h1 := keystream_add polyL 8 24 r
    have h2 := keystream_add polyL 8 16 (advance polyL 8 r)
    have h3 := keystream_add polyL 8 8 (advance polyL 8 (advance polyL 8 r))
    rw [← advance_add] at h3
    rw [← advance_add] at h2 h3
    simp only [keyByte, skip]
    rw [show (32 : Nat) = 8 + 24 from rfl, h1, show (24 : Nat) = 8 + 16 from rfl, h2,
      show (16 : Nat) = 8 + 8 from rfl, h3]
  have l0 : (keyByte r).length = 8 := length_keystream _ _ _
  have l1 : (keyByte (skip 1 r)).length = 8 := length_keystream _ _ _
  have l2 : (keyByte (skip 2 r)).length = 8 := length_keystream _ _ _
  have l3 : (keyByte (skip 3 r)).length = 8 := length_keystream _ _ _
  simp only [keyBytes, lfsr_value_generated_eq_keystream r hr, e]
  generalize keyByte r = a at *
  generalize keyByte (skip 1 r) = b at *
  generalize keyByte (skip 2 r) = c at *
  generalize keyByte (skip 3 r) = d at *
  have t0 : (a ++ (b ++ (c ++ d))).take 8 = a := by rw [← l0]; simp
  have d0 : (a ++ (b ++ (c ++ d))).drop 8 = b ++ (c ++ d) := by rw [← l0]; simp
  have t1 : (b ++ (c ++ d)).take 8 = b := by rw [← l1]; simp
  have d1 : (b ++ (c ++ d)).drop 8 = c ++ d := by rw [← l1]; simp
  have t2 : (c ++ d).take 8 = c := by rw [← l2]; simp
  have d2 : (c ++ d).drop 8 = d := by rw [← l2]; simp
  have t3 : d.take 8 = d := by rw [← l3]; simp
  have e16 : (a ++ (b ++ (c ++ d))).drop 16 = c ++ d := by
    rw [show (16 : Nat) = 8 + 8 from rfl, ← List.drop_drop, d0, d1]
  have e24 : (a ++ (b ++ (c ++ d))).drop 24 = d := by
    rw [show (24 : Nat) = 8 + 16 from rfl, ← List.drop_drop, d0, show (16 : Nat) = 8 + 8 from rfl,
      ← List.drop_drop, d1, d2]
  rw [t0, d0, t1, e16, t2, e24, t3]

/-! ## 2. What happens to the symbols -/

theorem length_xorBits (d k : List Bool) : (xorBits d k).length = d.length := by
  induction d generalizing k with
  | nil => cases k <;> rfl
  | cons x xs ih => cases k <;> simp [xorBits, ih]

theorem xorBits_xorBits (d k : List Bool) : xorBits (xorBits d k) k = d := by
  induction d generalizing k with
  | nil => cases k <;> rfl
  | cons x xs ih => cases k with
    | nil => rfl
    | cons y ys => simp only [xorBits, ih]; cases x <;> cases y <;> rfl

/-- scrambling never changes the K flag of a symbol -/
theorem scrSymbol_k (enable : Bool) (s : Symbol) (key : List Bool) : (scrSymbol enable s key).k = s.k := by
  unfold scrSymbol; split <;> rfl

/-- **Control symbols pass unchanged** (whatever the key, whether or not scrambling is enabled). -/
theorem scrSymbol_ctrl (enable : Bool) (s : Symbol) (key : List Bool) (hk : s.k = true) :
    scrSymbol enable s key = s := by
  simp [scrSymbol, hk]

/-- with `enable` low every symbol passes -/
theorem scrSymbol_disabled (s : Symbol) (key : List Bool) : scrSymbol false s key = s := by
  simp [scrSymbol]

/-- **Data symbols are XORed with their key byte.** -/
theorem scrSymbol_data (s : Symbol) (key : List Bool) (hk : s.k = false) :
    scrSymbol true s key = { k := false, d := xorBits s.d key } := by
  simp [scrSymbol, hk]

theorem scrSymbol_involutive (enable : Bool) (s : Symbol) (key : List Bool) :
    scrSymbol enable (scrSymbol enable s key) key = s := by
  cases enable
  · simp [scrSymbol]
  · cases hk : s.k
    · cases s; simp_all [scrSymbol, xorBits_xorBits]
    · simp [scrSymbol, hk]

theorem length_scrWord (enable : Bool) (ss : List Symbol) (ks : List (List Bool)) :
    (scrWord enable ss ks).length = ss.length := by
  induction ss generalizing ks with
  | nil => cases ks <;> rfl
  | cons x xs ih => cases ks <;> simp [scrWord, ih]

/-- symbol `i` of the output word is symbol `i` of the input word scrambled with key byte `i` -/
theorem scrWord_getElem? (enable : Bool) (ss : List Symbol) (ks : List (List Bool)) (i : Nat)
    (s : Symbol) (key : List Bool) (hs : ss[i]? = some s) (hkey : ks[i]? = some key) :
    (scrWord enable ss ks)[i]? = some (scrSymbol enable s key) := by
  induction ss generalizing ks i with
  | nil => simp at hs
  | cons x xs ih =>
    cases ks with
    | nil => simp at hkey
    | cons y ys =>
      cases i with
      | zero => simp at hs hkey; simp [scrWord, hs, hkey]
      | succ i => simp at hs hkey; simpa [scrWord] using ih ys i hs hkey

/-- `source.ctrl = sink.ctrl` -/
theorem scrWord_ctrl (enable : Bool) (ss : List Symbol) (ks : List (List Bool)) :
    (scrWord enable ss ks).map (·.k) = ss.map (·.k) := by
  induction ss generalizing ks with
  | nil => cases ks <;> rfl
  | cons x xs ih => cases ks <;> simp [scrWord, ih, scrSymbol_k]

theorem scrWord_involutive (enable : Bool) (ss : List Symbol) (ks : List (List Bool)) :
    scrWord enable (scrWord enable ss ks) ks = ss := by
  induction ss generalizing ks with
  | nil => cases ks <;> rfl
  | cons x xs ih => cases ks <;> simp [scrWord, ih, scrSymbol_involutive]

theorem keyBytes_getElem? (r : Reg) (hr : r.length = 16) (i : Nat) (hi : i < 4) :
    (keyBytes r)[i]? = some (keyByte (skip i r)) := by
  rw [keyBytes_eq_keystream r hr]
  have h0 : skip 0 r = r := by simp [skip, advance, XorAlg.serial]
  match i, hi with
  | 0, _ => simp [h0]
  | 1, _ => simp
  | 2, _ => simp
  | 3, _ => simp

/-- **C31, the output of one cycle**: in a word of four symbols, for every register value, a data
symbol in position `i` leaves XORed with the keystream byte `i` symbols ahead of the register
(when scrambling is enabled), and a control symbol leaves unchanged; `valid`, `ctrl` and `ready`
pass through. -/
theorem step_output (iv : Nat) (r : Reg) (hr : r.length = 16) (i : In) (n : Nat) (hn : n < 4)
    (s : Symbol) (hs : i.syms[n]? = some s) :
    (step iv r i).2.syms[n]? =
      some (if i.enable && !s.k then { s with d := xorBits s.d (keyByte (skip n r)) } else s)
    ∧ (step iv r i).2.valid = i.valid ∧ (step iv r i).2.sinkReady = i.ready
    ∧ (step iv r i).2.syms.map (·.k) = i.syms.map (·.k) := by
  refine ⟨?_, rfl, rfl, scrWord_ctrl _ _ _⟩
  simp only [step]
  rw [scrWord_getElem? i.enable i.syms (keyBytes r) n s _ hs (keyBytes_getElem? r hr n hn)]
  rfl

/-- **Control symbols pass through** (stated on the module's output). -/
theorem ctrl_symbols_pass (iv : Nat) (r : Reg) (hr : r.length = 16) (i : In) (n : Nat) (hn : n < 4)
    (s : Symbol) (hs : i.syms[n]? = some s) (hk : s.k = true) :
    (step iv r i).2.syms[n]? = some s := by
  rw [(step_output iv r hr i n hn s hs).1]; simp [hk]

/-! ## 3. When the LFSR moves -/

theorem length_initReg (iv : Nat) : (initReg iv).length = 16 := by simp [initReg, lsbBits]

theorem length_lfsrNext (r : Reg) : (lfsrNext r).length = 16 := by
  simp [lfsrNext, net, lfsr_tables_wellFormed.2.2.1]

theorem length_step (iv : Nat) (r : Reg) (hr : r.length = 16) (i : In) : (step iv r i).1.length = 16 := by
  simp only [step, lfsrStep]
  split
  · exact length_initReg iv
  · split
    · exact length_lfsrNext r
    · exact hr

/-- **The LFSR advances only on a transfer, by exactly four symbols**; a held word (SKP insertion),
a stalled word (`ready` low) or an idle cycle (`valid` low) leaves it where it is — unless the
register is restarted. -/
theorem advance_only_on_transfer (iv : Nat) (r : Reg) (hr : r.length = 16) (i : In)
    (hc : lfsrClear i = false) :
    (step iv r i).1 = if i.valid && i.ready && !i.hold then skip 4 r else r := by
  simp only [step, lfsrStep, hc, lfsrAdvance, lfsrNext_eq_skip4 r hr]
  rfl

/-- **Restart**: a valid word whose first symbol is COM (or the `clear` strobe) puts the register
back to its initial value, whatever `hold` / `ready` are. -/
theorem restart_after_com (iv : Nat) (r : Reg) (i : In) (s : Symbol) (rest : List Symbol)
    (hv : i.valid = true) (hs : i.syms = s :: rest) (hcom : isCom s = true) :
    (step iv r i).1 = initReg iv := by
  simp [step, lfsrStep, lfsrClear, commaPresent, hv, hs, hcom]

theorem restart_on_clear (iv : Nat) (r : Reg) (i : In) (hc : i.clear = true) :
    (step iv r i).1 = initReg iv := by
  simp [step, lfsrStep, lfsrClear, hc]

/-- number of words transferred in a history -/
def transfers (h : List In) : Nat := (h.filter lfsrAdvance).length

/-- register after a history -/
def regAfter (iv : Nat) (r : Reg) (h : List In) : Reg := h.foldl (fun r i => (step iv r i).1) r

/-- **The keystream position is the number of symbols transferred since the restart**: over any
history without restart, with arbitrary hold / stall / idle cycles interleaved, the register is
`4 × transfers` symbols ahead — so the `n`-th transferred word is scrambled with keystream bytes
`4n … 4n+3` of the serial LFSR started at the restart value (`step_output`). -/
theorem lfsr_position (iv : Nat) (r : Reg) (hr : r.length = 16) (h : List In)
    (hc : ∀ i ∈ h, lfsrClear i = false) :
    regAfter iv r h = skip (4 * transfers h) r := by
  induction h generalizing r with
  | nil => simp [regAfter, transfers, skip, advance, XorAlg.serial]
  | cons i is ih =>
    have hci : lfsrClear i = false := hc i (by simp)
    have hcs : ∀ j ∈ is, lfsrClear j = false := fun j hj => hc j (by simp [hj])
    simp only [regAfter, List.foldl_cons]
    have := ih (step iv r i).1 (length_step iv r hr i) hcs
    simp only [regAfter] at this
    rw [this, advance_only_on_transfer iv r hr i hci]
    have hA : (i.valid && i.ready && !i.hold) = lfsrAdvance i := rfl
    rw [hA]
    cases ha : lfsrAdvance i
    · have ht : transfers (i :: is) = transfers is := by simp [transfers, ha]
      rw [ht]; rfl
    · have ht : transfers (i :: is) = 1 + transfers is := by
        simp [transfers, ha, Nat.add_comm]
      rw [ht, Nat.mul_add, skip_add]; rfl

/-! ## 4. Descrambling inverts scrambling -/

theorem isCom_scrSymbol (enable : Bool) (s : Symbol) (key : List Bool) :
    isCom (scrSymbol enable s key) = isCom s := by
  cases hk : s.k
  · simp [isCom, scrSymbol_k, hk]
  · rw [scrSymbol_ctrl enable s key hk]

theorem commaPresent_scr (i : In) (ks : List (List Bool)) :
    commaPresent { i with syms := scrWord i.enable i.syms ks } = commaPresent i := by
  unfold commaPresent
  cases hs : i.syms with
  | nil => cases ks <;> simp [scrWord]
  | cons s rest => cases ks with
    | nil => simp [scrWord]
    | cons k ks => simp [scrWord, isCom_scrSymbol]

/-- One cycle of a scrambler feeding a descrambler that is in the same LFSR state and sees the
same `clear` / `enable` / `hold` / `ready`: the descrambler returns the original word, and the two
registers stay equal. -/
theorem pair_step (iv : Nat) (r : Reg) (i : In) :
    let res := pairStep iv iv (r, r) i
    res.2.2.syms = i.syms ∧ res.2.2.valid = i.valid ∧ res.1.1 = res.1.2 := by
  simp only [pairStep, step]
  refine ⟨scrWord_involutive _ _ _, trivial, ?_⟩
  have hc : lfsrClear { i with valid := i.valid, syms := scrWord i.enable i.syms (keyBytes r) } = lfsrClear i := by
    simp only [lfsrClear]
    rw [commaPresent_scr i (keyBytes r)]
  simp only [hc, lfsrAdvance]

/-- outputs of the descrambler over a whole history of the pair -/
def pairRun (iv : Nat) : Reg × Reg → List In → List Out
  | _, [] => []
  | rs, i :: is => (pairStep iv iv rs i).2.2 :: pairRun iv (pairStep iv iv rs i).1 is

/-- **Descrambling a scrambled stream from the same starting state returns the original stream**:
for every starting register value, every mix of data and control symbols, COM in any position,
every hold / stall / idle / enable / clear pattern (common to both sides), every history length. -/
theorem descramble_scramble_id (iv : Nat) (r : Reg) (h : List In) :
    (pairRun iv (r, r) h).map (fun o => (o.valid, o.syms)) = h.map (fun i => (i.valid, i.syms)) := by
  induction h generalizing r with
  | nil => rfl
  | cons i is ih =>
    have hp := pair_step iv r i
    simp only at hp
    simp only [pairRun, List.map_cons, hp.1, hp.2.1]
    congr 1
    have : (pairStep iv iv (r, r) i).1 = ((pairStep iv iv (r, r) i).1.1, (pairStep iv iv (r, r) i).1.1) := by
      rw [Prod.ext_iff]; exact ⟨rfl, hp.2.2.symm⟩
    rw [this]
    exact ih _

/-! ## Non-vacuity and the specification's table -/

/-- USB 3.2 Appendix B: the first sixteen scrambler output bytes after a restart at FFFFh are
FF 17 C0 14 B2 E7 02 82 72 6E 28 A6 BE 6D BF 8D. -/
example : (List.range 16).map (fun n => ofLsbBits (keyByte (skip n (initReg 0xFFFF))))
    = [0xFF, 0x17, 0xC0, 0x14, 0xB2, 0xE7, 0x02, 0x82, 0x72, 0x6E, 0x28, 0xA6, 0xBE, 0x6D, 0xBF, 0x8D] := by
  decide +kernel

/-- the gateware's `value` at reset and after one advance (tests/test_usb3_scrambling.py) -/
example : ofLsbBits (lfsrValue (initReg 0xFFFF)) = 0x14C017FF
    ∧ ofLsbBits (lfsrValue (lfsrNext (initReg 0xFFFF))) = 0x8202E7B2 := by decide +kernel

/-- a word COM D5A D00 K(SKP): COM restarts, the data symbols are scrambled, K symbols pass -/
example :
    let w : List Symbol := [⟨true, lsbBits 0xBC 8⟩, ⟨false, lsbBits 0x5A 8⟩, ⟨false, lsbBits 0x00 8⟩, ⟨true, lsbBits 0x3C 8⟩]
    let res := step 0xFFFF (lfsrNext (initReg 0xFFFF)) ⟨false, true, false, true, w, true⟩
    res.1 = initReg 0xFFFF ∧
    res.2.syms.map (fun s => (s.k, ofLsbBits s.d)) = [(true, 0xBC), (false, 0x5A ^^^ 0xE7), (false, 0x02), (true, 0x3C)] := by
  decide +kernel

end LunaVerif.Scrambler
