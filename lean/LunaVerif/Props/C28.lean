import LunaVerif.Model.Usb.BoundaryDetector
/-!
# C28 — OUT boundary detection marks first/last bytes and delays completion

"The processed receive stream carries the same bytes as the raw receive stream, in order, with
'first' on the first byte and 'last' on the final byte of every packet, and the completion/invalid
strobes seen during a packet are reported only after that packet's last byte has been output."

A *byte* of the raw stream is a cycle with `valid ∧ next`; a *packet* is the run of bytes from a first
byte up to the cycle in which `valid` falls; the strobes *seen during a packet* are those asserted
after the cycle of its first byte, up to and including the cycle in which `valid` falls.

Environment assumption `Env`: the cycle immediately after the cycle in which `valid` fell at the end of
a packet carries no byte (on the bus an EOP, the inter-packet gap, SYNC and a PID separate two
packets).  Without it the byte arriving in the detector's OUTPUT_STROBES cycle is dropped
(`byte_in_strobe_cycle_is_dropped`).

All outputs are registered, so the last input becomes visible one cycle later and a strobe event two
cycles later: the theorems speak about the outputs for the history followed by one neutral `hold`
cycle (`valid = 1`, no byte, no strobes — it changes nothing in any state).
-/
namespace LunaVerif.BoundaryDetector

/-! ## What is observed on the processed stream -/

inductive Event where
  | byte (payload : Nat) (first last : Bool)
  | strobe (complete invalid : Bool)
deriving DecidableEq, Repr

def strobeEv (c i : Bool) : List Event := if c || i then [.strobe c i] else []

/-- The events visible in one cycle: a byte when `next` is high, then the strobes. -/
def eventsOf (o : Out) : List Event :=
  (if o.next then [.byte o.payload o.first o.last] else []) ++ strobeEv o.completeOut o.invalidOut

def events (os : List Out) : List Event := os.flatMap eventsOf

def isByte (i : In) : Bool := i.valid && i.next

/-- A neutral cycle: active, no byte, no strobes. -/
def hold : In := ⟨true, false, 0, false, false⟩

/-! ## Specification, packet level -/

structure Pkt where
  bytes    : List Nat    -- in arrival order (never empty)
  complete : Bool        -- OR of complete_in seen during the packet
  invalid  : Bool
deriving DecidableEq, Repr

/-- bytes of a packet with their marks: `first` on the first, `last` on the final one -/
def marked : Bool → List Nat → List Event
  | _, [] => []
  | f, [b] => [.byte b f true]
  | f, b :: b' :: bs => .byte b f false :: marked false (b' :: bs)

/-- all but the final byte (what can be output while the packet is still running) -/
def markedPrefix : Bool → List Nat → List Event
  | _, [] => []
  | _, [_] => []
  | f, b :: b' :: bs => .byte b f false :: markedPrefix false (b' :: bs)

/-- a finished packet: its bytes with marks, then its strobes -/
def pktEvents (p : Pkt) : List Event := marked true p.bytes ++ strobeEv p.complete p.invalid

/-- Split a raw history into finished packets and the packet still running (if any). -/
def parse : Option Pkt → List In → List Pkt × Option Pkt
  | cur, [] => ([], cur)
  | none, i :: is => if isByte i then parse (some ⟨[i.payload], false, false⟩) is else parse none is
  | some p, i :: is =>
    let p' : Pkt := ⟨p.bytes, p.complete || i.completeIn, p.invalid || i.invalidIn⟩
    if isByte i then parse (some { p' with bytes := p.bytes ++ [i.payload] }) is
    else if !i.valid then ((parse none is).1.cons p', (parse none is).2)
    else parse (some p') is

/-! ## Specification, streaming form (the same thing without latency) -/

inductive Spec where
  | idle
  | inPkt (pending : Nat) (isFirst complete invalid : Bool)
deriving DecidableEq, Repr

def Spec.step : Spec → In → Spec × List Event
  | .idle, i => if isByte i then (.inPkt i.payload true false false, []) else (.idle, [])
  | .inPkt b f c iv, i =>
    let c' := c || i.completeIn
    let iv' := iv || i.invalidIn
    if isByte i then (.inPkt i.payload false c' iv', [.byte b f false])
    else if !i.valid then (.idle, .byte b f true :: strobeEv c' iv')
    else (.inPkt b f c' iv', [])

def Spec.run : Spec → List In → List Event
  | _, [] => []
  | σ, i :: is => (σ.step i).2 ++ Spec.run (σ.step i).1 is

/-- The input ends a running packet (`valid` falls while a packet is running). -/
def Spec.ends : Spec → In → Bool
  | .inPkt .., i => !i.valid
  | .idle, _ => false

/-- Environment: no byte in the cycle immediately after the cycle that ended a packet (`e` = the
previous cycle ended a packet; `σ` = where the raw stream stands). -/
def Env : Bool → Spec → List In → Bool
  | _, _, [] => true
  | e, σ, i :: is => (!e || !isByte i) && Env (σ.ends i) (σ.step i).1 is

/-! ## Stage A: the detector is the streaming specification, one cycle late -/

/-- Relation between detector state, streaming spec state and the events the spec has already
produced but the detector will show only in the next cycle. -/
def Rel (s : State) (σ : Spec) (pend : List Event) (pv : Bool) : Prop :=
  match s.fsm with
  | .waitFirst => σ = .idle ∧ pend = []
  | .receive   => σ = .inPkt s.bufferedByte s.isFirstByte s.bufferedComplete s.bufferedInvalid ∧ pend = [] ∧
                  s.out.last = false ∧ s.out.completeOut = false ∧ s.out.invalidOut = false
  | .strobes   => σ = .idle ∧ pend = strobeEv s.bufferedComplete s.bufferedInvalid ∧ pv = true ∧
                  s.out.completeOut = false ∧ s.out.invalidOut = false

theorem rel_step {s : State} {σ : Spec} {pend : List Event} {pv : Bool} {i : In}
    (h : Rel s σ pend pv) (he : (!pv || !isByte i) = true) :
    ∃ pend', Rel (step s i) (σ.step i).1 pend' (σ.ends i) ∧
      eventsOf (step s i).out ++ pend' = pend ++ (σ.step i).2 := by
  obtain ⟨fsm, out, bb, fb, bc, bi⟩ := s
  obtain ⟨v, n, p, ci, ii⟩ := i
  cases fsm
  · -- WAIT_FOR_FIRST_BYTE
    obtain ⟨rfl, rfl⟩ := h
    cases v <;> cases n <;> simp [step, Spec.step, isByte, Rel, eventsOf, strobeEv]
  · -- RECEIVE_AND_TRANSMIT
    obtain ⟨rfl, rfl, h1, h2, h3⟩ := h
    simp only at h1 h2 h3
    cases v <;> cases n <;>
      simp [step, Spec.step, Spec.ends, isByte, Rel, eventsOf, strobeEv, h1, h2, h3]
  · -- OUTPUT_STROBES
    obtain ⟨rfl, rfl, rfl, h2, h3⟩ := h
    simp only at h2 h3
    cases v <;> cases n <;> simp_all [step, Spec.step, isByte, Rel, eventsOf, strobeEv]

theorem events_cons (o : Out) (os : List Out) : events (o :: os) = eventsOf o ++ events os := by
  simp [events]

/-- The events after the current cycle, for a history followed by one `hold` cycle. -/
theorem run_refines {s : State} {σ : Spec} {pend : List Event} {pv : Bool} (ins : List In)
    (h : Rel s σ pend pv) (he : Env pv σ ins = true) :
    events ((run s (ins ++ [hold])).tail) = pend ++ Spec.run σ ins := by
  induction ins generalizing s σ pend pv with
  | nil =>
    obtain ⟨pend', hr, hev⟩ := rel_step (i := hold) h (by simp [isByte, hold])
    have hs : (σ.step hold).2 = [] := by cases σ <;> simp [Spec.step, isByte, hold]
    have hp : pend' = [] := by
      obtain ⟨fsm, out, bb, fb, bc, bi⟩ := s
      cases fsm <;> simp_all [Rel, step, hold]
    simp only [List.nil_append, run, List.tail_cons, events_cons, Spec.run, List.append_nil]
    rw [hs, hp] at hev
    simpa [events] using hev
  | cons i is ih =>
    simp only [Env, Bool.and_eq_true] at he
    obtain ⟨pend', hr, hev⟩ := rel_step (i := i) h he.1
    have := ih hr he.2
    simp only [List.cons_append, run, List.tail_cons, Spec.run] at this ⊢
    cases hrun : run (step s i) (is ++ [hold]) with
    | nil => cases is <;> simp [run] at hrun
    | cons o os =>
      have ho : o = (step s i).out := by cases is <;> simp [run] at hrun <;> exact hrun.1.symm
      rw [hrun] at this
      simp only [List.tail_cons] at this
      rw [events_cons, this, ho, ← List.append_assoc, hev, List.append_assoc]

theorem rel_init : Rel init .idle [] false := by simp [Rel, init]

/-- **Stage A**: for every history satisfying `Env`, the events on the processed stream (outputs of all
cycles up to one `hold` cycle after the history) are exactly the events of the streaming
specification. -/
theorem detector_refines_transducer (ins : List In) (he : Env false .idle ins = true) :
    events (run init (ins ++ [hold])) = Spec.run .idle ins := by
  have := run_refines ins rel_init he
  have h0 : ∀ l, run init l = init.out :: (run init l).tail := by
    intro l; cases l <;> simp [run]
  rw [h0, events_cons, this]
  simp [eventsOf, init, strobeEv]

/-- Every byte event is output with `valid` high (the endpoints gate on `next ∧ valid`). -/
theorem next_implies_valid (ins : List In) : ∀ o ∈ run init ins, o.next = true → o.valid = true := by
  have key : ∀ (s : State) (ins : List In), (s.out.next = true → s.out.valid = true) →
      (s.fsm = .strobes → s.out.valid = true) →
      ∀ o ∈ run s ins, o.next = true → o.valid = true := by
    intro s ins
    induction ins generalizing s with
    | nil => intro h _ o ho; simp [run] at ho; subst ho; exact h
    | cons i is ih =>
      intro h h2 o ho
      simp only [run, List.mem_cons] at ho
      rcases ho with rfl | ho
      · exact h
      · refine ih (step s i) ?_ ?_ o ho
        · obtain ⟨fsm, out, bb, fb, bc, bi⟩ := s
          obtain ⟨v, n, p, ci, ii⟩ := i
          cases fsm <;> cases v <;> cases n <;> simp [step]
        · obtain ⟨fsm, out, bb, fb, bc, bi⟩ := s
          obtain ⟨v, n, p, ci, ii⟩ := i
          cases fsm <;> cases v <;> cases n <;> simp [step]
  exact key init ins (by simp [init]) (by simp [init])

/-- Why `Env` is needed: a byte in the cycle right after `valid` fell (the OUTPUT_STROBES cycle) is
dropped — here the second packet `[7, 8]` comes out as `[8]` marked first and last. -/
theorem byte_in_strobe_cycle_is_dropped :
    events (run init [⟨true, true, 5, false, false⟩, ⟨false, false, 0, false, false⟩,
                      ⟨true, true, 7, false, false⟩, ⟨true, true, 8, false, false⟩,
                      ⟨false, false, 0, false, false⟩, hold])
      = [.byte 5 true true, .byte 8 true true] := by decide

/-! ## Stage B: the streaming specification is the packet-level specification -/

theorem markedPrefix_snoc (f : Bool) (pre : List Nat) (b b' : Nat) :
    markedPrefix f (pre ++ [b] ++ [b']) = markedPrefix f (pre ++ [b]) ++ [.byte b (f && pre.isEmpty) false] := by
  induction pre generalizing f with
  | nil => simp [markedPrefix]
  | cons x pre ih =>
    cases pre with
    | nil => simp [markedPrefix]
    | cons y pre =>
      have := ih false
      simp only [List.cons_append, markedPrefix, List.isEmpty_cons, Bool.and_false] at this ⊢
      rw [this]

theorem marked_snoc (f : Bool) (pre : List Nat) (b : Nat) :
    marked f (pre ++ [b]) = markedPrefix f (pre ++ [b]) ++ [.byte b (f && pre.isEmpty) true] := by
  induction pre generalizing f with
  | nil => simp [marked, markedPrefix]
  | cons x pre ih =>
    cases pre with
    | nil => simp [marked, markedPrefix]
    | cons y pre =>
      have := ih false
      simp only [List.cons_append, marked, markedPrefix, List.isEmpty_cons, Bool.and_false] at this ⊢
      rw [this]

/-- the events of the packet still running that can already be out -/
def prefixEv : Option Pkt → List Event
  | none => []
  | some p => markedPrefix true p.bytes

/-- streaming state ↔ running packet -/
inductive Match : Spec → Option Pkt → Prop
  | idle : Match .idle none
  | inPkt (pre : List Nat) (b : Nat) (c i : Bool) : Match (.inPkt b pre.isEmpty c i) (some ⟨pre ++ [b], c, i⟩)

theorem spec_eq_packets {σ : Spec} {cur : Option Pkt} (hm : Match σ cur) (ins : List In) :
    prefixEv cur ++ Spec.run σ ins
      = (parse cur ins).1.flatMap pktEvents ++ prefixEv (parse cur ins).2 := by
  induction ins generalizing σ cur with
  | nil => cases hm <;> simp [Spec.run, parse]
  | cons i is ih =>
    cases hm with
    | idle =>
      by_cases hb : isByte i = true
      · have := ih (Match.inPkt [] i.payload false false)
        simpa [Spec.run, Spec.step, parse, hb, prefixEv, markedPrefix] using this
      · have := ih Match.idle
        simpa [Spec.run, Spec.step, parse, hb, prefixEv] using this
    | inPkt pre b c iv =>
      by_cases hb : isByte i = true
      · have := ih (Match.inPkt (pre ++ [b]) i.payload (c || i.completeIn) (iv || i.invalidIn))
        simp only [Spec.run, Spec.step, parse, hb, if_true, prefixEv] at this ⊢
        rw [← List.append_assoc, ← this, markedPrefix_snoc]
        have he : (pre ++ [b]).isEmpty = false := by cases pre <;> rfl
        simp [he]
      · by_cases hv : i.valid = true
        · have := ih (Match.inPkt pre b (c || i.completeIn) (iv || i.invalidIn))
          simpa [Spec.run, Spec.step, parse, hb, hv, prefixEv] using this
        · have := ih Match.idle
          simp only [Bool.not_eq_true] at hv hb
          simp only [Spec.run, Spec.step, parse, hb, hv, prefixEv, Bool.false_eq_true, if_false, Bool.not_false,
            if_true, List.nil_append, List.flatMap_cons, pktEvents] at this ⊢
          rw [marked_snoc, this]
          simp

/-! ## The three statements of the property -/

/-- **strobes_after_last_byte** (the full event order): the processed stream shows, packet by packet,
the packet's bytes with their marks and *then* one strobe event carrying the OR of the strobes seen
during that packet (none when there was none) — before any byte of the next packet; the packet still
running has shown all its bytes but the final one, and no strobe. -/
theorem strobes_after_last_byte (ins : List In) (he : Env false .idle ins = true) :
    events (run init (ins ++ [hold]))
      = (parse none ins).1.flatMap pktEvents ++ prefixEv (parse none ins).2 := by
  rw [detector_refines_transducer ins he]
  simpa [prefixEv] using spec_eq_packets Match.idle ins

def Event.isByte : Event → Bool
  | .byte .. => true
  | .strobe .. => false

theorem filter_marked (f : Bool) (bs : List Nat) : (marked f bs).filter Event.isByte = marked f bs := by
  induction bs generalizing f with
  | nil => rfl
  | cons b bs ih => cases bs <;> simp_all [marked, Event.isByte]

theorem filter_markedPrefix (f : Bool) (bs : List Nat) :
    (markedPrefix f bs).filter Event.isByte = markedPrefix f bs := by
  induction bs generalizing f with
  | nil => rfl
  | cons b bs ih => cases bs <;> simp_all [markedPrefix, Event.isByte]

theorem filter_strobeEv (c i : Bool) : (strobeEv c i).filter Event.isByte = [] := by
  cases c <;> cases i <;> simp [strobeEv, Event.isByte]

theorem filter_flatMap_pktEvents (ps : List Pkt) :
    (ps.flatMap pktEvents).filter Event.isByte = ps.flatMap (fun p => marked true p.bytes) := by
  induction ps with
  | nil => rfl
  | cons p ps ih =>
    simp only [List.flatMap_cons, List.filter_append, ih, pktEvents, filter_marked, filter_strobeEv,
      List.append_nil]

/-- **first_on_first_last_on_last**: the byte events of the processed stream are, packet by packet,
the packet's bytes with `first` exactly on its first and `last` exactly on its final byte (a one-byte
packet carries both). -/
theorem first_on_first_last_on_last (ins : List In) (he : Env false .idle ins = true) :
    (events (run init (ins ++ [hold]))).filter Event.isByte
      = (parse none ins).1.flatMap (fun p => marked true p.bytes) ++ prefixEv (parse none ins).2 := by
  rw [strobes_after_last_byte ins he, List.filter_append, filter_flatMap_pktEvents]
  congr 1
  cases (parse none ins).2 <;> simp [prefixEv, filter_markedPrefix]

def Event.payload? : Event → Option Nat
  | .byte p _ _ => some p
  | .strobe .. => none

/-- the bytes of the raw stream -/
def inBytes (ins : List In) : List Nat := ins.filterMap (fun i => if isByte i then some i.payload else none)

def Spec.pending : Spec → List Nat
  | .idle => []
  | .inPkt b _ _ _ => [b]

def Spec.final : Spec → List In → Spec
  | σ, [] => σ
  | σ, i :: is => Spec.final (σ.step i).1 is

theorem strobeEv_payloads (c i : Bool) : (strobeEv c i).filterMap Event.payload? = [] := by
  cases c <;> cases i <;> simp [strobeEv, Event.payload?]

theorem spec_bytes (σ : Spec) (ins : List In) :
    (Spec.run σ ins).filterMap Event.payload? ++ (Spec.final σ ins).pending = σ.pending ++ inBytes ins := by
  induction ins generalizing σ with
  | nil => simp [Spec.run, Spec.final, inBytes]
  | cons i is ih =>
    simp only [Spec.run, Spec.final, List.filterMap_append, List.append_assoc, ih]
    cases σ with
    | idle => by_cases hb : isByte i = true <;> simp [Spec.step, hb, Spec.pending, inBytes]
    | inPkt b f c iv =>
      by_cases hb : isByte i = true
      · simp [Spec.step, hb, Spec.pending, inBytes, Event.payload?]
      · by_cases hv : i.valid = true <;>
          simp [Spec.step, hb, hv, Spec.pending, inBytes, Event.payload?, strobeEv_payloads]

/-- **same_bytes_in_order**: the payloads on the processed stream, followed by the one byte the
detector still holds back while a packet is running, are exactly the bytes of the raw stream, in
order (nothing lost, added or reordered). -/
theorem same_bytes_in_order (ins : List In) (he : Env false .idle ins = true) :
    (events (run init (ins ++ [hold]))).filterMap Event.payload? ++ (Spec.final .idle ins).pending
      = inBytes ins := by
  rw [detector_refines_transducer ins he]
  simpa [Spec.pending] using spec_bytes .idle ins

/-! ## Non-vacuity: two packets (3 bytes with a wait cycle and a completion strobe; 1 byte, invalid) -/
example :
    let h : List In := [⟨false, false, 0, false, false⟩, ⟨true, false, 0, false, false⟩,
      ⟨true, true, 1, false, false⟩, ⟨true, true, 2, false, false⟩, ⟨true, false, 9, false, false⟩,
      ⟨true, true, 3, false, false⟩, ⟨true, false, 0, true, false⟩, ⟨false, false, 0, false, false⟩,
      ⟨true, false, 0, false, false⟩, ⟨true, true, 4, false, false⟩, ⟨false, false, 0, false, true⟩,
      ⟨false, false, 0, false, false⟩]
    Env false .idle h = true ∧
    events (run init (h ++ [hold])) = [.byte 1 true false, .byte 2 false false, .byte 3 false true,
      .strobe true false, .byte 4 true true, .strobe false true] := by decide

end LunaVerif.BoundaryDetector
