import LunaVerif.Lemmas.HeaderRx
/-!
# C37 — Received header packets are accepted, acknowledged and buffered exactly

"A received header packet is accepted iff its CRC5 and CRC16 are valid and its sequence number is the
expected one; each accepted header is offered to the protocol layer exactly once and in order, and is
acknowledged by an LGOOD carrying its sequence number. A corrupted header triggers an LBAD and all
further headers are ignored until the partner's retry; credits (LCRD) are advertised only for free
buffers, in A-B-C-D order, so buffered plus advertised headers never exceed the buffer count."

Quantifier: all received header histories and all protocol-layer consumption timings, while the link
stays in U0.

The theorems are about the cycle-level model `HeaderRx.step` (tied to the gateware by co-simulation on
every run) and an observer's record `Ghost` of what has happened on the ports: headers written to the
buffers, headers handed over on `queue`, LGOOD / LCRD / LBAD commands completed on `source`.

Environment (`EnvStep`, required in every cycle):
* `en`, `norst`  – the link stays enabled and no USB reset arrives (C38 treats re-entry);
* `cred`         – the partner sends a header only while it holds an unused credit: a header is accepted
                   only if fewer headers than LCRDs have gone before;
* `unack`        – the partner has at most four unacknowledged headers in flight (its four Tx buffers);
* `retry`        – the partner's LRTY (`retry_received`) answers a *completed* LBAD, and does not
                   coincide with the check cycle of a corrupted header.

Safety only; that pending commands are eventually sent needs `source.ready` and is left to the
monitor (see `PARTIAL` in harness/props/c37.py).
-/
namespace LunaVerif.HeaderRx

/-- Environment of C37 for one cycle. -/
structure EnvStep (s : State) (g : Ghost) (i : In) : Prop where
  en    : i.enable = true
  norst : i.usbReset = false
  cred  : accept s = true → g.accepted.length < g.lcrds.length
  unack : accept s = true → g.accepted.length + 1 < g.lgoods.length + 4
  retry : i.retryReceived = true → s.lbad = false ∧ badEv s = false

def EnvOk (c : Config) : State → Ghost → List In → Prop
  | _, _, [] => True
  | s, g, i :: is => EnvStep s g i ∧ EnvOk c (step c s i).1 (ghostStep s i g) is

structure Inv (c : Config) (s : State) (g : Ghost) : Prop where
  hbf    : g.delivered.length + s.bf = g.accepted.length
  hcti   : s.cti + g.lcrds.length = 4 + g.delivered.length
  hcred  : g.accepted.length ≤ g.lcrds.length
  hrp    : s.rp < 4
  hwp    : s.wp = (s.rp + s.bf) % 4
  hq     : g.delivered ++ absQueue s = g.accepted
  hnc    : s.nextCredit = g.lcrds.length % 4
  hlcrds : g.lcrds = (List.range g.lcrds.length).map (· % 4)
  hexp   : s.expSeq = g.accepted.length % 8
  hseq   : g.accepted.map Hdr.seq = (List.range g.accepted.length).map (· % 8)
  hack   : g.lgoods.length + s.acks = g.accepted.length + 1
  hacks4 : s.acks ≤ 4
  hna    : s.nextAck = (g.lgoods.length + 7) % 8
  hlgoods : g.lgoods = (List.range g.lgoods.length).map (fun k => (k + 7) % 8)
  hgen0  : s.fsm = .dispatch → s.gen = .idle
  hgen1  : s.gen ≠ .idle → s.gCmd = genCmd c s ∧ s.gSub = genSub s
  hfsmA  : s.fsm = .sendAcks → 1 ≤ s.acks
  hfsmC  : s.fsm = .issueCredits → 1 ≤ s.cti
  hrx    : s.rx.newPkt = true → s.rx.st = .wait ∧ s.rx.outPkt.seq = s.expSeq
  hlb1   : s.lbad = true → s.ignore = true
  hlb2   : s.fsm = .sendLbad → s.lbad = true
  hlbc   : g.lbads + (if s.lbad then 1 else 0) = g.bads

theorem inv_init (c : Config) : Inv c init Ghost.init := by
  constructor <;> simp [init, Ghost.init, absQueue, bufQ, RawRx.init]

variable {c : Config} {s : State} {g : Ghost} {i : In}

theorem no_reset (e : EnvStep s g i) : resetNow c s i = false := by
  simp [resetNow, resetCond, e.en, e.norst]

/-- under the invariant, a command completing on the wire is an LGOOD iff the FSM is in SEND_ACKS -/
theorem wire_lgood (h : Inv c s g) : wire s i LGOOD = lgoodDone s i := by
  unfold wire lgoodDone done
  by_cases hg : s.gen = .command
  · have := (h.hgen1 (by simp [hg])).1
    have h0 := h.hgen0
    cases hf : s.fsm <;> cases hd : c.downstream <;> simp_all [genCmd, LGOOD, LCRD, LBAD, LRTY, LXU, LUP, LDN]
  · have hb : (s.gen == Gen.command) = false := by cases hx : s.gen <;> simp_all
    simp [hb]

theorem wire_lcrd (h : Inv c s g) : wire s i LCRD = lcrdDone s i := by
  unfold wire lcrdDone done
  by_cases hg : s.gen = .command
  · have := (h.hgen1 (by simp [hg])).1
    have h0 := h.hgen0
    cases hf : s.fsm <;> cases hd : c.downstream <;> simp_all [genCmd, LGOOD, LCRD, LBAD, LRTY, LXU, LUP, LDN]
  · have hb : (s.gen == Gen.command) = false := by cases hx : s.gen <;> simp_all
    simp [hb]

theorem wire_lbad (h : Inv c s g) : wire s i LBAD = (s.fsm == .sendLbad && done s i) := by
  unfold wire done
  by_cases hg : s.gen = .command
  · have := (h.hgen1 (by simp [hg])).1
    have h0 := h.hgen0
    cases hf : s.fsm <;> cases hd : c.downstream <;> simp_all [genCmd, LGOOD, LCRD, LBAD, LRTY, LXU, LUP, LDN]
  · have hb : (s.gen == Gen.command) = false := by cases hx : s.gen <;> simp_all
    simp [hb]

theorem gsub_lgood (h : Inv c s g) (hd : lgoodDone s i = true) : s.gSub = s.nextAck := by
  simp only [lgoodDone, done, Bool.and_eq_true, beq_iff_eq] at hd
  have := (h.hgen1 (by simp [hd.2.1])).2
  simp [this, genSub, hd.1]

theorem gsub_lcrd (h : Inv c s g) (hd : lcrdDone s i = true) : s.gSub = s.nextCredit := by
  simp only [lcrdDone, done, Bool.and_eq_true, beq_iff_eq] at hd
  have := (h.hgen1 (by simp [hd.2.1])).2
  simp [this, genSub, hd.1]

theorem not_both (s : State) (i : In) : ¬ (lgoodDone s i = true ∧ lcrdDone s i = true) := by
  simp only [lgoodDone, lcrdDone, Bool.and_eq_true, beq_iff_eq]
  intro ⟨⟨a, _⟩, ⟨b, _⟩⟩; rw [a] at b; cases b


set_option linter.unusedSectionVars false
set_option linter.unusedSimpArgs false
section stepinv
variable (h : Inv c s g) (e : EnvStep s g i)
include h e

theorem facts : s.bf + s.cti ≤ 4 ∧ (accept s = true → s.bf + s.cti ≤ 3) ∧ (pop s i = true → 1 ≤ s.bf) ∧
    (lgoodDone s i = true → 1 ≤ s.acks) ∧ (lcrdDone s i = true → 1 ≤ s.cti) := by
  have := h.hbf; have := h.hcti; have := h.hcred
  refine ⟨by omega, fun a => by have := e.cred a; omega, ?_, ?_, ?_⟩
  · intro p; simp [pop, qValid] at p; omega
  · intro p; simp only [lgoodDone, Bool.and_eq_true, beq_iff_eq] at p; exact h.hfsmA p.1
  · intro p; simp only [lcrdDone, Bool.and_eq_true, beq_iff_eq] at p; exact h.hfsmC p.1

theorem len_accepted : (ghostStep s i g).accepted.length = g.accepted.length + (if accept s then 1 else 0) := by
  simp only [ghostStep]; split <;> simp
theorem len_delivered : (ghostStep s i g).delivered.length = g.delivered.length + (if pop s i then 1 else 0) := by
  simp only [ghostStep]; split <;> simp
theorem len_lgoods : (ghostStep s i g).lgoods.length = g.lgoods.length + (if lgoodDone s i then 1 else 0) := by
  simp only [ghostStep, wire_lgood h]; split <;> simp
theorem len_lcrds : (ghostStep s i g).lcrds.length = g.lcrds.length + (if lcrdDone s i then 1 else 0) := by
  simp only [ghostStep, wire_lcrd h]; split <;> simp

theorem step_counts :
    (ghostStep s i g).delivered.length + (step c s i).1.bf = (ghostStep s i g).accepted.length ∧
    (step c s i).1.cti + (ghostStep s i g).lcrds.length = 4 + (ghostStep s i g).delivered.length ∧
    (ghostStep s i g).accepted.length ≤ (ghostStep s i g).lcrds.length ∧
    (ghostStep s i g).lgoods.length + (step c s i).1.acks = (ghostStep s i g).accepted.length + 1 ∧
    (step c s i).1.acks ≤ 4 := by
  obtain ⟨f1, f2, f3, f4, f5⟩ := facts h e
  have := h.hbf; have := h.hcti; have := h.hcred; have := h.hack; have := h.hacks4
  have e3 := e.unack; have e2 := e.cred
  rw [len_accepted h e, len_delivered h e, len_lgoods h e, len_lcrds h e, step_bf, step_cti, step_acks,
    no_reset e]
  simp only [Bool.false_eq_true, if_false, updown]
  cases ha : accept s <;> cases hp : pop s i <;> cases hg : lgoodDone s i <;> cases hc : lcrdDone s i <;>
    simp_all <;> omega

theorem absQueue_step :
    (ghostStep s i g).delivered ++ absQueue (step c s i).1 = (ghostStep s i g).accepted := by
  obtain ⟨f1, f2, f3, f4, f5⟩ := facts h e
  have hq := h.hq; have hwp := h.hwp; have hrp := h.hrp
  simp only [absQueue, step_bf, step_rp, step_bufs, no_reset e, ghostStep, Bool.false_eq_true, if_false,
    updown] at *
  cases ha : accept s <;> cases hp : pop s i <;> simp only [ha, hp, if_true, if_false, Bool.false_eq_true,
    Bool.not_true, Bool.not_false, Bool.and_true, Bool.and_false, Bool.true_and] <;> simp only [ha, hp, forall_const] at f2 f3
  · exact hq
  · -- pop only
    have e1 : (s.bf + 7) % 8 = s.bf - 1 := by omega
    rw [← hq, e1, bufQ_pop s.bufs s.rp s.bf f3 (by omega) hrp]; simp
  · -- accept only
    have e1 : (s.bf + 1) % 8 = s.bf + 1 := by omega
    rw [e1, hwp, bufQ_push _ _ _ _ (by omega) hrp, ← hq]; simp
  · -- both
    rw [hwp, ← hq, List.append_assoc, List.append_assoc]; congr 1
    exact bufQ_both _ _ _ _ f3 (by omega) hrp

theorem ptr_step : (step c s i).1.rp < 4 ∧
    (step c s i).1.wp = ((step c s i).1.rp + (step c s i).1.bf) % 4 := by
  obtain ⟨f1, f2, f3, f4, f5⟩ := facts h e
  have hwp := h.hwp; have hrp := h.hrp
  simp only [step_bf, step_rp, step_wp, no_reset e, Bool.false_eq_true, if_false, updown]
  cases ha : accept s <;> cases hp : pop s i <;> simp_all <;> omega


theorem range_map_snoc (f : Nat → Nat) (l : List Nat) (x : Nat) (hl : l = (List.range l.length).map f)
    (hx : x = f l.length) : l ++ [x] = (List.range (l ++ [x]).length).map f := by
  rw [List.length_append, List.length_singleton, List.range_succ, List.map_append, ← hl, hx]; rfl

theorem lcrds_step : (step c s i).1.nextCredit = (ghostStep s i g).lcrds.length % 4 ∧
    (ghostStep s i g).lcrds = (List.range (ghostStep s i g).lcrds.length).map (· % 4) := by
  have hnc := h.hnc; have hl := h.hlcrds
  simp only [step_nextCredit, no_reset e, ghostStep, wire_lcrd h, Bool.false_eq_true, if_false]
  cases hc : lcrdDone s i
  · simp [hnc, ← hl]
  · simp only [if_true]
    refine ⟨by simp; omega, ?_⟩
    apply range_map_snoc h e _ _ _ hl
    rw [gsub_lcrd h hc, hnc]

theorem lgoods_step : (step c s i).1.nextAck = ((ghostStep s i g).lgoods.length + 7) % 8 ∧
    (ghostStep s i g).lgoods = (List.range (ghostStep s i g).lgoods.length).map (fun k => (k + 7) % 8) := by
  have hna := h.hna; have hl := h.hlgoods
  simp only [step_nextAck, no_reset e, ghostStep, wire_lgood h, Bool.false_eq_true, if_false]
  cases hc : lgoodDone s i
  · simp [hna, ← hl]
  · simp only [if_true]
    refine ⟨by simp; omega, ?_⟩
    apply range_map_snoc h e _ _ _ hl
    rw [gsub_lgood h hc, hna]

theorem seq_step : (step c s i).1.expSeq = (ghostStep s i g).accepted.length % 8 ∧
    (ghostStep s i g).accepted.map Hdr.seq = (List.range (ghostStep s i g).accepted.length).map (· % 8) := by
  have hexp := h.hexp; have hl := h.hseq; have hrx := h.hrx
  simp only [step_expSeq, no_reset e, ghostStep, Bool.false_and, Bool.false_eq_true, if_false]
  cases ha : accept s
  · simp [hexp, ← hl]
  · simp only [if_true]
    refine ⟨by simp; omega, ?_⟩
    have hn : s.rx.newPkt = true := by simp [accept] at ha; exact ha.1
    rw [List.map_append, List.length_append, List.length_singleton, List.range_succ, List.map_append, ← hl]
    simp [(hrx hn).2, hexp]

theorem no_fixreset : (c.fix && resetCond s i) = false := by
  simp [resetCond, e.en, e.norst]

theorem no_abort : (c.abort && resetCond s i) = false := by
  simp [resetCond, e.en, e.norst]

theorem busy_step (hb : (step c s i).1.gen ≠ .idle) :
    done s i = false ∧ (step c s i).1.fsm = s.fsm ∧ s.fsm ≠ .dispatch := by
  have h0 := h.hgen0
  have nf := no_fixreset h e
  have na := no_abort h e
  simp only [step_gen, step_fsm, genNext, fsmNext, nf, na, done, generate, Bool.false_eq_true, if_false] at hb ⊢
  clear nf na h e
  rcases s with ⟨rx, expSeq, nextCredit, nextAck, acks, cti, bf, rp, wp, bufs, lbad, lrty, keepalive, lxu,
    lastEnable, ignore, fsm, gen, gCmd, gSub⟩
  rcases i with ⟨sink, srcReady, enable, usbReset, qReady, retryReceived, retryRequired, keepaliveRequired, rejectPower⟩
  cases gen <;> cases fsm <;> cases srcReady <;> simp_all

theorem gen_step : ((step c s i).1.fsm = .dispatch → (step c s i).1.gen = .idle) ∧
    ((step c s i).1.gen ≠ .idle → (step c s i).1.gCmd = genCmd c (step c s i).1 ∧
      (step c s i).1.gSub = genSub (step c s i).1) := by
  constructor
  · have h0 := h.hgen0
    have nf := no_fixreset h e
    have na := no_abort h e
    simp only [step_gen, step_fsm, genNext, fsmNext, nf, na, done, generate, dispatchNext, Bool.false_eq_true, if_false]
    clear nf na h e
    rcases s with ⟨rx, expSeq, nextCredit, nextAck, acks, cti, bf, rp, wp, bufs, lbad, lrty, keepalive, lxu,
      lastEnable, ignore, fsm, gen, gCmd, gSub⟩
    rcases i with ⟨sink, srcReady, enable, usbReset, qReady, retryReceived, retryRequired, keepaliveRequired, rejectPower⟩
    cases gen <;> cases fsm <;> cases srcReady <;> simp_all <;>
      (repeat' split) <;> simp_all
  · intro hb
    obtain ⟨hd, hf, hnd⟩ := busy_step h e hb
    have h1 := h.hgen1
    have hna := h.hna; have hnc := h.hnc
    have hlg : lgoodDone s i = false := by simp [lgoodDone, hd]
    have hlc : lcrdDone s i = false := by simp [lcrdDone, hd]
    have hs : genSub (step c s i).1 = genSub s := by
      simp only [genSub, hf, step_nextAck, step_nextCredit, no_reset e, hlg, hlc, Bool.false_eq_true, if_false]
    have hc : genCmd c (step c s i).1 = genCmd c s := by simp only [genCmd, hf]
    rw [hs, hc, step_gCmd, step_gSub, no_abort h e]
    simp only [Bool.false_eq_true, if_false]
    have hlt : genSub s % 16 = genSub s := by
      simp only [genSub]; split <;> omega
    by_cases hi : s.gen = .idle
    · have : generate s = true := by simp [generate, hnd]
      simp [hi, this, hlt]
    · have hb : (s.gen == Gen.idle) = false := by cases hx : s.gen <;> simp_all
      simp [hb, h1 hi]

theorem fsm_step : ((step c s i).1.fsm = .sendAcks → 1 ≤ (step c s i).1.acks) ∧
    ((step c s i).1.fsm = .issueCredits → 1 ≤ (step c s i).1.cti) := by
  obtain ⟨f1, f2, f3, f4, f5⟩ := facts h e
  have hA := h.hfsmA; have hC := h.hfsmC; have h4 := h.hacks4
  have nf := no_fixreset h e; have nr := no_reset (c := c) e
  simp only [step_fsm, step_acks, step_cti, fsmNext, nf, nr, dispatchNext, updown,
    lgoodDone, lcrdDone, Bool.false_eq_true, if_false] at *
  clear nf nr h e
  rcases Bool.eq_false_or_eq_true (done s i) with hd | hd <;>
  rcases Bool.eq_false_or_eq_true (accept s) with ha | ha <;>
  rcases Bool.eq_false_or_eq_true (pop s i) with hp | hp <;>
  (rcases s with ⟨rx, expSeq, nextCredit, nextAck, acks, cti, bf, rp, wp, bufs, lbad, lrty, keepalive, lxu,
    lastEnable, ignore, fsm, gen, gCmd, gSub⟩
   cases fsm <;> simp_all <;> (repeat' split) <;> (try simp_all) <;> omega)

theorem rx_step : (step c s i).1.rx.newPkt = true →
    (step c s i).1.rx.st = .wait ∧ (step c s i).1.rx.outPkt.seq = (step c s i).1.expSeq := by
  have hrx := h.hrx
  have nr := no_reset (c := c) e
  simp only [step_rx, step_expSeq, nr, Bool.false_and, Bool.false_eq_true, if_false, RawRx.step,
    RawRx.good, accept]
  clear nr h e
  rcases s with ⟨⟨st, pkt, newPkt, outPkt⟩, expSeq, nextCredit, nextAck, acks, cti, bf, rp, wp, bufs, lbad, lrty,
    keepalive, lxu, lastEnable, ignore, fsm, gen, gCmd, gSub⟩
  cases st <;> simp_all <;> (repeat' split) <;> simp_all

theorem lbad_step : ((step c s i).1.lbad = true → (step c s i).1.ignore = true) ∧
    ((step c s i).1.fsm = .sendLbad → (step c s i).1.lbad = true) ∧
    (ghostStep s i g).lbads + (if (step c s i).1.lbad then 1 else 0) = (ghostStep s i g).bads := by
  have h1 := h.hlb1; have h2 := h.hlb2; have h3 := h.hlbc; have er := e.retry
  have nf := no_fixreset h e; have nr := no_reset (c := c) e
  have hbe : badEv s = true → s.ignore = false := by simp [badEv]
  simp only [step_lbad, step_ignore, step_fsm, fsmNext, dispatchNext, ghostStep, wire_lbad h, nf, nr,
    Bool.false_eq_true, if_false]
  rcases Bool.eq_false_or_eq_true (done s i) with hd | hd <;>
  rcases Bool.eq_false_or_eq_true (badEv s) with hb | hb <;>
  rcases Bool.eq_false_or_eq_true (i.retryReceived) with hr | hr <;>
  rcases Bool.eq_false_or_eq_true (s.lbad) with hl | hl <;>
  (rcases s with ⟨rx, expSeq, nextCredit, nextAck, acks, cti, bf, rp, wp, bufs, lbad, lrty, keepalive, lxu,
    lastEnable, ignore, fsm, gen, gCmd, gSub⟩
   cases fsm <;> simp_all <;> (repeat' split) <;> (try simp_all) <;> omega)

/-- **The invariant is preserved by every cycle that satisfies the environment.** -/
theorem inv_step : Inv c (step c s i).1 (ghostStep s i g) := by
  obtain ⟨a1, a2, a3, a4, a5⟩ := step_counts h e
  obtain ⟨b1, b2⟩ := ptr_step h e
  obtain ⟨c1, c2⟩ := lcrds_step h e
  obtain ⟨d1, d2⟩ := seq_step h e
  obtain ⟨e1, e2⟩ := lgoods_step h e
  obtain ⟨g1, g2⟩ := gen_step h e
  obtain ⟨k1, k2⟩ := fsm_step h e
  obtain ⟨l1, l2, l3⟩ := lbad_step h e
  exact ⟨a1, a2, a3, b1, b2, absQueue_step h e, c1, c2, d1, d2, a4, a5, e1, e2, g1, g2, k1, k2,
    rx_step h e, l1, l2, l3⟩
end stepinv

/-! ## History level -/

theorem inv_run (c : Config) (ins : List In) : ∀ (s : State) (g : Ghost), Inv c s g → EnvOk c s g ins →
    Inv c (runG c s g ins).1 (runG c s g ins).2 := by
  induction ins with
  | nil => intro s g h _; exact h
  | cons i is ih => intro s g h e; exact ih _ _ (inv_step h e.1) e.2

/-- The invariant holds after every environment-respecting history from reset. -/
theorem inv_reachable (c : Config) (ins : List In) (e : EnvOk c init Ghost.init ins) :
    Inv c (runG c init Ghost.init ins).1 (runG c init Ghost.init ins).2 :=
  inv_run c ins _ _ (inv_init c) e

theorem getElem_of_range_map {f : Nat → Nat} {l : List Nat} (hl : l = (List.range l.length).map f)
    (k : Nat) (hk : k < l.length) : l[k] = f k := by
  have := List.getElem_of_eq hl hk
  simpa using this

/-! ### (1) acceptance decision -/
namespace RawRx

/-- raw receiver over a history; every cycle comes with the `expected_sequence` input of that cycle -/
def run (s : State) : List (In × Nat) → State
  | [] => s
  | (i, e) :: is => run (step s i e) is

theorem run_append (s : State) (a b : List (In × Nat)) : run s (a ++ b) = run (run s a) b := by
  induction a generalizing s with
  | nil => rfl
  | cons x xs ih => obtain ⟨i, e⟩ := x; simp [run, ih]

/-- cycles without `valid` in one of the RECEIVE_DWn states change nothing but the strobe -/
theorem run_gap (s : State) (gap : List (In × Nat)) (hg : ∀ x ∈ gap, x.1.valid = false)
    (hs : s.st = .dw0 ∨ s.st = .dw1 ∨ s.st = .dw2 ∨ s.st = .dw3) :
    (run s gap).st = s.st ∧ (run s gap).pkt = s.pkt := by
  induction gap generalizing s with
  | nil => exact ⟨rfl, rfl⟩
  | cons x xs ih =>
    obtain ⟨i, e⟩ := x
    have hv : i.valid = false := hg (i, e) (by simp)
    have h1 : (step s i e).st = s.st ∧ (step s i e).pkt = s.pkt := by
      rcases hs with h | h | h | h <;> simp [step, h, hv]
    have := ih (step s i e) (fun x hx => hg x (by simp [hx])) (by rw [h1.1]; exact hs)
    simp only [run]; rw [this.1, this.2]; exact h1

theorem run_word0 (s : State) (hs : s.st = .dw0) (gap : List (In × Nat)) (hg : ∀ x ∈ gap, x.1.valid = false)
    (w cc e : Nat) : (run s (gap ++ [(⟨true, w, cc⟩, e)])).st = .dw1 ∧
      (run s (gap ++ [(⟨true, w, cc⟩, e)])).pkt = { s.pkt with dw0 := w } := by
  obtain ⟨a, b⟩ := run_gap s gap hg (by simp [hs])
  simp only [run_append, run, step, a, hs, ← b]; simp
theorem run_word1 (s : State) (hs : s.st = .dw1) (gap : List (In × Nat)) (hg : ∀ x ∈ gap, x.1.valid = false)
    (w cc e : Nat) : (run s (gap ++ [(⟨true, w, cc⟩, e)])).st = .dw2 ∧
      (run s (gap ++ [(⟨true, w, cc⟩, e)])).pkt = { s.pkt with dw1 := w } := by
  obtain ⟨a, b⟩ := run_gap s gap hg (by simp [hs])
  simp only [run_append, run, step, a, hs, ← b]; simp
theorem run_word2 (s : State) (hs : s.st = .dw2) (gap : List (In × Nat)) (hg : ∀ x ∈ gap, x.1.valid = false)
    (w cc e : Nat) : (run s (gap ++ [(⟨true, w, cc⟩, e)])).st = .dw3 ∧
      (run s (gap ++ [(⟨true, w, cc⟩, e)])).pkt = { s.pkt with dw2 := w } := by
  obtain ⟨a, b⟩ := run_gap s gap hg (by simp [hs])
  simp only [run_append, run, step, a, hs, ← b]; simp
theorem run_word3 (s : State) (hs : s.st = .dw3) (gap : List (In × Nat)) (hg : ∀ x ∈ gap, x.1.valid = false)
    (w cc e : Nat) : (run s (gap ++ [(⟨true, w, cc⟩, e)])).st = .check ∧
      (run s (gap ++ [(⟨true, w, cc⟩, e)])).pkt = { s.pkt with dw3 := w } := by
  obtain ⟨a, b⟩ := run_gap s gap hg (by simp [hs])
  simp only [run_append, run, step, a, hs, ← b]; simp

/-- A header on the wire: HPSTART, then the four words, each preceded by any number of cycles without
`valid` (whatever their data), with any `expected_sequence` inputs along the way. -/
def frame (h : Hdr) (e0 e1 e2 e3 e4 : Nat) (c0 c1 c2 c3 : Nat) (g0 g1 g2 g3 : List (In × Nat)) :
    List (In × Nat) :=
  [(⟨true, hpStart, 15⟩, e0)] ++ ((g0 ++ [(⟨true, h.dw0, c0⟩, e1)]) ++ ((g1 ++ [(⟨true, h.dw1, c1⟩, e2)])
    ++ ((g2 ++ [(⟨true, h.dw2, c2⟩, e3)]) ++ (g3 ++ [(⟨true, h.dw3, c3⟩, e4)]))))

/-- Receiving a framed header from WAIT_FOR_HPSTART ends in CHECK_PACKET holding exactly that header. -/
theorem frame_received (s : State) (hs : s.st = .wait) (h : Hdr) (e0 e1 e2 e3 e4 c0 c1 c2 c3 : Nat)
    (g0 g1 g2 g3 : List (In × Nat))
    (h0 : ∀ x ∈ g0, x.1.valid = false) (h1 : ∀ x ∈ g1, x.1.valid = false)
    (h2 : ∀ x ∈ g2, x.1.valid = false) (h3 : ∀ x ∈ g3, x.1.valid = false) :
    (run s (frame h e0 e1 e2 e3 e4 c0 c1 c2 c3 g0 g1 g2 g3)).st = .check ∧
    (run s (frame h e0 e1 e2 e3 e4 c0 c1 c2 c3 g0 g1 g2 g3)).pkt = h := by
  have a0 : (step s ⟨true, hpStart, 15⟩ e0).st = .dw0 := by simp [step, hs, isHpStart]
  obtain ⟨a1, p1⟩ := run_word0 _ a0 g0 h0 h.dw0 c0 e1
  obtain ⟨a2, p2⟩ := run_word1 _ a1 g1 h1 h.dw1 c1 e2
  obtain ⟨a3, p3⟩ := run_word2 _ a2 g2 h2 h.dw2 c2 e3
  obtain ⟨a4, p4⟩ := run_word3 _ a3 g3 h3 h.dw3 c3 e4
  simp only [frame, run_append, run] at a1 p1 a2 p2 a3 p3 a4 p4 ⊢
  refine ⟨a4, ?_⟩
  rw [p4, p3, p2, p1]

end RawRx

/-- **C37 (1)**: in CHECK_PACKET the raw receiver raises `new_packet` (one cycle later, with the header
on `packet`) iff CRC-5 and CRC-16 are valid and the sequence number is the expected one; it pulses
`bad_packet` iff one of the CRCs is wrong, and `bad_sequence` iff the CRCs are right and the sequence
number is not the expected one.  Together with `RawRx.frame_received` (every framed header reaches
CHECK_PACKET intact, whatever the gaps) this is the acceptance decision for every header on the wire. -/
theorem accept_iff_crcs_and_seq (r : RawRx.State) (hr : r.st = .check) (i : RawRx.In) (expected : Nat) :
    ((RawRx.step r i expected).newPkt = true ↔
        (r.pkt.crc5Ok = true ∧ r.pkt.crc16Ok = true ∧ r.pkt.seq = expected)) ∧
    ((RawRx.step r i expected).newPkt = true → (RawRx.step r i expected).outPkt = r.pkt) ∧
    (RawRx.badPacket r = true ↔ ¬ (r.pkt.crc5Ok = true ∧ r.pkt.crc16Ok = true)) ∧
    (RawRx.badSequence r expected = true ↔
        (r.pkt.crc5Ok = true ∧ r.pkt.crc16Ok = true ∧ r.pkt.seq ≠ expected)) ∧
    (RawRx.step r i expected).st = .wait := by
  simp only [RawRx.step, hr, RawRx.good, RawRx.badPacket, RawRx.badSequence, Hdr.crcOk]
  cases r.pkt.crc5Ok <;> cases r.pkt.crc16Ok <;> by_cases hq : r.pkt.seq = expected <;> simp [hq]

/-- A header the raw receiver announces is written into the buffer at the write pointer and recorded
as accepted, unless packets are being ignored; nothing else is ever written. -/
theorem accepted_is_buffered (c : Config) (s : State) (g : Ghost) (i : In) :
    (accept s = true ↔ (s.rx.newPkt = true ∧ s.ignore = false)) ∧
    (accept s = true → (step c s i).1.bufs.get s.wp = s.rx.outPkt ∧
        (ghostStep s i g).accepted = g.accepted ++ [s.rx.outPkt]) ∧
    (accept s = false → (step c s i).1.bufs = s.bufs ∧ (ghostStep s i g).accepted = g.accepted) := by
  refine ⟨by simp [accept], ?_, ?_⟩
  · intro h; simp [step_bufs, ghostStep, h, Bufs.get_set]
  · intro h; simp [step_bufs, ghostStep, h]

/-! ### (2) delivery to the protocol layer -/

/-- **C37 (2)**: after every history the headers handed to the protocol layer followed by the headers
still buffered are exactly the accepted headers, in order: nothing is lost, duplicated or reordered,
and at most four are buffered.  The queue port offers the oldest undelivered header whenever one
exists (`queue_offers_oldest`). -/
theorem queue_delivers_accepted_in_order_once (c : Config) (ins : List In)
    (e : EnvOk c init Ghost.init ins) :
    let r := runG c init Ghost.init ins
    r.2.delivered ++ absQueue r.1 = r.2.accepted ∧ (absQueue r.1).length = r.1.bf ∧ r.1.bf ≤ 4 := by
  have h := inv_reachable c ins e
  refine ⟨h.hq, by simp [absQueue, bufQ], ?_⟩
  have := h.hbf; have := h.hcti; have := h.hcred; omega

theorem queue_offers_oldest (c : Config) (s : State) (i : In) :
    (step c s i).2.qValid = (s.bf != 0) ∧
    (s.bf ≠ 0 → (absQueue s).head? = some (step c s i).2.qHdr) := by
  refine ⟨rfl, fun hb => ?_⟩
  obtain ⟨n, hn⟩ : ∃ n, s.bf = n + 1 := ⟨s.bf - 1, by omega⟩
  simp [absQueue, bufQ, hn, List.range_succ_eq_map, step]

/-! ### (3) acknowledgement -/

/-- **C37 (3)**: the first LGOOD is the sequence-number advertisement (LGOOD_7 after reset); the
(k+1)-th LGOOD on the wire exists only after the k-th accepted header and carries exactly that
header's sequence number; no header is acknowledged twice (LGOODs and accepted headers are in
one-to-one order, `acks` counting the ones still owed). -/
theorem lgood_carries_seq (c : Config) (ins : List In) (e : EnvOk c init Ghost.init ins) :
    let r := runG c init Ghost.init ins
    r.2.lgoods.length + r.1.acks = r.2.accepted.length + 1 ∧
    (∀ (h0 : 0 < r.2.lgoods.length), r.2.lgoods[0] = 7) ∧
    (∀ k (hk : k + 1 < r.2.lgoods.length), ∃ hk' : k < r.2.accepted.length,
        r.2.lgoods[k + 1] = (r.2.accepted[k]).seq) := by
  have h := inv_reachable c ins e
  refine ⟨h.hack, fun h0 => ?_, fun k hk => ?_⟩
  · rw [getElem_of_range_map h.hlgoods 0 h0]
  · have hk' : k < (runG c init Ghost.init ins).2.accepted.length := by have := h.hack; omega
    refine ⟨hk', ?_⟩
    rw [getElem_of_range_map h.hlgoods (k + 1) hk]
    have hs := List.getElem_of_eq h.hseq (i := k) (by simpa using hk')
    simp only [List.getElem_map, List.getElem_range] at hs
    rw [hs]; omega

/-! ### (4) corrupted headers -/

/-- **C37 (4a)**: a corrupted header that is noticed makes an LBAD pending and turns on
`ignore_packets` in the next cycle; every noticed corrupted header is answered by exactly one LBAD,
already completed on the wire or still pending. -/
theorem lbad_for_every_corrupted_header (c : Config) (ins : List In) (e : EnvOk c init Ghost.init ins) :
    let r := runG c init Ghost.init ins
    r.2.lbads + (if r.1.lbad then 1 else 0) = r.2.bads ∧ (r.1.lbad = true → r.1.ignore = true) := by
  have h := inv_reachable c ins e
  exact ⟨h.hlbc, h.hlb1⟩

theorem bad_header_sets_ignore {c : Config} {s : State} {g : Ghost} {i : In} (h : Inv c s g) (e : EnvStep s g i)
    (hb : badEv s = true) : (step c s i).1.lbad = true ∧ (step c s i).1.ignore = true := by
  have hl : s.lbad = false := by
    cases hx : s.lbad
    · rfl
    · have := h.hlb1 hx; simp [badEv, this] at hb
  have hf : (s.fsm == Fsm.sendLbad) = false := by
    cases hx : s.fsm <;> simp
    have := h.hlb2 hx; simp [hl] at this
  have hr : i.retryReceived = false := by
    cases hx : i.retryReceived
    · rfl
    · have := (e.retry hx).2; simp [hb] at this
  simp [step_lbad, step_ignore, no_reset e, hf, hb, hr]

/-- **C37 (4b)**: while `ignore_packets` is set and no retry is received, no header is accepted —
whatever arrives on the sink. -/
theorem lbad_then_ignore_until_retry (c : Config) (ins : List In) :
    ∀ (s : State) (g : Ghost), s.ignore = true → EnvOk c s g ins →
    (∀ i ∈ ins, i.retryReceived = false) →
    (runG c s g ins).2.accepted = g.accepted ∧ (runG c s g ins).2.delivered.length ≤
      g.delivered.length + s.bf ∧ (runG c s g ins).1.ignore = true := by
  induction ins with
  | nil => intro s g hi _ _; exact ⟨rfl, by simp [runG], hi⟩
  | cons i is ih =>
    intro s g hi e hr
    have hri : i.retryReceived = false := hr i (by simp)
    have hign : (step c s i).1.ignore = true := by
      simp [step_ignore, no_reset e.1, hri, hi]
    have hacc : (ghostStep s i g).accepted = g.accepted := by simp [ghostStep, accept, hi]
    obtain ⟨a, b, d⟩ := ih _ _ hign e.2 (fun j hj => hr j (by simp [hj]))
    refine ⟨by simp only [runG]; rw [a, hacc], ?_, by simpa [runG] using d⟩
    simp only [runG]
    refine Nat.le_trans b ?_
    simp only [step_bf, no_reset e.1, updown, accept, hi, ghostStep, Bool.false_eq_true, if_false,
      Bool.not_true, Bool.and_false, Bool.false_and, Bool.not_false, Bool.and_true]
    cases hp : pop s i
    · simp
    · have : s.bf ≠ 0 := by simpa [pop, qValid] using (show pop s i = true from hp) |> fun h => (by
        simp [pop, qValid] at h; exact h.1)
      simp; omega

/-! ### (5) credits -/

/-- **C37 (5)**: buffers in use plus credits the partner still holds plus credits not yet advertised
are always exactly four, so buffered + advertised headers never exceed the buffer count; the k-th LCRD
on the wire is LCRD_(k mod 4), i.e. the letters cycle A-B-C-D. -/
theorem credit_invariant (c : Config) (ins : List In) (e : EnvOk c init Ghost.init ins) :
    let r := runG c init Ghost.init ins
    r.1.bf + (r.2.lcrds.length - r.2.accepted.length) + r.1.cti = 4 ∧
    r.2.accepted.length ≤ r.2.lcrds.length ∧
    (∀ k (hk : k < r.2.lcrds.length), r.2.lcrds[k] = k % 4) := by
  have h := inv_reachable c ins e
  refine ⟨?_, h.hcred, fun k hk => getElem_of_range_map h.hlcrds k hk⟩
  have := h.hbf; have := h.hcti; have := h.hcred; omega

end LunaVerif.HeaderRx


/-! ## Non-vacuity: a concrete history satisfying the environment in which everything happens -/
namespace LunaVerif.HeaderRx

instance (s : State) (g : Ghost) (i : In) : Decidable (EnvStep s g i) :=
  decidable_of_iff (i.enable = true ∧ i.usbReset = false ∧
      (accept s = true → g.accepted.length < g.lcrds.length) ∧
      (accept s = true → g.accepted.length + 1 < g.lgoods.length + 4) ∧
      (i.retryReceived = true → s.lbad = false ∧ badEv s = false))
    ⟨fun ⟨a, b, c, d, e⟩ => ⟨a, b, c, d, e⟩, fun ⟨a, b, c, d, e⟩ => ⟨a, b, c, d, e⟩⟩

def decEnvOk (c : Config) : (s : State) → (g : Ghost) → (ins : List In) → Decidable (EnvOk c s g ins)
  | _, _, [] => isTrue trivial
  | s, g, i :: is =>
    match (inferInstance : Decidable (EnvStep s g i)), decEnvOk c (step c s i).1 (ghostStep s i g) is with
    | isTrue a, isTrue b => isTrue ⟨a, b⟩
    | isFalse a, _ => isFalse (fun h => a h.1)
    | _, isFalse b => isFalse (fun h => b h.2)

instance (c : Config) (s : State) (g : Ghost) (ins : List In) : Decidable (EnvOk c s g ins) := decEnvOk c s g ins

/-- an input cycle: link enabled, generator granted, consumer not ready, given sink word -/
def cyc (v : Bool) (d ctrl : Nat) (qReady : Bool := false) (retry : Bool := false) : In :=
  { sink := ⟨v, d, ctrl⟩, srcReady := true, enable := true, usbReset := false, qReady := qReady,
    retryReceived := retry, retryRequired := false, keepaliveRequired := false, rejectPower := false }

/-- the link-management header of tests/test_usb3_receiver.py (sequence number 0) -/
def hdrA : Hdr := ⟨0x00000280, 0x00010004, 0x00000000, 0x10001845⟩
/-- the same header with a flipped bit in DW1 (CRC-16 mismatch) -/
def hdrBad : Hdr := ⟨0x00000280, 0x00010005, 0x00000000, 0x10001845⟩

def sendHdr (h : Hdr) : List In :=
  [cyc true hpStart 15, cyc true h.dw0 0, cyc false 0 0, cyc true h.dw1 0, cyc true h.dw2 0, cyc true h.dw3 0,
   cyc false 0 0, cyc false 0 0]

/-- 20 idle cycles (advertisement LGOOD_7 + LCRD_A..D), a corrupted header, idle cycles in which the
LBAD goes out, the partner's retry, the good header, then the protocol layer takes it. -/
def demo : List In :=
  List.replicate 20 (cyc false 0 0) ++ sendHdr hdrBad ++ List.replicate 6 (cyc false 0 0) ++
  [cyc false 0 0 false true] ++ sendHdr hdrA ++ List.replicate 6 (cyc false 0 0) ++ [cyc false 0 0 true] ++
  List.replicate 6 (cyc false 0 0)

example : hdrA.crcOk = true ∧ hdrA.seq = 0 ∧ hdrBad.crc16Ok = false := by decide +kernel

example : EnvOk ⟨true, false, false⟩ init Ghost.init demo := by decide +kernel

example : let r := runG ⟨true, false, false⟩ init Ghost.init demo
    r.2.accepted = [hdrA] ∧ r.2.delivered = [hdrA] ∧ r.2.lgoods = [7, 0] ∧ r.2.lcrds = [0, 1, 2, 3, 0] ∧
    r.2.lbads = 1 ∧ r.2.bads = 1 := by decide +kernel

end LunaVerif.HeaderRx
