import LunaVerif.Props.C25Rx
import LunaVerif.Lemmas.C25RxDriftBack
/-!
# C25 (receive direction) — the cycle-level RxPipeline decodes `encode bytes` under CLOCK DRIFT

"… conversely any correctly encoded full-speed packet on D+/D- (**within USB clock tolerance**) is delivered as exactly
its bytes with receive-active framing, and a bit-stuffing violation is reported as an error."  Quantifier: "sampling
phases/drift within ±0.25 % between the 48 MHz sampler and the line".

Same model as `Props/C25Rx.lean` (`FsRx.step`, co-simulated against the real `RxPipeline` cycle by cycle), but the line
is no longer sampled exactly four times per bit.  The line is a stream of *bit cells* `(symbol, samples, first sample)`: the `k`-th
line transition of a transmitter with bit period `T` samples falls at sample `⌊φ + k T⌋`, so every cell has 4 samples
except that one in about `1 / |T - 4|` cells has 3 (`T < 4`) or 5 (`T > 4`).

**Envelope actually proved** (`DriftOk`, a decidable predicate on the list of cell lengths): every cell has 3, 4 or 5
samples and two cells of length ≠ 4 are at least **8 cells apart** (index difference ≥ 8; 3s and 5s may be mixed:
this also covers bounded jitter of the cell boundaries by one sample).  ±0.25 % (`|T - 4| ≤ 0.01`) has them at least
100 cells apart (`floor_cells_driftOk`: proved for the `⌊φ + k T⌋` model with exact scaled integers, every
`T ∈ [3.99, 4.01]`, every phase `φ`, every number of cells), so the envelope is about 12 times wider than the
property requires (`DriftOk` allows a constant offset of up to ±3 %).  The other ingredient is bit stuffing: a line
transition at least every seven cells (`runsOk 7`, from `no_seven_ones_on_wire`).

**Skew** (`SkewOk`, decidable): at every J↔K transition, independently, the two lines may be seen switching in the same
sample or one sample apart in either order -- the first sample of the new cell shows SE0 or SE1 (`Cell`'s third
component); every other sample of a cell shows its symbol.

Theorems (from any idle state, any sampling phase `k` against the receiver's idle bit clock, every byte list, every
cell stream in the envelope):
* `rx_pipeline_decodes_encode_drift` — the events written into the clock-domain crossing are `start`, the bytes in
  order, each once, `end`; `o_receive_error` stays low after the start flag; the path is idle again afterwards (so the
  theorem composes over any number of packets, each with its own drift pattern).
* `stuff_error_detected_cycle_drift` — seven consecutive 1s latch the error, for every trackable cell stream
  (`trackable`, the exact condition of the proof; `trackable_of_drift`: implied by `runsOk L` and `driftOk (L + 1)`
  for any `L`, i.e. by a drift that is small against the longest run of the -- illegal -- packet).
* `rx_drift_nominal` — with four clean samples in every cell the stimulus is the nominal-rate one of `Props/C25Rx.lean`.

Proof: `Lemmas/C25RxDriftFront` (position `k` of the recovered bit clock against the cell boundaries as invariant, one
finite lemma per cell over all symbols, positions and lengths, induction over the cells; the envelope keeps
`2 ≤ k ≤ 4`), `Lemmas/C25RxDriftBack` (the back end is quiet from two cycles after a strobe on, so a spacing of 3, 4
or 5 cycles gives the same bit-level run), then the bit-level analysis of `Lemmas/C25RxBack` unchanged.

The line symbols of the cell stream are those of `encode bytes` but for its last one: the J that ends the EOP is
followed by the idle J, there is no cell boundary to speak of, and the stimulus continues with `4 (m + 3) + 3` samples
of J.
-/
set_option linter.unusedSimpArgs false
namespace LunaVerif.FsRx
open LunaVerif.FsCodec

theorem rep_J (n : Nat) : rep n .J = jn n := rfl

/-- **lock under drift**: whatever the sampling phase `r` of the first K against the idle bit clock and whatever its
length `n`, the first transition re-aligns `line_state_phase`; seven cycles into the packet the front end is in the
tracking regime. -/
theorem lockD (g0 g1 : Option Bool) : ∀ (r : Fin 4) (n : Fin 6) c e, c ≤ 6 → 3 ≤ n.val →
    (run (idleSt c e) (jn r.val ++ (cellIn .K n.val g0 ++ cellIn .J (7 - n.val) g1))).1 =
      ⟨Gk false .K .J (7 - n.val) g1, conc ⟨0, bsStep (bsStep c true) true, srInit, e⟩ true⟩ ∧
    events (run (idleSt c e) (jn r.val ++ (cellIn .K n.val g0 ++ cellIn .J (7 - n.val) g1))).2 = [] ∧
    ∀ o ∈ (run (idleSt c e) (jn r.val ++ (cellIn .K n.val g0 ++ cellIn .J (7 - n.val) g1))).2, seOf o = (false, e) := by
  rcases g0 with _ | _ | _ <;> rcases g1 with _ | _ | _ <;>
    (intro r n; apply forall_c_e; revert r n; decide +kernel)

/-- the whole stream can be tracked, from the idle line on -/
def trackable : List Cell → Bool
  | [] => false
  | (d, n, g) :: w => track 3 .J d n g w

/-- **reception under drift, any sampling phase**: for a trackable cell stream `K J … J J` (the first cell `k` cycles
after an idle state, three idle samples at the end) the back end is stepped through exactly the bits of the symbols
but the last, and the front end is back in its idle state. -/
theorem run_waveD (c : Nat) (e : Bool) (hc : c ≤ 6) (k : Nat) (n0 n1 : Nat) (g0 g1 : Option Bool)
    (W : List Cell) (ws : List Sym)
    (hW : W.map (·.1) = ws ++ [.J, .J]) (ht : trackable ((.K, n0, g0) :: (.J, n1, g1) :: W) = true) :
    ∃ c0, c0 ≤ 6 ∧
    (run (idleSt c e) (jn k ++ dwave ((.K, n0, g0) :: (.J, n1, g1) :: W) ++ jn 3)).1 =
      ⟨G true .J .J, conc (bitRun ⟨0, c0, srInit, e⟩ (symBits .J (.K :: .J :: (ws ++ [.J, .J]))).dropLast)
        (lastD true (symBits .J (.K :: .J :: (ws ++ [.J, .J]))).dropLast)⟩ ∧
    events (run (idleSt c e) (jn k ++ dwave ((.K, n0, g0) :: (.J, n1, g1) :: W) ++ jn 3)).2 =
      bitEvs ⟨0, c0, srInit, e⟩ (symBits .J (.K :: .J :: (ws ++ [.J, .J]))).dropLast ∧
    ∃ pre, (∀ p ∈ pre, p = (false, e)) ∧
      errAfter false ((run (idleSt c e) (jn k ++ dwave ((.K, n0, g0) :: (.J, n1, g1) :: W) ++ jn 3)).2.map seOf) =
        errAfter false (pre ++ bitSEs ⟨0, c0, srInit, e⟩ (symBits .J (.K :: .J :: (ws ++ [.J, .J]))).dropLast) := by
  -- the first cell
  simp only [trackable, track, Bool.and_eq_true] at ht
  obtain ⟨⟨hk0, _⟩, ht1⟩ := ht
  obtain ⟨_, _, hn3, hn5, _, _, _⟩ := (okCell_iff 3 .J .K n0).mp hk0
  have hnk : nextK 3 .J .K n0 = 7 - n0 := by simp [nextK]
  rw [hnk] at ht1
  -- split the idle prefix into whole bit times and the sampling phase
  obtain ⟨⟨c1, hc1, q1⟩, q2, q3⟩ := idle_run (k / 4) c e hc
  obtain ⟨l1, l2, l3⟩ := lockD g0 g1 ⟨k % 4, Nat.mod_lt _ (by omega)⟩ ⟨n0, by omega⟩ c1 e hc1 hn3
  simp only at l1 l2 l3
  refine ⟨bsStep (bsStep c1 true) true, bsStep_le _ _ (bsStep_le _ _ hc1), ?_⟩
  have hin : jn k ++ dwave ((.K, n0, g0) :: (.J, n1, g1) :: W) ++ jn 3 =
      jn (4 * (k / 4)) ++ ((jn (k % 4) ++ (cellIn .K n0 g0 ++ cellIn .J (7 - n0) g1)) ++ dblocks (7 - n0) .K .J n1 W) := by
    have hk : jn k = jn (4 * (k / 4)) ++ jn (k % 4) := by
      simp only [jn, List.replicate_append_replicate]; congr 1; omega
    have hw := dwave_dblocks W (7 - n0) .K .J n1 g1 ht1
    have hd : dwave ((.K, n0, g0) :: (.J, n1, g1) :: W) = cellIn .K n0 g0 ++ dwave ((.J, n1, g1) :: W) := rfl
    rw [hd, hk, ← rep_J 3]
    simp only [List.append_assoc]
    rw [← hw]
  rw [hin, run_append, q1, run_append, l1]
  -- the tracking part
  obtain ⟨f1, f2⟩ := front_blocksD W false (7 - n0) .K .J n1 g1 ht1
  obtain ⟨s1, s2⟩ := lastSym_JJ ws .K .J
  rw [hW, s1, s2] at f1
  have hbits : (dbits false (7 - n0) .K .J n1 W).map (·.2) =
      (symBits .J (.K :: .J :: (ws ++ [.J, .J]))).dropLast := by
    rw [dbits_bits, hW]
    simp [symBits, bitOf, dkOf, se0Of, List.dropLast]
  have hlens : ∀ p ∈ dbits false (7 - n0) .K .J n1 W, 3 ≤ p.1 :=
    fun p hp => (dbits_lens W false (7 - n0) .K .J n1 g1 ht1 p hp).1
  obtain ⟨b1, b2, b3⟩ := back_vblocks (dbits false (7 - n0) .K .J n1 W) hlens
    ⟨0, bsStep (bsStep c1 true) true, srInit, e⟩ true
  rw [hbits] at b1 b2
  rw [run_split]
  simp only [f1, f2, b1, b2]
  refine ⟨?_, ?_, ?_⟩
  · rfl
  · simp only [events_append, q2, l2, List.nil_append]
    exact b2
  · refine ⟨(run (idleSt c e) (jn (4 * (k / 4)))).2.map seOf ++ (run (idleSt c1 e)
        (jn (k % 4) ++ (cellIn .K n0 g0 ++ cellIn .J (7 - n0) g1))).2.map seOf, ?_, ?_⟩
    · intro p hp
      rcases List.mem_append.mp hp with hp | hp
      · obtain ⟨o, ho, rfl⟩ := List.mem_map.mp hp; exact q3 o ho
      · obtain ⟨o, ho, rfl⟩ := List.mem_map.mp hp; exact l3 o ho
    · simp only [List.map_append, b3, ← List.append_assoc]
      rw [errAfter_append, errAfter_append (y := bitSEs _ _),
        bitSEsD_errAfter (dbits false (7 - n0) .K .J n1 W) hlens, hbits]

/-- the cell stream of a packet whose bit stream after SYNC is `bits`: `cells` carries SYNC, `bits` and the two SE0 of
the EOP; `m + 3` idle bit times follow -/
def packetCells (cells : List Cell) (m : Nat) : List Cell := cells ++ List.replicate (m + 3) (.J, 4, none)

/-- drifting input: `k` idle samples, the cells of the packet, `m + 3` idle bit times and three more idle samples -/
def rxInputD (k : Nat) (cells : List Cell) (m : Nat) : List In := jn k ++ dwave (packetCells cells m) ++ jn 3

/-- **nominal rate is the special case** of four samples in every cell -/
theorem rx_drift_nominal (k : Nat) (w : List Sym) (m : Nat) :
    rxInputD k (w.map (·, 4, none)) m = rxInput k (w ++ [.J]) m := by
  have : packetCells (w.map (·, 4, none)) m = (w ++ [Sym.J] ++ List.replicate (m + 2) Sym.J).map (·, 4, none) := by
    simp only [packetCells, List.map_append, List.map_replicate, List.append_assoc, List.map, List.cons_append,
      List.nil_append, List.replicate_succ]
  simp only [rxInputD, rxInput, this, dwave_nominal]

theorem run_packetD (c : Nat) (e : Bool) (hc : c ≤ 6) (k : Nat) (bits : List Bool) (m : Nat)
    (cells : List Cell)
    (hs : cells.map (·.1) = (nrzi true (syncBits ++ bits)).map lvl ++ [.SE0, .SE0])
    (ht : trackable (packetCells cells m) = true) :
    ∃ c0, c0 ≤ 6 ∧
    (run (idleSt c e) (rxInputD k cells m)).1 =
      ⟨G true .J .J, conc (bitRun ⟨0, c0, srInit, e⟩ (packetBits bits m)) true⟩ ∧
    events (run (idleSt c e) (rxInputD k cells m)).2 = bitEvs ⟨0, c0, srInit, e⟩ (packetBits bits m) ∧
    ∃ pre, (∀ p ∈ pre, p = (false, e)) ∧
      errAfter false ((run (idleSt c e) (rxInputD k cells m)).2.map seOf) =
        errAfter false (pre ++ bitSEs ⟨0, c0, srInit, e⟩ (packetBits bits m)) := by
  -- shape of the cell list: K, J, …, J, J
  have hsyms : (packetCells cells m).map (·.1) = packetWave bits m := by
    simp only [packetCells, List.map_append, hs, List.map_replicate, packetWave, List.append_assoc]
    congr 1
  have hshape : packetWave bits m = .K :: .J ::
      (((nrzi true ([false, false, false, false, false, true] ++ bits)).map lvl ++ [.SE0, .SE0, .J] ++
        List.replicate m .J) ++ [.J, .J]) := by
    have : List.replicate (m + 2) Sym.J = List.replicate m Sym.J ++ [.J, .J] := by
      rw [← List.replicate_append_replicate]; rfl
    simp only [packetWave, this, syncBits, List.cons_append, nrzi, List.map, lvl, List.append_assoc]
    simp
  have hbits : (symBits .J (packetWave bits m)).dropLast = packetBits bits m := by
    have h := symBits_packet (syncBits ++ bits) (m + 2)
    simp only [packetWave]
    rw [h, List.replicate_succ' (n := m + 1), ← List.append_assoc, List.dropLast_concat]
    simp only [packetBits, fbits, List.map_append, List.append_assoc]
  rw [hshape] at hsyms
  match hpc : packetCells cells m, hsyms with
  | (d0, n0, g0) :: (d1, n1, g1) :: W, hsyms =>
    simp only [List.map, List.cons.injEq] at hsyms
    obtain ⟨hd0, hd1, hW⟩ := hsyms
    subst hd0 hd1
    rw [hpc] at ht
    obtain ⟨c0, h0, h1, h2, h3⟩ := run_waveD c e hc k n0 n1 g0 g1 W _ hW ht
    rw [← hshape, hbits] at h1 h2 h3
    simp only [rxInputD, hpc]
    refine ⟨c0, h0, ?_, h2, h3⟩
    rw [h1]
    have : lastD true (packetBits bits m) = true := by
      simp only [packetBits, ← List.append_assoc]
      exact lastD_idle _ m true
    rw [this]

/-! ### the envelope -/

/-- **the drift envelope** on the list of cell lengths (in 48 MHz samples): every cell has 3, 4 or 5 samples, and any
two cells of length ≠ 4 are at least 8 cells apart. -/
def DriftOk (lens : List Nat) : Prop := driftOk 8 8 lens = true

instance (lens : List Nat) : Decidable (DriftOk lens) := by unfold DriftOk; infer_instance

/-- **skew envelope**: the first sample of a cell may show SE0 or SE1 instead of the symbol, at J↔K transitions only (the
two lines switching one sample apart, in either order, independently at every transition) -/
def SkewOk (cells : List Cell) : Prop := skewOk .J cells = true

instance (cells : List Cell) : Decidable (SkewOk cells) := by unfold SkewOk; infer_instance

theorem track_idle (q : Nat) : track 3 .J .J 4 none (List.replicate q (.J, 4, none)) = true := by
  induction q with
  | zero => decide
  | succ q ih =>
    have h1 : okCell 3 .J .J 4 = true := by decide
    have h2 : nextK 3 .J .J 4 = 3 := by decide
    have h3 : skewOk1 .J .J none = true := by decide
    simp only [List.replicate_succ, track, h1, h2, h3, ih, Bool.and_self]

/-- a stream ending in SE0 is tracked on over the J of the EOP and the idle line -/
theorem track_tail (k' : Nat) (h2 : 2 ≤ k') (h4 : k' ≤ 4) (q : Nat) :
    track k' .SE0 .J 4 none (List.replicate q (.J, 4, none)) = true := by
  have h1 : okCell k' .SE0 .J 4 = true := by
    rw [okCell_iff]; simp [nextK]; omega
  have hn : nextK k' .SE0 .J 4 = 3 := by simp [nextK]
  have h3 : skewOk1 .SE0 .J none = true := by decide
  cases q with
  | zero => simp only [List.replicate, track, h1, hn, h3, decide_true, Bool.and_self]
  | succ q => simp only [List.replicate_succ, track, h1, hn, h3, track_idle, Bool.and_self]

/-- `FsCodec.runOK` with the bound as a parameter: at most `L - 1` consecutive 1s (`n` = current run) -/
def runOKL (L : Nat) : Nat → List Bool → Bool
  | _, [] => true
  | n, true :: bs => decide (n + 2 ≤ L) && runOKL L (n + 1) bs
  | _, false :: bs => runOKL L 0 bs

/-- no symbol more than `L` times in a row in the NRZI of a bit stream with at most `L - 1` consecutive 1s -/
theorem runsOk_nrzi (L : Nat) (rest : List Sym) (hrest : ∀ l' j', j' ≤ L → runsOk L (lvl l') j' rest = true)
    (bits : List Bool) : ∀ (l : Bool) (n : Nat), n + 1 ≤ L → runOKL L n bits = true →
    runsOk L (lvl l) (n + 1) ((nrzi l bits).map lvl ++ rest) = true := by
  induction bits with
  | nil => intro l n hn _; exact hrest l (n + 1) hn
  | cons b bs ih =>
    intro l n hn h
    cases b with
    | true =>
      simp only [runOKL, Bool.and_eq_true, decide_eq_true_eq] at h
      simp only [nrzi, if_true, List.map, List.cons_append, runsOk, Bool.and_eq_true, decide_eq_true_eq]
      exact ⟨h.1, ih l (n + 1) h.1 h.2⟩
    | false =>
      simp only [runOKL] at h
      have hne : lvl (!l) ≠ lvl l := by cases l <;> decide
      simp only [nrzi, Bool.false_eq_true, if_false, List.map, List.cons_append, runsOk, hne]
      exact ih (!l) 0 (by omega) h

theorem runOKL_seven (bits : List Bool) : ∀ n, runOK n bits = true → runOKL 7 n bits = true := by
  induction bits with
  | nil => intro n _; rfl
  | cons b bs ih =>
    intro n h
    cases b with
    | true =>
      simp only [runOK, Bool.and_eq_true, decide_eq_true_eq] at h
      simp only [runOKL, Bool.and_eq_true, decide_eq_true_eq]
      exact ⟨by omega, ih (n + 1) h.2⟩
    | false => exact ih 0 h

/-- **the envelope is trackable**: a packet whose NRZI bit stream has at most `L - 1` consecutive 1s (a line transition
at least every `L` cells), cell lengths 3, 4, 5 with two cells of length ≠ 4 at least `M ≥ L + 1` cells apart. -/
theorem trackable_of_drift (L M : Nat) (hL : 2 ≤ L) (hLM : L + 1 ≤ M) (bits : List Bool) (m : Nat)
    (cells : List Cell)
    (hs : cells.map (·.1) = (nrzi true (syncBits ++ bits)).map lvl ++ [.SE0, .SE0])
    (hr : runOKL L 0 (syncBits ++ bits) = true)
    (hd : driftOk M M (cells.map (·.2.1)) = true) (hk : skewOk .J cells = true) :
    trackable (packetCells cells m) = true := by
  have hruns : runsOk L .J 1 (cells.map (·.1)) = true := by
    rw [hs]
    refine runsOk_nrzi L [.SE0, .SE0] ?_ (syncBits ++ bits) true 0 (by omega) hr
    intro l' j' _
    have hne : Sym.SE0 ≠ lvl l' := by cases l' <;> decide
    simp only [runsOk, hne, if_false, if_true, Bool.and_true, decide_eq_true_eq]
    omega
  have hend : ∀ d w, cells.map (·.1) = d :: w → endSym d w = .SE0 := by
    intro d w h
    rw [hs] at h
    have : endSym .J (d :: w) = .SE0 := by
      rw [← h, show (nrzi true (syncBits ++ bits)).map lvl ++ [Sym.SE0, .SE0] =
        ((nrzi true (syncBits ++ bits)).map lvl ++ [.SE0]) ++ [.SE0] by simp]
      exact endSym_concat _ _ _
    exact this
  match cells, hruns, hd, hk, hend with
  | [], _, _, _, _ => simp [syncBits, nrzi] at hs
  | (d, n, g) :: cells', hruns, hd, hk, hend =>
    simp only [packetCells, List.cons_append, trackable]
    refine track_of_drift L M (by omega) hLM cells' 3 .J 1 M d n g (List.replicate (m + 3) (.J, 4, none)) (by omega)
      (by omega) (by omega) (fun h => absurd rfl h) hd hruns hk ?_
    intro k' h2 h4
    have he := hend d (cells'.map (·.1)) rfl
    simp only [List.replicate_succ (n := m + 2), he]
    exact track_tail k' h2 h4 (m + 2)

/-- the packets of `encode`: bit stuffing gives `L = 7` -/
theorem trackable_encode (bytes : List Nat) (m : Nat) (cells : List Cell)
    (hs : cells.map (·.1) ++ [.J] = encode bytes) (hd : DriftOk (cells.map (·.2.1))) (hk : SkewOk cells) :
    trackable (packetCells cells m) = true ∧
    cells.map (·.1) = (nrzi true (syncBits ++ stuff 1 (bitsOf bytes))).map lvl ++ [.SE0, .SE0] := by
  have hs' : cells.map (·.1) = (nrzi true (syncBits ++ stuff 1 (bitsOf bytes))).map lvl ++ [.SE0, .SE0] := by
    have : encode bytes = ((nrzi true (syncBits ++ stuff 1 (bitsOf bytes))).map lvl ++ [.SE0, .SE0]) ++ [.J] := by
      simp [encode]
    rw [this] at hs
    exact List.append_cancel_right hs
  exact ⟨trackable_of_drift 7 8 (by omega) (by omega) _ m cells hs'
    (runOKL_seven _ 0 (no_seven_ones_on_wire bytes)) hd hk, hs'⟩

/-! ### the theorems of the property -/

/-- the bit-level run of a good packet (the four phases SYNC, data, EOP, idle; as in `rx_pipeline_decodes_encode`) -/
theorem packetBits_good (bytes : List Nat) (hb : ∀ b ∈ bytes, b < 256) (c0 : Nat) (h0 : c0 ≤ 6) (e : Bool) (m : Nat) :
    bitEvs ⟨0, c0, srInit, e⟩ (packetBits (stuff 1 (bitsOf bytes)) m) = [.start] ++ bytes.map Ev.byte ++ [.fin] ∧
    (∀ pre : List (Bool × Bool), (∀ p ∈ pre, p = (false, e)) →
      errAfter false (pre ++ bitSEs ⟨0, c0, srInit, e⟩ (packetBits (stuff 1 (bitsOf bytes)) m)) = false) ∧
    ∃ c', c' ≤ 6 ∧ bitRun ⟨0, c0, srInit, e⟩ (packetBits (stuff 1 (bitsOf bytes)) m) = ⟨0, c', srInit, false⟩ := by
  obtain ⟨s1, s2, s3, s4⟩ := sync_run c0 h0 e
  obtain ⟨⟨n', hn', d1⟩, d2, d3⟩ := unstuff_run (bitsOf bytes) 1 srInit (by omega)
  obtain ⟨a1, a2⟩ := shifter_bytes bytes hb srInit (Or.inr rfl)
  obtain ⟨⟨c1, hc1, e1⟩, e2, e3⟩ := eop_run n' (shRun srInit (bitsOf bytes))
    (!lastLvl true (nrzi true (syncBits ++ stuff 1 (bitsOf bytes)))) false (by omega)
  obtain ⟨⟨c2, hc2, i1⟩, i2, i3⟩ := idle_bits m 1 c1 false (by omega) hc1
  refine ⟨?_, ?_, c2, hc2, ?_⟩
  · simp only [packetBits, bitEvs_append, s1, s2, d1, d2, a2, e1, e2, i2, List.append_nil, List.append_assoc]
  · intro pre h3
    simp only [packetBits, bitSEs_append, s1, d1, e1]
    rw [errAfter_append, errAfter_nostart pre (fun p hp => by rw [h3 p hp])]
    have hpre : pre.any (·.1) = false := by
      rw [List.any_eq_false]; intro p hp; rw [h3 p hp]; simp
    rw [hpre, errAfter_append]
    simp only [Bool.or_false, Bool.false_or, s3, s4, Bool.or_true, Bool.true_or]
    apply errAfter_clean
    intro p hp
    rcases List.mem_append.mp hp with hp | hp
    · rw [d3 p hp]
    rcases List.mem_append.mp hp with hp | hp
    · rw [e3 p hp]
    · rw [i3 p hp]
  · simp only [packetBits, bitRun_append, s1, d1, e1, i1]

/-- **the receive chain decodes `encode` under clock drift and skew** (cycle level, any sampling phase, every drift pattern in
the envelope).  From an idle state, for every byte list and every stream of bit cells whose symbols are those of
`encode bytes` (the final J merging with the idle line) and whose lengths satisfy `DriftOk` -- 3, 4 or 5 samples per
cell, two cells of length ≠ 4 at least 8 cells apart -- and whose first samples satisfy `SkewOk` -- SE0 or SE1 instead of
the symbol at J↔K transitions only --, starting after any number `k` of idle samples: the receive
chain writes into the clock-domain crossing exactly packet start, the bytes in order, each once, packet end; the latched
receive error is low from the cycle after the start flag on; `4 (m + 3) + 3` idle cycles after the second SE0 the path
is in an idle state again, error latch clear. -/
theorem rx_pipeline_decodes_encode_drift (bytes : List Nat) (hb : ∀ b ∈ bytes, b < 256)
    (cells : List Cell) (hs : cells.map (·.1) ++ [.J] = encode bytes) (hd : DriftOk (cells.map (·.2.1)))
    (hk : SkewOk cells) (c : Nat) (e : Bool) (hc : c ≤ 6) (k m : Nat) :
    events (run (idleSt c e) (rxInputD k cells m)).2 = [.start] ++ bytes.map Ev.byte ++ [.fin] ∧
    noErrorAfterStart (run (idleSt c e) (rxInputD k cells m)).2 ∧
    ∃ c', c' ≤ 6 ∧ (run (idleSt c e) (rxInputD k cells m)).1 = idleSt c' false := by
  obtain ⟨ht, hs'⟩ := trackable_encode bytes m cells hs hd hk
  obtain ⟨c0, h0, h1, h2, pre, h3, h4⟩ := run_packetD c e hc k (stuff 1 (bitsOf bytes)) m cells hs' ht
  obtain ⟨g1, g2, c', hc', g3⟩ := packetBits_good bytes hb c0 h0 e m
  refine ⟨?_, ?_, c', hc', ?_⟩
  · rw [h2, g1]
  · simp only [noErrorAfterStart]
    rw [h4]; exact g2 pre h3
  · rw [h1, g3]; rfl

/-- **a bit-stuffing violation latches the receive error under clock drift**: a packet whose bit stream after SYNC
contains seven consecutive 1s anywhere (`pre`, `post` arbitrary), as any trackable cell stream -- packet start and
packet end are written into the clock-domain crossing, and at the end of the run `o_receive_error` is set. -/
theorem stuff_error_detected_cycle_drift (pre post : List Bool) (cells : List Cell) (m : Nat)
    (hs : cells.map (·.1) =
      (nrzi true (syncBits ++ (pre ++ List.replicate 7 true ++ post))).map lvl ++ [.SE0, .SE0])
    (ht : trackable (packetCells cells m) = true)
    (c : Nat) (e : Bool) (hc : c ≤ 6) (k : Nat) :
    (∃ evs, events (run (idleSt c e) (rxInputD k cells m)).2 = [.start] ++ evs ++ [.fin]) ∧
    ∃ c', c' ≤ 6 ∧ (run (idleSt c e) (rxInputD k cells m)).1 = idleSt c' true := by
  obtain ⟨c0, h0, h1, h2, _⟩ := run_packetD c e hc k (pre ++ List.replicate 7 true ++ post) m cells hs ht
  obtain ⟨s1, s2, _, _⟩ := sync_run c0 h0 e
  obtain ⟨n1, sr1, e1, hn1, p1⟩ := active_run pre 1 srInit false (by omega)
  obtain ⟨n2, sr2, hn2, p2⟩ := seven_ones_run n1 hn1 sr1 e1
  obtain ⟨n3, sr3, p3, hn3⟩ := err_sticky post n2 sr2
  obtain ⟨⟨c1, hc1, q1⟩, q2, _⟩ := eop_run n3 sr3
    (!lastLvl true (nrzi true (syncBits ++ (pre ++ List.replicate 7 true ++ post)))) true (hn3 hn2)
  obtain ⟨⟨c2, hc2, i1⟩, i2, _⟩ := idle_bits m 1 c1 true (by omega) hc1
  have hrun : bitRun ⟨6, 1, srInit, false⟩ (fbits (pre ++ List.replicate 7 true ++ post)) = ⟨6, n3, sr3, true⟩ := by
    simp only [fbits, List.map_append] at p1 p2 p3 ⊢
    simp only [bitRun_append, p1, p2, p3]
  refine ⟨⟨bitEvs ⟨6, 1, srInit, false⟩ (fbits (pre ++ List.replicate 7 true ++ post)), ?_⟩, c2, hc2, ?_⟩
  · rw [h2]
    simp only [packetBits, bitEvs_append, s1, s2, hrun, q1, q2, i2]
    simp only [List.append_nil, List.append_assoc]
  · rw [h1]
    simp only [packetBits, bitRun_append, s1, hrun, q1, i1]
    rfl

/-! ### ±0.25 % is inside the envelope -/

/-- The cell lengths a drifting transmitter produces: times in units of 1/4000 sample, `a` = time of the current
line transition (its integer part is the sample in which it is seen: `⌊φ + k T⌋`), `P` = bit period
(`T = P / 4000` samples; nominal 16000).  `N` cells. -/
def floorLens (P : Nat) : Nat → Nat → List Nat
  | _, 0 => []
  | a, N + 1 => ((a + P) / 4000 - a / 4000) :: floorLens P (a + P) N

/-- slow transmitter (`4 ≤ T ≤ 4.01`): after a cell of 5 samples the fractional part of the transition time is below
0.01 and grows by at most 0.01 per cell -/
theorem floor_cells_slow (M P : Nat) (hM : M ≤ 100) (h1 : 16000 ≤ P) (h2 : P ≤ 16040) (N : Nat) : ∀ (a g : Nat),
    (M ≤ g ∨ a % 4000 < (g + 1) * 40) → driftOk M g (floorLens P a N) = true := by
  induction N with
  | zero => intro a g _; rfl
  | succ N ih =>
    intro a g hinv
    simp only [floorLens, driftOk]
    by_cases h4 : (a + P) / 4000 - a / 4000 = 4
    · simp only [h4, if_true]
      exact ih (a + P) (g + 1) (by omega)
    · simp only [h4, if_false, Bool.and_eq_true, decide_eq_true_eq]
      refine ⟨⟨by omega, by omega⟩, ih (a + P) 0 (by omega)⟩

/-- fast transmitter (`3.99 ≤ T ≤ 4`): after a cell of 3 samples the fractional part of the transition time is above
0.99 and falls by at most 0.01 per cell -/
theorem floor_cells_fast (M P : Nat) (hM : M ≤ 100) (h1 : 15960 ≤ P) (h2 : P ≤ 16000) (N : Nat) : ∀ (a g : Nat),
    (M ≤ g ∨ 4000 ≤ a % 4000 + (g + 1) * 40) → driftOk M g (floorLens P a N) = true := by
  induction N with
  | zero => intro a g _; rfl
  | succ N ih =>
    intro a g hinv
    simp only [floorLens, driftOk]
    by_cases h4 : (a + P) / 4000 - a / 4000 = 4
    · simp only [h4, if_true]
      exact ih (a + P) (g + 1) (by omega)
    · simp only [h4, if_false, Bool.and_eq_true, decide_eq_true_eq]
      refine ⟨⟨by omega, by omega⟩, ih (a + P) 0 (by omega)⟩

/-- **±0.25 % is inside the envelope**: the cell lengths of a transmitter whose bit period is within ±0.25 % of four
samples (`15960 ≤ P ≤ 16040` in 1/4000 sample), in any phase `a` against the sampler, for any number of cells, are 3, 4
or 5 with two cells of length ≠ 4 at least 100 cells apart -- a fortiori at least 8 (`DriftOk`). -/
theorem floor_cells_apart (M : Nat) (hM : M ≤ 100) (P : Nat) (h1 : 15960 ≤ P) (h2 : P ≤ 16040) (a N : Nat) :
    driftOk M M (floorLens P a N) = true := by
  by_cases h : 16000 ≤ P
  · exact floor_cells_slow M P hM h h2 N a M (Or.inl (Nat.le_refl _))
  · exact floor_cells_fast M P hM h1 (by omega) N a M (Or.inl (Nat.le_refl _))

theorem floor_cells_driftOk (P : Nat) (h1 : 15960 ≤ P) (h2 : P ≤ 16040) (a N : Nat) : DriftOk (floorLens P a N) :=
  floor_cells_apart 8 (by omega) P h1 h2 a N

/-- a transmitter 0.25 % slow, phase 0.6: cells 39, 139, 239 have five samples -/
example : (floorLens 16040 2400 300).count 5 = 3 ∧ (floorLens 16040 2400 300).count 4 = 297 ∧
    (floorLens 16040 2400 300)[39]? = some 5 ∧ (floorLens 16040 2400 300)[139]? = some 5 := by decide +kernel
/-- a transmitter 0.25 % fast: three samples now and then -/
example : (floorLens 15960 2400 300).count 3 = 3 ∧ (floorLens 15960 2400 300).count 4 = 297 := by decide +kernel
/-- the envelope is much wider: a slipped sample every 8 cells (3 % off), 3s and 5s mixed -/
example : DriftOk [4, 3, 4, 4, 4, 4, 4, 4, 4, 5, 4, 4, 4, 4, 4, 4, 4, 5, 4, 4, 4, 4, 4, 4, 4, 3] := by decide
/-- … but not closer -/
example : ¬ DriftOk [4, 3, 4, 4, 4, 4, 4, 4, 3, 4] := by decide

/-! ### non-vacuity: runs of the model itself on drifting streams -/

/-- cells of a packet: the symbols of `encode bytes` but the last, with the lengths `lens` -/
def cellsOf (bytes : List Nat) (lens : List Nat) : List Cell :=
  ((encode bytes).dropLast.zip lens).map (fun p => (p.1, p.2, none))

/-- `[0xA5]`, slow transmitter (cells 3 and 12 have five samples), sampling phase 2, from reset -/
example : events (run {} (jn 15 ++ rxInputD 2 (cellsOf [0xA5] [4, 4, 4, 5, 4, 4, 4, 4, 4, 4, 4, 4, 5, 4, 4, 4, 4, 4]) 0)).2 =
    [.start, .byte 0xA5, .fin] := by decide +kernel

/-- the hypotheses of `rx_pipeline_decodes_encode_drift` hold for that stream -/
example : (cellsOf [0xA5] [4, 4, 4, 5, 4, 4, 4, 4, 4, 4, 4, 4, 5, 4, 4, 4, 4, 4]).map (·.1) ++ [.J] = encode [0xA5] ∧
    DriftOk ((cellsOf [0xA5] [4, 4, 4, 5, 4, 4, 4, 4, 4, 4, 4, 4, 5, 4, 4, 4, 4, 4]).map (·.2.1)) ∧
    SkewOk (cellsOf [0xA5] [4, 4, 4, 5, 4, 4, 4, 4, 4, 4, 4, 4, 5, 4, 4, 4, 4, 4]) := by decide

/-- `[0x0F, 0xFC]` (six 1s and a stuffed 0 at the end), fast transmitter: the FIRST cell (the K that the receiver locks
on) and the last 1 of the run of six have three samples; stale error latch; phase 3 -/
example : events (run (idleSt 5 true) (rxInputD 3 (cellsOf [0x0F, 0xFC]
      [3, 4, 4, 4, 4, 4, 4, 4, 4, 4, 4, 4, 4, 4, 4, 4, 4, 4, 4, 4, 4, 4, 3, 4, 4, 4, 4]) 1)).2 =
      [.start, .byte 0x0F, .byte 0xFC, .fin] ∧
    (run (idleSt 5 true) (rxInputD 3 (cellsOf [0x0F, 0xFC]
      [3, 4, 4, 4, 4, 4, 4, 4, 4, 4, 4, 4, 4, 4, 4, 4, 4, 4, 4, 4, 4, 4, 3, 4, 4, 4, 4]) 1)).1 = idleSt 2 false := by
  decide +kernel

/-- outside the envelope the recovery does fail: two cells of three samples inside one run of equal symbols -/
example : events (run (idleSt 0 false) (rxInputD 0 (cellsOf [0xFF]
      [4, 4, 4, 4, 4, 4, 4, 4, 3, 4, 3, 4, 4, 4, 4, 4, 4, 4, 4]) 0)).2 ≠ [.start, .byte 0xFF, .fin] := by
  decide +kernel

/-- cells of a packet with a seventh 1 -/
def sevenCells : List Cell :=
  (((nrzi true (syncBits ++ ([false] ++ List.replicate 7 true ++ [false]))).map lvl ++ [Sym.SE0, Sym.SE0]).zip
    [4, 4, 5, 4, 4, 4, 4, 4, 4, 4, 4, 4, 4, 4, 4, 4, 4, 3, 4]).map (fun p => (p.1, p.2, none))

/-- seven 1s under drift: the error is latched at the end; the stream is trackable -/
example : trackable (packetCells sevenCells 0) = true ∧
    ((run (idleSt 0 false) (rxInputD 1 sevenCells 0)).1).b.rxErr = true := by
  decide +kernel

/-- cells with skewed first samples: `sk` = what the first sample of each cell shows -/
def skewCells (bytes : List Nat) (lens : List Nat) (sk : List (Option Bool)) : List Cell :=
  (((encode bytes).dropLast.zip lens).zip sk).map (fun p => (p.1.1, p.1.2, p.2))

/-- `[0xA5]` with drift AND skew: at the first transition of the packet (idle J to the K the receiver locks on) D+ is
seen falling one sample before D- rises (SE0), at the next transitions SE1, SE0, SE1, …; no skew where the symbol does
not change or at the EOP -/
example : events (run (idleSt 3 false) (rxInputD 2 (skewCells [0xA5] [3, 4, 4, 5, 4, 4, 4, 4, 4, 4, 4, 4, 5, 4, 4, 4, 4, 4]
      [some false, some true, some false, some true, some false, some true, some false, none,
       none, some true, none, some false, some true, none, some false, none, none, none]) 0)).2 =
      [.start, .byte 0xA5, .fin] ∧
    SkewOk (skewCells [0xA5] [3, 4, 4, 5, 4, 4, 4, 4, 4, 4, 4, 4, 5, 4, 4, 4, 4, 4]
      [some false, some true, some false, some true, some false, some true, some false, none,
       none, some true, none, some false, some true, none, some false, none, none, none]) ∧
    (skewCells [0xA5] [3, 4, 4, 5, 4, 4, 4, 4, 4, 4, 4, 4, 5, 4, 4, 4, 4, 4]
      [some false, some true, some false, some true, some false, some true, some false, none,
       none, some true, none, some false, some true, none, some false, none, none, none]).map (·.1) ++ [.J] =
      encode [0xA5] := by
  decide +kernel

/-- a skewed sample where only one line switches (here: in the middle of a run) is outside the envelope -/
example : ¬ SkewOk (skewCells [0xA5] [4, 4, 4, 4, 4, 4, 4, 4, 4, 4, 4, 4, 4, 4, 4, 4, 4, 4]
    [none, none, none, none, none, none, none, some false, none, none, none, none, none, none, none, none, none, none]) := by
  decide

/-! ### any number of packets -/

/-- a packet on a drifting line: its bytes, its bit cells (SYNC … second SE0), the number `k` of idle samples before it
(sampling phase) and `4 (m + 3) + 3` idle samples after it -/
structure DPkt where
  bytes : List Nat
  cells : List Cell
  k : Nat
  m : Nat

/-- the environment hypotheses of `rx_pipeline_decodes_encode_drift` -/
def DPkt.Ok (p : DPkt) : Prop :=
  (∀ b ∈ p.bytes, b < 256) ∧ p.cells.map (·.1) ++ [.J] = encode p.bytes ∧ DriftOk (p.cells.map (·.2.1)) ∧
    SkewOk p.cells

def DPkt.input (p : DPkt) : List In := rxInputD p.k p.cells p.m
def DPkt.events (p : DPkt) : List Ev := [.start] ++ p.bytes.map Ev.byte ++ [.fin]

/-- **any number of packets, each with its own drift pattern and sampling phase**: from an idle state, the events written
into the clock-domain crossing are, packet after packet, start, the bytes, end; the path ends in an idle state. -/
theorem rx_packets_drift (ps : List DPkt) (h : ∀ p ∈ ps, p.Ok) : ∀ (c : Nat) (e : Bool), c ≤ 6 →
    events (run (idleSt c e) (ps.flatMap DPkt.input)).2 = ps.flatMap DPkt.events ∧
    ∃ c' e', c' ≤ 6 ∧ (run (idleSt c e) (ps.flatMap DPkt.input)).1 = idleSt c' e' := by
  induction ps with
  | nil => intro c e hc; exact ⟨rfl, c, e, hc, rfl⟩
  | cons p ps ih =>
    intro c e hc
    obtain ⟨hb, hs, hd, hk⟩ := h p (by simp)
    obtain ⟨h1, _, c1, hc1, h3⟩ := rx_pipeline_decodes_encode_drift p.bytes hb p.cells hs hd hk c e hc p.k p.m
    obtain ⟨i1, c2, e2, hc2, i2⟩ := ih (fun q hq => h q (by simp [hq])) c1 false hc1
    simp only [List.flatMap_cons, run_append, events_append, DPkt.input, DPkt.events] at *
    rw [h3]
    exact ⟨by rw [h1, i1], c2, e2, hc2, i2⟩

example : (⟨[0xA5], cellsOf [0xA5] [4, 4, 4, 5, 4, 4, 4, 4, 4, 4, 4, 4, 5, 4, 4, 4, 4, 4], 2, 0⟩ : DPkt).Ok := by
  refine ⟨by decide, by decide, by decide, by decide⟩

end LunaVerif.FsRx
