import LunaVerif.Model.Util.StrobeStretcher
/-!
# C55 — Strobe stretching holds the output for exactly the requested time

"For any stretch length, the stretched output is high in every cycle within the requested number
of cycles after a strobe (starting one cycle later when delay is allowed) and low otherwise."

Histories are presented most-recent-first: in the cycle in which the strobe input is `x` and the
strobes of the earlier cycles were `past` (`past[0]` = previous cycle, `past[1]` the one before …)
the output must be high iff one of the `n` most recent strobes is high, where "most recent"
includes the current cycle when no delay is allowed (or `n = 1`, a wire) and starts at the
previous cycle when delay is allowed.
-/
namespace LunaVerif.StrobeStretcher

/-- The specification: which strobes are visible to the output of the current cycle. -/
def window (c : Config) (past : List Bool) (x : Bool) : List Bool :=
  if c.allowDelay && c.n != 1 then past.take c.n else (x :: past).take c.n

/-- Register contents after the strobes `past` (most recent first) have been shifted in from reset. -/
def regAfter (c : Config) (past : List Bool) : State :=
  (past ++ List.replicate (width c) false).take (width c)

theorem regAfter_nil (c : Config) : regAfter c [] = init c := by
  simp [regAfter, init]

theorem take_cons_take (w : Nat) (x : Bool) (l : List Bool) :
    (x :: l.take w).take w = (x :: l).take w := by
  cases w with
  | zero => simp
  | succ w => simp [List.take_take]

theorem step_reg (c : Config) (h : c.n ≠ 1) (past : List Bool) (x : Bool) :
    (step c (regAfter c past) x).1 = regAfter c (x :: past) := by
  simp only [step, h, if_false, regAfter]
  rw [take_cons_take]; rfl

theorem any_take_append_false (w : Nat) (l : List Bool) :
    ((l ++ List.replicate w false).take w).any id = (l.take w).any id := by
  induction l generalizing w with
  | nil => simp
  | cons a l ih =>
    cases w with
    | zero => simp
    | succ w =>
      have : (a :: l ++ List.replicate (w+1) false).take (w+1)
            = a :: ((l ++ List.replicate w false) ++ [false]).take w := by
        simp [List.replicate_succ', List.append_assoc]
      rw [this]
      simp only [List.any_cons, List.take_succ_cons]
      congr 1
      rw [← ih w]
      by_cases hl : w ≤ (l ++ List.replicate w false).length
      · rw [List.take_append_of_le_length hl]
      · simp at hl

/-- One-cycle statement: from the register state reached after `past`, the output equals the
specification window test. -/
theorem step_out (c : Config) (hn : 1 ≤ c.n) (past : List Bool) (x : Bool) :
    (step c (regAfter c past) x).2 = (window c past x).any id := by
  by_cases h1 : c.n = 1
  · simp [step, window, h1]
  · cases hd : c.allowDelay
    · have hw : width c = c.n - 1 := by simp [width, hd]
      simp only [step, h1, if_false, hd, window, regAfter, hw, Bool.false_and]
      rw [any_take_append_false]
      obtain ⟨m, hm⟩ : ∃ m, c.n = m + 1 := ⟨c.n - 1, by omega⟩
      simp [hm]
    · have hw : width c = c.n := by simp [width, hd]
      simp only [step, h1, if_false, hd, window, regAfter, hw]
      rw [any_take_append_false]
      simp [h1]

/-- **C55** for every stretch length `n ≥ 1`, both delay modes and every strobe history: the
outputs produced from reset are exactly the specification windows.  `outs` are the outputs for the
history `hist` (oldest first) continuing after the strobes `past` (most recent first). -/
def specRun (c : Config) : List Bool → List Bool → List Bool
  | _, [] => []
  | past, x :: xs => (window c past x).any id :: specRun c (x :: past) xs

theorem run_eq_spec_from (c : Config) (hn : 1 ≤ c.n) (past hist : List Bool) :
    run c (regAfter c past) hist = specRun c past hist := by
  induction hist generalizing past with
  | nil => rfl
  | cons x xs ih =>
    simp only [run, specRun]
    rw [step_out c hn]
    congr 1
    by_cases h1 : c.n = 1
    · -- a wire: the register is never used
      have : (step c (regAfter c past) x).1 = regAfter c past := by simp [step, h1]
      rw [this]
      have indep : ∀ (s t : State) (h : List Bool), run c s h = run c t h := by
        intro s t h
        induction h generalizing s t with
        | nil => rfl
        | cons y ys ihy => simp only [run, step, h1, if_true]; congr 1; exact ihy _ _
      rw [indep (regAfter c past) (regAfter c (x :: past))]
      exact ih (x :: past)
    · rw [step_reg c h1]; exact ih (x :: past)

theorem stretcher_exact (c : Config) (hn : 1 ≤ c.n) (hist : List Bool) :
    run c (init c) hist = specRun c [] hist := by
  rw [← regAfter_nil]; exact run_eq_spec_from c hn [] hist

/-- The window contains exactly the `n` most recent strobes: high output ⇔ a strobe at distance
`k < n` (counted from the current cycle without delay, from the previous cycle with delay). -/
theorem window_any_iff (c : Config) (past : List Bool) (x : Bool) :
    (window c past x).any id = true ↔
      ∃ k, k < c.n ∧ (if c.allowDelay && c.n != 1 then past else x :: past)[k]? = some true := by
  unfold window
  split <;> simp [List.any_eq_true, List.mem_iff_getElem?, List.getElem?_take] <;>
    constructor <;> (first | (rintro ⟨k, hk⟩; exact ⟨k, by simpa using hk⟩))

/-- Non-vacuity / sanity: a concrete 3-cycle stretch in both modes. -/
example : run ⟨3, false⟩ (init ⟨3, false⟩) [false, true, false, false, false, true, true, false, false, false]
    = [false, true, true, true, false, true, true, true, true, false] := by decide
example : run ⟨3, true⟩ (init ⟨3, true⟩) [false, true, false, false, false, false]
    = [false, false, true, true, true, false] := by decide

end LunaVerif.StrobeStretcher
