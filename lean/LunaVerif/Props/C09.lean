import LunaVerif.Lemmas.C09Stage
import LunaVerif.Lemmas.C09BlockReq
import LunaVerif.Lemmas.C09DistReq
import LunaVerif.Lemmas.C09RomCorrect
import LunaVerif.Model.Usb2.DescriptorMux
/-!
# C09 — GET_DESCRIPTOR returns exactly the requested descriptor bytes

"For any descriptor collection (including non-consecutive indices) and either descriptor handler
(block-RAM ROM or the block-RAM-free variant), and any request (type, index, wLength) read in
max-packet-size pieces, the concatenated data stage equals the first min(wLength, descriptor length)
bytes of that descriptor, each packet is at most the max packet size, and the stage ends with a short
packet or, when the total is a non-zero multiple of the packet size below wLength, with a
zero-length packet.  Requests for descriptors that do not exist are STALLed without data."

The specification vocabulary (`dataStage`, `specResponse`, `respTrace`, `hostRead`) is in
`Props/C09Spec.lean`.  The statement is split the way the gateware is:

* packet level (`block_packet_exact`, `dist_packet_exact`): started from an idle state with
  `value`/`length`/`start_position` held, the model's whole output trace, for *every* `tx.ready`
  pattern, is a few quiet cycles followed by the abstract transmitter's trace of
  `specResponse` — the right chunk, a single ZLP pulse, or a single STALL pulse without `valid`;
* data-stage level (`datastage_exact`): the host's in-order read (one IN per packet at
  `start_position = k·mps`, as `StandardRequestHandler` advances it on ACK) over responses that meet
  `specResponse` yields exactly `dataStage d wLength mps`, whose concatenation is `d.take wLength`
  (`dataStage_concat`) and whose packets are at most `mps` long (`dataStage_packet_le`).

Max packet sizes are the four USB 2.0 allows for a control endpoint (8, 16, 32, 64).
-/
namespace LunaVerif.Desc

/-- the descriptor a wValue names. -/
def descrBytes (coll : Collection) (ty idx : Nat) : Option (List Nat) := (find? coll ty idx).map (·.bytes)

/-- the block handler for a collection (`GetDescriptorHandlerBlock(collection, max_packet_length)`). -/
def blockOf (coll : Collection) (mps : Nat) : Block.Config := ⟨Rom.layout coll, mps⟩

/-- the distributed handler for a collection of fixed descriptors. -/
def distOf (coll : Collection) (mps : Nat) : Dist.Config :=
  ⟨coll.map (fun d => ⟨key d, ⟨d.bytes⟩, some d.bytes.length⟩), mps⟩

/-- no request in flight in the distributed handler: no `send_zlp`, every generator idle with its
registered `start` low. -/
def Dist.Quiescent (c : Dist.Config) (s : Dist.State) : Prop :=
  s.sendZlp = false ∧ s.gens.length = c.entries.length ∧ ∀ g ∈ s.gens, g.1.fsm = .idle ∧ g.2 = false

/-! ## The specification's data stage -/

theorem chunks_flatten (l : List Nat) (mps : Nat) :
    ∀ n, ((List.range n).map (fun k => (l.drop (k * mps)).take mps)).flatten = l.take (n * mps) := by
  intro n
  induction n with
  | zero => simp
  | succ n ih =>
    rw [List.range_succ, List.map_append, List.flatten_append, ih]
    simp only [List.map_cons, List.map_nil, List.flatten_cons, List.flatten_nil, List.append_nil]
    rw [Nat.succ_mul, List.take_add]

/-- **concatenation**: the packets of the data stage concatenate to the first `wLength` bytes. -/
theorem dataStage_concat (d : List Nat) (wLength mps : Nat) (hm : 0 < mps) :
    (dataStage d wLength mps).flatten = d.take wLength := by
  unfold dataStage
  simp only [List.flatten_append]
  have hz : (if min wLength d.length ≠ 0 ∧ min wLength d.length % mps = 0 ∧ min wLength d.length < wLength
      then [([] : List Nat)] else []).flatten = [] := by split <;> simp
  rw [hz, List.append_nil]
  have := chunks_flatten (d.take wLength) mps ((min wLength d.length + mps - 1) / mps)
  unfold packetAt
  rw [this]
  apply List.take_of_length_le
  rw [List.length_take]
  have h1 : (min wLength d.length + mps - 1) / mps * mps + (min wLength d.length + mps - 1) % mps
      = min wLength d.length + mps - 1 := by
    rw [Nat.mul_comm]; exact Nat.div_add_mod _ _
  have h2 := Nat.mod_lt (min wLength d.length + mps - 1) hm
  omega

/-- **packet size**: every packet of the data stage is at most `mps` long. -/
theorem dataStage_packet_le (d : List Nat) (wLength mps : Nat) :
    ∀ p ∈ dataStage d wLength mps, p.length ≤ mps := by
  intro p hp
  unfold dataStage at hp
  rw [List.mem_append] at hp
  rcases hp with hp | hp
  · rw [List.mem_map] at hp
    obtain ⟨k, _, rfl⟩ := hp
    rw [packetAt_length]; omega
  · split at hp
    · simp at hp; subst hp; simp
    · simp at hp

/-- **data stage** (for any response function that meets the packet-level specification on the
offsets an in-order read visits): the host's read is exactly `dataStage`. -/
theorem datastage_exact (resp : Nat → Response) (d : List Nat) (wLength mps fuel : Nat)
    (hm : mps = 8 ∨ mps = 16 ∨ mps = 32 ∨ mps = 64)
    (hw : 0 < wLength) (hd : 0 < d.length) (h11 : min wLength d.length < 2048)
    (hresp : ∀ k, k * mps ≤ min wLength d.length → k * mps < wLength →
      resp (k * mps) = specResponse (some d) wLength mps (k * mps))
    (hfuel : (min wLength d.length + mps - 1) / mps + 1 ≤ fuel) :
    hostRead resp mps wLength fuel 0 0 = (dataStage d wLength mps).map Response.ofPacket := by
  rw [dataStage_map]
  have := hostRead_from resp d wLength mps fuel hm hw hd h11 hresp
    ((min wLength d.length + mps - 1) / mps) 0 (by omega) (Or.inl rfl) hfuel
  simpa using this

/-- in particular over the specification's own responses. -/
theorem datastage_exact_spec (d : List Nat) (wLength mps fuel : Nat)
    (hm : mps = 8 ∨ mps = 16 ∨ mps = 32 ∨ mps = 64)
    (hw : 0 < wLength) (hd : 0 < d.length) (h11 : min wLength d.length < 2048)
    (hfuel : (min wLength d.length + mps - 1) / mps + 1 ≤ fuel) :
    hostRead (specResponse (some d) wLength mps) mps wLength fuel 0 0
      = (dataStage d wLength mps).map Response.ofPacket :=
  datastage_exact _ d wLength mps fuel hm hw hd h11 (fun _ _ _ => rfl) hfuel

/-- an absent descriptor: the read is a single STALL. -/
theorem datastage_stall_when_absent (wLength mps fuel : Nat) :
    hostRead (specResponse none wLength mps) mps wLength (fuel + 1) 0 0 = [.stall] := by
  simp [hostRead, specResponse]

example : dataStage [1, 2, 3, 4, 5, 6, 7, 8, 9, 10, 11, 12, 13, 14, 15, 16] 0xFFFF 8
    = [[1, 2, 3, 4, 5, 6, 7, 8], [9, 10, 11, 12, 13, 14, 15, 16], []] := by decide
example : dataStage [1, 2, 3, 4, 5, 6, 7, 8, 9, 10, 11, 12, 13, 14, 15, 16] 16 8
    = [[1, 2, 3, 4, 5, 6, 7, 8], [9, 10, 11, 12, 13, 14, 15, 16]] := by decide
example : dataStage [1, 2, 3, 4, 5, 6, 7, 8, 9, 10] 255 8 = [[1, 2, 3, 4, 5, 6, 7, 8], [9, 10]] := by decide

/-! ## Block-ROM handler -/

/-- **block_packet_exact**, for every `wellFormed` collection (the constructor preconditions:
non-empty, distinct (type, index), 8-bit fields, non-empty byte strings, ROM below 64 KiB).  The ROM
side is `rom_lookup_correct` (`Lemmas/C09RomCorrect.lean`): the two pointer hops over the ROM
generated by `Rom.layout` reach an aligned entry word carrying the length and the bytes of the
descriptor if it is present, and are refused if it is absent.

From any idle state, for every `tx.ready` pattern `rs`, a request at an in-order offset
`p ≤ min wLength |d|` is answered, after one to four quiet cycles, with the abstract transmitter's
trace of `specResponse`: the chunk `d[p .. p+mps) ∩ [0, wLength)`, or a one-cycle ZLP at the end of
the data, or — descriptor absent — a one-cycle STALL and never `valid`. -/
theorem block_packet_exact (coll : Collection) (mps : Nat) (s0 : Block.State)
    (ty idx l p : Nat) (rs : List Bool)
    (hwf : wellFormed coll = true)
    (hm : mps = 8 ∨ mps = 16 ∨ mps = 32 ∨ mps = 64)
    (hpw : 2 ≤ (Rom.layout coll).maxLen)
    (hty : ty < 256) (hidx : idx < 256) (hl : l < 65536)
    (h0 : s0.fsm = .idle)
    (hp : ∀ d, descrBytes coll ty idx = some d → p ≤ min l d.length) :
    ∃ lat, 1 ≤ lat ∧ lat ≤ 4 ∧
      Block.run (blockOf coll mps) s0 (Block.reqInputs (ty * 256 + idx) l p rs)
        = respTrace lat (specResponse (descrBytes coll ty idx) l mps p) rs := by
  have hlk : lookupOk (Rom.layout coll) coll ty idx = true := lookupOk_layout coll hwf ty idx hidx
  have hmps : 0 < mps ∧ mps < 65536 := by omega
  have hposW : 2 ≤ (blockOf coll mps).img.posW := by
    show 2 ≤ bitsFor (Rom.layout coll).maxLen
    unfold bitsFor
    rw [if_neg (by omega)]
    have : 1 ≤ Nat.log2 (Rom.layout coll).maxLen := by
      rw [Nat.le_log2 (by omega)]; omega
    omega
  unfold descrBytes at hp ⊢
  cases hf : find? coll ty idx with
  | some d =>
    have hp' := hp d.bytes (by rw [hf]; rfl)
    obtain ⟨w, hpres⟩ := Block.present_of_lookupOk (blockOf coll mps) coll ty idx d hlk hf
    simp only [Option.map_some, specResponse]
    by_cases hlt : p < min l d.bytes.length
    · refine ⟨4, by omega, by omega, ?_⟩
      rw [if_pos hlt]
      exact Block.block_data (blockOf coll mps) s0 ty idx l p w d.bytes hty hidx hpres h0 hmps.1 hmps.2 hl
        hposW hlt rs
    · rw [if_neg hlt]
      exact Block.block_zlp (blockOf coll mps) s0 ty idx l p w d.bytes hty hidx hpres h0 hmps.2 hl hp' hlt rs
  | none =>
    have hok := hlk
    unfold lookupOk at hok
    rw [hf] at hok
    have hnone : (blockOf coll mps).img.lookup ty idx = none := by
      cases hlk : (Rom.layout coll).lookup ty idx with
      | none => exact hlk
      | some w => rw [hlk] at hok; simp at hok
    obtain ⟨lat, hlat1, hlat, h⟩ := Block.block_stall (blockOf coll mps) s0 ty idx l p hty hidx hnone h0 rs
    exact ⟨lat, hlat1, by omega, h⟩

/-! ## Distributed (block-RAM-free) handler, with the repair of F6 -/

theorem find_index (coll : List Descr) (P : Descr → Bool) (d : Descr) (h : coll.find? P = some d) :
    ∃ j : Nat, coll[j]? = some d ∧ P d = true ∧ ∀ (k : Nat) (e : Descr), k < j → coll[k]? = some e → P e = false := by
  induction coll with
  | nil => simp at h
  | cons a l ih =>
    rw [List.find?_cons] at h
    cases hpa : P a with
    | true =>
      rw [hpa] at h
      simp only [Option.some.injEq] at h
      subst h
      exact ⟨0, by simp, hpa, fun (k : Nat) _ (hk : k < 0) _ => absurd hk (Nat.not_lt_zero k)⟩
    | false =>
      rw [hpa] at h
      obtain ⟨j, h1, h2, h3⟩ := ih h
      refine ⟨j + 1, by simpa using h1, h2, ?_⟩
      intro k e hk hget
      cases k with
      | zero => simp at hget; subst hget; exact hpa
      | succ k => exact h3 k e (by omega) (by simpa using hget)

theorem key_ne_of_not_match (e : Descr) (ty idx : Nat) (hi : idx < 256) (he : e.idx < 256)
    (h : (e.ty == ty && e.idx == idx) = false) : key e ≠ ty * 256 + idx := by
  intro hk
  unfold key at hk
  have : e.ty = ty ∧ e.idx = idx := by omega
  simp [this.1, this.2] at h

/-- **dist_packet_exact** (full — no ROM, no assumption beyond the constructor's): from a quiescent
state, for every `tx.ready` pattern, an in-order request (`p ≤ min wLength |d|`, and `p < wLength`
as long as the host still asks) is answered after at most two quiet cycles with the abstract
transmitter's trace of `specResponse`; an absent descriptor with a STALL pulse in the start cycle
and never `valid`. -/
theorem dist_packet_exact (coll : Collection) (mps : Nat) (s0 : Dist.State)
    (ty idx l p : Nat) (rs : List Bool)
    (hm : mps = 8 ∨ mps = 16 ∨ mps = 32 ∨ mps = 64)
    (hwf : ∀ d ∈ coll, d.idx < 256)
    (hidx : idx < 256) (hl : l < 65536)
    (h0 : Dist.Quiescent (distOf coll mps) s0)
    (hp : ∀ d, descrBytes coll ty idx = some d → p ≤ min l d.length ∧ p < l) :
    ∃ lat, lat ≤ 2 ∧
      Dist.run (distOf coll mps) s0 (Dist.reqInputs (ty * 256 + idx) l p rs)
        = respTrace lat (specResponse (descrBytes coll ty idx) l mps p) rs := by
  have hmps : 0 < mps ∧ mps < 65536 := by omega
  obtain ⟨hz, hlen, hall⟩ := h0
  unfold descrBytes at hp ⊢
  cases hf : find? coll ty idx with
  | some d =>
    obtain ⟨hp1, hp2⟩ := hp d.bytes (by rw [hf]; rfl)
    obtain ⟨j, hj, hP, hbefore⟩ := find_index coll _ d hf
    have hkey : key d = ty * 256 + idx := by
      simp only [Bool.and_eq_true, beq_iff_eq] at hP
      unfold key; rw [hP.1, hP.2]
    let e : Dist.Entry := ⟨key d, ⟨d.bytes⟩, some d.bytes.length⟩
    have hs : Dist.Selects (distOf coll mps) (ty * 256 + idx) j e := by
      refine ⟨?_, hkey, ?_⟩
      · show (coll.map _)[j]? = _
        rw [List.getElem?_map, hj]; rfl
      · intro k e' hk hget
        have hget' : (coll.map (fun d => (⟨key d, ⟨d.bytes⟩, some d.bytes.length⟩ : Dist.Entry)))[k]? = some e' := hget
        rw [List.getElem?_map] at hget'
        cases hck : coll[k]? with
        | none => rw [hck] at hget'; simp at hget'
        | some d' =>
          rw [hck] at hget'
          simp only [Option.map_some, Option.some.injEq] at hget'
          subst hget'
          exact key_ne_of_not_match d' ty idx hidx (hwf d' (List.mem_of_getElem? hck)) (hbefore k d' hk hck)
    have hjlt : j < s0.gens.length := by
      rw [hlen]; show j < (coll.map _).length
      rw [List.length_map]
      exact (List.getElem?_eq_some_iff.mp hj).1
    obtain ⟨⟨g0, sr⟩, hg⟩ : ∃ g, s0.gens[j]? = some g := ⟨s0.gens[j], List.getElem?_eq_getElem hjlt⟩
    obtain ⟨hgi, hsr⟩ := hall (g0, sr) (List.mem_of_getElem? hg)
    simp only at hgi hsr
    subst hsr
    have hv : Dist.View s0 j g0 false false := ⟨hg, hz⟩
    simp only [Option.map_some, specResponse]
    by_cases hlt : p < min l d.bytes.length
    · refine ⟨2, by omega, ?_⟩
      rw [if_pos hlt]
      exact Dist.dist_data (distOf coll mps) s0 g0 _ l p j e hs hv hgi
        (fun n hn => by simp [e] at hn; omega) hmps.1 hmps.2 hl hlt rs
    · refine ⟨1, by omega, ?_⟩
      rw [if_neg hlt]
      exact Dist.dist_zlp (distOf coll mps) s0 g0 _ l p j d.bytes.length e hs hv hgi rfl (by omega) rs
  | none =>
    refine ⟨0, by omega, ?_⟩
    simp only [Option.map_none, specResponse]
    apply Dist.dist_stall _ _ _ _ _ _ hz
    intro e' he'
    have he'' : e' ∈ coll.map (fun d => (⟨key d, ⟨d.bytes⟩, some d.bytes.length⟩ : Dist.Entry)) := he'
    rw [List.mem_map] at he''
    obtain ⟨d', hd', rfl⟩ := he''
    have := List.find?_eq_none.mp hf d' hd'
    exact key_ne_of_not_match d' ty idx hidx (hwf d' hd') (by simpa using this)

/-! ## STALL without data -/

theorem respTrace_stall_no_valid (lat : Nat) (rs : List Bool) :
    ∀ b ∈ respTrace lat .stall rs, b.valid = false := by
  unfold respTrace bodyTrace
  induction lat generalizing rs with
  | zero =>
    intro b hb
    cases rs with
    | nil => simp [delayed, pulseTrace] at hb
    | cons r rs =>
      simp only [delayed, pulseTrace, List.mem_cons, idleTrace, List.mem_map] at hb
      rcases hb with rfl | ⟨_, _, rfl⟩ <;> rfl
  | succ n ih =>
    intro b hb
    cases rs with
    | nil => simp [delayed] at hb
    | cons r rs =>
      simp only [delayed, List.mem_cons] at hb
      rcases hb with rfl | hb
      · rfl
      · exact ih rs b hb

/-- **stall_without_data_when_absent**, block handler. -/
theorem stall_without_data_when_absent_block (coll : Collection) (mps : Nat) (s0 : Block.State)
    (ty idx l p : Nat) (rs : List Bool)
    (hwf : wellFormed coll = true)
    (hm : mps = 8 ∨ mps = 16 ∨ mps = 32 ∨ mps = 64) (hpw : 2 ≤ (Rom.layout coll).maxLen)
    (hty : ty < 256) (hidx : idx < 256) (hl : l < 65536) (h0 : s0.fsm = .idle)
    (habs : descrBytes coll ty idx = none) :
    (∃ lat, 1 ≤ lat ∧ lat ≤ 4 ∧ Block.run (blockOf coll mps) s0 (Block.reqInputs (ty * 256 + idx) l p rs)
        = respTrace lat .stall rs)
    ∧ ∀ b ∈ Block.run (blockOf coll mps) s0 (Block.reqInputs (ty * 256 + idx) l p rs), b.valid = false := by
  obtain ⟨lat, hlat1, hlat, h⟩ := block_packet_exact coll mps s0 ty idx l p rs hwf hm hpw hty hidx hl h0
    (by intro d hd; rw [habs] at hd; simp at hd)
  rw [habs] at h
  simp only [specResponse] at h
  exact ⟨⟨lat, hlat1, hlat, h⟩, by rw [h]; exact respTrace_stall_no_valid lat rs⟩

/-- **stall_without_data_when_absent**, distributed handler. -/
theorem stall_without_data_when_absent_dist (coll : Collection) (mps : Nat) (s0 : Dist.State)
    (ty idx l p : Nat) (rs : List Bool)
    (hm : mps = 8 ∨ mps = 16 ∨ mps = 32 ∨ mps = 64)
    (hwf : ∀ d ∈ coll, d.idx < 256) (hidx : idx < 256) (hl : l < 65536)
    (h0 : Dist.Quiescent (distOf coll mps) s0)
    (habs : descrBytes coll ty idx = none) :
    Dist.run (distOf coll mps) s0 (Dist.reqInputs (ty * 256 + idx) l p rs) = respTrace 0 .stall rs
    ∧ ∀ b ∈ Dist.run (distOf coll mps) s0 (Dist.reqInputs (ty * 256 + idx) l p rs), b.valid = false := by
  obtain ⟨lat, hlat, h⟩ := dist_packet_exact coll mps s0 ty idx l p rs hm hwf hidx hl h0
    (by intro d hd; rw [habs] at hd; simp at hd)
  rw [habs] at h
  simp only [specResponse] at h
  have : lat = 0 ∨ lat = 1 ∨ lat = 2 := by omega
  have hq : Dist.run (distOf coll mps) s0 (Dist.reqInputs (ty * 256 + idx) l p rs) = respTrace 0 .stall rs := by
    unfold descrBytes at habs
    cases hf : find? coll ty idx with
    | some d => rw [hf] at habs; simp at habs
    | none =>
      apply Dist.dist_stall _ _ _ _ _ _ h0.1
      intro e' he'
      have he'' : e' ∈ coll.map (fun d => (⟨key d, ⟨d.bytes⟩, some d.bytes.length⟩ : Dist.Entry)) := he'
      rw [List.mem_map] at he''
      obtain ⟨d', hd', rfl⟩ := he''
      have := List.find?_eq_none.mp hf d' hd'
      exact key_ne_of_not_match d' ty idx hidx (hwf d' hd') (by simpa using this)
  exact ⟨hq, by rw [hq]; exact respTrace_stall_no_valid 0 rs⟩

/-! ## Non-vacuity: a concrete collection with a sparse string index (0xFE) -/

/-- device (18 bytes), configuration (16 bytes = 2 packets of 8), language string, string 0xFE (8 bytes). -/
def sample : Collection :=
  [⟨1, 0, [18, 1, 0, 2, 0, 0, 0, 64, 9, 18, 1, 0, 0, 0, 1, 2, 0, 1]⟩,
   ⟨3, 0, [4, 3, 9, 4]⟩,
   ⟨3, 0xFE, [8, 3, 65, 0, 66, 0, 67, 0]⟩,
   ⟨2, 0, [9, 2, 16, 0, 1, 1, 0, 128, 50, 7, 5, 129, 2, 64, 0, 0]⟩]

-- the collection satisfies the hypotheses of `block_packet_exact` / `rom_lookup_correct`
set_option maxRecDepth 100000 in
example : wellFormed sample = true ∧ 2 ≤ (Rom.layout sample).maxLen := by decide +kernel
-- `lookupOk` is non-trivial: it holds on the generated ROM for present and absent wValues …
set_option maxRecDepth 100000 in
example : lookupOk (Rom.layout sample) sample 3 0xFE = true := by decide +kernel
set_option maxRecDepth 100000 in
example : lookupOk (Rom.layout sample) sample 3 1 = true ∧ lookupOk (Rom.layout sample) sample 9 0 = true := by
  decide +kernel
-- … and fails against a collection whose descriptor differs from the ROM's in one byte
set_option maxRecDepth 100000 in
example : lookupOk (Rom.layout sample) [⟨3, 0xFE, [8, 3, 65, 0, 66, 0, 67, 1]⟩] 3 0xFE = false := by decide +kernel
-- the 8-byte string read with wLength 255 at mps 8: one full packet, then (start_position 8) a ZLP
set_option maxRecDepth 100000 in
example : Block.run (blockOf sample 8) Block.init
      (Block.reqInputs (3 * 256 + 0xFE) 255 8 [true, true, true, true, true, false, true])
    = respTrace 4 .zlp [true, true, true, true, true, false, true] := by decide +kernel
set_option maxRecDepth 100000 in
example : Dist.run (distOf sample 8) (Dist.init (distOf sample 8))
      (Dist.reqInputs (3 * 256 + 0xFE) 255 8 [true, true, true, true])
    = respTrace 1 .zlp [true, true, true, true] := by decide +kernel
set_option maxRecDepth 100000 in
example : Dist.run (distOf sample 8) (Dist.init (distOf sample 8))
      (Dist.reqInputs (3 * 256 + 0) 2 0 [true, false, true, true, false, true, true])
    = respTrace 2 (.data [4, 3]) [true, false, true, true, false, true, true] := by decide +kernel

end LunaVerif.Desc
