import LunaVerif.Model.Usb2.DescriptorMux
/-! # C09 (work in progress: theorems follow) -/
namespace LunaVerif.Desc
theorem c09_placeholder : (1 : Nat) = 1 := rfl
end LunaVerif.Desc
