import LunaVerif.Model.Memory.TxnFifo
/-!
# C18 — Transactional FIFO behaves as a commit/rollback queue

"The FIFO behaves like a bounded queue in which writes become readable only after a write commit and
are erased by a write discard, and reads are finalised by a read commit and undone by a read discard;
no entry is lost, duplicated or reordered. 'empty' is true exactly when no committed, unread entry
remains, 'full' exactly when no further write fits, and 'space available' equals the capacity minus
the entries held (including uncommitted writes and un-finalised reads)."

Specification: `Queue` — three lists (reads not yet finalised, committed unread entries, uncommitted
writes) and a capacity.  Theorem `fifo_refines_queue`: for every depth, every entry type and every
input history in which commit and discard are never asserted together on one side, the four outputs
of the pointer/memory model equal those of the queue (read_data is compared when not empty).
`queue_conserves` states the no-loss/no-duplication/no-reordering reading on the queue itself.
-/
namespace LunaVerif.TxnFifo

/-! ## The specification -/

structure Queue (α : Type) where
  R : List α     -- read but not finalised (oldest first)
  C : List α     -- committed and unread
  W : List α     -- written, not committed

def Queue.held (q : Queue α) : Nat := q.R.length + q.C.length + q.W.length

/-- What a user of the FIFO can observe: the next entry (only when there is one), the flags and the
free space. -/
structure Obs (α : Type) where
  head  : Option α
  empty : Bool
  full  : Bool
  space : Nat
deriving DecidableEq, Repr

def obs (o : Out α) : Obs α := ⟨if o.empty then none else some o.rdata, o.empty, o.full, o.space⟩

def Queue.obs (depth : Nat) (q : Queue α) : Obs α :=
  ⟨q.C.head?, q.C.isEmpty, q.held == depth, depth - q.held⟩

/-- The environment precondition: per side, commit and discard are not requested together. -/
def Legal (i : In α) : Prop := ¬(i.wcommit = true ∧ i.wdiscard = true) ∧ ¬(i.rcommit = true ∧ i.rdiscard = true)

/-- One cycle of the commit/rollback queue.  A write is performed when requested and not full, a read
when requested and not empty (both judged on the state before the cycle).  Write side: discard erases
the uncommitted writes (including one requested in the same cycle); commit makes the *earlier* writes
readable, a write requested in the same cycle starts the next transaction.  Read side: discard returns
the un-finalised reads to the front of the queue (a read requested in the same cycle is dropped);
commit finalises the *earlier* reads, a read performed in the same cycle starts the next transaction. -/
def Queue.step (depth : Nat) (q : Queue α) (i : In α) : Queue α :=
  let doW := i.wen && !(q.held == depth)
  let doR := i.ren && !q.C.isEmpty
  let taken := if doR then q.C.take 1 else []
  let rest  := if doR then q.C.drop 1 else q.C
  let app   := if doW then [i.wdata] else []
  let (R', C') := if i.rdiscard then ([], q.R ++ q.C) else ((if i.rcommit then [] else q.R) ++ taken, rest)
  let (Cadd, W') := if i.wdiscard then ([], []) else if i.wcommit then (q.W, app) else ([], q.W ++ app)
  ⟨R', C' ++ Cadd, W'⟩

def Queue.run (depth : Nat) : Queue α → List (In α) → List (Obs α)
  | _, [] => []
  | q, i :: is => q.obs depth :: Queue.run depth (q.step depth i) is

def Queue.nil : Queue α := ⟨[], [], []⟩

/-! ## Pointer arithmetic -/

/-- `n` applications of `nxt` to a pointer `p ≤ depth` (for `n ≤ depth + 1`), in closed form. -/
def adv (depth p n : Nat) : Nat := if p + n ≤ depth then p + n else p + n - (depth + 1)

theorem adv_zero {d p : Nat} (hp : p ≤ d) : adv d p 0 = p := by simp [adv, hp]

theorem adv_le {d p n : Nat} (hp : p ≤ d) (hn : n ≤ d + 1) : adv d p n ≤ d := by
  unfold adv; split <;> omega

theorem nxt_adv {d p n : Nat} (hp : p ≤ d) (hn : n ≤ d) : nxt d (adv d p n) = adv d p (n + 1) := by
  unfold nxt adv; split <;> split <;> split <;> omega

theorem adv_adv {d p a b : Nat} (hp : p ≤ d) (hab : a + b ≤ d + 1) :
    adv d (adv d p a) b = adv d p (a + b) := by
  unfold adv; split <;> split <;> split <;> omega

theorem adv_inj {d p j k : Nat} (_hp : p ≤ d) (hj : j ≤ d) (hk : k ≤ d) (h : adv d p j = adv d p k) : j = k := by
  unfold adv at h; split at h <;> split at h <;> omega

/-- `n` consecutive memory entries starting at pointer `p`, following `nxt`. -/
def seg (d : Nat) (mem : Nat → α) : Nat → Nat → List α
  | _, 0 => []
  | p, n + 1 => mem p :: seg d mem (nxt d p) n

theorem seg_length (d : Nat) (mem : Nat → α) (p n : Nat) : (seg d mem p n).length = n := by
  induction n generalizing p with
  | zero => rfl
  | succ n ih => simp [seg, ih]

theorem nxt_eq_adv_one {d p : Nat} (hp : p ≤ d) : nxt d p = adv d p 1 := by
  have := nxt_adv (d := d) (p := p) (n := 0) hp (by omega)
  rwa [adv_zero hp] at this

theorem seg_append {d : Nat} (mem : Nat → α) {p a b : Nat} (hp : p ≤ d) (hab : a + b ≤ d + 1) :
    seg d mem p (a + b) = seg d mem p a ++ seg d mem (adv d p a) b := by
  induction a generalizing p with
  | zero => simp [seg, adv_zero hp]
  | succ a ih =>
    have h1 : nxt d p ≤ d := by rw [nxt_eq_adv_one hp]; exact adv_le hp (by omega)
    have h2 : adv d (nxt d p) a = adv d p (a + 1) := by
      rw [nxt_eq_adv_one hp, adv_adv hp (by omega)]; congr 1; omega
    have : a + 1 + b = (a + b) + 1 := by omega
    rw [this]
    simp only [seg, List.cons_append]
    rw [ih h1 (by omega), h2]

theorem seg_snoc {d : Nat} (mem : Nat → α) {p n : Nat} (hp : p ≤ d) (hn : n ≤ d) :
    seg d mem p (n + 1) = seg d mem p n ++ [mem (adv d p n)] := by
  rw [seg_append mem hp (by omega)]; rfl

/-- Writing at offset `h` does not disturb the `n ≤ h` entries before it. -/
theorem seg_upd {d : Nat} (mem : Nat → α) (v : α) {p n h : Nat} (hp : p ≤ d) (hn : n ≤ h) (hh : h ≤ d) :
    seg d (upd mem (adv d p h) v) p n = seg d mem p n := by
  induction n generalizing p h with
  | zero => rfl
  | succ n ih =>
    have h1 : nxt d p ≤ d := by rw [nxt_eq_adv_one hp]; exact adv_le hp (by omega)
    have h2 : adv d p h = adv d (nxt d p) (h - 1) := by
      rw [nxt_eq_adv_one hp, adv_adv hp (by omega)]; congr 1; omega
    have h3 : p ≠ adv d p h := by
      intro e
      have := adv_inj (j := 0) (k := h) hp (by omega) hh (by rw [adv_zero hp]; exact e)
      omega
    simp only [seg]
    congr 1
    · simp [upd, h3]
    · rw [h2]; exact ih h1 (by omega) (by omega)

/-- A middle piece of a segment is the segment starting at the advanced pointer. -/
theorem seg_sub {d : Nat} (mem : Nat → α) {p : Nat} (L1 L2 L3 : List α) (hp : p ≤ d)
    (hlen : L1.length + L2.length + L3.length ≤ d + 1)
    (h : seg d mem p (L1.length + L2.length + L3.length) = L1 ++ L2 ++ L3) :
    seg d mem (adv d p L1.length) L2.length = L2 := by
  rw [seg_append mem hp (by omega), seg_append mem hp (by omega), List.append_assoc, List.append_assoc] at h
  have h1 := List.append_inj h (by simp [seg_length])
  have h2 := List.append_inj h1.2 (by simp [seg_length])
  exact h2.1

/-! ## The refinement relation -/

/-- The pointer/memory state `s` represents the queue `q`: the pointers are the committed read pointer
advanced by the list lengths (cyclic order committed_read ≤ current_read ≤ committed_write ≤
current_write < committed_read + depth + 1), the memory holds the three lists consecutively from the
committed read pointer, and the read data register holds the oldest unread entry whenever there is
one. -/
structure Rel (d : Nat) (s : State α) (q : Queue α) : Prop where
  hcr  : s.cr ≤ d
  hrr  : s.rr = adv d s.cr q.R.length
  hcw  : s.cw = adv d s.cr (q.R.length + q.C.length)
  hww  : s.ww = adv d s.cr q.held
  hlen : q.held ≤ d
  hmem : seg d s.mem s.cr q.held = q.R ++ q.C ++ q.W
  hrd  : q.C ≠ [] → q.C.head? = some s.rdata

theorem rel_full {d : Nat} {s : State α} {q : Queue α} (h : Rel d s q) : full d s = (q.held == d) := by
  have := h.hcr; have := h.hlen
  simp only [full, h.hww, nxt, adv]
  grind

theorem rel_empty {d : Nat} {s : State α} {q : Queue α} (h : Rel d s q) : empty s = q.C.isEmpty := by
  have := h.hcr; have := h.hlen
  have hl : q.C.isEmpty = (q.C.length == 0) := by cases q.C <;> simp
  simp only [empty, h.hrr, h.hcw, adv, hl, Queue.held] at *
  grind

theorem rel_space {d : Nat} {s : State α} {q : Queue α} (h : Rel d s q) : space d s = d - q.held := by
  have := h.hcr; have := h.hlen
  simp only [space, rel_full h, h.hww, adv]
  grind

theorem rel_obs {d : Nat} {s : State α} {q : Queue α} (h : Rel d s q) : obs (outOf d s) = q.obs d := by
  simp only [obs, outOf, Queue.obs, rel_full h, rel_empty h, rel_space h]
  congr 1
  cases hc : q.C with
  | nil => simp
  | cons x xs =>
    have := h.hrd (by simp [hc])
    simp [hc] at this ⊢
    exact this.symm

/-- The memory after the (possible) write of this cycle, seen from the committed read pointer: the
held entries followed by the entry just written. -/
theorem mem_after_write {d : Nat} {s : State α} {q : Queue α} (h : Rel d s q) (doW : Bool) (v : α)
    (hw : doW = true → q.held < d) :
    seg d (if doW then upd s.mem s.ww v else s.mem) s.cr (q.held + (if doW then [v] else []).length)
      = q.R ++ q.C ++ q.W ++ (if doW then [v] else []) := by
  cases doW with
  | false => simpa using h.hmem
  | true =>
    have hlt := hw rfl
    simp only [if_true, List.length_singleton]
    rw [seg_snoc _ h.hcr (by omega), h.hww, seg_upd _ _ h.hcr (Nat.le_refl _) (by omega), h.hmem]
    simp [upd]


/-- Common shape of all nine legal control combinations: the new queue `⟨R', C', W'⟩` is a middle
piece (after `L1`, before `L3`) of the held entries followed by the entry written in this cycle
(`app`, empty or one entry; `mem'` differs from `mem` at most at the write address `adv d cr h`). -/
theorem rel_intro {d cr h : Nat} {mem mem' : Nat → α} {s' : State α}
    (L1 R' C' W' L3 app : List α)
    (hcr : cr ≤ d) (hh : h + app.length ≤ d)
    (hmw : ∀ a, a ≠ adv d cr h → mem' a = mem a)
    (hsum : L1.length + (R'.length + C'.length + W'.length) + L3.length = h + app.length)
    (Hbig : seg d mem' cr (L1.length + (R'.length + C'.length + W'.length) + L3.length) = L1 ++ (R' ++ C' ++ W') ++ L3)
    (hC : C' ≠ [] → L1.length + R'.length + C'.length ≤ h)
    (e1 : s'.cr = adv d cr L1.length) (e2 : s'.rr = adv d cr (L1.length + R'.length))
    (e3 : s'.cw = adv d cr (L1.length + R'.length + C'.length))
    (e4 : s'.ww = adv d cr (L1.length + R'.length + C'.length + W'.length))
    (e5 : s'.mem = mem') (e6 : s'.rdata = mem s'.rr) :
    Rel d s' ⟨R', C', W'⟩ := by
  have hcr' : s'.cr ≤ d := by rw [e1]; exact adv_le hcr (by omega)
  have hm := seg_sub _ L1 (R' ++ C' ++ W') L3 hcr (by simp only [List.length_append]; omega)
    (by simpa only [List.length_append] using Hbig)
  simp only [List.length_append] at hm
  refine ⟨hcr', ?_, ?_, ?_, ?_, ?_, ?_⟩ <;> dsimp only [Queue.held]
  · rw [e2, e1, adv_adv hcr (by omega)]
  · rw [e3, e1, adv_adv hcr (by omega)]; congr 1; omega
  · rw [e4, e1, adv_adv hcr (by omega)]; congr 1; omega
  · omega
  · rw [e5, e1]; exact hm
  · intro hne
    have hle := hC hne
    have hm2 := seg_sub mem' (p := adv d cr L1.length) R' C' W'
      (adv_le hcr (by omega)) (by omega) hm
    rw [adv_adv hcr (by omega)] at hm2
    cases C' with
    | nil => exact absurd rfl hne
    | cons x xs =>
      simp only [List.length_cons, seg, List.cons.injEq] at hm2 hle
      have hne2 : adv d cr (L1.length + R'.length) ≠ adv d cr h := by
        intro e
        have := adv_inj hcr (by omega) (by omega) e
        omega
      rw [e6, e2, List.head?_cons, ← hm2.1, hmw _ hne2]

set_option hygiene false in
/-- closes the obligations of `rel_intro` in one control case (`L1`, `L3` given) -/
local macro "fifo_case" L1:term:max L3:term:max : tactic => `(tactic|
  (refine rel_intro (mem := s.mem) (mem' := mem') $L1 _ _ _ $L3 app hcr hh hmw ?_ ?_ ?_ ?_ ?_ ?_ ?_ rfl rfl
   · simp only [List.length_append, List.length_nil]; omega
   · have e : ∀ n, n = R.length + (taken.length + rest.length) + W.length + app.length →
         seg d mem' s.cr n = R ++ (taken ++ rest) ++ W ++ app := by
       intro n hn; rw [hn]; exact Hbig
     rw [e _ (by simp only [List.length_append, List.length_nil]; omega)]
     simp only [List.append_assoc, List.nil_append, List.append_nil]
   · intro _; simp only [List.length_append, List.length_nil]; omega
   all_goals
     dsimp only
     first
     | exact hrrn.trans (congrArg _ (by first | rfl | (simp only [List.length_append, List.length_nil]; omega)))
     | exact hwwn.trans (congrArg _ (by first | rfl | (simp only [List.length_append, List.length_nil]; omega)))
     | exact hcw.trans (congrArg _ (by first | rfl | (simp only [List.length_append, List.length_nil]; omega)))
     | exact hww.trans (congrArg _ (by first | rfl | (simp only [List.length_append, List.length_nil]; omega)))
     | exact hrr.trans (congrArg _ (by first | rfl | (simp only [List.length_append, List.length_nil]; omega)))
     | exact Eq.trans (adv_zero hcr).symm (congrArg _ (by first | rfl | (simp only [List.length_append, List.length_nil])))))

theorem rel_step {d : Nat} {s : State α} {q : Queue α} {i : In α} (h : Rel d s q) (hl : Legal i) :
    Rel d (step d s i).1 (q.step d i) := by
  have hfull := rel_full h
  have hempty := rel_empty h
  have hcr := h.hcr; have hlen := h.hlen
  have hrr := h.hrr; have hcw := h.hcw; have hww := h.hww
  obtain ⟨wdata, wen, wcommit, wdiscard, ren, rcommit, rdiscard⟩ := i
  simp only [Legal] at hl
  -- the effective write / read of this cycle
  have hW : ∀ doW, doW = (wen && !(q.held == d)) → (doW = true → q.held < d) := by
    intro doW e t; subst e; simp at t; omega
  have hR : ∀ doR, doR = (ren && !q.C.isEmpty) → (doR = true → q.C ≠ []) := by
    intro doR e t; subst e; simp at t; simp [t]
  simp only [step, Queue.step, hfull, hempty]
  generalize hdW : (wen && !(q.held == d)) = doW at *
  generalize hdR : (ren && !q.C.isEmpty) = doR at *
  have hW := hW doW rfl
  have hR := hR doR rfl
  have Hbig := mem_after_write h doW wdata hW
  obtain ⟨R, C, W⟩ := q
  simp only [Queue.held] at *
  have htr : (if doR = true then C.take 1 else []) ++ (if doR = true then C.drop 1 else C) = C := by
    cases doR
    · simp
    · simp only [if_true]; exact List.take_append_drop 1 C
  have hwwn : (if doW = true then nxt d s.ww else s.ww)
      = adv d s.cr (R.length + C.length + W.length + (if doW = true then [wdata] else []).length) := by
    cases doW
    · simpa using hww
    · simp only [if_true, hww, List.length_singleton]; exact nxt_adv hcr (by have := hW rfl; omega)
  have hh : R.length + C.length + W.length + (if doW = true then [wdata] else []).length ≤ d := by
    cases doW
    · simpa using hlen
    · have := hW rfl; simp only [if_true, List.length_singleton]; omega
  have hmw : ∀ a, a ≠ adv d s.cr (R.length + C.length + W.length) →
      (if doW = true then upd s.mem s.ww wdata else s.mem) a = s.mem a := by
    intro a ha; rw [← hww] at ha; cases doW <;> simp [upd, ha]
  have hrrn : (if doR = true then nxt d s.rr else s.rr)
      = adv d s.cr (R.length + (if doR = true then C.take 1 else []).length) := by
    cases doR
    · simpa using hrr
    · have := hR rfl
      have : 0 < C.length := List.length_pos_iff.mpr this
      simp only [if_true, hrr, List.length_take]
      rw [nxt_adv hcr (by omega)]; congr 2; omega
  generalize (if doR = true then C.take 1 else []) = taken at *
  generalize (if doR = true then C.drop 1 else C) = rest at *
  generalize (if doW = true then [wdata] else []) = app at *
  generalize (if doW = true then upd s.mem s.ww wdata else s.mem) = mem' at *
  subst htr
  simp only [List.length_append] at *
  cases rdiscard <;> cases rcommit <;> cases wdiscard <;> cases wcommit <;>
    simp only [Bool.false_eq_true, if_true, if_false, and_self, and_true, not_true_eq_false,
      and_false, false_and] at hl ⊢
  · fifo_case [] []             -- nothing on either side
  · fifo_case [] []             -- write commit
  · fifo_case [] (W ++ app)     -- write discard
  · fifo_case R []              -- read commit
  · fifo_case R []              -- read commit, write commit
  · fifo_case R (W ++ app)      -- read commit, write discard
  · fifo_case [] []             -- read discard
  · fifo_case [] []             -- read discard, write commit
  · fifo_case [] (W ++ app)     -- read discard, write discard


theorem rel_init (d : Nat) (z : α) : Rel d (init z) Queue.nil := by
  refine ⟨Nat.zero_le _, ?_, ?_, ?_, Nat.zero_le _, rfl, fun h => absurd rfl h⟩ <;>
    simp [init, Queue.nil, Queue.held, adv]

/-! ## The theorems -/

theorem run_refines {d : Nat} {s : State α} {q : Queue α} (h : Rel d s q) (ins : List (In α))
    (hl : ∀ i ∈ ins, Legal i) : (run d s ins).map obs = Queue.run d q ins := by
  induction ins generalizing s q with
  | nil => rfl
  | cons i is ih =>
    simp only [run, Queue.run, List.map_cons]
    have h1 : obs (step d s i).2 = q.obs d := rel_obs h
    rw [h1, ih (rel_step h (hl i (by simp))) (fun j hj => hl j (by simp [hj]))]

/-- **C18**: for every depth, every entry type (width) and every input history that never asserts
commit and discard together on one side, the FIFO started from reset shows in every cycle exactly
what the commit/rollback queue shows: `empty`, `full`, `space_available = depth - held`, and (when not
empty) `read_data` = the oldest committed unread entry. -/
theorem fifo_refines_queue (d : Nat) (z : α) (ins : List (In α)) (hl : ∀ i ∈ ins, Legal i) :
    (run d (init z) ins).map obs = Queue.run d Queue.nil ins :=
  run_refines (rel_init d z) ins hl

/-- The represented queue never holds more than `depth` entries (so `space_available` is never
negative and `full` is exactly `held = depth`). -/
theorem rel_held_le {d : Nat} {s : State α} {q : Queue α} (h : Rel d s q) : q.held ≤ d := h.hlen

/-! ### The excluded combination: what commit together with discard is coded to do -/

/-- `write_commit` and `write_discard` in the same cycle *swap* the two write pointers (the commit
takes the current pointer, the discard takes the committed one). -/
theorem write_commit_and_discard_swaps (d : Nat) (s : State α) (i : In α)
    (hc : i.wcommit = true) (hd : i.wdiscard = true) :
    (step d s i).1.cw = s.ww ∧ (step d s i).1.ww = s.cw := by
  simp [step, hc, hd]

/-- `read_commit` and `read_discard` in the same cycle swap the two read pointers. -/
theorem read_commit_and_discard_swaps (d : Nat) (s : State α) (i : In α)
    (hc : i.rcommit = true) (hd : i.rdiscard = true) :
    (step d s i).1.cr = s.rr ∧ (step d s i).1.rr = s.cr := by
  simp [step, hc, hd]

/-- Why the combination is a precondition and not a case of the theorem: after one write followed by
write commit+discard, the written entry is readable (as after a commit) while `space_available`
reports the whole depth free (as after a discard), and the next write overwrites the readable entry:
the FIFO (depth 2) then shows 8 where 7 was committed.  No queue behaves like that. -/
theorem write_commit_and_discard_breaks_queue :
    (run 2 (init 0) [⟨7, true, false, false, false, false, false⟩,
                     ⟨0, false, true, true, false, false, false⟩,
                     ⟨0, false, false, false, false, false, false⟩,
                     ⟨8, true, false, false, false, false, false⟩,
                     ⟨0, false, false, false, false, false, false⟩,
                     ⟨0, false, false, false, false, false, false⟩]).map obs
      = [⟨none, true, false, 2⟩, ⟨none, true, false, 1⟩, ⟨some 7, false, false, 2⟩,
         ⟨some 7, false, false, 2⟩, ⟨some 7, false, false, 1⟩, ⟨some 8, false, false, 1⟩] := by
  decide

/-! ### Nothing is lost, duplicated or reordered (a statement about the queue itself) -/

/-- entries whose write is committed by this cycle -/
def Queue.commits (q : Queue α) (i : In α) : List α := if i.wcommit && !i.wdiscard then q.W else []
/-- entries whose read is finalised by this cycle -/
def Queue.finals (q : Queue α) (i : In α) : List α := if i.rcommit && !i.rdiscard then q.R else []

/-- run the queue accumulating all committed writes and all finalised reads -/
def Queue.runAcc (depth : Nat) : List α × List α × Queue α → List (In α) → List α × List α × Queue α
  | acc, [] => acc
  | (com, fin, q), i :: is => Queue.runAcc depth (com ++ q.commits i, fin ++ q.finals i, q.step depth i) is

theorem queue_conserves_step (depth : Nat) (q : Queue α) (i : In α) (com fin : List α) (hl : Legal i)
    (h : fin ++ q.R ++ q.C = com) :
    (fin ++ q.finals i) ++ (q.step depth i).R ++ (q.step depth i).C = com ++ q.commits i := by
  obtain ⟨R, C, W⟩ := q
  obtain ⟨wdata, wen, wcommit, wdiscard, ren, rcommit, rdiscard⟩ := i
  subst h
  simp only [Legal] at hl
  have htd : ∀ (b : Bool), (if b = true then C.take 1 else []) ++ (if b = true then C.drop 1 else C) = C := by
    intro b; cases b
    · simp
    · simp only [if_true]; exact List.take_append_drop 1 C
  simp only [Queue.step, Queue.commits, Queue.finals]
  generalize (ren && !C.isEmpty) = doR
  have := htd doR
  generalize (if doR = true then C.take 1 else []) = taken at *
  generalize (if doR = true then C.drop 1 else C) = rest at *
  subst this
  cases rdiscard <;> cases rcommit <;> cases wdiscard <;> cases wcommit <;> simp at hl ⊢

/-- For every legal history from reset: the finalised reads, followed by the reads not yet finalised
and the committed unread entries still in the queue, are exactly the committed writes, in order. So
the reader is handed a prefix of what the writer committed: nothing lost, duplicated or reordered,
and discarded writes never appear. -/
theorem queue_conserves (depth : Nat) (ins : List (In α)) (hl : ∀ i ∈ ins, Legal i)
    (com fin : List α) (q : Queue α) (h : fin ++ q.R ++ q.C = com) :
    (Queue.runAcc depth (com, fin, q) ins).2.1 ++ (Queue.runAcc depth (com, fin, q) ins).2.2.R
      ++ (Queue.runAcc depth (com, fin, q) ins).2.2.C = (Queue.runAcc depth (com, fin, q) ins).1 := by
  induction ins generalizing com fin q with
  | nil => exact h
  | cons i is ih =>
    simp only [Queue.runAcc]
    exact ih (fun j hj => hl j (by simp [hj])) _ _ _
      (queue_conserves_step depth q i com fin (hl i (by simp)) h)

/-! ### Non-vacuity: a legal history with fills, a discard, wrap-around and a re-read (depth 2) -/
example :
    (run 2 (init 0) [⟨1, true, false, false, false, false, false⟩,
                     ⟨2, true, true, false, false, false, false⟩,     -- commits 1; 2 starts a new transaction
                     ⟨3, true, false, false, true, false, false⟩,     -- full: write dropped; read 1
                     ⟨0, false, false, true, false, false, true⟩,     -- discard 2; un-read 1
                     ⟨4, true, false, false, true, true, false⟩,
                     ⟨0, false, true, false, false, true, false⟩,
                     ⟨0, false, false, false, false, false, false⟩]).map obs
      = [⟨none, true, false, 2⟩, ⟨none, true, false, 1⟩, ⟨some 1, false, true, 0⟩, ⟨none, true, true, 0⟩,
         ⟨some 1, false, false, 1⟩, ⟨none, true, true, 0⟩, ⟨some 4, false, false, 1⟩] := by decide

end LunaVerif.TxnFifo
