import LunaVerif.Props.C56
import LunaVerif.Model.Periph.IlaStream
/-!
# C56 — read-out of the captured samples through `StreamILA`

"The ILA captures exactly the samples following a trigger" — for the stream wrapper: after a trigger that is
seen while the wrapper is idle, the words transferred on the output stream (cycles with `valid ∧ ready`) are exactly
the `depth` consecutive (delayed) samples that followed the trigger, in order, each once, the first one flagged
`first`, the last one flagged `last` — under every `ready` pattern, every input waveform and every trigger activity
during capture and read-out.  The number of words transferred is an explicit function of the number of `ready`
cycles offered: the read-out needs two ready cycles per word (one to let the synchronous read port fetch the word,
one to transfer it), one less for the very first read-out after reset (`data_valid` resets to 1).

Cycle numbering: `x0` is the cycle in which the trigger is seen (wrapper IDLE), `xs` the `depth` capture cycles,
`xl` the cycle in which the wrapper sees `complete` (SAMPLING → SENDING), `ys` the cycles of the read-out.
-/
namespace LunaVerif.IlaStream
open LunaVerif.Ila

/-- a transferred stream word: (payload, first, last) -/
abbrev Xfer := Nat × Bool × Bool

/-- the word transferred in a cycle (if any): `valid ∧ ready` -/
def xferOf (i : In) (o : Out) : List Xfer :=
  if o.valid && i.ready then [(o.payload, o.first, o.last)] else []

/-- all words transferred on the stream during a history -/
def transfers (c : Config) : State → List In → List Xfer
  | _, [] => []
  | s, x :: xs => xferOf x (step c s x).2 ++ transfers c (step c s x).1 xs

/-- the spec: a buffer of samples as a framed packet -/
def frameFrom (first : Bool) : List Nat → List Xfer
  | [] => []
  | v :: rest => (v, first, rest.isEmpty) :: frameFrom false rest

def frame (samples : List Nat) : List Xfer := frameFrom true samples

def readyCount (ys : List In) : Nat := ys.countP (·.ready)

def inputsOfW (xs : List In) : List Nat := xs.map (·.inputs)

/-- a reachable idle state of the wrapper: wrapper FSM and core idle, `first` clear, and `data_valid` still at its
reset value only if `current_sample_number` is too (i.e. before the first read-out) -/
def WIdle (c : Config) (σ : State) : Prop :=
  σ.fsm = .idle ∧ IdleState c σ.core ∧ σ.first = false ∧ (σ.dv = true → σ.csn = 0)

/-! ## small facts -/

theorem transfers_eq_run (c : Config) (xs : List In) : ∀ s,
    transfers c s xs = ((xs.zip (run c s xs)).map (fun p => xferOf p.1 p.2)).flatten := by
  induction xs with
  | nil => intro s; rfl
  | cons x xs ih => intro s; simp [transfers, run, ih]

theorem transfers_append (c : Config) (a b : List In) : ∀ s,
    transfers c s (a ++ b) = transfers c s a ++ transfers c (runState c s a) b := by
  induction a with
  | nil => intro s; rfl
  | cons x a ih => intro s; simp [transfers, runState, ih]

theorem runState_append (c : Config) (a b : List In) : ∀ s,
    runState c s (a ++ b) = runState c (runState c s a) b := by
  induction a with
  | nil => intro s; rfl
  | cons x a ih => intro s; simp [runState, ih]

theorem transfers_nil_of_no_ready (c : Config) (ys : List In) : ∀ s, readyCount ys = 0 → transfers c s ys = [] := by
  induction ys with
  | nil => intro s _; rfl
  | cons y ys ih =>
    intro s h
    simp only [readyCount, List.countP_cons] at h
    have hy : y.ready = false := by cases hr : y.ready <;> simp [hr] at h ⊢
    have h' : readyCount ys = 0 := by simp only [readyCount]; omega
    simp [transfers, xferOf, hy, ih _ h']

theorem memRead_lt (mem : List Nat) (j : Nat) (h : j < mem.length) : memRead mem j = mem[j] := by
  simp [memRead, List.getElem?_eq_getElem h]

theorem frameFrom_drop (f : Bool) (mem : List Nat) (j : Nat) (h : j < mem.length) :
    frameFrom f (mem.drop j) = (mem[j], f, decide (j + 1 = mem.length)) :: frameFrom false (mem.drop (j + 1)) := by
  have he : (mem.drop (j + 1)).isEmpty = decide (j + 1 = mem.length) := by
    rw [Bool.eq_iff_iff]
    simp only [List.isEmpty_iff, List.drop_eq_nil_iff, decide_eq_true_eq]
    omega
  rw [List.drop_eq_getElem_cons h]
  simp only [frameFrom, he]

/-! ## SAMPLING: the wrapper waits, with the trigger blocked, while the core's `complete` is low -/

def coreWait (csn : Nat) (i : In) : Ila.In := ⟨false, i.inputs, csn⟩

theorem sampling_phase (c : Config) (csn : Nat) (f dv : Bool) (xs : List In) : ∀ core : Ila.State,
    (∀ o ∈ Ila.run c core (xs.map (coreWait csn)), o.complete = false) →
    runState c ⟨core, .sampling, csn, f, dv⟩ xs = ⟨Ila.runState c core (xs.map (coreWait csn)), .sampling, csn, f, dv⟩ ∧
    transfers c ⟨core, .sampling, csn, f, dv⟩ xs = [] := by
  induction xs with
  | nil => intro core _; exact ⟨rfl, rfl⟩
  | cons x xs ih =>
    intro core h
    simp only [List.map_cons, Ila.run, List.mem_cons, forall_eq_or_imp] at h
    obtain ⟨h0, hrest⟩ := h
    have hst : step c ⟨core, .sampling, csn, f, dv⟩ x =
        (⟨(Ila.step c core (coreWait csn x)).1, .sampling, csn, f, dv⟩,
         ⟨(Ila.step c core (coreWait csn x)).2.sampling, false, false, (Ila.step c core (coreWait csn x)).2.captured, f, false⟩) := by
      simp only [coreWait] at h0
      simp [step, coreIn, coreWait, h0]
    obtain ⟨i1, i2⟩ := ih _ hrest
    simp only [runState, transfers, hst, List.map_cons, Ila.runState, i1, i2, xferOf]
    simp

/-! ## SENDING -/

theorem step_sending (c : Config) (wpos : Nat) (cpl : Bool) (mem : List Nat) (rd : Nat) (dl : List Nat)
    (j : Nat) (f dv : Bool) (y : In) :
    step c ⟨⟨.idle, wpos, false, cpl, mem, rd, dl⟩, .sending, j, f, dv⟩ y =
      (⟨⟨.idle, wpos, false, cpl, mem, memRead mem j, (shift dl y.inputs).2⟩,
        (if y.ready && dv && decide (j = c.depth - 1) then .idle else .sending),
        (if y.ready && dv then (j + 1) % 2 ^ rangeWidth c.depth else j),
        (if y.ready && dv then false else f),
        (if y.ready then !dv else dv)⟩,
       ⟨false, cpl, dv, rd, f, decide (j = c.depth - 1)⟩) := by
  cases hr : y.ready <;> cases dv <;> simp [step, coreIn, Ila.step, hr]

/-- the words transferred from a point in the read-out on: a prefix of the remaining samples, as long as the
number of ready cycles offered (`n`) does not exceed what the rest of the read-out needs -/
theorem sending_phase (c : Config) (mem : List Nat) (hm : mem.length = c.depth) (ys : List In) :
    ∀ (j wpos : Nat) (cpl : Bool) (rd : Nat) (dl : List Nat) (dv : Bool), j < c.depth →
      (dv = true → rd = memRead mem j) → readyCount ys ≤ 2 * (c.depth - j) - dv.toNat →
      transfers c ⟨⟨.idle, wpos, false, cpl, mem, rd, dl⟩, .sending, j, decide (j = 0), dv⟩ ys =
        (frameFrom (decide (j = 0)) (mem.drop j)).take ((readyCount ys + dv.toNat) / 2) := by
  induction ys with
  | nil => intro j wpos cpl rd dl dv _ _ _; cases dv <;> simp [transfers, readyCount]
  | cons y ys ih =>
    intro j wpos cpl rd dl dv hj hrd hn
    have hP := le_two_pow_rangeWidth c.depth
    simp only [readyCount, List.countP_cons] at hn ⊢
    simp only [transfers, step_sending, xferOf]
    cases hr : y.ready
    · -- not ready: nothing moves (the read port re-reads the same word)
      have := ih j wpos cpl (memRead mem j) (shift dl y.inputs).2 dv hj (fun _ => rfl)
        (by simp only [readyCount]; simp [hr] at hn; omega)
      simp only [readyCount] at this
      simp [this]
    · cases dv
      · -- ready, data_valid low: data_valid rises, the read port has fetched word j
        have := ih j wpos cpl (memRead mem j) (shift dl y.inputs).2 true hj (fun _ => rfl)
          (by simp only [readyCount]; simp [hr] at hn; simp; omega)
        simp only [readyCount] at this
        simp only [Bool.and_false, Bool.false_and, Bool.toNat_false, Bool.toNat_true] at this ⊢
        simp [this]
      · -- ready, data_valid high: word j is transferred
        have hrd' := hrd rfl
        have hjm : j < mem.length := by omega
        rw [frameFrom_drop _ mem j hjm]
        simp only [hr, reduceIte, Bool.toNat_true] at hn ⊢
        generalize hnn : List.countP (fun x => x.ready) ys = n at hn ⊢
        have hq : (n + 1 + 1) / 2 = n / 2 + 1 := by omega
        rw [hq, List.take_succ_cons]
        have hlast : decide (j = c.depth - 1) = decide (j + 1 = mem.length) := by
          simp only [decide_eq_decide]; omega
        simp only [Bool.and_self, Bool.true_and, reduceIte, List.cons_append, List.nil_append, hrd',
          memRead_lt mem j hjm, hlast]
        congr 1
        by_cases hl : j + 1 = mem.length
        · -- that was the last word: the wrapper is idle; no ready cycle is left
          have h0 : readyCount ys = 0 := by simp only [readyCount]; omega
          rw [transfers_nil_of_no_ready c ys _ h0]
          have : n = 0 := by simp only [readyCount] at h0; omega
          subst this
          simp
        · have hj1 : j + 1 < c.depth := by omega
          have hmod : (j + 1) % 2 ^ rangeWidth c.depth = j + 1 := Nat.mod_eq_of_lt (by omega)
          have hne : decide (j + 1 = mem.length) = false := by simp [hl]
          have hz : decide (j + 1 = 0) = false := by simp
          have := ih (j + 1) wpos cpl (memRead mem j) (shift dl y.inputs).2 false hj1 (by simp)
            (by simp only [readyCount, Bool.toNat_false]; omega)
          simp only [readyCount, hz, Bool.toNat_false, Nat.add_zero, hnn] at this
          simp only [hne, hmod, Bool.not_true]
          simpa [memRead_lt mem j hjm] using this

/-! ## the whole read-out -/

theorem inputsOf_coreWait (csn : Nat) (xs : List In) : inputsOf (xs.map (coreWait csn)) = inputsOfW xs := by
  simp [inputsOf, inputsOfW, coreWait, List.map_map, Function.comp_def]

/-- the state in which the wrapper enters SENDING, and no word is transferred before: trigger cycle `x0`,
`depth` capture cycles `xs`, hand-over cycle `xl` -/
theorem capture_then_sending (c : Config) (hd : 1 ≤ c.depth) (σ : State) (hσ : WIdle c σ)
    (x0 : In) (ht : x0.trigger = true) (xs : List In) (hl : xs.length = c.depth) (xl : In) :
    transfers c σ (x0 :: xs ++ [xl]) = [] ∧
    ∃ wpos dl, runState c σ (x0 :: xs ++ [xl]) =
      ⟨⟨.idle, wpos, false, true, ((σ.core.dl ++ inputsOfW (x0 :: xs)).drop 1).take c.depth,
        memRead (((σ.core.dl ++ inputsOfW (x0 :: xs)).drop 1).take c.depth) σ.csn, dl⟩, .sending, 0, true, σ.dv⟩ := by
  obtain ⟨core, fsm, csn, f, dv⟩ := σ
  obtain ⟨hf, hcore, hfirst, _⟩ := hσ
  simp only at hf hcore hfirst; subst hf hfirst
  have H := captures_depth_consecutive_samples c hd core hcore ⟨true, x0.inputs, csn⟩ rfl (xs.map (coreWait csn))
    (by simp [hl])
  obtain ⟨h1, h2, h3, h4, h5⟩ := H
  simp only [Ila.run, List.map_cons, List.cons.injEq] at h5
  simp only [Ila.runState] at h1 h2 h3 h4
  have hI : inputsOf (⟨true, x0.inputs, csn⟩ :: xs.map (coreWait csn)) = inputsOfW (x0 :: xs) := by
    have := inputsOf_coreWait csn xs
    simp only [inputsOf, inputsOfW, List.map_cons] at this ⊢
    rw [this]
  rw [hI] at h4
  have hcpl : ∀ o ∈ Ila.run c (Ila.step c core ⟨true, x0.inputs, csn⟩).1 (xs.map (coreWait csn)), o.complete = false := by
    intro o ho
    have hm := List.mem_map_of_mem (f := fun o : Ila.Out => (o.sampling, o.complete)) ho
    rw [h5.2] at hm
    have := List.eq_of_mem_replicate hm
    simp only [Prod.mk.injEq] at this
    exact this.2
  have hst0 : step c ⟨core, .idle, csn, false, dv⟩ x0 =
      (⟨(Ila.step c core ⟨true, x0.inputs, csn⟩).1, .sampling, csn, false, dv⟩,
       ⟨(Ila.step c core ⟨true, x0.inputs, csn⟩).2.sampling, (Ila.step c core ⟨true, x0.inputs, csn⟩).2.complete, false,
        (Ila.step c core ⟨true, x0.inputs, csn⟩).2.captured, false, false⟩) := by
    simp [step, coreIn, ht]
  obtain ⟨s1, s2⟩ := sampling_phase c csn false dv xs _ hcpl
  generalize Ila.runState c (Ila.step c core ⟨true, x0.inputs, csn⟩).1 (xs.map (coreWait csn)) = fin at h1 h2 h3 h4 s1
  obtain ⟨ff, fw, fwen, fcpl, fmem, frd, fdl⟩ := fin
  simp only at h1 h2 h3 h4
  subst h1 h2 h3 h4
  have hstl : ∀ mem, step c ⟨⟨.idle, fw, false, true, mem, frd, fdl⟩, .sampling, csn, false, dv⟩ xl =
      (⟨⟨.idle, fw, false, true, mem, memRead mem csn, (shift fdl xl.inputs).2⟩, .sending, 0, true, dv⟩,
       ⟨false, true, false, frd, false, false⟩) := by
    intro mem; simp [step, coreIn, Ila.step]
  refine ⟨?_, fw, (shift fdl xl.inputs).2, ?_⟩
  · simp only [List.cons_append, transfers, hst0, xferOf, transfers_append, s1, s2, hstl]
    simp
  · simp only [List.cons_append, runState, hst0, runState_append, s1, hstl]

/-- **stream_readout_exact**: a trigger seen while the wrapper is idle (`x0`), the `depth` capture cycles `xs`, the
hand-over cycle `xl`, then any read-out cycles `ys` offering `n = readyCount ys` ready cycles (at most as many as the
read-out needs: `2·depth`, one less for the first read-out after reset): the words transferred on the stream during the
whole history are exactly the first `(n + data_valid) / 2` of the `depth` captured samples
`S[1 .. depth]` (`S` = delay line ++ inputs from the trigger cycle on, as in `captures_depth_consecutive_samples`),
in order, `first` set exactly on sample 0 and `last` exactly on sample `depth - 1` — for every ready pattern, input
waveform and trigger activity in `xs`, `xl`, `ys`. -/
theorem stream_readout_exact (c : Config) (hd : 1 ≤ c.depth) (σ : State) (hσ : WIdle c σ)
    (x0 : In) (ht : x0.trigger = true) (xs : List In) (hl : xs.length = c.depth) (xl : In) (ys : List In)
    (hn : readyCount ys ≤ 2 * c.depth - σ.dv.toNat) :
    transfers c σ (x0 :: xs ++ xl :: ys) =
      (frame (((σ.core.dl ++ inputsOfW (x0 :: xs)).drop 1).take c.depth)).take ((readyCount ys + σ.dv.toNat) / 2) := by
  obtain ⟨t0, wpos, dl, hs⟩ := capture_then_sending c hd σ hσ x0 ht xs hl xl
  have hsplit : x0 :: xs ++ xl :: ys = (x0 :: xs ++ [xl]) ++ ys := by simp
  rw [hsplit, transfers_append, t0, hs, List.nil_append]
  have hlen : (((σ.core.dl ++ inputsOfW (x0 :: xs)).drop 1).take c.depth).length = c.depth := by
    simp only [List.length_take, List.length_drop, List.length_append, inputsOfW, List.length_map, List.length_cons, hl]
    omega
  have hdv : σ.dv = true → memRead (((σ.core.dl ++ inputsOfW (x0 :: xs)).drop 1).take c.depth) σ.csn
      = memRead (((σ.core.dl ++ inputsOfW (x0 :: xs)).drop 1).take c.depth) 0 := by
    intro h; rw [hσ.2.2.2 h]
  have := sending_phase c _ hlen ys 0 wpos true _ dl σ.dv (by omega) hdv (by simpa using hn)
  simpa [frame] using this

/-- **stream_readout_complete**: with all the ready cycles the read-out needs, the stream carries the whole
buffer: `depth` words, the captured samples in order, framed by `first` / `last`. -/
theorem stream_readout_complete (c : Config) (hd : 1 ≤ c.depth) (σ : State) (hσ : WIdle c σ)
    (x0 : In) (ht : x0.trigger = true) (xs : List In) (hl : xs.length = c.depth) (xl : In) (ys : List In)
    (hn : readyCount ys = 2 * c.depth - σ.dv.toNat) :
    transfers c σ (x0 :: xs ++ xl :: ys) = frame (((σ.core.dl ++ inputsOfW (x0 :: xs)).drop 1).take c.depth) := by
  rw [stream_readout_exact c hd σ hσ x0 ht xs hl xl ys (by omega)]
  apply List.take_of_length_le
  have hlen : (((σ.core.dl ++ inputsOfW (x0 :: xs)).drop 1).take c.depth).length = c.depth := by
    simp only [List.length_take, List.length_drop, List.length_append, inputsOfW, List.length_map, List.length_cons, hl]
    omega
  have hfl : ∀ (l : List Nat) (f : Bool), (frameFrom f l).length = l.length := by
    intro l; induction l with
    | nil => intro f; rfl
    | cons a l ih => intro f; simp [frameFrom, ih]
  rw [frame, hfl, hlen, hn]
  cases σ.dv <;> simp <;> omega

/-! ## after the read-out: idle again (so the next trigger starts the next capture: every buffer is sent once) -/

theorem sending_phase_end (c : Config) (mem : List Nat) (y : In) (hy : y.ready = true) (ys : List In) :
    ∀ (j wpos : Nat) (cpl : Bool) (rd : Nat) (dl : List Nat) (f dv : Bool), j < c.depth →
      readyCount ys + 1 = 2 * (c.depth - j) - dv.toNat →
      ∃ rd' dl' csn', runState c ⟨⟨.idle, wpos, false, cpl, mem, rd, dl⟩, .sending, j, f, dv⟩ (ys ++ [y]) =
        ⟨⟨.idle, wpos, false, cpl, mem, rd', dl'⟩, .idle, csn', false, false⟩ := by
  induction ys with
  | nil =>
    intro j wpos cpl rd dl f dv hj hn
    cases dv
    · simp [readyCount] at hn; omega
    · have hl : j = c.depth - 1 := by simp [readyCount] at hn; omega
      simp only [List.nil_append, runState, step_sending, hy, hl]
      simp
  | cons a ys ih =>
    intro j wpos cpl rd dl f dv hj hn
    have hP := le_two_pow_rangeWidth c.depth
    simp only [readyCount, List.countP_cons] at hn
    simp only [List.cons_append, runState, step_sending]
    cases hr : a.ready
    · simp only [hr] at hn
      simp only [Bool.false_and]
      exact ih j wpos cpl _ _ f dv hj (by simp only [readyCount]; simp at hn; omega)
    · simp only [hr, reduceIte] at hn
      cases dv
      · simp only [Bool.and_false, Bool.false_and, reduceIte, Bool.not_false]
        exact ih j wpos cpl _ _ f true hj (by simp only [readyCount]; simp at hn ⊢; omega)
      · have hj1 : j + 1 < c.depth := by simp at hn; omega
        have hnl : decide (j = c.depth - 1) = false := by simp; omega
        have hmod : (j + 1) % 2 ^ rangeWidth c.depth = j + 1 := Nat.mod_eq_of_lt (by omega)
        simp only [Bool.and_self, hnl, Bool.and_false, reduceIte, Bool.not_true, hmod]
        exact ih (j + 1) wpos cpl _ _ false false hj1 (by simp only [readyCount]; simp at hn ⊢; omega)

/-- **stream_readout_returns_idle**: the cycle that transfers the last word (the `2·depth − data_valid`-th ready cycle
of the read-out, `y`) leaves the wrapper in an idle state again, `data_valid` low, the core's memory untouched: the
next trigger starts a new capture and `stream_readout_exact` applies again — each captured buffer is sent exactly
once. -/
theorem stream_readout_returns_idle (c : Config) (hd : 1 ≤ c.depth) (σ : State) (hσ : WIdle c σ)
    (x0 : In) (ht : x0.trigger = true) (xs : List In) (hl : xs.length = c.depth) (xl : In) (ys : List In) (y : In)
    (hy : y.ready = true) (hn : readyCount ys + 1 = 2 * c.depth - σ.dv.toNat) :
    WIdle c (runState c σ (x0 :: xs ++ xl :: (ys ++ [y]))) ∧
    (runState c σ (x0 :: xs ++ xl :: (ys ++ [y]))).dv = false ∧
    (runState c σ (x0 :: xs ++ xl :: (ys ++ [y]))).core.complete = true ∧
    (runState c σ (x0 :: xs ++ xl :: (ys ++ [y]))).core.mem = ((σ.core.dl ++ inputsOfW (x0 :: xs)).drop 1).take c.depth := by
  obtain ⟨_, wpos, dl, hs⟩ := capture_then_sending c hd σ hσ x0 ht xs hl xl
  have hsplit : x0 :: xs ++ xl :: (ys ++ [y]) = (x0 :: xs ++ [xl]) ++ (ys ++ [y]) := by simp
  have hlen : (((σ.core.dl ++ inputsOfW (x0 :: xs)).drop 1).take c.depth).length = c.depth := by
    simp only [List.length_take, List.length_drop, List.length_append, inputsOfW, List.length_map, List.length_cons, hl]
    omega
  obtain ⟨rd', dl', csn', he⟩ := sending_phase_end c (((σ.core.dl ++ inputsOfW (x0 :: xs)).drop 1).take c.depth) y hy ys
    0 wpos true (memRead (((σ.core.dl ++ inputsOfW (x0 :: xs)).drop 1).take c.depth) σ.csn) dl true σ.dv (by omega)
    (by simpa using hn)
  rw [hsplit, runState_append, hs, he]
  simp only [WIdle, IdleState, and_self, true_and, and_true]
  exact ⟨hlen, fun h => absurd h (by simp)⟩

/-- the reset state is an idle state in the sense of the theorems -/
theorem init_WIdle (c : Config) : WIdle c (init c) := by
  simp [WIdle, IdleState, init, Ila.init]

/-- idle cycles without a trigger keep the wrapper idle and transfer nothing -/
theorem idle_step (c : Config) (σ : State) (hσ : WIdle c σ) (i : In) (hi : i.trigger = false) :
    WIdle c (step c σ i).1 ∧ (step c σ i).1.dv = σ.dv ∧ xferOf i (step c σ i).2 = [] := by
  obtain ⟨⟨cf, wpos, wen, cpl, mem, rd, dl⟩, fsm, csn, f, dv⟩ := σ
  obtain ⟨hf, ⟨hcf, hw, hm⟩, hfirst, hdv⟩ := hσ
  simp only at hf hcf hw hm hfirst hdv; subst hf hcf hw hfirst
  simp [step, coreIn, Ila.step, hi, WIdle, IdleState, hm, xferOf]
  exact hdv

/-! ## Non-vacuity: depth 3, pre-trigger 1, the first read-out after reset (data_valid = 1: 5 ready cycles) and a
second one (6 ready cycles), ready toggling -/
example : transfers ⟨3, 1⟩ (init ⟨3, 1⟩)
    [⟨false, 9, true⟩, ⟨true, 10, true⟩, ⟨true, 11, false⟩, ⟨false, 12, true⟩, ⟨true, 13, true⟩, ⟨true, 14, true⟩,
     ⟨true, 15, false⟩, ⟨true, 15, true⟩, ⟨true, 15, true⟩, ⟨true, 15, false⟩, ⟨true, 15, true⟩, ⟨true, 15, true⟩,
     ⟨false, 15, true⟩]
    = [(10, true, false), (11, false, false), (12, false, true)] := by decide
example : readyCount [⟨true, 15, false⟩, ⟨true, 15, true⟩, ⟨true, 15, true⟩, ⟨true, 15, false⟩, ⟨true, 15, true⟩,
    ⟨true, 15, true⟩, ⟨false, 15, true⟩] = 2 * 3 - (init ⟨3, 1⟩).dv.toNat := by decide
example : frame [10, 11, 12] = [(10, true, false), (11, false, false), (12, false, true)] := by decide
example : frame [7] = [(7, true, true)] := by decide
/-- second capture: triggers during capture / read-out are ignored, data_valid is low at the start -/
example : transfers ⟨2, 0⟩ (init ⟨2, 0⟩)
    [⟨true, 1, true⟩, ⟨true, 2, true⟩, ⟨true, 3, true⟩, ⟨true, 4, true⟩, ⟨true, 5, true⟩, ⟨true, 6, true⟩, ⟨true, 7, true⟩,
     ⟨true, 8, true⟩, ⟨false, 9, true⟩, ⟨false, 10, true⟩, ⟨false, 11, true⟩, ⟨false, 12, true⟩, ⟨false, 13, true⟩,
     ⟨false, 14, true⟩, ⟨false, 15, true⟩]
    = [(2, true, false), (3, false, true), (9, true, false), (10, false, true)] := by decide

end LunaVerif.IlaStream
