import LunaVerif.Model.Usb3.TrainingSets
/-!
# C43 — Training ordered sets are emitted and detected exactly

"An emitter asked for a burst produces exactly the configured number of consecutive ordered sets with
the correct symbols (and requested hot-reset/loopback/no-scrambling bits for TS2), and a detector
reports once for every configured number of consecutive, well-formed ordered sets (allowing idle
gaps), reports their configuration bits, and never reports on other data."

All theorems are for arbitrary set data, first-word ctrl, burst size (≥ 1 where stated) and config
flag, and for arbitrary input histories (most-recent-first lists `past`, as in C55).

The language the detector accepts, AS CODED (`Parse` / `track` below):
* a set is its L words in order, each with the right ctrl; invalid cycles may sit between the words
  of a set; a valid non-matching word inside a set ends the attempt and clears the count;
* the cycle after the last word of a set is either the first word of the next set, or an invalid
  cycle — after which ANY words, valid or not, are skipped (count kept) until the next valid first
  word — or a valid word that is not a first word, which clears the count;
* after a mismatch one further cycle is not looked at (`NONE_DETECTED`).
-/

namespace LunaVerif.TS.Emitter

/-! ## Emitter -/

/-- Specification: a flat word counter.  `none` = idle; `some p` = `p` words of the current burst
(of `L * burst` words) have been transferred.  Each burst is exactly `burst` sets of `L` words:
word `p % L` is driven, `done` accompanies the transfer of the last word, the counter advances on
`ready` only, and a new burst begins only on `start` (from idle, or seamlessly at the end). -/
def specStep (c : Config) (a : Option Nat) (i : In) : Option Nat × Out :=
  match a with
  | none => (if i.start then some 0 else none, quietOut)
  | some p =>
    let j := p % c.setData.length
    let fin := p + 1 == c.setData.length * c.burst
    (if i.ready then (if fin then (if i.start then some 0 else none) else some (p + 1)) else some p,
     ⟨true, wordData c j i, if j == 0 then c.firstCtrl else 0, j == 0, j + 1 == c.setData.length,
      i.ready && fin⟩)

def specRun (c : Config) : Option Nat → List In → List Out
  | _, [] => []
  | a, x :: xs => (specStep c a x).2 :: specRun c (specStep c a x).1 xs

/-- abstraction: sets sent so far × L + word index -/
def abs (c : Config) (s : State) : Option Nat :=
  match s.fsm with
  | .idle => none
  | .word k => some (s.sent * c.setData.length + k)

def Inv (c : Config) (s : State) : Prop :=
  match s.fsm with
  | .idle => s.sent = 0
  | .word k => k < c.setData.length ∧ s.sent < c.burst

theorem fin_iff (L T k s : Nat) (hk : k < L) (hs : s < T) :
    (s * L + k + 1 = L * T) ↔ (k + 1 = L ∧ s + 1 = T) := by
  have hsm : (s + 1) * L = s * L + L := Nat.succ_mul s L
  have hle : (s + 1) * L ≤ T * L := Nat.mul_le_mul_right L (by omega)
  have hc : L * T = T * L := Nat.mul_comm L T
  constructor
  · intro h
    have hk1 : k + 1 = L := by omega
    refine ⟨hk1, ?_⟩
    have : (s + 1) * L = T * L := by omega
    exact Nat.eq_of_mul_eq_mul_right (by omega) this
  · rintro ⟨h1, h2⟩
    subst h2; omega

theorem step_refines (c : Config) (hL : 1 ≤ c.setData.length) (hT : 1 ≤ c.burst)
    (s : State) (i : In) (h : Inv c s) :
    Inv c (step c s i).1 ∧ abs c (step c s i).1 = (specStep c (abs c s) i).1 ∧
      (step c s i).2 = (specStep c (abs c s) i).2 := by
  obtain ⟨fsm, sent⟩ := s
  cases fsm with
  | idle =>
    simp only [Inv] at h
    subst h
    cases hs : i.start <;> simp [step, specStep, abs, Inv, hs] <;> omega
  | word k =>
    simp only [Inv] at h
    obtain ⟨hk, hs⟩ := h
    have hmod : (sent * c.setData.length + k) % c.setData.length = k := by
      rw [Nat.mul_add_mod_self_right, Nat.mod_eq_of_lt hk]
    have hfin := fin_iff c.setData.length c.burst k sent hk hs
    have hfinb : (sent * c.setData.length + k + 1 == c.setData.length * c.burst)
        = (k + 1 == c.setData.length && sent + 1 == c.burst) := by
      rw [Bool.eq_iff_iff]; simp only [beq_iff_eq, Bool.and_eq_true]; exact hfin
    simp only [step, specStep, abs, hmod, hfinb]
    cases hr : i.ready <;> cases hl : (k + 1 == c.setData.length) <;>
      cases hb : (sent + 1 == c.burst) <;> cases hst : i.start <;>
      simp [Inv, abs, hk, hs, hL, hT] <;> (try simp only [beq_iff_eq, beq_eq_false_iff_ne, ne_eq] at hl hb) <;>
      (try omega)
    all_goals (refine ⟨⟨by omega, by omega⟩, ?_⟩; rw [Nat.add_mul, Nat.one_mul]; omega)

def runState (c : Config) : State → List In → State
  | s, [] => s
  | s, x :: xs => runState c (step c s x).1 xs

theorem run_refines (c : Config) (hL : 1 ≤ c.setData.length) (hT : 1 ≤ c.burst)
    (s : State) (h : Inv c s) (hist : List In) :
    run c s hist = specRun c (abs c s) hist := by
  induction hist generalizing s with
  | nil => rfl
  | cons x xs ih =>
    obtain ⟨h1, h2, h3⟩ := step_refines c hL hT s x h
    simp only [run, specRun, h3]
    rw [ih _ h1, h2]

/-- **C43 (emitter).**  For every set (L ≥ 1 words), burst length T ≥ 1, config flag and every
start/ready/request history, the emitter's ports from reset are those of the flat burst counter
`specStep`: silent until `start`; then word `p % L` of the set (first-word ctrl on word 0, `first`/
`last` framing) for `p = 0 … L·T-1`, advancing on `ready` only; `done` exactly with the transfer of
word `L·T-1`; then idle, or the next burst if `start` is still asserted. -/
theorem emitter_burst_exact (c : Config) (hL : 1 ≤ c.setData.length) (hT : 1 ≤ c.burst)
    (hist : List In) : run c init hist = specRun c none hist :=
  run_refines c hL hT init (by simp [Inv, init]) hist

/-- the word index stays inside the set in every reachable state (the guard of `wordData`) -/
theorem wordIdx_lt (c : Config) (hL : 1 ≤ c.setData.length) (hT : 1 ≤ c.burst) (hist : List In) :
    Inv c (runState c init hist) := by
  suffices h : ∀ s, Inv c s → Inv c (runState c s hist) from h init (by simp [Inv, init])
  induction hist with
  | nil => intro s h; exact h
  | cons x xs ih => intro s h; exact ih _ (step_refines c hL hT s x h).1

/-- A burst is exactly `L·T` transfers: from position `p`, `m` transfers (ready cycles, no restart
needed) lead to position `p + m` as long as the burst is not finished, without `done`. -/
theorem spec_advance (c : Config) (p : Nat) (i : In) (hr : i.ready = true)
    (hp : p + 1 < c.setData.length * c.burst) :
    specStep c (some p) i = (some (p + 1),
      ⟨true, wordData c (p % c.setData.length) i, if p % c.setData.length == 0 then c.firstCtrl else 0,
       p % c.setData.length == 0, p % c.setData.length + 1 == c.setData.length, false⟩) := by
  have : (p + 1 == c.setData.length * c.burst) = false := by simp; omega
  simp [specStep, hr, this]

/-- … and the transfer of word `L·T - 1` carries `done` and ends the burst (idle unless `start`). -/
theorem spec_finish (c : Config) (p : Nat) (i : In) (hr : i.ready = true)
    (hp : p + 1 = c.setData.length * c.burst) :
    (specStep c (some p) i).1 = (if i.start then some 0 else none) ∧
    (specStep c (some p) i).2.done = true := by
  simp [specStep, hr, hp]

/-- a stalled word is held -/
theorem spec_stall (c : Config) (p : Nat) (i : In) (hr : i.ready = false) :
    (specStep c (some p) i).1 = some p ∧ (specStep c (some p) i).2.done = false := by
  simp [specStep, hr]

/-- the real TS1 emitter with a burst of 2: eight words, `done` on the last -/
example : (run ⟨[0xBCBCBCBC, 0x4A4A0000, 0x4A4A4A4A, 0x4A4A4A4A], 15, 2, false⟩ init
    (⟨true, true, false, false, false⟩ :: List.replicate 9 ⟨false, true, false, false, false⟩)).map
      (fun o => (o.valid, o.data, o.ctrl, o.done))
    = [(false, 0, 0, false), (true, 0xBCBCBCBC, 15, false), (true, 0x4A4A0000, 0, false),
       (true, 0x4A4A4A4A, 0, false), (true, 0x4A4A4A4A, 0, false), (true, 0xBCBCBCBC, 15, false),
       (true, 0x4A4A0000, 0, false), (true, 0x4A4A4A4A, 0, false), (true, 0x4A4A4A4A, 0, true),
       (false, 0, 0, false)] := by decide

end LunaVerif.TS.Emitter

namespace LunaVerif.TS

/-! ## TS2 configuration bits -/

/-- **C43 (TS2 bits, emitter side).**  With `include_config` and a word 1 whose low half is zero
(TS2: `0x45450000`), the emitted word 1 keeps the set's upper half and carries exactly the requested
bits: hot reset = bit 0, loopback = bit 2, no scrambling = bit 3 of symbol 5 (bits 8, 10, 11). -/
theorem ts2_config_bits (c : Config) (hc : c.includeConfig = true) (d1 : Nat)
    (h1 : c.setData[1]? = some d1) (hz : d1 % 65536 = 0) (i : Emitter.In) :
    Emitter.wordData c 1 i / 65536 * 65536 = d1 ∧
    bit (Emitter.wordData c 1 i) 8 = i.hr ∧ bit (Emitter.wordData c 1 i) 10 = i.lb ∧
    bit (Emitter.wordData c 1 i) 11 = i.ns := by
  have hg : c.setData.getD 1 0 = d1 := by simp [List.getD, h1]
  have b8 : ∀ x, x % 512 < 256 → setBit x 8 = x + 256 := by
    intro x hx
    have : ¬ (bit x 8 = true) := by simp only [bit, Nat.reducePow, beq_iff_eq]; omega
    simp only [setBit, if_neg this, Nat.reducePow]
  have b10 : ∀ x, x % 2048 < 1024 → setBit x 10 = x + 1024 := by
    intro x hx
    have : ¬ (bit x 10 = true) := by simp only [bit, Nat.reducePow, beq_iff_eq]; omega
    simp only [setBit, if_neg this, Nat.reducePow]
  have b11 : ∀ x, x % 4096 < 2048 → setBit x 11 = x + 2048 := by
    intro x hx
    have : ¬ (bit x 11 = true) := by simp only [bit, Nat.reducePow, beq_iff_eq]; omega
    simp only [setBit, if_neg this, Nat.reducePow]
  have hval : Emitter.wordData c 1 i
      = d1 + (if i.hr then 256 else 0) + (if i.lb then 1024 else 0) + (if i.ns then 2048 else 0) := by
    simp only [Emitter.wordData, hc, hg, beq_self_eq_true, Bool.and_self, if_true]
    cases i.hr <;> cases i.lb <;> cases i.ns <;>
      simp only [if_true, Bool.false_eq_true, if_false, Nat.add_zero]
    · rw [b11 _ (by omega)]
    · rw [b10 _ (by omega)]
    · rw [b10 _ (by omega), b11 _ (by omega)]
    · rw [b8 _ (by omega)]
    · rw [b8 _ (by omega), b11 _ (by omega)]
    · rw [b8 _ (by omega), b10 _ (by omega)]
    · rw [b8 _ (by omega), b10 _ (by omega), b11 _ (by omega)]
  rw [hval]
  cases i.hr <;> cases i.lb <;> cases i.ns <;>
    simp only [bit, Nat.reducePow, if_true, Bool.false_eq_true, if_false, Nat.add_zero] <;>
    refine ⟨by omega, ?_, ?_, ?_⟩ <;> simp <;> omega

/-- **C43 (TS2 bits, detector side and round trip).**  A detector of the same set, having matched
word 0, accepts the word 1 the emitter drives and latches exactly the requested bits. -/
theorem ts2_roundtrip (c : Config) (hc : c.includeConfig = true) (d1 : Nat)
    (h1 : c.setData[1]? = some d1) (hz : d1 % 65536 = 0) (i : Emitter.In) (s : Detector.State)
    (hs : s.fsm = .det 1) :
    let s' := (Detector.step c s ⟨true, Emitter.wordData c 1 i, 0⟩).1
    s'.fsm = .det 2 ∧ s'.hot = i.hr ∧ s'.loop = i.lb ∧ s'.scr = i.ns := by
  obtain ⟨hw, h8, h10, h11⟩ := ts2_config_bits c hc d1 h1 hz i
  have hlen : 1 < c.setData.length := by
    rcases Nat.lt_or_ge 1 c.setData.length with h | h
    · exact h
    · simp [List.getElem?_eq_none h] at h1
  have hm : Detector.matchK c 1 ⟨true, Emitter.wordData c 1 i, 0⟩ = true := by
    simp [Detector.matchK, hc, hw, h1]
  simp [Detector.step, hs, hlen, hm, hc, h8, h10, h11]

/-- the real TS2 word 1 with all three requests -/
example : Emitter.wordData ⟨[0xBCBCBCBC, 0x45450000, 0x45454545, 0x45454545], 15, 16, true⟩ 1
    ⟨true, true, true, true, true⟩ = 0x45450D00 := by decide

end LunaVerif.TS

namespace LunaVerif.TS.Detector

/-! ## Detector -/

inductive Pos where
  | inSet (k : Nat)     -- k words of a set matched (k = L: the set is complete)
  | between             -- after a complete set and at least one invalid cycle: waiting for a first word
deriving DecidableEq, Repr

/-- The set grammar over cycle histories (most recent first).  `Parse c past pos n`: the history
`past` ends in position `pos` of a chain of well-formed sets of which `n` are complete and lie before
the current one; a chain may begin at any valid first word (`start`). -/
inductive Parse (c : Config) : List In → Pos → Nat → Prop
  | start {past x} : x.valid = true → matchK c 0 x = true → Parse c (x :: past) (.inSet 1) 0
  | gap {past k n x} : Parse c past (.inSet k) n → k < c.setData.length → x.valid = false →
      Parse c (x :: past) (.inSet k) n
  | word {past k n x} : Parse c past (.inSet k) n → k < c.setData.length → x.valid = true →
      matchK c k x = true → Parse c (x :: past) (.inSet (k + 1)) n
  | adj {past k n x} : Parse c past (.inSet k) n → ¬ k < c.setData.length → x.valid = true →
      matchK c 0 x = true → Parse c (x :: past) (.inSet 1) (n + 1)
  | brk {past k n x} : Parse c past (.inSet k) n → ¬ k < c.setData.length → x.valid = false →
      Parse c (x :: past) .between (n + 1)
  | junk {past n x} : Parse c past .between n → (x.valid && matchK c 0 x) = false →
      Parse c (x :: past) .between n
  | resume {past n x} : Parse c past .between n → x.valid = true → matchK c 0 x = true →
      Parse c (x :: past) (.inSet 1) n

/-- positions inside a set are 1 … L -/
theorem parse_pos (c : Config) {past : List In} {k n : Nat} (h : Parse c past (.inSet k) n) :
    1 ≤ k ∧ k ≤ c.setData.length := by
  have hL : ∀ x : In, matchK c 0 x = true → 1 ≤ c.setData.length := by
    intro x hx
    simp only [matchK, Bool.and_eq_true] at hx
    rcases Nat.lt_or_ge 0 c.setData.length with h | h
    · exact h
    · simp [List.getElem?_eq_none h] at hx
  generalize hp : Pos.inSet k = pos at h
  induction h generalizing k with
  | start _ hm => cases hp; exact ⟨Nat.le_refl _, hL _ hm⟩
  | gap hpar hk _ ih => cases hp; exact ih rfl
  | word hpar hk _ _ ih => cases hp; have := ih rfl; omega
  | adj _ _ _ hm => cases hp; exact ⟨Nat.le_refl _, hL _ hm⟩
  | brk => cases hp
  | junk => cases hp
  | resume _ _ hm => cases hp; exact ⟨Nat.le_refl _, hL _ hm⟩

/-- register state after a history (most recent first) from reset -/
def stateAfter (c : Config) : List In → State
  | [] => init
  | x :: past => (step c (stateAfter c past) x).1

def outsFrom (c : Config) : List In → List In → List Out
  | _, [] => []
  | past, x :: xs => (step c (stateAfter c past) x).2 :: outsFrom c (x :: past) xs

theorem run_eq_outsFrom (c : Config) (past hist : List In) :
    run c (stateAfter c past) hist = outsFrom c past hist := by
  induction hist generalizing past with
  | nil => rfl
  | cons x xs ih => simp only [run, outsFrom]; rw [← ih (x :: past)]; rfl

/-- the outputs of the model run from reset are the registered values of `stateAfter` -/
theorem run_init (c : Config) (hist : List In) : run c init hist = outsFrom c [] hist :=
  run_eq_outsFrom c [] hist

/-- soundness invariant: the FSM position and the count are backed by a parse of the history -/
def Inv (c : Config) (s : State) (past : List In) : Prop :=
  (match s.fsm with
   | .none => True
   | .wait => s.count = 0 ∨ Parse c past .between s.count
   | .det k => Parse c past (.inSet k) s.count) ∧
  (s.detected = true → ∃ x rest, past = x :: rest ∧ ∃ k n, ¬ k < c.setData.length ∧
      n + 1 = c.burst ∧ Parse c rest (.inSet k) n)

theorem inv_step (c : Config) (s : State) (past : List In) (x : In) (h : Inv c s past) :
    Inv c (step c s x).1 (x :: past) := by
  obtain ⟨fsm, count, det, hot, loop, scr⟩ := s
  obtain ⟨hf, _⟩ := h
  cases fsm with
  | none => simp [Inv, step]
  | wait =>
    simp only [Inv, step] at hf ⊢
    cases hv : x.valid <;> cases hm : matchK c 0 x <;> simp
    · rcases hf with h0 | hp
      · exact Or.inl h0
      · exact Or.inr (Parse.junk hp (by simp [hv]))
    · rcases hf with h0 | hp
      · exact Or.inl h0
      · exact Or.inr (Parse.junk hp (by simp [hv]))
    · rcases hf with h0 | hp
      · exact Or.inl h0
      · exact Or.inr (Parse.junk hp (by simp [hm]))
    · rcases hf with h0 | hp
      · subst h0; exact Parse.start hv hm
      · exact Parse.resume hp hv hm
  | det k =>
    simp only [Inv] at hf
    by_cases hk : k < c.setData.length
    · simp only [step, hk, if_true]
      cases hv : x.valid
      · simp [Inv]; exact Parse.gap hf hk hv
      · cases hm : matchK c k x
        · simp [Inv]
        · by_cases hcfg : (c.includeConfig && k == 1) = true
          · simp [Inv, hcfg]; exact Parse.word hf hk hv hm
          · simp [Inv, hcfg]; exact Parse.word hf hk hv hm
    · simp only [step, hk, if_false]
      by_cases hb : (count + 1 == c.burst) = true
      · simp only [hb, if_true, Inv]
        refine ⟨?_, fun _ => ⟨x, past, rfl, k, count, hk, by simpa using hb, hf⟩⟩
        simp only [afterSet]
        cases hv : x.valid <;> simp
        cases hm : matchK c 0 x <;> simp
        exact Parse.start hv hm
      · simp only [hb, Inv]
        refine ⟨?_, by simp⟩
        simp only [afterSet]
        cases hv : x.valid <;> simp
        · exact Parse.brk hf hk hv
        · cases hm : matchK c 0 x <;> simp
          exact Parse.adj hf hk hv hm

theorem inv_stateAfter (c : Config) (past : List In) : Inv c (stateAfter c past) past := by
  induction past with
  | nil => simp [Inv, stateAfter, init]
  | cons x past ih => exact inv_step c _ past x ih

/-- **C43 (never reports on other data).**  For every configuration and every input history: if
`detected` is high in the cycle after the history `past`, then the history up to the cycle before
the last one (`rest`; the pulse is registered behind the one-cycle `L_DETECTED` state) ends with a
complete set (`k = L`) that is the `burst`-th of a chain of well-formed consecutive sets. -/
theorem no_detect_on_other_data (c : Config) (past : List In) (x : In)
    (h : (step c (stateAfter c past) x).2.detected = true) :
    ∃ y rest, past = y :: rest ∧ ∃ k n, k = c.setData.length ∧ n + 1 = c.burst ∧
      Parse c rest (.inSet k) n := by
  obtain ⟨y, rest, hp, k, n, hk, hn, hpar⟩ := (inv_stateAfter c past).2 (by simpa [step] using h)
  have := parse_pos c hpar
  exact ⟨y, rest, hp, k, n, by omega, hn, hpar⟩

/-! ### the deterministic reading of the grammar, rooted at a synchronised detector -/

/-- Follow the grammar from a point where the detector waits for a first word with count 0
(`[]`); `none` = the stream left the language.  `n` counts the complete sets before the current one. -/
def track (c : Config) : List In → Option (Pos × Nat)
  | [] => some (.between, 0)
  | x :: past =>
    match track c past with
    | none => none
    | some (.between, n) => if x.valid && matchK c 0 x then some (.inSet 1, n) else some (.between, n)
    | some (.inSet k, n) =>
      if k < c.setData.length then
        if !x.valid then some (.inSet k, n)
        else if matchK c k x then some (.inSet (k + 1), n) else none
      else
        if x.valid then (if matchK c 0 x then some (.inSet 1, n + 1) else none)
        else some (.between, n + 1)

/-- the cycle `x` directly follows a complete set which is a `burst`-th one -/
def pulseAfter (c : Config) : List In → Bool
  | [] => false
  | _ :: past =>
    match track c past with
    | some (.inSet k, m) => !decide (k < c.setData.length) && ((m + 1) % c.burst == 0)
    | _ => false

def fsmOf : Pos → Fsm
  | .between => .wait
  | .inSet k => .det k

def feed (c : Config) (s : State) : List In → State
  | [] => s
  | x :: past => (step c (feed c s past) x).1

theorem count_next (n N : Nat) (hN : 1 ≤ N) :
    (if n % N + 1 = N then 0 else n % N + 1) = (n + 1) % N := by
  have hlt : n % N < N := Nat.mod_lt _ (by omega)
  have hadd : (n + 1) % N = (n % N + 1) % N := (Nat.mod_add_mod n N 1).symm
  rw [hadd]
  split
  · next h => rw [h, Nat.mod_self]
  · next h => exact (Nat.mod_eq_of_lt (by omega : n % N + 1 < N)).symm

theorem pulse_iff (n N : Nat) (hN : 1 ≤ N) : (n % N + 1 = N) ↔ (n + 1) % N = 0 := by
  have := count_next n N hN
  have hlt : n % N < N := Nat.mod_lt _ (by omega)
  constructor
  · intro h; rw [if_pos h] at this; exact this.symm
  · intro h
    by_cases hc : n % N + 1 = N
    · exact hc
    · rw [if_neg hc] at this; omega

/-- **C43 (detector language).**  For every configuration with burst size N ≥ 1: start from any
state in which the detector waits for a first word with count 0 (one cycle after reset; two cycles
after any mismatch).  For every continuation `seg` that stays inside the set grammar (`track`),
the FSM follows the grammar position, the count is the number of complete sets modulo N, and the
`detected` register is set exactly by the cycle following a complete set that is an N-th one — so on
the output port the pulse appears exactly once per N consecutive well-formed sets, two cycles after
the last word of every N-th set. -/
theorem detector_language (c : Config) (hN : 1 ≤ c.burst) (s0 : State)
    (h0 : s0.fsm = .wait ∧ s0.count = 0) (seg : List In) (pos : Pos) (n : Nat)
    (ht : track c seg = some (pos, n)) :
    (feed c s0 seg).fsm = fsmOf pos ∧ (feed c s0 seg).count = n % c.burst ∧
    (seg ≠ [] → (feed c s0 seg).detected = pulseAfter c seg) := by
  induction seg generalizing pos n with
  | nil =>
    simp only [track, Option.some.injEq, Prod.mk.injEq] at ht
    obtain ⟨rfl, rfl⟩ := ht
    simp [feed, fsmOf, h0]
  | cons x past ih =>
    simp only [track] at ht
    cases htp : track c past with
    | none => simp [htp] at ht
    | some pn =>
      obtain ⟨p, m⟩ := pn
      obtain ⟨hf, hc, _⟩ := ih p m htp
      simp only [htp] at ht
      generalize hs : feed c s0 past = s at hf hc
      obtain ⟨fsm, count, det, hot, loop, scr⟩ := s
      simp only at hf hc
      subst hf; subst hc
      cases p with
      | between =>
        simp only at ht
        have hfs : fsmOf Pos.between = Fsm.wait := rfl
        rw [hfs] at hs
        simp only [feed, hs, pulseAfter, htp, step]
        by_cases hx : (x.valid && matchK c 0 x) = true
        · simp only [hx, if_true, Option.some.injEq, Prod.mk.injEq] at ht
          obtain ⟨rfl, rfl⟩ := ht
          simp [hx, fsmOf]
        · simp only [hx, Option.some.injEq, Prod.mk.injEq] at ht
          obtain ⟨rfl, rfl⟩ := ht
          simp [hx, fsmOf]
      | inSet k =>
        simp only at ht
        have hfs : fsmOf (Pos.inSet k) = Fsm.det k := rfl
        rw [hfs] at hs
        simp only [feed, hs, pulseAfter, htp, step]
        by_cases hk : k < c.setData.length
        · simp only [hk, if_true] at ht ⊢
          cases hv : x.valid
          · simp only [hv, Bool.not_false, if_true, Option.some.injEq, Prod.mk.injEq] at ht
            obtain ⟨rfl, rfl⟩ := ht
            simp [fsmOf]
          · simp only [hv, Bool.not_true, Bool.false_eq_true, if_false] at ht
            cases hm : matchK c k x
            · simp [hm] at ht
            · simp only [hm, if_true, Option.some.injEq, Prod.mk.injEq] at ht
              obtain ⟨rfl, rfl⟩ := ht
              by_cases hcfg : (c.includeConfig && k == 1) = true <;> simp [hcfg, fsmOf]
        · simp only [hk, if_false] at ht ⊢
          have hcn := count_next m c.burst hN
          have hpi := pulse_iff m c.burst hN
          have hpos : (afterSet c x = fsmOf pos) ∧ n = m + 1 := by
            simp only [afterSet]
            cases hv : x.valid
            · simp only [hv, Bool.false_eq_true, if_false, Option.some.injEq, Prod.mk.injEq] at ht
              obtain ⟨rfl, rfl⟩ := ht
              simp [fsmOf]
            · simp only [hv, if_true] at ht
              cases hm : matchK c 0 x
              · simp [hm] at ht
              · simp only [hm, if_true, Option.some.injEq, Prod.mk.injEq] at ht
                obtain ⟨rfl, rfl⟩ := ht
                simp [fsmOf]
          obtain ⟨hpos1, rfl⟩ := hpos
          by_cases hb : m % c.burst + 1 = c.burst
          · have hz : (m + 1) % c.burst = 0 := hpi.1 hb
            have hbeq : (m % c.burst + 1 == c.burst) = true := by simpa using hb
            simp only [hbeq, if_true]
            refine ⟨hpos1, hz.symm, fun _ => ?_⟩
            simp [hk, hz]
          · have hnz : (m + 1) % c.burst ≠ 0 := fun h => hb (hpi.2 h)
            rw [if_neg hb] at hcn
            have hbeq : (m % c.burst + 1 == c.burst) = false := by simpa using hb
            simp only [hbeq, Bool.false_eq_true, if_false]
            refine ⟨hpos1, hcn, fun _ => ?_⟩
            simp [hk, hnz]

/-- one cycle after reset the detector is synchronised (waits, count 0) … -/
theorem sync_after_reset (c : Config) (x : In) :
    (step c init x).1.fsm = .wait ∧ (step c init x).1.count = 0 := by
  simp [step, init]

/-- … and so it is two cycles after any departure from the grammar (a valid non-matching word
inside a set, or directly after a set): `NONE_DETECTED` clears the count and looks at nothing. -/
theorem sync_after_mismatch (c : Config) (s : State) (x : In) (hs : s.fsm = .none) :
    (step c s x).1.fsm = .wait ∧ (step c s x).1.count = 0 := by
  simp [step, hs]

theorem mismatch_in_set (c : Config) (s : State) (k : Nat) (x : In) (hs : s.fsm = .det k)
    (hk : k < c.setData.length) (hv : x.valid = true) (hm : matchK c k x = false) :
    (step c s x).1.fsm = .none := by
  simp [step, hs, hk, hv, hm]

theorem mismatch_after_set (c : Config) (s : State) (k : Nat) (x : In) (hs : s.fsm = .det k)
    (hk : ¬ k < c.setData.length) (hv : x.valid = true) (hm : matchK c 0 x = false) :
    (step c s x).1.fsm = .none := by
  simp only [step, hs, hk, if_false, afterSet, hv, hm]
  split <;> simp

/-- Non-vacuity: TS1 with a burst of 2 — two back-to-back sets after the reset cycle give one pulse,
two cycles after the last word; a third set separated by an invalid cycle and a junk word does not. -/
example :
    let ts1 : Config := ⟨[0xBCBCBCBC, 0x4A4A0000, 0x4A4A4A4A, 0x4A4A4A4A], 15, 2, false⟩
    let set : List In := [⟨true, 0xBCBCBCBC, 15⟩, ⟨true, 0x4A4A0000, 0⟩, ⟨true, 0x4A4A4A4A, 0⟩, ⟨true, 0x4A4A4A4A, 0⟩]
    (run ts1 init ([⟨false, 0, 0⟩] ++ set ++ set ++ [⟨false, 0, 0⟩, ⟨true, 7, 0⟩] ++ set ++
        [⟨false, 0, 0⟩, ⟨false, 0, 0⟩, ⟨false, 0, 0⟩])).map (·.detected)
    = List.replicate 10 false ++ [true] ++ List.replicate 7 false := by decide

end LunaVerif.TS.Detector
