import LunaVerif.Lemmas.C25RxBack
/-!
# C25 (receive direction) — the cycle-level RxPipeline decodes `encode bytes` and latches a bit-stuffing violation

"… conversely any correctly encoded full-speed packet on D+/D- is delivered as exactly its bytes with receive-active
framing, and a bit-stuffing violation is reported as an error."

The model is `FsRx.step` (Model/Phy/FsRx.lean): the two input synchronizers, the line-state FSM and clock recovery of
`RxClockDataRecovery`, `RxNRZIDecoder`, `RxPacketDetect`, `RxBitstuffRemover`, `RxShifter`, `past_o_pkt_active` and
the latched `receive_error` of `RxPipeline`, one step per 48 MHz `usb_io` cycle -- the same function the co-simulation
compares with the real `RxPipeline` cycle by cycle on 21 internal signals.  Its outputs are what `RxPipeline` writes into
the two `AsyncFIFOBuffered` that cross into the 12 MHz `usb` domain (`flags_fifo`: packet start / packet end,
`payload_fifo`: the bytes) and `o_receive_error`.  The FIFOs themselves are NOT modelled: the theorems are about the
write side, i.e. they treat each FIFO as an in-order queue with unbounded delay (both FIFOs are read unconditionally every
`usb` cycle and are written at most once per bit time resp. byte, so they cannot fill up; that the two equally built
FIFOs keep the relative order of flags and bytes is established by co-simulation only).

Environment (explicit hypotheses): NOMINAL rate -- every line symbol is sampled exactly four times (`wave`); the packet
may start in any of the four sampling phases against the receiver's free-running idle bit clock (`k` arbitrary idle
samples before it); the path is in an idle state `idleSt c e` when the stimulus starts (`c ≤ 6` the free-running
bit-stuff counter, `e` the error latch left by the previous packet): true 15 cycles after reset on an idle bus
(`reset_idle`), kept by an idle bus (`idle_holds_error`) and re-established `4 (m + 2) + 3` idle cycles after every
packet (`rx_pipeline_decodes_encode`), so the theorems compose over any number of packets separated by at least 11 idle
cycles.  Clock recovery under frequency offset / jitter is not covered by a theorem (co-simulation with ±0.1 %, ±0.25 %
and larger offsets).

Proof structure: `Lemmas/C25RxFront` (no feedback: `run_split`; periodic regime of the front end: `block` by finite
check, `front_blocks` by induction over the symbols), `Lemmas/C25RxBack` (one bit time of the back end: `back_block`;
bit-level machine: `sync_run`, `unstuff_run` against `FsCodec.stuff`, `shifter_bytes`, `eop_run`, `idle_bits`,
`seven_ones_run`), and here the lock-in from every idle phase (`lock`, finite check), the bits of a packet's waveform
(`symBits_packet`, using `unnrzi_nrzi`) and the theorems of the property.
-/
set_option linter.unusedSimpArgs false
namespace LunaVerif.FsRx
open LunaVerif.FsCodec

/-- idle bus: `n` samples of J -/
def jn (n : Nat) : List In := List.replicate n (symIn .J)

/-- The receive path on an idle bus (J since at least four bit times), in the cycle in which the NRZI decoder presents
an idle 1; `c` = the free-running bit-stuff counter, `e` = the error latch (left over from the previous packet). -/
def idleSt (c : Nat) (e : Bool) : St := ⟨G true .J .J, conc ⟨0, c, srInit, e⟩ true⟩

theorem run_append (a b : List In) : ∀ s, run s (a ++ b) = ((run (run s a).1 b).1, (run s a).2 ++ (run (run s a).1 b).2) := by
  induction a with
  | nil => intro s; rfl
  | cons i is ih => intro s; simp only [List.cons_append, run, ih]

theorem forall_c_e (P : Nat → Bool → Prop) (h : ∀ (c : Fin 7) (e : Bool), P c.val e) : ∀ c e, c ≤ 6 → P c e :=
  fun c e hc => h ⟨c, by omega⟩ e

/-- 15 cycles after reset with the bus idle the path is in an idle state -/
theorem reset_idle : (run {} (jn 15)).1 = idleSt 1 false ∧ events (run {} (jn 15)).2 = [] ∧
    ∀ o ∈ (run {} (jn 15)).2, seOf o = (false, false) := by decide

/-- one idle bit time -/
theorem idle4 : ∀ c e, c ≤ 6 → (run (idleSt c e) (jn 4)).1 = idleSt (bsStep c true) e ∧
    events (run (idleSt c e) (jn 4)).2 = [] ∧ ∀ o ∈ (run (idleSt c e) (jn 4)).2, seOf o = (false, e) := by
  apply forall_c_e; decide

theorem idle_run (q : Nat) : ∀ c e, c ≤ 6 → (∃ c', c' ≤ 6 ∧ (run (idleSt c e) (jn (4 * q))).1 = idleSt c' e) ∧
    events (run (idleSt c e) (jn (4 * q))).2 = [] ∧ ∀ o ∈ (run (idleSt c e) (jn (4 * q))).2, seOf o = (false, e) := by
  induction q with
  | zero => intro c e hc; exact ⟨⟨c, hc, rfl⟩, rfl, by simp [jn, run]⟩
  | succ q ih =>
    intro c e hc
    obtain ⟨h1, h2, h3⟩ := idle4 c e hc
    obtain ⟨⟨c', hc', i1⟩, i2, i3⟩ := ih (bsStep c true) e (bsStep_le c true hc)
    have hj : jn (4 * (q + 1)) = jn 4 ++ jn (4 * q) := by
      simp only [jn, ← List.replicate_append_replicate]; congr 1
    rw [hj, run_append, h1]
    refine ⟨⟨c', hc', i1⟩, ?_, ?_⟩
    · simp only [events_append, h2, i2, List.append_nil]
    · intro o ho
      rcases List.mem_append.mp ho with ho | ho
      · exact h3 o ho
      · exact i3 o ho

/-- **lock**: whatever the sampling phase `r` of the first K against the idle bit clock, the first transition
re-aligns `line_state_phase`; seven cycles into the packet the front end is in the periodic regime. -/
theorem lock : ∀ (r : Fin 4) c e, c ≤ 6 →
    (run (idleSt c e) (jn r.val ++ [symIn .K, symIn .K, symIn .K, symIn .K, symIn .J, symIn .J, symIn .J])).1 =
      ⟨G false .K .J, conc ⟨0, bsStep (bsStep c true) true, srInit, e⟩ true⟩ ∧
    events (run (idleSt c e) (jn r.val ++ [symIn .K, symIn .K, symIn .K, symIn .K, symIn .J, symIn .J, symIn .J])).2 = [] ∧
    ∀ o ∈ (run (idleSt c e) (jn r.val ++ [symIn .K, symIn .K, symIn .K, symIn .K, symIn .J, symIn .J, symIn .J])).2,
      seOf o = (false, e) := by
  intro r
  apply forall_c_e
  revert r
  decide

theorem lock' (r : Nat) (hr : r < 4) (c : Nat) (e : Bool) (hc : c ≤ 6) :
    (run (idleSt c e) (jn r ++ [symIn .K, symIn .K, symIn .K, symIn .K, symIn .J, symIn .J, symIn .J])).1 =
      ⟨G false .K .J, conc ⟨0, bsStep (bsStep c true) true, srInit, e⟩ true⟩ ∧
    events (run (idleSt c e) (jn r ++ [symIn .K, symIn .K, symIn .K, symIn .K, symIn .J, symIn .J, symIn .J])).2 = [] ∧
    ∀ o ∈ (run (idleSt c e) (jn r ++ [symIn .K, symIn .K, symIn .K, symIn .K, symIn .J, symIn .J, symIn .J])).2,
      seOf o = (false, e) := lock ⟨r, hr⟩ c e hc

/-! ### the bits of a packet's waveform -/

def lastLvl : Bool → List Bool → Bool
  | l, [] => l
  | _, x :: xs => lastLvl x xs

theorem symBits_lvl (ls : List Bool) : ∀ (l : Bool) (rest : List Sym),
    symBits (lvl l) (ls.map lvl ++ rest) = fbits (unnrzi l ls) ++ symBits (lvl (lastLvl l ls)) rest := by
  induction ls with
  | nil => intro l rest; rfl
  | cons x xs ih =>
    intro l rest
    simp only [List.map, List.cons_append, symBits, unnrzi, fbits, lastLvl, ih]
    cases x <;> cases l <;> rfl

theorem symBits_idle (m : Nat) : symBits .J (List.replicate m .J) = List.replicate m (true, false) := by
  induction m with
  | zero => rfl
  | succ m ih => simp only [List.replicate_succ, symBits, ih]; rfl

theorem symBits_eop (l : Bool) (m : Nat) :
    symBits (lvl l) ([.SE0, .SE0, .J] ++ List.replicate m .J) =
      [(!l, true), (true, true), (false, false)] ++ List.replicate m (true, false) := by
  simp only [List.cons_append, List.nil_append, symBits, symBits_idle]
  cases l <;> rfl

/-- the bits the NRZI decoder produces for the waveform of the bit list `bits` (SYNC included), EOP and `m` idle
bit times -/
theorem symBits_packet (bits : List Bool) (m : Nat) :
    symBits .J ((nrzi true bits).map lvl ++ [.SE0, .SE0, .J] ++ List.replicate m .J) =
      fbits bits ++ [(!lastLvl true (nrzi true bits), true), (true, true), (false, false)] ++
        List.replicate m (true, false) := by
  have := symBits_lvl (nrzi true bits) true ([.SE0, .SE0, .J] ++ List.replicate m .J)
  rw [unnrzi_nrzi, symBits_eop] at this
  simp only [List.append_assoc]
  exact this

theorem lastSym_JJ (w : List Sym) : ∀ c d, lastSym d (w ++ [.J, .J]) = .J ∧ prevSym c d (w ++ [.J, .J]) = .J := by
  induction w with
  | nil => intro c d; exact ⟨rfl, rfl⟩
  | cons x w ih => intro c d; exact ih d x

/-- **nominal-rate reception, any sampling phase**: for a waveform `K J rest J J` (every symbol four samples, the
first one `k` cycles after an idle state, three idle samples at the end) the back end is stepped through exactly the
bits of the waveform but the last, and the front end is back in its idle state. -/
theorem run_wave (c : Nat) (e : Bool) (hc : c ≤ 6) (k : Nat) (w : List Sym) :
    ∃ c0, c0 ≤ 6 ∧
    (run (idleSt c e) (jn k ++ wave (.K :: .J :: (w ++ [.J, .J])) ++ jn 3)).1 =
      ⟨G true .J .J, conc (bitRun ⟨0, c0, srInit, e⟩ (symBits .J (.K :: .J :: (w ++ [.J, .J]))).dropLast)
        (lastD true (symBits .J (.K :: .J :: (w ++ [.J, .J]))).dropLast)⟩ ∧
    events (run (idleSt c e) (jn k ++ wave (.K :: .J :: (w ++ [.J, .J])) ++ jn 3)).2 =
      bitEvs ⟨0, c0, srInit, e⟩ (symBits .J (.K :: .J :: (w ++ [.J, .J]))).dropLast ∧
    ∃ pre, (∀ p ∈ pre, p = (false, e)) ∧
      (run (idleSt c e) (jn k ++ wave (.K :: .J :: (w ++ [.J, .J])) ++ jn 3)).2.map seOf =
        pre ++ bitSEs ⟨0, c0, srInit, e⟩ (symBits .J (.K :: .J :: (w ++ [.J, .J]))).dropLast := by
  -- split the idle prefix into whole bit times and the sampling phase
  obtain ⟨⟨c1, hc1, q1⟩, q2, q3⟩ := idle_run (k / 4) c e hc
  obtain ⟨l1, l2, l3⟩ := lock' (k % 4) (Nat.mod_lt _ (by omega)) c1 e hc1
  refine ⟨bsStep (bsStep c1 true) true, bsStep_le _ _ (bsStep_le _ _ hc1), ?_⟩
  have hin : jn k ++ wave (.K :: .J :: (w ++ [.J, .J])) ++ jn 3 =
      jn (4 * (k / 4)) ++ ((jn (k % 4) ++ [symIn .K, symIn .K, symIn .K, symIn .K, symIn .J, symIn .J, symIn .J]) ++
        blocks .J (w ++ [.J, .J])) := by
    have hk : jn k = jn (4 * (k / 4)) ++ jn (k % 4) := by
      simp only [jn, List.replicate_append_replicate]; congr 1; omega
    have hw := wave_cons_blocks .K (.J :: (w ++ [.J, .J]))
    have hb : blocks .K (.J :: (w ++ [.J, .J])) =
        symIn .K :: symIn .J :: symIn .J :: symIn .J :: blocks .J (w ++ [.J, .J]) := rfl
    have h3 : jn 3 = [symIn .J, symIn .J, symIn .J] := rfl
    rw [List.append_assoc, h3, hw, hb, hk]
    simp only [List.append_assoc, List.cons_append, List.nil_append]
  rw [hin, run_append, q1, run_append, l1]
  -- the periodic part
  obtain ⟨f1, f2⟩ := front_blocks (w ++ [.J, .J]) false .K .J
  obtain ⟨s1, s2⟩ := lastSym_JJ w .K .J
  rw [s1, s2] at f1
  have hbits : (false, se0Of .K) :: (symBits .K (.J :: (w ++ [.J, .J]))).dropLast =
      (symBits .J (.K :: .J :: (w ++ [.J, .J]))).dropLast := by
    simp [symBits, bitOf, dkOf, se0Of, List.dropLast]
  rw [hbits] at f2
  obtain ⟨b1, b2, b3⟩ := back_blocks (symBits .J (.K :: .J :: (w ++ [.J, .J]))).dropLast
    ⟨0, bsStep (bsStep c1 true) true, srInit, e⟩ true
  rw [run_split]
  simp only [f1, f2, b1, b2]
  refine ⟨?_, ?_, ?_⟩
  · rfl
  · simp only [events_append, q2, l2, List.nil_append]
    exact b2
  · refine ⟨(run (idleSt c e) (jn (4 * (k / 4)))).2.map seOf ++ (run (idleSt c1 e)
        (jn (k % 4) ++ [symIn .K, symIn .K, symIn .K, symIn .K, symIn .J, symIn .J, symIn .J])).2.map seOf, ?_, ?_⟩
    · intro p hp
      rcases List.mem_append.mp hp with hp | hp
      · obtain ⟨o, ho, rfl⟩ := List.mem_map.mp hp; exact q3 o ho
      · obtain ⟨o, ho, rfl⟩ := List.mem_map.mp hp; exact l3 o ho
    · simp only [List.map_append, b3, List.append_assoc]

theorem lastD_idle (x : List (Bool × Bool)) (m : Nat) (bd : Bool) :
    lastD bd (x ++ List.replicate (m + 1) (true, false)) = true := by
  induction x generalizing bd with
  | nil =>
    induction m generalizing bd with
    | zero => rfl
    | succ m ih => rw [List.replicate_succ]; exact ih true
  | cons b bs ih => exact ih b.1

/-- the waveform of a packet whose bit stream after SYNC is `bits`, followed by `m + 2` idle bit times -/
def packetWave (bits : List Bool) (m : Nat) : List Sym :=
  (nrzi true (syncBits ++ bits)).map lvl ++ [.SE0, .SE0, .J] ++ List.replicate (m + 2) .J

/-- what the back end is stepped through for `packetWave bits m` -/
def packetBits (bits : List Bool) (m : Nat) : List (Bool × Bool) :=
  fbits syncBits ++ (fbits bits ++ ([(!lastLvl true (nrzi true (syncBits ++ bits)), true), (true, true), (false, false)] ++
    List.replicate (m + 1) (true, false)))

theorem run_packet (c : Nat) (e : Bool) (hc : c ≤ 6) (k : Nat) (bits : List Bool) (m : Nat) :
    ∃ c0, c0 ≤ 6 ∧
    (run (idleSt c e) (jn k ++ wave (packetWave bits m) ++ jn 3)).1 =
      ⟨G true .J .J, conc (bitRun ⟨0, c0, srInit, e⟩ (packetBits bits m)) true⟩ ∧
    events (run (idleSt c e) (jn k ++ wave (packetWave bits m) ++ jn 3)).2 = bitEvs ⟨0, c0, srInit, e⟩ (packetBits bits m) ∧
    ∃ pre, (∀ p ∈ pre, p = (false, e)) ∧
      (run (idleSt c e) (jn k ++ wave (packetWave bits m) ++ jn 3)).2.map seOf =
        pre ++ bitSEs ⟨0, c0, srInit, e⟩ (packetBits bits m) := by
  have hshape : packetWave bits m = .K :: .J ::
      (((nrzi true ([false, false, false, false, false, true] ++ bits)).map lvl ++ [.SE0, .SE0, .J] ++
        List.replicate m .J) ++ [.J, .J]) := by
    have : List.replicate (m + 2) Sym.J = List.replicate m Sym.J ++ [.J, .J] := by
      rw [← List.replicate_append_replicate]; rfl
    simp only [packetWave, this, syncBits, List.cons_append, nrzi, List.map, lvl, List.append_assoc]
    simp
  have hbits : (symBits .J (packetWave bits m)).dropLast = packetBits bits m := by
    have h := symBits_packet (syncBits ++ bits) (m + 2)
    simp only [packetWave]
    rw [h, List.replicate_succ' (n := m + 1), ← List.append_assoc, List.dropLast_concat]
    simp only [packetBits, fbits, List.map_append, List.append_assoc]
  obtain ⟨c0, h0, h1, h2, h3⟩ := run_wave c e hc k
    ((nrzi true ([false, false, false, false, false, true] ++ bits)).map lvl ++ [.SE0, .SE0, .J] ++ List.replicate m .J)
  rw [← hshape, hbits] at h1 h2 h3
  refine ⟨c0, h0, ?_, h2, h3⟩
  rw [h1]
  have : lastD true (packetBits bits m) = true := by
    simp only [packetBits, ← List.append_assoc]
    exact lastD_idle _ m true
  rw [this]

/-- nominal-rate input: `k` idle samples, the waveform `w` with four samples per bit, `m + 2` idle bit times and three
more idle samples -/
def rxInput (k : Nat) (w : List Sym) (m : Nat) : List In :=
  jn k ++ wave (w ++ List.replicate (m + 2) .J) ++ jn 3

/-- `o_receive_error` is never seen in a cycle after the one with `o_pkt_start` -/
def noErrorAfterStart (outs : List Out) : Prop := errAfter false (outs.map seOf) = false

/-- **the receive chain decodes `encode`** (cycle level, nominal rate, any sampling phase).  From an idle state, for every
byte list: the waveform `encode bytes`, four samples per bit, starting after any number `k` of idle samples (so in
any phase against the idle bit clock), makes the receive chain write into the clock-domain crossing exactly: packet
start, the bytes in order, each once, packet end; the latched receive error is low from the cycle after the start
flag on; `4 (m + 2) + 3` idle cycles after the packet the path is in an idle state again, error latch clear. -/
theorem rx_pipeline_decodes_encode (bytes : List Nat) (hb : ∀ b ∈ bytes, b < 256)
    (c : Nat) (e : Bool) (hc : c ≤ 6) (k m : Nat) :
    events (run (idleSt c e) (rxInput k (encode bytes) m)).2 = [.start] ++ bytes.map Ev.byte ++ [.fin] ∧
    noErrorAfterStart (run (idleSt c e) (rxInput k (encode bytes) m)).2 ∧
    ∃ c', c' ≤ 6 ∧ (run (idleSt c e) (rxInput k (encode bytes) m)).1 = idleSt c' false := by
  obtain ⟨c0, h0, h1, h2, pre, h3, h4⟩ := run_packet c e hc k (stuff 1 (bitsOf bytes)) m
  have hin : rxInput k (encode bytes) m = jn k ++ wave (packetWave (stuff 1 (bitsOf bytes)) m) ++ jn 3 := by
    simp only [rxInput, encode, packetWave, List.append_assoc]
  rw [hin]
  -- the four phases of the bit-level run
  obtain ⟨s1, s2, s3, s4⟩ := sync_run c0 h0 e
  obtain ⟨⟨n', hn', d1⟩, d2, d3⟩ := unstuff_run (bitsOf bytes) 1 srInit (by omega)
  obtain ⟨a1, a2⟩ := shifter_bytes bytes hb srInit (Or.inr rfl)
  obtain ⟨⟨c1, hc1, e1⟩, e2, e3⟩ := eop_run n' (shRun srInit (bitsOf bytes))
    (!lastLvl true (nrzi true (syncBits ++ stuff 1 (bitsOf bytes)))) false (by omega)
  obtain ⟨⟨c2, hc2, i1⟩, i2, i3⟩ := idle_bits m 1 c1 false (by omega) hc1
  refine ⟨?_, ?_, c2, hc2, ?_⟩
  · rw [h2]
    simp only [packetBits, bitEvs_append, s1, s2, d1, d2, a2, e1, e2, i2, List.append_nil, List.append_assoc]
  · simp only [noErrorAfterStart]
    rw [h4]
    simp only [packetBits, bitSEs_append, s1, d1, e1]
    rw [errAfter_append, errAfter_nostart pre (fun p hp => by rw [h3 p hp])]
    have hpre : pre.any (·.1) = false := by
      rw [List.any_eq_false]; intro p hp; rw [h3 p hp]; simp
    rw [hpre, errAfter_append]
    simp only [Bool.or_false, Bool.false_or, s3, s4, Bool.or_true, Bool.true_or]
    apply errAfter_clean
    intro p hp
    rcases List.mem_append.mp hp with hp | hp
    · rw [d3 p hp]
    rcases List.mem_append.mp hp with hp | hp
    · rw [e3 p hp]
    · rw [i3 p hp]
  · rw [h1]
    simp only [packetBits, bitRun_append, s1, d1, e1, i1]
    rfl

/-- **a bit-stuffing violation latches the receive error** (cycle level, nominal rate, any sampling phase): a packet
whose bit stream after SYNC contains seven consecutive 1s anywhere (`pre`, `post` arbitrary) -- packet start and packet
end are written into the clock-domain crossing, and at the end of the run `o_receive_error` is set: it is held until the
next packet start (`idle_holds_error`, `rx_pipeline_decodes_encode`). -/
theorem stuff_error_detected_cycle (pre post : List Bool) (c : Nat) (e : Bool) (hc : c ≤ 6) (k m : Nat) :
    (∃ evs, events (run (idleSt c e) (rxInput k
        ((nrzi true (syncBits ++ (pre ++ List.replicate 7 true ++ post))).map lvl ++ [.SE0, .SE0, .J]) m)).2 =
          [.start] ++ evs ++ [.fin]) ∧
    ∃ c', c' ≤ 6 ∧ (run (idleSt c e) (rxInput k
        ((nrzi true (syncBits ++ (pre ++ List.replicate 7 true ++ post))).map lvl ++ [.SE0, .SE0, .J]) m)).1 =
          idleSt c' true := by
  obtain ⟨c0, h0, h1, h2, _⟩ := run_packet c e hc k (pre ++ List.replicate 7 true ++ post) m
  have hin : rxInput k ((nrzi true (syncBits ++ (pre ++ List.replicate 7 true ++ post))).map lvl ++ [.SE0, .SE0, .J]) m =
      jn k ++ wave (packetWave (pre ++ List.replicate 7 true ++ post) m) ++ jn 3 := by
    simp only [rxInput, packetWave, List.append_assoc]
  rw [hin]
  obtain ⟨s1, s2, _, _⟩ := sync_run c0 h0 e
  obtain ⟨n1, sr1, e1, hn1, p1⟩ := active_run pre 1 srInit false (by omega)
  obtain ⟨n2, sr2, hn2, p2⟩ := seven_ones_run n1 hn1 sr1 e1
  obtain ⟨n3, sr3, p3, hn3⟩ := err_sticky post n2 sr2
  obtain ⟨⟨c1, hc1, q1⟩, q2, _⟩ := eop_run n3 sr3
    (!lastLvl true (nrzi true (syncBits ++ (pre ++ List.replicate 7 true ++ post)))) true (hn3 hn2)
  obtain ⟨⟨c2, hc2, i1⟩, i2, _⟩ := idle_bits m 1 c1 true (by omega) hc1
  have hrun : bitRun ⟨6, 1, srInit, false⟩ (fbits (pre ++ List.replicate 7 true ++ post)) = ⟨6, n3, sr3, true⟩ := by
    simp only [fbits, List.map_append] at p1 p2 p3 ⊢
    simp only [bitRun_append, p1, p2, p3]
  refine ⟨⟨bitEvs ⟨6, 1, srInit, false⟩ (fbits (pre ++ List.replicate 7 true ++ post)), ?_⟩, c2, hc2, ?_⟩
  · rw [h2]
    simp only [packetBits, bitEvs_append, s1, s2, hrun, q1, q2, i2]
    simp only [List.append_nil, List.append_assoc]
  · rw [h1]
    simp only [packetBits, bitRun_append, s1, hrun, q1, i1]
    rfl

/-- on an idle bus nothing is written and the error latch keeps its value -/
theorem idle_holds_error (c : Nat) (e : Bool) (hc : c ≤ 6) (q : Nat) :
    (∃ c', c' ≤ 6 ∧ (run (idleSt c e) (jn (4 * q))).1 = idleSt c' e) ∧
    events (run (idleSt c e) (jn (4 * q))).2 = [] ∧ ∀ o ∈ (run (idleSt c e) (jn (4 * q))).2, o.rxErr = e := by
  obtain ⟨h1, h2, h3⟩ := idle_run q c e hc
  exact ⟨h1, h2, fun o ho => by have := h3 o ho; simp only [seOf, Prod.mk.injEq] at this; exact this.2⟩

/-! ### non-vacuity: runs of the model itself -/

/-- from reset: 15 idle cycles, then `[0xA5]` in sampling phase 2 -/
example : events (run {} (jn 15 ++ rxInput 2 (encode [0xA5]) 0)).2 = [.start, .byte 0xA5, .fin] := by decide +kernel

/-- a packet whose data ends in six 1s and a stuffed 0, from an idle state with a stale error, phase 3 -/
example : events (run (idleSt 5 true) (rxInput 3 (encode [0x0F, 0xFC]) 1)).2 = [.start, .byte 0x0F, .byte 0xFC, .fin] ∧
    (run (idleSt 5 true) (rxInput 3 (encode [0x0F, 0xFC]) 1)).1 = idleSt 2 false := by decide +kernel

/-- seven 1s: the error is latched at the end -/
example : ((run (idleSt 0 false) (rxInput 1
    ((nrzi true (syncBits ++ ([false] ++ List.replicate 7 true ++ [false]))).map lvl ++ [.SE0, .SE0, .J]) 0)).1).b.rxErr = true := by
  decide +kernel

/-- the hypotheses of the theorems are satisfiable: the state reached from reset is an idle state -/
example : ∃ c e, c ≤ 6 ∧ (run {} (jn 15)).1 = idleSt c e := ⟨1, false, by omega, reset_idle.1⟩

end LunaVerif.FsRx
