import LunaVerif.Lemmas.C56StreamAny
import LunaVerif.Model.Periph.IlaCdc
/-!
# C56 — read-out of the captured samples through `StreamILA` into another clock domain

"The ILA captures exactly the samples following a trigger" — for the stream wrapper with `o_domain != domain`: the words
transferred on the output stream *in the output clock domain* are exactly the `depth` consecutive (delayed) samples that
followed the trigger, in order, each once, framed by `first` / `last` — for every interleaving of the clock edges of the two
domains (any frequency ratio and phase, even varying), every `ready` pattern of the consumer, and every behaviour of the
FIFO that respects the contract of an in-order queue (`w_rdy` / `r_rdy` arbitrary, `r_rdy` only when a word is there:
`Legal`): no assumption on its depth or on the delay through its synchronizers.

What is not proved: that Amaranth's `AsyncFIFOBuffered` implements that contract for all histories (library code; the
check validates it on every simulated two-clock trace of the real gateware), and liveness (that `r_rdy` eventually rises).
-/
namespace LunaVerif.IlaCdc
open LunaVerif.Ila

/-- the capture-domain cycles of a history, as the read-out FSM's input history (`ready` = the `w_rdy` oracle) -/
def wHist : List Ev → List IlaStream.In
  | [] => []
  | .w t x rdy :: es => ⟨t, x, rdy⟩ :: wHist es
  | .r _ _ :: es => wHist es

/-- the FIFO oracle respects the contract of a queue: `r_rdy` only when the queue is non-empty -/
def Legal (c : Config) : State → List Ev → Prop
  | _, [] => True
  | s, e :: es => (step c s e).2.ok = true ∧ Legal c (step c s e).1 es

instance (c : Config) : ∀ s es, Decidable (Legal c s es)
  | _, [] => isTrue trivial
  | s, e :: es =>
    have := instDecidableLegal c (step c s e).1 es
    inferInstanceAs (Decidable ((step c s e).2.ok = true ∧ Legal c (step c s e).1 es))

/-- the words transferred on the output stream: cycles of the output domain with `valid` (= `r_rdy`) and `ready` -/
def outWords (c : Config) : State → List Ev → List Word
  | _, [] => []
  | s, .w t x rdy :: es => outWords c (step c s (.w t x rdy)).1 es
  | s, .r en rdy :: es =>
    (if en && rdy then [((step c s (.r en rdy)).2.payload, (step c s (.r en rdy)).2.first, (step c s (.r en rdy)).2.last)]
     else []) ++ outWords c (step c s (.r en rdy)).1 es

/-- **queue_conservation**: over any legal history, the words that came out of the output stream followed by the words
still in the FIFO are the words that were in the FIFO at the start followed by the words the read-out FSM transferred
into it — nothing lost, duplicated or reordered; and the read-out FSM runs on the capture-domain cycles alone. -/
theorem queue_conservation (c : Config) (es : List Ev) : ∀ s, Legal c s es →
    outWords c s es ++ (runState c s es).q = s.q ++ IlaStream.transfers c s.ila (wHist es) ∧
    (runState c s es).ila = IlaStream.runState c s.ila (wHist es) := by
  induction es with
  | nil => intro s _; simp [outWords, runState, wHist, IlaStream.transfers, IlaStream.runState]
  | cons e es ih =>
    intro s hL
    obtain ⟨h0, hL⟩ := hL
    obtain ⟨i1, i2⟩ := ih _ hL
    cases e with
    | w t x rdy =>
      simp only [outWords, runState, wHist, IlaStream.transfers, IlaStream.runState]
      rw [i1, i2]
      simp [step, IlaStream.xferOf]
    | r en rdy =>
      obtain ⟨ila, q⟩ := s
      simp only [outWords, runState, wHist]
      rw [List.append_assoc, i1, i2]
      cases q with
      | nil =>
        have hr : rdy = false := by simpa [step] using h0
        simp [step, hr]
      | cons h t =>
        cases hc : (en && rdy) <;> simp [step, hc]

/-- **cdc_readout_in_order**: a legal two-clock history `es` whose capture-domain cycles are: a trigger seen while the
wrapper is idle (`x0`), the `depth` capture cycles `xs`, the hand-over cycle `xl`, then any continuation `ys` that starts
no new capture — interleaved in any way with any number of output-domain cycles.  Then the words transferred on the output
stream, followed by the words still in the FIFO at the end, are the words in the FIFO at the start followed by the first
`k` of the `depth` captured samples, framed (`first` on sample 0, `last` on sample `depth - 1`), with `k ≥ depth` if the
wrapper is idle again at the end. -/
theorem cdc_readout_in_order (c : Config) (hd : 1 ≤ c.depth) (σ : State) (hσ : IlaStream.WIdle c σ.ila) (es : List Ev)
    (x0 : IlaStream.In) (xs : List IlaStream.In) (xl : IlaStream.In) (ys : List IlaStream.In)
    (hw : wHist es = x0 :: xs ++ xl :: ys) (ht : x0.trigger = true) (hl : xs.length = c.depth)
    (hq : IlaStream.noRetrigger c (IlaStream.runState c σ.ila (x0 :: xs ++ [xl])) ys) (hL : Legal c σ es) :
    ∃ k, outWords c σ es ++ (runState c σ es).q =
        σ.q ++ (IlaStream.frame (((σ.ila.core.dl ++ IlaStream.inputsOfW (x0 :: xs)).drop 1).take c.depth)).take k ∧
      ((runState c σ es).ila.fsm = .idle → c.depth ≤ k) := by
  obtain ⟨h1, h2⟩ := queue_conservation c es σ hL
  obtain ⟨k, hk1, hk2⟩ := IlaStream.stream_readout_any c hd σ.ila hσ x0 ht xs hl xl ys hq
  rw [hw] at h1 h2
  exact ⟨k, by rw [h1, hk1], fun h => hk2 (by rw [← h2]; exact h)⟩

/-- **cdc_readout_complete**: if moreover the FIFO is empty at the start and at the end and the wrapper is idle again at
the end, the output stream carried exactly the `depth` captured samples, in order, each once, framed. -/
theorem cdc_readout_complete (c : Config) (hd : 1 ≤ c.depth) (σ : State) (hσ : IlaStream.WIdle c σ.ila) (es : List Ev)
    (x0 : IlaStream.In) (xs : List IlaStream.In) (xl : IlaStream.In) (ys : List IlaStream.In)
    (hw : wHist es = x0 :: xs ++ xl :: ys) (ht : x0.trigger = true) (hl : xs.length = c.depth)
    (hq : IlaStream.noRetrigger c (IlaStream.runState c σ.ila (x0 :: xs ++ [xl])) ys) (hL : Legal c σ es)
    (hq0 : σ.q = []) (hq1 : (runState c σ es).q = []) (hi : (runState c σ es).ila.fsm = .idle) :
    outWords c σ es = IlaStream.frame (((σ.ila.core.dl ++ IlaStream.inputsOfW (x0 :: xs)).drop 1).take c.depth) := by
  obtain ⟨k, h1, h2⟩ := cdc_readout_in_order c hd σ hσ es x0 xs xl ys hw ht hl hq hL
  rw [hq0, hq1, List.append_nil, List.nil_append] at h1
  rw [h1]
  apply List.take_of_length_le
  rw [IlaStream.frame, IlaStream.frameFrom_length, IlaStream.samples_length c σ.ila x0 xs hl]
  exact h2 hi

/-! ## Non-vacuity: depth 2, pre-trigger 1; output-domain cycles interleaved irregularly, `w_rdy` low for a while
(FIFO "full"), `r_rdy` rising late; at the end the wrapper is idle and the FIFO empty -/
def exEvents : List Ev :=
  [.w true 10 true, .r true false, .w false 11 true, .w false 12 true, .r true false, .w false 13 false, .w true 14 true,
   .r false true, .w false 15 false, .w false 15 true, .r true true, .w false 15 true, .r true false, .r true true, .r true false]

example : wHist exEvents = ⟨true, 10, true⟩ :: [⟨false, 11, true⟩, ⟨false, 12, true⟩] ++ ⟨false, 13, false⟩ ::
    [⟨true, 14, true⟩, ⟨false, 15, false⟩, ⟨false, 15, true⟩, ⟨false, 15, true⟩] := rfl
example : Legal ⟨2, 1⟩ (init ⟨2, 1⟩) exEvents := by decide
example : IlaStream.noRetrigger ⟨2, 1⟩ (IlaStream.runState ⟨2, 1⟩ (init ⟨2, 1⟩).ila
      (⟨true, 10, true⟩ :: [⟨false, 11, true⟩, ⟨false, 12, true⟩] ++ [⟨false, 13, false⟩]))
    [⟨true, 14, true⟩, ⟨false, 15, false⟩, ⟨false, 15, true⟩, ⟨false, 15, true⟩] := by decide
example : outWords ⟨2, 1⟩ (init ⟨2, 1⟩) exEvents = [(10, true, false), (11, false, true)] ∧
    (runState ⟨2, 1⟩ (init ⟨2, 1⟩) exEvents).q = [] ∧ (runState ⟨2, 1⟩ (init ⟨2, 1⟩) exEvents).ila.fsm = .idle := by decide
/-- an oracle that claims `r_rdy` on an empty queue is not legal -/
example : ¬ Legal ⟨2, 1⟩ (init ⟨2, 1⟩) [.r true true] := by decide

end LunaVerif.IlaCdc
