import LunaVerif.Props.C13Space
/-!
# C13 — packets that are not for the endpoint may have any length

`LegalHost` (Lemmas/C13Host.lean, `Phase.step`) bounds a data packet by the endpoint's `max_packet_size` only when
the transaction is addressed to the endpoint (`lenOk`: the token registers name the endpoint, OUT).  Every other
packet on the bus — a packet for another endpoint, the 8-byte SETUP packet of a control transfer next to a 4-byte
OUT endpoint, a 512-byte packet of a high-speed neighbour — may have ANY length; all history-level theorems of C13
(`out_stream_exact`, `nak_iff_cannot_take`, `ack_implies_delivered_or_repeat`, `ack_when_space`,
`ping_ack_promise`, …) and the refinement lemmas built on the acceptor (Lemmas/C12OutRefine.lean, Lemmas/C57Cyc*.lean)
are proved for this acceptor.

This file has

* the FORMER acceptor, verbatim (`Phase.stepStrict`, `LegalHostStrict`: every packet on the bus is bounded by this
  endpoint's `max_packet_size`), and `legalHostStrict_imp`: it implies `LegalHost`, so every theorem about
  `LegalHost` histories also holds for the histories of the former hypothesis; `legalHost_not_strict` shows that the
  new hypothesis is strictly weaker;
* `foreign_cycle_ignored` / `foreign_cycles_ignored`: while the token registers do not name the endpoint as the target of an OUT
  transaction the endpoint ignores the receiver altogether, whatever it presents and for however many cycles: the
  FIFO's write side does not move (nothing written, committed or discarded), the data toggle, `rx_cnt`,
  `transfer_active`, `packet_is_full`, `overflow`, `packet_has_data` keep their values, and the only handshake the
  endpoint can ask for is the answer to a PING (`tokenizer.ready_for_response` of a PING token for the endpoint);
  by induction over the cycles, for every start state;
* `foreign_transaction_ignored`: the same for the cycles of a transaction of the acceptor whose token is not for the
  endpoint (the acceptor keeps the token fields stable, so every cycle of it is such a cycle).

A packet FOR the endpoint that is longer than the free space takes the overflow path (`lost_byte_sets_overflow`,
`overflow_sticky`, `overflowed_packet_discarded`, `overflowed_packet_naked`, `nak_iff_cannot_take`); a packet for the
endpoint longer than its own `max_packet_size` is outside `LegalHost` (the host never sends it, USB 2.0 §5.8.3).
-/
namespace LunaVerif.StreamOutEndpoint
open LunaVerif

/-! ## The former acceptor implies the generalised one -/

/-- The acceptor as it was before the generalisation (verbatim): EVERY packet is bounded by `max_packet_size`. -/
def Phase.stepStrict (c : Config) : Phase → In → Option Phase
  | .idle, i =>
    if isByte i || i.rxReady then none
    else if i.tokNew then (if (Tok.of i).wf then some (.tok (Tok.of i)) else none)
    else some .idle
  | .tok t, i =>
    if i.rxReady then none
    else if i.tokNew then (if (Tok.of i).wf && !isByte i then some (.tok (Tok.of i)) else none)
    else if Tok.of i != t then none
    else if isByte i then
      (if !strobeAny i && decide (1 ≤ c.mps) then some (.rx t i.pidToggle [] none i.rx.payload) else none)
    else if strobeAny i then
      (if strobeOne i then some (.finByte t i.pidToggle [] none i.rx.completeIn) else none)
    else some (.tok t)
  | .rx t pid sent now buf, i =>
    if !stable c t pid i || i.rxReady then none
    else if isByte i then
      (if !strobeAny i && decide (sent.length + now.toList.length + 2 ≤ c.mps)
        then some (.rx t pid (sent ++ now.toList) (some buf) i.rx.payload) else none)
    else if i.rx.valid then
      (if !strobeAny i then some (.rx t pid (sent ++ now.toList) none buf) else none)
    else (if strobeOne i then some (.finByte t pid (sent ++ now.toList) (some buf) i.rx.completeIn) else none)
  | .finByte t pid sent now ok, i =>
    if !stable c t pid i || isByte i || (i.rxReady && !ok) then none
    else some (.finStrobe t pid (sent ++ now.toList) ok i.rxReady)
  | .finStrobe t pid bytes ok responded, i =>
    if !stable c t pid i || isByte i || (i.rxReady && (!ok || responded)) then none
    else if responded || i.rxReady || !ok then some .idle else some (.finWait t pid bytes)
  | .finWait t pid bytes, i =>
    if !stable c t pid i || isByte i then none
    else if i.rxReady then some .idle else some (.finWait t pid bytes)

def Phase.runStrict (c : Config) : Phase → List In → Option Phase
  | p, [] => some p
  | p, i :: is => match p.stepStrict c i with
    | some p' => Phase.runStrict c p' is
    | none => none

def LegalHostStrict (c : Config) (ins : List In) : Bool :=
  match Phase.runStrict c .idle ins with
  | some p => p.quiet
  | none => false

theorem lenOk_of_le {c : Config} {t : Tok} {n : Nat} (h : n ≤ c.mps) : lenOk c t n = true := by
  simp [lenOk, h]

theorem stepStrict_imp {c : Config} {p p' : Phase} {i : In} (h : p.stepStrict c i = some p') :
    p.step c i = some p' := by
  cases p with
  | idle => exact h
  | tok t =>
    simp only [Phase.stepStrict] at h
    simp only [Phase.step]
    repeat' split at h
    all_goals simp_all [lenOk]
  | rx t pid sent now buf =>
    simp only [Phase.stepStrict] at h
    simp only [Phase.step]
    repeat' split at h
    all_goals simp_all [lenOk]
  | finByte t pid sent now ok => exact h
  | finStrobe t pid bytes ok responded => exact h
  | finWait t pid bytes => exact h

theorem runStrict_imp {c : Config} {ins : List In} : ∀ {p p' : Phase}, Phase.runStrict c p ins = some p' →
    Phase.run c p ins = some p' := by
  induction ins with
  | nil => intro p p' h; exact h
  | cons i is ih =>
    intro p p' h
    simp only [Phase.runStrict] at h
    cases hs : p.stepStrict c i with
    | none => simp [hs] at h
    | some p1 =>
      simp only [hs] at h
      simp only [Phase.run, stepStrict_imp hs]
      exact ih h

/-- **The former hypothesis implies the new one**: a history in which every bus packet is bounded by the
endpoint's `max_packet_size` is a `LegalHost` history. -/
theorem legalHostStrict_imp {c : Config} {ins : List In} (h : LegalHostStrict c ins = true) :
    LegalHost c ins = true := by
  simp only [LegalHostStrict] at h
  cases hr : Phase.runStrict c .idle ins with
  | none => simp [hr] at h
  | some p =>
    simp only [hr] at h
    simp only [LegalHost, runStrict_imp hr]
    exact h

/-! ## Cycles in which the token registers do not name the endpoint -/

/-- `tokenizer.ready_for_response` of a PING token for the endpoint -/
def pingReq (c : Config) (i : In) : Bool := i.tokEp == c.epNum && i.tokIsPing && i.tokReady

/-- **One cycle not for the endpoint** (the token registers show another endpoint number or not an OUT token),
whatever the receiver presents, from every state: the FIFO's write side is not touched, the registers keep their
values (a token strobe clears `overflow` / `packet_has_data`, a ClearFeature(HALT) for the endpoint resets the
toggle), and a handshake is requested only as the answer to a PING. -/
theorem foreign_cycle_ignored (c : Config) (s : State) (i : In) (h : (Tok.of i).targets c = false) :
    ((fifoIn c s i).wen = false ∧ (fifoIn c s i).wcommit = false ∧ (fifoIn c s i).wdiscard = false) ∧
    (step c s i).1.regs = ⟨if i.clearHalt then false else s.expectedToggle, if i.tokNew then false else s.overflow,
      s.rxCnt, s.transferActive, s.packetIsFull, if i.tokNew then false else s.packetHasData⟩ ∧
    ((outOf c s i).ack = (pingReq c i && (comb c s i).sufficient) ∧
     (outOf c s i).nak = (pingReq c i && !(comb c s i).sufficient)) := by
  have h' : (i.tokEp == c.epNum && i.tokIsOut) = false := h
  refine ⟨?_, ?_, ?_⟩
  · simp [fifoIn, comb, h']
  · simp [step, comb, State.regs, h']
  · simp [outOf, comb, pingReq, h']

/-- the FIFO's write side (`committed_write_pointer`, `current_write_pointer`, memory) -/
def wside (s : State) : Nat × Nat × (Nat → Nat) := (s.fifo.cw, s.fifo.ww, s.fifo.mem)

theorem wside_step (c : Config) (s : State) (i : In)
    (h : (fifoIn c s i).wen = false ∧ (fifoIn c s i).wcommit = false ∧ (fifoIn c s i).wdiscard = false) :
    wside (step c s i).1 = wside s := by
  obtain ⟨h1, h2, h3⟩ := h
  simp [wside, step, TxnFifo.step, h1, h2, h3]

/-- a cycle that is not for the endpoint and carries neither a token strobe nor a ClearFeature(HALT) for it -/
def foreignCycle (c : Config) (i : In) : Bool := !(Tok.of i).targets c && !i.tokNew && !i.clearHalt

/-- every handshake of the run is the answer to a PING request -/
def onlyPingAnswers (c : Config) (ins : List In) (outs : List Out) : Bool :=
  (ins.zip outs).all (fun io => (!io.2.ack && !io.2.nak) || pingReq c io.1)

/-- **Any number of cycles not for the endpoint** (induction over the cycles; any packet length, any packet
shape): registers and the FIFO's write side are as before, no handshake but PING answers. -/
theorem foreign_cycles_ignored (c : Config) (ins : List In) (h : ∀ j ∈ ins, foreignCycle c j = true) : ∀ s : State,
    (runState c s ins).regs = s.regs ∧ wside (runState c s ins) = wside s ∧
    onlyPingAnswers c ins (runOuts c s ins) = true := by
  induction ins with
  | nil => intro s; exact ⟨rfl, rfl, rfl⟩
  | cons i is ih =>
    intro s
    have hi := h i (by simp)
    simp only [foreignCycle, Bool.and_eq_true, Bool.not_eq_true'] at hi
    obtain ⟨⟨hf, hn⟩, hc⟩ := hi
    obtain ⟨hw, hr, ha, hk⟩ := foreign_cycle_ignored c s i hf
    obtain ⟨i1, i2, i3⟩ := ih (fun j hj => h j (by simp [hj])) (step c s i).1
    refine ⟨?_, ?_, ?_⟩
    · simp only [runState]
      rw [i1, hr, hn, hc]; rfl
    · simp only [runState]
      rw [i2, wside_step c s i hw]
    · simp only [runOuts, onlyPingAnswers, List.zip_cons_cons, List.all_cons, Bool.and_eq_true]
      refine ⟨?_, i3⟩
      show ((!(outOf c s i).ack && !(outOf c s i).nak) || pingReq c i) = true
      rw [ha, hk]
      cases pingReq c i <;> simp

/-! ## The cycles of a transaction of the acceptor that is not for the endpoint -/

/-- the token of the running transaction -/
def Phase.token : Phase → Option Tok
  | .idle => none
  | .tok t => some t
  | .rx t _ _ _ _ => some t
  | .finByte t _ _ _ _ => some t
  | .finStrobe t _ _ _ _ => some t
  | .finWait t _ _ => some t

/-- inside a transaction the acceptor keeps the token fields: a cycle without token strobe shows the
transaction's token, and the transaction goes on or ends -/
theorem token_step {c : Config} {p p' : Phase} {i : In} {t : Tok} (hs : p.step c i = some p')
    (ht : p.token = some t) (hn : i.tokNew = false) : Tok.of i = t ∧ (p' = .idle ∨ p'.token = some t) := by
  cases p with
  | idle => simp [Phase.token] at ht
  | tok t' =>
    simp only [Phase.token, Option.some.injEq] at ht; subst ht
    obtain ⟨_, h3⟩ := step_tok_inv hs
    rcases h3 with ⟨h, _⟩ | ⟨_, h, _, _, _, rfl⟩ | ⟨_, h, _, _, rfl⟩ | ⟨_, h, _, _, rfl⟩
    · simp [hn] at h
    all_goals exact ⟨h, Or.inr rfl⟩
  | rx t' pid sent now buf =>
    simp only [Phase.token, Option.some.injEq] at ht; subst ht
    obtain ⟨hst, _, h3⟩ := step_rx_inv hs
    refine ⟨(stable_inv hst).1, Or.inr ?_⟩
    rcases h3 with ⟨_, _, _, rfl⟩ | ⟨_, _, _, rfl⟩ | ⟨_, _, _, rfl⟩ <;> rfl
  | finByte t' pid sent now ok =>
    simp only [Phase.token, Option.some.injEq] at ht; subst ht
    obtain ⟨hst, _, _, rfl⟩ := step_finByte_inv hs
    exact ⟨(stable_inv hst).1, Or.inr rfl⟩
  | finStrobe t' pid bytes ok responded =>
    simp only [Phase.token, Option.some.injEq] at ht; subst ht
    obtain ⟨hst, _, _, h3⟩ := step_finStrobe_inv hs
    refine ⟨(stable_inv hst).1, ?_⟩
    rcases h3 with ⟨_, rfl⟩ | ⟨_, _, _, rfl⟩
    · exact Or.inl rfl
    · exact Or.inr rfl
  | finWait t' pid bytes =>
    simp only [Phase.token, Option.some.injEq] at ht; subst ht
    obtain ⟨hst, _, h3⟩ := step_finWait_inv hs
    refine ⟨(stable_inv hst).1, ?_⟩
    rcases h3 with ⟨_, rfl⟩ | ⟨_, rfl⟩
    · exact Or.inl rfl
    · exact Or.inr rfl

/-- all cycles of a transaction that has not ended yet show its token -/
theorem token_run {c : Config} {t : Tok} (mid : List In) : ∀ {p pk : Phase}, Phase.run c p mid = some pk →
    p.token = some t → (∀ j ∈ mid, j.tokNew = false) → pk ≠ .idle →
    pk.token = some t ∧ ∀ j ∈ mid, Tok.of j = t := by
  induction mid with
  | nil =>
    intro p pk h ht _ _
    simp only [Phase.run, Option.some.injEq] at h; subst h
    exact ⟨ht, by simp⟩
  | cons m ms ih =>
    intro p pk h ht hn hpk
    simp only [Phase.run] at h
    cases hs : p.step c m with
    | none => simp [hs] at h
    | some p1 =>
      simp only [hs] at h
      have hn' : ∀ j ∈ ms, j.tokNew = false := fun j hj => hn j (by simp [hj])
      obtain ⟨h1, h2⟩ := token_step hs ht (hn m (by simp))
      rcases h2 with rfl | h2
      · exact absurd (run_idle_stays hn' h) hpk
      · obtain ⟨a, b⟩ := ih h h2 hn' hpk
        refine ⟨a, ?_⟩
        intro j hj
        simp only [List.mem_cons] at hj
        rcases hj with rfl | hj
        · exact h1
        · exact b j hj

/-- **foreign_transaction_ignored**: a transaction of the acceptor whose token `t` is not for the endpoint
(`mid` = its cycles after the token up to a phase `pk` in which it is still running, `i` = one more accepted
cycle, e.g. the response request that ends it), with a data packet of ANY length, without a
ClearFeature(HALT) for the endpoint: from every state `s` the endpoint's registers (data toggle, `overflow`,
`rx_cnt`, `transfer_active`, `packet_is_full`, `packet_has_data`) and the FIFO's write side after the
transaction are what they were before it, and no handshake is requested but the answer to a PING. -/
theorem foreign_transaction_ignored (c : Config) (t : Tok) (ht : t.targets c = false) (mid : List In) (i : In)
    (pk p' : Phase) (h1 : Phase.run c (.tok t) mid = some pk) (hpk : pk ≠ .idle) (h2 : pk.step c i = some p')
    (hn : ∀ j ∈ mid ++ [i], j.tokNew = false) (hc : ∀ j ∈ mid ++ [i], j.clearHalt = false) (s : State) :
    (runState c s (mid ++ [i])).regs = s.regs ∧ wside (runState c s (mid ++ [i])) = wside s ∧
    onlyPingAnswers c (mid ++ [i]) (runOuts c s (mid ++ [i])) = true := by
  obtain ⟨htk, hall⟩ := token_run mid h1 rfl (fun j hj => hn j (by simp [hj])) hpk
  have hi := (token_step h2 htk (hn i (by simp))).1
  apply foreign_cycles_ignored
  intro j hj
  have hT : Tok.of j = t := by
    simp only [List.mem_append, List.mem_singleton] at hj
    rcases hj with hj | rfl
    · exact hall j hj
    · exact hi
  simp [foreignCycle, hT, ht, hn j hj, hc j hj]

/-! ## Non-vacuity -/

/-- a SETUP-like transaction (token registers: endpoint `ep`, neither OUT nor PING) with a CRC-valid data packet -/
def setupPacket (ep : Nat) (ready : Bool) (payload : List Nat) (d : Nat) : List In :=
  (outPacket ep 0 ready payload d).map (fun i => { i with tokIsOut := false })

/-- Next to a 4-byte OUT endpoint (number 2): an 8-byte SETUP packet for endpoint 0, a 70-byte packet for OUT
endpoint 3, an 8-byte SETUP-type packet under the endpoint's own number, between accepted packets of the endpoint
itself — a `LegalHost` history; the former acceptor rejects it; the observer expects (and `out_stream_exact`
delivers) exactly the endpoint's own two packets. -/
theorem legalHost_not_strict :
    let ins := outPacket 2 0 true [11, 12, 13, 14] 2 ++ setupPacket 0 true [128, 6, 0, 1, 0, 0, 18, 0] 2 ++
                 outPacket 3 1 true (List.range 70) 2 ++ setupPacket 2 true [0, 5, 9, 0, 0, 0, 0, 0] 2 ++
                 outPacket 2 1 true [21, 22] 2 ++ List.replicate 6 (idleIn 2 0 true)
    LegalHost ⟨2, 4, 7⟩ ins = true ∧ LegalHostStrict ⟨2, 4, 7⟩ ins = false ∧
    expected ⟨2, 4, 7⟩ Acct.init .idle ins (runOuts ⟨2, 4, 7⟩ init ins)
      = [(11, true, false), (12, false, false), (13, false, false), (14, false, false),
         (21, false, false), (22, false, true)] ∧
    transfers ins (runOuts ⟨2, 4, 7⟩ init ins)
      = [(11, true, false), (12, false, false), (13, false, false), (14, false, false),
         (21, false, false), (22, false, true)] := by decide +kernel

/-- an instance of all hypotheses of `foreign_transaction_ignored`: a 70-byte packet for endpoint 3 seen by the
4-byte endpoint 2 -/
example :
    let c : Config := ⟨2, 4, 7⟩
    let t : Tok := ⟨3, true, false⟩
    let idl := idleIn 3 1 false
    let mid := [idl] ++ (List.range 70).map (fun b => { idl with rx := ⟨true, true, b, false, false⟩ }) ++
      [{ idl with rx := ⟨true, false, 0, false, false⟩ }, { idl with rx := ⟨false, false, 0, true, false⟩ }, idl]
    let i := { idl with rxReady := true }
    t.targets c = false ∧
    Phase.run c (.tok t) mid = some (.finStrobe t 1 (List.range 70) true false) ∧
    (Phase.finStrobe t 1 (List.range 70) true false).step c i = some .idle ∧
    (mid ++ [i]).all (fun j => !j.tokNew && !j.clearHalt) = true := by decide +kernel

end LunaVerif.StreamOutEndpoint
