import LunaVerif.Props.C56UartMulti
/-!
# C56 — AsyncSerialILA: captures at any distance (the transmitter still busy with the previous buffer)

`uart_multi_capture` asks for one read-out time between a hand-over and the next accepted trigger.  Here that restriction is
removed: `uart_capture_chain` composes `uart_readout_exact` (general transmitter start state: what is owed to the line and the
bytes pending are carried through) over any number of captures, the only link condition being that the wrapper is idle when the
next trigger is accepted — which is how the gateware accepts triggers.  `uart_readout_within_any` bounds the duration of a
read-out from any reachable transmitter state (`Bounded`: counters within their ranges; ranking function of
`Lemmas/C56UartRank.lean`), and `uart_capture_chain_total` combines the two: no assumption on the end of the history.
-/
namespace LunaVerif.IlaUart
open LunaVerif.Uart LunaVerif.Ila

/-- a chain of captures with no minimum distance: each capture starts with a trigger, its continuation starts no new capture,
and at its end the wrapper is idle again (so that the next trigger is accepted) — the transmitter may still be busy with the
previous buffer when the next capture starts -/
def ChainOK (c : Config) : State → List Capture → Prop
  | _, [] => True
  | σ, b :: bs => b.x0.trigger = true ∧ b.xs.length = c.ila.depth ∧
      noRetrigger c (runState c σ (b.x0 :: b.xs ++ [b.xl])) b.ys ∧
      (runState c σ b.hist).ila.fsm = .idle ∧ ChainOK c (runState c σ b.hist) bs

instance (c : Config) : ∀ σ bs, Decidable (ChainOK c σ bs)
  | _, [] => isTrue trivial
  | σ, b :: bs =>
    have := instDecidableChainOK c (runState c σ b.hist) bs
    inferInstanceAs (Decidable (_ ∧ _ ∧ _ ∧ _ ∧ _))

theorem inv_run (c : Config) (hd : 1 ≤ c.d) (h : List In) (σ : State) (hu : Uart.Inv c.d σ.uart.uart) :
    Uart.Inv c.d (runState c σ h).uart.uart := by
  rw [(mb_view c h σ).1]
  exact (mb_line c.d c.w hd (mbHist c σ h) σ.uart hu).2

/-- one link of the chain: `uart_readout_exact` for a capture at whose end the wrapper is idle, together with the start
hypotheses for the next one -/
theorem chain_link (c : Config) (hD : 1 ≤ c.ila.depth) (hd : 1 ≤ c.d) (hw : 1 ≤ c.w) (σ : State)
    (hσ : IlaStream.WIdle c.ila σ.ila) (hu : Uart.Inv c.d σ.uart.uart) (b : Capture)
    (ht : b.x0.trigger = true) (hl : b.xs.length = c.ila.depth)
    (hq : noRetrigger c (runState c σ (b.x0 :: b.xs ++ [b.xl])) b.ys) (hi : (runState c σ b.hist).ila.fsm = .idle) :
    (∃ segs, (run c σ b.hist).map (·.tx) ++ Uart.abs c.d (runState c σ b.hist).uart.uart =
        Uart.abs c.d σ.uart.uart ++ wave c.d segs ∧
      segBytes segs ++ pend (runState c σ b.hist).uart =
        pend σ.uart ++ (samples c σ b.x0 b.xs).flatMap (bytesLE c.w)) ∧
    IlaStream.WIdle c.ila (runState c σ b.hist).ila ∧ Uart.Inv c.d (runState c σ b.hist).uart.uart := by
  obtain ⟨segs, k, h1, h2, h3⟩ := uart_readout_exact c hD hd hw σ hσ hu b.x0 ht b.xs hl b.xl b.ys hq
  have hk := h3 hi
  rw [List.take_of_length_le (by have := samples_length_le c σ b.x0 b.xs; omega)] at h2
  refine ⟨⟨segs, h1, h2⟩, ?_, inv_run c hd _ σ hu⟩
  have hr := handover_resting c hD σ hσ b.x0 ht b.xs hl b.xl
  have hr2 := IlaStream.resting_run c.ila _ _ hr (noRetrigger_view c b.ys _ hq)
  rw [← ila_view] at hr2
  have hsplit : b.hist = (b.x0 :: b.xs ++ [b.xl]) ++ b.ys := by simp [Capture.hist]
  rw [← runState_append, ← hsplit] at hr2
  exact (IlaStream.resting_idle c.ila _ hr2 hi).1

/-- **uart_capture_chain**: any number of captures in one history with NO minimum distance between them (the next trigger may be
accepted as soon as the wrapper is idle, while the transmitter is still sending the previous buffer), from any transmitter
state: the `tx` waveform of the whole history, followed by the rest of the frame in progress at the end, is what was owed at the
start followed by idle-high cycles and complete 8N1 frames; the bytes of those frames, followed by the bytes still pending in
the word transmitter at the end, are the bytes pending at the start followed by the little-endian bytes of the samples of
capture 1, capture 2, ... — in order, each once, nothing else. -/
theorem uart_capture_chain (c : Config) (hD : 1 ≤ c.ila.depth) (hd : 1 ≤ c.d) (hw : 1 ≤ c.w) (bs : List Capture) :
    ∀ (σ : State), IlaStream.WIdle c.ila σ.ila → Uart.Inv c.d σ.uart.uart → ChainOK c σ bs →
    (∃ segs, (run c σ (bs.flatMap Capture.hist)).map (·.tx) ++ Uart.abs c.d (runState c σ (bs.flatMap Capture.hist)).uart.uart =
        Uart.abs c.d σ.uart.uart ++ wave c.d segs ∧
      segBytes segs ++ pend (runState c σ (bs.flatMap Capture.hist)).uart = pend σ.uart ++ capturedBytes c σ bs) ∧
    IlaStream.WIdle c.ila (runState c σ (bs.flatMap Capture.hist)).ila ∧
    Uart.Inv c.d (runState c σ (bs.flatMap Capture.hist)).uart.uart := by
  induction bs with
  | nil => intro σ hσ hu _; exact ⟨⟨[], by simp [run, runState, wave], by simp [segBytes, capturedBytes, runState]⟩, hσ, hu⟩
  | cons b bs ih =>
    intro σ hσ hu ⟨ht, hl, hq, hi, hrest⟩
    obtain ⟨⟨s1, a1, a2⟩, w1, w2⟩ := chain_link c hD hd hw σ hσ hu b ht hl hq hi
    obtain ⟨⟨s2, b1, b2⟩, w3, w4⟩ := ih _ w1 w2 hrest
    simp only [List.flatMap_cons, run_append, runState_append, List.map_append]
    refine ⟨⟨s1 ++ s2, ?_, ?_⟩, w3, w4⟩
    · rw [List.append_assoc, b1, ← List.append_assoc, a1, wave_append, List.append_assoc]
    · rw [segBytes_append, List.append_assoc, b2, ← List.append_assoc, a2, capturedBytes, List.append_assoc]

/-- **uart_capture_chain_quiet**: a chain of captures that starts and ends with a quiescent transmitter: `tx` over the whole history
= idle-high cycles and complete 8N1 frames carrying exactly the bytes of all captures, in order, each once. -/
theorem uart_capture_chain_quiet (c : Config) (hD : 1 ≤ c.ila.depth) (hd : 1 ≤ c.d) (hw : 1 ≤ c.w) (bs : List Capture)
    (σ : State) (hσ : IlaStream.WIdle c.ila σ.ila) (hu : UartQuiet σ) (hok : ChainOK c σ bs)
    (hfu : UartQuiet (runState c σ (bs.flatMap Capture.hist))) :
    ∃ segs, (run c σ (bs.flatMap Capture.hist)).map (·.tx) = wave c.d segs ∧ segBytes segs = capturedBytes c σ bs := by
  have hinv : Uart.Inv c.d σ.uart.uart := by intro h; rw [hu.2] at h; cases h
  obtain ⟨⟨segs, h1, h2⟩, _, _⟩ := uart_capture_chain c hD hd hw bs σ hσ hinv hok
  refine ⟨segs, ?_, ?_⟩
  · rw [abs_idle _ _ hfu.2, abs_idle _ _ hu.2] at h1
    simpa using h1
  · have hp0 : pend σ.uart = [] := by simp [pend, hu.1]
    have hp1 : pend (runState c σ (bs.flatMap Capture.hist)).uart = [] := by unfold pend; rw [hfu.1]
    rw [hp0, hp1] at h2
    simpa using h2

/-- **uart_capture_chain_decoded**: an independent 8N1 receiver listening to `tx` over such a history receives exactly those bytes -/
theorem uart_capture_chain_decoded (c : Config) (hD : 1 ≤ c.ila.depth) (hd : 1 ≤ c.d) (hw : 1 ≤ c.w) (bs : List Capture)
    (σ : State) (hσ : IlaStream.WIdle c.ila σ.ila) (hu : UartQuiet σ) (hok : ChainOK c σ bs)
    (hfu : UartQuiet (runState c σ (bs.flatMap Capture.hist))) :
    decode c.d ((run c σ (bs.flatMap Capture.hist)).map (·.tx)) = capturedBytes c σ bs := by
  obtain ⟨segs, h1, h2⟩ := uart_capture_chain_quiet c hD hd hw bs σ hσ hu hok hfu
  rw [h1, decode_wave c.d hd, h2]
  have hid : ∀ v ∈ capturedBytes c σ bs, v % 256 = id v := fun v hv =>
    Nat.mod_eq_of_lt (capturedBytes_lt c bs σ v hv)
  rw [List.map_congr_left hid, List.map_id]

/-- the state after the hand-over cycle, from ANY transmitter state: the ranking function applies (`Live`) -/
theorem handover_live (c : Config) (hD : 1 ≤ c.ila.depth) (hd : 1 ≤ c.d) (σ : State)
    (hσ : IlaStream.WIdle c.ila σ.ila) (hu : Uart.Inv c.d σ.uart.uart)
    (x0 : In) (ht : x0.trigger = true) (xs : List In) (hl : xs.length = c.ila.depth) (xl : In) :
    Live c (runState c σ (x0 :: xs ++ [xl])) := by
  have hpre : ilaHist c σ (x0 :: xs ++ [xl]) = ilaIn c σ x0 :: ilaHist c (step c σ x0).1 xs ++
      [ilaIn c (runState c σ (x0 :: xs)) xl] := by
    have : x0 :: xs ++ [xl] = (x0 :: xs) ++ [xl] := rfl
    rw [this, ilaHist_append]
    simp [ilaHist, runState]
  obtain ⟨_, wpos, dl, hs⟩ := IlaStream.capture_then_sending c.ila hD σ.ila hσ (ilaIn c σ x0) ht
    (ilaHist c (step c σ x0).1 xs) (by rw [ilaHist_length, hl]) (ilaIn c (runState c σ (x0 :: xs)) xl)
  rw [← hpre, ← ila_view] at hs
  exact ⟨by rw [hs]; simp, fun _ => by rw [hs]; show 0 < c.ila.depth; omega, inv_run c hd _ σ hu⟩

/-- **uart_readout_duration_any**: the duration of a read-out that starts while the transmitter is still busy (any reachable
transmitter state): wrapper idle and transmitter quiescent at the end iff the continuation after the hand-over cycle has at
least `rankOf` (the ranking function, evaluated in the state after the hand-over cycle) cycles. -/
theorem uart_readout_duration_any (c : Config) (hD : 1 ≤ c.ila.depth) (hd : 1 ≤ c.d) (hw : 1 ≤ c.w) (σ : State)
    (hσ : IlaStream.WIdle c.ila σ.ila) (hu : Uart.Inv c.d σ.uart.uart)
    (x0 : In) (ht : x0.trigger = true) (xs : List In) (hl : xs.length = c.ila.depth) (xl : In) (ys : List In)
    (hq : noRetrigger c (runState c σ (x0 :: xs ++ [xl])) ys) :
    ((runState c σ (x0 :: xs ++ xl :: ys)).ila.fsm = .idle ∧ UartQuiet (runState c σ (x0 :: xs ++ xl :: ys))) ↔
      rankOf c (runState c σ (x0 :: xs ++ [xl])) ≤ ys.length := by
  have hL := handover_live c hD hd σ hσ hu x0 ht xs hl xl
  obtain ⟨r1, r2⟩ := rank_run c hd hw ys _ hL hq
  have hsplit : x0 :: xs ++ xl :: ys = (x0 :: xs ++ [xl]) ++ ys := by simp
  rw [hsplit, runState_append, ← rank_zero_iff c hw _ r2, r1]
  omega

/-- counters of the transmitter within their ranges (holds at reset, kept by every cycle): at most 9 bits of a frame and at
most `bytes_per_sample - 1` bytes of a word are still to come -/
def Bounded (c : Config) (u : MBState) : Prop :=
  Uart.Inv c.d u.uart ∧ (u.uart.fsm = .transmit → u.uart.bits ≤ 9) ∧ (u.fsm = .transmit → u.bytes + 1 ≤ c.w)

theorem bounded_init (c : Config) : Bounded c Uart.mbInit := by
  refine ⟨inv_init c.d, ?_, ?_⟩ <;> intro h <;> cases h

theorem uart_bits_step (d : Nat) (s : Uart.State) (x : Uart.In) (h : s.fsm = .transmit → s.bits ≤ 9) :
    (Uart.step d s x).1.fsm = .transmit → (Uart.step d s x).1.bits ≤ 9 := by
  obtain ⟨f, baud, shift, bits⟩ := s
  cases f
  · cases hv : x.valid <;> simp [Uart.step, hv]
  · have hb : bits ≤ 9 := h rfl
    simp only [Uart.step]
    split
    · split
      · simp; omega
      · split <;> simp
    · simp; exact hb

theorem bounded_step (c : Config) (hd : 1 ≤ c.d) (hw : 1 ≤ c.w) (u : MBState) (x : Uart.In) (h : Bounded c u) :
    Bounded c (mbStep c.d c.w u x).1 := by
  obtain ⟨h1, h2, h3⟩ := h
  have hi := (mb_timing c.d c.w hd hw u x h1 _ _ rfl rfl).2.2.2
  refine ⟨hi, ?_, ?_⟩
  · rw [(mbStep_uart c.d c.w u x).1]; exact uart_bits_step c.d u.uart _ h2
  · obtain ⟨f, shift, bytes, uu⟩ := u
    cases f
    · cases hv : x.valid <;> simp [mbStep, hv]; omega
    · have hb : bytes + 1 ≤ c.w := h3 rfl
      simp only [mbStep]
      split
      · split
        · simp; omega
        · split <;> simp; omega
      · simp; exact hb

theorem bounded_run (c : Config) (hd : 1 ≤ c.d) (hw : 1 ≤ c.w) (h : List In) : ∀ σ, Bounded c σ.uart →
    Bounded c (runState c σ h).uart := by
  induction h with
  | nil => intro σ hb; exact hb
  | cons x h ih => intro σ hb; exact ih _ (bounded_step c hd hw σ.uart _ hb)

theorem abs_length_le (c : Config) (u : Uart.State) (hi : Uart.Inv c.d u) (hb : u.fsm = .transmit → u.bits ≤ 9) :
    (Uart.abs c.d u).length ≤ 10 * c.d := by
  obtain ⟨f, baud, shift, bits⟩ := u
  cases f
  · simp [Uart.abs]
  · have h1 : baud < c.d := hi rfl
    have h2 : bits ≤ 9 := hb rfl
    have h3 : c.d * bits ≤ c.d * 9 := Nat.mul_le_mul_left _ h2
    simp only [Uart.abs, List.length_append, List.length_replicate, expand_length, lsbBits_length]
    omega

theorem rank_le (F w R P L : Nat) (dv : Bool) (hF : 3 ≤ F) (hP : P ≤ w) (hL : L ≤ F) :
    rank F w ⟨R, dv, P, L⟩ ≤ F * (w * (R + 1) + 1) := by
  have h1 : F * (P + w * R) ≤ F * (w * (R + 1)) := Nat.mul_le_mul_left _ (by rw [Nat.mul_succ]; omega)
  have h2 : F * (w * (R + 1) + 1) = F * (w * (R + 1)) + F := Nat.mul_succ _ _
  simp only [rank]
  split
  · omega
  · split
    · omega
    · split <;> omega

/-- the rank of the state after the hand-over cycle, from any reachable transmitter state, is at most the time for `depth + 1`
words and one frame -/
theorem handover_rank_le (c : Config) (hd : 1 ≤ c.d) (hw : 1 ≤ c.w) (σ : State) (hb : Bounded c σ.uart)
    (x0 : In) (xs : List In) (xl : In) :
    rankOf c (runState c σ (x0 :: xs ++ [xl])) ≤ 10 * c.d * (c.w * (c.ila.depth + 1) + 1) := by
  obtain ⟨b1, b2, b3⟩ := bounded_run c hd hw (x0 :: xs ++ [xl]) σ hb
  have hP : (pend (runState c σ (x0 :: xs ++ [xl])).uart).length ≤ c.w := by
    rw [pend_length]
    cases hf : (runState c σ (x0 :: xs ++ [xl])).uart.fsm
    · simp
    · exact b3 hf
  have hL := abs_length_le c _ b1 b2
  have hR : (tsOf c (runState c σ (x0 :: xs ++ [xl]))).R ≤ c.ila.depth := by
    simp only [tsOf]; split <;> omega
  have hmono : c.w * ((tsOf c (runState c σ (x0 :: xs ++ [xl]))).R + 1) + 1 ≤ c.w * (c.ila.depth + 1) + 1 :=
    Nat.add_le_add_right (Nat.mul_le_mul_left _ (by omega)) 1
  exact Nat.le_trans (rank_le (10 * c.d) c.w _ _ _ _ (by omega) hP hL) (Nat.mul_le_mul_left _ hmono)

/-- **uart_readout_within_any**: a read-out that starts from ANY reachable transmitter state (e.g. while the previous buffer is
still being sent): `10·divisor·(bytes_per_sample·(depth + 1) + 1)` cycles after the hand-over cycle — the time for `depth + 1`
words and one frame — wrapper and transmitter are idle again. -/
theorem uart_readout_within_any (c : Config) (hD : 1 ≤ c.ila.depth) (hd : 1 ≤ c.d) (hw : 1 ≤ c.w) (σ : State)
    (hσ : IlaStream.WIdle c.ila σ.ila) (hb : Bounded c σ.uart)
    (x0 : In) (ht : x0.trigger = true) (xs : List In) (hl : xs.length = c.ila.depth) (xl : In) (ys : List In)
    (hq : noRetrigger c (runState c σ (x0 :: xs ++ [xl])) ys)
    (hn : 10 * c.d * (c.w * (c.ila.depth + 1) + 1) ≤ ys.length) :
    (runState c σ (x0 :: xs ++ xl :: ys)).ila.fsm = .idle ∧ UartQuiet (runState c σ (x0 :: xs ++ xl :: ys)) :=
  (uart_readout_duration_any c hD hd hw σ hσ hb.1 x0 ht xs hl xl ys hq).mpr
    (Nat.le_trans (handover_rank_le c hd hw σ hb x0 xs xl) hn)

theorem chainOK_append (c : Config) (as bs : List Capture) : ∀ σ,
    ChainOK c σ (as ++ bs) ↔ ChainOK c σ as ∧ ChainOK c (runState c σ (as.flatMap Capture.hist)) bs := by
  induction as with
  | nil => intro σ; simp [ChainOK, runState]
  | cons a as ih =>
    intro σ
    simp only [List.cons_append, ChainOK, List.flatMap_cons, runState_append, ih]
    constructor
    · rintro ⟨h1, h2, h3, h4, h5, h6⟩; exact ⟨⟨h1, h2, h3, h4, h5⟩, h6⟩
    · rintro ⟨⟨h1, h2, h3, h4, h5⟩, h6⟩; exact ⟨h1, h2, h3, h4, h5, h6⟩

/-- **uart_capture_chain_total**: a chain of captures with no minimum distance between them, starting with a quiescent
transmitter, the last capture followed by at least `10·divisor·(bytes_per_sample·(depth + 1) + 1)` cycles without a new capture:
`tx` over the whole history = idle-high cycles and complete 8N1 frames carrying exactly the little-endian bytes of the samples of
all captures, capture after capture, in order, each once — and an 8N1 receiver decodes exactly them.  No assumption on the end
of the history, none on the distance between the captures. -/
theorem uart_capture_chain_total (c : Config) (hD : 1 ≤ c.ila.depth) (hd : 1 ≤ c.d) (hw : 1 ≤ c.w) (bs : List Capture)
    (b : Capture) (σ : State) (hσ : IlaStream.WIdle c.ila σ.ila) (hu : UartQuiet σ) (hok : ChainOK c σ (bs ++ [b]))
    (hn : 10 * c.d * (c.w * (c.ila.depth + 1) + 1) ≤ b.ys.length) :
    (∃ segs, (run c σ ((bs ++ [b]).flatMap Capture.hist)).map (·.tx) = wave c.d segs ∧
      segBytes segs = capturedBytes c σ (bs ++ [b])) ∧
    decode c.d ((run c σ ((bs ++ [b]).flatMap Capture.hist)).map (·.tx)) = capturedBytes c σ (bs ++ [b]) := by
  have hB : Bounded c σ.uart := by
    refine ⟨?_, ?_, ?_⟩ <;> intro h
    · rw [hu.2] at h; cases h
    · rw [hu.2] at h; cases h
    · rw [hu.1] at h; cases h
  obtain ⟨ok1, ok2⟩ := (chainOK_append c bs [b] σ).mp hok
  obtain ⟨ht, hl, hq, _, _⟩ := ok2
  obtain ⟨_, w1, _⟩ := uart_capture_chain c hD hd hw bs σ hσ hB.1 ok1
  have hB1 := bounded_run c hd hw (bs.flatMap Capture.hist) σ hB
  obtain ⟨_, hfu⟩ := uart_readout_within_any c hD hd hw _ w1 hB1 b.x0 ht b.xs hl b.xl b.ys hq hn
  have hend : runState c σ ((bs ++ [b]).flatMap Capture.hist) =
      runState c (runState c σ (bs.flatMap Capture.hist)) (b.x0 :: b.xs ++ b.xl :: b.ys) := by
    simp [List.flatMap_append, runState_append, Capture.hist]
  rw [← hend] at hfu
  exact ⟨uart_capture_chain_quiet c hD hd hw _ σ hσ hu hok hfu, uart_capture_chain_decoded c hD hd hw _ σ hσ hu hok hfu⟩

/-! ## Non-vacuity: depth 2, divisor 1, 2 bytes per sample: the second trigger is accepted 13 cycles after the first hand-over,
when the wrapper is idle again but the transmitter has sent only one of the four bytes of the first buffer -/
def exChain1 : Capture := ⟨⟨true, 0x0102⟩, [⟨false, 0x0304⟩, ⟨false, 7⟩], ⟨false, 8⟩, ⟨true, 9⟩ :: List.replicate 12 ⟨false, 9⟩⟩
def exChain2 : Capture := ⟨⟨true, 0x0506⟩, [⟨false, 0x0708⟩, ⟨false, 7⟩], ⟨false, 8⟩, List.replicate 80 ⟨false, 9⟩⟩

example : ChainOK exCfg (init exCfg) [exChain1, exChain2] := by decide +kernel
example : ¬ UartQuiet (runState exCfg (init exCfg) exChain1.hist) := by decide +kernel
example : UartQuiet (runState exCfg (init exCfg) ([exChain1, exChain2].flatMap Capture.hist)) := by decide +kernel
example : decode 1 ((run exCfg (init exCfg) ([exChain1, exChain2].flatMap Capture.hist)).map (·.tx)) =
    [0x02, 0x01, 0x04, 0x03, 0x06, 0x05, 0x08, 0x07] := by decide +kernel
example : 10 * exCfg.d * (exCfg.w * (exCfg.ila.depth + 1) + 1) ≤ exChain2.ys.length := by decide

end LunaVerif.IlaUart
