import LunaVerif.Props.C16
import LunaVerif.Lemmas.C16Host
import LunaVerif.Props.C13Space
/-!
# C16 — `iso_out_whole_packets_only` over raw receive histories
-/
namespace LunaVerif.IsoStreamOut
open LunaVerif
open LunaVerif.StreamOutEndpoint (dec body marks Entry wNext)

theorem entry_eq (b : Nat) (l f : Bool) : entry b l f = StreamOutEndpoint.entry b l f := rfl

def runState (c : Config) : State → List In → State
  | s, [] => s
  | s, i :: is => runState c (step c s i).1 is

def runOuts (c : Config) : State → List In → List Out
  | _, [] => []
  | s, i :: is => (step c s i).2 :: runOuts c (step c s i).1 is

/-- consumer-side transfers `(payload, first, last)` -/
def transfers (ins : List In) (outs : List Out) : List Entry :=
  (ins.zip outs).filterMap (fun (i, o) => if i.ready && o.valid then some (o.data, o.first, o.last) else none)

theorem transfers_cons (i : In) (o : Out) (is : List In) (os : List Out) :
    transfers (i :: is) (o :: os)
      = (if i.ready && o.valid then [(o.data, o.first, o.last)] else []) ++ transfers is os := by
  simp only [transfers, List.zip_cons_cons, List.filterMap_cons]
  split <;> simp_all

theorem transfer_now {c : Config} {s : State} {q : TxnFifo.Queue Nat} (i : In) (hrel : TxnFifo.Rel c.depth s.fifo q) :
    transfers [i] [(step c s i).2] = (if i.ready && !q.C.isEmpty then q.C.take 1 else []).map dec := by
  have he := TxnFifo.rel_empty hrel
  have hrd := hrel.hrd
  simp only [transfers, step, outOf, he]
  cases hC : q.C with
  | nil => simp
  | cons x xs =>
    have := hrd (by simp [hC])
    simp only [hC, List.head?_cons, Option.some.injEq] at this
    subst this
    cases hr : i.ready <;> simp [dec, hr]

/-! ## The specification -/

/-- the first byte of a packet is presented to the glue logic in this cycle -/
def IPhase.firstNow : IPhase → Bool
  | .rx _ _ sent (some _) _ => sent.isEmpty
  | .finByte _ _ sent _ _ => sent.isEmpty
  | _ => false

/-- the packet completed in this cycle, as the consumer is to see it: every byte, `first` on the first and
`last` on the final one — if it is CRC-valid, addressed to the endpoint, and `max_packet_size` entries were
free when its first byte arrived (`fits`) -/
def IPhase.emit (c : Config) (fits : Bool) : IPhase → List Entry
  | .finStrobe ep io bytes ok => if ok && targets c ep io && fits then marks true true bytes else []
  | _ => []

/-- the whole packets a history delivers; `fits` is re-decided at every packet's first byte from
`space_available ≥ max_packet_size` -/
def isoExpected (c : Config) : IPhase → Bool → State → List In → List Entry
  | _, _, _, [] => []
  | p, fits, s, i :: is =>
    match p.step c i with
    | none => []
    | some p' =>
      p.emit c fits ++
        isoExpected c p' (if p.firstNow then decide (c.mps ≤ TxnFifo.space c.depth s.fifo) else fits) (step c s i).1 is

/-! ## The invariant -/

/-- what the running packet has left in the uncommitted part of the queue -/
def PktInv (c : Config) (fits : Bool) (s : State) (q : TxnFifo.Queue Nat) (ep : Nat) (io : Bool) (sent : List Nat) :
    Prop :=
  if sent = [] then q.W = []
  else s.packetFits = fits ∧
    (if (targets c ep io && fits) = true then q.W = body true sent ∧ q.held + (c.mps - sent.length) ≤ c.depth
     else q.W = [])

structure IInv (c : Config) (p : IPhase) (fits : Bool) (s : State) (del acc : List Entry) : Prop where
  det : DetRel p s.det
  q   : ∃ q, TxnFifo.Rel c.depth s.fifo q ∧ del ++ q.C.map dec = acc ∧
    (match p with
     | .idle => q.W = []
     | .rx ep io sent now _ => sent.length + now.toList.length + 1 ≤ c.mps ∧ PktInv c fits s q ep io sent
     | .finByte ep io sent _ _ => sent.length + 1 ≤ c.mps ∧ PktInv c fits s q ep io sent
     | .finStrobe ep io bytes _ => if (targets c ep io && fits) = true then q.W.map dec = marks true true bytes else q.W = [])

/-- one cycle of C18's queue as the endpoint drives it, when a requested write finds room -/
theorem qstep_apply (q : TxnFifo.Queue Nat) (d : Nat) (fi : TxnFifo.In Nat) (hrc : fi.rcommit = true)
    (hrd : fi.rdiscard = false) (hwen : fi.wen = true → q.held < d) :
    (q.step d fi).W = (wNext q.W [] (fi.wdata, fi.wen, fi.wcommit, fi.wdiscard)).1 ∧
    (if fi.ren && !q.C.isEmpty then q.C.take 1 else []) ++ (q.step d fi).C
      = q.C ++ (wNext q.W [] (fi.wdata, fi.wen, fi.wcommit, fi.wdiscard)).2 := by
  obtain ⟨wdata, wen, wcommit, wdiscard, ren, rcommit, rdiscard⟩ := fi
  simp only at hrc hrd hwen; subst hrc hrd
  have h : (wen && !(q.held == d)) = wen := by
    cases hw : wen
    · rfl
    · have := hwen hw; simp; omega
  obtain ⟨h1, Cadd, h2, h3⟩ := StreamOutEndpoint.qstep_eq q d (wdata, wen, wcommit, wdiscard) ren [] h
  simp only [List.nil_append] at h3
  exact ⟨h1, by rw [h2, h3]⟩

theorem held_le_of_no_write (q : TxnFifo.Queue Nat) (d : Nat) (fi : TxnFifo.In Nat) (hrc : fi.rcommit = true)
    (hrd : fi.rdiscard = false) (hc : fi.wcommit = false) (hd : fi.wdiscard = false) :
    (q.step d fi).held ≤ q.held + (if fi.wen = true then 1 else 0) := by
  have := StreamOutEndpoint.held_step_le q d fi hc hd hrc hrd
  split at this <;> split <;> simp_all <;> omega

theorem view_not_both {p : IPhase} {o : BoundaryDetector.Out} (h : View p o) :
    ¬(o.completeOut = true ∧ o.invalidOut = true) := by
  cases p <;> simp only [View] at h
  case finStrobe ep io bytes ok => obtain ⟨_, h1, h2⟩ := h; rw [h1, h2]; cases ok <;> simp
  all_goals (obtain ⟨h1, h2, _⟩ := h; simp_all)

theorem iinv_init (c : Config) : IInv c .idle false init [] [] :=
  ⟨detRel_init, TxnFifo.Queue.nil, TxnFifo.rel_init c.depth 0, rfl, rfl⟩

/-- the stream side of one cycle: the new transfers plus the new committed part account for `Cadd` -/
theorem del_step {c : Config} {s : State} {q : TxnFifo.Queue Nat} {del acc : List Entry} (i : In)
    (hrel : TxnFifo.Rel c.depth s.fifo q) (hdel : del ++ q.C.map dec = acc) (Cadd : List Nat) (C' : List Nat)
    (h : (if i.ready && !q.C.isEmpty then q.C.take 1 else []) ++ C' = q.C ++ Cadd) :
    (del ++ transfers [i] [(step c s i).2]) ++ C'.map dec = acc ++ Cadd.map dec := by
  rw [transfer_now i hrel, List.append_assoc, ← List.map_append, h, List.map_append, ← List.append_assoc, hdel]

/-- a cycle in which the detector presents no byte and no strobe: nothing is written, nothing committed -/
theorem hold_step {c : Config} {s : State} {q : TxnFifo.Queue Nat} {del acc : List Entry} (i : In)
    (hrel : TxnFifo.Rel c.depth s.fifo q) (hdel : del ++ q.C.map dec = acc)
    (hn : s.det.out.next = false) (hco : s.det.out.completeOut = false) (hio : s.det.out.invalidOut = false) :
    (step c s i).1.packetFits = s.packetFits ∧
    (del ++ transfers [i] [(step c s i).2]) ++ (q.step c.depth (fifoIn c s i)).C.map dec = acc ∧
    (q.step c.depth (fifoIn c s i)).W = q.W ∧ (q.step c.depth (fifoIn c s i)).held ≤ q.held := by
  have hw : (fifoIn c s i).wen = false := by simp [fifoIn, hn]
  have hc : (fifoIn c s i).wcommit = false := by simp [fifoIn, hco]
  have hd : (fifoIn c s i).wdiscard = false := by simp [fifoIn, hio]
  obtain ⟨h1, h2⟩ := qstep_apply q c.depth (fifoIn c s i) rfl rfl (by simp [hw])
  have h3 := held_le_of_no_write q c.depth (fifoIn c s i) rfl rfl hc hd
  simp only [wNext, hw, hc, hd, Bool.false_eq_true, if_false, List.append_nil,
    show (fifoIn c s i).ren = i.ready from rfl, Nat.add_zero] at h1 h2 h3
  exact ⟨by simp [step, hn], by simpa using del_step i hrel hdel [] _ (by simpa using h2), h1, h3⟩

/-- a cycle in which the detector presents byte `x` of a packet (`sent` = the bytes before it) -/
theorem byte_step {c : Config} {s : State} {q : TxnFifo.Queue Nat} {del acc : List Entry} {fits : Bool} (i : In)
    {ep : Nat} {io : Bool} {sent : List Nat} {x : Nat} {l : Bool}
    (hrel : TxnFifo.Rel c.depth s.fifo q) (hdel : del ++ q.C.map dec = acc)
    (hn : s.det.out.next = true) (hv : s.det.out.valid = true) (hpl : s.det.out.payload = x)
    (hf : s.det.out.first = sent.isEmpty) (hl : s.det.out.last = l)
    (hco : s.det.out.completeOut = false) (hio : s.det.out.invalidOut = false)
    (hst : stable ep io i = true) (hp : PktInv c fits s q ep io sent) (hb : sent.length + 1 ≤ c.mps) :
    let fits' := if sent.isEmpty then decide (c.mps ≤ TxnFifo.space c.depth s.fifo) else fits
    let q' := q.step c.depth (fifoIn c s i)
    (step c s i).1.packetFits = fits' ∧
    (del ++ transfers [i] [(step c s i).2]) ++ q'.C.map dec = acc ∧
    (if (targets c ep io && fits') = true then
        q'.W = body true sent ++ [StreamOutEndpoint.entry x l (true && sent.isEmpty)] ∧
        q'.held + (c.mps - (sent.length + 1)) ≤ c.depth
      else q'.W = []) := by
  intro fits' q'
  obtain ⟨hep, hio'⟩ := stable_inv hst
  have hspace := TxnFifo.rel_space hrel
  have hlen := hrel.hlen
  have hc : (fifoIn c s i).wcommit = false := by simp [fifoIn, hco]
  have hd : (fifoIn c s i).wdiscard = false := by simp [fifoIn, hio]
  have hpf : (step c s i).1.packetFits = fits' := by
    simp only [step, hn, hv, hf, fits', PktInv] at hp ⊢
    cases hs : sent with
    | nil => simp
    | cons b bs => simp [hs] at hp ⊢; exact hp.1
  have hwen : (fifoIn c s i).wen = (targets c ep io && fits') := by
    simp only [fifoIn, hn, hv, hf, targets, hep, hio', fits', PktInv] at hp ⊢
    cases hs : sent with
    | nil => simp
    | cons b bs => simp [hs] at hp ⊢; rw [hp.1]
  have hroom : (fifoIn c s i).wen = true → q.held < c.depth := by
    rw [hwen]
    intro h
    simp only [Bool.and_eq_true] at h
    simp only [PktInv, fits'] at hp h
    cases hs : sent with
    | nil =>
      simp only [hs, List.isEmpty_nil, if_true, decide_eq_true_eq, hspace] at h
      omega
    | cons b bs =>
      simp only [hs, List.isEmpty_cons, Bool.false_eq_true, if_false] at h
      simp only [hs, reduceCtorEq, if_false, h.1, h.2, Bool.and_self, if_true] at hp
      simp only [hs] at hb
      omega
  obtain ⟨h1, h2⟩ := qstep_apply q c.depth (fifoIn c s i) rfl rfl hroom
  have h3 := held_le_of_no_write q c.depth (fifoIn c s i) rfl rfl hc hd
  simp only [wNext, hc, hd, Bool.false_eq_true, if_false, List.append_nil,
    show (fifoIn c s i).ren = i.ready from rfl] at h1 h2
  refine ⟨hpf, by simpa using del_step i hrel hdel [] _ (by simpa using h2), ?_⟩
  have hwd : (fifoIn c s i).wdata = StreamOutEndpoint.entry x l (true && sent.isEmpty) := by
    simp [fifoIn, hpl, hl, hf, entry_eq]
  rw [hwen] at h1 h3
  cases hT : (targets c ep io && fits')
  · simp only [hT, Bool.false_eq_true, if_false, List.append_nil] at h1 ⊢
    rw [show q' = q.step c.depth (fifoIn c s i) from rfl, h1]
    simp only [PktInv] at hp
    cases hs : sent with
    | nil => simpa [hs] using hp
    | cons b bs =>
      simp only [hs, reduceCtorEq, if_false] at hp
      have hfe : fits' = fits := by simp [fits', hs]
      rw [hfe] at hT
      simpa [hT] using hp.2
  · simp only [hT, if_true] at h1 h3 ⊢
    rw [show q' = q.step c.depth (fifoIn c s i) from rfl, h1, hwd]
    simp only [PktInv, fits'] at hp hT
    cases hs : sent with
    | nil =>
      simp only [hs, if_true] at hp
      simp only [hs, List.isEmpty_nil, if_true, Bool.and_eq_true, decide_eq_true_eq, hspace] at hT
      refine ⟨by simp [hp, body], ?_⟩
      simp only [List.length_nil]
      omega
    | cons b bs =>
      simp only [hs, List.isEmpty_cons, Bool.false_eq_true, if_false] at hT
      simp only [hs, reduceCtorEq, if_false, hT, if_true] at hp
      refine ⟨by rw [hp.2.1], ?_⟩
      have := hp.2.2
      simp only [hs] at hb
      omega

theorem iinv_step {c : Config} {p p' : IPhase} {fits : Bool} {s : State} {del acc : List Entry} {i : In}
    (hmps : 1 ≤ c.mps) (h : IInv c p fits s del acc) (hs : p.step c i = some p') :
    IInv c p' (if p.firstNow then decide (c.mps ≤ TxnFifo.space c.depth s.fifo) else fits) (step c s i).1
      (del ++ transfers [i] [(step c s i).2]) (acc ++ p.emit c fits) := by
  obtain ⟨hdet, q, hrel, hdel, hp⟩ := h
  have hview := hdet.1
  have hlegal := iso_fifo_inputs_legal c s i (view_not_both hview)
  have hrel' := TxnFifo.rel_step hrel hlegal
  have hspace := TxnFifo.rel_space hrel
  have hlen := hrel.hlen
  refine ⟨detRel_step hdet hs, q.step c.depth (fifoIn c s i), hrel', ?_⟩
  cases p with
  | idle =>
    obtain ⟨hn, hco, hio⟩ := hview
    simp only at hp
    have hw : (fifoIn c s i).wen = false := by simp [fifoIn, hn]
    obtain ⟨h1, h2⟩ := qstep_apply q c.depth (fifoIn c s i) rfl rfl (by simp [hw])
    have hc : (fifoIn c s i).wcommit = false := by simp [fifoIn, hco]
    have hd : (fifoIn c s i).wdiscard = false := by simp [fifoIn, hio]
    simp only [wNext, hw, hc, hd, hp, Bool.false_eq_true, if_false, List.append_nil,
      show (fifoIn c s i).ren = i.ready from rfl] at h1 h2
    refine ⟨by simpa [IPhase.emit] using del_step i hrel hdel [] _ (by simpa using h2), ?_⟩
    rcases step_idle_inv hs with ⟨_, _, _, rfl⟩ | ⟨_, rfl⟩
    · exact ⟨by simpa using hmps, by simp [PktInv, h1]⟩
    · exact h1
  | rx ep io sent now buf =>
    obtain ⟨hco, hio, hvn⟩ := hview
    obtain ⟨hlb, hpk⟩ := hp
    obtain ⟨hst, h3⟩ := step_rx_inv hs
    cases now with
    | none =>
      simp only at hvn
      obtain ⟨hpf, hd, hW, hH⟩ := hold_step i hrel hdel hvn hco hio
      have hpk' : PktInv c fits (step c s i).1 (q.step c.depth (fifoIn c s i)) ep io (sent ++ (none : Option Nat).toList) := by
        simp only [Option.toList, List.append_nil, PktInv, hpf, hW] at hpk ⊢
        split
        · rename_i h; simpa [h] using hpk
        · rename_i h
          simp only [h, if_false] at hpk
          refine ⟨hpk.1, ?_⟩
          split
          · rename_i h2; simp only [h2, if_true] at hpk; exact ⟨hpk.2.1, by have := hpk.2.2; omega⟩
          · rename_i h2; simpa [h2] using hpk.2
      simp only [IPhase.firstNow, Bool.false_eq_true, if_false, IPhase.emit, List.append_nil]
      refine ⟨hd, ?_⟩
      rcases h3 with ⟨_, _, hm, rfl⟩ | ⟨_, _, _, rfl⟩ | ⟨_, _, _, rfl⟩
      · exact ⟨by simpa using hm, hpk'⟩
      · exact ⟨by simpa using hlb, hpk'⟩
      · exact ⟨by simpa using hlb, hpk'⟩
    | some x =>
      obtain ⟨hn, hv, hpl, hf, hl⟩ := hvn
      simp only [Option.toList, List.length_singleton] at hlb
      obtain ⟨hpf, hd, hW⟩ := byte_step i hrel hdel hn hv hpl hf hl hco hio hst hpk (by omega)
      rw [show (IPhase.rx ep io sent (some x) buf).firstNow = sent.isEmpty from rfl]
      simp only [IPhase.emit, List.append_nil]
      have hpk' : PktInv c (if sent.isEmpty then decide (c.mps ≤ TxnFifo.space c.depth s.fifo) else fits)
          (step c s i).1 (q.step c.depth (fifoIn c s i)) ep io (sent ++ [x]) := by
        simp only [PktInv]
        rw [if_neg (by simp)]
        refine ⟨hpf, ?_⟩
        by_cases h : (targets c ep io && (if sent.isEmpty then decide (c.mps ≤ TxnFifo.space c.depth s.fifo) else fits)) = true
        · rw [if_pos h] at hW ⊢
          exact ⟨by rw [hW.1, StreamOutEndpoint.body_snoc], by simpa using hW.2⟩
        · rw [if_neg h] at hW ⊢
          exact hW
      refine ⟨hd, ?_⟩
      rcases h3 with ⟨_, _, hm, rfl⟩ | ⟨_, _, _, rfl⟩ | ⟨_, _, _, rfl⟩
      · exact ⟨by simpa using hm, hpk'⟩
      · exact ⟨by simpa using hlb, hpk'⟩
      · exact ⟨by simpa using hlb, hpk'⟩
  | finByte ep io sent x ok =>
    obtain ⟨hco, hio, hn, hv, hpl, hf, hl⟩ := hview
    obtain ⟨hlb, hpk⟩ := hp
    obtain ⟨hst, _, rfl⟩ := step_finByte_inv hs
    obtain ⟨hpf, hd, hW⟩ := byte_step i hrel hdel hn hv hpl hf hl hco hio hst hpk hlb
    rw [show (IPhase.finByte ep io sent x ok).firstNow = sent.isEmpty from rfl]
    simp only [IPhase.emit, List.append_nil]
    refine ⟨hd, ?_⟩
    by_cases h : (targets c ep io && (if sent.isEmpty then decide (c.mps ≤ TxnFifo.space c.depth s.fifo) else fits)) = true
    · rw [if_pos h] at hW ⊢
      rw [hW.1, StreamOutEndpoint.marks_body]
    · rw [if_neg h] at hW ⊢
      exact hW
  | finStrobe ep io bytes ok =>
    obtain ⟨hn, hco, hio⟩ := hview
    simp only at hp
    obtain ⟨hst, _, rfl⟩ := step_finStrobe_inv hs
    obtain ⟨hep, hio'⟩ := stable_inv hst
    have hw : (fifoIn c s i).wen = false := by simp [fifoIn, hn]
    obtain ⟨h1, h2⟩ := qstep_apply q c.depth (fifoIn c s i) rfl rfl (by simp [hw])
    have hc : (fifoIn c s i).wcommit = (targets c ep io && ok) := by simp [fifoIn, hco, targets, hep, hio']
    have hd : (fifoIn c s i).wdiscard = (targets c ep io && !ok) := by simp [fifoIn, hio, targets, hep, hio']
    simp only [wNext, hw, hc, hd, Bool.false_eq_true, if_false, List.append_nil, List.nil_append,
      show (fifoIn c s i).ren = i.ready from rfl] at h1 h2
    simp only [IPhase.emit]
    cases hT : targets c ep io <;> cases ok <;> cases hF : fits <;>
      simp only [hT, hF, Bool.and_true, Bool.and_false, Bool.not_true, Bool.not_false,
        Bool.false_eq_true, if_true, if_false] at h1 h2 hp ⊢
    all_goals
      first
      | exact ⟨by simpa [hp] using del_step i hrel hdel [] _ (by simpa [hp] using h2), by simp [h1, hp]⟩
      | exact ⟨by simpa [hp] using del_step i hrel hdel q.W _ h2, by simp [h1]⟩

theorem transfers_nil : transfers [] [] = [] := rfl

theorem iinv_run {c : Config} (hmps : 1 ≤ c.mps) (ins : List In) :
    ∀ {p pf : IPhase} {fits : Bool} {s : State} {del acc : List Entry}, IInv c p fits s del acc →
      IPhase.run c p ins = some pf →
      ∃ fits', IInv c pf fits' (runState c s ins) (del ++ transfers ins (runOuts c s ins))
        (acc ++ isoExpected c p fits s ins) := by
  induction ins with
  | nil =>
    intro p pf fits s del acc h hr
    simp only [IPhase.run, Option.some.injEq] at hr
    subst hr
    exact ⟨fits, by simpa [runState, runOuts, transfers_nil, isoExpected] using h⟩
  | cons i is ih =>
    intro p pf fits s del acc h hr
    simp only [IPhase.run] at hr
    cases hs : p.step c i with
    | none => simp [hs] at hr
    | some p' =>
      simp only [hs] at hr
      obtain ⟨fits', hinv⟩ := ih (iinv_step hmps h hs) hr
      refine ⟨fits', ?_⟩
      have ht : transfers (i :: is) (runOuts c s (i :: is))
          = transfers [i] [(step c s i).2] ++ transfers is (runOuts c (step c s i).1 is) := by
        simp only [runOuts, transfers_cons, transfers_nil, List.append_nil]
      rw [ht, ← List.append_assoc]
      simpa only [runState, isoExpected, hs, List.append_assoc] using hinv

/-- **iso_out_whole_packets_only** (over raw receive histories).  For every endpoint number,
`max_packet_size ≥ 1`, buffer size and every `LegalRx` history — any packet sizes up to the maximum, wait
cycles, zero-length packets, CRC-corrupted packets, packets for other endpoints or non-OUT tokens, any
consumer `ready` pattern — the transfers handed to the consumer, followed by the committed entries still in
the FIFO (C18's queue relation), are exactly `isoExpected`: the concatenation, in order, of the *complete*
payloads (`first` on the first byte, `last` on the final byte) of those CRC-valid packets addressed to the
endpoint that found `max_packet_size` free entries at their first byte.  A packet is present as a whole or
absent as a whole. -/
theorem iso_out_whole_packets_only (c : Config) (hmps : 1 ≤ c.mps) (ins : List In) (hl : LegalRx c ins = true) :
    ∃ q : TxnFifo.Queue Nat, TxnFifo.Rel c.depth (runState c init ins).fifo q ∧
      transfers ins (runOuts c init ins) ++ q.C.map dec = isoExpected c .idle false init ins := by
  simp only [LegalRx] at hl
  cases hr : IPhase.run c .idle ins with
  | none => simp [hr] at hl
  | some pf =>
    obtain ⟨fits', _, q, hrel, hdel, _⟩ := iinv_run hmps ins (iinv_init c) hr
    exact ⟨q, hrel, by simpa using hdel⟩

/-- what the consumer has seen is always a prefix of the whole packets -/
theorem iso_out_prefix (c : Config) (hmps : 1 ≤ c.mps) (ins : List In) (hl : LegalRx c ins = true) :
    transfers ins (runOuts c init ins) <+: isoExpected c .idle false init ins := by
  obtain ⟨q, _, h⟩ := iso_out_whole_packets_only c hmps ins hl
  exact ⟨_, h⟩

/-- once `stream.valid` is low the consumer has received exactly the whole packets -/
theorem iso_out_complete_when_drained (c : Config) (hmps : 1 ≤ c.mps) (ins : List In) (hl : LegalRx c ins = true)
    (hd : TxnFifo.empty (runState c init ins).fifo = true) :
    transfers ins (runOuts c init ins) = isoExpected c .idle false init ins := by
  obtain ⟨q, hrel, h⟩ := iso_out_whole_packets_only c hmps ins hl
  rw [TxnFifo.rel_empty hrel] at hd
  have : q.C = [] := by simpa using hd
  simpa [this] using h

/-! ### Non-vacuity -/

def idleIn (ep : Nat) (io ready : Bool) : In := ⟨⟨false, false, 0, false, false⟩, ep, io, ready⟩

/-- one data packet as the receiver presents it (dense), `ok` = CRC valid, then three idle cycles -/
def packet (ep : Nat) (io ready : Bool) (payload : List Nat) (ok : Bool) : List In :=
  [idleIn ep io ready] ++
  payload.map (fun b => { idleIn ep io ready with rx := ⟨true, true, b, false, false⟩ }) ++
  [{ idleIn ep io ready with rx := ⟨true, false, 0, false, false⟩ },
   { idleIn ep io ready with rx := ⟨false, false, 0, ok, !ok⟩ }] ++ List.replicate 3 (idleIn ep io ready)

/-- mps 4, buffer 7, consumer stalled: the first packet is taken whole; the second (2 bytes) finds only 3 free
entries and is dropped whole; a corrupted packet, a packet for another endpoint and a zero-length packet
contribute nothing; after draining, a third packet is taken. -/
example :
    let c : Config := ⟨3, 4, 7⟩
    let ins := packet 3 true false [1, 2, 3, 4] true ++ packet 3 true false [5, 6] true ++
      packet 3 true false [7] false ++ packet 5 true false [8] true ++ packet 3 true false [] true ++
      List.replicate 6 (idleIn 3 true true) ++ packet 3 true true [9, 10] true ++ List.replicate 4 (idleIn 3 true true)
    LegalRx c ins = true ∧
    isoExpected c .idle false init ins
      = [(1, true, false), (2, false, false), (3, false, false), (4, false, true), (9, true, false), (10, false, true)] ∧
    transfers ins (runOuts c init ins) = isoExpected c .idle false init ins := by decide +kernel

end LunaVerif.IsoStreamOut
