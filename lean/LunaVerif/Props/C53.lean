import LunaVerif.Model.Periph.HyperRam
/-!
# C53 — HyperRAM transactions use the correct command and never contend the bus

"Each transaction drives the 48-bit command-address word (read/write, memory/register space, burst
type, address) on DQ during the command phase, keeps chip select asserted until the transaction
ends, waits the latency count before memory data, and drives DQ/RWDS only during command and write
phases, never while the memory drives them."

All statements are over the model of the `HyperRAMInterface` core, for every value of every input
in every cycle (addresses, operation types, `final_word` timing, memory `rwds.i`/`dq.i` behaviour).
-/
namespace LunaVerif.HyperRam

/-- HyperBus command-address bits, 16 per clock: `CA[47]` R/W# (1 = read), `CA[46]` address space
(1 = register), `CA[45]` burst type (1 = linear), `CA[44:16]` = A[31:3], `CA[15:3]` reserved = 0,
`CA[2:0]` = A[2:0]. -/
def caSpec (addr : Nat) (read reg linear : Bool) : Nat × Nat × Nat :=
  (b2n read * 2 ^ 15 + b2n reg * 2 ^ 14 + b2n linear * 2 ^ 13 + addr / 2 ^ 19,
   addr / 8 % 2 ^ 16,
   addr % 8)

/-- The arithmetic of `Cat(addr[0:3], Const(0,13), addr[3:32], multipage, register, read)`. -/
theorem b2n_le (b : Bool) : b2n b ≤ 1 := by cases b <;> decide

theorem ca_slices (s : State) (ha : s.curAddr < 2 ^ 32) :
    (ca s / 2 ^ 32 % 2 ^ 16, ca s / 2 ^ 16 % 2 ^ 16, ca s % 2 ^ 16) =
      caSpec s.curAddr s.isRead s.isRegister s.isMultipage := by
  have hl : s.curAddr % 8 < 8 := by omega
  have hm : s.curAddr / 8 % 65536 < 65536 := by omega
  have hh : s.curAddr / 524288 < 8192 := by omega
  have e2 : s.curAddr / 8 % 536870912 = 65536 * (s.curAddr / 524288) + s.curAddr / 8 % 65536 := by omega
  have f1 := b2n_le s.isMultipage
  have f2 := b2n_le s.isRegister
  have f3 := b2n_le s.isRead
  unfold ca caSpec
  simp only [Nat.reducePow, e2]
  generalize s.curAddr % 8 = l at *
  generalize s.curAddr / 8 % 65536 = m at *
  generalize s.curAddr / 524288 = h at *
  generalize b2n s.isMultipage = x1 at *
  generalize b2n s.isRegister = x2 at *
  generalize b2n s.isRead = x3 at *
  clear e2 ha
  refine Prod.ext ?_ (Prod.ext ?_ ?_) <;> simp only <;> omega
def SameCmd (s s' : State) : Prop :=
  s'.curAddr = s.curAddr ∧ s'.isRead = s.isRead ∧ s'.isRegister = s.isRegister ∧ s'.isMultipage = s.isMultipage

theorem ca_congr (s s' : State) (h : SameCmd s s') : ca s' = ca s := by
  obtain ⟨a, b, c, d⟩ := h
  simp [ca, a, b, c, d]

theorem idle_accepts (s : State) (i : In) (hs : s.fsm = .idle) (hstart : i.startTransfer = true) :
    (step s i).1.fsm = .latchRwds ∧ (step s i).1.curAddr = i.address % 2 ^ 32 ∧
    (step s i).1.isRead = !i.performWrite ∧ (step s i).1.isRegister = i.registerSpace ∧
    (step s i).1.isMultipage = !i.singlePage := by
  simp [step, hs, hstart]

theorem latch_step (s : State) (i : In) (hs : s.fsm = .latchRwds) :
    (step s i).1.fsm = .shiftCommand0 ∧ SameCmd s (step s i).1 := by
  simp [step, hs, SameCmd]

theorem sc0_step (s : State) (i : In) (hs : s.fsm = .shiftCommand0) :
    (step s i).1.fsm = .shiftCommand1 ∧ SameCmd s (step s i).1 ∧
    (step s i).1.dqE = true ∧ (step s i).1.dqO = ca s / 2 ^ 32 % 2 ^ 16 := by
  simp [step, hs, SameCmd]

theorem sc1_step (s : State) (i : In) (hs : s.fsm = .shiftCommand1) :
    (step s i).1.fsm = .shiftCommand2 ∧ SameCmd s (step s i).1 ∧
    (step s i).1.dqE = true ∧ (step s i).1.dqO = ca s / 2 ^ 16 % 2 ^ 16 := by
  simp [step, hs, SameCmd]

theorem sc2_step (s : State) (i : In) (hs : s.fsm = .shiftCommand2) :
    (step s i).1.dqE = true ∧ (step s i).1.dqO = ca s % 2 ^ 16 := by
  unfold step
  simp only [hs]
  split <;> simp

/-- **Command word.**  A request accepted in IDLE (cycle 0) puts, for every 32-bit address and
operation type, the three command-address words on `dq.o` with `dq.e = 1` in cycles 3, 4, 5 —
whatever the inputs do in cycles 1…4. -/
theorem ca_word_layout (s : State) (i0 i1 i2 i3 i4 : In)
    (hs : s.fsm = .idle) (hstart : i0.startTransfer = true) (ha : i0.address < 2 ^ 32) :
    let spec := caSpec i0.address (!i0.performWrite) i0.registerSpace (!i0.singlePage)
    let s3 := stateAfter s [i0, i1, i2]
    let s4 := stateAfter s [i0, i1, i2, i3]
    let s5 := stateAfter s [i0, i1, i2, i3, i4]
    (s3.dqE = true ∧ s3.dqO = spec.1) ∧ (s4.dqE = true ∧ s4.dqO = spec.2.1) ∧
    (s5.dqE = true ∧ s5.dqO = spec.2.2) := by
  have hmod : i0.address % 2 ^ 32 = i0.address := Nat.mod_eq_of_lt ha
  obtain ⟨f1, a1, r1, g1, m1⟩ := idle_accepts s i0 hs hstart
  generalize hs1 : (step s i0).1 = s1 at *
  obtain ⟨f2, c2⟩ := latch_step s1 i1 f1
  generalize hs2 : (step s1 i1).1 = s2 at *
  obtain ⟨f3, c3, e3, o3⟩ := sc0_step s2 i2 f2
  generalize hs3 : (step s2 i2).1 = s3 at *
  obtain ⟨f4, c4, e4, o4⟩ := sc1_step s3 i3 f3
  generalize hs4 : (step s3 i3).1 = s4 at *
  obtain ⟨e5, o5⟩ := sc2_step s4 i4 f4
  have k2 : ca s2 = ca s1 := ca_congr _ _ c2
  have k3 : ca s3 = ca s1 := (ca_congr _ _ c3).trans k2
  have k4 : ca s4 = ca s1 := (ca_congr _ _ c4).trans k3
  have hsl := ca_slices s1 (by rw [a1, hmod]; exact ha)
  rw [a1, hmod, r1, g1, m1] at hsl
  simp only [stateAfter, hs1, hs2, hs3, hs4]
  rw [← hsl]
  refine ⟨⟨e3, ?_⟩, ⟨e4, ?_⟩, ⟨e5, ?_⟩⟩
  · rw [o3, k2]
  · rw [o4, k3]
  · rw [o5, k4]

/-- Chip select is a register that is 1 in every non-IDLE state. -/
def CsInv (s : State) : Prop := s.fsm ≠ .idle → s.cs = true

theorem csInv_step (s : State) (i : In) : CsInv (step s i).1 := by
  unfold CsInv step
  cases s.fsm <;> simp <;> (try split) <;> (try split) <;> simp

/-- **Chip select held.**  After any input history from reset, whenever the FSM is inside a
transaction (any state but IDLE, including the RECOVERY cycle that ends it) `phy.cs` is asserted. -/
theorem cs_held_until_end (h : List In) : CsInv (stateAfter init h) := by
  suffices ∀ s, CsInv s → CsInv (stateAfter s h) from this init (by simp [CsInv, init])
  induction h with
  | nil => intro s hs; exact hs
  | cons i is ih => intro s _; exact ih _ (csInv_step s i)

/-- … and it is only ever deasserted by the RECOVERY state or by IDLE without a request. -/
theorem cs_dropped_only_at_end (s : State) (i : In) (h : (step s i).1.cs = false) :
    s.fsm = .recovery ∨ (s.fsm = .idle ∧ i.startTransfer = false) := by
  unfold step at h
  cases hf : s.fsm <;> simp [hf] at h ⊢ <;> (try split at h) <;> (try split at h) <;> simp_all

/-- Data strobes come from the data states only. -/
theorem strobes_only_in_data_states (s : State) (i : In) :
    ((step s i).2.readReady = true → s.fsm = .readData) ∧
    ((step s i).2.writeReady = true ↔ s.fsm = .writeData) := by
  unfold step
  cases s.fsm <;> simp <;> (try split) <;> (try split) <;> simp

theorem stateAfter_append (s : State) (a b : List In) :
    stateAfter s (a ++ b) = stateAfter (stateAfter s a) b := by
  induction a generalizing s with
  | nil => rfl
  | cons x xs ih => simp [stateAfter, ih]

/-- The last command word starts the latency count (except for register writes, which have none). -/
theorem command_sets_latency (s : State) (i : In) (hf : s.fsm = .shiftCommand2) :
    (s.isRegister = true ∧ s.isRead = false → (step s i).1.fsm = .writeData) ∧
    (¬ (s.isRegister = true ∧ s.isRead = false) →
      (step s i).1.fsm = .handleLatency ∧ (step s i).1.latency = HIGH_LATENCY_CLOCKS - 2 ∧
      (step s i).1.isRead = s.isRead) := by
  unfold step
  cases s.isRegister <;> cases s.isRead <;> simp [hf]

theorem latency_holds (h : List In) :
    ∀ (s : State), s.fsm = .handleLatency → h.length ≤ s.latency → s.latency < 16 →
      (stateAfter s h).fsm = .handleLatency ∧ (stateAfter s h).latency = s.latency - h.length ∧
      (stateAfter s h).isRead = s.isRead := by
  induction h with
  | nil => intro s hf _ _; simp [stateAfter, hf]
  | cons i is ih =>
    intro s hf hl hlt
    simp only [List.length_cons] at hl
    have hne : (s.latency == 0) = false := by simp; omega
    have h1 : (step s i).1.fsm = .handleLatency ∧ (step s i).1.latency = s.latency - 1 ∧
        (step s i).1.isRead = s.isRead := by
      unfold step
      simp [hf, hne]
      omega
    obtain ⟨a, b, c⟩ := ih (step s i).1 h1.1 (by omega) (by omega)
    simp only [stateAfter, List.length_cons]
    refine ⟨a, ?_, ?_⟩
    · rw [b, h1.2.1]; omega
    · rw [c, h1.2.2]

/-- **Latency.**  From HANDLE_LATENCY with `n` clocks remaining the FSM stays in HANDLE_LATENCY
for exactly `n + 1` cycles — no data strobe is possible there (`strobes_only_in_data_states`) —
and then enters READ_DATA (read) or WRITE_DATA (write), whatever the inputs are.  With
`command_sets_latency` (`n = HIGH_LATENCY_CLOCKS - 2 = 12`) the first data cycle of every memory
access and register read is 13 cycles after the last command word, i.e. 18 cycles after the
request. -/
theorem latency_before_data (s : State) (h : List In) (x : In)
    (hf : s.fsm = .handleLatency) (hlt : s.latency < 16) (hl : h.length = s.latency) :
    (∀ k, k ≤ s.latency → (stateAfter s (h.take k)).fsm = .handleLatency) ∧
    (stateAfter s (h ++ [x])).fsm = (if s.isRead then .readData else .writeData) := by
  constructor
  · intro k hk
    exact (latency_holds (h.take k) s hf (by simp; omega) hlt).1
  · obtain ⟨a, b, c⟩ := latency_holds h s hf (by omega) hlt
    rw [stateAfter_append]
    simp only [stateAfter]
    have hz : (stateAfter s h).latency = 0 := by rw [b]; omega
    unfold step
    simp [a, hz, c]

/-- **Drive enables.**  `dq.e` is raised exactly by the three command states and by WRITE_DATA;
`rwds.e` exactly by WRITE_DATA of a memory (non-register) write, and `rwds.o` is then 0 (no byte
masked). -/
theorem drive_only_in_command_and_write (s : State) (i : In) :
    ((step s i).1.dqE = true ↔
      (s.fsm = .shiftCommand0 ∨ s.fsm = .shiftCommand1 ∨ s.fsm = .shiftCommand2 ∨ s.fsm = .writeData)) ∧
    ((step s i).1.rwdsE = true ↔ (s.fsm = .writeData ∧ s.isRegister = false)) ∧
    ((step s i).1.rwdsE = true → (step s i).1.rwdsO = 0) := by
  unfold step
  cases s.fsm <;> simp <;> (try split) <;> (try split) <;> simp

/-- The memory drives RWDS while the command is latched/shifted and during the latency, and both
RWDS and DQ while data is read. -/
def NoContention (s : State) : Prop :=
  (s.fsm = .readData → s.dqE = false ∧ s.rwdsE = false) ∧
  ((s.fsm = .latchRwds ∨ s.fsm = .shiftCommand0 ∨ s.fsm = .shiftCommand1 ∨ s.fsm = .shiftCommand2 ∨
    s.fsm = .handleLatency) → s.rwdsE = false)

theorem noContention_step (s : State) (i : In) : NoContention (step s i).1 := by
  unfold NoContention step
  cases s.fsm <;> simp <;> (try split) <;> (try split) <;> simp

/-- **No contention.**  After any input history from reset: in READ_DATA neither DQ nor RWDS is
driven by the interface; from LATCH_RWDS to the end of the latency RWDS is not driven. -/
theorem never_drives_while_memory_drives (h : List In) : NoContention (stateAfter init h) := by
  suffices ∀ s, NoContention s → NoContention (stateAfter s h) from this init (by simp [NoContention, init])
  induction h with
  | nil => intro s hs; exact hs
  | cons i is ih => intro s _; exact ih _ (noContention_step s i)

/-! ## non-vacuity: the register write of the repository's own test (address 0x00BBCCDD) -/

def reqIn : In := ⟨0x00BBCCDD, true, true, false, true, true, 0xBEEF, 0, 1⟩
example : (stateAfter init [reqIn, reqIn, reqIn]).dqO = 0x6017 := by decide +kernel
example : (stateAfter init [reqIn, reqIn, reqIn, reqIn]).dqO = 0x799B := by decide +kernel
example : (stateAfter init [reqIn, reqIn, reqIn, reqIn, reqIn]).dqO = 0x0005 := by decide +kernel
example : caSpec 0x00BBCCDD false true true = (0x6017, 0x799B, 0x0005) := by decide +kernel
example : (stateAfter init [reqIn, reqIn, reqIn, reqIn, reqIn, reqIn]).dqO = 0xBEEF := by decide +kernel
/-- a memory read reaches READ_DATA 18 cycles after the request -/
def rdIn : In := ⟨0x1234, false, false, false, true, false, 0, 0, 0⟩
example : (stateAfter init (List.replicate 18 rdIn)).fsm = .readData := by decide +kernel
example : (stateAfter init (List.replicate 17 rdIn)).fsm = .handleLatency := by decide +kernel

end LunaVerif.HyperRam
