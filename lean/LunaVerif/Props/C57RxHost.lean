import LunaVerif.Props.C57Streams
/-!
# C57 — rx order seen from the HOST, over whole-device event histories

`rx_in_order` (Props/C57Streams.lean) says that the rx stream delivers exactly the packets the DEVICE ACKed with a
fresh toggle.  Here the host's bookkeeping is added (`HRx`, the whole-device version of `RxHost` of
`rx_in_order_partial`): its sequence bit `hBit`, the packet it is still trying to get across (`pending`), the bytes
of the packets it has seen ACKed (`done`).  The annotation `got` of a data event says whether the host sees the
device's handshake.

Environment hypothesis `HostOutDiscipline` (USB 2.0 §8.6, decidable along the history): a data packet the host sends
to OUT endpoint 4 carries the host's sequence bit, and while a packet is pending the host sends that packet again.

`rx_host_in_order`: the packets the device ACKed fresh — without the re-deliveries below — are the host's `done`
bytes, followed by the pending packet if the device has it already (the host missed its ACK): each packet once, in
order, whatever else happens on the bus.  As coded, a halt-clear of OUT 4 restarts both sequence bits at DATA0; if
it arrives while the device has the pending packet and the host does not know (`unseen`), the host's retransmission
is now fresh again and the device takes the packet a SECOND time: exactly these re-deliveries are logged in
`rredone` (each equal to the pending packet), at most one per such halt-clear (`rAmb`).  Without such a halt-clear
`rx_host_exactly_once`: bytes read ++ bytes buffered = `done` ++ (pending packet if the device has it).
-/
set_option linter.unusedSimpArgs false
namespace LunaVerif.C57
open LunaVerif LunaVerif.Device LunaVerif.Device.Full

structure HRx where
  hBit    : Bool := false                 -- the host's sequence bit for OUT endpoint 4
  pending : Option (List Nat) := none     -- sent, not (yet) seen ACKed
  done    : List Nat := []                -- bytes of the packets seen ACKed
  unseen  : Bool := false                 -- the device has ACKed the pending packet (fresh), the host missed it
  rredo   : Bool := false                 -- a halt-clear arrived while `unseen`: the next fresh packet is a re-delivery
  ackedH  : List Nat := []                -- payloads ACKed fresh, re-deliveries left out
  rredone : List (List Nat × List Nat) := []   -- (packet taken again, the pending packet)
  rAmb    : Nat := 0                      -- halt-clears of OUT 4 that arrived while `unseen`
deriving Repr, DecidableEq

/-- The host's rx bookkeeping after one event (`g`: the ghost history before the event, `o`: the device's answer). -/
def hrStep (s : FullState) (g : Ghost) (hr : HRx) (a : AEvent) (o : Obs) : HRx :=
  match a.ev with
  | .data pid payload _ =>
      if s.ctl.tokPid = PID_OUT ∧ s.ctl.tokEp = 4 then
        let fresh : Bool := decide (o.resp = .hs PID_ACK ∧ pidToggle pid = g.rxBit)
        let hr1 := if fresh then
                     (if hr.rredo then { hr with rredo := false, rredone := hr.rredone ++ [(payload, hr.pending.getD [])] }
                      else { hr with ackedH := hr.ackedH ++ payload })
                   else hr
        if o.resp = .hs PID_ACK ∧ a.got = true then
          { hr1 with hBit := !hr.hBit, pending := none, done := hr.done ++ payload, unseen := false }
        else { hr1 with pending := some payload, unseen := hr1.unseen || fresh }
      else hr
  | .handshake _ =>
      if haltFor (ctxOf s.ctl a.ev) false 4 then
        { hr with hBit := false, rredo := hr.rredo || hr.unseen, unseen := false,
                  rAmb := hr.rAmb + (if hr.unseen then 1 else 0) }
      else hr
  | _ => hr

/-- The toggle protocol on the host's side. -/
def outOk (s : FullState) (hr : HRx) (a : AEvent) : Bool :=
  match a.ev with
  | .data pid payload _ =>
      if s.ctl.tokPid = PID_OUT ∧ s.ctl.tokEp = 4 then
        pidToggle pid == hr.hBit && (match hr.pending with | none => true | some q => payload == q)
      else true
  | _ => true

def runH (c : FullConfig) : FullState → Ghost → HRx → List AEvent → FullState × Ghost × HRx
  | s, g, hr, [] => (s, g, hr)
  | s, g, hr, a :: as =>
      runH c (Full.step c s a.ev).1 (ghostStep s g a (Full.step c s a.ev).2) (hrStep s g hr a (Full.step c s a.ev).2) as

def discFrom (c : FullConfig) : FullState → Ghost → HRx → List AEvent → Bool
  | _, _, _, [] => true
  | s, g, hr, a :: as =>
      outOk s hr a &&
      discFrom c (Full.step c s a.ev).1 (ghostStep s g a (Full.step c s a.ev).2) (hrStep s g hr a (Full.step c s a.ev).2) as

/-- `HostOutDiscipline c h`: along the annotated history `h` from the freshly reset device. -/
def HostOutDiscipline (c : FullConfig) (h : List AEvent) : Bool := discFrom c (Full.init c) {} {} h

theorem runH_runG (c : FullConfig) (s : FullState) (g : Ghost) (hr : HRx) (h : List AEvent) :
    ((runH c s g hr h).1, (runH c s g hr h).2.1) = runG c s g h := by
  induction h generalizing s g hr with
  | nil => rfl
  | cons a as ih => simp only [runH, runG]; exact ih _ _ _

/-! ## The invariant (a property of the observed history alone) -/

def HCore (g : Ghost) (hr : HRx) : Prop :=
  (g.rxBit = hr.hBit ∧ hr.unseen = false ∧ hr.rredo = false ∧ hr.ackedH = hr.done) ∨
  (g.rxBit = (!hr.hBit) ∧ hr.unseen = true ∧ hr.rredo = false ∧ ∃ q, hr.pending = some q ∧ hr.ackedH = hr.done ++ q) ∨
  (g.rxBit = hr.hBit ∧ hr.unseen = false ∧ hr.rredo = true ∧ ∃ q, hr.pending = some q ∧ hr.ackedH = hr.done ++ q)

def HInv (g : Ghost) (hr : HRx) : Prop :=
  HCore g hr ∧ (∀ x ∈ hr.rredone, x.1 = x.2) ∧ hr.rredone.length + (if hr.rredo then 1 else 0) ≤ hr.rAmb ∧
  (hr.rAmb = 0 → g.acked = hr.ackedH)

/-- `ghostStep` on the rx fields for a data packet. -/
theorem ghost_data_rx (s : FullState) (g : Ghost) (got : Bool) (pid : Nat) (p : List Nat) (ok : Bool) (o : Obs) :
    let g' := ghostStep s g ⟨.data pid p ok, got⟩ o
    let fresh := s.ctl.tokPid = PID_OUT ∧ s.ctl.tokEp = 4 ∧ o.resp = .hs PID_ACK ∧ pidToggle pid = g.rxBit
    (fresh → g'.rxBit = (!g.rxBit) ∧ g'.acked = g.acked ++ p) ∧ (¬ fresh → g'.rxBit = g.rxBit ∧ g'.acked = g.acked) := by
  simp only [ghostStep]
  constructor
  · intro h; rw [if_pos h]; exact ⟨rfl, rfl⟩
  · intro h; rw [if_neg h]; exact ⟨rfl, rfl⟩

theorem not_not_bool (a b : Bool) (h : a = !b) : ¬ (a = b) := by cases a <;> cases b <;> simp at h ⊢

/-- `hrStep` field by field for a data packet while the detector shows OUT / endpoint 4. -/
theorem hr_data_fields (s : FullState) (g : Ghost) (hr : HRx) (got : Bool) (pid : Nat) (p : List Nat) (ok : Bool)
    (o : Obs) (h12 : s.ctl.tokPid = PID_OUT ∧ s.ctl.tokEp = 4) :
    let hr' := hrStep s g hr ⟨.data pid p ok, got⟩ o
    let fresh := o.resp = .hs PID_ACK ∧ pidToggle pid = g.rxBit
    let seen := o.resp = .hs PID_ACK ∧ got = true
    hr'.hBit = (if seen then !hr.hBit else hr.hBit) ∧
    hr'.pending = (if seen then none else some p) ∧
    hr'.done = (if seen then hr.done ++ p else hr.done) ∧
    hr'.unseen = (if seen then false else (hr.unseen || decide fresh)) ∧
    hr'.rredo = (if fresh then false else hr.rredo) ∧
    hr'.ackedH = (if fresh ∧ hr.rredo = false then hr.ackedH ++ p else hr.ackedH) ∧
    hr'.rredone = (if fresh ∧ hr.rredo = true then hr.rredone ++ [(p, hr.pending.getD [])] else hr.rredone) ∧
    hr'.rAmb = hr.rAmb := by
  simp only [hrStep, if_pos h12]
  cases got <;>
  by_cases h1 : o.resp = .hs PID_ACK <;>
  by_cases h2 : pidToggle pid = g.rxBit <;>
  cases hrd : hr.rredo <;> simp [h1, h2, hrd]

theorem hinv_data (s : FullState) (g : Ghost) (hr : HRx) (got : Bool) (pid : Nat) (p : List Nat) (ok : Bool) (o : Obs)
    (hi : HInv g hr) (hd : outOk s hr ⟨.data pid p ok, got⟩ = true) :
    HInv (ghostStep s g ⟨.data pid p ok, got⟩ o) (hrStep s g hr ⟨.data pid p ok, got⟩ o) := by
  obtain ⟨gf, gn⟩ := ghost_data_rx s g got pid p ok o
  by_cases h12 : s.ctl.tokPid = PID_OUT ∧ s.ctl.tokEp = 4
  · obtain ⟨hcore, hred, hcnt, hamb⟩ := hi
    simp only [outOk, if_pos h12, Bool.and_eq_true, beq_iff_eq] at hd
    obtain ⟨htog, hpend⟩ := hd
    obtain ⟨f1, f2, f3, f4, f5, f6, f7, f8⟩ := hr_data_fields s g hr got pid p ok o h12
    unfold HInv HCore
    rw [f1, f2, f3, f4, f5, f6, f7, f8]
    have hp' : ∀ q, hr.pending = some q → p = q := by
      intro q hq; rw [hq] at hpend; simpa using hpend
    have hred2 : ∀ (a b : List Nat), (a, b) ∈ hr.rredone → a = b := fun a b hab => hred (a, b) hab
    by_cases hack : o.resp = .hs PID_ACK
    · -- the device ACKs
      rcases hcore with ⟨c1, c2, c3, c4⟩ | ⟨c1, c2, c3, q, c4, c5⟩ | ⟨c1, c2, c3, q, c4, c5⟩
      · -- in step: the packet is fresh
        have hfr : pidToggle pid = g.rxBit := by rw [htog, c1]
        obtain ⟨g1, g2⟩ := gf ⟨h12.1, h12.2, hack, hfr⟩
        rw [g1, g2]
        have hc' : hr.rredone.length ≤ hr.rAmb := by simpa [c3] using hcnt
        cases got
        · simp [hack, hfr, c1, c2, c3, c4]
          exact ⟨hred2, hc', fun h0 => by rw [hamb h0, c4]⟩
        · simp [hack, hfr, c1, c2, c3, c4]
          exact ⟨hred2, hc', fun h0 => by rw [hamb h0, c4]⟩
      · -- out of step: a retransmission the device skips
        have hnf : ¬ (pidToggle pid = g.rxBit) := by rw [htog, c1]; cases hr.hBit <;> simp
        obtain ⟨g1, g2⟩ := gn (fun h => hnf h.2.2.2)
        have := hp' q c4; subst this
        rw [g1, g2]
        have hc' : hr.rredone.length ≤ hr.rAmb := by simpa [c3] using hcnt
        have hne : ¬ (hr.hBit = !hr.hBit) := by cases hr.hBit <;> simp
        cases got
        · simp [hack, htog, hne, c1, c2, c3, c4, c5]
          exact ⟨hred2, hc', fun h0 => by rw [hamb h0, c5]⟩
        · simp [hack, htog, hne, c1, c2, c3, c4, c5]
          exact ⟨hred2, hc', fun h0 => by rw [hamb h0, c5]⟩
      · -- after an ambiguous halt-clear: the retransmission is fresh again (the re-delivery)
        have hfr : pidToggle pid = g.rxBit := by rw [htog, c1]
        obtain ⟨g1, g2⟩ := gf ⟨h12.1, h12.2, hack, hfr⟩
        have := hp' q c4; subst this
        rw [g1, g2]
        have hc' : hr.rredone.length + 1 ≤ hr.rAmb := by simpa [c3] using hcnt
        have hred3 : ∀ (a b : List Nat), (a, b) ∈ hr.rredone ∨ a = p ∧ b = p → a = b := by
          intro a b hab
          rcases hab with hab | ⟨h1, h2⟩
          · exact hred2 a b hab
          · rw [h1, h2]
        cases got
        · simp [hack, hfr, c1, c2, c3, c4, c5]
          exact ⟨hred3, hc', fun h0 => by omega⟩
        · simp [hack, hfr, c1, c2, c3, c4, c5]
          exact ⟨hred3, hc', fun h0 => by omega⟩
    · -- no ACK (corrupted, NAKed, …): the packet stays pending, nothing else changes
      obtain ⟨g1, g2⟩ := gn (fun h => hack h.2.2.1)
      rw [g1, g2]
      simp [hack]
      refine ⟨?_, hred2, hcnt, hamb⟩
      rcases hcore with ⟨c1, c2, c3, c4⟩ | ⟨c1, c2, c3, q, c4, c5⟩ | ⟨c1, c2, c3, q, c4, c5⟩
      · exact Or.inl ⟨c1, c2, c3, c4⟩
      · have := hp' q c4; subst this
        exact Or.inr (Or.inl ⟨c1, c2, c3, c5⟩)
      · have := hp' q c4; subst this
        exact Or.inr (Or.inr ⟨c1, c2, c3, c5⟩)
  · -- not a packet for OUT endpoint 4
    obtain ⟨g1, g2⟩ := gn (fun h => h12 ⟨h.1, h.2.1⟩)
    simp only [hrStep, if_neg h12]
    obtain ⟨hcore, hred, hcnt, hamb⟩ := hi
    refine ⟨?_, hred, hcnt, by rw [g2]; exact hamb⟩
    unfold HCore at hcore ⊢
    rw [g1]; exact hcore

theorem hinv_handshake (s : FullState) (g : Ghost) (hr : HRx) (got : Bool) (pid : Nat) (o : Obs) (hi : HInv g hr) :
    HInv (ghostStep s g ⟨.handshake pid, got⟩ o) (hrStep s g hr ⟨.handshake pid, got⟩ o) := by
  obtain ⟨g1, g2, _⟩ := ghost_hs_rx s g got pid o
  obtain ⟨hcore, hred, hcnt, hamb⟩ := hi
  simp only [hrStep]
  cases hh : haltFor (ctxOf s.ctl (.handshake pid)) false 4
  · simp only [hh, Bool.false_eq_true, if_false] at g1 ⊢
    refine ⟨?_, hred, hcnt, by rw [g2]; exact hamb⟩
    unfold HCore at hcore ⊢
    rw [g1]; exact hcore
  · simp only [hh, if_true] at g1 ⊢
    rcases hcore with ⟨c1, c2, c3, c4⟩ | ⟨c1, c2, c3, q, c4, c5⟩ | ⟨c1, c2, c3, q, c4, c5⟩
    · refine ⟨Or.inl ⟨by simp [g1], by simp, by simp [c2, c3], by simp [c4]⟩, hred, ?_, ?_⟩
      · simpa [c2, c3] using hcnt
      · simpa [c2, g2] using hamb
    · refine ⟨Or.inr (Or.inr ⟨by simp [g1], by simp, by simp [c2, c3], q, c4, c5⟩), hred, ?_, ?_⟩
      · simp [c2, c3] at hcnt ⊢; omega
      · simp [c2]
    · refine ⟨Or.inr (Or.inr ⟨by simp [g1], by simp, by simp [c2, c3], q, c4, c5⟩), hred, ?_, ?_⟩
      · simpa [c2, c3] using hcnt
      · simpa [c2, g2] using hamb

/-- Every other event leaves the rx ghost fields and the host's bookkeeping alone. -/
theorem ghost_rx_other (s : FullState) (g : Ghost) (a : AEvent) (o : Obs)
    (h1 : ∀ pid p ok, a.ev ≠ .data pid p ok) (h2 : ∀ pid, a.ev ≠ .handshake pid) :
    (ghostStep s g a o).rxBit = g.rxBit ∧ (ghostStep s g a o).acked = g.acked ∧ hrStep s g hr a o = hr := by
  obtain ⟨ev, got⟩ := a
  cases ev with
  | data pid p ok => exact absurd rfl (h1 pid p ok)
  | handshake pid => exact absurd rfl (h2 pid)
  | token pid addr ep =>
    refine ⟨?_, ?_, rfl⟩ <;> (simp only [ghostStep]; repeat' split) <;> rfl
  | consume ep n => refine ⟨?_, ?_, rfl⟩ <;> (simp only [ghostStep]; split) <;> rfl
  | produce ep bytes last => refine ⟨?_, ?_, rfl⟩ <;> (simp only [ghostStep]; split) <;> rfl
  | sof f => exact ⟨rfl, rfl, rfl⟩
  | malformed bs => exact ⟨rfl, rfl, rfl⟩
  | quiet => exact ⟨rfl, rfl, rfl⟩
  | busReset => exact ⟨rfl, rfl, rfl⟩
  | setSignal ep v => exact ⟨rfl, rfl, rfl⟩

theorem hinv_step (s : FullState) (g : Ghost) (hr : HRx) (a : AEvent) (o : Obs) (hi : HInv g hr)
    (hd : outOk s hr a = true) : HInv (ghostStep s g a o) (hrStep s g hr a o) := by
  by_cases h1 : ∃ pid p ok, a.ev = .data pid p ok
  · obtain ⟨pid, p, ok, he⟩ := h1
    obtain ⟨ev, got⟩ := a
    simp only at he; subst he
    exact hinv_data s g hr got pid p ok o hi hd
  · by_cases h2 : ∃ pid, a.ev = .handshake pid
    · obtain ⟨pid, he⟩ := h2
      obtain ⟨ev, got⟩ := a
      simp only at he; subst he
      exact hinv_handshake s g hr got pid o hi
    · obtain ⟨e1, e2, e3⟩ := ghost_rx_other (hr := hr) s g a o (fun pid p ok h => h1 ⟨pid, p, ok, h⟩)
        (fun pid h => h2 ⟨pid, h⟩)
      obtain ⟨hcore, hred, hcnt, hamb⟩ := hi
      rw [e3]
      refine ⟨?_, hred, hcnt, by rw [e2]; exact hamb⟩
      unfold HCore at hcore ⊢
      rw [e1]; exact hcore

theorem hinv_run (c : FullConfig) (s : FullState) (g : Ghost) (hr : HRx) (h : List AEvent) (hi : HInv g hr)
    (hd : discFrom c s g hr h = true) : HInv (runH c s g hr h).2.1 (runH c s g hr h).2.2 := by
  induction h generalizing s g hr with
  | nil => exact hi
  | cons a as ih =>
    simp only [discFrom, Bool.and_eq_true] at hd
    exact ih _ _ _ (hinv_step s g hr a _ hi hd.1) hd.2

/-! ## The theorems -/

/-- **C57 (rx in order, the host's view, whole-device histories).**  For EVERY event history of the device from
reset in which the host follows the toggle protocol on OUT endpoint 4: the payloads the device ACKed with a fresh
toggle (re-deliveries after an ambiguous halt-clear left out) are the bytes of the packets the host has seen ACKed,
followed by the pending packet when the device already has it; every logged re-delivery is the pending packet
again, and there is at most one per halt-clear of OUT 4 that arrived while the host had missed an ACK. -/
theorem rx_host_in_order (c : FullConfig) (h : List AEvent) (hd : HostOutDiscipline c h = true) :
    let r := runH c (Full.init c) {} {} h
    r.2.2.ackedH = r.2.2.done ++ (if r.2.2.unseen = true ∨ r.2.2.rredo = true then r.2.2.pending.getD [] else []) ∧
    (∀ x ∈ r.2.2.rredone, x.1 = x.2) ∧
    r.2.2.rredone.length + (if r.2.2.rredo then 1 else 0) ≤ r.2.2.rAmb := by
  have hi : HInv ({} : Ghost) ({} : HRx) :=
    ⟨Or.inl ⟨rfl, rfl, rfl, rfl⟩, fun x hx => (by cases hx), Nat.le_refl _, fun _ => rfl⟩
  obtain ⟨hcore, hred, hcnt, _⟩ := hinv_run c _ _ _ h hi hd
  refine ⟨?_, hred, hcnt⟩
  rcases hcore with ⟨c1, c2, c3, c4⟩ | ⟨c1, c2, c3, q, c4, c5⟩ | ⟨c1, c2, c3, q, c4, c5⟩
  · simp [c2, c3, c4]
  · simp [c2, c4, c5]
  · simp [c3, c4, c5]

/-- **C57 (rx exactly once, end to end).**  If moreover no halt-clear of OUT 4 arrived while the host had missed an
ACK: the bytes read from the rx stream followed by the bytes still buffered are exactly the bytes of the packets the
host has seen ACKed, followed by the pending packet when the device already has it (and the host will have it ACKed
again without a second delivery) — the whole-device version of `rx_in_order_partial`, halt-clears included. -/
theorem rx_host_exactly_once (c : FullConfig) (hc : IsSerial c) (h : List AEvent) (hd : HostOutDiscipline c h = true)
    (hn : (runH c (Full.init c) {} {} h).2.2.rAmb = 0) :
    let r := runH c (Full.init c) {} {} h
    r.2.1.delivered ++ bytesOf (rxEp r.1).fifo =
      r.2.2.done ++ (if r.2.2.unseen = true then r.2.2.pending.getD [] else []) := by
  have hi : HInv ({} : Ghost) ({} : HRx) :=
    ⟨Or.inl ⟨rfl, rfl, rfl, rfl⟩, fun x hx => (by cases hx), Nat.le_refl _, fun _ => rfl⟩
  obtain ⟨hcore, _, hcnt, hamb⟩ := hinv_run c _ _ _ h hi hd
  have hG := runH_runG c (Full.init c) {} {} h
  have hrx := (rx_in_order c hc h).1
  rw [← hG] at hrx
  simp only at hrx ⊢
  rw [hrx, hamb hn]
  rw [hn] at hcnt
  have hr0 : (runH c (Full.init c) {} {} h).2.2.rredo = false := by
    cases hr : (runH c (Full.init c) {} {} h).2.2.rredo
    · rfl
    · rw [hr] at hcnt; simp at hcnt
  rcases hcore with ⟨c1, c2, c3, c4⟩ | ⟨c1, c2, c3, q, c4, c5⟩ | ⟨c1, c2, c3, q, c4, c5⟩
  · simp [c2, c4]
  · simp [c2, c4, c5]
  · rw [hr0] at c3; cases c3

/-! ## The ghost's "token detector shows OUT / 4" is "the previous event was the OUT token for endpoint 4" -/

theorem tokPid_token_mine (c : FullConfig) (s : FullState) (pid ep : Nat) :
    (Full.step c s (.token pid s.ctl.address ep)).1.ctl.tokPid = pid := by
  rw [step_ctl, step_tokPid]
  simp only [core, if_true]
  rw [(onToken_ctl c.dev s.ctl pid ep).tokPid]
  rfl

/-- The ghost's test "the token detector shows an OUT token for endpoint 4" at a data packet says what one expects:
for a data packet that is legal by the host's packet grammar (`Device.legalEvent`: it follows an OUT / SETUP token,
or an IN token of another device), the detector shows OUT / 4 exactly when the event before it was an OUT token
for endpoint 4 carrying the device's address. -/
theorem out_data_follows_out_token (c : FullConfig) (s0 : FullState) (e : HostEvent)
    (hl : let s := (Full.step c s0 e).1.ctl
          (s.gPrevTok == PID_OUT || s.gPrevTok == PID_SETUP || (s.gPrevTok == PID_IN && s.tokPid == 0)) = true) :
    ((Full.step c s0 e).1.ctl.tokPid = PID_OUT ∧ (Full.step c s0 e).1.ctl.tokEp = 4) ↔
      e = .token PID_OUT s0.ctl.address 4 := by
  constructor
  · rintro ⟨h1, h2⟩
    have hg : (Full.step c s0 e).1.ctl.gPrevTok = tokenPidOf e := by rw [step_ctl]; rfl
    simp only [hg, h1] at hl
    cases e with
    | token pid addr ep =>
      by_cases ha : addr = s0.ctl.address
      · subst ha
        rw [tokPid_token_mine] at h1
        rw [tokEp_token_mine] at h2
        rw [h1, h2]
      · have : (Full.step c s0 (.token pid addr ep)).1.ctl.tokPid = 0 := by
          rw [step_ctl, step_tokPid]; simp only [core, if_neg ha]
        rw [this] at h1; exact absurd h1 (by decide)
    | _ => simp [tokenPidOf, PID_OUT, PID_SETUP, PID_IN] at hl
  · intro he
    subst he
    exact ⟨tokPid_token_mine c s0 PID_OUT 4, tokEp_token_mine c s0 PID_OUT 4⟩

/-! ## Non-vacuity -/

/-- Enumeration; [1, 2, 3] ACKed but the host misses the ACK, retransmitted (ACKed, not delivered again); a corrupted
packet and its retransmission; another device's transaction; halt-clear of OUT 4 (in step), DATA0 again. -/
def demoRx : List AEvent :=
  ann (enumeration 5) ++
  [⟨.token PID_OUT 5 4, true⟩, ⟨.data PID_DATA0 [1, 2, 3] true, false⟩,
   ⟨.token PID_OUT 5 4, true⟩, ⟨.data PID_DATA0 [1, 2, 3] true, true⟩] ++
  ann [.consume 4 2,
       .token PID_OUT 5 4, .data PID_DATA1 [4] false,
       .token PID_OUT 7 4, .data PID_DATA1 [9] true,
       .token PID_OUT 5 4, .data PID_DATA1 [4] true] ++
  ann (clearHalt 5 0x04) ++
  ann [.token PID_OUT 5 4, .data PID_DATA0 [5] true, .consume 4 1]

example : Full.LegalHost acmCfg (demoRx.map (·.ev)) = true ∧ HostOutDiscipline acmCfg demoRx = true := by
  decide +kernel

example : (runH acmCfg (Full.init acmCfg) {} {} demoRx).2.2 =
      { hBit := true, done := [1, 2, 3, 4, 5], ackedH := [1, 2, 3, 4, 5] } ∧
    (runH acmCfg (Full.init acmCfg) {} {} demoRx).2.1.delivered = [1, 2, 3] := by decide +kernel

/-- The ambiguous halt-clear of OUT 4: the device has [1, 2, 3], the host missed the ACK, CLEAR_FEATURE(ENDPOINT_HALT)
— the retransmission is DATA0 = fresh again and the bytes come out of rx twice (replayed on the real
`USBSerialDevice`: the gateware does exactly this). -/
def demoRxRedo : List AEvent :=
  ann (enumeration 5) ++
  [⟨.token PID_OUT 5 4, true⟩, ⟨.data PID_DATA0 [1, 2, 3] true, false⟩] ++
  ann (clearHalt 5 0x04) ++
  ann [.token PID_OUT 5 4, .data PID_DATA0 [1, 2, 3] true, .consume 4 10]

example : Full.LegalHost acmCfg (demoRxRedo.map (·.ev)) = true ∧ HostOutDiscipline acmCfg demoRxRedo = true := by
  decide +kernel

example : (runH acmCfg (Full.init acmCfg) {} {} demoRxRedo).2.2 =
      { hBit := true, done := [1, 2, 3], ackedH := [1, 2, 3], rredone := [([1, 2, 3], [1, 2, 3])], rAmb := 1 } ∧
    (runH acmCfg (Full.init acmCfg) {} {} demoRxRedo).2.1.delivered = [1, 2, 3, 1, 2, 3] := by decide +kernel

/-- The hypothesis can fail: a host that sends a NEW packet with the toggle of the one it has seen ACKed. -/
example : HostOutDiscipline acmCfg (ann (enumeration 5) ++
    ann [.token PID_OUT 5 4, .data PID_DATA0 [1] true, .token PID_OUT 5 4, .data PID_DATA0 [2] true]) = false := by
  decide +kernel

end LunaVerif.C57
