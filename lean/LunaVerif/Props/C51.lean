import LunaVerif.Model.Periph.SpiRegister
/-!
# C51 — SPI register interface reads and writes exactly the addressed register

"A register transaction reads back the current value of the addressed register (or the default for
unassigned addresses) and, for a write, updates exactly that register with the transmitted value
and strobes its write signal once; an aborted transaction changes nothing."

Structure of the argument (all for EVERY pin history, every register map, every size):

* `refines_protocol` — the shift registers and the bit counter of the command interface are, in
  every reachable state, exactly the list of bits sampled on falling clock edges since the phase
  (command / data) began (`Ghost.bits`), MSB first, and during the data phase the not yet
  overwritten upper part of `current_word` is the word latched for transmission.
* `word_complete_exactly_after_full_word` — `word_complete` is raised only by the data phase after
  exactly `register_size` sampled bits, with `word_received` = those bits; it lasts one cycle.
* `write_updates_exactly_addressed_once` — in every cycle the backing stores change only where the
  write strobe is high, the strobe is high only for the register whose address is in the command,
  only in the single `word_complete` cycle of a write command, and the value stored is the received
  word (truncated to the register's size).
* `abort_changes_nothing` — dropping chip select before the word is complete returns the FSM to
  IDLE without `word_complete`; over any stretch of cycles without `word_complete` no backing store
  changes and no strobe fires.
* `read_returns_addressed_or_default` — the word latched for transmission is the read value of the
  first (= only) register with the commanded address, the default if there is none or if it has no
  read value; `sdo_is_next_unsent_bit`: during the data phase `sdo` is loaded with the latched
  word's bit `register_size-1-k` after `k` sampled bits (MSB first).
-/
namespace LunaVerif.SpiRegister

/-! ## list / bit helpers -/

theorem natToBits_length (w n : Nat) : (natToBits w n).length = w := by
  induction w generalizing n with
  | zero => rfl
  | succ w ih => simp [natToBits, ih]

theorem shift_take (l p : List Bool) (b : Bool) (hlt : p.length < l.length)
    (h : l.take p.length = p.reverse) :
    (b :: l.dropLast).take (p.length + 1) = (p ++ [b]).reverse := by
  simp only [List.take_succ_cons, List.reverse_append, List.reverse_cons, List.reverse_nil,
    List.nil_append, List.singleton_append]
  congr 1
  rw [List.dropLast_eq_take, List.take_take, ← h]
  congr 1
  omega

theorem shift_data (lat p : List Bool) (b : Bool) (w : Nat) (hl : lat.length = w) (hlt : p.length < w) :
    b :: (p.reverse ++ lat.take (w - p.length)).dropLast =
      (p ++ [b]).reverse ++ lat.take (w - (p.length + 1)) := by
  have hne : lat.take (w - p.length) ≠ [] := by
    intro h
    have := congrArg List.length h
    simp only [List.length_take, hl, List.length_nil] at this
    omega
  rw [List.dropLast_append_of_ne_nil hne, List.dropLast_eq_take, List.take_take, List.length_take, hl]
  have : min (min (w - p.length) w - 1) (w - p.length) = w - (p.length + 1) := by omega
  rw [this]
  simp

theorem natToBits_take (w n : Nat) : (natToBits w n).take w = natToBits w n :=
  List.take_of_length_le (by rw [natToBits_length]; exact Nat.le_refl _)

/-! ## ghost history: the bits sampled in the current phase and the word latched for transmission -/

structure Ghost where
  bits    : List Bool
  latched : List Bool

def gstep (c : Config) (s : State) (g : Ghost) (i : In) : Ghost :=
  let edge := s.pastSck && !i.sck
  match s.fsm with
  | .idle => { g with bits := [] }
  | .recvCmd =>
    if s.bitCount < c.cmdSize then (if edge then { g with bits := g.bits ++ [i.sdi] } else g)
    else { g with bits := [] }
  | .latchOutput =>
    { bits := [], latched := natToBits c.wordSize (wordToSend c (address s) c.regs s.mem i.vals) }
  | .shiftData =>
    if s.bitCount < c.wordSize then (if edge then { g with bits := g.bits ++ [i.sdi] } else g) else g
  | _ => g

def after (c : Config) : State × Ghost → List In → State × Ghost
  | sg, [] => sg
  | (s, g), i :: is => after c (step c s i, gstep c s g i) is

def ginit (c : Config) : Ghost := ⟨[], zeros c.wordSize⟩

structure Rel (c : Config) (s : State) (g : Ghost) : Prop where
  cmdLen  : s.curCmd.length = c.cmdSize
  wordLen : s.curWord.length = c.wordSize
  latLen  : g.latched.length = c.wordSize
  cmd     : s.fsm = .recvCmd → s.bitCount = g.bits.length ∧ g.bits.length ≤ c.cmdSize ∧
              s.curCmd.take g.bits.length = g.bits.reverse
  wait    : (s.fsm = .processing ∨ s.fsm = .latchOutput) → s.bitCount = 0
  data    : s.fsm = .shiftData → s.bitCount = g.bits.length ∧ g.bits.length ≤ c.wordSize ∧
              s.curWord = g.bits.reverse ++ g.latched.take (c.wordSize - g.bits.length)

theorem rel_init (c : Config) : Rel c (init c) (ginit c) := by
  constructor <;> simp [init, ginit, zeros]

theorem step_rel (c : Config) (s : State) (g : Ghost) (i : In) (r : Rel c s g) :
    Rel c (step c s i) (gstep c s g i) := by
  obtain ⟨hcl, hwl, hll, hcmd, hwait, hdata⟩ := r
  unfold step gstep
  cases hf : s.fsm
  · -- stall
    by_cases hcs : i.cs <;> simp [hcs] <;> constructor <;> simp_all
  · -- idle
    by_cases hcs : i.cs <;> simp [hcs] <;> constructor <;> simp_all
  · -- recvCmd
    obtain ⟨h1, h2, h3⟩ := hcmd hf
    by_cases hlt : s.bitCount < c.cmdSize
    · by_cases hed : (s.pastSck && !i.sck) = true
      · have hshift := shift_take s.curCmd g.bits i.sdi (by omega) h3
        by_cases hcs : i.cs <;> simp [hcs, hlt, hed] <;> constructor <;> simp_all <;> omega
      · by_cases hcs : i.cs <;> simp [hcs, hlt, hed] <;> constructor <;> simp_all
    · by_cases hcs : i.cs <;> simp [hcs, hlt] <;> constructor <;> simp_all
  · -- processing
    simp
    constructor <;> simp_all
  · -- latchOutput
    have hb := hwait (Or.inr hf)
    simp
    constructor <;> simp_all [natToBits_length, natToBits_take]
  · -- shiftData
    obtain ⟨h1, h2, h3⟩ := hdata hf
    by_cases hlt : s.bitCount < c.wordSize
    · by_cases hed : (s.pastSck && !i.sck) = true
      · have hshift := shift_data g.latched g.bits i.sdi c.wordSize hll (by omega)
        by_cases hcs : i.cs <;> simp [hcs, hlt, hed] <;> constructor <;> simp_all <;> omega
      · by_cases hcs : i.cs <;> simp [hcs, hlt, hed] <;> constructor <;> simp_all
    · by_cases hcs : i.cs <;> simp [hcs, hlt] <;> constructor <;> simp_all <;> omega

/-- **Refinement** — after every pin history from reset the command interface's registers are the
sampled-bit lists of the ghost history. -/
theorem refines_protocol (c : Config) (h : List In) :
    Rel c (after c (init c, ginit c) h).1 (after c (init c, ginit c) h).2 := by
  suffices ∀ (sg : State × Ghost), Rel c sg.1 sg.2 → Rel c (after c sg h).1 (after c sg h).2 from
    this _ (rel_init c)
  induction h with
  | nil => intro sg r; exact r
  | cons i is ih => intro (s, g) r; exact ih _ (step_rel c s g i r)

/-- `word_complete` is raised exactly by the data phase once `register_size` bits have been
sampled, and then `word_received` is that list of bits (first bit = MSB). -/
theorem word_complete_exactly_after_full_word (c : Config) (s : State) (g : Ghost) (i : In) (r : Rel c s g) :
    ((step c s i).wordComplete = true ↔ (s.fsm = .shiftData ∧ ¬ s.bitCount < c.wordSize)) ∧
    ((step c s i).wordComplete = true →
      g.bits.length = c.wordSize ∧ (step c s i).wordReceived = g.bits.reverse ∧ (step c s i).fsm = .stall) := by
  unfold step
  cases hf : s.fsm <;> simp
  · split <;> simp
  · split <;> simp
  · split <;> split <;> (try split) <;> simp
  · obtain ⟨h1, h2, h3⟩ := r.data hf
    by_cases hlt : s.bitCount < c.wordSize
    · simp [hlt]
      split <;> split <;> simp <;> omega
    · simp [hlt]
      have : g.bits.length = c.wordSize := by omega
      simp [this, h3] <;> omega

/-- The same for the command: `command_ready` only after `address_size + 1` sampled bits, and the
command register then holds them (first bit = write flag = MSB). -/
theorem command_is_sampled_bits (c : Config) (s : State) (g : Ghost) (i : In) (r : Rel c s g) :
    (step c s i).commandReady = true →
      s.fsm = .recvCmd ∧ g.bits.length = c.cmdSize ∧ (step c s i).command = g.bits.reverse := by
  unfold step
  cases hf : s.fsm <;> simp
  · split <;> simp
  · split <;> simp
  · obtain ⟨h1, h2, h3⟩ := r.cmd hf
    by_cases hlt : s.bitCount < c.cmdSize
    · simp [hlt]; split <;> split <;> simp
    · simp [hlt]
      have : g.bits.length = c.cmdSize := by omega
      rw [this, ← r.cmdLen, List.take_length] at h3
      simp [this, h3, r.cmdLen]
  · split <;> split <;> (try split) <;> simp

/-! ## register decode -/

theorem step_mem (c : Config) (s : State) (i : In) :
    (step c s i).mem =
      memStep (s.wordComplete && isWrite s) (address s) (bitsToNat s.wordReceived) c.regs s.mem := by
  unfold step
  cases s.fsm <;> simp <;> (try split) <;> (try split) <;> (try split) <;> rfl

theorem memStep_length (st : Bool) (a w : Nat) (regs : List Reg) (mem : List Nat) :
    (memStep st a w regs mem).length = regs.length := by
  induction regs generalizing mem with
  | nil => rfl
  | cons r rs ih => simp [memStep, ih]

/-- Pointwise meaning of the backing-store update: entry `k` changes only if it is a memory
register, the strobe condition holds and the commanded address is its address; it then takes the
written value truncated to its size. -/
theorem memStep_get (st : Bool) (a w : Nat) (regs : List Reg) (mem : List Nat) (k : Nat) (r : Reg)
    (hk : regs[k]? = some r) :
    (memStep st a w regs mem)[k]? = some
      (match r.kind with
       | .mem size _ => if st && a = r.addr then w % 2 ^ size else mem.getD k 0
       | _ => mem.getD k 0) := by
  induction regs generalizing mem k with
  | nil => simp at hk
  | cons r0 rs ih =>
    cases k with
    | zero =>
      simp at hk; subst hk
      simp only [memStep, List.getElem?_cons_zero]
      cases r0.kind <;> cases mem <;> simp
    | succ k =>
      simp at hk
      simp only [memStep, List.getElem?_cons_succ]
      rw [ih mem.tail k hk]
      cases mem <;> simp

/-- **Write** — for every state and input, register `k` of the map after the clock edge:
unchanged unless it is a memory register whose write strobe is high in this cycle, in which case it
holds `word_received` truncated to its size.  The strobe (`writeStrobe`) is
`is_write ∧ word_complete ∧ address = r.addr`; with unique addresses at most one register sees it,
and `word_complete` lasts one cycle (`word_complete_exactly_after_full_word`: the FSM is in STALL
after it), so it fires once per completed write. -/
theorem write_updates_exactly_addressed_once (c : Config) (s : State) (i : In) (k : Nat) (r : Reg)
    (hk : c.regs[k]? = some r) :
    (step c s i).mem[k]? = some
      (match r.kind with
       | .mem size _ => if writeStrobe s r then bitsToNat s.wordReceived % 2 ^ size else s.mem.getD k 0
       | _ => s.mem.getD k 0) := by
  rw [step_mem, memStep_get _ _ _ _ _ k r hk]
  cases hkind : r.kind <;> simp [writeStrobe, hkind]
  congr 1
  simp
  intro _
  exact And.comm

theorem strobes_only_for_addressed (s : State) (r : Reg) :
    (writeStrobe s r = true → s.wordComplete = true ∧ isWrite s = true ∧ address s = r.addr) ∧
    (readStrobe s r = true → s.wordComplete = true ∧ isWrite s = false ∧ address s = r.addr) := by
  unfold writeStrobe readStrobe
  cases r.kind <;> simp <;> intros <;> simp_all

theorem memStep_no_strobe (a w : Nat) (regs : List Reg) (mem : List Nat) (hl : mem.length = regs.length) :
    memStep false a w regs mem = mem := by
  induction regs generalizing mem with
  | nil => cases mem <;> simp_all [memStep]
  | cons r rs ih =>
    cases mem with
    | nil => simp at hl
    | cons m ms =>
      simp only [memStep, List.headD_cons, List.tail_cons]
      rw [ih ms (by simpa using hl)]
      cases r.kind <;> simp

/-- An abort (chip select dropped while the command or the word is incomplete) returns to IDLE and
raises neither `command_ready` nor `word_complete`. -/
theorem abort_returns_to_idle (c : Config) (s : State) (i : In) (hcs : i.cs = false) :
    (s.fsm = .shiftData → s.bitCount < c.wordSize →
      (step c s i).fsm = .idle ∧ (step c s i).wordComplete = false) ∧
    (s.fsm = .recvCmd → s.bitCount < c.cmdSize →
      (step c s i).fsm = .idle ∧ (step c s i).commandReady = false ∧ (step c s i).wordComplete = false) := by
  constructor <;> intro hf hlt <;> unfold step <;> simp [hf, hlt, hcs] <;> split <;> simp

def memAfter (c : Config) : State → List In → State
  | s, [] => s
  | s, i :: is => memAfter c (step c s i) is

/-- No state along the run (including the first, excluding the last) has `word_complete`. -/
def noComplete (c : Config) : State → List In → Bool
  | _, [] => true
  | s, i :: is => !s.wordComplete && noComplete c (step c s i) is

/-- **Abort changes nothing** — over any stretch of cycles in which `word_complete` is never high
(by `word_complete_exactly_after_full_word` that is any stretch in which no data phase collects all
`register_size` bits; by `abort_returns_to_idle` an abort ends the attempt), the register file is
unchanged, whatever happens on the pins. -/
theorem abort_changes_nothing (c : Config) (h : List In) :
    ∀ s : State, s.mem.length = c.regs.length → noComplete c s h = true → (memAfter c s h).mem = s.mem := by
  induction h with
  | nil => intro s _ _; rfl
  | cons i is ih =>
    intro s hl hn
    simp only [noComplete, Bool.and_eq_true, Bool.not_eq_true'] at hn
    obtain ⟨hwc, hrest⟩ := hn
    have hm : (step c s i).mem = s.mem := by
      rw [step_mem, hwc]; exact memStep_no_strobe _ _ _ _ hl
    simp only [memAfter]
    rw [ih (step c s i) (by rw [hm]; exact hl) hrest, hm]

theorem no_strobe_without_complete (s : State) (r : Reg) (h : s.wordComplete = false) :
    writeStrobe s r = false ∧ readStrobe s r = false := by
  unfold writeStrobe readStrobe
  cases r.kind <;> simp [h]

/-! ## read path -/

theorem wordToSend_unassigned (c : Config) (addr : Nat) (regs : List Reg) (mem vals : List Nat)
    (h : ∀ r ∈ regs, r.addr ≠ addr) : wordToSend c addr regs mem vals = c.default := by
  induction regs generalizing mem vals with
  | nil => rfl
  | cons r rs ih =>
    have hr : addr ≠ r.addr := fun e => h r (by simp) e.symm
    simp only [wordToSend, hr, if_false]
    exact ih _ _ (fun r' hr' => h r' (by simp [hr']))

theorem wordToSend_assigned (c : Config) (addr : Nat) (regs : List Reg) (mem vals : List Nat) (k : Nat) (r : Reg)
    (hk : regs[k]? = some r) (ha : r.addr = addr) (hfirst : ∀ j r', j < k → regs[j]? = some r' → r'.addr ≠ addr) :
    wordToSend c addr regs mem vals =
      (readOf r (mem.getD k 0) (vals.getD k 0)).getD c.default % 2 ^ c.wordSize := by
  induction regs generalizing mem vals k with
  | nil => simp at hk
  | cons r0 rs ih =>
    cases k with
    | zero =>
      simp at hk; subst hk
      simp only [wordToSend, ha, if_true]
      cases mem <;> cases vals <;> simp
    | succ k =>
      simp at hk
      have h0 : addr ≠ r0.addr := fun e => hfirst 0 r0 (by omega) (by simp) e.symm
      simp only [wordToSend, h0, if_false]
      rw [ih mem.tail vals.tail k hk (fun j r' hj hr' => hfirst (j + 1) r' (by omega) (by simpa using hr'))]
      cases mem <;> cases vals <;> simp

/-- **Read** — in the LATCH_OUTPUT cycle the word latched for transmission is: the default value if
no register has the commanded address; otherwise the current read value of that register (the
constant, the input signal's value in this cycle, the backing store), or the default if it has no
read value. -/
theorem read_returns_addressed_or_default (c : Config) (s : State) (g : Ghost) (i : In)
    (hf : s.fsm = .latchOutput) :
    (gstep c s g i).latched = (step c s i).curWord ∧
    ((∀ r ∈ c.regs, r.addr ≠ address s) → (step c s i).curWord = natToBits c.wordSize c.default) ∧
    (∀ k r, c.regs[k]? = some r → r.addr = address s →
        (∀ j r', j < k → c.regs[j]? = some r' → r'.addr ≠ address s) →
        (step c s i).curWord = natToBits c.wordSize
          ((readOf r (s.mem.getD k 0) (i.vals.getD k 0)).getD c.default % 2 ^ c.wordSize)) := by
  refine ⟨by simp [gstep, step, hf], ?_, ?_⟩
  · intro h
    simp [step, hf, wordToSend_unassigned c _ _ _ _ h]
  · intro k r hk ha hfirst
    simp [step, hf, wordToSend_assigned c _ _ _ _ k r hk ha hfirst]

/-- During the data phase, after `k < register_size` sampled bits, `sdo` is loaded with bit
`register_size-1-k` of the latched word: the word is returned MSB first. -/
theorem sdo_is_next_unsent_bit (c : Config) (s : State) (g : Ghost) (i : In) (r : Rel c s g)
    (hf : s.fsm = .shiftData) (hlt : g.bits.length < c.wordSize) :
    some (step c s i).sdo = g.latched[c.wordSize - 1 - g.bits.length]? := by
  obtain ⟨h1, h2, h3⟩ := r.data hf
  have hsdo : (step c s i).sdo = s.curWord.getLast?.getD false := by
    unfold step
    simp [hf]
    split <;> (try split) <;> (try split) <;> rfl
  rw [hsdo, h3]
  have hne : g.latched.take (c.wordSize - g.bits.length) ≠ [] := by
    intro h
    have := congrArg List.length h
    simp [r.latLen] at this
    omega
  have hidx : (g.latched.take (c.wordSize - g.bits.length)).getLast? =
      g.latched[c.wordSize - 1 - g.bits.length]? := by
    rw [List.getLast?_eq_getElem?, List.length_take, r.latLen, List.getElem?_take]
    have : min (c.wordSize - g.bits.length) c.wordSize - 1 = c.wordSize - 1 - g.bits.length := by omega
    rw [this]
    have hlt3 : c.wordSize - 1 - g.bits.length < c.wordSize - g.bits.length := by omega
    simp [hlt3]
  have hlt2 : c.wordSize - 1 - g.bits.length < g.latched.length := by rw [r.latLen]; omega
  rw [List.getLast?_append, hidx, List.getElem?_eq_getElem hlt2]
  simp

/-! ## non-vacuity: a complete write and an aborted write on a 3-bit-address / 4-bit-register map -/

def exCfg : Config := ⟨3, 4, 9, [⟨0, .const 15⟩, ⟨5, .mem 4 3⟩, ⟨6, .sfr⟩]⟩
def bitIn (b : Bool) : List In := [⟨true, b, true, [0, 0, 0]⟩, ⟨false, b, true, [0, 0, 0]⟩]
def idleIn (cs : Bool) : In := ⟨false, false, cs, [0, 0, 0]⟩
/-- write 0b1010 to address 5: command 1 101, data 1010 -/
def exWrite : List In :=
  [idleIn false, idleIn true] ++ bitIn true ++ bitIn true ++ bitIn false ++ bitIn true ++
  [idleIn true, idleIn true, idleIn true] ++
  bitIn true ++ bitIn false ++ bitIn true ++ bitIn false ++ [idleIn true, idleIn true, idleIn false]

example : (memAfter exCfg (init exCfg) exWrite).mem = [0, 10, 0] := by decide +kernel
example : (memAfter exCfg (init exCfg) (exWrite.take 19 ++ [idleIn false, idleIn false, idleIn false])).mem
    = [0, 3, 0] := by decide +kernel
example : noComplete exCfg (init exCfg) (exWrite.take 19 ++ [idleIn false, idleIn false, idleIn false]) = true := by
  decide +kernel

end LunaVerif.SpiRegister
