import LunaVerif.Lemmas.C25RxCdcPacket
/-!
# C25 (receive direction, end to end) — bytes, framing and error as the 12 MHz side sees them

"… any correctly encoded full-speed packet on D+/D- is delivered as exactly its bytes with receive-active framing …"

The model is `FsRxCdc.step phase` (Model/Phy/FsRxCdc.lean): the whole 48 MHz receive chain `FsRx` **and** the two
Amaranth `AsyncFIFOBuffered` (binary/Gray pointers, 2-FF synchronizers, memory with synchronous read port, output
register, reset synchronizer) that carry bytes and packet flags into the 12 MHz `usb` domain, and `o_pkt_in_progress` --
the function the co-simulation compares with the `usb`-domain outputs of the real `RxPipeline`, usb_io cycle by usb_io
cycle, for all four phases of the `usb` clock.  `GatewarePHY` exports `rx_valid = o_data_strobe & o_pkt_in_progress`,
`rx_active = o_pkt_in_progress`, `rx_data = o_data_payload`, `rx_error = o_receive_error`.

`rx_delivers_to_usb`: for every phase `φ` of the `usb` clock and position `c0` of the stimulus against it, every non-empty
list of bytes < 256, the waveform `encode bytes` at nominal rate (four samples per bit) starting after any number `k` of
idle samples, from any idle state (`idleCdc`: receive chain idle with arbitrary bit-stuff counter and stale error latch,
both FIFOs empty and settled with arbitrary pointers and memory contents, `o_pkt_in_progress` low): what the 12 MHz side
sees at its clock edges (`evsU`) is exactly: `o_pkt_start`; then each byte once, in order, on `o_data_payload` with
`o_data_strobe` **while `o_pkt_in_progress` is high**; then `o_pkt_end`; and `o_receive_error` is never high at a `usb`
edge while `o_pkt_in_progress` is high (there is no `.err` event).  `4 (m + 6) + 3` idle cycles after the packet the
whole path is in an idle state again (so the theorem composes over any number of packets).

Proof: `cdc_split` (feed-forward), `fifo_stream` (each FIFO delays a write stream whose writes are at least six bit
times apart by 3 or 4 bit times, depending on where the `usb` edge falls in the bit time; from `fifo_block_write`, a finite
check with tagged data lifted by data-relabelling), `packet_streams` (the write streams of a good packet are so spaced),
`combine` (the payload FIFO is never faster than the flags FIFO and at most one bit time slower, which keeps
start < bytes ≤ end), `evN_bits` / `evS_bits` (pairing of the write streams gives the write-side events of
`rx_pipeline_decodes_encode`).
-/
set_option linter.unusedSimpArgs false
namespace LunaVerif.FsRxCdc
open LunaVerif.FsRx LunaVerif.FsCodec

/-! ### small facts -/

def ipFinalO : Bool → List (Option Nat) → Bool
  | ip, [] => ip
  | ip, f :: fs => ipFinalO (ipNextO ip f) fs

theorem ipFinal_eq_O (fs : List (Bool × Nat)) : ∀ ip, ipFinal ip fs = ipFinalO ip (fs.map rdyData) := by
  induction fs with
  | nil => intro ip; rfl
  | cons f fs ih =>
    intro ip
    obtain ⟨f1, f2⟩ := f
    simp only [ipFinal, List.map, ipFinalO, ih]
    congr 1
    cases f1 <;> simp [ipNext, ipNextO, fStart, fEnd, rdyData, oStart, oEnd]

theorem ipFinalO_nones_left (n : Nat) (ip : Bool) (r : List (Option Nat)) :
    ipFinalO ip (List.replicate n none ++ r) = ipFinalO ip r := by
  induction n with
  | zero => rfl
  | succ n ih => rw [List.replicate_succ]; simp only [List.cons_append, ipFinalO, ipNextO, oStart, oEnd]; simpa using ih

theorem ipFinalO_nones_right (r : List (Option Nat)) (n : Nat) : ∀ ip, ipFinalO ip (r ++ List.replicate n none) = ipFinalO ip r := by
  induction r with
  | nil =>
    intro ip
    have := ipFinalO_nones_left n ip []
    simpa using this
  | cons x xs ih => intro ip; simp only [List.cons_append, ipFinalO, ih]

theorem take_pad (D : Nat) (hD : D ≤ 5) (X : List (Option Nat)) :
    (List.replicate D none ++ (X ++ List.replicate 5 none)).take (X.length + 5) =
      List.replicate D none ++ X ++ List.replicate (5 - D) none := by
  have h5 : List.replicate 5 (none : Option Nat) = List.replicate (5 - D) none ++ List.replicate D none := by
    rw [List.replicate_append_replicate]; congr 1; omega
  have : List.replicate D none ++ (X ++ List.replicate 5 (none : Option Nat)) =
      (List.replicate D none ++ X ++ List.replicate (5 - D) none) ++ List.replicate D none := by
    rw [h5]; simp only [List.append_assoc]
  rw [this, List.take_left']
  simp; omega

theorem bitBlocks_append (x y : List (Bool × Bool)) : bitBlocks (x ++ y) = bitBlocks x ++ bitBlocks y := by
  induction x with
  | nil => rfl
  | cons b bs ih => simp only [List.cons_append, bitBlocks, ih, List.append_assoc]

theorem delay_pair (c φ : Nat) (hc : c < 4) (hφ : φ < 4) :
    (delay (2 * 0) c φ = 4 ∧ delay (2 * 1) c φ = 4) ∨ (delay (2 * 0) c φ = 3 ∧ delay (2 * 1) c φ = 4) ∨
    (delay (2 * 0) c φ = 3 ∧ delay (2 * 1) c φ = 3) := by
  unfold delay
  have : c = 0 ∨ c = 1 ∨ c = 2 ∨ c = 3 := by omega
  have hp : φ = 0 ∨ φ = 1 ∨ φ = 2 ∨ φ = 3 := by omega
  rcases this with h | h | h | h <;> subst h <;> rcases hp with h' | h' | h' | h' <;> subst h' <;> simp

theorem quiet_map_pay (e : Bool) (pre : List FsRx.Out) (h : Quiet e pre) :
    pre.map payW = List.replicate pre.length none ∧ pre.map flgW = List.replicate pre.length none ∧
    ∀ o ∈ pre, o.rxErr = e := by
  induction pre with
  | nil => exact ⟨rfl, rfl, by simp⟩
  | cons o os ih =>
    obtain ⟨i1, i2, i3⟩ := ih (fun x hx => h x (by simp [hx]))
    obtain ⟨a, b, c⟩ := h o (by simp)
    refine ⟨?_, ?_, ?_⟩
    · simp only [List.map, a, i1, List.length_cons, List.replicate_succ]
    · simp only [List.map, b, i2, List.length_cons, List.replicate_succ]
    · intro x hx
      rcases List.mem_cons.mp hx with rfl | hx
      · exact c
      · exact i3 x hx

/-- the shape of a packet's waveform and the bits the back end is stepped through (as in `run_packet`) -/
theorem packet_shape (bits : List Bool) (m : Nat) :
    packetWave bits m = .K :: .J ::
      (((nrzi true ([false, false, false, false, false, true] ++ bits)).map lvl ++ [.SE0, .SE0, .J] ++
        List.replicate m .J) ++ [.J, .J]) ∧
    (symBits .J (packetWave bits m)).dropLast = packetBits bits m := by
  constructor
  · have : List.replicate (m + 2) Sym.J = List.replicate m Sym.J ++ [.J, .J] := by
      rw [← List.replicate_append_replicate]; rfl
    simp only [packetWave, this, syncBits, List.cons_append, nrzi, List.map, lvl, List.append_assoc]
    simp
  · have h := symBits_packet (syncBits ++ bits) (m + 2)
    simp only [packetWave]
    rw [h, List.replicate_succ' (n := m + 1), ← List.append_assoc, List.dropLast_concat]
    simp only [packetBits, fbits, List.map_append, List.append_assoc]

theorem ipFinalO_bits (bits : List (Bool × Bool)) : ∀ a : BB,
    ipFinalO (a.det == 6) (bitFlgs a bits) = ((bitRun a bits).det == 6) := by
  induction bits with
  | nil => intro a; rfl
  | cons b bs ih => intro a; simp only [bitFlgs, ipFinalO, det_inv, ih, bitRun]

theorem rest_final_det (bytes : List Nat) (x : Bool) (m : Nat) :
    (bitRun ⟨6, 1, srInit, false⟩ (restBits bytes x m)).det ≤ 1 := by
  obtain ⟨⟨n', hn', d1⟩, _, _⟩ := unstuff_run (bitsOf bytes) 1 srInit (by omega)
  obtain ⟨⟨c1, hc1, e1⟩, _, _⟩ := eop_run n' (shRun srInit (bitsOf bytes)) x false (by omega)
  obtain ⟨⟨det2, c2, hd2, hc2, i1⟩, _, _⟩ := idle_gen m 1 c1 false (by omega) hc1
  simp only [restBits, bitRun_append, d1, e1, i1]
  exact hd2

/-- the receive path with its clock-domain crossing, idle: receive chain idle, both FIFOs empty and settled (pointers and
memory contents arbitrary), `o_pkt_in_progress` low, `cyc` = position of the `usb` clock -/
def idleCdc (c : Nat) (e : Bool) (pp : Nat) (memp : List Nat) (pf : Nat) (memf : List Nat) (cyc : Nat) : St :=
  ⟨idleSt c e, settled pp memp, settled pf memf, false, cyc⟩

/-- **end to end**: a correctly encoded packet is delivered to the 12 MHz side as exactly its bytes, inside the
start / end framing, without error (see the module comment). -/
theorem rx_delivers_to_usb (φ c0 : Nat) (hφ : φ < 4) (hc0 : c0 < 4)
    (bytes : List Nat) (hne : bytes ≠ []) (hb : ∀ b ∈ bytes, b < 256)
    (c : Nat) (e : Bool) (hc : c ≤ 6) (pp pf : Nat) (hpp : pp < 8) (hpf : pf < 8) (memp memf : List Nat)
    (hmp : memp.length = 4) (hmf : memf.length = 4) (k m : Nat) :
    evsU (runCdc φ (idleCdc c e pp memp pf memf c0) (rxInput k (encode bytes) (m + 4))).2 =
      [.start] ++ bytes.map EvU.byte ++ [.fin] ∧
    ∃ c' pp' memp' pf' memf' cyc', c' ≤ 6 ∧ pp' < 8 ∧ pf' < 8 ∧ memp'.length = 4 ∧ memf'.length = 4 ∧ cyc' < 4 ∧
      (runCdc φ (idleCdc c e pp memp pf memf c0) (rxInput k (encode bytes) (m + 4))).1 =
        idleCdc c' false pp' memp' pf' memf' cyc' := by
  -- the receive chain
  obtain ⟨_, _, c', hc', hfin⟩ := rx_pipeline_decodes_encode bytes hb c e hc k (m + 4)
  have hin : rxInput k (encode bytes) (m + 4) = jn k ++ wave (packetWave (stuff 1 (bitsOf bytes)) (m + 4)) ++ jn 3 := by
    simp only [rxInput, encode, packetWave, List.append_assoc]
  obtain ⟨hshape, hbits⟩ := packet_shape (stuff 1 (bitsOf bytes)) (m + 4)
  obtain ⟨a0c, pre, ha0, hprel, hquiet, houts⟩ := run_wave_outs c e hc k
    ((nrzi true ([false, false, false, false, false, true] ++ stuff 1 (bitsOf bytes))).map lvl ++ [.SE0, .SE0, .J] ++
      List.replicate (m + 4) .J)
  rw [← hshape, hbits] at houts
  rw [← hin] at houts
  obtain ⟨qp, qf, qe⟩ := quiet_map_pay e pre hquiet
  -- the bits
  let x := !lastLvl true (nrzi true (syncBits ++ stuff 1 (bitsOf bytes)))
  have hpb : packetBits (stuff 1 (bitsOf bytes)) (m + 4) =
      fbits syncBits ++ (restBits bytes x m ++ List.replicate 5 (true, false)) := by
    have : List.replicate (m + 4 + 1) (true, false) = List.replicate m (true, false) ++ List.replicate 5 (true, false) := by
      rw [List.replicate_append_replicate]
    simp only [packetBits, restBits, this, List.append_assoc, x]
  obtain ⟨s1, _, _, _⟩ := sync_run a0c ha0 e
  obtain ⟨y1, y2⟩ := sync_streams a0c ha0 e
  obtain ⟨t1, t2, tl, tev1, tev2, tse, tgp, tgf⟩ := packet_streams bytes hne hb x m
  -- write streams
  obtain ⟨os1, os2⟩ := outs_streams (packetBits (stuff 1 (bitsOf bytes)) (m + 4)) ⟨0, a0c, srInit, e⟩ true
  have hWp : bitPays ⟨0, a0c, srInit, e⟩ (packetBits (stuff 1 (bitsOf bytes)) (m + 4)) =
      (List.replicate 8 none ++ bitPays ⟨6, 1, srInit, false⟩ (restBits bytes x m)) ++ List.replicate 5 none := by
    rw [hpb, bitPays_append, s1, y1, t1, List.append_assoc]
  have hWf : bitFlgs ⟨0, a0c, srInit, e⟩ (packetBits (stuff 1 (bitsOf bytes)) (m + 4)) =
      (List.replicate 7 none ++ [some 2] ++ bitFlgs ⟨6, 1, srInit, false⟩ (restBits bytes x m)) ++ List.replicate 5 none := by
    rw [hpb, bitFlgs_append, s1, y2, t2]; simp only [List.append_assoc]
  have hpayS : (FsRx.run (idleSt c e) (rxInput k (encode bytes) (m + 4))).2.map payW =
      List.replicate (k + 7) none ++ flat (2 * 1)
        ((List.replicate 8 none ++ bitPays ⟨6, 1, srInit, false⟩ (restBits bytes x m)) ++ List.replicate 5 none) := by
    rw [houts, List.map_append, qp, hprel, os1, hWp]
  have hflgS : (FsRx.run (idleSt c e) (rxInput k (encode bytes) (m + 4))).2.map flgW =
      List.replicate (k + 7) none ++ flat (2 * 0)
        ((List.replicate 7 none ++ [some 2] ++ bitFlgs ⟨6, 1, srInit, false⟩ (restBits bytes x m)) ++ List.replicate 5 none) := by
    rw [houts, List.map_append, qf, hprel, os2, hWf]
  -- spacing
  have hspP : SpacedB ((List.replicate 8 none ++ bitPays ⟨6, 1, srInit, false⟩ (restBits bytes x m)) ++
      List.replicate 5 none) = true := by
    apply spacedB_of_G _ _ 5 (Nat.le_refl _) (Nat.le_refl _)
    rw [spacedG_nones]
    exact spacedG_mono _ _ _ (by omega) tgp
  have hspF : SpacedB ((List.replicate 7 none ++ [some 2] ++ bitFlgs ⟨6, 1, srInit, false⟩ (restBits bytes x m)) ++
      List.replicate 5 none) = true := by
    apply spacedB_of_G _ _ 5 (Nat.le_refl _) (Nat.le_refl _)
    rw [List.append_assoc, spacedG_nones]
    simp only [List.cons_append, List.nil_append, SpacedG, Bool.and_eq_true, decide_eq_true_eq]
    exact ⟨by omega, tgf⟩
  -- the two FIFOs
  have hc1 : (c0 + (k + 7)) % 4 < 4 := Nat.mod_lt _ (by omega)
  obtain ⟨ip1, ip2⟩ := fifo_idle_run φ hφ pp hpp memp hmp (k + 7) c0 hc0
  obtain ⟨if1, if2⟩ := fifo_idle_run φ hφ pf hpf memf hmf (k + 7) c0 hc0
  obtain ⟨⟨pp', memp', hpp', hmp', fp1⟩, fp2⟩ := fifo_stream φ ((c0 + (k + 7)) % 4) 1 hc1 hφ (by omega) _ hspP pp memp hpp hmp
  obtain ⟨⟨pf', memf', hpf', hmf', ff1⟩, ff2⟩ := fifo_stream φ ((c0 + (k + 7)) % 4) 0 hc1 hφ (by omega) _ hspF pf memf hpf hmf
  have hlenr : (List.replicate (k + 7) (none : Option Nat)).length = k + 7 := by simp
  have hPay := runFifo_append φ (List.replicate (k + 7) none) (flat (2 * 1)
      ((List.replicate 8 none ++ bitPays ⟨6, 1, srInit, false⟩ (restBits bytes x m)) ++ List.replicate 5 none)) c0
      (settled pp memp) hc0
  rw [hlenr, ip1] at hPay
  have hFlg := runFifo_append φ (List.replicate (k + 7) none) (flat (2 * 0)
      ((List.replicate 7 none ++ [some 2] ++ bitFlgs ⟨6, 1, srInit, false⟩ (restBits bytes x m)) ++ List.replicate 5 none)) c0
      (settled pf memf) hc0
  rw [hlenr, if1] at hFlg
  -- the error samples
  obtain ⟨bb1, _, _⟩ := back_blocks (fbits syncBits) ⟨0, a0c, srInit, e⟩ true
  obtain ⟨_, _, bb3⟩ := back_blocks (restBits bytes x m ++ List.replicate 5 (true, false)) ⟨6, 1, srInit, false⟩
    (lastD true (fbits syncBits))
  have hOb : outsB (conc ⟨0, a0c, srInit, e⟩ true) (bitBlocks (packetBits (stuff 1 (bitsOf bytes)) (m + 4))) =
      outsB (conc ⟨0, a0c, srInit, e⟩ true) (bitBlocks (fbits syncBits)) ++
      outsB (conc ⟨6, 1, srInit, false⟩ (lastD true (fbits syncBits)))
        (bitBlocks (restBits bytes x m ++ List.replicate 5 (true, false))) := by
    rw [hpb, bitBlocks_append, outsB_append, bb1, s1]
  have hX2 : ∀ o ∈ outsB (conc ⟨6, 1, srInit, false⟩ (lastD true (fbits syncBits)))
      (bitBlocks (restBits bytes x m ++ List.replicate 5 (true, false))), o.rxErr = false := by
    intro o ho
    have : seOf o ∈ bitSEs ⟨6, 1, srInit, false⟩ (restBits bytes x m ++ List.replicate 5 (true, false)) := by
      rw [← bb3]; exact List.mem_map.mpr ⟨o, ho, rfl⟩
    have := tse _ this
    simp only [seOf, Prod.mk.injEq] at this
    exact this.2
  have hErr : errSamples φ c0 (FsRx.run (idleSt c e) (rxInput k (encode bytes) (m + 4))).2 =
      errSamples φ c0 pre ++ (errSamples φ ((c0 + (k + 7)) % 4)
          (outsB (conc ⟨0, a0c, srInit, e⟩ true) (bitBlocks (fbits syncBits))) ++
        errSamples φ ((c0 + (k + 7)) % 4) (outsB (conc ⟨6, 1, srInit, false⟩ (lastD true (fbits syncBits)))
          (bitBlocks (restBits bytes x m ++ List.replicate 5 (true, false))))) := by
    have hl1 : (outsB (conc ⟨0, a0c, srInit, e⟩ true) (bitBlocks (fbits syncBits))).length = 32 := by
      rw [outsB_length, bitBlocks_length]; rfl
    have hcc : ((c0 + (k + 7)) % 4 + 32) % 4 = (c0 + (k + 7)) % 4 := by omega
    rw [houts, errSamples_append φ _ _ c0 hc0, hprel, hOb, errSamples_append φ _ _ _ hc1, hl1, hcc]
  have hE0 : (errSamples φ c0 pre).length = edges φ c0 (k + 7) := by rw [errSamples_length, hprel]
  have hE1 : (errSamples φ ((c0 + (k + 7)) % 4)
      (outsB (conc ⟨0, a0c, srInit, e⟩ true) (bitBlocks (fbits syncBits)))).length = 8 := by
    rw [errSamples_length, outsB_length, bitBlocks_length]
    exact edges_blocks φ hφ 8 _ hc1
  have hE2l : (errSamples φ ((c0 + (k + 7)) % 4) (outsB (conc ⟨6, 1, srInit, false⟩ (lastD true (fbits syncBits)))
      (bitBlocks (restBits bytes x m ++ List.replicate 5 (true, false))))).length =
        (bitPays ⟨6, 1, srInit, false⟩ (restBits bytes x m)).length + 5 := by
    rw [errSamples_length, outsB_length, bitBlocks_length, edges_blocks φ hφ _ _ hc1, bitPays_length]
    simp
  -- feed-forward decomposition and combination
  obtain ⟨sp1, sp2⟩ := cdc_split φ (rxInput k (encode bytes) (m + 4)) (idleCdc c e pp memp pf memf c0) hc0
  simp only [idleCdc] at sp1 sp2
  constructor
  · simp only [idleCdc]
    rw [sp2, hpayS, hflgS, hPay, hFlg, hErr, usbEv_eq_O]
    simp only [List.map_append, ip2, if2, fp2, ff2, List.length_append, List.length_replicate, List.length_cons,
      List.length_nil, tl]
    have := combine _ _ tl _ tev1 tev2 (delay (2 * 0) ((c0 + (k + 7)) % 4) φ) (delay (2 * 1) ((c0 + (k + 7)) % 4) φ)
      (delay_pair _ φ hc1 hφ) (edges φ c0 (k + 7)) _ _ _ hE0 hE1
      (errSamples_false φ _ hX2 _) hE2l
    simp only [tl] at this
    exact this
  · refine ⟨c', pp', memp', pf', memf', (c0 + (rxInput k (encode bytes) (m + 4)).length) % 4, hc', hpp', hpf', hmp', hmf',
      Nat.mod_lt _ (by omega), ?_⟩
    have hip : ipFinal false ((runFifo φ c0 (settled pf memf) (List.replicate (k + 7) none)).2 ++
        (runFifo φ ((c0 + (k + 7)) % 4) (settled pf memf) (flat (2 * 0)
          ((List.replicate 7 none ++ [some 2] ++ bitFlgs ⟨6, 1, srInit, false⟩ (restBits bytes x m)) ++
            List.replicate 5 none))).2) = false := by
      rw [ipFinal_eq_O]
      simp only [List.map_append, if2, ff2, ipFinalO_nones_left]
      have hD : delay (2 * 0) ((c0 + (k + 7)) % 4) φ ≤ 5 := by
        rcases delay_cases (2 * 0) ((c0 + (k + 7)) % 4) φ with h | h <;> omega
      have := take_pad _ hD (List.replicate 7 none ++ [some 2] ++ bitFlgs ⟨6, 1, srInit, false⟩ (restBits bytes x m))
      have hl : ((List.replicate 7 none ++ [some 2] ++ bitFlgs ⟨6, 1, srInit, false⟩ (restBits bytes x m)) ++
          List.replicate 5 (none : Option Nat)).length =
          (List.replicate 7 none ++ [some 2] ++ bitFlgs ⟨6, 1, srInit, false⟩ (restBits bytes x m)).length + 5 := by
        rw [List.length_append, List.length_replicate]
      rw [hl, this, ipFinalO_nones_right, ipFinalO_nones_left, List.append_assoc, ipFinalO_nones_left]
      have h2 : ipNextO false (some 2) = true := by decide
      simp only [List.cons_append, List.nil_append, ipFinalO, h2]
      have := ipFinalO_bits (restBits bytes x m) ⟨6, 1, srInit, false⟩
      have hd := rest_final_det bytes x m
      simp only [beq_self_eq_true] at this
      rw [this]
      simp; omega
    simp only [idleCdc]
    rw [sp1, hfin, hpayS, hflgS, hPay, hFlg, fp1, ff1, hip]

/-! ### non-vacuity: runs of the model itself -/

/-- from reset (15 idle cycles), every `usb` clock phase: the packet [0xA5, 0x3C] -/
example : ∀ φ : Fin 4, evsU (runCdc φ.val {} (jn 15 ++ rxInput 1 (encode [0xA5, 0x3C]) 4)).2 =
    [.start, .byte 0xA5, .byte 0x3C, .fin] := by decide +kernel

/-- 15 idle cycles after reset the path is in an idle state, for every `usb` clock phase -/
example : ∀ φ : Fin 4, (runCdc φ.val {} (jn 15)).1 = idleCdc 1 false 0 [0, 0, 0, 0] 0 [0, 0, 0, 0] 3 := by
  decide +kernel

/-- a stuffing violation is seen as an error while the packet is in progress (phase 2) -/
example : EvU.err ∈ evsU (runCdc 2 {} (jn 15 ++ rxInput 1
    ((nrzi true (syncBits ++ ([false] ++ List.replicate 7 true ++ [false, false, false, false, false, false, false,
      false]))).map lvl ++ [.SE0, .SE0, .J]) 4)).2 := by decide +kernel

end LunaVerif.FsRxCdc
