import LunaVerif.Lemmas.C31PhyRxStream

/-!
# C31 in the physical layer: the receive wiring of `USB3PhysicalLayer`

"... descrambling inverts it ... The keystream advances only when a word is actually transferred ... so
descrambling a scrambled stream from the same starting state returns the original stream."

`Props/C31Phy.lean` proves the transmit half (Scrambler -> CTCSkipInserter, hold = sending_skip).  Here the
receive half: PHY pins -> CTCSkipRemover -> RxWordAligner -> Descrambler -> RxPacketAligner -> `source`, the
composed model `Model/Usb3/PhyRx.lean` (co-simulated against the real `USB3PhysicalLayer` on every run, driver
model 4, case kind `phyrxm`).  The stage lemmas are in `Lemmas/C31PhyRxStream.lean`; here the end-to-end
statements against the reference LFSR (`refPass`: serial LFSR x^16+x^5+x^4+x^3+1 of `Props/C31.lean`, one key
byte per symbol, data symbols XORed, control symbols untouched, restart after COM in symbol 0).
-/
namespace LunaVerif.PhyRx
open LunaVerif.Crc LunaVerif.Scrambler LunaVerif.Ss
open LunaVerif.PhyTx (toSs headIsCom refKeys SKP4s IDLE4s farEnd txWords linkView)

/-! ## "No re-alignment" on the valid words alone -/

/-- starting with history word `prev`, no word of the stream completes the aligner's pattern at an offset other
than `e` (C34's `NoRealign`, stated on the valid words) -/
def QuietW (kd : RxAligner.Kind) (e : Nat) : Word → List Word → Prop
  | _, [] => True
  | prev, w :: ws =>
    (RxAligner.detect kd (prev ++ w) = none ∨ RxAligner.detect kd (prev ++ w) = some e) ∧ QuietW kd e w ws

def QuietW.dec (kd : RxAligner.Kind) (e : Nat) : (prev : Word) → (ws : List Word) → Decidable (QuietW kd e prev ws)
  | _, [] => isTrue trivial
  | prev, w :: ws =>
    have := QuietW.dec kd e w ws
    by unfold QuietW; exact inferInstance

instance (kd : RxAligner.Kind) (e : Nat) (prev : Word) (ws : List Word) : Decidable (QuietW kd e prev ws) :=
  QuietW.dec kd e prev ws

theorem noRealign_iff (kd : RxAligner.Kind) (e : Nat) (prev : Word) (I : List RxAligner.In) :
    RxAligner.NoRealign kd e prev I ↔ QuietW kd e prev (inWords I) := by
  induction I generalizing prev with
  | nil => simp [RxAligner.NoRealign, inWords, QuietW]
  | cons i is ih =>
    cases hv : i.valid <;> simp [RxAligner.NoRealign, inWords, QuietW, hv, ih]

theorem quietW_append_left (kd : RxAligner.Kind) (e : Nat) (prev : Word) (u v : List Word)
    (h : QuietW kd e prev (u ++ v)) : QuietW kd e prev u := by
  induction u generalizing prev with
  | nil => trivial
  | cons w ws ih => exact ⟨h.1, ih w h.2⟩

theorem quietW_take (kd : RxAligner.Kind) (e : Nat) (prev : Word) (ws : List Word) (k : Nat)
    (h : QuietW kd e prev ws) : QuietW kd e prev (ws.take k) := by
  have := List.take_append_drop k ws
  rw [← this] at h
  exact quietW_append_left kd e prev _ _ h

/-! ## Four-symbol words of a symbol stream -/

/-- the complete four-symbol words of a symbol stream -/
def chunks4 {α : Type} : List α → List (List α)
  | a :: b :: c :: d :: rest => [a, b, c, d] :: chunks4 rest
  | _ => []

theorem chunks4_spec {α : Type} (S : List α) :
    ∃ rem, (chunks4 S).flatten ++ rem = S ∧ rem.length < 4 ∧ ∀ w ∈ chunks4 S, w.length = 4 := by
  fun_induction chunks4 S with
  | case1 a b c d rest ih =>
    obtain ⟨rem, h1, h2, h3⟩ := ih
    refine ⟨rem, ?_, h2, ?_⟩
    · simp only [List.flatten_cons, List.cons_append, List.nil_append]
      rw [h1]
    · intro w hw
      rcases List.mem_cons.1 hw with rfl | hw
      · rfl
      · exact h3 w hw
  | case2 S hS =>
    refine ⟨S, by simp, ?_, by simp⟩
    match S, hS with
    | [], _ => simp
    | [_], _ => simp
    | [_, _], _ => simp
    | [_, _, _], _ => simp
    | a :: b :: c :: d :: rest, hS => exact absurd rfl (hS a b c d rest)

/-- two groupings of the same symbol stream into four-symbol words agree -/
theorem chunks_unique {α : Type} (D Y : List (List α)) (R R2 : List α)
    (hD : ∀ w ∈ D, w.length = 4) (hY : ∀ w ∈ Y, w.length = 4)
    (h : D.flatten ++ R = Y.flatten ++ R2) (hR2 : R2.length < 4) :
    D = Y.take D.length ∧ D.length ≤ Y.length ∧ R = (Y.drop D.length).flatten ++ R2 := by
  induction D generalizing Y with
  | nil => simpa using h
  | cons d D ih =>
    have hd : d.length = 4 := hD d (by simp)
    cases Y with
    | nil =>
      have := congrArg List.length h
      simp [hd] at this
      omega
    | cons y Y =>
      have hy : y.length = 4 := hY y (by simp)
      simp only [List.flatten_cons, List.append_assoc] at h
      obtain ⟨h1, h2⟩ := List.append_inj h (by rw [hd, hy])
      have := ih Y (fun w hw => hD w (by simp [hw])) (fun w hw => hY w (by simp [hw])) h2
      subst h1
      refine ⟨?_, by simp; exact this.2.1, by simpa using this.2.2⟩
      simp only [List.length_cons, List.take_succ_cons]
      rw [← this.1]

/-! ## The reference LFSR pass over a word stream (USB 3.2 Appendix B) -/

/-- One pass of the serial-LFSR scrambler over a word stream: data symbols XORed with the reference key bytes
(`refKeys`, one byte per symbol), control symbols untouched, the register moved by four bytes per word and
restarted at FFFFh after a word whose symbol 0 is COM.  Scrambling and descrambling are the same pass. -/
def refPass (en : Bool) : Reg → List (List Symbol) → List (List Symbol)
  | _, [] => []
  | r, w :: ws => scrWord en w (refKeys r) :: refPass en (if headIsCom w then initReg 0xFFFF else skip 4 r) ws

/-- the reference register after a word stream -/
def refReg : Reg → List (List Symbol) → Reg
  | r, [] => r
  | r, w :: ws => refReg (if headIsCom w then initReg 0xFFFF else skip 4 r) ws

theorem refPass_involutive (en : Bool) (r : Reg) (ws : List (List Symbol)) :
    refPass en r (refPass en r ws) = ws := by
  induction ws generalizing r with
  | nil => rfl
  | cons w ws ih => simp [refPass, PhyTx.headIsCom_scrWord, scrWord_involutive, ih]

theorem refReg_refPass (en : Bool) (r : Reg) (ws : List (List Symbol)) :
    refReg r (refPass en r ws) = refReg r ws := by
  induction ws generalizing r with
  | nil => rfl
  | cons w ws ih => simp [refPass, refReg, PhyTx.headIsCom_scrWord, ih]

theorem length_refPass (en : Bool) (r : Reg) (ws : List (List Symbol)) : (refPass en r ws).length = ws.length := by
  induction ws generalizing r with
  | nil => rfl
  | cons w ws ih => simp [refPass, ih]

theorem refPass_take (en : Bool) (r : Reg) (ws : List (List Symbol)) (k : Nat) :
    (refPass en r ws).take k = refPass en r (ws.take k) := by
  induction ws generalizing r k with
  | nil => simp [refPass]
  | cons w ws ih => cases k <;> simp [refPass, ih]

theorem refPass_drop (en : Bool) (r : Reg) (ws : List (List Symbol)) (k : Nat) :
    (refPass en r ws).drop k = refPass en (refReg r (ws.take k)) (ws.drop k) := by
  induction ws generalizing r k with
  | nil => simp [refPass, refReg]
  | cons w ws ih => cases k <;> simp [refPass, refReg, ih]

theorem length_refReg (r : Reg) (hr : r.length = 16) (ws : List (List Symbol)) : (refReg r ws).length = 16 := by
  induction ws generalizing r with
  | nil => exact hr
  | cons w ws ih =>
    simp only [refReg]
    apply ih
    split
    · exact length_initReg _
    · exact length_skip 4 r hr

/-! ## The model's descrambler pass is the reference pass -/

/-- a word of the scrambler model on the `Ss.Sym` bus -/
def toW (w : List Symbol) : Word := w.map toSs

/-- symbols are 8 bits wide -/
def Sym8 (w : List Symbol) : Prop := ∀ x ∈ w, x.d.length = 8

theorem lsbBits_ofLsbBits8 (d : List Bool) (h : d.length = 8) : lsbBits (ofLsbBits d) 8 = d := by
  match d, h with
  | [a, b, c, d, e, f, g, h], _ =>
    cases a <;> cases b <;> cases c <;> cases d <;> cases e <;> cases f <;> cases g <;> cases h <;> decide

theorem ofSs_toSs (x : Symbol) (h : x.d.length = 8) : ofSs (toSs x) = x := by
  cases x with
  | mk k d => simp only [ofSs, toSs]; rw [lsbBits_ofLsbBits8 d h]

theorem map_ofSs_toW (w : List Symbol) (h : Sym8 w) : (toW w).map ofSs = w := by
  induction w with
  | nil => rfl
  | cons x xs ih =>
    simp only [toW, List.map_cons, List.map_map] at ih ⊢
    rw [ofSs_toSs x (h x (by simp))]
    congr 1
    exact ih (fun y hy => h y (by simp [hy]))

theorem sym8_scrWord (en : Bool) (w : List Symbol) (ks : List (List Bool)) (h : Sym8 w) : Sym8 (scrWord en w ks) := by
  induction w generalizing ks with
  | nil => cases ks <;> simpa [scrWord] using h
  | cons x xs ih =>
    cases ks with
    | nil => simpa [scrWord] using h
    | cons k ks =>
      intro y hy
      simp only [scrWord, List.mem_cons] at hy
      rcases hy with rfl | hy
      · have hx := h x (by simp)
        unfold scrSymbol
        split
        · simp [length_xorBits, hx]
        · exact hx
      · exact ih ks (fun z hz => h z (by simp [hz])) y hy

theorem descrInit_eq : descrInit = 0xFFFF := by decide

theorem descr_toW (en : Bool) (r : Reg) (hr : r.length = 16) (T : List (List Symbol)) (hT : ∀ w ∈ T, Sym8 w) :
    descr en r (T.map toW) = (refPass en r T).map toW ∧ regAfterW r (T.map toW) = refReg r T := by
  induction T generalizing r with
  | nil => exact ⟨rfl, rfl⟩
  | cons w ws ih =>
    have hw := map_ofSs_toW w (hT w (by simp))
    have hn : nextReg r (toW w) = if headIsCom w then initReg 0xFFFF else skip 4 r := by
      simp only [nextReg, hw, descrInit_eq, lfsrNext_eq_skip4 r hr]
    have hl : (nextReg r (toW w)).length = 16 := by
      rw [hn]; split
      · exact length_initReg _
      · exact length_skip 4 r hr
    have := ih (nextReg r (toW w)) hl (fun x hx => hT x (by simp [hx]))
    simp only [List.map_cons, descr, regAfterW, refPass, refReg]
    rw [this.1, this.2, hn]
    refine ⟨?_, rfl⟩
    have hw' : List.map ofSs (List.map toSs w) = w := hw
    simp only [dW, PhyTx.keyBytes_eq_refKeys r hr, toW, hw']


theorem sym8_refPass (en : Bool) (r : Reg) (ws : List (List Symbol)) (h : ∀ w ∈ ws, Sym8 w) :
    ∀ w ∈ refPass en r ws, Sym8 w := by
  induction ws generalizing r with
  | nil => simp [refPass]
  | cons x xs ih =>
    intro w hw
    simp only [refPass, List.mem_cons] at hw
    rcases hw with rfl | hw
    · exact sym8_scrWord _ _ _ (h x (by simp))
    · exact ih _ (fun y hy => h y (by simp [hy])) w hw

theorem len4_refPass (en : Bool) (r : Reg) (ws : List (List Symbol)) (h : ∀ w ∈ ws, w.length = 4) :
    ∀ w ∈ (refPass en r ws).map toW, w.length = 4 := by
  induction ws generalizing r with
  | nil => simp [refPass]
  | cons x xs ih =>
    intro w hw
    simp only [refPass, List.map_cons, List.mem_cons] at hw
    rcases hw with rfl | hw
    · simp [toW, length_scrWord, h x (by simp)]
    · exact ih _ (fun y hy => h y (by simp [hy])) w hw

theorem length_flatten4 {α : Type} (W : List (List α)) (h : ∀ w ∈ W, w.length = 4) :
    W.flatten.length = 4 * W.length := by
  induction W with
  | nil => rfl
  | cons w ws ih =>
    simp only [List.flatten_cons, List.length_append, List.length_cons]
    rw [ih (fun x hx => h x (by simp [hx])), h w (by simp)]; omega

/-- descrambling a reference-scrambled stream from the same register returns the stream -/
theorem descr_refPass (en : Bool) (r : Reg) (hr : r.length = 16) (ws : List (List Symbol)) (h : ∀ w ∈ ws, Sym8 w) :
    descr en r ((refPass en r ws).map toW) = ws.map toW ∧
    regAfterW r ((refPass en r ws).map toW) = refReg r ws := by
  have := descr_toW en r hr (refPass en r ws) (sym8_refPass en r ws h)
  rw [refPass_involutive, refReg_refPass] at this
  exact this

/-- the symbols in flight in front of the descrambler are at most 15 -/
theorem inflightS_le (e : Nat) (s : State) (hc : CtcRemover.Inv s.ctc) (hp : s.wal.prev.length = 4)
    (hs : s.wal.srcValid = true → s.wal.src.length = 4) : (inflightS e s).length ≤ 15 := by
  have h1 := (CtcRemover.buf_split s.ctc hc).2.2
  have h2 : (srcS s.wal).length ≤ 4 := by
    unfold srcS; cases hv : s.wal.srcValid
    · simp
    · simp [hs hv]
  simp only [inflightS, tailS, List.length_append, List.length_drop, hp, h1]
  have := hc.2
  omega

/-- **C31 on the receive side (`phy_rx_descrambles`).**  For every locked state of the receive path (word
aligner at any offset `e`, packet aligner at 0), every link-layer word stream `ws` (any data/control mix, COM
anywhere), every pin history whose symbols - together with those already in flight in front of the descrambler -
are `ws` scrambled by the reference LFSR pass from the descrambler's register value, with SKP symbols inserted
ANYWHERE in ANY number (whole SKP words in place of idle words as LUNA's transmitter sends them, ordered sets at
any symbol offset, ...), `rest` being a trailing incomplete word: the words leaving `source`, followed by the
packet aligner's registers, are the packet aligner's registers at the start followed by `ws.take k` - the link
layer's words themselves, in order, none lost, none duplicated - where at most three words of `ws` are still in
flight (`inflightS`: scrambled, in sync with the register reached).  Hence the descrambler's keystream moved
exactly once per delivered word and not at all over the removed SKP symbols.
Side conditions: no COM COM COM COM at an offset other than `e` in the SKP-free pin stream, no
SHP SHP SHP EPF / SLC SLC SLC EPF at a non-zero offset in the link words (else an aligner re-aligns: C34). -/
theorem phy_rx_descrambles (en : Bool) (e : Nat) (s : State) (ins : List In) (ws : List (List Symbol))
    (rest : List Ss.Sym) (hl : Locked e s) (hr : s.reg.length = 16)
    (hrx : ∀ i ∈ ins, i.rx.length = 4) (hen : ∀ i ∈ ins, i.enable = en)
    (hws : ∀ w ∈ ws, w.length = 4 ∧ Sym8 w)
    (hstream : inflightS e s ++ (pinSyms ins).filter (fun x => !isSkp x)
      = ((refPass en s.reg ws).map toW).flatten ++ rest)
    (hrest : rest.length < 4)
    (hqw : QuietW .word e s.wal.prev
      (chunks4 (CtcRemover.pending s.ctc ++ (pinSyms ins).filter (fun x => !isSkp x))))
    (hqp : QuietW .packet 0 s.pal.prev (ws.map toW)) :
    ∃ k, k ≤ ws.length ∧ ws.length ≤ k + 3 ∧
      srcWords (run s ins).1 ++ tailW (run s ins).2.pal = tailW s.pal ++ (ws.take k).map toW ∧
      inflightS e (run s ins).2 = ((refPass en (run s ins).2.reg (ws.drop k)).map toW).flatten ++ rest ∧
      (run s ins).2.reg = refReg s.reg (ws.take k) ∧ (run s ins).2.reg.length = 16 ∧ Locked e (run s ins).2 := by
  -- the word aligner does not re-align
  have henv : CtcRemover.Env (ins.map ctcIn) := by
    intro i hi
    obtain ⟨j, hj, rfl⟩ := List.mem_map.1 hi
    exact ⟨rfl, hrx j hj⟩
  have hq1 : RxAligner.NoRealign .word e s.wal.prev ((ctcTrace s ins).map walIn) := by
    rw [noRealign_iff, inWords_walIn]
    have h1 := (CtcRemover.run_refines s.ctc (ins.map ctcIn) hl.ctc henv).2
    rw [CtcRemover.outSyms_eq_flatten, spec_ctcIn] at h1
    have hlen := CtcRemover.run_words_len s.ctc (ins.map ctcIn) hl.ctc henv
    obtain ⟨rem, hc1, hc2, hc3⟩ := chunks4_spec (CtcRemover.pending s.ctc ++ (pinSyms ins).filter (fun x => !isSkp x))
    have := chunks_unique _ _ _ _ hlen hc3 (h1.trans hc1.symm) hc2
    show QuietW .word e s.wal.prev (CtcRemover.outWords (CtcRemover.run s.ctc (ins.map ctcIn)).1)
    rw [this.1]
    exact quietW_take _ _ _ _ _ hqw
  obtain ⟨hf1, hf2, hf3, hf4, hf5, hf6⟩ := front_stream en e s ins hl hrx hen hq1
  -- the consumed words are the first k scrambled link words
  have hYlen := len4_refPass en s.reg ws (fun w hw => (hws w hw).1)
  have hu := chunks_unique _ _ _ _ hf2 hYlen (hf1.trans hstream) hrest
  generalize hk : (consumed s ins).length = k at hu
  have hkle : k ≤ ws.length := by
    have := hu.2.1; rwa [List.length_map, length_refPass] at this
  have hD : consumed s ins = (refPass en s.reg (ws.take k)).map toW := by
    rw [hu.1, ← List.map_take, refPass_take]
  have hsym : ∀ w ∈ ws.take k, Sym8 w := fun w hw => (hws w (List.mem_of_mem_take hw)).2
  have hdes := descr_refPass en s.reg hr (ws.take k) hsym
  rw [← hD] at hdes
  -- the packet aligner does not re-align
  have hq2 : RxAligner.NoRealign .packet 0 s.pal.prev (palInTrace en s ins) := by
    rw [noRealign_iff]
    show QuietW .packet 0 s.pal.prev (inWords (dTrace en s.reg (walTrace s ins)))
    rw [(descrambler_on_valid_words en s.reg (walTrace s ins)).1]
    show QuietW .packet 0 s.pal.prev (descr en s.reg (consumed s ins))
    rw [hdes.1, List.map_take]
    exact quietW_take _ _ _ _ _ hqp
  obtain ⟨hb1, hb2, hb3, hb4, hb5⟩ := back_stream en s ins hl.psh hl.ppv hl.psrc hen hf2 hq2
  have hreg : (run s ins).2.reg = refReg s.reg (ws.take k) := by rw [hb2, hdes.2]
  have hinf : inflightS e (run s ins).2
      = ((refPass en (run s ins).2.reg (ws.drop k)).map toW).flatten ++ rest := by
    rw [hu.2.2, ← List.map_drop, refPass_drop, hreg]
  refine ⟨k, hkle, ?_, by rw [hb1, hdes.1], hinf, hreg, by rw [hreg]; exact length_refReg _ hr _,
    ⟨hf3, hl.he, hf4, hf5, hf6, hb3, hb4, hb5⟩⟩
  have hle := inflightS_le e (run s ins).2 hf3 hf5 hf6
  rw [hinf, List.length_append,
    length_flatten4 _ (len4_refPass en _ (ws.drop k) (fun w hw => (hws w (List.mem_of_mem_drop hw)).1)),
    List.length_map, length_refPass, List.length_drop] at hle
  omega


/-! ## From reset -/

theorem locked_init : Locked 0 init := by
  refine ⟨CtcRemover.inv_init, by omega, rfl, rfl, ?_, rfl, rfl, ?_⟩ <;> intro h <;> cases h

theorem init_reg : init.reg = initReg 0xFFFF := by
  show initReg descrInit = _
  rw [descrInit_eq]

/-- after reset the only symbols in flight are the four zero symbols of the word aligner's history register -/
theorem inflightS_init : inflightS 0 init = toW IDLE4s := by decide

theorem refPass_append (en : Bool) (r : Reg) (u v : List (List Symbol)) :
    refPass en r (u ++ v) = refPass en r u ++ refPass en (refReg r u) v := by
  induction u generalizing r with
  | nil => rfl
  | cons w ws ih => simp [refPass, refReg, ih]

theorem refReg_append (r : Reg) (u v : List (List Symbol)) : refReg r (u ++ v) = refReg (refReg r u) v := by
  induction u generalizing r with
  | nil => rfl
  | cons w ws ih => simp [refReg, ih]

/-- **From reset (`phy_rx_descrambles_from_reset`): the documented start-up behaviour.**  After reset the word
aligner's zero history word is handed to the descrambler as a valid word, so the register has left FFFFh before
the first received word arrives; whatever is received (`junk`, any words) is descrambled out of step until a word
`c` with COM in symbol 0 restarts the register.  From the word after `c` on, the words leaving `source` are the
far end's link words `ws` (reference-scrambled from FFFFh on the wire, SKP symbols anywhere): exactly
`junk.length + 3` start-up words (the packet aligner's zero word, the descrambled zero word, the descrambled junk
and `c`) precede them. -/
theorem phy_rx_descrambles_from_reset (en : Bool) (ins : List In) (junk : List (List Symbol)) (c : List Symbol)
    (ws : List (List Symbol)) (rest : List Ss.Sym)
    (hrx : ∀ i ∈ ins, i.rx.length = 4) (hen : ∀ i ∈ ins, i.enable = en)
    (hjunk : ∀ w ∈ junk, w.length = 4 ∧ Sym8 w) (hc : c.length = 4 ∧ Sym8 c) (hcom : headIsCom c = true)
    (hws : ∀ w ∈ ws, w.length = 4 ∧ Sym8 w)
    (hstream : (pinSyms ins).filter (fun x => !isSkp x)
      = ((junk ++ [c] ++ refPass en (initReg 0xFFFF) ws).map toW).flatten ++ rest)
    (hrest : rest.length < 4)
    (hqw : QuietW .word 0 RxAligner.zeros (chunks4 ((pinSyms ins).filter (fun x => !isSkp x))))
    (hqp : QuietW .packet 0 RxAligner.zeros
      ((refPass en (initReg 0xFFFF) (IDLE4s :: junk ++ [c]) ++ ws).map toW)) :
    ∃ k, k ≤ junk.length + 2 + ws.length ∧ junk.length + 2 + ws.length ≤ k + 3 ∧
      srcWords (run init ins).1 ++ tailW (run init ins).2.pal
        = RxAligner.zeros :: ((refPass en (initReg 0xFFFF) (IDLE4s :: junk ++ [c]) ++ ws).take k).map toW := by
  have hpre : ∀ w ∈ IDLE4s :: junk ++ [c], w.length = 4 ∧ Sym8 w := by
    intro w hw
    simp only [List.cons_append, List.mem_cons, List.mem_append, List.not_mem_nil, or_false] at hw
    rcases hw with rfl | hw | rfl
    · exact ⟨rfl, by unfold Sym8; decide⟩
    · exact hjunk w hw
    · exact hc
  have hregc : refReg (initReg 0xFFFF) (IDLE4s :: junk ++ [c]) = initReg 0xFFFF := by
    rw [show IDLE4s :: junk ++ [c] = (IDLE4s :: junk) ++ [c] by simp, refReg_append]
    simp [refReg, hcom]
  have hall : ∀ w ∈ refPass en (initReg 0xFFFF) (IDLE4s :: junk ++ [c]) ++ ws, w.length = 4 ∧ Sym8 w := by
    intro w hw
    rcases List.mem_append.1 hw with h | h
    · refine ⟨?_, sym8_refPass en _ _ (fun x hx => (hpre x hx).2) w h⟩
      have := len4_refPass en (initReg 0xFFFF) _ (fun x hx => (hpre x hx).1) (toW w) (List.mem_map_of_mem h)
      simpa [toW] using this
    · exact hws w h
  have hst : inflightS 0 init ++ (pinSyms ins).filter (fun x => !isSkp x)
      = ((refPass en init.reg (refPass en (initReg 0xFFFF) (IDLE4s :: junk ++ [c]) ++ ws)).map toW).flatten
        ++ rest := by
    rw [init_reg, refPass_append, refPass_involutive, refReg_refPass, hregc, hstream, inflightS_init]
    simp [List.append_assoc]
  obtain ⟨k, hk1, hk2, hk3, -⟩ := phy_rx_descrambles en 0 init ins _ rest locked_init
    (by rw [init_reg]; exact length_initReg _) hrx hen hall hst hrest
    (by show QuietW .word 0 RxAligner.zeros (chunks4 (CtcRemover.pending CtcRemover.init ++ _))
        rw [CtcRemover.pending_init]; exact hqw) hqp
  refine ⟨k, ?_, ?_, ?_⟩
  · simpa [length_refPass, Nat.add_comm, Nat.add_left_comm, Nat.add_assoc] using hk1
  · simpa [length_refPass, Nat.add_comm, Nat.add_left_comm, Nat.add_assoc] using hk2
  · rw [hk3]; rfl


/-! ## rx(tx(ws)) = ws: composition with the transmit half (`phy_tx_descrambles`) -/

/-- the link layer's words that actually went onto the wire (those not replaced by a SKP word) -/
def linkWords (st : PhyTx.State) (tins : List PhyTx.In) : List (List Symbol) := (linkView st tins).filterMap id

/-- the transmitter's wire words that are not SKP words -/
def nonSkp (tx : List (Bool × List Symbol)) : List (List Symbol) := (tx.map (·.2)).filter (· ≠ SKP4s)

/-- the reference receiver of `Props/C31Phy.lean` is the reference pass over the non-SKP words -/
theorem farEnd_refPass (en : Bool) (r : Reg) (tx : List (Bool × List Symbol)) (hen : ∀ x ∈ tx, x.1 = en) :
    (farEnd r tx).filterMap id = refPass en r (nonSkp tx) := by
  induction tx generalizing r with
  | nil => rfl
  | cons x xs ih =>
    obtain ⟨b, w⟩ := x
    have hb : b = en := hen (b, w) (by simp)
    have hen' : ∀ y ∈ xs, y.1 = en := fun y hy => hen y (by simp [hy])
    by_cases hw : w = SKP4s
    · simp only [farEnd, hw, if_true, List.filterMap_cons, nonSkp, List.map_cons, List.filter_cons,
        ne_eq, not_true_eq_false, decide_false, Bool.false_eq_true, if_false, id]
      exact ih r hen'
    · simp only [farEnd, hw, if_false, List.filterMap_cons, nonSkp, List.map_cons, List.filter_cons,
        ne_eq, not_false_eq_true, decide_true, if_true, id, refPass, hb]
      congr 1
      exact ih _ hen'

/-- a symbol that is not the SKP K-symbol on the bus -/
def NotSkp (x : Symbol) : Prop := isSkp (toSs x) = false

theorem notSkp_scrSymbol (en : Bool) (x : Symbol) (key : List Bool) (h : NotSkp x) : NotSkp (scrSymbol en x key) := by
  unfold scrSymbol
  split
  · rename_i hc
    have hk : x.k = false := by
      cases hxk : x.k
      · rfl
      · simp [hxk] at hc
    simp [NotSkp, isSkp, toSs, hk]
  · exact h

theorem notSkp_scrWord (en : Bool) (w : List Symbol) (ks : List (List Bool)) (h : ∀ x ∈ w, NotSkp x) :
    ∀ y ∈ scrWord en w ks, NotSkp y := by
  induction w generalizing ks with
  | nil => cases ks <;> simp [scrWord]
  | cons x xs ih =>
    cases ks with
    | nil => simpa [scrWord] using h
    | cons k ks =>
      intro y hy
      simp only [scrWord, List.mem_cons] at hy
      rcases hy with rfl | hy
      · exact notSkp_scrSymbol _ _ _ (h x (by simp))
      · exact ih ks (fun z hz => h z (by simp [hz])) y hy

theorem notSkp_refPass (en : Bool) (r : Reg) (ws : List (List Symbol)) (h : ∀ w ∈ ws, ∀ x ∈ w, NotSkp x) :
    ∀ w ∈ refPass en r ws, ∀ x ∈ w, NotSkp x := by
  induction ws generalizing r with
  | nil => simp [refPass]
  | cons x xs ih =>
    intro w hw
    simp only [refPass, List.mem_cons] at hw
    rcases hw with rfl | hw
    · exact notSkp_scrWord _ _ _ (h x (by simp))
    · exact ih _ (fun y hy => h y (by simp [hy])) w hw

theorem filter_toW_notSkp (w : List Symbol) (h : ∀ x ∈ w, NotSkp x) :
    (toW w).filter (fun x => !isSkp x) = toW w := by
  rw [List.filter_eq_self]
  intro y hy
  obtain ⟨x, hx, rfl⟩ := List.mem_map.1 hy
  have := h x hx
  unfold NotSkp at this
  simp [this]

theorem filter_toW_SKP4s : (toW SKP4s).filter (fun x => !isSkp x) = [] := by decide

/-- removing the SKP symbols from the wire symbol stream leaves the non-SKP wire words, provided those carry
no SKP symbol -/
theorem filter_wire (tx : List (Bool × List Symbol)) (h : ∀ w ∈ nonSkp tx, ∀ x ∈ w, NotSkp x) :
    (tx.flatMap (fun x => toW x.2)).filter (fun x => !isSkp x) = ((nonSkp tx).map toW).flatten := by
  induction tx with
  | nil => rfl
  | cons x xs ih =>
    obtain ⟨b, w⟩ := x
    by_cases hw : w = SKP4s
    · have hns : nonSkp ((b, w) :: xs) = nonSkp xs := by simp [nonSkp, hw]
      rw [hns] at h ⊢
      simp only [List.flatMap_cons, List.filter_append, hw, filter_toW_SKP4s, List.nil_append]
      exact ih h
    · have hns : nonSkp ((b, w) :: xs) = w :: nonSkp xs := by simp [nonSkp, hw]
      rw [hns] at h ⊢
      simp only [List.flatMap_cons, List.filter_append, List.map_cons, List.flatten_cons]
      rw [filter_toW_notSkp w (h w (by simp)), ih (fun y hy => h y (by simp [hy]))]

theorem linkView_mem (st : PhyTx.State) (tins : List PhyTx.In) :
    ∀ w ∈ linkWords st tins, ∃ i ∈ tins, w = i.syms := by
  induction tins generalizing st with
  | nil => simp [linkWords, linkView]
  | cons i is ih =>
    intro w hw
    simp only [linkWords, linkView, List.filterMap_cons] at hw
    cases hs : PhyTx.sendingSkip st i
    · simp only [hs, Bool.false_eq_true, if_false, id, List.mem_cons] at hw
      rcases hw with rfl | hw
      · exact ⟨i, by simp, rfl⟩
      · obtain ⟨j, hj, rfl⟩ := ih _ w hw
        exact ⟨j, by simp [hj], rfl⟩
    · simp only [hs, if_true, id] at hw
      obtain ⟨j, hj, rfl⟩ := ih _ w hw
      exact ⟨j, by simp [hj], rfl⟩

/-- **The transmit half's wire stream is the reference-scrambled link word stream with SKP words in between**
(from `phy_tx_descrambles`): with the SKP symbols deleted, the symbols the transmitter of
`Model/Usb3/PhyTx.lean` puts on the wire are the link layer's transferred words scrambled by the reference pass
from the transmitter's register value. -/
theorem tx_wire_is_refPass (en : Bool) (st : PhyTx.State) (tins : List PhyTx.In) (hr : st.reg.length = 16)
    (hrdy : st.ctc.sinkReady = true) (hidle : ∀ i ∈ tins, i.eidle = false) (henv : PhyTx.Env tins)
    (hten : ∀ i ∈ tins, i.enable = en) (hsym : ∀ i ∈ tins, ∀ x ∈ i.syms, NotSkp x) :
    ((txWords st tins).flatMap (fun x => toW x.2)).filter (fun x => !isSkp x)
      = ((refPass en st.reg (linkWords st tins)).map toW).flatten := by
  have hnoskp : ∀ i ∈ tins, i.syms ≠ SKP4s := by
    intro i hi h
    have := hsym i hi PhyTx.skpSym (by rw [h]; simp [SKP4s])
    unfold NotSkp at this
    revert this; decide
  have htx := PhyTx.phy_tx_descrambles st tins hr hrdy hidle henv hnoskp
  have hen' : ∀ x ∈ txWords st tins, x.1 = en := by
    clear htx hnoskp hsym henv hidle hrdy hr
    induction tins generalizing st with
    | nil => simp [txWords]
    | cons i is ih =>
      intro x hx
      simp only [txWords, List.mem_cons] at hx
      rcases hx with rfl | hx
      · exact hten i (by simp)
      · exact ih _ (fun j hj => hten j (by simp [hj])) x hx
  have h1 := farEnd_refPass en st.reg (txWords st tins) hen'
  rw [htx] at h1
  have h2 : nonSkp (txWords st tins) = refPass en st.reg (linkWords st tins) := by
    have := congrArg (refPass en st.reg) h1
    rw [refPass_involutive] at this
    exact this.symm
  have hlw : ∀ w ∈ linkWords st tins, ∀ x ∈ w, NotSkp x := by
    intro w hw
    obtain ⟨i, hi, rfl⟩ := linkView_mem st tins w hw
    exact hsym i hi
  rw [filter_wire _ (by rw [h2]; exact notSkp_refPass en _ _ hlw), h2]


/-- **rx(tx(ws)) = ws (`phy_rx_of_phy_tx`).**  The transmit half of one `USB3PhysicalLayer` (`Model/Usb3/PhyTx.lean`:
Scrambler -> CTCSkipInserter, any history of link-layer words, `can_send_skp` and hence any SKP insertion
pattern the inserter produces, under the hypotheses of `phy_tx_descrambles`) feeding the pins of the receive half
of another one (`Model/Usb3/PhyRx.lean`, locked at any word-aligner offset `e`, holding the scrambled words `ws0`
in flight, its descrambler register in step with the transmitter: `refReg s.reg ws0 = st.reg`): the words leaving
the receiver's `source`, after the two words of the packet aligner's registers, are the in-flight words and then
the transmitting link layer's words `linkWords` (those it was allowed to transfer, i.e. all but the logical-idle
words replaced by SKP words) - in order, nothing lost or duplicated, at most three still in flight. -/
theorem phy_rx_of_phy_tx (en : Bool) (e : Nat) (s : State) (ins : List In) (st : PhyTx.State)
    (tins : List PhyTx.In) (ws0 : List (List Symbol))
    (hl : Locked e s) (hr : s.reg.length = 16)
    (hrx : ∀ i ∈ ins, i.rx.length = 4) (hen : ∀ i ∈ ins, i.enable = en)
    (htr : st.reg.length = 16) (hrdy : st.ctc.sinkReady = true) (hidle : ∀ i ∈ tins, i.eidle = false)
    (henv : PhyTx.Env tins) (hten : ∀ i ∈ tins, i.enable = en)
    (hsym : ∀ i ∈ tins, i.syms.length = 4 ∧ Sym8 i.syms ∧ ∀ x ∈ i.syms, NotSkp x)
    (hpins : pinSyms ins = (txWords st tins).flatMap (fun x => toW x.2))
    (hws0 : ∀ w ∈ ws0, w.length = 4 ∧ Sym8 w)
    (hfl : inflightS e s = ((refPass en s.reg ws0).map toW).flatten)
    (hsync : refReg s.reg ws0 = st.reg)
    (hqw : QuietW .word e s.wal.prev
      (chunks4 (CtcRemover.pending s.ctc ++ (pinSyms ins).filter (fun x => !isSkp x))))
    (hqp : QuietW .packet 0 s.pal.prev ((ws0 ++ linkWords st tins).map toW)) :
    ∃ k, k ≤ (ws0 ++ linkWords st tins).length ∧ (ws0 ++ linkWords st tins).length ≤ k + 3 ∧
      srcWords (run s ins).1 ++ tailW (run s ins).2.pal
        = tailW s.pal ++ ((ws0 ++ linkWords st tins).take k).map toW ∧
      (run s ins).2.reg = refReg s.reg ((ws0 ++ linkWords st tins).take k) ∧ Locked e (run s ins).2 := by
  have hwire := tx_wire_is_refPass en st tins htr hrdy hidle henv hten (fun i hi => (hsym i hi).2.2)
  have hall : ∀ w ∈ ws0 ++ linkWords st tins, w.length = 4 ∧ Sym8 w := by
    intro w hw
    rcases List.mem_append.1 hw with h | h
    · exact hws0 w h
    · obtain ⟨i, hi, rfl⟩ := linkView_mem st tins w h
      exact ⟨(hsym i hi).1, (hsym i hi).2.1⟩
  have hst : inflightS e s ++ (pinSyms ins).filter (fun x => !isSkp x)
      = ((refPass en s.reg (ws0 ++ linkWords st tins)).map toW).flatten ++ [] := by
    rw [hfl, hpins, hwire, refPass_append, hsync]
    simp
  obtain ⟨k, h1, h2, h3, -, h5, -, h7⟩ :=
    phy_rx_descrambles en e s ins _ [] hl hr hrx hen hall hst (by simp) hqw hqp
  exact ⟨k, h1, h2, h3, h5, h7⟩


/-! ## Every word alignment offset: locking onto COM COM COM COM -/

/-- COM COM COM COM as symbols of the scrambler model -/
def COM4s : List Symbol := [⟨true, lsbBits 0xBC 8⟩, ⟨true, lsbBits 0xBC 8⟩, ⟨true, lsbBits 0xBC 8⟩, ⟨true, lsbBits 0xBC 8⟩]

theorem toW_COM4s : toW COM4s = RxAligner.COM4 := by decide

theorem run_single (s : State) (i : In) : (run s [i]).2 = (step s i).1 := rfl

/-- **Locking (`lock_on_com4`).**  In whatever alignment the receive path is (`Locked e0`), when the SKP remover
delivers the word that completes COM COM COM COM at symbol offset `k` of the word aligner's window (k = 0 … 3,
the last matching window as in C34), the path is `Locked k` after that cycle and the word aligner's output register
holds the COM word, valid: the state from which `phy_rx_descrambles_after_com4` starts. -/
theorem lock_on_com4 (en : Bool) (e0 k : Nat) (s : State) (i : In) (hl : Locked e0 s) (hrx : i.rx.length = 4)
    (hen : i.enable = en)
    (hv : (CtcRemover.step s.ctc (ctcIn i)).2.srcValid = true)
    (hdet : RxAligner.detect .word (s.wal.prev ++ (CtcRemover.step s.ctc (ctcIn i)).2.srcWord) = some k)
    (hq2 : RxAligner.NoRealign .packet 0 s.pal.prev (palInTrace en s [i])) :
    Locked k (run s [i]).2 ∧ (run s [i]).2.wal.srcValid = true ∧ (run s [i]).2.wal.src = toW COM4s := by
  have hc := CtcRemover.step_refines s.ctc (ctcIn i) hl.ctc rfl hrx
  have hwl : (CtcRemover.step s.ctc (ctcIn i)).2.srcWord.length = 4 := by
    obtain ⟨h1, h2⟩ := hc.2.2.2 hv
    rw [h1, List.length_take]; omega
  have hD : ∀ w ∈ consumed s [i], w.length = 4 := by
    intro w hw
    simp only [consumed, walTrace, ctcTrace, List.map_cons, List.map_nil, CtcRemover.run, RxAligner.run,
      alWords, RxAligner.outOf] at hw
    cases hsv : s.wal.srcValid <;> simp [hsv] at hw
    rw [hw]; exact hl.wsrc hsv
  obtain ⟨-, -, hb3, hb4, hb5⟩ := back_stream en s [i] hl.psh hl.ppv hl.psrc (by simpa using hen) hD hq2
  have hwv : (walIn (CtcRemover.step s.ctc (ctcIn i)).2).valid = true := hv
  obtain ⟨hk4, hck, -⟩ := RxAligner.detect_some .word _ k hdet
  obtain ⟨ho, hs⟩ := RxAligner.next_detect .word s.wal (walIn (CtcRemover.step s.ctc (ctcIn i)).2) k hwv hdet
  obtain ⟨hsrc, hval, hpv⟩ := RxAligner.next_fields .word s.wal (walIn (CtcRemover.step s.ctc (ctcIn i)).2)
  rw [hwv] at hval hpv
  simp only [if_true] at hpv
  rw [ho] at hsrc
  have hwal : (run s [i]).2.wal = RxAligner.next .word s.wal (walIn (CtcRemover.step s.ctc (ctcIn i)).2) := rfl
  have hcom : (run s [i]).2.wal.src = toW COM4s := by
    rw [hwal, hsrc, toW_COM4s]
    exact (RxAligner.crit_word _).1 hck
  refine ⟨⟨hc.1, hk4, by rw [hwal]; exact hs, by rw [hwal, hpv]; exact hwl, ?_, hb3, hb4, hb5⟩,
    by rw [hwal]; exact hval, hcom⟩
  intro _
  rw [hcom]; rfl

/-- **After locking (`phy_rx_descrambles_after_com4`).**  Locked at any offset `e`, the COM COM COM COM word in
the word aligner's output register (whatever the descrambler's register is - the COM word restarts it), the
symbols behind it - aligner history, remover, pins with SKP symbols anywhere - being the link words `ws`
reference-scrambled from FFFFh: `source` delivers the COM word and then the link words. -/
theorem phy_rx_descrambles_after_com4 (en : Bool) (e : Nat) (s : State) (ins : List In) (ws : List (List Symbol))
    (rest : List Ss.Sym) (hl : Locked e s) (hr : s.reg.length = 16)
    (hrx : ∀ i ∈ ins, i.rx.length = 4) (hen : ∀ i ∈ ins, i.enable = en)
    (hws : ∀ w ∈ ws, w.length = 4 ∧ Sym8 w)
    (hsv : s.wal.srcValid = true) (hsrc : s.wal.src = toW COM4s)
    (hstream : s.wal.prev.drop e ++ CtcRemover.pending s.ctc ++ (pinSyms ins).filter (fun x => !isSkp x)
      = ((refPass en (initReg 0xFFFF) ws).map toW).flatten ++ rest)
    (hrest : rest.length < 4)
    (hqw : QuietW .word e s.wal.prev
      (chunks4 (CtcRemover.pending s.ctc ++ (pinSyms ins).filter (fun x => !isSkp x))))
    (hqp : QuietW .packet 0 s.pal.prev ((COM4s :: ws).map toW)) :
    ∃ k, k ≤ ws.length + 1 ∧ ws.length + 1 ≤ k + 3 ∧
      srcWords (run s ins).1 ++ tailW (run s ins).2.pal = tailW s.pal ++ ((COM4s :: ws).take k).map toW ∧
      (run s ins).2.reg = refReg s.reg ((COM4s :: ws).take k) ∧ Locked e (run s ins).2 := by
  have hall : ∀ w ∈ COM4s :: ws, w.length = 4 ∧ Sym8 w := by
    intro w hw
    rcases List.mem_cons.1 hw with rfl | hw
    · exact ⟨rfl, by unfold Sym8; decide⟩
    · exact hws w hw
  have hpass : refPass en s.reg (COM4s :: ws) = COM4s :: refPass en (initReg 0xFFFF) ws := by
    have hk : scrWord en COM4s (refKeys s.reg) = COM4s :=
      PhyTx.scrWord_allK en COM4s _ (by decide)
    have hc : headIsCom COM4s = true := by decide
    simp only [refPass, hk, hc, if_true]
  have hst : inflightS e s ++ (pinSyms ins).filter (fun x => !isSkp x)
      = ((refPass en s.reg (COM4s :: ws)).map toW).flatten ++ rest := by
    rw [hpass]
    simp only [inflightS, tailS, srcS, hsv, if_true, hsrc, List.map_cons, List.flatten_cons, List.append_assoc]
    rw [← hstream]
    simp [List.append_assoc]
  obtain ⟨k, h1, h2, h3, -, h5, -, h7⟩ :=
    phy_rx_descrambles en e s ins _ rest hl hr hrx hen hall hst hrest hqw hqp
  exact ⟨k, by simpa using h1, by simpa using h2, h3, h5, h7⟩


/-! ## Non-vacuity -/

instance (c : CtcRemover.State) : Decidable (CtcRemover.Inv c) := by unfold CtcRemover.Inv; exact inferInstance

theorem locked_iff (e : Nat) (s : State) : Locked e s ↔
    (CtcRemover.Inv s.ctc ∧ e < 4 ∧ s.wal.shift = e ∧ s.wal.prev.length = 4 ∧
     (s.wal.srcValid = true → s.wal.src.length = 4) ∧ s.pal.shift = 0 ∧ s.pal.prev.length = 4 ∧
     (s.pal.srcValid = true → s.pal.src.length = 4)) :=
  ⟨fun h => ⟨h.1, h.2, h.3, h.4, h.5, h.6, h.7, h.8⟩, fun h => ⟨h.1, h.2.1, h.2.2.1, h.2.2.2.1, h.2.2.2.2.1,
    h.2.2.2.2.2.1, h.2.2.2.2.2.2.1, h.2.2.2.2.2.2.2⟩⟩

instance (e : Nat) (s : State) : Decidable (Locked e s) := decidable_of_iff _ (locked_iff e s).symm

instance (w : List Symbol) : Decidable (Sym8 w) := by unfold Sym8; exact inferInstance
instance (x : Symbol) : Decidable (NotSkp x) := by unfold NotSkp; exact inferInstance

private def dsym (n : Nat) : Symbol := ⟨false, lsbBits n 8⟩
private def comSym : Symbol := ⟨true, lsbBits 0xBC 8⟩
private def exC : List Symbol := [comSym, dsym 1, dsym 2, dsym 3]
private def exW3 : List Symbol := [⟨true, lsbBits 0xFB 8⟩, dsym 0x3C, dsym 0xBC, dsym 0]
private def exWs : List (List Symbol) := [[dsym 0x11, dsym 0x22, dsym 0x33, dsym 0x44], IDLE4s, exW3]
private def exWire : List Ss.Sym := (([exC] ++ refPass true (initReg 0xFFFF) exWs).map toW).flatten
/-- the wire symbols with a SKP ordered set at symbol offset 2, a whole SKP word, and SKP symbols behind -/
private def exPinSyms : List Ss.Sym :=
  exWire.take 2 ++ [SKP, SKP] ++ (exWire.drop 2).take 6 ++ [SKP, SKP, SKP, SKP] ++ exWire.drop 8
    ++ List.replicate 10 SKP
private def exIns : List In := (chunks4 exPinSyms).map (fun w => ⟨w, true⟩)

/-- From reset, a COM-first word and three link words (data; logical idle; a word mixing SHP, 0x3C and 0xBC as
DATA, and D0.0) reference-scrambled from FFFFh, SKP symbols inserted at a non-word offset, as a whole word and
behind: every hypothesis of `phy_rx_descrambles_from_reset` holds (no junk), and the model's `source` delivers
the zero word, the two unsynchronised start-up words, then the link words (k = 4: one still in flight). -/
example :
    (∀ i ∈ exIns, i.rx.length = 4) ∧ (∀ i ∈ exIns, i.enable = true) ∧
    (exC.length = 4 ∧ Sym8 exC) ∧ headIsCom exC = true ∧ (∀ w ∈ exWs, w.length = 4 ∧ Sym8 w) ∧
    (pinSyms exIns).filter (fun x => !isSkp x)
      = ((([] : List (List Symbol)) ++ [exC] ++ refPass true (initReg 0xFFFF) exWs).map toW).flatten ++ [] ∧
    QuietW .word 0 RxAligner.zeros (chunks4 ((pinSyms exIns).filter (fun x => !isSkp x))) ∧
    QuietW .packet 0 RxAligner.zeros ((refPass true (initReg 0xFFFF) (IDLE4s :: [] ++ [exC]) ++ exWs).map toW) ∧
    srcWords (run init exIns).1 ++ tailW (run init exIns).2.pal
      = RxAligner.zeros :: ((refPass true (initReg 0xFFFF) (IDLE4s :: [] ++ [exC]) ++ exWs).take 4).map toW ∧
    (run init exIns).1.map (·.skipRemoved) = [true, false, true, true, false, true, true, true] := by
  decide +kernel

private def exWs2 : List (List Symbol) :=
  [[dsym 0x4A, dsym 0x4A, dsym 0, dsym 0], [dsym 0xA1, dsym 0xA2, dsym 0xA3, dsym 0xA4], IDLE4s,
   [⟨true, lsbBits 0xFE 8⟩, ⟨true, lsbBits 0xFE 8⟩, ⟨true, lsbBits 0xFE 8⟩, ⟨true, lsbBits 0xF7 8⟩]]
private def exWire2 : List Ss.Sym := ((refPass true (initReg 0xFFFF) exWs2).map toW).flatten
/-- two data symbols, COM COM COM COM at symbol offset 2, then the start of the scrambled stream -/
private def exInsA : List In :=
  [⟨[⟨0x55, false⟩, ⟨0x66, false⟩, COM, COM], true⟩, ⟨[COM, COM] ++ exWire2.take 2, true⟩,
   ⟨(exWire2.drop 2).take 4, true⟩]
private def exS1 : State := (run init exInsA).2
private def exPin2 : List Ss.Sym :=
  (exWire2.drop 6).take 3 ++ [SKP] ++ (exWire2.drop 9).take 4 ++ [SKP, SKP, SKP, SKP] ++ exWire2.drop 13 ++ [SKP]
    ++ List.replicate 8 SKP
private def exInsB : List In := (chunks4 exPin2).map (fun w => ⟨w, true⟩)

private def exS0 : State := (run init (exInsA.take 2)).2
private def exI : In := ⟨(exWire2.drop 2).take 4, true⟩

/-- `lock_on_com4`: two cycles after reset the remover hands over the word that completes COM COM COM COM at
symbol offset 2; the hypotheses hold and the path is locked at offset 2 afterwards. -/
example :
    Locked 0 exS0 ∧ exI.rx.length = 4 ∧ (CtcRemover.step exS0.ctc (ctcIn exI)).2.srcValid = true ∧
    RxAligner.detect .word (exS0.wal.prev ++ (CtcRemover.step exS0.ctc (ctcIn exI)).2.srcWord) = some 2 ∧
    RxAligner.NoRealign .packet 0 exS0.pal.prev (palInTrace true exS0 [exI]) ∧
    (run exS0 [exI]).2.wal.shift = 2 ∧ (run exS0 [exI]).2.wal.src = toW COM4s := by
  decide +kernel

/-- Word aligner at offset 2 (`phy_rx_descrambles`, `phy_rx_descrambles_after_com4`): the state reached from reset after COM COM COM COM arrived at symbol offset 2 is
`Locked 2` (the COM word and two stream symbols in the aligner, four in the remover), the hypotheses of
`phy_rx_descrambles` hold for the stream COM×4, TS-like data, data, logical idle, SLC SLC SLC EPF with single SKP
symbols and a SKP word inserted, and `source` delivers the words (k = 4, the link command word still in flight). -/
example :
    Locked 2 exS1 ∧ exS1.wal.srcValid = true ∧ exS1.wal.src = toW COM4s ∧ exS1.reg.length = 16 ∧ (∀ i ∈ exInsB, i.rx.length = 4) ∧ (∀ i ∈ exInsB, i.enable = true) ∧
    (∀ w ∈ COM4s :: exWs2, w.length = 4 ∧ Sym8 w) ∧
    inflightS 2 exS1 ++ (pinSyms exInsB).filter (fun x => !isSkp x)
      = ((refPass true exS1.reg (COM4s :: exWs2)).map toW).flatten ++ [] ∧
    QuietW .word 2 exS1.wal.prev
      (chunks4 (CtcRemover.pending exS1.ctc ++ (pinSyms exInsB).filter (fun x => !isSkp x))) ∧
    QuietW .packet 0 exS1.pal.prev ((COM4s :: exWs2).map toW) ∧
    srcWords (run exS1 exInsB).1 ++ tailW (run exS1 exInsB).2.pal
      = tailW exS1.pal ++ ((COM4s :: exWs2).take 4).map toW ∧
    (run exS1 exInsB).1.map (·.offset) = [2, 2, 2, 2, 2, 2] := by
  decide +kernel

private def exS2 : State := (run exS1 exInsB).2
/-- a transmitter with two SKP ordered sets owed (C33's example state), its register where the receiver's will be
after the word in flight -/
private def exSt : PhyTx.State :=
  ⟨refReg exS2.reg ((COM4s :: exWs2).drop 4), ⟨2, 100, ⟨true, [], false, false⟩, true⟩⟩
private def exTins : List PhyTx.In :=
  [⟨IDLE4s, true, true, false⟩, ⟨IDLE4s, true, true, false⟩,
   ⟨[dsym 0x11, dsym 0x22, dsym 0x33, dsym 0x44], false, true, false⟩,
   ⟨IDLE4s, false, true, false⟩, ⟨IDLE4s, false, true, false⟩, ⟨IDLE4s, false, true, false⟩]
private def exInsC : List In := (txWords exSt exTins).map (fun x => ⟨toW x.2, true⟩)

/-- The transmit model feeding the receive model (still at aligner offset 2): the hypotheses of
`phy_rx_of_phy_tx` hold; the transmitter replaces the first logical-idle word by a SKP word, the receiver
delivers the word that was in flight and then the link words idle, data, ... (k = 3 of 6, three in flight). -/
example :
    Locked 2 exS2 ∧ exS2.reg.length = 16 ∧ (∀ i ∈ exInsC, i.rx.length = 4) ∧ (∀ i ∈ exInsC, i.enable = true) ∧
    exSt.reg.length = 16 ∧ exSt.ctc.sinkReady = true ∧ (∀ i ∈ exTins, i.eidle = false) ∧
    (∀ i ∈ exTins, i.canSkp = true → i.syms = IDLE4s) ∧ (∀ i ∈ exTins, i.enable = true) ∧
    (∀ i ∈ exTins, i.syms.length = 4 ∧ Sym8 i.syms ∧ ∀ x ∈ i.syms, NotSkp x) ∧
    pinSyms exInsC = (txWords exSt exTins).flatMap (fun x => toW x.2) ∧
    inflightS 2 exS2 = ((refPass true exS2.reg ((COM4s :: exWs2).drop 4)).map toW).flatten ∧
    QuietW .word 2 exS2.wal.prev
      (chunks4 (CtcRemover.pending exS2.ctc ++ (pinSyms exInsC).filter (fun x => !isSkp x))) ∧
    QuietW .packet 0 exS2.pal.prev (((COM4s :: exWs2).drop 4 ++ linkWords exSt exTins).map toW) ∧
    (linkView exSt exTins).map Option.isSome = [false, true, true, true, true, true] ∧
    srcWords (run exS2 exInsC).1 ++ tailW (run exS2 exInsC).2.pal
      = tailW exS2.pal ++ (((COM4s :: exWs2).drop 4 ++ linkWords exSt exTins).take 3).map toW := by
  decide +kernel

end LunaVerif.PhyRx
