import LunaVerif.Model.Usb2.Handshake
import LunaVerif.Core.UtmiTrack
/-!
# C04 — USB2 handshakes are generated and detected exactly

"Each handshake request made while the generator is idle produces exactly one single-byte packet
carrying the requested ACK, NAK or STALL PID with its correct check nibble, held until the PHY
accepts it.  A handshake-detected strobe (ACK/NAK/STALL/NYET) is raised exactly once for each
received one-byte packet whose PID and check nibble form that handshake, and never for longer
packets or malformed PIDs."

Quantified over all request strobe timings (including requests while busy), all PHY ready
patterns, and all UTMI receive histories for the detector.

Generator specification: the generator is *idle* when no accepted-but-unsent handshake is pending;
`specNext` is the whole protocol (idle + request → pending; pending + ready → idle; requests while
pending are ignored).  Simultaneous requests: the code's priority is stall > nak > ack (`request`).

Detector specification: `Utmi.trackNext/trackDone` (Core/UtmiTrack.lean) define the received
packets of a raw history; a strobe is due in the cycle after a packet completes, iff the packet is
exactly the one byte `0xD2` / `0x5A` / `0x1E` / `0x96`.
-/
namespace LunaVerif.Handshake

/-! ## Generator -/
namespace Gen

inductive Hs | ack | nak | stall
deriving Repr, DecidableEq

/-- PID nibbles of USB 2.0 table 8-1. -/
def pidNibble : Hs → Nat
  | .ack => 0b0010
  | .nak => 0b1010
  | .stall => 0b1110

/-- The PID byte: nibble, and its complement as check nibble in the upper half (USB 2.0 §8.3.1). -/
def pidByte (h : Hs) : Nat := pidNibble h + 16 * (15 - pidNibble h)

/-- Which handshake a set of simultaneous request strobes asks for, as coded (later `If` wins). -/
def request (i : In) : Option Hs :=
  if i.stall then some .stall else if i.nak then some .nak else if i.ack then some .ack else none

/-- The protocol: the handshake that is pending (requested while idle, not yet accepted). -/
def specNext (p : Option Hs) (i : In) : Option Hs :=
  match p with
  | none => request i
  | some h => if i.ready then none else some h

def pendings : Option Hs → List In → List (Option Hs)
  | _, [] => []
  | p, i :: is => p :: pendings (specNext p i) is

/-- What the transmit port must show while `p` is pending. -/
def Matches (o : Out) (p : Option Hs) : Prop :=
  o.valid = p.isSome ∧ ∀ h, p = some h → o.data = pidByte h

/-- Pointwise `Matches` of an output trace against the pending-handshake trace (same length). -/
def AllMatch : List Out → List (Option Hs) → Prop
  | [], [] => True
  | o :: os, p :: ps => Matches o p ∧ AllMatch os ps
  | _, _ => False

def Rel (s : State) (p : Option Hs) : Prop :=
  s.transmit = p.isSome ∧ ∀ h, p = some h → s.data = pidByte h

theorem rel_init : Rel init none := by simp [Rel, init]

theorem step_rel (s : State) (p : Option Hs) (i : In) (h : Rel s p) :
    Rel (step s i).1 (specNext p i) ∧ Matches (step s i).2 p := by
  obtain ⟨ht, hd⟩ := h
  refine ⟨?_, ⟨by simpa [step] using ht, by simpa [step] using hd⟩⟩
  cases p with
  | none =>
    simp at ht
    obtain ⟨ack, nak, stall, ready⟩ := i
    cases ack <;> cases nak <;> cases stall <;>
      simp [Rel, step, ht, specNext, request, pidByte, pidNibble, packetAck, packetNak, packetStall]
  | some h0 =>
    simp at ht
    have hd0 := hd h0 rfl
    cases hr : i.ready <;> simp [Rel, step, ht, specNext, hr, hd0]

/-- **C04 (generator), cycle level.**  For every request/ready schedule, in every cycle `tx_valid`
is high iff a handshake is pending, and `tx_data` is then that handshake's PID byte — so the byte
is held, unchanged, from the cycle after the request until the cycle `tx_ready` is high. -/
theorem gen_outputs_exact_from (s : State) (p : Option Hs) (h : Rel s p) (hist : List In) :
    AllMatch (run s hist) (pendings p hist) := by
  induction hist generalizing s p with
  | nil => exact True.intro
  | cons i is ih =>
    have := step_rel s p i h
    exact ⟨this.2, ih _ _ this.1⟩

theorem gen_outputs_exact (hist : List In) :
    AllMatch (run init hist) (pendings none hist) :=
  gen_outputs_exact_from init none rel_init hist

/-- Bytes accepted by the PHY: cycles with `tx_valid ∧ tx_ready`. -/
def accepted : List Out → List In → List Nat
  | o :: os, i :: is => if o.valid && i.ready then o.data :: accepted os is else accepted os is
  | _, _ => []

/-- Requests made while idle and subsequently accepted, in order. -/
def served : Option Hs → List In → List Hs
  | _, [] => []
  | none, i :: is => served (request i) is
  | some h, i :: is => if i.ready then h :: served none is else served (some h) is

theorem accepted_from (s : State) (p : Option Hs) (h : Rel s p) (hist : List In) :
    accepted (run s hist) hist = (served p hist).map pidByte := by
  induction hist generalizing s p with
  | nil => simp [run, accepted, served]
  | cons i is ih =>
    have hs := step_rel s p i h
    have ih' := ih _ _ hs.1
    obtain ⟨hv, hd⟩ := hs.2
    cases p with
    | none =>
      simp at hv
      simp only [run, accepted, hv, Bool.false_and, Bool.false_eq_true, if_false, served]
      simpa [specNext] using ih'
    | some h0 =>
      simp at hv
      have hd0 := hd h0 rfl
      cases hr : i.ready
      · simp only [run, accepted, hv, hr, Bool.and_false, Bool.false_eq_true, if_false, served]
        simpa [specNext, hr] using ih'
      · simp only [run, accepted, hv, hr, Bool.and_self, if_true, served, List.map_cons, hd0]
        congr 1
        simpa [specNext, hr] using ih'

/-- **C04 (generator), packet level.**  The bytes the PHY accepts are exactly the PID bytes of the
requests made while idle, one byte each, in order; requests made while busy never appear. -/
theorem gen_one_packet_per_idle_request (hist : List In) :
    accepted (run init hist) hist = (served none hist).map pidByte :=
  accepted_from init none rel_init hist

/-- The three PID bytes are the constants of the specification and pass the detector's own check
nibble test. -/
theorem gen_byte_has_valid_check_nibble (h : Hs) :
    Det.isValidPid (pidByte h) = true ∧ pidByte h % 16 = pidNibble h ∧ pidByte h < 256 ∧
    (pidByte .ack = 0xD2 ∧ pidByte .nak = 0x5A ∧ pidByte .stall = 0x1E) := by
  cases h <;> decide

/-- A lone request strobe asks for its own handshake. -/
theorem request_single :
    request ⟨true, false, false, r⟩ = some .ack ∧ request ⟨false, true, false, r⟩ = some .nak ∧
    request ⟨false, false, true, r⟩ = some .stall ∧ request ⟨false, false, false, r⟩ = none := by
  simp [request]

/-- Back-pressure: a pending byte that is not accepted is presented again, unchanged. -/
theorem gen_valid_held (s : State) (i : In) (hv : (step s i).2.valid = true) (hr : i.ready = false) :
    (step s i).1 = s := by
  simp [step] at hv
  simp [step, hv, hr]

example : accepted (run init [⟨true, false, false, false⟩, ⟨false, true, false, false⟩,
      ⟨false, false, false, true⟩, ⟨true, true, false, true⟩, ⟨false, false, false, true⟩])
    [⟨true, false, false, false⟩, ⟨false, true, false, false⟩,
      ⟨false, false, false, true⟩, ⟨true, true, false, true⟩, ⟨false, false, false, true⟩]
    = [0xD2, 0x5A] := by decide

end Gen

/-! ## Detector -/
namespace Det
open LunaVerif.Utmi

def noStrobe : Out := ⟨false, false, false, false⟩

/-- The strobes due in the cycle after `done` completed. -/
def specOut : Option (List Nat) → Out
  | some pkt => ⟨pkt == [0xD2], pkt == [0x5A], pkt == [0x1E], pkt == [0x96]⟩
  | none => noStrobe

/-- Cycle-by-cycle specification: the output of a cycle is decided by the packet (if any) that
completed in the previous cycle. -/
def specRun : Track → Option (List Nat) → List RxCycle → List Out
  | _, _, [] => []
  | cur, done, c :: cs => specOut done :: specRun (trackNext cur c) (trackDone cur c) cs

/-- Refinement invariant: FSM state as a function of the packet received so far. -/
def Inv (s : State) (cur : Track) (done : Option (List Nat)) : Prop :=
  (⟨s.ack, s.nak, s.stall, s.nyet⟩ : Out) = specOut done ∧
  match cur with
  | none => s.fsm = .idle
  | some [] => s.fsm = .readPid
  | some [b] => b < 256 ∧
      if isValidPid b then s.fsm = .awaitCompletion ∧ s.activePid = b % 16 else s.fsm = .irrelevant
  | some (_ :: _ :: _) => s.fsm = .irrelevant

theorem inv_init : Inv init none none := by simp [Inv, init, specOut, noStrobe]

/-- For a byte, "valid check nibble and PID nibble n" pins the byte (`m` = the complement nibble). -/
theorem pid_byte_iff (b n m : Nat) (hb : b < 256) (hnm : n + m = 15) :
    (isValidPid b = true ∧ b % 16 = n) ↔ b = n + 16 * m := by
  simp only [isValidPid, beq_iff_eq]
  have h16 : b / 16 < 16 := by omega
  rw [Nat.mod_eq_of_lt h16]
  constructor
  · rintro ⟨h1, h2⟩; omega
  · intro h; constructor <;> omega

theorem strobe_eq (b n m : Nat) (hb : b < 256) (hnm : n + m = 15) (hv : isValidPid b = true) :
    (b % 16 == n) = (b == n + 16 * m) := by
  have := pid_byte_iff b n m hb hnm
  rw [Bool.eq_iff_iff]
  simp only [beq_iff_eq]
  exact ⟨fun h => this.mp ⟨hv, h⟩, fun e => (this.mpr e).2⟩

theorem not_valid_ne (b n m : Nat) (hb : b < 256) (hnm : n + m = 15) (hv : isValidPid b = false) :
    (b == n + 16 * m) = false := by
  have := pid_byte_iff b n m hb hnm
  rw [beq_eq_false_iff_ne]
  intro e
  rw [(this.mpr e).1] at hv
  exact Bool.noConfusion hv

theorem step_inv (s : State) (cur : Track) (done : Option (List Nat)) (c : RxCycle)
    (hd : c.data < 256) (h : Inv s cur done) :
    Inv (step s c).1 (trackNext cur c) (trackDone cur c) ∧ (step s c).2 = specOut done := by
  obtain ⟨hout, hfsm⟩ := h
  refine ⟨?_, by simpa [step] using hout⟩
  obtain ⟨active, valid, data⟩ := c
  simp only at hd
  match cur, hfsm with
  | none, hf =>
    simp only at hf
    cases active <;> simp [Inv, step, hf, trackNext, trackDone, specOut, noStrobe]
  | some [], hf =>
    simp only at hf
    cases active <;> cases valid <;>
      simp [Inv, step, hf, trackNext, trackDone, specOut, noStrobe, hd]
    cases hv : isValidPid data <;> simp
  | some [b], hf =>
    simp only at hf
    obtain ⟨hb, hf⟩ := hf
    cases hv : isValidPid b
    · simp [hv] at hf
      have e1 := not_valid_ne b 2 13 hb (by decide) hv
      have e2 := not_valid_ne b 10 5 hb (by decide) hv
      have e3 := not_valid_ne b 14 1 hb (by decide) hv
      have e4 := not_valid_ne b 6 9 hb (by decide) hv
      simp at e1 e2 e3 e4
      cases active <;> cases valid <;>
        simp [Inv, step, hf, trackNext, trackDone, specOut, noStrobe, hv, hb, e1, e2, e3, e4]
    · simp [hv] at hf
      obtain ⟨hf, hp⟩ := hf
      have e1 := strobe_eq b 2 13 hb (by decide) hv
      have e2 := strobe_eq b 10 5 hb (by decide) hv
      have e3 := strobe_eq b 14 1 hb (by decide) hv
      have e4 := strobe_eq b 6 9 hb (by decide) hv
      simp at e1 e2 e3 e4
      cases active <;> cases valid <;>
        simp [Inv, step, hf, hp, trackNext, trackDone, specOut, noStrobe, hv, hb, ackPid, nakPid,
          stallPid, nyetPid, e1, e2, e3, e4]
  | some (b1 :: b2 :: rest), hf =>
    simp only at hf
    cases active <;> cases valid <;>
      simp [Inv, step, hf, trackNext, trackDone, specOut, noStrobe]

theorem det_exact_from (s : State) (cur : Track) (done : Option (List Nat)) (h : Inv s cur done)
    (hist : List RxCycle) (hd : ∀ c ∈ hist, c.data < 256) :
    run s hist = specRun cur done hist := by
  induction hist generalizing s cur done with
  | nil => rfl
  | cons c cs ih =>
    have hs := step_inv s cur done c (hd c (by simp)) h
    simp only [run, specRun, hs.2]
    congr 1
    exact ih _ _ _ hs.1 (fun x hx => hd x (by simp [hx]))

/-- **C04 (detector), cycle level.**  For every receive history (8-bit data), the four strobes are,
in every cycle, exactly those due for the packet that completed in the previous cycle: one strobe
iff that packet is the single byte ACK / NAK / STALL / NYET with its check nibble, none otherwise
(longer packets, malformed PIDs, byte-less packets, or no packet end). -/
theorem det_exact (hist : List RxCycle) (hd : ∀ c ∈ hist, c.data < 256) :
    run init hist = specRun none none hist :=
  det_exact_from init none none inv_init hist hd

inductive Kind | ack | nak | stall | nyet
deriving Repr, DecidableEq

def kindOf (o : Out) : Option Kind :=
  if o.ack then some .ack else if o.nak then some .nak else if o.stall then some .stall
  else if o.nyet then some .nyet else none

/-- The handshake a received packet is, at packet level. -/
def handshakeOf (pkt : List Nat) : Option Kind :=
  if pkt = [0xD2] then some .ack else if pkt = [0x5A] then some .nak
  else if pkt = [0x1E] then some .stall else if pkt = [0x96] then some .nyet else none

/-- A strobe is raised iff the completed packet is that handshake; at most one strobe at a time. -/
theorem det_strobe_iff_handshake_packet (done : Option (List Nat)) :
    kindOf (specOut done) = done.bind handshakeOf ∧
    ((specOut done).ack = true ↔ done = some [0xD2]) ∧
    ((specOut done).nak = true ↔ done = some [0x5A]) ∧
    ((specOut done).stall = true ↔ done = some [0x1E]) ∧
    ((specOut done).nyet = true ↔ done = some [0x96]) := by
  cases done with
  | none => simp [specOut, noStrobe, kindOf]
  | some pkt =>
    refine ⟨?_, by simp [specOut], by simp [specOut], by simp [specOut], by simp [specOut]⟩
    simp only [specOut, kindOf, handshakeOf, Option.bind_some, beq_iff_eq]

theorem specRun_events (cur : Track) (done : Option (List Nat)) (hist : List RxCycle) (x : RxCycle) :
    (specRun cur done (hist ++ [x])).filterMap kindOf
      = (done.bind handshakeOf).toList ++ (packetsOf cur hist).filterMap handshakeOf := by
  induction hist generalizing cur done with
  | nil =>
    simp only [List.nil_append, specRun, List.filterMap_cons, List.filterMap_nil, packetsOf,
      List.append_nil, (det_strobe_iff_handshake_packet done).1]
    cases done.bind handshakeOf <;> rfl
  | cons c cs ih =>
    simp only [List.cons_append, specRun, List.filterMap_cons, (det_strobe_iff_handshake_packet done).1,
      ih, packetsOf]
    cases hdn : trackDone cur c with
    | none => cases done.bind handshakeOf <;> simp
    | some p =>
      cases done.bind handshakeOf <;> cases hp : handshakeOf p <;> simp [hp]

/-- **C04 (detector), packet level.**  The sequence of strobes raised during a history (observed one
cycle beyond its end) is the sequence of handshakes among the packets received in it: exactly one
strobe per one-byte handshake packet, in order, and nothing for any other packet. -/
theorem det_events_eq_packets (hist : List RxCycle) (x : RxCycle)
    (hd : ∀ c ∈ hist ++ [x], c.data < 256) :
    (run init (hist ++ [x])).filterMap kindOf = (packetsOf none hist).filterMap handshakeOf := by
  rw [det_exact _ hd, specRun_events]; rfl

/-- The same for a list of well-formed rendered packets with arbitrary timing. -/
theorem det_events_rendered (ps : List RxPacket) (hw : ∀ p ∈ ps, p.wf) (x : RxCycle)
    (hd : ∀ c ∈ renderAll ps ++ [x], c.data < 256) :
    (run init (renderAll ps ++ [x])).filterMap kindOf = ps.filterMap (fun p => handshakeOf p.bytes) := by
  rw [det_events_eq_packets _ x hd, (packetsOf_renderAll ps hw).1, List.filterMap_map]
  rfl

/-- Never for longer packets, malformed PIDs or byte-less packets. -/
theorem no_handshake_unless_single_pid_byte (pkt : List Nat) :
    (pkt.length ≠ 1 → handshakeOf pkt = none) ∧
    (∀ b, pkt = [b] → isValidPid b = false → handshakeOf pkt = none) := by
  constructor
  · intro h
    simp only [handshakeOf]
    repeat' split
    all_goals first | rfl | (rename_i e; simp_all)
  · intro b e hv
    subst e
    simp only [handshakeOf]
    repeat' split
    all_goals first | rfl | (simp_all; revert hv; decide)

/-- Non-vacuity: ACK with a wait cycle, a two-byte packet starting with ACK (ignored), NYET. -/
example :
    (run init ([waitC 0, byteC 0xD2, waitC 7, idleC 0] ++ [waitC 0, byteC 0xD2, byteC 0, idleC 0]
      ++ [waitC 0, byteC 0x96, idleC 0] ++ [idleC 0])).filterMap kindOf = [.ack, .nyet] := by decide

end Det
end LunaVerif.Handshake
