import LunaVerif.Model.Periph.Ila
/-!
# C56 — The ILA captures exactly the samples following a trigger

"After a trigger, the logic analyzer records exactly sample_depth consecutive samples of its inputs
(delayed by the configured pre-trigger count), raises 'complete', and reading back sample n returns the
n-th recorded sample; no trigger during capture disturbs it."

Cycle numbering in the theorems: cycle 0 is the cycle in which the trigger is seen while idle
(`x0`), the following `depth` cycles are `xs`.  `S = σ.dl ++ inputs(x0 :: xs)` is the input stream
including the `pre` values still in the delay line, so `S[t]` is `delayed_inputs` in cycle `t`.
All theorems hold for every depth ≥ 1, every pre-trigger count, all input waveforms, all read
addresses and all trigger activity during the capture.
-/
namespace LunaVerif.Ila

def inputsOf (xs : List In) : List Nat := xs.map (·.inputs)

/-- a reachable idle state: write enable off, memory and delay line of the configured sizes -/
def IdleState (c : Config) (σ : State) : Prop :=
  σ.fsm = .idle ∧ σ.wen = false ∧ σ.mem.length = c.depth

/-! ## list lemmas -/

theorem le_two_pow_rangeWidth (n : Nat) : n ≤ 2 ^ rangeWidth n := by
  unfold rangeWidth
  split
  · simp; omega
  · have := Nat.lt_log2_self (n := n - 1); omega

theorem set_take (l : List Nat) (j d : Nat) (h : j < l.length) : (l.set j d).take (j + 1) = l.take j ++ [d] := by
  induction l generalizing j with
  | nil => simp at h
  | cons a l ih =>
    cases j with
    | zero => simp
    | succ j => simp at h; simp [ih j (by omega)]

theorem set_last (l : List Nat) (j d : Nat) (h : j + 1 = l.length) : l.set j d = l.take j ++ [d] := by
  rw [← set_take l j d (by omega), List.take_of_length_le (by simp; omega)]

theorem shift_spec (dl : List Nat) (x : Nat) (rest : List Nat) :
    dl ++ x :: rest = (shift dl x).1 :: ((shift dl x).2 ++ rest) := by
  cases dl <;> simp [shift]

/-! ## the capture phase -/

theorem sample_phase (c : Config) (xs : List In) :
    ∀ (j : Nat) (mem dl : List Nat) (cpl : Bool) (rd : Nat), j + xs.length = c.depth → xs ≠ [] →
      mem.length = c.depth →
      (runState c ⟨.sample, j, true, cpl, mem, rd, dl⟩ xs).fsm = .idle ∧
      (runState c ⟨.sample, j, true, cpl, mem, rd, dl⟩ xs).wen = false ∧
      (runState c ⟨.sample, j, true, cpl, mem, rd, dl⟩ xs).complete = true ∧
      (runState c ⟨.sample, j, true, cpl, mem, rd, dl⟩ xs).mem = mem.take j ++ (dl ++ inputsOf xs).take xs.length ∧
      (run c ⟨.sample, j, true, cpl, mem, rd, dl⟩ xs).map (fun o => (o.sampling, o.complete))
        = List.replicate xs.length (true, cpl) := by
  induction xs with
  | nil => intro j mem dl cpl rd _ h; exact absurd rfl h
  | cons x xs ih =>
    intro j mem dl cpl rd hj _ hmem
    have hsp := shift_spec dl x.inputs (inputsOf xs)
    simp only [List.length_cons] at hj
    have hI : inputsOf (x :: xs) = x.inputs :: inputsOf xs := rfl
    by_cases hlast : j + 1 = c.depth
    · have hxs : xs = [] := List.eq_nil_of_length_eq_zero (by omega)
      subst hxs
      have hst : step c ⟨.sample, j, true, cpl, mem, rd, dl⟩ x =
          (⟨.idle, (j + 1) % 2 ^ rangeWidth c.depth, false, true, mem.set j (shift dl x.inputs).1,
            memRead mem x.rdaddr, (shift dl x.inputs).2⟩, ⟨true, cpl, rd⟩) := by
        simp [step, hlast]
      simp only [runState, run, hst, List.length_cons, List.length_nil, List.map_cons, List.map_nil,
        List.replicate, true_and, and_true]
      rw [set_last mem j _ (by omega), hI, hsp]
      simp
    · have hst : step c ⟨.sample, j, true, cpl, mem, rd, dl⟩ x =
          (⟨.sample, j + 1, true, cpl, mem.set j (shift dl x.inputs).1,
            memRead mem x.rdaddr, (shift dl x.inputs).2⟩, ⟨true, cpl, rd⟩) := by
        have hP := le_two_pow_rangeWidth c.depth
        simp only [step, hlast, if_false]
        rw [Nat.mod_eq_of_lt (by omega)]
        simp
      have hne : xs ≠ [] := by intro h; subst h; simp at hj; omega
      obtain ⟨i1, i2, i3, i4, i5⟩ := ih (j + 1) (mem.set j (shift dl x.inputs).1) (shift dl x.inputs).2 cpl
        (memRead mem x.rdaddr) (by omega) hne (by simpa using hmem)
      simp only [runState, run, hst, i1, i2, i3, i4, i5, List.length_cons, List.map_cons, List.replicate_succ,
        true_and, and_true]
      rw [set_take mem j _ (by omega), hI, hsp, List.take_succ_cons]
      simp

/-- **captures_depth_consecutive_samples**: a trigger seen while idle is followed by exactly `depth` cycles of
`sampling` (with `complete` low), after which the analyzer is idle again with `complete` high and the memory holds
the `depth` consecutive values `delayed_inputs` had in those cycles (`S[1 .. depth]`) — for every input
waveform, read address pattern and trigger activity in `xs`. -/
theorem captures_depth_consecutive_samples (c : Config) (hd : 1 ≤ c.depth) (σ : State) (hσ : IdleState c σ)
    (x0 : In) (ht : x0.trigger = true) (xs : List In) (hl : xs.length = c.depth) :
    let fin := runState c σ (x0 :: xs)
    fin.fsm = .idle ∧ fin.wen = false ∧ fin.complete = true ∧
    fin.mem = ((σ.dl ++ inputsOf (x0 :: xs)).drop 1).take c.depth ∧
    (run c σ (x0 :: xs)).map (fun o => (o.sampling, o.complete))
      = (false, σ.complete) :: List.replicate c.depth (true, false) := by
  obtain ⟨f, wpos, wen, cpl, mem, rd, dl⟩ := σ
  obtain ⟨hf, hw, hm⟩ := hσ
  simp only at hf hw hm; subst hf hw
  have hsp := shift_spec dl x0.inputs (inputsOf xs)
  have hst : step c ⟨.idle, wpos, false, cpl, mem, rd, dl⟩ x0 =
      (⟨.sample, 0, true, false, mem, memRead mem x0.rdaddr, (shift dl x0.inputs).2⟩, ⟨false, cpl, rd⟩) := by
    simp [step, ht]
  have hne : xs ≠ [] := by intro h; subst h; simp at hl; omega
  obtain ⟨i1, i2, i3, i4, i5⟩ := sample_phase c xs 0 mem (shift dl x0.inputs).2 false (memRead mem x0.rdaddr)
    (by omega) hne hm
  have hI : inputsOf (x0 :: xs) = x0.inputs :: inputsOf xs := rfl
  simp only [runState, run, hst, i1, i2, i3, i4, i5, List.map_cons, hl, true_and]
  rw [hI, hsp]
  simp

/-- **pretrigger_delay**: sample `n` of a capture is the input value of cycle `1 + n - pre` (cycle 0 = the trigger
cycle): with `pre = 1` sample 0 is the value in the trigger cycle itself, with `pre = 0` the value one cycle later,
with `pre = k` the value `k - 1` cycles *before* the trigger.  (For `1 + n < pre` it is the value the delay line held,
i.e. an input from before cycle 0.) -/
theorem pretrigger_delay (c : Config) (hd : 1 ≤ c.depth) (σ : State) (hσ : IdleState c σ)
    (hdl : σ.dl.length = c.pre) (x0 : In) (ht : x0.trigger = true) (xs : List In) (hl : xs.length = c.depth)
    (n : Nat) (hn : n < c.depth) :
    (runState c σ (x0 :: xs)).mem[n]? =
      if c.pre ≤ 1 + n then (inputsOf (x0 :: xs))[1 + n - c.pre]? else σ.dl[1 + n]? := by
  have h := (captures_depth_consecutive_samples c hd σ hσ x0 ht xs hl).2.2.2.1
  rw [h, List.getElem?_take_of_lt hn, List.getElem?_drop]
  split
  · rw [List.getElem?_append_right (by omega), hdl]
  · rw [List.getElem?_append_left (by omega)]

/-- **trigger_during_capture_ignored**: while sampling, the next state and the outputs do not depend on the
trigger input at all. -/
theorem trigger_during_capture_ignored (c : Config) (σ : State) (hσ : σ.fsm = .sample) (t t' : Bool) (v a : Nat) :
    step c σ ⟨t, v, a⟩ = step c σ ⟨t', v, a⟩ := by
  obtain ⟨f, wpos, wen, cpl, mem, rd, dl⟩ := σ
  simp only at hσ; subst hσ
  simp [step]

/-- **readback_nth**: `captured_sample` is the register loaded, in the previous cycle, with the memory word at
`captured_sample_number`; and while the analyzer is idle the memory does not change (a trigger only arms the
write enable for the next cycle).  Hence after a capture, presenting address `n` returns recorded sample `n` one
cycle later, for as long as no new capture has started writing. -/
theorem readback_nth (c : Config) (σ : State) (i i' : In) :
    (step c σ i).2.captured = σ.rdata ∧
    (step c σ i).1.rdata = memRead σ.mem i.rdaddr ∧
    (σ.wen = false → (step c σ i).1.mem = σ.mem) ∧
    (step c (step c σ i).1 i').2.captured = memRead σ.mem i.rdaddr := by
  obtain ⟨f, wpos, wen, cpl, mem, rd, dl⟩ := σ
  have h1 : (step c ⟨f, wpos, wen, cpl, mem, rd, dl⟩ i).1.rdata = memRead mem i.rdaddr := by
    cases f <;> simp only [step] <;> split <;> rfl
  have h2 : ∀ σ' : State, (step c σ' i').2.captured = σ'.rdata := by
    intro σ'; obtain ⟨f', _, _, _, _, _, _⟩ := σ'
    cases f' <;> simp only [step] <;> split <;> rfl
  refine ⟨?_, h1, ?_, ?_⟩
  · cases f <;> simp only [step] <;> split <;> rfl
  · intro hw
    simp only at hw; subst hw
    cases f <;> simp only [step] <;> split <;> simp
  · rw [h2, h1]

/-! ## Non-vacuity: depth 3, pre-trigger 1: the sample of the trigger cycle is recorded first -/
example : (runState ⟨3, 1⟩ (init ⟨3, 1⟩)
    [⟨false, 9, 0⟩, ⟨true, 10, 0⟩, ⟨true, 11, 0⟩, ⟨false, 12, 0⟩, ⟨true, 13, 0⟩]).mem = [10, 11, 12] := by decide
example : (run ⟨2, 0⟩ (init ⟨2, 0⟩)
    [⟨true, 5, 0⟩, ⟨false, 6, 0⟩, ⟨true, 7, 0⟩, ⟨false, 8, 0⟩, ⟨false, 9, 1⟩, ⟨false, 9, 0⟩]) =
    [⟨false, false, 0⟩, ⟨true, false, 0⟩, ⟨true, false, 0⟩, ⟨false, true, 6⟩, ⟨false, true, 6⟩, ⟨false, true, 7⟩] := by
  decide

end LunaVerif.Ila
