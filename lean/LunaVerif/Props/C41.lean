import LunaVerif.Lemmas.Ltssm
import Mathlib.Tactic.SplitIfs
/-!
# C41 — The LTSSM reaches U0 only through training and honours resets and timeouts

"The link reports ready only after, since the last reset, it has detected a partner, exchanged
polling LFPS (or TS1 when loosened) and completed the TS1/TS2 exchange, and, since the last entry
to polling, recovery or hot reset, it has completed the TS2 exchange and the idle handshake; a warm
or power-on reset removes link-ready within one cycle and keeps the link out of U0 while it lasts.
Each training, recovery and inactive substate with a defined timeout is left no later than that
timeout (12 ms, 2 ms or 360 ms as documented).  Scrambling is enabled in U0 unless either side
requested otherwise."

All theorems are about the model `LunaVerif.Ltssm` of the controller *with the F18 repair*
(warm-reset handling emitted last in every state) and hold for every input history and every
configuration (`Config.Valid` where the counter width matters).  "Reset" is a cycle in which the
input `in_usb_reset` is asserted (the only reset input the controller reads).

Ghost / history variables (defined here, not in the model):
* `sinceReset` — the (FSM state, inputs) pairs of all cycles after the last reset cycle,
* `sinceEntry` — the same since the FSM last *entered* Polling.LFPS, Recovery.Active or Hot Reset.Active,
* `age`        — the number of cycles since the current FSM state was entered,
* `ourReq`, `partnerReq` — what either side asked about scrambling during the last training.
-/
namespace LunaVerif.Ltssm

/-! ## Resets -/

/-- While `in_usb_reset` is asserted the next state is Rx.Detect.Reset, from every state. -/
theorem reset_forces_rx_detect_reset (c : Config) (s : State) (i : In) (h : i.inUsbReset = true) :
    (next c s i).st = .RxDetectReset := by
  cases hst : s.st <;> ltssm_norm [hst, h] <;> simp

/-- `link_ready` is exactly "the FSM is in U0". -/
theorem link_ready_iff_u0 (c : Config) (s : State) (i : In) :
    (out c s i).linkReady = true ↔ s.st = .U0 := by
  simp [out]

/-- A reset cycle removes link-ready within one cycle: whatever the state `s` (in particular U0
with `link_ready` high) and whatever the other inputs, in the cycle after a cycle with
`in_usb_reset` the output `link_ready` is low. -/
theorem reset_removes_link_ready_next_cycle (c : Config) (s : State) (i j : In)
    (h : i.inUsbReset = true) : (out c (next c s i) j).linkReady = false := by
  have := reset_forces_rx_detect_reset c s i h
  simp [out, this]

theorem runFrom_append (c : Config) (s : State) (a b : List In) :
    runFrom c s (a ++ b) = runFrom c (runFrom c s a) b := by
  induction a generalizing s with
  | nil => rfl
  | cons x xs ih => simp [runFrom, ih]

/-- … and keeps the link out of U0 while it lasts: for every input history, a cycle that follows a
cycle with `in_usb_reset` asserted is not spent in U0 (so during a reset of k cycles the link is out
of U0 from the second of them up to and including the cycle after the last). -/
theorem no_u0_during_reset (c : Config) (hist : List In) (i : In) (h : i.inUsbReset = true) :
    (runFrom c init (hist ++ [i])).st ≠ .U0 := by
  rw [runFrom_append]
  simp [runFrom, reset_forces_rx_detect_reset c _ i h]

/-! ## Time-outs -/

/-- The substates with a time-out and its length in cycles (12 ms, 2 ms or 360 ms at the clock). -/
def timeoutOf (c : Config) : St → Option Nat
  | .RxDetectQuiet => some c.c12
  | .PollingLFPS => some c.c360
  | .PollingActive => some c.c12
  | .PollingConfiguration => some c.c12
  | .PollingIdle => some c.c2
  | .HotResetActive => some c.c12
  | .HotResetExit => some c.c2
  | .RecoveryActive => some c.c12
  | .RecoveryConfiguration => some c.c12
  | .RecoveryIdle => some c.c2
  | .SSInactiveQuiet => some c.c12
  | _ => none

/-- Ghost: the registers together with the age of the current FSM state (0 in its first cycle). -/
def ageStep (c : Config) (sa : State × Nat) (i : In) : State × Nat :=
  let s' := next c sa.1 i
  (s', if s'.st = sa.1.st then sa.2 + 1 else 0)

def ageRun (c : Config) : State × Nat → List In → State × Nat
  | sa, [] => sa
  | sa, i :: is => ageRun c (ageStep c sa i) is

/-- In a timed state: staying means that the counter advanced without wrapping and had not yet
reached the time-out; leaving any state clears the counter. -/
theorem timed_stay (c : Config) (s : State) (i : In) (T : Nat) (hT : timeoutOf c s.st = some T)
    (hstay : (next c s i).st = s.st) :
    s.cycles ≠ T ∧ (next c s i).cycles = (s.cycles + 1) % c.ctrMod := by
  revert hT hstay
  cases hst : s.st <;> simp only [timeoutOf, reduceCtorEq, false_implies, Option.some.injEq] <;>
    intro hT <;> subst hT <;> ltssm_norm [hst] <;> split_ifs <;> simp_all

theorem leave_clears (c : Config) (s : State) (i : In) (h : (next c s i).st ≠ s.st) :
    (next c s i).cycles = 0 := by
  revert h
  cases hst : s.st <;> ltssm_norm [hst] <;> split_ifs <;> simp_all

theorem timeout_le_c360 (c : Config) (hc : c.Valid) (st : St) (T : Nat) (h : timeoutOf c st = some T) :
    T ≤ c.c360 := by
  obtain ⟨h1, h2, _⟩ := hc
  cases st <;> simp [timeoutOf] at h <;> omega

/-- The invariant behind `timeouts_respected`: in a timed state the time-out counter *is* the age,
and it has not passed the time-out. -/
def AgeInv (c : Config) (sa : State × Nat) : Prop :=
  ∀ T, timeoutOf c sa.1.st = some T → sa.1.cycles = sa.2 ∧ sa.2 ≤ T

theorem ageInv_step (c : Config) (hc : c.Valid) (sa : State × Nat) (i : In) (h : AgeInv c sa) :
    AgeInv c (ageStep c sa i) := by
  intro T hT
  simp only [ageStep] at hT ⊢
  by_cases hstay : (next c sa.1 i).st = sa.1.st
  · rw [hstay] at hT
    obtain ⟨hne, hcyc⟩ := timed_stay c sa.1 i T hT hstay
    obtain ⟨heq, hle⟩ := h T hT
    have hT360 := timeout_le_c360 c hc _ T hT
    have hmod : (sa.1.cycles + 1) % c.ctrMod = sa.1.cycles + 1 :=
      Nat.mod_eq_of_lt (by have := hc.2.2; omega)
    simp only [hstay, if_true]
    rw [hcyc, hmod]
    omega
  · simp only [hstay, if_false]
    exact ⟨leave_clears c sa.1 i hstay, Nat.zero_le _⟩

theorem ageInv_run (c : Config) (hc : c.Valid) (sa : State × Nat) (hist : List In) (h : AgeInv c sa) :
    AgeInv c (ageRun c sa hist) := by
  induction hist generalizing sa with
  | nil => exact h
  | cons i is ih => exact ih _ (ageInv_step c hc sa i h)

/-- **Time-outs.**  For every history: whenever the FSM is in a substate with a time-out of `T`
cycles, it has been there for at most `T` cycles (age ≤ T, i.e. the state is occupied during at
most the `T + 1` cycles with ages `0 … T`; the decision to leave is taken in the cycle of age `T`). -/
theorem timeouts_respected (c : Config) (hc : c.Valid) (hist : List In) (T : Nat)
    (hT : timeoutOf c (ageRun c (init, 0) hist).1.st = some T) :
    (ageRun c (init, 0) hist).2 ≤ T :=
  ((ageInv_run c hc (init, 0) hist (by intro T h; simp [timeoutOf, init] at h)) T hT).2

/-- … and in the cycle of age `T` the state is left, whatever the inputs. -/
theorem timeout_leaves (c : Config) (hc : c.Valid) (hist : List In) (i : In) (T : Nat)
    (hT : timeoutOf c (ageRun c (init, 0) hist).1.st = some T)
    (hage : (ageRun c (init, 0) hist).2 = T) :
    (next c (ageRun c (init, 0) hist).1 i).st ≠ (ageRun c (init, 0) hist).1.st := by
  intro hstay
  have hinv := ageInv_run c hc (init, 0) hist (by intro T h; simp [timeoutOf, init] at h) T hT
  have := (timed_stay c _ i T hT hstay).1
  omega

/-! ## Training: link-ready only after the handshake sequence -/

/-- One observed cycle: the FSM state it was spent in and the inputs of that cycle. -/
abbrev Ev := St × In

/-- `HasSubseq ps log`: the log (oldest first) contains, in this order but not necessarily
adjacent, events `e₁, e₂, …` with `p₁ e₁`, `p₂ e₂`, … -/
def HasSubseq {α : Type} : List (α → Bool) → List α → Prop
  | [], _ => True
  | _ :: _, [] => False
  | p :: ps, x :: xs => (p x = true ∧ HasSubseq ps xs) ∨ HasSubseq (p :: ps) xs

theorem HasSubseq.nil {α : Type} (xs : List α) : HasSubseq ([] : List (α → Bool)) xs := by
  cases xs <;> simp [HasSubseq]

theorem HasSubseq.append_right {α : Type} {ps : List (α → Bool)} {xs : List α} (ys : List α)
    (h : HasSubseq ps xs) : HasSubseq ps (xs ++ ys) := by
  induction xs generalizing ps with
  | nil =>
    cases ps with
    | nil => exact HasSubseq.nil _
    | cons p ps => simp [HasSubseq] at h
  | cons x xs ih =>
    cases ps with
    | nil => exact HasSubseq.nil _
    | cons p ps =>
      simp only [HasSubseq, List.cons_append] at h ⊢
      rcases h with ⟨hp, h⟩ | h
      · exact Or.inl ⟨hp, ih h⟩
      · exact Or.inr (ih h)

theorem HasSubseq.snoc {α : Type} {ps : List (α → Bool)} {xs : List α} {p : α → Bool} {x : α}
    (h : HasSubseq ps xs) (hp : p x = true) : HasSubseq (ps ++ [p]) (xs ++ [x]) := by
  induction xs generalizing ps with
  | nil =>
    cases ps with
    | nil => simp [HasSubseq, hp]
    | cons q qs => simp [HasSubseq] at h
  | cons y ys ih =>
    cases ps with
    | nil =>
      simp only [List.nil_append, List.cons_append, HasSubseq]
      exact Or.inr (ih (HasSubseq.nil _))
    | cons q qs =>
      simp only [HasSubseq, List.cons_append] at h ⊢
      rcases h with ⟨hq, h⟩ | h
      · exact Or.inl ⟨hq, ih h⟩
      · exact Or.inr (ih h)

theorem HasSubseq.take {α : Type} {ps : List (α → Bool)} {xs : List α} (k : Nat)
    (h : HasSubseq ps xs) : HasSubseq (ps.take k) xs := by
  induction xs generalizing ps k with
  | nil =>
    cases ps with
    | nil => simp [HasSubseq]
    | cons p ps => simp [HasSubseq] at h
  | cons x xs ih =>
    cases ps with
    | nil => simp [HasSubseq]
    | cons p ps =>
      cases k with
      | zero => simp [HasSubseq]
      | succ k =>
        simp only [HasSubseq, List.take_succ_cons] at h ⊢
        rcases h with ⟨hp, h⟩ | h
        · exact Or.inl ⟨hp, ih k h⟩
        · have := ih (k + 1) h
          simp only [List.take_succ_cons] at this
          exact Or.inr this

/-- The k-th step of a chain holds of an event (false beyond the end of the chain). -/
def evAt (chain : List (Ev → Bool)) (k : Nat) (e : Ev) : Bool :=
  match chain[k]? with
  | some p => p e
  | none => false

/-- One step of a rank argument: if the log contains the first `r` steps of the chain, and the new
rank is either not larger, or larger by one with the new event satisfying step `r`, then the
extended log contains the first `r'` steps. -/
theorem rank_step (chain : List (Ev → Bool)) (log : List Ev) (e : Ev) (r r' : Nat)
    (hinv : HasSubseq (chain.take r) log)
    (h : r' ≤ r ∨ (r' = r + 1 ∧ evAt chain r e = true)) :
    HasSubseq (chain.take r') (log ++ [e]) := by
  rcases h with h | ⟨h, he⟩
  · have := (HasSubseq.take r' hinv).append_right [e]
    rwa [List.take_take, Nat.min_eq_left h] at this
  · subst h
    unfold evAt at he
    cases hk : chain[r]? with
    | none => simp [hk] at he
    | some p =>
      simp only [hk] at he
      have hr : r < chain.length := by
        rcases Nat.lt_or_ge r chain.length with h | h
        · exact h
        · simp [List.getElem?_eq_none h] at hk
      have : chain.take (r + 1) = chain.take r ++ [p] := by
        rw [List.take_add_one, hk]; rfl
      rw [this]
      exact hinv.snoc he

/-! ### The ghost logs -/

/-- The FSM *enters* Polling, Recovery or Hot Reset. -/
def isEntry (a b : St) : Bool :=
  a != b && (b == .PollingLFPS || b == .RecoveryActive || b == .HotResetActive)

structure Ghost where
  s : State
  sinceReset : List Ev      -- cycles after the last cycle with in_usb_reset, oldest first
  sinceEntry : List Ev      -- cycles since the FSM last entered Polling.LFPS / Recovery.Active / Hot Reset.Active

def gstep (c : Config) (g : Ghost) (i : In) : Ghost :=
  let s' := next c g.s i
  { s := s'
    sinceReset := if i.inUsbReset then [] else g.sinceReset ++ [(g.s.st, i)]
    sinceEntry := if isEntry g.s.st s'.st then [] else g.sinceEntry ++ [(g.s.st, i)] }

def grun (c : Config) : Ghost → List In → Ghost
  | g, [] => g
  | g, i :: is => grun c (gstep c g i) is

def ginit : Ghost := ⟨init, [], []⟩

theorem grun_inv (c : Config) (P : Ghost → Prop) (hs : ∀ g i, P g → P (gstep c g i)) (g : Ghost)
    (hist : List In) (h0 : P g) : P (grun c g hist) := by
  induction hist generalizing g with
  | nil => exact h0
  | cons i is ih => exact ih _ (hs g i h0)

/-- the ghost run carries exactly the model's registers -/
theorem grun_s (c : Config) (g : Ghost) (hist : List In) : (grun c g hist).s = runFrom c g.s hist := by
  induction hist generalizing g with
  | nil => rfl
  | cons i is ih => simp [grun, runFrom, ih, gstep]

/-! ### The events of the handshake -/

def evPartner : Ev → Bool := fun e => e.1 == .RxDetectActive && e.2.linkPartnerDetected
def evLfpsRx (c : Config) : Ev → Bool := fun e =>
  e.1 == .PollingLFPS && (e.2.lfpsPollingDetected || (c.loosen && e.2.ts1Detected))
def evLfpsTx : Ev → Bool := fun e => e.1 == .PollingLFPS && decide (e.2.lfpsCyclesSent ≥ 16)
def evTseq : Ev → Bool := fun e => e.1 == .PollingRxEQ && e.2.tsBurstComplete
def evTs1Tx : Ev → Bool := fun e => e.1 == .PollingActive && e.2.tsBurstComplete
def evTsRx : Ev → Bool := fun e =>
  e.1 == .PollingActive && (e.2.ts1Detected || e.2.ts2Detected || e.2.invertedTs1Detected)
def evTs2RxP : Ev → Bool := fun e =>
  (e.1 == .PollingActive || e.1 == .PollingConfiguration) && e.2.ts2Detected
def evTs2TxP : Ev → Bool := fun e => e.1 == .PollingConfiguration && e.2.tsBurstComplete
def evTs2More : Ev → Bool := fun e => e.1 == .PollingConfigurationExit && e.2.tsBurstComplete
def evTs2Rx : Ev → Bool := fun e =>
  (e.1 == .PollingActive || e.1 == .PollingConfiguration || e.1 == .RecoveryActive ||
   e.1 == .RecoveryConfiguration || e.1 == .HotResetActive) && e.2.ts2Detected
def evTs2Tx : Ev → Bool := fun e =>
  (e.1 == .PollingConfiguration || e.1 == .RecoveryConfiguration || e.1 == .HotResetActive) &&
  e.2.tsBurstComplete
def evIdle : Ev → Bool := fun e =>
  (e.1 == .PollingIdle || e.1 == .RecoveryIdle || e.1 == .HotResetExit) && e.2.idleHandshakeComplete

/-- Since the last reset: receiver detection found a partner; polling LFPS was received (or TS1
when loosened); the TSEQ burst was sent; a TS1 burst was sent; TS1/TS2 were received; the TS2 burst
was sent (which the code only accepts once TS2 has been received, see `ts2RxChain`); the closing
TS2 burst was sent. -/
def trainingChain (c : Config) : List (Ev → Bool) :=
  [evPartner, evLfpsRx c, evTseq, evTs1Tx, evTsRx, evTs2TxP, evTs2More]
/-- Since the last reset: … TS2 was received during Polling.Active/Configuration before the TS2
burst that ended Polling.Configuration. -/
def ts2RxChain : List (Ev → Bool) := [evPartner, evTseq, evTs2RxP, evTs2TxP]
/-- Since the last reset: … the PHY reported at least 16 polling LFPS bursts sent, in Polling.LFPS. -/
def lfpsTxChain : List (Ev → Bool) := [evPartner, evLfpsTx, evTseq]
/-- Since the last entry to Polling / Recovery / Hot Reset: TS2 received, then a TS2 burst sent,
then the idle handshake completed. -/
def entryChain : List (Ev → Bool) := [evTs2Rx, evTs2Tx, evIdle]

/-! ### Ranks: how far along each chain the registers say we are -/

def rankTraining (s : State) : Nat :=
  match s.st with
  | .PollingLFPS => if s.lfpsBurstSeen then 2 else 1
  | .PollingRxEQ => 2
  | .PollingActive => if s.burstMinimumMet then 4 else 3
  | .PollingConfiguration => 5
  | .PollingConfigurationExit => 6
  | .PollingIdle | .U0 | .HotResetActive | .HotResetExit
  | .RecoveryActive | .RecoveryConfiguration | .RecoveryConfigurationExit | .RecoveryIdle => 7
  | _ => 0

def rankTs2Rx (s : State) : Nat :=
  match s.st with
  | .PollingLFPS | .PollingRxEQ => 1
  | .PollingActive | .PollingConfiguration => if s.ts2Seen then 3 else 2
  | .PollingConfigurationExit
  | .PollingIdle | .U0 | .HotResetActive | .HotResetExit
  | .RecoveryActive | .RecoveryConfiguration | .RecoveryConfigurationExit | .RecoveryIdle => 4
  | _ => 0

def rankLfpsTx (s : State) : Nat :=
  match s.st with
  | .PollingLFPS => if s.targetLfpsCount ≥ 16 then 1 else 2
  | .PollingRxEQ => 2
  | .PollingActive | .PollingConfiguration | .PollingConfigurationExit
  | .PollingIdle | .U0 | .HotResetActive | .HotResetExit
  | .RecoveryActive | .RecoveryConfiguration | .RecoveryConfigurationExit | .RecoveryIdle => 3
  | _ => 0

def rankEntry (s : State) : Nat :=
  match s.st with
  | .PollingActive | .PollingConfiguration | .RecoveryActive | .RecoveryConfiguration
  | .HotResetActive => if s.ts2Seen then 1 else 0
  | .PollingConfigurationExit | .RecoveryConfigurationExit
  | .PollingIdle | .RecoveryIdle | .HotResetExit => 2
  | .U0 => 3
  | _ => 0

/-! ### One-step lemmas: each rank grows by at most one, and only on the matching event -/

theorem adv_training (c : Config) (s : State) (i : In) (h : i.inUsbReset = false) :
    rankTraining (next c s i) ≤ rankTraining s ∨
    (rankTraining (next c s i) = rankTraining s + 1 ∧ evAt (trainingChain c) (rankTraining s) (s.st, i) = true) := by
  cases hst : s.st <;> simp only [rankTraining, hst] <;> ltssm_norm [hst, h] <;> (try split_ifs) <;>
    simp_all [evAt, trainingChain, evPartner, evLfpsRx, evTseq, evTs1Tx, evTsRx, evTs2TxP, evTs2More]

theorem adv_ts2rx (c : Config) (s : State) (i : In) (h : i.inUsbReset = false) :
    rankTs2Rx (next c s i) ≤ rankTs2Rx s ∨
    (rankTs2Rx (next c s i) = rankTs2Rx s + 1 ∧ evAt ts2RxChain (rankTs2Rx s) (s.st, i) = true) := by
  cases hst : s.st <;> simp only [rankTs2Rx, hst] <;> ltssm_norm [hst, h] <;> (try split_ifs) <;>
    simp_all [evAt, ts2RxChain, evPartner, evTseq, evTs2RxP, evTs2TxP]

theorem adv_lfpstx (c : Config) (s : State) (i : In) (h : i.inUsbReset = false) :
    rankLfpsTx (next c s i) ≤ rankLfpsTx s ∨
    (rankLfpsTx (next c s i) = rankLfpsTx s + 1 ∧ evAt lfpsTxChain (rankLfpsTx s) (s.st, i) = true) := by
  cases hst : s.st <;> simp only [rankLfpsTx, hst] <;> ltssm_norm [hst, h] <;> (try split_ifs) <;>
    simp_all [evAt, lfpsTxChain, evPartner, evTseq, evLfpsTx] <;> omega

theorem adv_entry (c : Config) (s : State) (i : In) (h : isEntry s.st (next c s i).st = false) :
    rankEntry (next c s i) ≤ rankEntry s ∨
    (rankEntry (next c s i) = rankEntry s + 1 ∧ evAt entryChain (rankEntry s) (s.st, i) = true) := by
  revert h
  cases hst : s.st <;> simp only [rankEntry, hst, isEntry] <;> ltssm_norm [hst] <;> (try split_ifs) <;>
    simp_all [evAt, entryChain, evTs2Rx, evTs2Tx, evIdle]

theorem entry_rank0 (c : Config) (s : State) (i : In) (h : isEntry s.st (next c s i).st = true) :
    rankEntry (next c s i) = 0 := by
  revert h
  cases hst : s.st <;> simp only [rankEntry, isEntry] <;> ltssm_norm [hst] <;> (try split_ifs) <;>
    simp_all

/-! ### The invariant and the theorems -/

def TrainInv (c : Config) (g : Ghost) : Prop :=
  HasSubseq ((trainingChain c).take (rankTraining g.s)) g.sinceReset ∧
  HasSubseq (ts2RxChain.take (rankTs2Rx g.s)) g.sinceReset ∧
  HasSubseq (lfpsTxChain.take (rankLfpsTx g.s)) g.sinceReset ∧
  HasSubseq (entryChain.take (rankEntry g.s)) g.sinceEntry

theorem trainInv_init (c : Config) : TrainInv c ginit := by
  simp [TrainInv, ginit, init, rankTraining, rankTs2Rx, rankLfpsTx, rankEntry, HasSubseq]

theorem trainInv_step (c : Config) (g : Ghost) (i : In) (h : TrainInv c g) : TrainInv c (gstep c g i) := by
  obtain ⟨h1, h2, h3, h4⟩ := h
  simp only [TrainInv, gstep]
  refine ⟨?_, ?_, ?_, ?_⟩
  · cases hr : i.inUsbReset
    · simpa [hr] using rank_step _ _ (g.s.st, i) _ _ h1 (adv_training c g.s i hr)
    · have := reset_forces_rx_detect_reset c g.s i hr
      simp [rankTraining, this, HasSubseq.nil]
  · cases hr : i.inUsbReset
    · simpa [hr] using rank_step _ _ (g.s.st, i) _ _ h2 (adv_ts2rx c g.s i hr)
    · have := reset_forces_rx_detect_reset c g.s i hr
      simp [rankTs2Rx, this, HasSubseq.nil]
  · cases hr : i.inUsbReset
    · simpa [hr] using rank_step _ _ (g.s.st, i) _ _ h3 (adv_lfpstx c g.s i hr)
    · have := reset_forces_rx_detect_reset c g.s i hr
      simp [rankLfpsTx, this, HasSubseq.nil]
  · cases he : isEntry g.s.st (next c g.s i).st
    · simpa [he] using rank_step _ _ (g.s.st, i) _ _ h4 (adv_entry c g.s i he)
    · simp [entry_rank0 c g.s i he, HasSubseq.nil]

theorem trainInv_run (c : Config) (hist : List In) : TrainInv c (grun c ginit hist) :=
  grun_inv c (TrainInv c) (trainInv_step c) ginit hist (trainInv_init c)

/-- **Link-ready only after training (1).**  For every input history: if the FSM is in U0 (i.e.
`link_ready` is high), then the cycles since the last reset contain, in this order: a partner
detected in Rx.Detect.Active; polling LFPS received (or TS1 when loosened) in Polling.LFPS; the
TSEQ burst completed in Polling.RxEQ; a TS1 burst completed in Polling.Active; TS1/TS2 (or inverted
TS1) received in Polling.Active; the TS2 burst completed in Polling.Configuration; the closing TS2
burst completed in Polling.Configuration.Exit. -/
theorem link_ready_only_after_training (c : Config) (hist : List In)
    (h : (grun c ginit hist).s.st = .U0) :
    HasSubseq (trainingChain c) (grun c ginit hist).sinceReset := by
  have := (trainInv_run c hist).1
  simpa [rankTraining, h, trainingChain] using this

/-- **(2)** … and a partner detected, the TSEQ burst, TS2 *received* in Polling.Active or
Polling.Configuration, then the TS2 burst completed in Polling.Configuration (the TS2 exchange). -/
theorem link_ready_only_after_ts2_rx (c : Config) (hist : List In)
    (h : (grun c ginit hist).s.st = .U0) :
    HasSubseq ts2RxChain (grun c ginit hist).sinceReset := by
  have := (trainInv_run c hist).2.1
  simpa [rankTs2Rx, h, ts2RxChain] using this

/-- **(3)** … and, between the partner detection and the TSEQ burst, a cycle in Polling.LFPS in which
the PHY reported at least 16 polling LFPS bursts sent. -/
theorem link_ready_only_after_lfps_sent (c : Config) (hist : List In)
    (h : (grun c ginit hist).s.st = .U0) :
    HasSubseq lfpsTxChain (grun c ginit hist).sinceReset := by
  have := (trainInv_run c hist).2.2.1
  simpa [rankLfpsTx, h, lfpsTxChain] using this

/-- **(4)** Since the last entry to Polling (Polling.LFPS), Recovery (Recovery.Active) or Hot Reset
(Hot Reset.Active): TS2 received, then a TS2 burst completed, then the idle handshake completed. -/
theorem link_ready_only_after_handshake_since_entry (c : Config) (hist : List In)
    (h : (grun c ginit hist).s.st = .U0) :
    HasSubseq entryChain (grun c ginit hist).sinceEntry := by
  have := (trainInv_run c hist).2.2.2
  simpa [rankEntry, h, entryChain] using this

/-- The ghost run is the model's run (so "U0" above is `link_ready` of the model after `hist`). -/
theorem grun_is_model_run (c : Config) (hist : List In) (j : In) :
    (out c (grun c ginit hist).s j).linkReady = (out c (runFrom c init hist) j).linkReady := by
  rw [grun_s]; rfl

/-! ## Scrambling -/

/-- The FSM enters one of the states whose entry tasks sample `disable_scrambling` and clear the
"partner asked for no scrambling" latch. -/
def isScrEntry (a b : St) : Bool :=
  a != b && (b == .PollingRxEQ || b == .PollingActive || b == .RecoveryActive)

structure ScrGhost where
  s : State
  ourReq : Bool         -- `disable_scrambling` in the cycle of the last such entry
  partnerReq : Bool     -- `no_scrambling_requested` seen in some cycle since then

def scrStep (c : Config) (g : ScrGhost) (i : In) : ScrGhost :=
  let s' := next c g.s i
  if isScrEntry g.s.st s'.st then ⟨s', i.disableScrambling, false⟩
  else ⟨s', g.ourReq, g.partnerReq || i.noScramblingRequested⟩

def scrRun (c : Config) : ScrGhost → List In → ScrGhost
  | g, [] => g
  | g, i :: is => scrRun c (scrStep c g i) is

/-- the states between the first such entry and the next return to Rx.Detect / an inactive state -/
def inTraining : St → Bool
  | .PollingRxEQ | .PollingActive | .PollingConfiguration | .PollingConfigurationExit | .PollingIdle
  | .U0 | .HotResetActive | .HotResetExit
  | .RecoveryActive | .RecoveryConfiguration | .RecoveryConfigurationExit | .RecoveryIdle => true
  | _ => false

theorem scr_fields (c : Config) (s : State) (i : In) (h : inTraining (next c s i).st = true) :
    if isScrEntry s.st (next c s i).st then
      (next c s i).requestNoScrambling = i.disableScrambling ∧ (next c s i).disableScramblingSeen = false
    else
      inTraining s.st = true ∧ (next c s i).requestNoScrambling = s.requestNoScrambling ∧
      (next c s i).disableScramblingSeen = (s.disableScramblingSeen || i.noScramblingRequested) := by
  revert h
  cases hst : s.st <;> simp only [isScrEntry, inTraining] <;> ltssm_norm [hst] <;> (try split_ifs) <;>
    simp_all

def ScrInv (g : ScrGhost) : Prop :=
  inTraining g.s.st = true →
    g.s.requestNoScrambling = g.ourReq ∧ g.s.disableScramblingSeen = g.partnerReq

theorem scrInv_step (c : Config) (g : ScrGhost) (i : In) (h : ScrInv g) : ScrInv (scrStep c g i) := by
  intro ht
  have hf := scr_fields c g.s i
  unfold scrStep at ht ⊢
  cases he : isScrEntry g.s.st (next c g.s i).st
  · simp only [he] at ht hf ⊢
    obtain ⟨hin, h1, h2⟩ := hf (by simpa using ht)
    obtain ⟨h3, h4⟩ := h hin
    simp [h1, h2, h3, h4]
  · simp only [he] at ht hf ⊢
    obtain ⟨h1, h2⟩ := hf (by simpa using ht)
    simp [h1, h2]

theorem scrInv_run (c : Config) (g : ScrGhost) (hist : List In) (h : ScrInv g) : ScrInv (scrRun c g hist) := by
  induction hist generalizing g with
  | nil => exact h
  | cons i is ih => exact ih _ (scrInv_step c g i h)

/-- **Scrambling.**  For every input history: in U0 `enable_scrambling` is high exactly when neither
side asked otherwise — our side through `disable_scrambling` (sampled when Polling.RxEQ,
Polling.Active or Recovery.Active was last entered), the partner through a training set with the
"disable scrambling" bit (`no_scrambling_requested`) in some cycle since that entry. -/
theorem scrambling_in_u0 (c : Config) (hist : List In) (j : In)
    (h : (scrRun c ⟨init, false, false⟩ hist).s.st = .U0) :
    (out c (scrRun c ⟨init, false, false⟩ hist).s j).enableScrambling =
      (!(scrRun c ⟨init, false, false⟩ hist).ourReq && !(scrRun c ⟨init, false, false⟩ hist).partnerReq) := by
  have hinv := scrInv_run c ⟨init, false, false⟩ hist (by intro h; simp [init, inTraining] at h)
  obtain ⟨h1, h2⟩ := hinv (by simp [h, inTraining])
  simp [out, h, scramblingWanted, h1, h2]

/-! ## Non-vacuity: a concrete run from power-on to U0 (2 kHz counts) and back out by a reset -/

def exIn : In :=
  { inUsbReset := false, triggerLinkRecovery := false, phyReady := true, disableScrambling := false,
    linkPartnerDetected := false, noLinkPartnerDetected := false, lfpsPollingDetected := false,
    lfpsCyclesSent := 0, ts1Detected := false, invertedTs1Detected := false, ts2Detected := false,
    hotResetRequested := false, loopbackRequested := false, noScramblingRequested := false,
    tsBurstComplete := false, idleHandshakeComplete := false, enableComplianceScrambling := false }

def exCfg : Config := ⟨24, 4, 720, 1024, true, false⟩

/-- power-on → Rx.Detect.Active → Polling.LFPS → RxEQ → Active → Configuration → Exit → Idle → U0 -/
def exTrain : List In :=
  [exIn, { exIn with linkPartnerDetected := true },
   { exIn with lfpsPollingDetected := true, lfpsCyclesSent := 16 }, { exIn with lfpsCyclesSent := 20 },
   { exIn with tsBurstComplete := true }, { exIn with tsBurstComplete := true },
   { exIn with ts1Detected := true }, { exIn with ts2Detected := true },
   { exIn with tsBurstComplete := true }, { exIn with tsBurstComplete := true },
   { exIn with idleHandshakeComplete := true }]

example : (grun exCfg ginit exTrain).s.st = .U0 := by decide
example : (grun exCfg ginit exTrain).sinceReset.length = 11 := by decide
example : (grun exCfg ginit (exTrain ++ [{ exIn with inUsbReset := true }])).s.st = .RxDetectReset := by decide
example : (ageRun exCfg (init, 0) (exTrain.take 10 ++ List.replicate 4 exIn)).1.st = .PollingIdle ∧
          (ageRun exCfg (init, 0) (exTrain.take 10 ++ List.replicate 4 exIn)).2 = 4 ∧
          (ageRun exCfg (init, 0) (exTrain.take 10 ++ List.replicate 5 exIn)).1.st = .RxDetectReset := by decide
example : (out exCfg (scrRun exCfg ⟨init, false, false⟩ exTrain).s exIn).enableScrambling = true := by decide

example : Config.Valid ⟨24, 4, 720, 1024, true, false⟩ := by simp [Config.Valid]

end LunaVerif.Ltssm
