import LunaVerif.Lemmas.Ltssm
/-!
# C41 — The LTSSM reaches U0 only through training and honours resets and timeouts
-/
namespace LunaVerif.Ltssm

/-- While `in_usb_reset` is asserted the next state is Rx.Detect.Reset, from every state. -/
theorem reset_forces_rx_detect_reset (c : Config) (s : State) (i : In) (h : i.inUsbReset = true) :
    (next c s i).st = .RxDetectReset := by
  cases hst : s.st <;> ltssm_norm [hst, h] <;> simp [h]

end LunaVerif.Ltssm
