import LunaVerif.Lemmas.DeviceSteps
/-!
# C10 — Unsupported or unclaimed control requests are STALLed, never answered

"A standard request the device does not implement, a CLEAR_FEATURE other than ENDPOINT_HALT on an endpoint,
and any non-standard request that no handler claims, is never answered with data, an ACK or a state change,
and is STALLed at its first data-stage IN token or at its status stage."

Theorems about the event-level model `Device.step` (Model/Device/Control.lean; tied to the real `USBDevice`
event by event on every run).  The quantification over all 2^64 SETUP packets is by case analysis on
`(type, request, recipient, value)` inside the proofs (`su` is a variable everywhere), not by enumeration;
the histories after the SETUP are arbitrary (no legality assumption is needed), of any length.
-/
namespace LunaVerif.Device

def implementedStandardRequest (r : Nat) : Bool :=
  r == REQ_GET_STATUS || r == REQ_CLEAR_FEATURE || r == REQ_SET_ADDRESS || r == REQ_SET_CONFIGURATION ||
  r == REQ_GET_DESCRIPTOR || r == REQ_GET_CONFIGURATION

/-- The requests C10 talks about. -/
def Unsupported (c : DevConfig) (su : Setup) : Prop :=
  (su.type = TYPE_STANDARD ∧ implementedStandardRequest su.request = false) ∨
  (su.type = TYPE_STANDARD ∧ su.request = REQ_CLEAR_FEATURE ∧ clearFeatureStalls su = true) ∨
  (su.type ≠ TYPE_STANDARD ∧ extraClaims c su = 0)

/-- "The device is handling the unsupported request `su`": it is the latched SETUP packet, no new SETUP
token is pending, and the standard handler (for a standard `su`) is in the state the request put it in, or
back in IDLE after it stalled. -/
structure Handling (su : Setup) (s : DevState) : Prop where
  latched : s.setup = su
  noWait  : s.sdWait = false
  handler : su.type = TYPE_STANDARD →
    (s.hstate = .idle ∨ (implementedStandardRequest su.request = false ∧ s.hstate = .unhandled) ∨
      (su.request = REQ_CLEAR_FEATURE ∧ s.hstate = .clearFeature))

/-- A SETUP or PING token (full-speed hosts send no PING; the control endpoint ACKs PING tokens in its OUT
stages by itself, whatever the request). -/
def isSetupOrPing : HostEvent → Bool
  | .token pid _ _ => pid == PID_SETUP || pid == PID_PING
  | _ => false

theorem dispatch_unimplemented (r : Nat) (h : implementedStandardRequest r = false) : dispatch r = .unhandled := by
  unfold implementedStandardRequest at h
  simp only [Bool.or_eq_false_iff, beq_eq_false_iff_ne] at h
  unfold dispatch
  simp [h.1.1.1.1.1, h.1.1.1.1.2, h.1.1.1.2, h.1.1.2, h.1.2, h.2]

/-- Accepting the SETUP packet of an unsupported request (from ANY state) establishes `Handling`. -/
theorem unsupported_setup_establishes_handling (c : DevConfig) (s : DevState) (bytes : List Nat) (f₁ f₂ : Resp)
    (hlen : bytes.length = 8) (_hu : Unsupported c (parseSetup bytes)) :
    Handling (parseSetup bytes)
      (final c s [⟨.token PID_SETUP s.address 0, f₁⟩, ⟨.data PID_DATA0 bytes true, f₂⟩]) := by
  simp only [final, step, core, if_true, onToken, afterToken, tokenStage, onData, onSetupData, hlen]
  by_cases hty : (parseSetup bytes).type = TYPE_STANDARD
  · constructor <;> simp [hty]
    by_cases hi : implementedStandardRequest (parseSetup bytes).request = false
    · exact Or.inr (Or.inl ⟨hi, dispatch_unimplemented _ hi⟩)
    · by_cases hc : (parseSetup bytes).request = REQ_CLEAR_FEATURE
      · right; right; exact ⟨hc, by rw [hc]; rfl⟩
      · -- an implemented request other than CLEAR_FEATURE is not `Unsupported`
        rcases _hu with h | h | h
        · exact absurd h.2 hi
        · exact absurd h.2.1 hc
        · exact absurd hty h.1
  · constructor <;> simp [hty]

/-- Under `Handling`, a request-handler request is answered with STALL or not at all, and keeps `Handling`. -/
theorem handling_request (c : DevConfig) (su : Setup) (s : DevState) (r : Req)
    (hu : Unsupported c su) (hh : Handling su s) :
    ((request c s r).2 = .none ∨ (request c s r).2 = .hs PID_STALL) ∧ Handling su (request c s r).1 := by
  obtain ⟨hl, hw, hhs⟩ := hh
  have hctl := sameCtl_request c s r
  unfold request at *
  by_cases hty : su.type = TYPE_STANDARD
  · have hty' : s.setup.type = TYPE_STANDARD := by rw [hl]; exact hty
    simp only [hty', if_true] at hctl ⊢
    have key : ((stdRequest c s r).2 = .none ∨ (stdRequest c s r).2 = .hs PID_STALL) ∧
        ((stdRequest c s r).1.hstate = .idle ∨
          (implementedStandardRequest su.request = false ∧ (stdRequest c s r).1.hstate = .unhandled) ∨
          (su.request = REQ_CLEAR_FEATURE ∧ (stdRequest c s r).1.hstate = .clearFeature)) := by
      rcases hhs hty with h | ⟨hi, h⟩ | ⟨hc, h⟩
      · unfold stdRequest; simp [h]
      · unfold stdRequest; simp [h, toIdle]
      · have hst : clearFeatureStalls s.setup = true := by
          rcases hu with g | g | g
          · rw [hc] at g; exact absurd g.2 (by decide)
          · rw [hl]; exact g.2.2
          · exact absurd hty g.1
        unfold stdRequest
        cases r <;> simp [h, hst, hc]
    have hsame := sameCtl_stdRequest c s r
    cases ho : owner c s.setup <;> simp only [ho]
    · exact ⟨key.1, ⟨by rw [hsame.setup]; exact hl, by rw [hsame.sdWait]; exact hw, fun _ => key.2⟩⟩
    · unfold owner at ho
      simp [hty'] at ho
      split at ho <;> simp at ho
    · exact ⟨by simp, ⟨by rw [hsame.setup]; exact hl, by rw [hsame.sdWait]; exact hw, fun _ => key.2⟩⟩
  · have hty' : ¬ s.setup.type = TYPE_STANDARD := by rw [hl]; exact hty
    have hown : owner c s.setup = .fallback := by
      rcases hu with g | g | g
      · exact absurd g.1 hty
      · exact absurd g.1 hty
      · unfold owner
        have h0 : extraClaims c s.setup = 0 := by rw [hl]; exact g.2
        have h1 : (s.setup.type == TYPE_STANDARD) = false := by simpa using hty'
        simp [h0, h1]
    simp only [hty', if_false, hown]
    exact ⟨by simp, ⟨hl, hw, fun h => absurd h hty⟩⟩

/-- One event under `Handling` (not a SETUP / PING token): the control endpoint answers with nothing or
STALL — never DATA, never ACK —, the registers change only by a bus reset, and `Handling` persists. -/
theorem handling_step (c : DevConfig) (su : Setup) (s : DevState) (x : Stim)
    (hu : Unsupported c su) (hh : Handling su s) (hx : isSetupOrPing x.ev = false) :
    ((core c s x.ev).2 = .none ∨ (core c s x.ev).2 = .hs PID_STALL) ∧
    (x.ev ≠ .busReset → (step c s x).1.address = s.address ∧ (step c s x).1.config = s.config) ∧
    Handling su (step c s x).1 := by
  have lift : ∀ s', Handling su s' → s'.setup = (core c s x.ev).1.setup → s'.sdWait = (core c s x.ev).1.sdWait →
      s'.hstate = (core c s x.ev).1.hstate → Handling su (step c s x).1 := by
    intro s' h h1 h2 h3
    exact ⟨by rw [step_setup, ← h1]; exact h.latched, by rw [step_sdWait, ← h2]; exact h.noWait,
      fun g => by rw [step_hstate, ← h3]; exact h.handler g⟩
  cases hev : x.ev with
  | token pid addr ep =>
    rw [hev] at hx
    have hps : pid ≠ PID_SETUP ∧ pid ≠ PID_PING := by
      simp only [isSetupOrPing, Bool.or_eq_false_iff, beq_eq_false_iff_ne] at hx; exact hx
    rw [step_address, step_config, hev]
    unfold core
    simp only []
    by_cases ha : addr = s.address
    · simp only [if_pos ha]
      have hregs := onToken_regs c s pid ep
      have h1 : Handling su (afterToken s pid ep) :=
        ⟨hh.latched, by simp [afterToken, hps.1], hh.handler⟩
      have main : ((onToken c s pid ep).2 = .none ∨ (onToken c s pid ep).2 = .hs PID_STALL) ∧
          Handling su (onToken c s pid ep).1 := by
        unfold onToken
        simp only []
        split
        · rename_i hep
          subst hep
          cases hst : (afterToken s pid 0).stage <;> dsimp only <;> (try split) <;>
            first
              | exact ⟨Or.inl rfl, h1⟩
              | exact handling_request c su _ _ hu h1
              | (rename_i hp; exact absurd hp hps.2)
        · exact ⟨Or.inl rfl, h1⟩
      refine ⟨main.1, fun _ => hregs, ?_⟩
      apply lift _ main.2 <;> rw [hev] <;> unfold core <;> simp only [if_pos ha]
    · simp only [if_neg ha]
      refine ⟨by simp, fun _ => by simp, ?_⟩
      apply lift { s with tokPid := 0 } ⟨hh.latched, hh.noWait, hh.handler⟩ <;> rw [hev] <;> unfold core <;>
        simp only [if_neg ha]
  | data pid p ok =>
    rw [step_address, step_config, hev]
    have hregs := onData_regs c s p ok
    have main : ((onData c s p ok).2 = .none ∨ (onData c s p ok).2 = .hs PID_STALL) ∧
        Handling su (onData c s p ok).1 := by
      unfold onData
      simp only [hh.noWait, Bool.false_eq_true, if_false]
      split
      · exact ⟨Or.inl rfl, hh⟩
      · split
        · exact handling_request c su s _ hu hh
        · exact ⟨Or.inl rfl, hh⟩
    refine ⟨main.1, fun _ => hregs, ?_⟩
    apply lift _ main.2 <;> rw [hev] <;> rfl
  | handshake pid =>
    rw [step_address, step_config, hev]
    have hhand : Handling su (onHandshake s pid) ∧ (onHandshake s pid).address = s.address ∧
        (onHandshake s pid).config = s.config := by
      by_cases g : AckReachesHandler s pid
      · have hty : su.type = TYPE_STANDARD := by rw [← hh.latched]; exact g.2.2.2
        have hr := onHandshake_reach s pid g
        rw [hr.1, hr.2, stdAck_address, stdAck_config]
        have hnot : s.hstate ≠ .setAddress ∧ s.hstate ≠ .setConfiguration := by
          rcases hh.handler hty with h | ⟨_, h⟩ | ⟨_, h⟩ <;> rw [h] <;> simp
        simp only [hnot.1, hnot.2, if_false, and_self, and_true]
        obtain ⟨_, _, hw, hsu, _, hhs⟩ := sameCtl_stdAck_but_regs s
        have base : Handling su (stdAck s) := by
          refine ⟨by rw [hsu]; exact hh.latched, by rw [hw]; exact hh.noWait, fun g' => ?_⟩
          rcases hhs with hhs | hhs
          · rw [hhs]; exact hh.handler g'
          · exact Or.inl hhs
        unfold AckReachesHandler at g
        unfold onHandshake
        rw [if_pos g]
        simp only []
        split
        · exact ⟨base.latched, base.noWait, base.handler⟩
        · exact base
      · rw [onHandshake_noreach s pid g]; exact ⟨hh, rfl, rfl⟩
    refine ⟨Or.inl rfl, fun _ => ⟨hhand.2.1, hhand.2.2⟩, ?_⟩
    apply lift _ hhand.1 <;> rw [hev] <;> rfl
  | busReset =>
    refine ⟨Or.inl rfl, fun h => absurd rfl h, ?_⟩
    apply lift { s with address := 0, config := 0 } ⟨hh.latched, hh.noWait, hh.handler⟩ <;> rw [hev] <;> rfl
  | sof f => exact ⟨Or.inl rfl, fun _ => by rw [step_address, step_config, hev]; exact ⟨rfl, rfl⟩,
      by apply lift s hh <;> rw [hev] <;> rfl⟩
  | malformed b => exact ⟨Or.inl rfl, fun _ => by rw [step_address, step_config, hev]; exact ⟨rfl, rfl⟩,
      by apply lift s hh <;> rw [hev] <;> rfl⟩
  | quiet => exact ⟨Or.inl rfl, fun _ => by rw [step_address, step_config, hev]; exact ⟨rfl, rfl⟩,
      by apply lift s hh <;> rw [hev] <;> rfl⟩
  | produce e b l => exact ⟨Or.inl rfl, fun _ => by rw [step_address, step_config, hev]; exact ⟨rfl, rfl⟩,
      by apply lift s hh <;> rw [hev] <;> rfl⟩
  | consume e n => exact ⟨Or.inl rfl, fun _ => by rw [step_address, step_config, hev]; exact ⟨rfl, rfl⟩,
      by apply lift s hh <;> rw [hev] <;> rfl⟩
  | setSignal e v => exact ⟨Or.inl rfl, fun _ => by rw [step_address, step_config, hev]; exact ⟨rfl, rfl⟩,
      by apply lift s hh <;> rw [hev] <;> rfl⟩

/-- **C10.** For EVERY SETUP packet `su` outside the supported set, from the moment it has been accepted
and for an arbitrarily long continuation `k` of host events that contains no new SETUP token (and no PING):
at every event `x` of `k` the control endpoint transmits nothing or a STALL handshake — never a DATA packet,
never an ACK —, and neither the address nor the configuration changes except by a bus reset. -/
theorem unsupported_never_answered (c : DevConfig) (su : Setup) (s : DevState) (k : List Stim)
    (hu : Unsupported c su) (hh : Handling su s) (hk : ∀ x ∈ k, isSetupOrPing x.ev = false) :
    ∀ k₁ x k₂, k = k₁ ++ x :: k₂ →
      ((core c (final c s k₁) x.ev).2 = .none ∨ (core c (final c s k₁) x.ev).2 = .hs PID_STALL) ∧
      (x.ev ≠ .busReset → (final c s (k₁ ++ [x])).address = (final c s k₁).address ∧
                           (final c s (k₁ ++ [x])).config = (final c s k₁).config) := by
  intro k₁ x k₂ hk'
  have hpre : ∀ (k₁ : List Stim) (s : DevState), Handling su s → (∀ y ∈ k₁, isSetupOrPing y.ev = false) →
      Handling su (final c s k₁) := by
    intro k₁
    induction k₁ with
    | nil => intro s h _; exact h
    | cons y ys ih =>
      intro s h hall
      exact ih _ (handling_step c su s y hu h (hall y (by simp))).2.2 (fun z hz => hall z (by simp [hz]))
  subst hk'
  have h1 := hpre k₁ s hh (fun y hy => hk y (by simp [hy]))
  have hs := handling_step c su (final c s k₁) x hu h1 (hk x (by simp))
  rw [final_snoc]
  exact ⟨hs.1, hs.2.1⟩

/-- **C10 (the STALL).** While the request is still pending (its handler has not stalled yet), the status
stage is answered with STALL, and so is a data-stage IN token — except for a CLEAR_FEATURE with a
device-to-host data stage, whose data-stage IN tokens get no answer and whose status stage is STALLed. -/
theorem unsupported_first_request_stalled (c : DevConfig) (su : Setup) (s : DevState)
    (hu : Unsupported c su) (hh : Handling su s) (fresh : su.type = TYPE_STANDARD → s.hstate ≠ .idle) :
    (request c s .status).2 = .hs PID_STALL ∧
    ((request c s .data).2 = .hs PID_STALL ∨
      ((request c s .data).2 = .none ∧ su.type = TYPE_STANDARD ∧ su.request = REQ_CLEAR_FEATURE)) := by
  obtain ⟨hl, _, hhs⟩ := hh
  unfold request
  by_cases hty : su.type = TYPE_STANDARD
  · have hty' : s.setup.type = TYPE_STANDARD := by rw [hl]; exact hty
    simp only [hty', if_true]
    have hown : owner c s.setup = .std ∨ owner c s.setup = .fallback := by
      unfold owner; simp [hty']; exact Decidable.em _
    rcases hhs hty with h | ⟨_, h⟩ | ⟨hc, h⟩
    · exact absurd h (fresh hty)
    · rcases hown with ho | ho <;> simp [ho, stdRequest, h]
    · have hst : clearFeatureStalls s.setup = true := by
        rcases hu with g | g | g
        · rw [hc] at g; exact absurd g.2 (by decide)
        · rw [hl]; exact g.2.2
        · exact absurd hty g.1
      rcases hown with ho | ho <;> simp [ho, stdRequest, h, hst, hty, hc]
  · have hty' : ¬ s.setup.type = TYPE_STANDARD := by rw [hl]; exact hty
    have hown : owner c s.setup = .fallback := by
      rcases hu with g | g | g
      · exact absurd g.1 hty
      · exact absurd g.1 hty
      · unfold owner
        have h0 : extraClaims c s.setup = 0 := by rw [hl]; exact g.2
        have h1 : (s.setup.type == TYPE_STANDARD) = false := by simpa using hty'
        simp [h0, h1]
    simp [hty', hown]

/-! ### Non-vacuity -/

/-- The repository test's "nonsense request" (0x80, 30) and a vendor request, both unsupported. -/
example : Unsupported {} (parseSetup [0x80, 30, 0, 0, 0, 0, 10, 0]) := Or.inl (by decide)
example : Unsupported {} (parseSetup [0xC0, 3, 0, 0, 0, 0, 4, 0]) := Or.inr (Or.inr (by decide))
/-- CLEAR_FEATURE(DEVICE_REMOTE_WAKEUP) to the device: unsupported; CLEAR_FEATURE(ENDPOINT_HALT) to an
endpoint: supported. -/
example : Unsupported {} (parseSetup [0x00, 1, 1, 0, 0, 0, 0, 0]) := Or.inr (Or.inl (by decide))
example : ¬ Unsupported {} (parseSetup [0x02, 1, 0, 0, 0x81, 0, 0, 0]) := by
  intro h; rcases h with h | h | h
  · exact absurd h.2 (by decide)
  · exact absurd h.2.2 (by decide)
  · exact absurd h.1 (by decide)

def unsupportedHistory : List Stim :=
  [⟨.token PID_SETUP 0 0, .none⟩, ⟨.data PID_DATA0 [0x80, 30, 0, 0, 0, 0, 10, 0] true, .none⟩,
   ⟨.token PID_IN 0 0, .none⟩, ⟨.token PID_IN 0 0, .none⟩,
   ⟨.token PID_SETUP 0 0, .none⟩, ⟨.data PID_DATA0 [0xC0, 3, 0, 0, 0, 0, 4, 0] true, .none⟩,
   ⟨.token PID_IN 0 0, .none⟩, ⟨.token PID_OUT 0 0, .none⟩, ⟨.data PID_DATA1 [] true, .none⟩]

example : LegalHost {} unsupportedHistory = true := by decide
example : (run {} init unsupportedHistory).map (·.2) =
    [.none, .hs PID_ACK, .hs PID_STALL, .none, .none, .hs PID_ACK, .hs PID_STALL, .none, .hs PID_STALL] := by decide

end LunaVerif.Device
