import LunaVerif.Model.Periph.Uart
/-!
# C49 — UART transmitters produce exact 8N1 frames

"For any divisor and any byte stream, the output line idles high and carries, for each accepted byte
in order, a start bit (0), the eight data bits LSB first and a stop bit (1), each held for exactly
'divisor' clock cycles; a byte is accepted only when it will be framed next, and the multi-byte
variant sends each word's bytes little-endian."

The specification is a *line schedule*: the list `rem` of line levels still owed to the wire, one
entry per clock cycle.  The line is high when nothing is owed; a byte can be accepted when at most
one cycle is still owed (idle, or the last cycle of a stop bit), and accepting byte `p` replaces the
schedule by `expand d (frame p)`: start, 8 data bits LSB first, stop, each repeated `d` times.
The theorems hold for every divisor `d ≥ 1`, every payload and every valid pattern.
-/
namespace LunaVerif.Uart

/-! ## Specification -/

/-- `k` bits of `v`, least significant first. -/
def lsbBits : Nat → Nat → List Bool
  | 0, _ => []
  | k + 1, v => (v % 2 == 1) :: lsbBits k (v / 2)

/-- An 8N1 frame: start bit 0, data LSB first, stop bit 1. -/
def frame (p : Nat) : List Bool := false :: (lsbBits 8 p ++ [true])

/-- Every bit held for `d` clock cycles. -/
def expand (d : Nat) (bits : List Bool) : List Bool := bits.flatMap (List.replicate d)

/-- Ports as a function of the schedule. -/
def lineOut : List Bool → Out
  | [] => ⟨true, true, true, false⟩                         -- line idles high, ready for a byte
  | [b] => ⟨b, true, false, true⟩                           -- last owed cycle: next byte may follow directly
  | b :: _ :: _ => ⟨b, false, false, true⟩

def lineNext (d : Nat) (rem : List Bool) (i : In) : List Bool :=
  if rem.length ≤ 1 ∧ i.valid = true then expand d (frame i.payload) else rem.tail

def lineRun (d : Nat) : List Bool → List In → List Out
  | _, [] => []
  | rem, x :: xs => lineOut rem :: lineRun d (lineNext d rem x) xs

/-- `k` bytes of `v`, least significant first. -/
def bytesLE : Nat → Nat → List Nat
  | 0, _ => []
  | k + 1, v => v % 256 :: bytesLE k (v / 256)

/-- Word transmitter: `pend` = bytes of the accepted word not yet handed to the byte transmitter
(little-endian order), `rem` = the byte transmitter's line schedule. -/
def mbSpecStep (d w : Nat) (q : List Nat × List Bool) (i : In) : (List Nat × List Bool) × MBOut :=
  let tx := (lineOut q.2).tx
  match q.1 with
  | [] =>            -- no word queued: ready for one; the byte transmitter is offered nothing
    ((if i.valid then bytesLE w i.payload else [], q.2.tail), ⟨tx, true, true⟩)
  | b :: rest =>
    if q.2.length ≤ 1 then         -- the byte transmitter takes `b` now; its frame follows
      match rest with
      | [] => ((if i.valid then bytesLE w i.payload else [], expand d (frame b)), ⟨tx, true, false⟩)
      | _ :: _ => ((rest, expand d (frame b)), ⟨tx, false, false⟩)
    else ((b :: rest, q.2.tail), ⟨tx, false, false⟩)

def mbSpecRun (d w : Nat) : List Nat × List Bool → List In → List MBOut
  | _, [] => []
  | q, x :: xs => (mbSpecStep d w q x).2 :: mbSpecRun d w (mbSpecStep d w q x).1 xs

/-! ## Abstraction and invariant -/

def abs (d : Nat) (s : State) : List Bool :=
  match s.fsm with
  | .idle => []
  | .transmit => List.replicate (s.baud + 1) (s.shift % 2 == 1) ++ expand d (lsbBits s.bits (s.shift / 2))

def Inv (d : Nat) (s : State) : Prop := s.fsm = .transmit → s.baud < d

def mbAbs (d : Nat) (s : MBState) : List Nat × List Bool :=
  (match s.fsm with
   | .idle => []
   | .transmit => bytesLE (s.bytes + 1) s.shift,
   abs d s.uart)

/-! ## Bit lemmas -/

theorem expand_nil (d : Nat) : expand d [] = [] := rfl

theorem expand_cons (d : Nat) (b : Bool) (bs : List Bool) :
    expand d (b :: bs) = List.replicate d b ++ expand d bs := by
  simp [expand]

theorem expand_length (d : Nat) (bs : List Bool) : (expand d bs).length = d * bs.length := by
  induction bs with
  | nil => simp [expand]
  | cons b bs ih => rw [expand_cons, List.length_append, ih]; simp [Nat.mul_add]; omega

theorem lsbBits_length (k v : Nat) : (lsbBits k v).length = k := by
  induction k generalizing v with
  | zero => rfl
  | succ k ih => simp [lsbBits, ih]

theorem frame_length (p : Nat) : (frame p).length = 10 := by
  simp [frame, lsbBits_length]

theorem lsbBits_top (k p : Nat) (hp : p < 2 ^ k) : lsbBits (k + 1) (2 ^ k + p) = lsbBits k p ++ [true] := by
  induction k generalizing p with
  | zero =>
    have : p = 0 := by simpa using hp
    subst this; simp [lsbBits]
  | succ k ih =>
    have h2 : 2 ^ (k + 1) = 2 * 2 ^ k := by rw [Nat.pow_succ]; omega
    have e1 : (2 ^ (k + 1) + p) % 2 = p % 2 := by omega
    have e2 : (2 ^ (k + 1) + p) / 2 = 2 ^ k + p / 2 := by omega
    rw [lsbBits, e1, e2, ih (p / 2) (by omega)]
    simp [lsbBits]

theorem lsbBits_mod (k p : Nat) : lsbBits k (p % 2 ^ k) = lsbBits k p := by
  induction k generalizing p with
  | zero => rfl
  | succ k ih =>
    have h2 : 2 ^ (k + 1) = 2 * 2 ^ k := by rw [Nat.pow_succ]; omega
    have e1 : p % 2 ^ (k + 1) % 2 = p % 2 := by
      rw [h2]; exact Nat.mod_mul_right_mod p 2 (2 ^ k)
    have e2 : p % 2 ^ (k + 1) / 2 = (p / 2) % 2 ^ k := by
      rw [h2]; exact Nat.mod_mul_right_div_self p 2 (2 ^ k)
    rw [lsbBits, lsbBits, e1, e2, ih]

/-- The register loaded on accept (`Cat(0, payload, 1)`) holds exactly the 8N1 frame. -/
theorem framed_bits (p : Nat) :
    (framed p % 2 == 1) = false ∧ lsbBits 9 (framed p / 2) = lsbBits 8 p ++ [true] := by
  have e : framed p / 2 = 2 ^ 8 + p % 2 ^ 8 := by unfold framed; omega
  refine ⟨by unfold framed; simp, ?_⟩
  rw [e, lsbBits_top 8 _ (Nat.mod_lt _ (by decide)), lsbBits_mod]

theorem abs_load (d : Nat) (hd : 1 ≤ d) (p : Nat) :
    abs d ⟨.transmit, d - 1, framed p, 9⟩ = expand d (frame p) := by
  obtain ⟨h0, h9⟩ := framed_bits p
  simp only [abs, h0, h9, frame, expand_cons]
  rw [show d - 1 + 1 = d by omega]

theorem bytesLE_mod (k p : Nat) : bytesLE k (p % 2 ^ (8 * k)) = bytesLE k p := by
  induction k generalizing p with
  | zero => rfl
  | succ k ih =>
    have h2 : 2 ^ (8 * (k + 1)) = 256 * 2 ^ (8 * k) := by
      rw [show 8 * (k + 1) = 8 * k + 8 by omega, Nat.pow_add]; omega
    have e1 : p % 2 ^ (8 * (k + 1)) % 256 = p % 256 := by
      rw [h2]; exact Nat.mod_mul_right_mod p 256 _
    have e2 : p % 2 ^ (8 * (k + 1)) / 256 = (p / 256) % 2 ^ (8 * k) := by
      rw [h2]; exact Nat.mod_mul_right_div_self p 256 _
    rw [bytesLE, bytesLE, e1, e2, ih]

/-! ## The byte transmitter refines the line schedule -/

theorem lineNext_cons_long (d : Nat) (b : Bool) (t : List Bool) (i : In) (h : 1 ≤ t.length) :
    lineNext d (b :: t) i = t := by
  simp only [lineNext, List.length_cons, List.tail_cons]; rw [if_neg (by omega)]

theorem lineOut_cons_long (b : Bool) (t : List Bool) (h : 1 ≤ t.length) :
    lineOut (b :: t) = ⟨b, false, false, true⟩ := by
  cases t with
  | nil => simp at h
  | cons c cs => rfl

theorem step_abs (d : Nat) (hd : 1 ≤ d) (s : State) (i : In) (hs : Inv d s) :
    abs d (step d s i).1 = lineNext d (abs d s) i ∧ (step d s i).2 = lineOut (abs d s) ∧
    Inv d (step d s i).1 := by
  obtain ⟨f, baud, shift, bits⟩ := s
  cases f
  · -- IDLE
    cases hv : i.valid
    · simp [step, hv, abs, lineNext, lineOut, Inv]
    · simp only [step, hv, if_true, lineNext, lineOut, abs_load d hd, Inv]
      simp [abs]; omega
  · -- TRANSMIT
    have hb : baud < d := hs rfl
    cases baud with
    | zero =>
      cases bits with
      | succ k =>
        -- next bit
        have e : abs d ⟨.transmit, 0, shift, k + 1⟩ =
            (shift % 2 == 1) :: (List.replicate d (shift / 2 % 2 == 1) ++ expand d (lsbBits k (shift / 2 / 2))) := by
          simp [abs, lsbBits, expand_cons]
        have hl : 1 ≤ (List.replicate d (shift / 2 % 2 == 1) ++ expand d (lsbBits k (shift / 2 / 2))).length := by
          simp; omega
        have hst : step d ⟨.transmit, 0, shift, k + 1⟩ i =
            (⟨.transmit, d - 1, shift / 2, k⟩, ⟨shift % 2 == 1, false, false, true⟩) := by
          simp [step]
        rw [e, lineNext_cons_long d _ _ i hl, lineOut_cons_long _ _ hl, hst]
        refine ⟨?_, rfl, ?_⟩
        · simp only [abs]; rw [show d - 1 + 1 = d by omega]
        · simp [Inv]; omega
      | zero =>
        have e : abs d ⟨.transmit, 0, shift, 0⟩ = [shift % 2 == 1] := by simp [abs, lsbBits, expand]
        rw [e]
        cases hv : i.valid
        · simp [step, hv, lineNext, lineOut, abs, Inv]
        · have hst : step d ⟨.transmit, 0, shift, 0⟩ i =
              (⟨.transmit, d - 1, framed i.payload, 9⟩, ⟨shift % 2 == 1, true, false, true⟩) := by
            simp [step, hv]
          rw [hst]
          refine ⟨?_, rfl, ?_⟩
          · simp [abs_load d hd, lineNext, hv]
          · simp [Inv]; omega
    | succ m =>
      have e : abs d ⟨.transmit, m + 1, shift, bits⟩ =
          (shift % 2 == 1) :: ((shift % 2 == 1) :: (List.replicate m (shift % 2 == 1) ++ expand d (lsbBits bits (shift / 2)))) := by
        simp [abs, List.replicate_succ]
      have hst : step d ⟨.transmit, m + 1, shift, bits⟩ i =
          (⟨.transmit, m, shift, bits⟩, ⟨shift % 2 == 1, false, false, true⟩) := by
        simp [step]
      rw [e, lineNext_cons_long d _ _ i (by simp), lineOut_cons_long _ _ (by simp), hst]
      refine ⟨?_, rfl, ?_⟩
      · simp [abs, List.replicate_succ]
      · simp [Inv]; omega

theorem inv_init (d : Nat) : Inv d init := by simp [Inv, init]

theorem run_eq_line_from (d : Nat) (hd : 1 ≤ d) (s : State) (hs : Inv d s) (hist : List In) :
    run d s hist = lineRun d (abs d s) hist := by
  induction hist generalizing s with
  | nil => rfl
  | cons x xs ih =>
    obtain ⟨ha, ho, hi⟩ := step_abs d hd s x hs
    simp only [run, lineRun]
    rw [ho, ih _ hi, ha]

/-- **line_is_8n1** (main theorem): for every divisor `d ≥ 1`, every byte stream and every valid
pattern, the ports of the transmitter — the `tx` waveform, `ready`, `idle`, `driving` — are those of
the 8N1 line schedule: idle high, and for each accepted byte start(0) + 8 data bits LSB first +
stop(1), each bit exactly `d` cycles. -/
theorem line_is_8n1 (d : Nat) (hd : 1 ≤ d) (hist : List In) :
    run d init hist = lineRun d [] hist := by
  rw [run_eq_line_from d hd init (inv_init d)]; rfl

/-- What is owed to the line is what the line carries: a non-empty schedule `w` appears on `tx`,
cycle by cycle, whatever the inputs do meanwhile (requests made before its last cycle are not
accepted and cannot disturb it). -/
theorem frame_on_line (d : Nat) (w : List Bool) (hw : w ≠ []) (hist : List In) (hl : w.length ≤ hist.length) :
    ((lineRun d w hist).take w.length).map (·.tx) = w := by
  induction w generalizing hist with
  | nil => exact absurd rfl hw
  | cons b rest ih =>
    obtain _ | ⟨x, xs⟩ := hist
    · simp at hl
    · cases rest with
      | nil => simp [lineRun, lineOut]
      | cons b' rest' =>
        have hn : lineNext d (b :: b' :: rest') x = b' :: rest' := by
          simp only [lineNext, List.length_cons, List.tail_cons]; rw [if_neg (by omega)]
        simp only [lineRun, hn, List.length_cons, List.take_succ_cons, List.map_cons, lineOut]
        congr 1
        exact ih (by simp) xs (by simp at hl ⊢; omega)

/-- **accept_only_when_framed_next**: whenever a byte is accepted (valid ∧ ready) in any reachable
state, the very next `10·d` cycles of the line are exactly that byte's frame — so a byte is accepted
only when it is the next thing to be framed; and `ready` is high only when at most one cycle is still
owed to the line (`step_abs` + `lineOut`). -/
theorem accept_only_when_framed_next (d : Nat) (hd : 1 ≤ d) (s : State) (hs : Inv d s) (x : In)
    (hv : x.valid = true) (hr : (step d s x).2.ready = true) (hist : List In) (hl : 10 * d ≤ hist.length) :
    ((run d (step d s x).1 hist).take (10 * d)).map (·.tx) = expand d (frame x.payload) := by
  obtain ⟨ha, ho, hi⟩ := step_abs d hd s x hs
  have hlen : (abs d s).length ≤ 1 := by
    rw [ho] at hr
    match h : abs d s with
    | [] => simp
    | [_] => simp
    | _ :: _ :: _ => rw [h] at hr; simp [lineOut] at hr
  have hnext : abs d (step d s x).1 = expand d (frame x.payload) := by
    rw [ha]; simp [lineNext, hlen, hv]
  have hL : (expand d (frame x.payload)).length = 10 * d := by rw [expand_length, frame_length]; omega
  have hne : expand d (frame x.payload) ≠ [] := by
    intro h; rw [h] at hL; simp at hL; omega
  rw [run_eq_line_from d hd _ hi, hnext]
  have := frame_on_line d _ hne hist (by omega)
  rwa [hL] at this

/-! ## The word transmitter -/

theorem mbStep_abs (d w : Nat) (hd : 1 ≤ d) (hw : 1 ≤ w) (s : MBState) (i : In) (hs : Inv d s.uart) :
    mbAbs d (mbStep d w s i).1 = (mbSpecStep d w (mbAbs d s) i).1 ∧
    (mbStep d w s i).2 = (mbSpecStep d w (mbAbs d s) i).2 ∧ Inv d (mbStep d w s i).1.uart := by
  obtain ⟨f, shift, bytes, u⟩ := s
  have hload : bytesLE (w - 1 + 1) (i.payload % 2 ^ (8 * w)) = bytesLE w i.payload := by
    rw [show w - 1 + 1 = w by omega, bytesLE_mod]
  cases f
  · -- IDLE: the byte transmitter is offered nothing
    obtain ⟨ha, ho, hi⟩ := step_abs d hd u ⟨false, shift % 256⟩ hs
    have hn : lineNext d (abs d u) ⟨false, shift % 256⟩ = (abs d u).tail := by simp [lineNext]
    cases hv : i.valid <;>
      simp [mbStep, mbAbs, mbSpecStep, hv, ha, ho, hi, hn, hload]
  · -- TRANSMIT: the byte transmitter is offered data_shift[0:8]
    obtain ⟨ha, ho, hi⟩ := step_abs d hd u ⟨true, shift % 256⟩ hs
    have hrdy : (lineOut (abs d u)).ready = decide ((abs d u).length ≤ 1) := by
      match abs d u with
      | [] => simp [lineOut]
      | [_] => simp [lineOut]
      | _ :: _ :: _ => simp [lineOut]
    by_cases hlen : (abs d u).length ≤ 1
    · have hn : lineNext d (abs d u) ⟨true, shift % 256⟩ = expand d (frame (shift % 256)) := by
        simp [lineNext, hlen]
      cases bytes with
      | zero =>
        have h1 : bytesLE (0 + 1) shift = [shift % 256] := rfl
        cases hv : i.valid <;>
          simp [mbStep, mbAbs, mbSpecStep, hv, ha, ho, hi, hn, hrdy, hlen, hload, h1]
      | succ k =>
        have h2 : bytesLE (k + 1 + 1) shift = shift % 256 :: (shift / 256 % 256 :: bytesLE k (shift / 256 / 256)) := rfl
        have h3 : bytesLE (k + 1) (shift / 256) = shift / 256 % 256 :: bytesLE k (shift / 256 / 256) := rfl
        simp [mbStep, mbAbs, mbSpecStep, ha, ho, hi, hn, hrdy, hlen, h2, h3]
    · have hn : lineNext d (abs d u) ⟨true, shift % 256⟩ = (abs d u).tail := by
        simp [lineNext, hlen]
      have h2 : bytesLE (bytes + 1) shift = shift % 256 :: bytesLE bytes (shift / 256) := rfl
      simp [mbStep, mbAbs, mbSpecStep, ha, ho, hi, hn, hrdy, hlen, h2]

theorem mbRun_eq_spec_from (d w : Nat) (hd : 1 ≤ d) (hw : 1 ≤ w) (s : MBState) (hs : Inv d s.uart)
    (hist : List In) : mbRun d w s hist = mbSpecRun d w (mbAbs d s) hist := by
  induction hist generalizing s with
  | nil => rfl
  | cons x xs ih =>
    obtain ⟨ha, ho, hi⟩ := mbStep_abs d w hd hw s x hs
    simp only [mbRun, mbSpecRun]
    rw [ho, ih _ hi, ha]

/-- **multibyte_little_endian**: for every divisor `d ≥ 1`, byte width `w ≥ 1`, word stream and valid
pattern, the word transmitter behaves as: an accepted word is queued as its `w` bytes least
significant first (`bytesLE`), the head of the queue is handed to the 8N1 line whenever the line can
take a byte, and a new word is accepted only when the queue is empty or its last byte is being taken. -/
theorem multibyte_little_endian (d w : Nat) (hd : 1 ≤ d) (hw : 1 ≤ w) (hist : List In) :
    mbRun d w mbInit hist = mbSpecRun d w ([], []) hist := by
  rw [mbRun_eq_spec_from d w hd hw mbInit (inv_init d)]; rfl

/-! ## Non-vacuity -/
example : frame 0x55 = [false, true, false, true, false, true, false, true, false, true] := by decide
example : bytesLE 4 0x11223344 = [0x44, 0x33, 0x22, 0x11] := by decide
example : (run 2 init ([⟨true, 0x01⟩] ++ List.replicate 21 ⟨false, 0⟩)).map (·.tx) =
    [true] ++ expand 2 (frame 0x01) ++ [true] := by decide
example : ((mbRun 1 2 mbInit ([⟨true, 0x0201⟩] ++ List.replicate 22 ⟨false, 0⟩)).map (·.tx)) =
    [true, true] ++ frame 0x01 ++ frame 0x02 ++ [true] := by decide

end LunaVerif.Uart
