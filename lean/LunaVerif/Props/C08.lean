import LunaVerif.Lemmas.DeviceSteps
/-!
# C08 — Address and configuration change only when their request completes

"SET_ADDRESS and SET_CONFIGURATION take effect exactly once, only after the host has acknowledged the
status stage of that same request, with the value carried in the request (address = low 7 bits of wValue);
until then the device keeps responding at its old address. A bus reset returns the device to address 0 and
configuration 0, and handshakes belonging to other endpoints' transactions never trigger these changes."

The theorems are about the event-level model `Device.step` (Model/Device/Control.lean, tied to the real
`USBDevice` event by event on every run) and hold for ALL host histories satisfying `LegalHost`, of any
length, by an invariant proved by induction over the history (`inv_reachable`).  `final c init h` is the
device state after the history `h` from reset.
-/
namespace LunaVerif.Device

/-- The last event of the history `h` was the status-stage IN token (endpoint 0, at the device's then
address) of the standard request `req` that is still the latched SETUP packet, and the device answered it
with a zero-length DATA packet. -/
def StatusZlpJustSent (c : DevConfig) (h : List Stim) (req : Nat) : Prop :=
  ∃ h₀ t, h = h₀ ++ [t] ∧
    t.ev = .token PID_IN (final c init h₀).address 0 ∧
    (final c init h).stage = .statusIn ∧
    (∃ pid, (step c (final c init h₀) t).2 = .data pid []) ∧
    (final c init h).setup = (final c init h₀).setup ∧
    (final c init h).setup.type = TYPE_STANDARD ∧ (final c init h).setup.request = req

/-- Core of both register theorems: in a legally reached state, a host ACK that reaches the standard
handler while it is in a register-write state answers the status-stage ZLP of that request. -/
theorem ack_in_regwrite_state_answers_status_zlp (c : DevConfig) (h : List Stim) (x : Stim) (pid : Nat)
    (hx : x.ev = .handshake pid)
    (legal : LegalHost c (h ++ [x]) = true)
    (reach : AckReachesHandler (final c init h) pid)
    (hh : IsRegWrite (final c init h).hstate) :
    StatusZlpJustSent c h (if (final c init h).hstate = .setAddress then REQ_SET_ADDRESS else REQ_SET_CONFIGURATION) := by
  obtain ⟨_, lx⟩ := legal_snoc legal
  obtain ⟨_, hep, hpid, hty⟩ := reach
  -- a legal host handshake follows a DATA packet of the device (the token detector still shows our IN token)
  have hd : (final c init h).gRespData = true := by
    unfold legalEvent at lx
    rw [hx] at lx
    simp only [Bool.and_eq_true, Bool.or_eq_true, beq_iff_eq] at lx
    rcases lx.2.2 with g | g
    · exact g
    · rw [hpid] at g; exact absurd g (by decide)
  rcases list_nil_or_snoc h with rfl | ⟨h₀, t, rfl⟩
  · simp [final, init] at hd
  · rw [final_snoc] at hd hep hpid hty hh ⊢
    have i₀ := inv_reachable c h₀
    obtain ⟨ht, hr, hc⟩ := data_answer_is_to_in_token c _ t i₀ hd hep hpid
    have hctl := onToken_ctl c (final c init h₀) PID_IN 0
    have hsu : (step c (final c init h₀) t).1.setup = (final c init h₀).setup := by
      rw [step_setup, hc, hctl.setup]; rfl
    rw [hsu] at hty
    rw [step_hstate, hc] at hh
    have hdata : (onToken c (final c init h₀) PID_IN 0).2.isData = true := by
      rw [← hr, ← step_gRespData]; exact hd
    obtain ⟨hst, hz, hhs⟩ := onToken_regwrite c _ hty hh hdata
    have inv := inv_step c _ t i₀
    have hreq := inv.handler (by rw [hsu]; exact hty)
    rw [step_hstate, hc] at hreq ⊢
    refine ⟨h₀, t, rfl, ht, ?_, ⟨_, by rw [hr]; exact hz⟩, ?_, ?_, ?_⟩ <;> rw [final_snoc]
    · rw [step_stage, hc]; exact hst
    · exact hsu
    · rw [hsu]; exact hty
    · rcases hh with hh | hh
      · rw [hh] at hreq ⊢
        rcases hreq with hreq | hreq
        · cases hreq
        · simpa using dispatch_setAddress _ hreq.symm
      · rw [hh] at hreq ⊢
        rcases hreq with hreq | hreq
        · cases hreq
        · simpa using dispatch_setConfiguration _ hreq.symm

/-- **C08 (address).** In any `LegalHost` history the device address differs between two consecutive
events only at a bus reset (new address 0), or at the host's ACK of the status-stage ZLP of a standard
SET_ADDRESS request, whose `wValue[6:0]` is the new address. -/
theorem address_changes_only_on_status_ack (c : DevConfig) (h : List Stim) (x : Stim)
    (legal : LegalHost c (h ++ [x]) = true)
    (changed : (final c init (h ++ [x])).address ≠ (final c init h).address) :
    (x.ev = .busReset ∧ (final c init (h ++ [x])).address = 0) ∨
    (x.ev = .handshake PID_ACK ∧ StatusZlpJustSent c h REQ_SET_ADDRESS ∧
      (final c init (h ++ [x])).address = (final c init h).setup.value % 128) := by
  rw [final_snoc] at changed ⊢
  rw [step_address] at changed ⊢
  cases hx : x.ev with
  | busReset => left; rw [hx] at changed; exact ⟨rfl, rfl⟩
  | handshake pid =>
    right
    rw [hx] at changed
    obtain ⟨reach, hs, hv⟩ := onHandshake_address _ pid changed
    have hp : pid = PID_ACK := reach.1
    subst hp
    have := ack_in_regwrite_state_answers_status_zlp c h x _ hx legal reach (Or.inl hs)
    rw [if_pos hs] at this
    exact ⟨rfl, this, hv⟩
  | token pid addr ep =>
    rw [hx] at changed
    unfold core at changed
    simp only [] at changed
    split at changed
    · exact absurd (onToken_regs c _ pid ep).1 changed
    · exact absurd rfl changed
  | data pid p ok => rw [hx] at changed; exact absurd (onData_regs c _ p ok).1 changed
  | sof f => rw [hx] at changed; exact absurd rfl changed
  | malformed b => rw [hx] at changed; exact absurd rfl changed
  | quiet => rw [hx] at changed; exact absurd rfl changed
  | produce e b l => rw [hx] at changed; exact absurd rfl changed
  | consume e n => rw [hx] at changed; exact absurd rfl changed
  | setSignal e v => rw [hx] at changed; exact absurd rfl changed

/-- **C08 (configuration).** Same statement for the configuration register and SET_CONFIGURATION
(`wValue[7:0]`). -/
theorem configuration_changes_only_on_status_ack (c : DevConfig) (h : List Stim) (x : Stim)
    (legal : LegalHost c (h ++ [x]) = true)
    (changed : (final c init (h ++ [x])).config ≠ (final c init h).config) :
    (x.ev = .busReset ∧ (final c init (h ++ [x])).config = 0) ∨
    (x.ev = .handshake PID_ACK ∧ StatusZlpJustSent c h REQ_SET_CONFIGURATION ∧
      (final c init (h ++ [x])).config = (final c init h).setup.value % 256) := by
  rw [final_snoc] at changed ⊢
  rw [step_config] at changed ⊢
  cases hx : x.ev with
  | busReset => left; rw [hx] at changed; exact ⟨rfl, rfl⟩
  | handshake pid =>
    right
    rw [hx] at changed
    obtain ⟨reach, hs, hv⟩ := onHandshake_config _ pid changed
    have hp : pid = PID_ACK := reach.1
    subst hp
    have := ack_in_regwrite_state_answers_status_zlp c h x _ hx legal reach (Or.inr hs)
    rw [if_neg (by rw [hs]; simp)] at this
    exact ⟨rfl, this, hv⟩
  | token pid addr ep =>
    rw [hx] at changed
    unfold core at changed
    simp only [] at changed
    split at changed
    · exact absurd (onToken_regs c _ pid ep).2 changed
    · exact absurd rfl changed
  | data pid p ok => rw [hx] at changed; exact absurd (onData_regs c _ p ok).2 changed
  | sof f => rw [hx] at changed; exact absurd rfl changed
  | malformed b => rw [hx] at changed; exact absurd rfl changed
  | quiet => rw [hx] at changed; exact absurd rfl changed
  | produce e b l => rw [hx] at changed; exact absurd rfl changed
  | consume e n => rw [hx] at changed; exact absurd rfl changed
  | setSignal e v => rw [hx] at changed; exact absurd rfl changed

/-- "of that same request": the latched SETUP packet only changes when a well-formed 8-byte data packet
directly follows a SETUP token for this device, and it then is that packet (which the device ACKs). -/
theorem setup_latched_only_by_setup_transaction (c : DevConfig) (s : DevState) (x : Stim)
    (changed : (step c s x).1.setup ≠ s.setup) :
    ∃ pid p, x.ev = .data pid p true ∧ s.sdWait = true ∧ s.tokPid = PID_SETUP ∧ p.length = 8 ∧
      (step c s x).1.setup = parseSetup p ∧ (core c s x.ev).2 = .hs PID_ACK := by
  rw [step_setup] at changed ⊢
  cases hx : x.ev with
  | data pid p ok =>
    rw [hx] at changed
    refine ⟨pid, p, ?_⟩
    unfold core onData at changed ⊢
    simp only [] at changed ⊢
    split at changed
    · exact absurd rfl changed
    · rename_i hok
      have : ok = true := by simpa using hok
      subst this
      simp only [Bool.not_true, Bool.false_eq_true, if_false]
      split at changed
      · rename_i w
        rw [if_pos w]
        split at changed
        · rename_i hl
          rw [if_pos hl]
          split at changed
          · rename_i g
            rw [if_pos g]
            refine ⟨trivial, w, g.2, g.1, ?_, ?_⟩
            · unfold onSetupData; simp only []; split <;> rfl
            · unfold onSetupData; rfl
          · exact absurd rfl changed
        · exact absurd rfl changed
      · split at changed
        · exact absurd (sameCtl_request c s .status).setup changed
        · exact absurd rfl changed
  | token pid addr ep =>
    rw [hx] at changed
    unfold core at changed
    simp only [] at changed
    split at changed
    · exact absurd (onToken_ctl c s pid ep).setup changed
    · exact absurd rfl changed
  | handshake pid =>
    rw [hx] at changed
    by_cases g : AckReachesHandler s pid
    · unfold AckReachesHandler at g
      unfold core onHandshake at changed
      simp only [if_pos g] at changed
      have h := (sameCtl_stdAck_but_regs s).2.2.2.1
      split at changed <;> exact absurd h changed
    · unfold core at changed
      simp only [onHandshake_noreach s pid g] at changed
      exact absurd rfl changed
  | busReset => rw [hx] at changed; exact absurd rfl changed
  | sof f => rw [hx] at changed; exact absurd rfl changed
  | malformed b => rw [hx] at changed; exact absurd rfl changed
  | quiet => rw [hx] at changed; exact absurd rfl changed
  | produce e b l => rw [hx] at changed; exact absurd rfl changed
  | consume e n => rw [hx] at changed; exact absurd rfl changed
  | setSignal e v => rw [hx] at changed; exact absurd rfl changed

/-- "until then the device keeps responding at its old address": from ANY state, no event other than a bus
reset or a host handshake changes the address or the configuration … -/
theorem old_address_until_commit (c : DevConfig) (s : DevState) (x : Stim)
    (h₁ : x.ev ≠ .busReset) (h₂ : ∀ pid, x.ev ≠ .handshake pid) :
    (step c s x).1.address = s.address ∧ (step c s x).1.config = s.config := by
  rw [step_address, step_config]
  cases hx : x.ev with
  | busReset => exact absurd hx h₁
  | handshake pid => exact absurd hx (h₂ pid)
  | token pid addr ep =>
    unfold core; simp only []
    split
    · exact onToken_regs c s pid ep
    · exact ⟨rfl, rfl⟩
  | data pid p ok => exact onData_regs c s p ok
  | sof f => exact ⟨rfl, rfl⟩
  | malformed b => exact ⟨rfl, rfl⟩
  | quiet => exact ⟨rfl, rfl⟩
  | produce e b l => exact ⟨rfl, rfl⟩
  | consume e n => exact ⟨rfl, rfl⟩
  | setSignal e v => exact ⟨rfl, rfl⟩

/-- … and tokens are matched against that register: a token for any other address is ignored by the
control endpoint (no answer; only the token detector's PID is cleared), a token for it is processed. -/
theorem token_for_other_address_is_ignored (c : DevConfig) (s : DevState) (pid addr ep : Nat)
    (h : addr ≠ s.address) :
    core c s (.token pid addr ep) = ({ s with tokPid := 0 }, .none) := by
  unfold core; simp only [if_neg h]

theorem token_for_own_address_is_processed (c : DevConfig) (s : DevState) (pid ep : Nat) :
    core c s (.token pid s.address ep) = onToken c s pid ep := by
  unfold core; simp only [if_true]

/-- "handshakes belonging to other endpoints' transactions never trigger these changes": a host handshake
that arrives while the most recent token is not an IN for endpoint 0 of this device (e.g. the ACK answering
a bulk IN packet of endpoint 1, or a packet of another device) leaves the whole control state unchanged —
neither register is written, the handler does not move, no descriptor position advances. -/
theorem foreign_ack_does_not_commit (c : DevConfig) (s : DevState) (pid : Nat)
    (h : s.tokEp ≠ 0 ∨ s.tokPid ≠ PID_IN) :
    (core c s (.handshake pid)).1 = s := by
  unfold core
  simp only []
  apply onHandshake_noreach
  unfold AckReachesHandler
  rcases h with h | h
  · exact fun g => h g.2.1
  · exact fun g => h g.2.2.1

/-- "exactly once": the commit returns the handler to IDLE, and in IDLE no handshake writes a register. -/
theorem commit_returns_to_idle (s : DevState) (pid : Nat)
    (changed : (onHandshake s pid).address ≠ s.address ∨ (onHandshake s pid).config ≠ s.config) :
    (onHandshake s pid).hstate = .idle := by
  have key : AckReachesHandler s pid ∧ IsRegWrite s.hstate := by
    rcases changed with h | h
    · have := onHandshake_address s pid h; exact ⟨this.1, Or.inl this.2.1⟩
    · have := onHandshake_config s pid h; exact ⟨this.1, Or.inr this.2.1⟩
  obtain ⟨g, hs⟩ := key
  unfold AckReachesHandler at g
  unfold onHandshake
  rw [if_pos g]
  have : (stdAck s).hstate = .idle := by
    unfold stdAck
    rcases hs with hs | hs <;> rw [hs] <;> rfl
  simp only []
  split <;> exact this

theorem idle_handler_ignores_handshakes (s : DevState) (pid : Nat) (h : s.hstate = .idle) :
    (onHandshake s pid).address = s.address ∧ (onHandshake s pid).config = s.config := by
  by_cases g : AckReachesHandler s pid
  · rw [(onHandshake_reach s pid g).1, (onHandshake_reach s pid g).2, stdAck_address, stdAck_config]
    simp [h]
  · rw [onHandshake_noreach s pid g]; exact ⟨rfl, rfl⟩

/-- "A bus reset returns the device to address 0 and configuration 0" (from any state). -/
theorem bus_reset_clears (c : DevConfig) (s : DevState) (f : Resp) :
    (step c s ⟨.busReset, f⟩).1.address = 0 ∧ (step c s ⟨.busReset, f⟩).1.config = 0 := ⟨rfl, rfl⟩

/-- The commit does happen: the ACK of the status stage writes `wValue[6:0]` / `wValue[7:0]`. -/
theorem status_ack_commits (s : DevState) (g : AckReachesHandler s PID_ACK) :
    (s.hstate = .setAddress → (onHandshake s PID_ACK).address = s.setup.value % 128) ∧
    (s.hstate = .setConfiguration → (onHandshake s PID_ACK).config = s.setup.value % 256) := by
  rw [(onHandshake_reach s _ g).1, (onHandshake_reach s _ g).2, stdAck_address, stdAck_config]
  exact ⟨fun h => by simp [h], fun h => by simp [h]⟩

/-! ### Non-vacuity: concrete histories -/

/-- SETUP token, DATA0 with the 8 setup bytes. -/
def setupTransaction (addr : Nat) (bytes : List Nat) : List Stim :=
  [⟨.token PID_SETUP addr 0, .none⟩, ⟨.data PID_DATA0 bytes true, .none⟩]

/-- An enumeration fragment: SET_ADDRESS 5 (status IN, ACK), then SET_CONFIGURATION 1 at the new address. -/
def enumerationFragment : List Stim :=
  setupTransaction 0 [0x00, 5, 5, 0, 0, 0, 0, 0] ++
  [⟨.token PID_IN 0 0, .none⟩, ⟨.handshake PID_ACK, .none⟩] ++
  setupTransaction 5 [0x00, 9, 1, 0, 0, 0, 0, 0] ++
  [⟨.token PID_IN 5 0, .none⟩, ⟨.handshake PID_ACK, .none⟩]

example : LegalHost {} enumerationFragment = true := by decide
example : (final {} init enumerationFragment).address = 5 ∧ (final {} init enumerationFragment).config = 1 := by decide
example : (run {} init enumerationFragment).map (·.2) =
    [.none, .hs PID_ACK, .data PID_DATA1 [], .none, .none, .hs PID_ACK, .data PID_DATA1 [], .none] := by decide

/-- The F3 scenario: between SET_ADDRESS and its status stage the host reads a bulk packet from endpoint 1
and ACKs it.  Legal; the address stays 0 through that ACK and is committed by the status-stage ACK. -/
def interleavedBulkIn : List Stim :=
  setupTransaction 0 [0x00, 5, 5, 0, 0, 0, 0, 0] ++
  [⟨.token PID_IN 0 1, .data PID_DATA0 [1, 2, 3]⟩, ⟨.handshake PID_ACK, .none⟩]

example : LegalHost {} (interleavedBulkIn ++ [⟨.token PID_IN 0 0, .none⟩, ⟨.handshake PID_ACK, .none⟩]) = true := by decide
example : (final {} init interleavedBulkIn).address = 0 := by decide
example : (final {} init (interleavedBulkIn ++ [⟨.token PID_IN 0 0, .none⟩, ⟨.handshake PID_ACK, .none⟩])).address = 5 := by
  decide

end LunaVerif.Device
