import LunaVerif.Model.Device.Frame
import LunaVerif.Props.C01
/-!
# C21 — Frame and microframe numbers track received SOFs

"After each well-formed SOF, the reported frame number equals the SOF's 11-bit frame number; the
microframe number is reset to 0 when the frame number changes and incremented when a SOF repeats the
current frame number, and a new-frame strobe is raised exactly when the frame number changes."

Quantified over all sequences of SOF frame numbers (repeats, skips, wrap-around) interleaved with
other packets — here: over all UTMI receive histories and all schedules of the device address.

`onSof` is the specification of one SOF; `frame_tracks_sof` says that the registers of the device
(token detector of C01 + the frame logic of `USBDevice`) after any history are the fold of `onSof`
over the well-formed SOFs among the received packets, whatever else was received in between.
-/
namespace LunaVerif.Frame
open LunaVerif.Utmi LunaVerif.TokenDetector

/-- Specification: what a SOF carrying number `n` does to (frame number, microframe number). -/
def onSof (s : State) (n : Nat) : State :=
  ⟨n, if n = s.frameNumber then (s.microframe + 1) % 8 else 0⟩

/-- The SOF announced by the token detector registers in a cycle. -/
def sofOf (r : Regs) : Option Nat := if r.newFrame then some r.frame else none

/-- The frame number of a received packet, if it is a well-formed SOF (C01's `tokenOf`). -/
def sofNumber (pkt : List Nat) : Option Nat :=
  match tokenOf pkt with
  | some (.sof n) => some n
  | _ => none

/-! ## One clock of the frame logic -/

theorem step_state (s : State) (r : Regs) :
    (step s r).1 = match sofOf r with | some n => onSof s n | none => s := by
  cases h : r.newFrame <;> simp [step, sofOf, onSof, h]

/-- After a SOF the frame number is the SOF's; the microframe number is 0 if the number changed and
the previous one plus one (3 bits) if it repeated. -/
theorem microframe_reset_or_increment (s : State) (r : Regs) (h : r.newFrame = true) :
    (step s r).1.frameNumber = r.frame ∧
    (r.frame ≠ s.frameNumber → (step s r).1.microframe = 0) ∧
    (r.frame = s.frameNumber → (step s r).1.microframe = (s.microframe + 1) % 8) := by
  refine ⟨by simp [step, h], ?_, ?_⟩ <;> intro e <;> simp [step, h, e]

/-- `new_frame` is raised exactly in the cycle a SOF is announced whose number differs from the
current frame number; `sof_detected` for every announced SOF. -/
theorem new_frame_iff_changed (s : State) (r : Regs) :
    ((step s r).2.newFrame = true ↔ (r.newFrame = true ∧ r.frame ≠ s.frameNumber)) ∧
    (step s r).2.sofDetected = r.newFrame ∧
    (step s r).2.frameNumber = s.frameNumber ∧ (step s r).2.microframe = s.microframe := by
  simp [step]

theorem no_sof_no_change (s : State) (r : Regs) (h : r.newFrame = false) : (step s r).1 = s := by
  simp [step, h]

/-- Cycle-by-cycle specification of the four ports, given the SOF announcements. -/
def specOuts : State → List (Option Nat) → List Out
  | _, [] => []
  | s, none :: rest => ⟨s.frameNumber, s.microframe, false, false⟩ :: specOuts s rest
  | s, some n :: rest => ⟨s.frameNumber, s.microframe, n != s.frameNumber, true⟩ :: specOuts (onSof s n) rest

theorem frame_outputs_exact (s : State) (rs : List Regs) : run s rs = specOuts s (rs.map sofOf) := by
  induction rs generalizing s with
  | nil => rfl
  | cons r rs ih =>
    simp only [run, List.map_cons]
    rw [ih, step_state]
    cases h : r.newFrame <;> simp [sofOf, h, specOuts, step]

theorem finalState_eq_fold (s : State) (rs : List Regs) :
    finalState s rs = (rs.filterMap sofOf).foldl onSof s := by
  induction rs generalizing s with
  | nil => rfl
  | cons r rs ih =>
    simp only [finalState, List.filterMap_cons]
    rw [ih, step_state]
    cases sofOf r <;> rfl

/-! ## The device: composition with the token detector -/

theorem devRun_eq (s : DevState) (hist : List In) :
    devRun s hist = run s.frame (tokRun devConfig s.tok hist) := by
  induction hist generalizing s with
  | nil => rfl
  | cons i is ih => simp only [devRun, tokRun, run, devStep, ih]

theorem devFinal_eq (s : DevState) (hist : List In) :
    (devFinal s hist).frame = finalState s.frame (tokRun devConfig s.tok hist) := by
  induction hist generalizing s with
  | nil => rfl
  | cons i is ih => simp only [devFinal, tokRun, finalState, devStep, ih]

theorem sofOf_report (cfg : Config) (addr : Nat) (r : Regs) (e : Option TokenEvent) :
    sofOf (report cfg addr r e) = match e with | some (.sof n) => some n | _ => none := by
  match e with
  | none => simp [report, clearStrobes, sofOf]
  | some (.sof n) => simp [report, clearStrobes, sofOf]
  | some (.token pid a ep) =>
    simp only [report]
    split <;> simp [clearStrobes, sofOf]

theorem specRun_sofs (cfg : Config) (cur : Track) (r : Regs) (hist : List In) (x : In) :
    (specRun cfg cur r (hist ++ [x])).filterMap sofOf
      = (sofOf r).toList ++ (packetsOf cur (hist.map (·.rx))).filterMap sofNumber := by
  induction hist generalizing cur r with
  | nil =>
    simp only [List.nil_append, specRun, List.filterMap_cons, List.filterMap_nil, List.map_nil, packetsOf,
      List.append_nil]
    cases sofOf r <;> rfl
  | cons i is ih =>
    simp only [List.cons_append, specRun, List.filterMap_cons, List.map_cons, packetsOf, ih]
    cases hdn : trackDone cur i.rx with
    | none =>
      have : sofOf (specNextRegs cfg cur r i) = none := by
        simp [specNextRegs, hdn, clearStrobes, sofOf]
      rw [this]
      cases sofOf r <;> simp
    | some p =>
      have : sofOf (specNextRegs cfg cur r i) = sofNumber p := by
        simp only [specNextRegs, hdn, sofOf_report, sofNumber]
      rw [this]
      cases sofOf r <;> cases hs : sofNumber p <;> simp [hs]

/-- **C21.**  For every UTMI receive history (8-bit data), whatever the device address does, the
frame and microframe registers — observed one cycle beyond the end of the history — are the fold
of `onSof` over the well-formed SOFs among the received packets, in order: each sets the frame number,
and resets (number changed) or increments modulo 8 (number repeated) the microframe number.  Tokens,
handshakes, data packets, corrupted / truncated / over-long SOFs in between have no effect. -/
theorem frame_tracks_sof (hist : List In) (x : In) (hd : ∀ i ∈ hist ++ [x], i.rx.data < 256) :
    (devFinal devInit (hist ++ [x])).frame
      = ((packetsOf none (hist.map (·.rx))).filterMap sofNumber).foldl onSof init := by
  rw [devFinal_eq, finalState_eq_fold]
  show List.foldl onSof init (List.filterMap sofOf (tokRun devConfig TokenDetector.init (hist ++ [x]))) = _
  rw [token_events_exact devConfig _ hd, specRun_sofs]
  rfl

/-- The same for rendered well-formed packets with arbitrary byte timing: only the packet contents
matter. -/
theorem frame_tracks_sof_rendered (ps : List RxPacket) (hw : ∀ p ∈ ps, p.wf) (addr : Nat) (x : In)
    (hd : ∀ c ∈ renderAll ps, c.data < 256) (hx : x.rx.data < 256) :
    (devFinal devInit ((renderAll ps).map (fun c => ⟨c, addr⟩) ++ [x])).frame
      = (ps.filterMap (fun p => sofNumber p.bytes)).foldl onSof init := by
  rw [frame_tracks_sof]
  · simp only [List.map_map]
    rw [show ((fun (i : In) => i.rx) ∘ fun c => (⟨c, addr⟩ : In)) = id from rfl, List.map_id,
      (packetsOf_renderAll ps hw).1, List.filterMap_map]
    rfl
  · intro i hi
    simp only [List.mem_append, List.mem_map, List.mem_singleton] at hi
    rcases hi with ⟨c, hc, rfl⟩ | rfl
    · exact hd c hc
    · exact hx

/-- Cycle level: the four ports of the device in every cycle, from the SOF announcements of C01's
specification of the token detector. -/
theorem device_outputs_exact (hist : List In) (hd : ∀ i ∈ hist, i.rx.data < 256) :
    devRun devInit hist = specOuts init ((specRun devConfig none initRegs hist).map sofOf) := by
  rw [devRun_eq, frame_outputs_exact]
  show specOuts init (List.map sofOf (tokRun devConfig TokenDetector.init hist)) = _
  rw [token_events_exact devConfig _ hd]

/-- Properties of `onSof` in the words of the property. -/
theorem onSof_spec (s : State) (n : Nat) :
    (onSof s n).frameNumber = n ∧
    (n ≠ s.frameNumber → (onSof s n).microframe = 0) ∧
    (n = s.frameNumber → (onSof s n).microframe = (s.microframe + 1) % 8) := by
  refine ⟨rfl, ?_, ?_⟩ <;> intro e <;> simp [onSof, e]

/-- Eight repeats of a new frame number (a high-speed frame) count the microframes 0 … 7, a ninth
wraps to 0; 0x7FF → 0 is an ordinary change. -/
example : ([5, 5, 5, 5, 5, 5, 5, 5].foldl onSof ⟨4, 3⟩, [5, 5, 5, 5, 5, 5, 5, 5, 5].foldl onSof ⟨4, 3⟩,
           [0x7FF, 0x7FF, 0].foldl onSof ⟨0x7FE, 0⟩)
    = (⟨5, 7⟩, ⟨5, 0⟩, ⟨0, 0⟩) := by decide

/-- Non-vacuity of the device theorem: SOF 0x2AD twice with an OUT token in between, then a SOF with a
flipped CRC bit (ignored). -/
example :
    (devFinal devInit (([waitC 0, byteC 0xA5, byteC 0xAD, byteC 0xCA, idleC 0]
        ++ [waitC 0, byteC 0xE1, byteC 0x00, byteC 0x10, idleC 0]
        ++ [waitC 0, byteC 0xA5, byteC 0xAD, waitC 3, byteC 0xCA, idleC 0]
        ++ [waitC 0, byteC 0xA5, byteC 0xAE, byteC 0xCA, idleC 0, idleC 0]).map (fun c => ⟨c, 0⟩))).frame
    = ⟨0x2AD, 1⟩ := by decide +kernel

end LunaVerif.Frame
