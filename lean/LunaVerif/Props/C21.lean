import LunaVerif.Model.Device.Frame
import LunaVerif.Props.C01
/-!
# C21 — Frame and microframe numbers track received SOFs

"After each well-formed SOF, the reported frame number equals the SOF's 11-bit frame number; the
microframe number is reset to 0 when the frame number changes and incremented when a SOF repeats the
current frame number, and a new-frame strobe is raised exactly when the frame number changes."

Quantified over all sequences of SOF frame numbers (repeats, skips, wrap-around) interleaved with
other packets — here: over all UTMI receive histories and all schedules of the device address.

`onSof` is the specification of one SOF; `frame_tracks_sof` says that the registers of the device
(token detector of C01 + the frame logic of `USBDevice`) after any history are the fold of `onSof`
over the well-formed SOFs among the received packets, whatever else was received in between.
-/
namespace LunaVerif.Frame
open LunaVerif.Utmi LunaVerif.TokenDetector

/-- Specification: what a SOF carrying number `n` does to (frame number, microframe number). -/
def onSof (s : State) (n : Nat) : State :=
  ⟨n, if n = s.frameNumber then (s.microframe + 1) % 8 else 0⟩

/-- The SOF announced by the token detector registers in a cycle. -/
def sofOf (r : Regs) : Option Nat := if r.newFrame then some r.frame else none

/-- The frame number of a received packet, if it is a well-formed SOF (C01's `tokenOf`). -/
def sofNumber (pkt : List Nat) : Option Nat :=
  match tokenOf pkt with
  | some (.sof n) => some n
  | _ => none

/-! ## One clock of the frame logic -/

theorem step_state (s : State) (r : Regs) :
    (step s r).1 = match sofOf r with | some n => onSof s n | none => s := by
  cases h : r.newFrame <;> simp [step, sofOf, onSof, h]

/-- After a SOF the frame number is the SOF's; the microframe number is 0 if the number changed and
the previous one plus one (3 bits) if it repeated. -/
theorem microframe_reset_or_increment (s : State) (r : Regs) (h : r.newFrame = true) :
    (step s r).1.frameNumber = r.frame ∧
    (r.frame ≠ s.frameNumber → (step s r).1.microframe = 0) ∧
    (r.frame = s.frameNumber → (step s r).1.microframe = (s.microframe + 1) % 8) := by
  refine ⟨by simp [step, h], ?_, ?_⟩ <;> intro e <;> simp [step, h, e]

/-- `new_frame` is raised exactly in the cycle a SOF is announced whose number differs from the
current frame number; `sof_detected` for every announced SOF. -/
theorem new_frame_iff_changed (s : State) (r : Regs) :
    ((step s r).2.newFrame = true ↔ (r.newFrame = true ∧ r.frame ≠ s.frameNumber)) ∧
    (step s r).2.sofDetected = r.newFrame ∧
    (step s r).2.frameNumber = s.frameNumber ∧ (step s r).2.microframe = s.microframe := by
  simp [step]

theorem no_sof_no_change (s : State) (r : Regs) (h : r.newFrame = false) : (step s r).1 = s := by
  simp [step, h]

/-- Cycle-by-cycle specification of the four ports, given the SOF announcements. -/
def specOuts : State → List (Option Nat) → List Out
  | _, [] => []
  | s, none :: rest => ⟨s.frameNumber, s.microframe, false, false⟩ :: specOuts s rest
  | s, some n :: rest => ⟨s.frameNumber, s.microframe, n != s.frameNumber, true⟩ :: specOuts (onSof s n) rest

theorem frame_outputs_exact (s : State) (rs : List Regs) : run s rs = specOuts s (rs.map sofOf) := by
  induction rs generalizing s with
  | nil => rfl
  | cons r rs ih =>
    simp only [run, List.map_cons]
    rw [ih, step_state]
    cases h : r.newFrame <;> simp [sofOf, h, specOuts, step]

theorem finalState_eq_fold (s : State) (rs : List Regs) :
    finalState s rs = (rs.filterMap sofOf).foldl onSof s := by
  induction rs generalizing s with
  | nil => rfl
  | cons r rs ih =>
    simp only [finalState, List.filterMap_cons]
    rw [ih, step_state]
    cases sofOf r <;> rfl

/-! ## The device: composition with the token detector -/

theorem devRun_eq (s : DevState) (hist : List In) :
    devRun s hist = run s.frame (tokRun devConfig s.tok hist) := by
  induction hist generalizing s with
  | nil => rfl
  | cons i is ih => simp only [devRun, tokRun, run, devStep, ih]

theorem devFinal_eq (s : DevState) (hist : List In) :
    (devFinal s hist).frame = finalState s.frame (tokRun devConfig s.tok hist) := by
  induction hist generalizing s with
  | nil => rfl
  | cons i is ih => simp only [devFinal, tokRun, finalState, devStep, ih]

theorem sofOf_report (cfg : Config) (addr : Nat) (r : Regs) (e : Option TokenEvent) :
    sofOf (report cfg addr r e) = match e with | some (.sof n) => some n | _ => none := by
  match e with
  | none => simp [report, clearStrobes, sofOf]
  | some (.sof n) => simp [report, clearStrobes, sofOf]
  | some (.token pid a ep) =>
    simp only [report]
    split <;> simp [clearStrobes, sofOf]

theorem specRun_sofs (cfg : Config) (cur : Track) (r : Regs) (hist : List In) (x : In) :
    (specRun cfg cur r (hist ++ [x])).filterMap sofOf
      = (sofOf r).toList ++ (packetsOf cur (hist.map (·.rx))).filterMap sofNumber := by
  induction hist generalizing cur r with
  | nil =>
    simp only [List.nil_append, specRun, List.filterMap_cons, List.filterMap_nil, List.map_nil, packetsOf,
      List.append_nil]
    cases sofOf r <;> rfl
  | cons i is ih =>
    simp only [List.cons_append, specRun, List.filterMap_cons, List.map_cons, packetsOf, ih]
    cases hdn : trackDone cur i.rx with
    | none =>
      have : sofOf (specNextRegs cfg cur r i) = none := by
        simp [specNextRegs, hdn, clearStrobes, sofOf]
      rw [this]
      cases sofOf r <;> simp
    | some p =>
      have : sofOf (specNextRegs cfg cur r i) = sofNumber p := by
        simp only [specNextRegs, hdn, sofOf_report, sofNumber]
      rw [this]
      cases sofOf r <;> cases hs : sofNumber p <;> simp [hs]

/-- **C21.**  For every UTMI receive history (8-bit data), whatever the device address does, the
frame and microframe registers — observed one cycle beyond the end of the history — are the fold
of `onSof` over the well-formed SOFs among the received packets, in order: each sets the frame number,
and resets (number changed) or increments modulo 8 (number repeated) the microframe number.  Tokens,
handshakes, data packets, corrupted / truncated / over-long SOFs in between have no effect. -/
theorem frame_tracks_sof (hist : List In) (x : In) (hd : ∀ i ∈ hist ++ [x], i.rx.data < 256) :
    (devFinal devInit (hist ++ [x])).frame
      = ((packetsOf none (hist.map (·.rx))).filterMap sofNumber).foldl onSof init := by
  rw [devFinal_eq, finalState_eq_fold]
  show List.foldl onSof init (List.filterMap sofOf (tokRun devConfig TokenDetector.init (hist ++ [x]))) = _
  rw [token_events_exact devConfig _ hd, specRun_sofs]
  rfl

/-- The same for rendered well-formed packets with arbitrary byte timing: only the packet contents
matter. -/
theorem frame_tracks_sof_rendered (ps : List RxPacket) (hw : ∀ p ∈ ps, p.wf) (addr : Nat) (x : In)
    (hd : ∀ c ∈ renderAll ps, c.data < 256) (hx : x.rx.data < 256) :
    (devFinal devInit ((renderAll ps).map (fun c => ⟨c, addr⟩) ++ [x])).frame
      = (ps.filterMap (fun p => sofNumber p.bytes)).foldl onSof init := by
  rw [frame_tracks_sof]
  · simp only [List.map_map]
    rw [show ((fun (i : In) => i.rx) ∘ fun c => (⟨c, addr⟩ : In)) = id from rfl, List.map_id,
      (packetsOf_renderAll ps hw).1, List.filterMap_map]
    rfl
  · intro i hi
    simp only [List.mem_append, List.mem_map, List.mem_singleton] at hi
    rcases hi with ⟨c, hc, rfl⟩ | rfl
    · exact hd c hc
    · exact hx

/-- Cycle level: the four ports of the device in every cycle, from the SOF announcements of C01's
specification of the token detector. -/
theorem device_outputs_exact (hist : List In) (hd : ∀ i ∈ hist, i.rx.data < 256) :
    devRun devInit hist = specOuts init ((specRun devConfig none initRegs hist).map sofOf) := by
  rw [devRun_eq, frame_outputs_exact]
  show specOuts init (List.map sofOf (tokRun devConfig TokenDetector.init hist)) = _
  rw [token_events_exact devConfig _ hd]

/-! ## Bus resets and address updates

`dStep` (model file) is the device with its address register: `busReset` (the `reset_detected` port =
`reset_sequencer.bus_reset`) and the endpoints' `address_changed` / `new_address` are inputs.  What
the code does on a bus reset: it clears the address (and the configuration) — the frame registers,
the strobes and the token detector's registers are not assigned.  The theorems below say so for
every history: the four frame ports in every cycle, and the registers at the end, are a function of
the UTMI receive columns alone. -/

/-- Value of the address register in every cycle of a history. -/
def addrTrace : Nat → List DevIn → List Nat
  | _, [] => []
  | a, i :: is => a :: addrTrace (nextAddress a i) is

def addrEnd : Nat → List DevIn → Nat
  | a, [] => a
  | a, i :: is => addrEnd (nextAddress a i) is

/-- What the token detector inside the device sees. -/
def tokIns : Nat → List DevIn → List In
  | _, [] => []
  | a, i :: is => ⟨i.rx, a⟩ :: tokIns (nextAddress a i) is

theorem tokIns_rx (a : Nat) (hist : List DevIn) : (tokIns a hist).map (·.rx) = hist.map (·.rx) := by
  induction hist generalizing a with
  | nil => rfl
  | cons i is ih => simp only [tokIns, List.map_cons, ih]

theorem tokIns_append (a : Nat) (hist : List DevIn) (x : DevIn) :
    tokIns a (hist ++ [x]) = tokIns a hist ++ [⟨x.rx, addrEnd a hist⟩] := by
  induction hist generalizing a with
  | nil => rfl
  | cons i is ih => simp only [List.cons_append, tokIns, addrEnd, ih]

theorem dRun_ports (s : DState) (hist : List DevIn) :
    (dRun s hist).map (·.ports) = devRun s.dev (tokIns s.address hist) := by
  induction hist generalizing s with
  | nil => rfl
  | cons i is ih => simp only [dRun, List.map_cons, tokIns, devRun, dStep, ih]

theorem dFinal_dev (s : DState) (hist : List DevIn) :
    (dFinal s hist).dev = devFinal s.dev (tokIns s.address hist) := by
  induction hist generalizing s with
  | nil => rfl
  | cons i is ih => simp only [dFinal, tokIns, devFinal, dStep, ih]

/-- The address register: cleared by a bus reset, otherwise loaded by an endpoint's address update
(the bus reset wins in the same cycle), otherwise kept. -/
theorem address_exact (s : DState) (hist : List DevIn) :
    (dRun s hist).map (·.activeAddress) = addrTrace s.address hist := by
  induction hist generalizing s with
  | nil => rfl
  | cons i is ih => simp only [dRun, List.map_cons, addrTrace, dStep, ih]

theorem bus_reset_clears_address (s : DState) (i : DevIn) (h : i.busReset = true) :
    (dStep s i).1.address = 0 := by
  simp [dStep, nextAddress, h]

/-- One clock: a bus reset (and an address update) leaves `frame_number`, `microframe_number`, the two
strobes and the whole token detector exactly as without it — the code assigns none of them. -/
theorem bus_reset_step_frame (s : DState) (i : DevIn) (b c : Bool) (n : Nat) :
    (dStep s { i with busReset := b, addressChanged := c, newAddress := n }).1.dev.frame = (dStep s i).1.dev.frame ∧
    (dStep s { i with busReset := b, addressChanged := c, newAddress := n }).2.ports = (dStep s i).2.ports := by
  exact ⟨rfl, rfl⟩

/-- **C21 with bus resets.**  For every history of the device inputs — UTMI receive columns (8-bit
data), bus resets in any cycles (also back to back, or held for many cycles as without VBUS), address
updates — the frame and microframe registers are the fold of `onSof` over the well-formed SOFs among
the received packets: the right-hand side does not mention the reset / address columns.  In
particular a bus reset does not clear or otherwise touch the frame registers (that is what the code
does; USB 2.0 does not ask for more: the next SOF sets them). -/
theorem frame_tracks_sof_through_resets (hist : List DevIn) (x : DevIn)
    (hd : ∀ i ∈ hist ++ [x], i.rx.data < 256) :
    (dFinal dInit (hist ++ [x])).dev.frame
      = ((packetsOf none (hist.map (·.rx))).filterMap sofNumber).foldl onSof init := by
  rw [dFinal_dev, tokIns_append]
  show (devFinal devInit _).frame = _
  rw [frame_tracks_sof, tokIns_rx]
  intro i hi
  simp only [List.mem_append, List.mem_singleton] at hi
  rcases hi with hi | rfl
  · have : i.rx ∈ (tokIns dInit.address hist).map (·.rx) := List.mem_map_of_mem hi
    rw [tokIns_rx] at this
    obtain ⟨j, hj, e⟩ := List.mem_map.mp this
    rw [← e]
    exact hd j (by simp [hj])
  · exact hd x (by simp)

/-- The SOF announcement of every cycle, from the receive columns alone: `some n` exactly in the cycle
after the one in which a packet that is a well-formed SOF with number `n` ended. -/
def sofTrace : Track → Option Nat → List RxCycle → List (Option Nat)
  | _, _, [] => []
  | cur, a, c :: cs => a :: sofTrace (trackNext cur c) ((trackDone cur c).bind sofNumber) cs

theorem specRun_sofTrace (cfg : Config) (cur : Track) (r : Regs) (hist : List In) :
    (specRun cfg cur r hist).map sofOf = sofTrace cur (sofOf r) (hist.map (·.rx)) := by
  induction hist generalizing cur r with
  | nil => rfl
  | cons i is ih =>
    simp only [specRun, List.map_cons, sofTrace, ih]
    congr 2
    cases hdn : trackDone cur i.rx with
    | none => simp [specNextRegs, hdn, clearStrobes, sofOf]
    | some p => simp only [specNextRegs, hdn, sofOf_report, sofNumber, Option.bind_some]

/-- Cycle level, with bus resets: the four ports in **every** cycle of every history are `specOuts` of
the SOF announcements computed from the receive columns alone.  So in a cycle without an announced
SOF (whatever the reset input does in, before or after that cycle) `new_frame = sof_detected = 0`
and the registers keep their values. -/
theorem device_ports_exact (hist : List DevIn) (hd : ∀ i ∈ hist, i.rx.data < 256) :
    (dRun dInit hist).map (·.ports) = specOuts init (sofTrace none none (hist.map (·.rx))) := by
  rw [dRun_ports]
  show devRun devInit _ = _
  rw [device_outputs_exact, specRun_sofTrace, tokIns_rx]
  · rfl
  · intro i hi
    have : i.rx ∈ (tokIns dInit.address hist).map (·.rx) := List.mem_map_of_mem hi
    rw [tokIns_rx] at this
    obtain ⟨j, hj, e⟩ := List.mem_map.mp this
    rw [← e]
    exact hd j hj

/-- Two histories with the same receive columns — differing arbitrarily in where bus resets and
address updates happen — show the same four ports in every cycle. -/
theorem bus_reset_no_effect_on_frame_ports (h₁ h₂ : List DevIn) (hrx : h₁.map (·.rx) = h₂.map (·.rx))
    (hd : ∀ i ∈ h₁, i.rx.data < 256) :
    (dRun dInit h₁).map (·.ports) = (dRun dInit h₂).map (·.ports) := by
  rw [device_ports_exact h₁ hd, device_ports_exact h₂, hrx]
  intro i hi
  have : i.rx ∈ h₁.map (·.rx) := hrx ▸ List.mem_map_of_mem hi
  obtain ⟨j, hj, e⟩ := List.mem_map.mp this
  rw [← e]
  exact hd j hj

/-- In every cycle: `new_frame` is high iff a SOF is announced in that very cycle and its number
differs from the `frame_number` shown in that cycle; `sof_detected` iff a SOF is announced. -/
theorem specOuts_strobes (s : State) (as : List (Option Nat)) :
    ∀ p ∈ (specOuts s as).zip as,
      (p.1.newFrame = true ↔ ∃ n, p.2 = some n ∧ n ≠ p.1.frameNumber) ∧
      (p.1.sofDetected = true ↔ p.2.isSome = true) := by
  induction as generalizing s with
  | nil => simp [specOuts]
  | cons a rest ih =>
    intro p hp
    cases a with
    | none =>
      simp only [specOuts, List.zip_cons_cons, List.mem_cons] at hp
      rcases hp with rfl | hp
      · simp
      · exact ih s p hp
    | some n =>
      simp only [specOuts, List.zip_cons_cons, List.mem_cons] at hp
      rcases hp with rfl | hp
      · simp
      · exact ih _ p hp

/-- `new_frame_iff_changed` for the device in every cycle of every history with bus resets. -/
theorem new_frame_iff_changed_every_cycle (hist : List DevIn) (hd : ∀ i ∈ hist, i.rx.data < 256) :
    ∀ p ∈ ((dRun dInit hist).map (·.ports)).zip (sofTrace none none (hist.map (·.rx))),
      (p.1.newFrame = true ↔ ∃ n, p.2 = some n ∧ n ≠ p.1.frameNumber) ∧
      (p.1.sofDetected = true ↔ p.2.isSome = true) := by
  rw [device_ports_exact hist hd]
  exact specOuts_strobes _ _

/-- The registers shown in the first cycle of `specOuts` are the state. -/
theorem specOuts_head (s : State) (a : Option Nat) (rest : List (Option Nat)) :
    ∃ o tl, specOuts s (a :: rest) = o :: tl ∧ o.frameNumber = s.frameNumber ∧ o.microframe = s.microframe := by
  cases a <;> exact ⟨_, _, rfl, rfl, rfl⟩

/-- Between a cycle without an announced SOF and the next cycle the two registers do not change. -/
theorem specOuts_hold (s : State) (as : List (Option Nat)) :
    ∀ q ∈ ((specOuts s as).zip as).zip (specOuts s as).tail, q.1.2 = none →
      q.2.frameNumber = q.1.1.frameNumber ∧ q.2.microframe = q.1.1.microframe := by
  induction as generalizing s with
  | nil => simp [specOuts]
  | cons a rest ih =>
    cases rest with
    | nil => cases a <;> simp [specOuts]
    | cons b rest' =>
      intro q hq hn
      cases a with
      | none =>
        obtain ⟨o, tl, e, h1, h2⟩ := specOuts_head s b rest'
        have ih' := ih s
        rw [e] at ih'
        simp only [specOuts, e, List.zip_cons_cons, List.tail_cons, List.mem_cons] at hq
        rcases hq with rfl | hq
        · exact ⟨h1, h2⟩
        · exact ih' q (by simpa [List.zip_cons_cons, List.tail_cons] using hq) hn
      | some n =>
        obtain ⟨o, tl, e, h1, h2⟩ := specOuts_head (onSof s n) b rest'
        have ih' := ih (onSof s n)
        rw [e] at ih'
        simp only [specOuts, e, List.zip_cons_cons, List.tail_cons, List.mem_cons] at hq
        rcases hq with rfl | hq
        · simp at hn
        · exact ih' q (by simpa [List.zip_cons_cons, List.tail_cons] using hq) hn

/-- `frame_number` / `microframe_number` of the device change only from a cycle in which a SOF is
announced to the next one — never because of a bus reset. -/
theorem registers_change_only_on_sof (hist : List DevIn) (hd : ∀ i ∈ hist, i.rx.data < 256) :
    ∀ q ∈ (((dRun dInit hist).map (·.ports)).zip (sofTrace none none (hist.map (·.rx)))).zip
            ((dRun dInit hist).map (·.ports)).tail,
      q.1.2 = none → q.2.frameNumber = q.1.1.frameNumber ∧ q.2.microframe = q.1.1.microframe := by
  rw [device_ports_exact hist hd]
  exact specOuts_hold _ _

/-- Properties of `onSof` in the words of the property. -/
theorem onSof_spec (s : State) (n : Nat) :
    (onSof s n).frameNumber = n ∧
    (n ≠ s.frameNumber → (onSof s n).microframe = 0) ∧
    (n = s.frameNumber → (onSof s n).microframe = (s.microframe + 1) % 8) := by
  refine ⟨rfl, ?_, ?_⟩ <;> intro e <;> simp [onSof, e]

/-- Eight repeats of a new frame number (a high-speed frame) count the microframes 0 … 7, a ninth
wraps to 0; 0x7FF → 0 is an ordinary change. -/
example : ([5, 5, 5, 5, 5, 5, 5, 5].foldl onSof ⟨4, 3⟩, [5, 5, 5, 5, 5, 5, 5, 5, 5].foldl onSof ⟨4, 3⟩,
           [0x7FF, 0x7FF, 0].foldl onSof ⟨0x7FE, 0⟩)
    = (⟨5, 7⟩, ⟨5, 0⟩, ⟨0, 0⟩) := by decide

/-- Non-vacuity of the device theorem: SOF 0x2AD twice with an OUT token in between, then a SOF with a
flipped CRC bit (ignored). -/
example :
    (devFinal devInit (([waitC 0, byteC 0xA5, byteC 0xAD, byteC 0xCA, idleC 0]
        ++ [waitC 0, byteC 0xE1, byteC 0x00, byteC 0x10, idleC 0]
        ++ [waitC 0, byteC 0xA5, byteC 0xAD, waitC 3, byteC 0xCA, idleC 0]
        ++ [waitC 0, byteC 0xA5, byteC 0xAE, byteC 0xCA, idleC 0, idleC 0]).map (fun c => ⟨c, 0⟩))).frame
    = ⟨0x2AD, 1⟩ := by decide +kernel

/-- Non-vacuity with bus resets: SOF 0x2AD; a bus reset held for three cycles together with an address
update; the same SOF again (it is a *repeat*: microframe 1, no new frame — the reset did not clear
the frame number); a bus reset in the very cycle the second SOF is announced. -/
example :
    let rx := [waitC 0, byteC 0xA5, byteC 0xAD, byteC 0xCA, idleC 0, idleC 0, idleC 0, idleC 0,
               waitC 0, byteC 0xA5, byteC 0xAD, byteC 0xCA, idleC 0, idleC 0, idleC 0]
    let rst := [false, false, false, false, false, true, true, true,
                false, false, false, false, false, true, false]
    let hist := (rx.zip rst).map (fun p => (⟨p.1, p.2, p.2, 0x55⟩ : DevIn))
    (dFinal dInit hist).dev.frame = ⟨0x2AD, 1⟩ ∧ (dFinal dInit hist).address = 0 ∧
    (dRun dInit hist).map (fun o => (o.ports.newFrame, o.ports.sofDetected))
      = [(false, false), (false, false), (false, false), (false, false), (false, false), (true, true),
         (false, false), (false, false), (false, false), (false, false), (false, false), (false, false),
         (false, false), (false, true), (false, false)] ∧
    sofTrace none none rx = [none, none, none, none, none, some 0x2AD, none, none, none, none, none, none,
         none, some 0x2AD, none] := by decide +kernel

end LunaVerif.Frame
