import LunaVerif.Props.C48Desc
/-!
# C48, part 3 — the GET_DESCRIPTOR response finishes, and its first/last framing

Setting as in `Props/C48Desc.lean`: `start` strobed from a quiescent handler with `value = v` selecting descriptor
`d = c[k]`, `length = L`, both held, arbitrary `tx.ready` pattern `r0 :: rs`.  `words d L = ⌈min L len / 4⌉` is
the number of 32-bit words of the response.

* `ss_descriptor_finishes`: if `rs` (the cycles after the start cycle) contains at least `words + 1` ready cycles,
  the handler is quiescent again (selected generator not streaming, tx register empty) — and stays so; hence
  (`ss_descriptor_delivers_all`) the host has received exactly the first `min L len` bytes.  The measure behind it
  (`mu`: tx-register loads still needed) decreases with every ready cycle (`step_mu`).
* `ss_descriptor_framing`: the (first, last) flags of the words handed to the consumer so far, followed by the flags
  of the words still pending, are `(q = 0, q + 1 = words)` for `q = 0 .. words − 1`: `first` exactly on the first
  word, `last` exactly on the last one (`ss_descriptor_framing_complete`: the full list once finished).
-/
namespace LunaVerif.SSDesc
open LunaVerif.SSSetup (cnt wordBytes)

/-- number of 32-bit words of the response -/
def words (d : Desc) (L : Nat) : Nat := (min L d.len + 3) / 4

/-- tx-register loads (cycles with `~tx.valid | tx.ready`) still needed before the handler is quiescent -/
def mu (d : Desc) (L : Nat) (s : State) (g : Gen) : Nat :=
  if g.fsm = .streaming then words d L - g.pos + 1 else if s.txValid ≠ 0 then 1 else 0

def flagsOf (W q : Nat) : Bool × Bool := (q == 0, q + 1 == W)

/-- (first, last) of the word handed to the consumer in this cycle -/
def fxfer (s : State) (i : In) : List (Bool × Bool) :=
  if s.txValid ≠ 0 ∧ i.ready = true then [(s.txFirst, s.txLast)] else []

/-- (first, last) of the words still to come: the tx register, then the generator's remaining words -/
def fpending (d : Desc) (L : Nat) (s : State) (g : Gen) : List (Bool × Bool) :=
  (if s.txValid ≠ 0 then [(s.txFirst, s.txLast)] else []) ++
  (if g.fsm = .streaming then (List.range' g.pos (words d L - g.pos)).map (flagsOf (words d L)) else [])

def fdelivered (c : List Desc) : State → List In → List (Bool × Bool)
  | _, [] => []
  | s, i :: is => fxfer s i ++ fdelivered c (next c s i) is

theorem genOut_flags (d : Desc) (g : Gen) (hs : g.fsm = .streaming) :
    (genOut d g).first = (g.pos == 0) ∧ (genOut d g).last = onLast d g := by
  simp [genOut, hs, onLast]

theorem onLast_words (d : Desc) (L : Nat) (g : Gen) (h : GInv d L g) :
    (onLast d g = true ↔ g.pos + 1 = words d L) ∧ g.pos < words d L := by
  have h3 := h.pos
  constructor
  · rw [onLast_iff d L g h]; unfold words; omega
  · unfold words; omega

/-- One cycle of the response: the measure drops by one in every ready cycle and never rises; the framing flags
handed over in this cycle are exactly what leaves `fpending`. -/
theorem step_mu (c : List Desc) (v k : Nat) (d : Desc) (L : Nat) (s : State) (g : Gen) (i : In)
    (hsel : select c v = some k) (hd : c[k]? = some d)
    (hlen : d.len < 65536) (hL : L < 65536)
    (hi : Inv k d L s g) (hv : i.value = v) (_hl : i.length = L) (hst : i.start = false) :
    ∃ g', (next c s i).gens[k]? = some g' ∧
      mu d L (next c s i) g' ≤ mu d L s g - (if i.ready then 1 else 0) ∧
      fxfer s i ++ fpending d L (next c s i) g' = fpending d L s g := by
  obtain ⟨hgen, hginv, htx⟩ := hi
  have hg' := gensNext_get (select c i.value) i (load s i) c s.gens 0 k d g hd hgen
  simp only [hv, hsel, Nat.zero_add, beq_self_eq_true, Bool.true_and, if_true] at hg'
  by_cases hld : load s i = true
  · have hnext : next c s i = ⟨gensNext (some k) i true 0 c s.gens, (genOut d g).valid,
        (genOut d g).first, (genOut d g).last, (genOut d g).payload, (genOut d g).outLen⟩ := by
      simp [next, hv, hsel, hld, hd, hgen]
    rw [hld] at hg'
    have hx : fxfer s i = (if s.txValid ≠ 0 then [(s.txFirst, s.txLast)] else []) := by
      simp only [fxfer, load, Bool.or_eq_true, beq_iff_eq] at hld ⊢
      by_cases h0 : s.txValid = 0
      · simp [h0]
      · rcases hld with h | h
        · exact absurd h h0
        · simp [h0, h]
    cases hfsm : g.fsm
    · -- idle: stays idle, the tx register is emptied
      refine ⟨_, by rw [hnext]; exact hg', ?_, ?_⟩
      · rw [hnext]; simp [mu, genNext, hfsm, hst, genOut]
      · rw [hx, hnext]; simp [fpending, genNext, hfsm, hst, genOut]
    · -- streaming
      have hG := hginv hfsm
      obtain ⟨hc, _, _⟩ := genOut_streaming d L g hfsm hG hL hlen
      obtain ⟨hf1, hf2⟩ := genOut_flags d g hfsm
      obtain ⟨hlw, hpw⟩ := onLast_words d L g hG
      have hvne : (genOut d g).valid ≠ 0 := cnt_pos_ne_zero _ (by rw [hc]; have := hG.pos; omega)
      by_cases hlast : onLast d g = true
      · have hW := hlw.1 hlast
        refine ⟨_, by rw [hnext]; exact hg', ?_, ?_⟩
        · rw [hnext]
          simp only [mu, genNext, hfsm, hlast, Bool.not_true, Bool.false_eq_true, if_false, if_true, reduceCtorEq,
            hvne, ne_eq, not_false_eq_true]
          split <;> omega
        · rw [hx, hnext]
          have hr : words d L - g.pos = 1 := by omega
          simp only [fpending, genNext, hfsm, hlast, Bool.not_true, Bool.false_eq_true, if_false, if_true,
            reduceCtorEq, hvne, ne_eq, not_false_eq_true, List.append_nil, hr, List.range'_one, List.map_cons,
            List.map_nil, hf1, hf2, flagsOf]
          simp [hW]
      · have hnl : onLast d g = false := by simpa using hlast
        have hW : ¬ (g.pos + 1 = words d L) := fun h => hlast (hlw.2 h)
        refine ⟨_, by rw [hnext]; exact hg', ?_, ?_⟩
        · rw [hnext]
          simp only [mu, genNext, hfsm, hnl, Bool.not_false, if_true]
          split <;> omega
        · rw [hx, hnext]
          have hr : words d L - g.pos = (words d L - (g.pos + 1)) + 1 := by omega
          simp only [fpending, genNext, hfsm, hnl, Bool.not_false, if_true, hvne, ne_eq, not_false_eq_true,
            hf1, hf2]
          rw [hr, List.range'_succ]
          simp [flagsOf, hW]
    · -- done: the generator returns to idle, the tx register is emptied
      refine ⟨_, by rw [hnext]; exact hg', ?_, ?_⟩
      · rw [hnext]; simp [mu, genNext, hfsm, genOut]
      · rw [hx, hnext]; simp [fpending, genNext, hfsm, genOut]
  · -- the tx register is full and not taken: nothing moves (and this is not a ready cycle)
    have hldf : load s i = false := by simpa using hld
    have hnext : next c s i = { s with gens := gensNext (some k) i false 0 c s.gens } := by
      simp [next, hv, hsel, hldf]
    rw [hldf] at hg'
    simp only [load, Bool.or_eq_false_iff] at hldf
    have hrf : i.ready = false := hldf.2
    have hx : fxfer s i = [] := by simp [fxfer, hrf]
    cases hfsm : g.fsm
    · refine ⟨_, by rw [hnext]; exact hg', ?_, ?_⟩
      · rw [hnext]; simp [mu, genNext, hfsm, hst, hrf]
      · rw [hx, hnext]; simp [fpending, genNext, hfsm, hst]
    · refine ⟨_, by rw [hnext]; exact hg', ?_, ?_⟩
      · rw [hnext]; simp [mu, genNext, hfsm, hrf]
      · rw [hx, hnext]; simp [fpending, genNext, hfsm]
    · refine ⟨_, by rw [hnext]; exact hg', ?_, ?_⟩
      · rw [hnext]; simp [mu, genNext, hfsm, hrf]
      · rw [hx, hnext]; simp [fpending, genNext, hfsm]

def readyCount (rs : List Bool) : Nat := rs.count true

theorem run_mu (c : List Desc) (v k : Nat) (d : Desc) (L : Nat)
    (hsel : select c v = some k) (hd : c[k]? = some d) (hb : BytesOK d.bytes)
    (hlen : d.len < 65536) (hL : L < 65536) :
    ∀ (rs : List Bool) (s : State) (g : Gen), Inv k d L s g →
      ∃ g', (runState c s (heldIns v L rs)).gens[k]? = some g' ∧
        mu d L (runState c s (heldIns v L rs)) g' ≤ mu d L s g - readyCount rs ∧
        fdelivered c s (heldIns v L rs) ++ fpending d L (runState c s (heldIns v L rs)) g' = fpending d L s g
  | [], s, g, hi => ⟨g, hi.gen, by simp [heldIns, runState, readyCount], by simp [heldIns, fdelivered, runState]⟩
  | r :: rs, s, g, hi => by
    obtain ⟨g1, hi1, _⟩ := step_inv c v k d L s g ⟨v, L, false, r⟩ hsel hd hb hlen hL hi rfl rfl (Or.inl rfl)
    obtain ⟨g1', hg1', hm1, hf1⟩ := step_mu c v k d L s g ⟨v, L, false, r⟩ hsel hd hlen hL hi rfl rfl rfl
    have hgg : g1' = g1 := by
      have := hi1.gen; rw [hg1'] at this; exact Option.some.inj this
    subst hgg
    obtain ⟨g2, hg2, hm2, hf2⟩ := run_mu c v k d L hsel hd hb hlen hL rs _ g1' hi1
    refine ⟨g2, ?_, ?_, ?_⟩
    · simpa only [heldIns, List.map_cons, runState] using hg2
    · simp only [heldIns, List.map_cons, runState] at hm2 ⊢
      simp only [readyCount, List.count_cons] at hm1 ⊢
      cases r <;> simp at hm1 ⊢ <;> simp only [readyCount] at hm2 <;> omega
    · simp only [heldIns, List.map_cons, fdelivered, runState] at hf2 ⊢
      rw [List.append_assoc, hf2, hf1]

/-- the measure and the pending flags right after the start cycle -/
theorem start_mu (c : List Desc) (v k : Nat) (d : Desc) (L : Nat) (s : State) (r : Bool)
    (hsel : select c v = some k) (hd : c[k]? = some d) (_hpos : 0 < d.len) (hq : Quiescent k s) :
    ∃ g', (next c s ⟨v, L, true, r⟩).gens[k]? = some g' ∧
      mu d L (next c s ⟨v, L, true, r⟩) g' ≤ words d L + 1 ∧
      fpending d L (next c s ⟨v, L, true, r⟩) g' = (List.range' 0 (words d L)).map (flagsOf (words d L)) ∧
      fxfer s ⟨v, L, true, r⟩ = [] := by
  obtain ⟨g, hgen, hidle, htx⟩ := hq
  have hg' := gensNext_get (select c v) ⟨v, L, true, r⟩ true c s.gens 0 k d g hd hgen
  simp only [hsel, Nat.zero_add, beq_self_eq_true, Bool.true_and, if_true] at hg'
  have hld : load s ⟨v, L, true, r⟩ = true := by simp [load, htx]
  have hnext : next c s ⟨v, L, true, r⟩ = ⟨gensNext (some k) ⟨v, L, true, r⟩ true 0 c s.gens,
      (genOut d g).valid, (genOut d g).first, (genOut d g).last, (genOut d g).payload,
      (genOut d g).outLen⟩ := by
    simp [next, hsel, hld, hd, hgen]
  refine ⟨_, by rw [hnext]; exact hg', ?_, ?_, by simp [fxfer, htx]⟩
  · rw [hnext]
    by_cases hL0 : L = 0
    · simp [mu, genOut, genNext, hidle, hL0]
    · have : (decide (L > 0)) = true := by simp; omega
      simp [mu, genNext, hidle, this]
  · rw [hnext]
    by_cases hL0 : L = 0
    · simp [fpending, genOut, genNext, hidle, hL0, words]
    · have : (decide (L > 0)) = true := by simp; omega
      simp [fpending, genOut, genNext, hidle, this]

/-- **C48 (descriptor data, liveness)**: if the cycles after the start cycle contain at least `words + 1` ready
cycles (`words = ⌈min L len / 4⌉`), the handler is quiescent again at the end: the selected generator is not
streaming and the tx register is empty. -/
theorem ss_descriptor_finishes (c : List Desc) (v k : Nat) (d : Desc) (L : Nat) (s : State)
    (r0 : Bool) (rs : List Bool)
    (hsel : select c v = some k) (hd : c[k]? = some d) (hb : BytesOK d.bytes)
    (hpos : 0 < d.len) (hlen : d.len < 65536) (hL : L < 65536) (hq : Quiescent k s)
    (hr : words d L + 1 ≤ readyCount rs) :
    (∀ g', (runState c s (⟨v, L, true, r0⟩ :: heldIns v L rs)).gens[k]? = some g' → g'.fsm ≠ .streaming) ∧
    (runState c s (⟨v, L, true, r0⟩ :: heldIns v L rs)).txValid = 0 := by
  obtain ⟨g1, hi1, _, _⟩ := start_step c v k d L s r0 hsel hd hpos hq
  obtain ⟨g1', hg1', hm1, _⟩ := start_mu c v k d L s r0 hsel hd hpos hq
  have hgg : g1' = g1 := by
    have := hi1.gen; rw [hg1'] at this; exact Option.some.inj this
  subst hgg
  obtain ⟨g2, hg2, hm2, _⟩ := run_mu c v k d L hsel hd hb hlen hL rs _ g1' hi1
  have h0 : mu d L (runState c (next c s ⟨v, L, true, r0⟩) (heldIns v L rs)) g2 = 0 := by omega
  simp only [runState]
  constructor
  · intro g' hg'
    rw [hg2] at hg'
    have := Option.some.inj hg'; subst this
    intro hs
    simp [mu, hs] at h0
  · by_cases hs : g2.fsm = .streaming
    · simp [mu, hs] at h0
    · simp only [mu, hs, if_false] at h0
      by_cases ht : (runState c (next c s ⟨v, L, true, r0⟩) (heldIns v L rs)).txValid = 0
      · exact ht
      · simp [ht] at h0

/-- **C48 (descriptor data, total)**: with `words + 1` ready cycles after the start cycle the host has received
exactly the first `min L len` bytes of the requested descriptor. -/
theorem ss_descriptor_delivers_all (c : List Desc) (v k : Nat) (d : Desc) (L : Nat) (s : State)
    (r0 : Bool) (rs : List Bool)
    (hsel : select c v = some k) (hd : c[k]? = some d) (hb : BytesOK d.bytes)
    (hpos : 0 < d.len) (hlen : d.len < 65536) (hL : L < 65536) (hq : Quiescent k s)
    (hr : words d L + 1 ≤ readyCount rs) :
    delivered c s (⟨v, L, true, r0⟩ :: heldIns v L rs) = d.bytes.take (min L d.len) := by
  obtain ⟨h1, h2⟩ := ss_descriptor_finishes c v k d L s r0 rs hsel hd hb hpos hlen hL hq hr
  exact ss_descriptor_complete c v k d L s r0 rs hsel hd hb hpos hlen hL hq h1 h2

/-- **C48 (framing)**: at every moment, the (first, last) flags of the words handed to the consumer followed by those
of the words still pending are `(q = 0, q + 1 = words)` for `q = 0 … words − 1`, under every `tx.ready` pattern. -/
theorem ss_descriptor_framing (c : List Desc) (v k : Nat) (d : Desc) (L : Nat) (s : State)
    (r0 : Bool) (rs : List Bool)
    (hsel : select c v = some k) (hd : c[k]? = some d) (hb : BytesOK d.bytes)
    (hpos : 0 < d.len) (hlen : d.len < 65536) (hL : L < 65536) (hq : Quiescent k s) :
    ∃ g', (runState c s (⟨v, L, true, r0⟩ :: heldIns v L rs)).gens[k]? = some g' ∧
      fdelivered c s (⟨v, L, true, r0⟩ :: heldIns v L rs)
          ++ fpending d L (runState c s (⟨v, L, true, r0⟩ :: heldIns v L rs)) g'
        = (List.range' 0 (words d L)).map (flagsOf (words d L)) := by
  obtain ⟨g1, hi1, _, _⟩ := start_step c v k d L s r0 hsel hd hpos hq
  obtain ⟨g1', hg1', _, hf1, hx1⟩ := start_mu c v k d L s r0 hsel hd hpos hq
  have hgg : g1' = g1 := by
    have := hi1.gen; rw [hg1'] at this; exact Option.some.inj this
  subst hgg
  obtain ⟨g2, hg2, _, hf2⟩ := run_mu c v k d L hsel hd hb hlen hL rs _ g1' hi1
  refine ⟨g2, by simpa only [runState] using hg2, ?_⟩
  simp only [fdelivered, runState, hx1, List.nil_append]
  rw [hf2, hf1]

/-- **C48 (framing, total)**: with `words + 1` ready cycles after the start cycle, the words handed to the consumer
carry exactly the flags `(q = 0, q + 1 = words)`, `q = 0 … words − 1`: `first` on the first word only, `last` on the
last word only, `words` words in all. -/
theorem ss_descriptor_framing_complete (c : List Desc) (v k : Nat) (d : Desc) (L : Nat) (s : State)
    (r0 : Bool) (rs : List Bool)
    (hsel : select c v = some k) (hd : c[k]? = some d) (hb : BytesOK d.bytes)
    (hpos : 0 < d.len) (hlen : d.len < 65536) (hL : L < 65536) (hq : Quiescent k s)
    (hr : words d L + 1 ≤ readyCount rs) :
    fdelivered c s (⟨v, L, true, r0⟩ :: heldIns v L rs) = (List.range' 0 (words d L)).map (flagsOf (words d L)) := by
  obtain ⟨g', hg, he⟩ := ss_descriptor_framing c v k d L s r0 rs hsel hd hb hpos hlen hL hq
  obtain ⟨h1, h2⟩ := ss_descriptor_finishes c v k d L s r0 rs hsel hd hb hpos hlen hL hq hr
  have hns := h1 g' hg
  rw [← he]
  simp [fpending, h2, hns]

/- Non-vacuity: the 18-byte descriptor of `demoC`, wLength 8 (2 words): 3 ready cycles after the start cycle. -/
example : words ⟨0x0100, [18, 1, 0, 3, 0, 0, 0, 9, 0xd0, 0x16, 0x3b, 0x0f, 0, 0, 1, 2, 3, 1]⟩ 8 + 1
    ≤ readyCount [false, true, false, true, true, true] := by decide
example : fdelivered demoC (init demoC) (⟨0x0100, 8, true, true⟩ :: heldIns 0x0100 8 [false, true, false, true, true, true])
    = [(true, false), (false, true)] := by decide
example : fdelivered demoC (init demoC) (⟨0x0300, 64, true, false⟩ :: heldIns 0x0300 64 [true, true, true])
    = [(true, false), (false, true)] := by decide
example : fdelivered demoC (init demoC) (⟨0x0300, 3, true, false⟩ :: heldIns 0x0300 3 [true, true])
    = [(true, true)] := by decide

end LunaVerif.SSDesc
