import LunaVerif.Model.Periph.StreamArbiter
/-!
# C26 — Stream arbiters and multiplexers forward whole bursts without loss

"A stream arbiter forwards words only from the currently selected input, never switches inputs
while that input's valid is held, selects the highest-priority waiting input when the current one
goes idle, and passes ready back only to the selected input, so that every accepted word is
delivered exactly once and bursts are never interleaved; 'idle' is asserted exactly when no input is
offering data."

All theorems are for every number of inputs `n` (`n ≥ 1` where a selected input must exist), every
selection state `s < n` (every reachable state is one, `reachable_lt`), every payload and every
valid/ready history.  "Priority" is as coded: streams added first (lowest index) win.
-/
namespace LunaVerif.StreamArbiter

/-! ## Specification vocabulary -/

/-- The highest-priority waiting input: the lowest index whose `valid` is high. -/
def firstValid : List Sink → Option Nat
  | [] => none
  | x :: xs => if x.valid then some 0 else (firstValid xs).map (· + 1)

/-- The words accepted from the inputs in one cycle (input index, word): input `k` hands over a
word iff its `valid` and the `ready` it sees are both high.  `k0` = index of the first list element. -/
def acceptedFrom : Nat → List Sink → List Bool → List (Nat × Nat)
  | k0, a :: as, r :: rs => (if a.valid && r then [(k0, a.data)] else []) ++ acceptedFrom (k0 + 1) as rs
  | _, _, _ => []

/-- All words accepted from the inputs during a history, in time order. -/
def sinkTransfers (n : Nat) : Nat → List In → List (Nat × Nat)
  | _, [] => []
  | s, x :: xs => acceptedFrom 0 x.sinks (step n s x).2.readys ++ sinkTransfers n (step n s x).1 xs

/-- All words delivered on the output during a history (tagged with the selected input), in time order. -/
def sourceTransfers (n : Nat) : Nat → List In → List (Nat × Nat)
  | _, [] => []
  | s, x :: xs =>
    (if (step n s x).2.valid && x.ready then [(s, (step n s x).2.data)] else [])
      ++ sourceTransfers n (step n s x).1 xs

/-- Well-formed history: every cycle presents exactly `n` inputs. -/
def WF (n : Nat) (hist : List In) : Prop := ∀ x ∈ hist, x.sinks.length = n

/-! ## Lemmas -/

theorem firstValid_spec (l : List Sink) :
    match firstValid l with
    | some j => (∃ a, l[j]? = some a ∧ a.valid = true) ∧ ∀ i, i < j → ∀ a, l[i]? = some a → a.valid = false
    | none => ∀ a ∈ l, a.valid = false := by
  induction l with
  | nil => simp [firstValid]
  | cons x xs ih =>
    unfold firstValid
    by_cases hx : x.valid = true
    · simp [hx]
    · simp only [hx, if_false, Bool.false_eq_true]
      cases hf : firstValid xs with
      | none =>
        simp only [hf] at ih
        simp only [Option.map_none, List.mem_cons]
        rintro a (rfl | ha)
        · simpa using hx
        · exact ih a ha
      | some j =>
        simp only [hf] at ih
        simp only [Option.map_some]
        refine ⟨by simpa using ih.1, ?_⟩
        intro i hi a ha
        cases i with
        | zero => simp at ha; subst ha; simpa using hx
        | succ i => exact ih.2 i (by omega) a (by simpa using ha)

theorem firstValid_lt (l : List Sink) (j : Nat) (h : firstValid l = some j) : j < l.length := by
  have := firstValid_spec l
  rw [h] at this
  obtain ⟨⟨a, ha, _⟩, _⟩ := this
  exact (List.getElem?_eq_some_iff.mp ha).1

/-- The chain of `If`s ("last assignment wins") computes the lowest valid index. -/
theorem scan_eq (l : List Sink) (k : Nat) (acc : Nat × Bool) :
    scan l k acc = match firstValid l with
      | some j => (k + j, false)
      | none => acc := by
  induction l generalizing k with
  | nil => simp [scan, firstValid]
  | cons x xs ih =>
    unfold scan firstValid
    by_cases hx : x.valid = true
    · simp [hx]
    · simp only [hx, if_false, Bool.false_eq_true, ih (k + 1)]
      cases firstValid xs <;> simp; omega

theorem acceptedFrom_readys (s : Nat) (rdy : Bool) (l : List Sink) (k0 : Nat) :
    acceptedFrom k0 l ((List.range' k0 l.length).map (fun k => k == s && rdy)) =
      if k0 ≤ s then
        match l[s - k0]? with
        | some a => if a.valid && rdy then [(s, a.data)] else []
        | none => []
      else [] := by
  induction l generalizing k0 with
  | nil => simp [acceptedFrom]
  | cons x xs ih =>
    simp only [List.length_cons, List.range'_succ, List.map_cons, acceptedFrom, ih (k0 + 1)]
    by_cases h0 : k0 = s
    · subst h0
      have : ¬ (k0 + 1 ≤ k0) := by omega
      simp [this]
    · have hb : (k0 == s) = false := by simpa using h0
      simp only [hb, Bool.false_and, Bool.and_false, Bool.false_eq_true, if_false, List.nil_append]
      by_cases h1 : k0 + 1 ≤ s
      · have h2 : k0 ≤ s := by omega
        have h3 : s - k0 = (s - (k0 + 1)) + 1 := by omega
        simp only [h1, h2, if_true]
        rw [h3, List.getElem?_cons_succ]
      · have h2 : ¬ k0 ≤ s := by omega
        simp [h1, h2]

theorem step_readys (n s : Nat) (i : In) :
    (step n s i).2.readys = (List.range n).map (fun k => k == s && i.ready) := by
  unfold step
  cases i.sinks[s]? <;> simp only [] <;> split <;> rfl

/-! ## The clauses of the property -/

/-- **forwards_only_selected**: the output stream (valid and every data field) is that of the
selected input, whatever the other inputs do. -/
theorem forwards_only_selected (n s : Nat) (i : In) (hl : i.sinks.length = n) (hs : s < n) :
    ∃ a, i.sinks[s]? = some a ∧ (step n s i).2.valid = a.valid ∧ (step n s i).2.data = a.data := by
  obtain ⟨a, ha⟩ : ∃ a, i.sinks[s]? = some a := ⟨i.sinks[s], List.getElem?_eq_getElem (by omega)⟩
  refine ⟨a, ha, ?_⟩
  unfold step
  simp only [ha]
  cases hv : a.valid <;> simp

/-- **no_switch_while_valid**: while the selected input holds `valid`, the selection is kept. -/
theorem no_switch_while_valid (n s : Nat) (i : In) (a : Sink) (ha : i.sinks[s]? = some a)
    (hv : a.valid = true) : (step n s i).1 = s := by
  unfold step; simp [ha, hv]

/-- **picks_highest_priority_waiting**: when the selected input is not offering data, the next
selection is the lowest-index input with `valid` high (none of the inputs before it is valid —
`firstValid_spec`), and the selection is unchanged when nobody is waiting. -/
theorem picks_highest_priority_waiting (n s : Nat) (i : In) (a : Sink) (ha : i.sinks[s]? = some a)
    (hv : a.valid = false) :
    (step n s i).1 = (match firstValid i.sinks with | some j => j | none => s) ∧
    (∀ j, firstValid i.sinks = some j →
      (∃ b, i.sinks[j]? = some b ∧ b.valid = true) ∧
      ∀ k, k < j → ∀ b, i.sinks[k]? = some b → b.valid = false) := by
  constructor
  · unfold step
    simp only [ha, hv, Bool.false_eq_true, if_false, scan_eq]
    cases firstValid i.sinks <;> simp
  · intro j hj
    have := firstValid_spec i.sinks
    rw [hj] at this
    exact this

/-- **ready_only_to_selected**: input `k` sees `ready` iff it is the selected one and the consumer
is ready. -/
theorem ready_only_to_selected (n s : Nat) (i : In) :
    (step n s i).2.readys.length = n ∧
    ∀ k, k < n → (step n s i).2.readys[k]? = some (k == s && i.ready) := by
  rw [step_readys]
  refine ⟨by simp, ?_⟩
  intro k hk
  simp [List.getElem?_map, List.getElem?_range hk]

/-- **idle_iff_none_valid**: `idle` is asserted exactly when no input offers data. -/
theorem idle_iff_none_valid (n s : Nat) (i : In) (hl : i.sinks.length = n) (hs : s < n) :
    (step n s i).2.idle = true ↔ ∀ a ∈ i.sinks, a.valid = false := by
  obtain ⟨a, ha⟩ : ∃ a, i.sinks[s]? = some a := ⟨i.sinks[s], List.getElem?_eq_getElem (by omega)⟩
  have hmem : a ∈ i.sinks := List.mem_of_getElem? ha
  unfold step
  simp only [ha]
  by_cases hv : a.valid = true
  · simp only [hv, if_true, Bool.false_eq_true, false_iff]
    intro h; have := h a hmem; simp [hv] at this
  · simp only [hv, if_false, Bool.false_eq_true, scan_eq]
    have := firstValid_spec i.sinks
    cases hf : firstValid i.sinks with
    | none => simpa [hf] using this
    | some j =>
      simp only [hf] at this
      obtain ⟨⟨b, hb, hbv⟩, _⟩ := this
      simp only [Bool.false_eq_true, false_iff]
      intro h; have := h b (List.mem_of_getElem? hb); simp [hbv] at this

/-- the selection register always names one of the inputs -/
theorem step_lt (n s : Nat) (i : In) (hl : i.sinks.length = n) (hs : s < n) : (step n s i).1 < n := by
  obtain ⟨a, ha⟩ : ∃ a, i.sinks[s]? = some a := ⟨i.sinks[s], List.getElem?_eq_getElem (by omega)⟩
  cases hv : a.valid
  · rw [(picks_highest_priority_waiting n s i a ha hv).1]
    cases hf : firstValid i.sinks with
    | none => simpa using hs
    | some j => have := firstValid_lt _ _ hf; simp; omega
  · rw [no_switch_while_valid n s i a ha hv]; exact hs

theorem reachable_lt (n : Nat) (hn : 1 ≤ n) (hist : List In) (hw : WF n hist) : runState n 0 hist < n := by
  suffices h : ∀ s, s < n → runState n s hist < n from h 0 (by omega)
  induction hist with
  | nil => intro s hs; simpa [runState] using hs
  | cons x xs ih =>
    intro s hs
    simp only [runState]
    exact ih (fun y hy => hw y (List.mem_cons_of_mem _ hy)) _ (step_lt n s x (hw x (List.mem_cons_self ..)) hs)

/-- One cycle: what the inputs hand over is exactly what the output delivers. -/
theorem step_transfers (n s : Nat) (i : In) (hl : i.sinks.length = n) (hs : s < n) :
    acceptedFrom 0 i.sinks (step n s i).2.readys =
      if (step n s i).2.valid && i.ready then [(s, (step n s i).2.data)] else [] := by
  have hr : (step n s i).2.readys = (List.range' 0 i.sinks.length).map (fun k => k == s && i.ready) := by
    rw [hl, ← List.range_eq_range']; exact step_readys n s i
  obtain ⟨a, ha, hv, hd⟩ := forwards_only_selected n s i hl hs
  rw [hr, acceptedFrom_readys, hv, hd]
  simp [ha]

/-- **every_accepted_word_delivered_once**: for every history, the sequence of words the inputs
hand over (with the index of the input) equals the sequence of words delivered on the output (with
the index of the selected input): nothing lost, nothing duplicated, nothing reordered. -/
theorem every_accepted_word_delivered_once (n s : Nat) (hs : s < n) (hist : List In) (hw : WF n hist) :
    sinkTransfers n s hist = sourceTransfers n s hist := by
  induction hist generalizing s with
  | nil => rfl
  | cons x xs ih =>
    have hl := hw x (List.mem_cons_self ..)
    simp only [sinkTransfers, sourceTransfers]
    rw [step_transfers n s x hl hs,
      ih _ (step_lt n s x hl hs) (fun y hy => hw y (List.mem_cons_of_mem _ hy))]

/-- **burst_not_interrupted** (bursts are never interleaved): as long as the selected input `s`
holds `valid`, the selection stays `s`, and every word delivered in that time comes from `s`
whatever the other inputs and the consumer do. -/
theorem burst_not_interrupted (n s : Nat) (hist : List In)
    (hb : ∀ x ∈ hist, ∃ a, x.sinks[s]? = some a ∧ a.valid = true) :
    runState n s hist = s ∧ ∀ p ∈ sourceTransfers n s hist, p.1 = s := by
  induction hist with
  | nil => simp [runState, sourceTransfers]
  | cons x xs ih =>
    obtain ⟨a, ha, hv⟩ := hb x (List.mem_cons_self ..)
    have hst := no_switch_while_valid n s x a ha hv
    have ih' := ih (fun y hy => hb y (List.mem_cons_of_mem _ hy))
    simp only [runState, sourceTransfers, hst]
    refine ⟨ih'.1, ?_⟩
    intro p hp
    rcases List.mem_append.mp hp with h | h
    · split at h <;> simp_all
    · exact ih'.2 p h

/-! ## Non-vacuity: two inputs, a burst on input 1 is not interrupted by higher-priority input 0 -/
example :
    let h : List In := [⟨[⟨false, 0⟩, ⟨true, 7⟩], true⟩, ⟨[⟨true, 1⟩, ⟨true, 7⟩], true⟩,
                        ⟨[⟨true, 1⟩, ⟨true, 8⟩], false⟩, ⟨[⟨true, 1⟩, ⟨true, 8⟩], true⟩,
                        ⟨[⟨true, 1⟩, ⟨false, 0⟩], true⟩, ⟨[⟨true, 1⟩, ⟨false, 0⟩], true⟩]
    WF 2 h ∧ sourceTransfers 2 0 h = [(1, 7), (1, 8), (0, 1)] ∧ sinkTransfers 2 0 h = [(1, 7), (1, 8), (0, 1)] := by
  refine ⟨by simp [WF], by decide, by decide⟩

end LunaVerif.StreamArbiter
