import LunaVerif.Model.Usb3.RawPacketTransmitter
/-!
# C36 — Header and data packets are transmitted with correct framing and CRCs

"Each transmitted header packet is SHP-SHP-SHP-EPF, three header words, and a fourth word with the
header CRC16, sequence number and a link-control CRC5; a data header is followed by SDP-SDP-SDP-EPF,
the payload bytes in order, the CRC32 of the payload placed immediately after its last byte, and END
symbols padding to the word boundary followed by END-END-END-EPF (or an EDB abort when the packet is
marked delayed).  Receiving such a stream with the link-layer receivers yields the same header and
payload with good CRCs."

FULL STATEMENT: `tx_emits_frame` in `Lemmas/C36Frame.lean` (this file holds the one-step facts and
the pieces that were proved first): for every header, every payload presented on `data_sink` under the
stream contract `obeys`, and every `source.ready` pattern, the words transferred between `generate`
and `done` are `frame hdr payload` (a functional definition, symbol level for the payload part), `done`
is raised exactly when the frame is complete, and the stream is consumed exactly once.  The round trip
`rx_of_tx` (header receiver model of C37, data receiver model of C40 over `frame hdr payload`) is in
`Lemmas/C36RoundTrip.lean`.
HERE: a stalled cycle changes nothing (`stall_invariant`, `stall_cycle_invisible`); the header part for
every header (`header_words`); the abort (`delayed_aborts_with_edb`); zero-length and one-word payloads
(`tx_emits_frame_partial`); payloads of two or more words with the PHY always ready
(`payload_words_in_order`, `dpp_frame_all_lengths`); the symbol-level content of the three closing
words (`crc32_immediately_after_last_byte`).
-/
namespace LunaVerif.RawPacketTransmitter

/-- DWORD 3 of the specification: CRC-16 of DWORD 0..2, link control word, its CRC-5. -/
def specDw3 (dw0 dw1 dw2 lcw : Nat) : Nat := crc16Of [dw0, dw1, dw2] + 2 ^ 16 * lcw + 2 ^ 27 * crc5Of lcw

/-- The header part of every frame. -/
def headerFrame (dw0 dw1 dw2 lcw : Nat) : List (Nat × Nat) :=
  [(HPSTART, 0xF), (dw0, 0), (dw1, 0), (dw2, 0), (specDw3 dw0 dw1 dw2 lcw, 0)]

/-! ## ready patterns -/

/-- A cycle in which the PHY is not ready changes nothing (outside IDLE): the state is kept, the
same word stays on the bus (`valid`), nothing is accepted from the payload stream, `done` is low. -/
theorem stall_invariant (s : State) (hs : s.fsm ≠ .idle) (i : In) (hr : i.ready = false) :
    (step s i).1 = s ∧ (step s i).2.valid = true ∧ (step s i).2.done = false ∧
      (step s i).2.sinkReady = false := by
  obtain ⟨f, a, b, c, l, pw, pv, z, c16, c32⟩ := s
  cases f <;> simp_all [step]

/-- Hence a stalled cycle is invisible in what is transferred and in where the transmitter ends up:
every ready pattern yields the words of the all-ready run. -/
theorem stall_cycle_invisible (s : State) (hs : s.fsm ≠ .idle) (i : In) (hr : i.ready = false)
    (h : List In) :
    emitted (run s (i :: h)) = emitted (run s h) ∧ final s (i :: h) = final s h := by
  have ⟨h1, _, _, _⟩ := stall_invariant s hs i hr
  simp [run, final, emitted, h1, hr]

/-! ## header -/

/-- **Header words.**  For every start state in IDLE, every header (dw0, dw1, dw2, link control word)
present at `generate`, whatever the inputs are afterwards (with the PHY ready): the first five
words transferred are SHP SHP SHP EPF, the three header words unaltered, and DWORD 3 = CRC-16 of
those three words | link control word | CRC-5 of the link control word.  A non-data header ends
there with `done`, back in IDLE. -/
theorem header_words (s : State) (hs : s.fsm = .idle) (g i1 i2 i3 i4 i5 : In)
    (hg : g.generate = true) (h1 : i1.ready = true) (h2 : i2.ready = true) (h3 : i3.ready = true)
    (h4 : i4.ready = true) (h5 : i5.ready = true)
    (hw : g.dw0 < 2 ^ 32 ∧ g.dw1 < 2 ^ 32 ∧ g.dw2 < 2 ^ 32 ∧ g.lcw < 2 ^ 11) :
    emitted (run s [g, i1, i2, i3, i4, i5]) = headerFrame g.dw0 g.dw1 g.dw2 g.lcw ∧
    (g.dw0 % 16 ≠ 8 → (final s [g, i1, i2, i3, i4, i5]).fsm = .idle ∧
        ((run s [g, i1, i2, i3, i4, i5]).map (·.2.done)) = [false, false, false, false, false, true]) ∧
    (g.dw0 % 16 = 8 → (final s [g, i1, i2, i3, i4, i5]).fsm = .startDpp ∧
        (final s [g, i1, i2, i3, i4, i5]).lcw = g.lcw ∧
        (final s [g, i1, i2, i3, i4, i5]).isZlp = (i5.sinkValid % 16 == 0) ∧
        (final s [g, i1, i2, i3, i4, i5]).crc32In = []) := by
  obtain ⟨f, a, b, c, l, pw, pv, z, c16, c32⟩ := s
  simp only at hs
  subst hs
  obtain ⟨w0, w1, w2, w3⟩ := hw
  have m0 : g.dw0 % 2 ^ 32 = g.dw0 := Nat.mod_eq_of_lt w0
  have m1 : g.dw1 % 2 ^ 32 = g.dw1 := Nat.mod_eq_of_lt w1
  have m2 : g.dw2 % 2 ^ 32 = g.dw2 := Nat.mod_eq_of_lt w2
  have m3 : g.lcw % 2 ^ 11 = g.lcw := Nat.mod_eq_of_lt w3
  refine ⟨?_, ?_, ?_⟩
  · simp [run, step, emitted, hg, h1, h2, h3, h4, h5, m0, m1, m2, m3, headerFrame, specDw3, dw3Word]
  · intro hnd
    simp [run, final, step, hg, h1, h2, h3, h4, h5, m0, m1, m2, m3, hnd]
  · intro hd
    simp [run, final, step, hg, h1, h2, h3, h4, h5, m0, m1, m2, m3, hd]

/-! ## after the data header -/

/-- **Abort.**  From START_DPP with a header marked delayed: DPPSTART, then EDB EDB EDB EPF, `done`,
back to IDLE; no payload word is taken from the stream. -/
theorem delayed_aborts_with_edb (s : State) (hs : s.fsm = .startDpp) (hd : s.lcw / 2 ^ 9 % 2 = 1)
    (i1 i2 : In) (h1 : i1.ready = true) (h2 : i2.ready = true) :
    emitted (run s [i1, i2]) = [(DPPSTART, 0xF), (DPPABORT, 0xF)] ∧
    (run s [i1, i2]).map (·.2.done) = [false, true] ∧
    (run s [i1, i2]).map (·.2.sinkReady) = [false, false] ∧ (final s [i1, i2]).fsm = .idle := by
  obtain ⟨f, a, b, c, l, pw, pv, z, c16, c32⟩ := s
  simp only at hs hd
  subst hs
  simp [run, final, step, emitted, h1, h2, hd]

/-- The three closing words as a symbol (byte, is-K) stream. -/
def tailSyms (pv pw crc : Nat) : List (Nat × Bool) :=
  let w1 := lastWordData pv pw crc
  let w2 := crcWord pv crc
  let w3 := finishWord pv
  let syms (d c : Nat) : List (Nat × Bool) :=
    [(d % 256, c % 2 == 1), (d / 256 % 256, c / 2 % 2 == 1), (d / 65536 % 256, c / 4 % 2 == 1),
     (d / 16777216 % 256, c / 8 % 2 == 1)]
  syms w1 0 ++ syms w2.1 w2.2 ++ syms w3.1 w3.2

def dsym (b : Nat) : Nat × Bool := (b, false)
def ksym (b : Nat) : Nat × Bool := (b, true)

/-- **CRC placement, every payload length.**  Whatever the last payload word `pw` (with `k` = 1..4
valid bytes) and the CRC-32 `crc` of the whole payload are: the words sent in SEND_LAST_WORD,
SEND_CRC and FINISH_DPP are, symbol by symbol, the `k` payload bytes, immediately the four CRC bytes
(low byte first), END END END EPF as control symbols, and zero data symbols up to the word boundary. -/
theorem crc32_immediately_after_last_byte (pw crc : Nat) (_hp : pw < 2 ^ 32) (hc : crc < 2 ^ 32) :
    let crcSyms := (wordBytes crc).map dsym
    let endSyms := [ksym 0xFD, ksym 0xFD, ksym 0xFD, ksym 0xF7]
    tailSyms 15 pw crc = (wordBytes pw).map dsym ++ crcSyms ++ endSyms ∧
    tailSyms 7 pw crc = ((wordBytes pw).take 3).map dsym ++ crcSyms ++ endSyms ++ [dsym 0] ∧
    tailSyms 3 pw crc = ((wordBytes pw).take 2).map dsym ++ crcSyms ++ endSyms ++ [dsym 0, dsym 0] ∧
    tailSyms 1 pw crc = ((wordBytes pw).take 1).map dsym ++ crcSyms ++ endSyms ++ [dsym 0, dsym 0, dsym 0] := by
  simp [tailSyms, lastWordData, crcWord, finishWord, wordBytes, dsym, ksym, END, DPPEND]
  omega

/-- **Zero-length and one-word payloads.**  From START_DPP (header not delayed), PHY ready:
* zero-length (`isZlp`): DPPSTART, the CRC-32 of the empty payload, END END END EPF;
* a payload of one word `d` with valid mask `m` ∈ {1, 3, 7, 15} flagged `last`: DPPSTART, then the
  three closing words for (`m`, `d`, CRC-32 of exactly the `lanes m` bytes of `d`) — whose symbol
  content is given by `crc32_immediately_after_last_byte`; exactly one word is accepted from the
  payload stream; `done` on the last word; back to IDLE. -/
theorem tx_emits_frame_partial (s : State) (hs : s.fsm = .startDpp) (hnd : s.lcw / 2 ^ 9 % 2 = 0)
    (hfresh : s.crc32In = []) (i1 i2 i3 i4 : In)
    (h1 : i1.ready = true) (h2 : i2.ready = true) (h3 : i3.ready = true) (h4 : i4.ready = true) :
    (s.isZlp = true →
      emitted (run s [i1, i2, i3]) = [(DPPSTART, 0xF), (crc32Of [], 0), (DPPEND, 0xF)] ∧
      (run s [i1, i2, i3]).map (·.2.done) = [false, false, true] ∧ (final s [i1, i2, i3]).fsm = .idle) ∧
    (s.isZlp = false → i1.sinkLast = true → i1.sinkData < 2 ^ 32 → i1.sinkValid < 16 →
      let crc := crc32Of ((wordBytes i1.sinkData).take (lanes i1.sinkValid))
      emitted (run s [i1, i2, i3, i4]) =
        [(DPPSTART, 0xF), (lastWordData i1.sinkValid i1.sinkData crc, 0), crcWord i1.sinkValid crc,
         finishWord i1.sinkValid] ∧
      (run s [i1, i2, i3, i4]).map (·.2.sinkReady) = [true, false, false, false] ∧
      (run s [i1, i2, i3, i4]).map (·.2.done) = [false, false, false, true] ∧
      (final s [i1, i2, i3, i4]).fsm = .idle) := by
  obtain ⟨f, a, b, c, l, pw, pv, z, c16, c32⟩ := s
  simp only at hs hnd hfresh
  subst hs hfresh
  have hnd' : ¬ (l / 2 ^ 9 % 2 = 1) := by omega
  refine ⟨?_, ?_⟩
  · intro hz
    simp only at hz
    subst hz
    simp [run, final, step, emitted, h1, h2, h3, hnd', crcWord, finishWord]
  · intro hz hl hdat hv
    simp only at hz
    subst hz
    have md : i1.sinkData % 2 ^ 32 = i1.sinkData := Nat.mod_eq_of_lt hdat
    have mv : i1.sinkValid % 16 = i1.sinkValid := Nat.mod_eq_of_lt hv
    simp [run, final, step, emitted, h1, h2, h3, h4, hnd', hl, md, mv, absorb]

/-! ## payloads of two or more words -/

/-- A payload-stream word presented with the PHY ready (the header inputs are irrelevant outside IDLE). -/
def sinkIn (valid data : Nat) (last : Bool) : In := ⟨0, 0, 0, 0, false, true, valid, data, last⟩

def midIns (mid : List Nat) : List In := mid.map fun w => sinkIn 15 w false

/-- **Payload words in order, every length.**  In SEND_PAYLOAD with `w0` in the pipeline register: for
every list `mid` of further full words and a final word `d` with valid mask `m` flagged `last` (PHY ready),
the words transferred are `w0` followed by `mid`, unchanged and in order (ctrl 0), one stream word is
accepted per cycle, and the transmitter arrives in SEND_LAST_WORD holding `d`/`m` with the CRC-32 unit
having absorbed exactly the bytes of `mid` and the `lanes m` valid bytes of `d`. -/
theorem payload_words_in_order (mid : List Nat) (s : State) (hs : s.fsm = .payload)
    (hm : ∀ w ∈ mid, w < 2 ^ 32) (m d : Nat) (hd : d < 2 ^ 32) (hmk : m < 16) :
    emitted (run s (midIns mid ++ [sinkIn m d true])) = (s.pipeWord :: mid).map (fun w => (w, 0)) ∧
    (run s (midIns mid ++ [sinkIn m d true])).map (·.2.sinkReady) = List.replicate (mid.length + 1) true ∧
    (run s (midIns mid ++ [sinkIn m d true])).map (·.2.done) = List.replicate (mid.length + 1) false ∧
    final s (midIns mid ++ [sinkIn m d true]) =
      { s with fsm := .lastWord, pipeWord := d, pipeValid := m,
               crc32In := s.crc32In ++ mid.flatMap wordBytes ++ (wordBytes d).take (lanes m) } := by
  induction mid generalizing s with
  | nil =>
    obtain ⟨f, a, b, c, l, pw, pv, z, c16, c32⟩ := s
    simp only at hs
    subst hs
    have md : d % 2 ^ 32 = d := Nat.mod_eq_of_lt hd
    have mv : m % 16 = m := Nat.mod_eq_of_lt hmk
    simp [midIns, run, final, step, emitted, sinkIn, absorb, md, mv]
  | cons w ws ih =>
    have hw : w < 2 ^ 32 := hm w List.mem_cons_self
    have mw : w % 2 ^ 32 = w := Nat.mod_eq_of_lt hw
    have hstep : step s (sinkIn 15 w false) =
        ({ s with pipeWord := w, pipeValid := 15, crc32In := s.crc32In ++ wordBytes w },
         ⟨true, s.pipeWord, 0, false, true⟩) := by
      obtain ⟨f, a, b, c, l, pw, pv, z, c16, c32⟩ := s
      simp only at hs
      subst hs
      simp [step, sinkIn, absorb, mw, lanes, wordBytes]
    have ih' := ih { s with pipeWord := w, pipeValid := 15, crc32In := s.crc32In ++ wordBytes w } hs
      (fun x hx => hm x (List.mem_cons_of_mem _ hx))
    simp only [midIns, List.map_cons, List.cons_append, run, final, hstep] at ih' ⊢
    obtain ⟨e1, e2, e3, e4⟩ := ih'
    refine ⟨?_, ?_, ?_, ?_⟩
    · simp [emitted] at e1 ⊢
      simpa [sinkIn, emitted] using e1
    · simp [List.replicate_succ] at e2 ⊢; exact e2
    · simp [List.replicate_succ] at e3 ⊢; exact e3
    · rw [e4]; simp [List.append_assoc]

theorem run_append (s : State) (h₁ h₂ : List In) : run s (h₁ ++ h₂) = run s h₁ ++ run (final s h₁) h₂ := by
  induction h₁ generalizing s with
  | nil => rfl
  | cons i is ih => simp [run, final, ih]

theorem final_append (s : State) (h₁ h₂ : List In) : final s (h₁ ++ h₂) = final (final s h₁) h₂ := by
  induction h₁ generalizing s with
  | nil => rfl
  | cons i is ih => simp [final, ih]

theorem emitted_append (a b : List (In × Out)) : emitted (a ++ b) = emitted a ++ emitted b := by
  simp [emitted]

/-- **Data packet payload of two or more words, every length and trailing-byte count.**  From START_DPP
(header not delayed, not a ZLP, CRC unit freshly cleared), PHY ready, the stream presenting the full
words `w0`, `mid…` and the final word `d` with valid mask `m` flagged `last`: the words transferred are
DPPSTART, the payload words unchanged and in order, then the three closing words built from `d`, `m`
and the CRC-32 of exactly the payload bytes (their symbol content: `crc32_immediately_after_last_byte`);
`done` with the last one, back in IDLE. -/
theorem dpp_frame_all_lengths (s : State) (hs : s.fsm = .startDpp) (hnd : s.lcw / 2 ^ 9 % 2 = 0)
    (hz : s.isZlp = false) (hfresh : s.crc32In = []) (w0 : Nat) (mid : List Nat) (m d : Nat)
    (hw0 : w0 < 2 ^ 32) (hm : ∀ w ∈ mid, w < 2 ^ 32) (hd : d < 2 ^ 32) (hmk : m < 16) (t1 t2 t3 : In)
    (r1 : t1.ready = true) (r2 : t2.ready = true) (r3 : t3.ready = true) :
    let ins := sinkIn 15 w0 false :: ((midIns mid ++ [sinkIn m d true]) ++ [t1, t2, t3])
    let crc := crc32Of (wordBytes w0 ++ mid.flatMap wordBytes ++ (wordBytes d).take (lanes m))
    emitted (run s ins) = [(DPPSTART, 0xF)] ++ (w0 :: mid).map (fun w => (w, 0)) ++
        [(lastWordData m d crc, 0), crcWord m crc, finishWord m] ∧
    (final s ins).fsm = .idle := by
  obtain ⟨f, a, b, c, l, pw, pv, z, c16, c32⟩ := s
  simp only at hs hnd hz hfresh
  subst hs hz hfresh
  have hnd' : ¬ (l / 2 ^ 9 % 2 = 1) := by omega
  have mw : w0 % 2 ^ 32 = w0 := Nat.mod_eq_of_lt hw0
  -- first cycle: DPPSTART goes out, w0 is captured
  have hfirst : step ⟨.startDpp, a, b, c, l, pw, pv, false, c16, []⟩ (sinkIn 15 w0 false) =
      (⟨.payload, a, b, c, l, w0, 15, false, c16, wordBytes w0⟩, ⟨true, DPPSTART, 0xF, false, true⟩) := by
    simp [step, sinkIn, hnd', absorb, mw, lanes, wordBytes]
  have hp := payload_words_in_order mid ⟨.payload, a, b, c, l, w0, 15, false, c16, wordBytes w0⟩ rfl hm m d hd hmk
  obtain ⟨e1, _, _, e4⟩ := hp
  intro ins crc
  simp only [ins, run, final, hfirst]
  have hrun := run_append ⟨.payload, a, b, c, l, w0, 15, false, c16, wordBytes w0⟩ (midIns mid ++ [sinkIn m d true]) [t1, t2, t3]
  have hfin := final_append ⟨.payload, a, b, c, l, w0, 15, false, c16, wordBytes w0⟩ (midIns mid ++ [sinkIn m d true]) [t1, t2, t3]
  rw [hrun, hfin, e4, emitted]
  simp only [List.filterMap_cons]
  constructor
  · have : emitted (run ⟨.payload, a, b, c, l, w0, 15, false, c16, wordBytes w0⟩ (midIns mid ++ [sinkIn m d true]))
        = (w0 :: mid).map (fun w => (w, 0)) := e1
    simp [sinkIn, emitted_append, List.filterMap_append, emitted] at this ⊢
    rw [this]
    simp [run, step, r1, r2, r3, crc, List.append_assoc]
  · simp [final, step, r1, r2, r3]

end LunaVerif.RawPacketTransmitter
