import LunaVerif.Model.Ulpi.Spec
/-!
# C24 — ULPI control registers always converge to the requested UTMI settings

"Whenever the UTMI control inputs (speed, termination, operating mode, suspend, pull-downs, VBUS
controls) change, the link eventually writes the new values to the PHY's Function Control and OTG
Control registers, each write carrying the value for the register it addresses; once no change is
pending and the bus is idle, the PHY's registers equal the requested settings. Register writes and
packet transmissions never block each other indefinitely."

The model is the code after the `fix:` commits of branch `wt-ulpi` (F11: latched address/data and
credit by latched address; cross gating of `bus_idle`).  On the unfixed code all three theorems
fail on the real gateware (replays in notes/C24.md).

Full convergence statement (NOT proved as one theorem; see `converges_partial` for the parts):

  theorem converges (K : Nat) (h : List UtmiIn) (t : Nat) :
    control inputs of h constant = c from cycle t on →
    (DIR low often enough, every byte presented with DIR low answered by NXT within K cycles,
     LegalNxt, no abort of link transmissions, UTMI packets finite) →
    ∃ n ≤ 2 * (K + 6) + transmit time, the PHY register file observed on the pins after t + n cycles
      has r04 = functionControl c ∧ r0A = otgControl c, and stays so.
-/
namespace LunaVerif.Ulpi

/-! ## One register write, seen from the PHY -/

/-- The register window and the PHY-side observer on the window's pins (`ulpi_data_out`,
`ulpi_stop` are registers, so the PHY sees the values from before the edge). -/
def joint (x : Window × PhyRegs) (i : WindowIn) : Window × PhyRegs :=
  (x.1.step i, x.2.step i.dir i.nxt x.1.dataOut x.1.stop)

def jointRun : Window × PhyRegs → List WindowIn → Window × PhyRegs
  | x, [] => x
  | x, i :: is => jointRun (joint x i) is

theorem jointRun_append (x : Window × PhyRegs) (a b : List WindowIn) :
    jointRun x (a ++ b) = jointRun (jointRun x a) b := by
  induction a generalizing x with
  | nil => rfl
  | cons i is ih => simp [jointRun, ih]

/-- A cycle with DIR low and the given NXT; every other input of the window (address, write_data,
read/write requests, data lines) is arbitrary — in particular the *live* `address`/`write_data` may
change at every cycle of the write. -/
def lowDir (i : WindowIn) (nxt : Bool) : WindowIn := { i with dir := false, nxt := nxt }

/-- The cycles of one uninterrupted write after its acceptance: START_WRITE, `ws1.length` waits for
the command, its acceptance, `ws2.length` waits for the data, its acceptance, STOPPING. -/
def writeSchedule (x0 : WindowIn) (ws1 : List WindowIn) (x1 : WindowIn) (ws2 : List WindowIn)
    (x2 x3 : WindowIn) : List WindowIn :=
  [lowDir x0 false] ++ ws1.map (lowDir · false) ++ [lowDir x1 true] ++ ws2.map (lowDir · false)
    ++ [lowDir x2 true] ++ [lowDir x3 false]

theorem wait_cmd (w : Window) (p : PhyRegs) (ws : List WindowIn)
    (hs : w.st = .sendWriteAddress) (hp : p.bus = .idle) :
    jointRun (w, p) (ws.map (lowDir · false)) = ({ w with outReq := true, stop := false, done := false }, p)
      ∨ ws = [] := by
  induction ws generalizing w with
  | nil => right; rfl
  | cons i is ih =>
    left
    have h1 : joint (w, p) (lowDir i false) = ({ w with outReq := true, stop := false, done := false }, p) := by
      obtain ⟨b, r4, rA, o, n⟩ := p
      simp only at hp; subst hp
      simp [joint, Window.step, hs, lowDir, PhyRegs.step]
    simp only [List.map, jointRun, h1]
    rcases ih { w with outReq := true, stop := false, done := false } (by simpa using hs) with h | h
    · simpa using h
    · subst h; rfl

theorem wait_data (w : Window) (p : PhyRegs) (a : Nat) (ws : List WindowIn)
    (hs : w.st = .holdWrite) (hp : p.bus = .wantData a) :
    jointRun (w, p) (ws.map (lowDir · false)) = ({ w with outReq := true, stop := false, done := false }, p)
      ∨ ws = [] := by
  induction ws generalizing w with
  | nil => right; rfl
  | cons i is ih =>
    left
    have h1 : joint (w, p) (lowDir i false) = ({ w with outReq := true, stop := false, done := false }, p) := by
      obtain ⟨b, r4, rA, o, n⟩ := p
      simp only at hp; subst hp
      simp [joint, Window.step, hs, lowDir, PhyRegs.step]
    simp only [List.map, jointRun, h1]
    rcases ih { w with outReq := true, stop := false, done := false } (by simpa using hs) with h | h
    · simpa using h
    · subst h; rfl

/-- **write_carries_own_value.**  Take the window in START_WRITE holding the latched pair
`(a, v)` (a one of the two control-register addresses) and the PHY's bus parser idle.  For all NXT
waits (`ws1`, `ws2`) and *whatever the live address / write_data / request inputs do in every cycle
of the write*: the window finishes in IDLE with `done`, still holding `(a, v)`, and the PHY has
committed exactly the write `a := v` — the value latched for `a` when the request was accepted —
`ws1.length + ws2.length + 4` cycles later. -/
theorem write_carries_own_value (w : Window) (p : PhyRegs) (a v : Nat)
    (x0 : WindowIn) (ws1 : List WindowIn) (x1 : WindowIn) (ws2 : List WindowIn) (x2 x3 : WindowIn)
    (ha : a = ADDR_FUNCTION_CONTROL ∨ a = ADDR_OTG_CONTROL)
    (hs : w.st = .startWrite) (h1 : w.curAddr = a) (h2 : w.curWrite = v) (hp : p.bus = .idle) :
    let r := jointRun (w, p) (writeSchedule x0 ws1 x1 ws2 x2 x3)
    r.1.st = .idle ∧ r.1.done = true ∧ r.1.curAddr = a ∧ r.1.curWrite = v ∧ r.1.dataOut = 0 ∧
    r.1.outReq = false ∧ r.1.stop = false ∧ r.2 = p.commit a v := by
  obtain ⟨st, ca, cw, d, oq, sp, dn, rd⟩ := w
  obtain ⟨b, r4, rA, o, n⟩ := p
  simp only at hs h1 h2 hp
  subst hs h1 h2 hp
  -- START_WRITE
  have e0 : joint (⟨.startWrite, ca, cw, d, oq, sp, dn, rd⟩, ⟨.idle, r4, rA, o, n⟩) (lowDir x0 false)
      = (⟨.sendWriteAddress, ca, cw, COMMAND_REG_WRITE ||| ca, true, false, false, rd⟩, ⟨.idle, r4, rA, o, n⟩) := by
    simp [joint, Window.step, lowDir, PhyRegs.step]
  simp only [writeSchedule, jointRun_append, jointRun, e0]
  -- waiting for the command to be taken
  have e1 := wait_cmd ⟨.sendWriteAddress, ca, cw, COMMAND_REG_WRITE ||| ca, true, false, false, rd⟩
    ⟨.idle, r4, rA, o, n⟩ ws1 rfl rfl
  have e1' : jointRun (⟨.sendWriteAddress, ca, cw, COMMAND_REG_WRITE ||| ca, true, false, false, rd⟩,
      (⟨.idle, r4, rA, o, n⟩ : PhyRegs)) (ws1.map (lowDir · false))
      = (⟨.sendWriteAddress, ca, cw, COMMAND_REG_WRITE ||| ca, true, false, false, rd⟩, ⟨.idle, r4, rA, o, n⟩) := by
    rcases e1 with h | h
    · simpa using h
    · subst h; rfl
  rw [e1']
  have e2 : joint (⟨.sendWriteAddress, ca, cw, COMMAND_REG_WRITE ||| ca, true, false, false, rd⟩,
      (⟨.idle, r4, rA, o, n⟩ : PhyRegs)) (lowDir x1 true)
      = (⟨.holdWrite, ca, cw, cw, true, false, false, rd⟩, ⟨.wantData ca, r4, rA, o, n⟩) := by
    rcases ha with h | h <;> subst h <;>
      simp [joint, Window.step, lowDir, PhyRegs.step, COMMAND_REG_WRITE, ADDR_FUNCTION_CONTROL, ADDR_OTG_CONTROL]
  rw [e2]
  have e3 := wait_data ⟨.holdWrite, ca, cw, cw, true, false, false, rd⟩ ⟨.wantData ca, r4, rA, o, n⟩ ca ws2 rfl rfl
  have e3' : jointRun (⟨.holdWrite, ca, cw, cw, true, false, false, rd⟩, (⟨.wantData ca, r4, rA, o, n⟩ : PhyRegs))
      (ws2.map (lowDir · false))
      = (⟨.holdWrite, ca, cw, cw, true, false, false, rd⟩, ⟨.wantData ca, r4, rA, o, n⟩) := by
    rcases e3 with h | h
    · simpa using h
    · subst h; rfl
  rw [e3']
  rcases ha with h | h <;> subst h <;>
    simp [joint, Window.step, lowDir, PhyRegs.step, PhyRegs.commit, ADDR_FUNCTION_CONTROL, ADDR_OTG_CONTROL]

/-- Non-vacuity: a write of 0x45 to Function Control with waits 2 and 1 while the live inputs point
elsewhere. -/
example : (jointRun (⟨.startWrite, 4, 0x45, 0, false, false, false, 0⟩, {})
      (writeSchedule ⟨0, true, true, 0x0A, 0x99, true, true⟩ [⟨0, false, false, 0, 0, false, false⟩, ⟨1, false, true, 9, 9, true, false⟩]
        ⟨0, false, false, 0x0A, 0, false, false⟩ [⟨0, false, false, 0, 0, false, false⟩] ⟨0, false, false, 0, 0, false, false⟩
        ⟨0, false, false, 0, 0, false, false⟩)).2.r04 = 0x45 := by decide

/-! ## The control translator: request, latch, credit -/

/-- A write is requested exactly when some shadow register differs from the requested value, the
window is not reporting `done`, and the bus is granted. -/
theorem request_iff_mismatch (k : Ctl) (v04 v0A : Nat) (bi dn : Bool) :
    (k.comb v04 v0A bi dn).writeReq = ((k.cur04 != v04 || k.cur0A != v0A) && !dn && bi) := by
  by_cases h4 : k.cur04 = v04 <;> by_cases hA : k.cur0A = v0A <;> simp [Ctl.comb, h4, hA] <;>
    cases dn <;> cases bi <;> simp_all

/-- …and what is presented to the window is the requested value *of the register addressed*. -/
theorem request_pair (k : Ctl) (v04 v0A : Nat) (bi dn : Bool) (h : (k.comb v04 v0A bi dn).writeReq = true) :
    ((k.comb v04 v0A bi dn).address = ADDR_FUNCTION_CONTROL ∧ (k.comb v04 v0A bi dn).writeData = v04 ∧ k.cur04 ≠ v04) ∨
    ((k.comb v04 v0A bi dn).address = ADDR_OTG_CONTROL ∧ (k.comb v04 v0A bi dn).writeData = v0A ∧ k.cur0A ≠ v0A
      ∧ k.cur04 = v04) := by
  by_cases h4 : k.cur04 = v04 <;> by_cases hA : k.cur0A = v0A <;> simp_all [Ctl.comb]

/-- Once both shadows agree with the requested values nothing is requested. -/
theorem settled_no_request (k : Ctl) (v04 v0A : Nat) (bi dn : Bool) (h4 : k.cur04 = v04) (hA : k.cur0A = v0A) :
    (k.comb v04 v0A bi dn).writeReq = false ∧ (k.comb v04 v0A bi dn).address = 0 := by
  simp [Ctl.comb, h4, hA]

/-- An idle window accepts the request and latches the presented pair; a busy window never changes
its latches. -/
theorem accept_latches (w : Window) (i : WindowIn) (hs : w.st = .idle) (hw : i.writeReq = true) :
    (w.step i).st = .startWrite ∧ (w.step i).curAddr = i.address ∧ (w.step i).curWrite = i.writeData := by
  simp [Window.step, hs, hw]; split <;> simp

theorem latch_stable (w : Window) (i : WindowIn) (hs : w.st ≠ .idle) :
    (w.step i).curAddr = w.curAddr ∧ (w.step i).curWrite = w.curWrite := by
  obtain ⟨st, ca, cw, d, oq, sp, dn, rd⟩ := w
  cases st <;> simp at hs <;> simp [Window.step] <;> (repeat' split) <;> simp

/-- When the window reports `done`, the shadow of the latched address takes the latched value and
the other shadow is untouched — whatever the control inputs are at that moment. -/
theorem credit (k : Ctl) (v04 v0A : Nat) (bi : Bool) (w : Window) (hd : w.done = true) :
    (w.curAddr = ADDR_FUNCTION_CONTROL → (k.step v04 v0A bi w).cur04 = w.curWrite ∧ (k.step v04 v0A bi w).cur0A = k.cur0A) ∧
    (w.curAddr = ADDR_OTG_CONTROL → (k.step v04 v0A bi w).cur0A = w.curWrite ∧ (k.step v04 v0A bi w).cur04 = k.cur04) := by
  simp [Ctl.step, hd, ADDR_FUNCTION_CONTROL, ADDR_OTG_CONTROL]
  constructor <;> intro h <;> simp [h]

theorem no_credit (k : Ctl) (v04 v0A : Nat) (bi : Bool) (w : Window) (hd : w.done = false) :
    (k.step v04 v0A bi w).cur04 = k.cur04 ∧ (k.step v04 v0A bi w).cur0A = k.cur0A := by
  simp [Ctl.step, hd]

/-- **converges_partial.**  One round of convergence, end to end over the components: shadows `k`,
requested values `(v04, v0A)` with a mismatch, bus granted, window idle and not `done`, PHY parser
idle.  Then (1) the request is accepted and the window latches the requested value of the register
the If/Elif selects; (2) for all NXT waits and all behaviours of the control inputs during the write
the PHY commits that very pair after `ws1.length + ws2.length + 4` further cycles; (3) at `done`
the shadow of that register — and only that one — becomes the committed value, for any control
inputs `(u04, u0A)` present then.  So after the round PHY register = shadow = value requested at
acceptance for the selected register, and a register whose shadow already agreed is not touched. -/
theorem converges_partial (k : Ctl) (v04 v0A : Nat) (w : Window) (p : PhyRegs) (xa : WindowIn)
    (x0 : WindowIn) (ws1 : List WindowIn) (x1 : WindowIn) (ws2 : List WindowIn) (x2 x3 : WindowIn)
    (u04 u0A : Nat) (ub : Bool)
    (hm : k.cur04 ≠ v04 ∨ k.cur0A ≠ v0A) (hw : w.st = .idle) (hd : w.done = false) (hp : p.bus = .idle) :
    let o := k.comb v04 v0A true w.done
    let a := if k.cur04 != v04 then ADDR_FUNCTION_CONTROL else ADDR_OTG_CONTROL
    let v := if k.cur04 != v04 then v04 else v0A
    let w1 := w.step { xa with address := o.address, writeData := o.writeData, readReq := false, writeReq := o.writeReq }
    let r := jointRun (w1, p) (writeSchedule x0 ws1 x1 ws2 x2 x3)
    let k' := k.step u04 u0A ub r.1
    o.writeReq = true ∧ o.address = a ∧ o.writeData = v ∧
    w1.st = .startWrite ∧ r.1.done = true ∧ r.2 = p.commit a v ∧
    (if k.cur04 != v04 then k'.cur04 = v04 ∧ k'.cur0A = k.cur0A else k'.cur0A = v0A ∧ k'.cur04 = k.cur04) := by
  intro o a v w1 r k'
  have hreq : o.writeReq = true := by
    simp only [o, request_iff_mismatch, hd]
    rcases hm with h | h <;> simp [h]
  have hoa : o.address = a ∧ o.writeData = v := by
    simp only [o, a, v, Ctl.comb]
    by_cases h : k.cur04 = v04
    · have h' : k.cur0A ≠ v0A := by rcases hm with g | g; exact absurd h g; exact g
      simp [h, h']
    · simp [h]
  have hacc := accept_latches w { xa with address := o.address, writeData := o.writeData, readReq := false, writeReq := o.writeReq }
    hw hreq
  have haa : a = ADDR_FUNCTION_CONTROL ∨ a = ADDR_OTG_CONTROL := by
    simp only [a]; split <;> simp
  have hrun := write_carries_own_value w1 p a v x0 ws1 x1 ws2 x2 x3 haa hacc.1
    (by rw [hacc.2.1]; exact hoa.1) (by rw [hacc.2.2]; exact hoa.2) hp
  simp only at hrun
  obtain ⟨_, hdone, hca, hcw, _, _, _, hcommit⟩ := hrun
  refine ⟨hreq, hoa.1, hoa.2, hacc.1, hdone, hcommit, ?_⟩
  have hc := credit k u04 u0A ub r.1 hdone
  by_cases h : k.cur04 = v04
  · have : a = ADDR_OTG_CONTROL := by simp [a, h]
    have := hc.2 (by rw [hca]; exact this)
    have hv : v = v0A := by simp [v, h]
    simp [h, k', this.1, this.2]
    exact hcw.trans hv
  · have : a = ADDR_FUNCTION_CONTROL := by simp [a, h]
    have := hc.1 (by rw [hca]; exact this)
    have hv : v = v04 := by simp [v, h]
    simp [h, k', this.1, this.2]
    exact hcw.trans hv

/-! ## Register writes and transmissions exclude each other and cannot dead-lock -/

/-- The exclusion invariant of the repaired cross gating: while the register window is busy the
control translator reports busy, the transmit translator is idle and has not claimed the bus (so the
pins show the window); and the window is never in a read state. -/
def Excl (s : Utmi) : Prop :=
  (s.win.busy = true → s.ctl.busy = true ∧ s.tx.st = .idle ∧ s.tx.outReq = false) ∧
  (s.win.st = .idle ∨ s.win.st = .startWrite ∨ s.win.st = .sendWriteAddress ∨ s.win.st = .holdWrite ∨
    s.win.st = .stopping)

theorem excl_step (cfg : Config) (s : Utmi) (i : UtmiIn) (h : Excl s) : Excl (s.step cfg i).1 := by
  obtain ⟨h1, h2⟩ := h
  obtain ⟨win, ctl, tx, rx, rdy, cnt⟩ := s
  obtain ⟨wst, ca, cw, d, oq, sp, dn, rd⟩ := win
  obtain ⟨tst, treq⟩ := tx
  obtain ⟨c4, cA, cb⟩ := ctl
  simp only [Window.busy] at h1 h2
  rcases h2 with h | h | h | h | h <;> subst h
  · -- window idle: it becomes busy only through a request, which needs the transmitter idle and unclaimed
    simp only [Excl, Utmi.step, Utmi.ctlOut, Utmi.ctlBusIdle, Utmi.txBusIdle, Window.step, Window.busy,
      Ctl.step, Ctl.comb, Tx.step, Tx.busy]
    cases tst <;> cases treq <;> cases rdy <;> cases dn <;>
      by_cases g4 : c4 = functionControl i.ctrl <;> by_cases gA : cA = otgControl i.ctrl <;>
      simp [g4, gA]
    all_goals (repeat' split) <;> simp_all
  all_goals
    obtain ⟨hb, ht, hr⟩ := h1 (by simp)
    subst hb ht hr
    simp only [Excl, Utmi.step, Utmi.ctlOut, Utmi.ctlBusIdle, Utmi.txBusIdle, Window.step, Window.busy,
      Ctl.step, Ctl.comb, Tx.step, Tx.busy]
    all_goals ((repeat' split) <;> simp_all)

/-- **no_mutual_blocking** (safety half).  For every configuration and every history of PHY, UTMI
and control inputs from reset: the register window and the transmit translator never hold the bus
together.  In particular the dead-lock state of the unrepaired code — transmitter stalled in IDLE
with `ulpi_out_req` stuck high while the register window waits for an NXT the PHY cannot give,
because the mux hides the window — is unreachable. -/
theorem no_mutual_blocking (cfg : Config) (h : List UtmiIn) : Excl (Utmi.run cfg (Utmi.init cfg) h) := by
  suffices ∀ s, Excl s → Excl (Utmi.run cfg s h) from this _ (by simp [Excl, Utmi.init, Window.busy])
  induction h with
  | nil => intro s hs; exact hs
  | cons i is ih => intro s hs; exact ih _ (excl_step cfg s i hs)

theorem deadlock_unreachable (cfg : Config) (h : List UtmiIn) :
    ¬ ((Utmi.run cfg (Utmi.init cfg) h).win.busy = true ∧ (Utmi.run cfg (Utmi.init cfg) h).tx.outReq = true) := by
  intro ⟨a, b⟩
  have := (no_mutual_blocking cfg h).1 a
  simp [this.2.2] at b

/-- (progress, transmitter) Nothing pending, control translator not busy, DIR low, start-up over:
a transmission request claims the bus in that very cycle — a settled control translator never
delays a packet. -/
theorem tx_starts_when_settled (cfg : Config) (s : Utmi) (i : UtmiIn)
    (h4 : s.ctl.cur04 = functionControl i.ctrl) (hA : s.ctl.cur0A = otgControl i.ctrl)
    (hb : s.ctl.busy = false) (hd : i.phy.dir = false) (hr : s.phyReady = true) (hv : i.txValid = true)
    (ht : s.tx.st = .idle) :
    (s.step cfg i).1.tx.outReq = true := by
  simp [Utmi.step, Utmi.txBusIdle, Utmi.ctlOut, Ctl.comb, h4, hA, hb, hd, hr, hv, Tx.step, ht]

/-- (progress, register write) A pending change with the transmitter idle and unclaimed, start-up
over and the window idle: the write is accepted in that very cycle, and the transmitter does not
claim the bus in it — a write waits for at most the packet in progress. -/
theorem write_starts_when_tx_idle (cfg : Config) (s : Utmi) (i : UtmiIn)
    (hm : s.ctl.cur04 ≠ functionControl i.ctrl ∨ s.ctl.cur0A ≠ otgControl i.ctrl)
    (ht : s.tx.st = .idle) (hq : s.tx.outReq = false) (hr : s.phyReady = true)
    (hw : s.win.st = .idle) (hd : s.win.done = false) :
    (s.step cfg i).1.win.st = .startWrite ∧ (s.step cfg i).1.tx.outReq = false := by
  have hreq : (s.ctlOut i.ctrl).writeReq = true := by
    simp only [Utmi.ctlOut, request_iff_mismatch, Utmi.ctlBusIdle, Tx.busy, ht, hq, hr, hd]
    rcases hm with h | h <;> simp [h]
  constructor
  · simp only [Utmi.step]
    exact (accept_latches s.win _ hw hreq).1
  · simp [Utmi.step, Utmi.txBusIdle, hreq, Tx.step, ht, hq]

/-- (no pre-emption) Once the transmitter has claimed the bus no write is requested until it lets go. -/
theorem claimed_tx_not_preempted (s : Utmi) (c : Controls) (h : s.tx.outReq = true) :
    (s.ctlOut c).writeReq = false := by
  simp [Utmi.ctlOut, request_iff_mismatch, Utmi.ctlBusIdle, h]

end LunaVerif.Ulpi
