import LunaVerif.Model.Ulpi.Spec
import LunaVerif.Lemmas.C24Converge
/-!
# C24 — ULPI control registers always converge to the requested UTMI settings

"Whenever the UTMI control inputs (speed, termination, operating mode, suspend, pull-downs, VBUS
controls) change, the link eventually writes the new values to the PHY's Function Control and OTG
Control registers, each write carrying the value for the register it addresses; once no change is
pending and the bus is idle, the PHY's registers equal the requested settings. Register writes and
packet transmissions never block each other indefinitely."

The model is the code after the `fix:` commits of branch `wt-ulpi` (F11: latched address/data and
credit by latched address; cross gating of `bus_idle`).  On the unfixed code all three theorems
fail on the real gateware (replays in notes/C24.md).

Theorems of this file, first part (components): `write_carries_own_value`, `converges_partial` (one
request / latch / commit / credit round), `no_mutual_blocking` (exclusion invariant of `Utmi.run`),
`deadlock_unreachable`, start conditions.

Second part (closed system `World` = translator + PHY-side observer on its pins + environment
monitor, `Lemmas/C24World.lean`; proofs in `Lemmas/C24Coh.lean`, `C24RankStep.lean`,
`C24Converge.lean`):

* `phy_tracks_window` — for every PHY obeying `safeCycle` (E1 no NXT in the turnaround cycle, E2 no
  abort of an accepted link transmission, E3 NXT with an idle parser only when a byte is on the bus)
  the observer on the pins commits exactly the register window's completed writes, its registers
  equal the shadow registers (or the latched pair while `done` is shown);
* `write_carries_requested_value` — whenever the window reports `done`, the PHY register it addressed
  holds the value the control inputs requested for that register in the cycle the write was accepted
  (whatever the inputs did during the write), `settled_regs_equal_requested` — nothing pending ⇒ PHY
  registers = requested settings; both for all histories and every such PHY;
* `converges` / `converges_from_reset` — control inputs constant, bounded fairness `liveCycle K T`
  (`K`, `T` universally quantified), `N` DIR-high cycles in the history: after
  `convergeBound K T N = 3(2K+6) + T + (2K+5)·N` cycles PHY registers = shadows = requested settings,
  nothing pending;
* `tx_delay_bounded`, `write_delay_bounded` — `no_mutual_blocking` at history level;
* `dir_low_often_is_not_enough` — why the DIR hypothesis is a budget `N` of DIR-high cycles and not
  "DIR is low at least once every D cycles": a PHY that raises DIR every third cycle satisfies every
  other hypothesis, and no register write ever completes (true of any ULPI link: a register write
  needs four consecutive DIR-low cycles at the very least).
-/
namespace LunaVerif.Ulpi

/-! ## One register write, seen from the PHY -/

/-- The register window and the PHY-side observer on the window's pins (`ulpi_data_out`,
`ulpi_stop` are registers, so the PHY sees the values from before the edge). -/
def joint (x : Window × PhyRegs) (i : WindowIn) : Window × PhyRegs :=
  (x.1.step i, x.2.step i.dir i.nxt x.1.dataOut x.1.stop)

def jointRun : Window × PhyRegs → List WindowIn → Window × PhyRegs
  | x, [] => x
  | x, i :: is => jointRun (joint x i) is

theorem jointRun_append (x : Window × PhyRegs) (a b : List WindowIn) :
    jointRun x (a ++ b) = jointRun (jointRun x a) b := by
  induction a generalizing x with
  | nil => rfl
  | cons i is ih => simp [jointRun, ih]

/-- A cycle with DIR low and the given NXT; every other input of the window (address, write_data,
read/write requests, data lines) is arbitrary — in particular the *live* `address`/`write_data` may
change at every cycle of the write. -/
def lowDir (i : WindowIn) (nxt : Bool) : WindowIn := { i with dir := false, nxt := nxt }

/-- The cycles of one uninterrupted write after its acceptance: START_WRITE, `ws1.length` waits for
the command, its acceptance, `ws2.length` waits for the data, its acceptance, STOPPING. -/
def writeSchedule (x0 : WindowIn) (ws1 : List WindowIn) (x1 : WindowIn) (ws2 : List WindowIn)
    (x2 x3 : WindowIn) : List WindowIn :=
  [lowDir x0 false] ++ ws1.map (lowDir · false) ++ [lowDir x1 true] ++ ws2.map (lowDir · false)
    ++ [lowDir x2 true] ++ [lowDir x3 false]

theorem wait_cmd (w : Window) (p : PhyRegs) (ws : List WindowIn)
    (hs : w.st = .sendWriteAddress) (hp : p.bus = .idle) :
    jointRun (w, p) (ws.map (lowDir · false)) = ({ w with outReq := true, stop := false, done := false }, p)
      ∨ ws = [] := by
  induction ws generalizing w with
  | nil => right; rfl
  | cons i is ih =>
    left
    have h1 : joint (w, p) (lowDir i false) = ({ w with outReq := true, stop := false, done := false }, p) := by
      obtain ⟨b, r4, rA, o, n⟩ := p
      simp only at hp; subst hp
      simp [joint, Window.step, hs, lowDir, PhyRegs.step]
    simp only [List.map, jointRun, h1]
    rcases ih { w with outReq := true, stop := false, done := false } (by simpa using hs) with h | h
    · simpa using h
    · subst h; rfl

theorem wait_data (w : Window) (p : PhyRegs) (a : Nat) (ws : List WindowIn)
    (hs : w.st = .holdWrite) (hp : p.bus = .wantData a) :
    jointRun (w, p) (ws.map (lowDir · false)) = ({ w with outReq := true, stop := false, done := false }, p)
      ∨ ws = [] := by
  induction ws generalizing w with
  | nil => right; rfl
  | cons i is ih =>
    left
    have h1 : joint (w, p) (lowDir i false) = ({ w with outReq := true, stop := false, done := false }, p) := by
      obtain ⟨b, r4, rA, o, n⟩ := p
      simp only at hp; subst hp
      simp [joint, Window.step, hs, lowDir, PhyRegs.step]
    simp only [List.map, jointRun, h1]
    rcases ih { w with outReq := true, stop := false, done := false } (by simpa using hs) with h | h
    · simpa using h
    · subst h; rfl

/-- **write_carries_own_value.**  Take the window in START_WRITE holding the latched pair
`(a, v)` (a one of the two control-register addresses) and the PHY's bus parser idle.  For all NXT
waits (`ws1`, `ws2`) and *whatever the live address / write_data / request inputs do in every cycle
of the write*: the window finishes in IDLE with `done`, still holding `(a, v)`, and the PHY has
committed exactly the write `a := v` — the value latched for `a` when the request was accepted —
`ws1.length + ws2.length + 4` cycles later. -/
theorem write_carries_own_value (w : Window) (p : PhyRegs) (a v : Nat)
    (x0 : WindowIn) (ws1 : List WindowIn) (x1 : WindowIn) (ws2 : List WindowIn) (x2 x3 : WindowIn)
    (ha : a = ADDR_FUNCTION_CONTROL ∨ a = ADDR_OTG_CONTROL)
    (hs : w.st = .startWrite) (h1 : w.curAddr = a) (h2 : w.curWrite = v) (hp : p.bus = .idle) :
    let r := jointRun (w, p) (writeSchedule x0 ws1 x1 ws2 x2 x3)
    r.1.st = .idle ∧ r.1.done = true ∧ r.1.curAddr = a ∧ r.1.curWrite = v ∧ r.1.dataOut = 0 ∧
    r.1.outReq = false ∧ r.1.stop = false ∧ r.2 = p.commit a v := by
  obtain ⟨st, ca, cw, d, oq, sp, dn, rd⟩ := w
  obtain ⟨b, r4, rA, o, n⟩ := p
  simp only at hs h1 h2 hp
  subst hs h1 h2 hp
  -- START_WRITE
  have e0 : joint (⟨.startWrite, ca, cw, d, oq, sp, dn, rd⟩, ⟨.idle, r4, rA, o, n⟩) (lowDir x0 false)
      = (⟨.sendWriteAddress, ca, cw, COMMAND_REG_WRITE ||| ca, true, false, false, rd⟩, ⟨.idle, r4, rA, o, n⟩) := by
    simp [joint, Window.step, lowDir, PhyRegs.step]
  simp only [writeSchedule, jointRun_append, jointRun, e0]
  -- waiting for the command to be taken
  have e1 := wait_cmd ⟨.sendWriteAddress, ca, cw, COMMAND_REG_WRITE ||| ca, true, false, false, rd⟩
    ⟨.idle, r4, rA, o, n⟩ ws1 rfl rfl
  have e1' : jointRun (⟨.sendWriteAddress, ca, cw, COMMAND_REG_WRITE ||| ca, true, false, false, rd⟩,
      (⟨.idle, r4, rA, o, n⟩ : PhyRegs)) (ws1.map (lowDir · false))
      = (⟨.sendWriteAddress, ca, cw, COMMAND_REG_WRITE ||| ca, true, false, false, rd⟩, ⟨.idle, r4, rA, o, n⟩) := by
    rcases e1 with h | h
    · simpa using h
    · subst h; rfl
  rw [e1']
  have e2 : joint (⟨.sendWriteAddress, ca, cw, COMMAND_REG_WRITE ||| ca, true, false, false, rd⟩,
      (⟨.idle, r4, rA, o, n⟩ : PhyRegs)) (lowDir x1 true)
      = (⟨.holdWrite, ca, cw, cw, true, false, false, rd⟩, ⟨.wantData ca, r4, rA, o, n⟩) := by
    rcases ha with h | h <;> subst h <;>
      simp [joint, Window.step, lowDir, PhyRegs.step, COMMAND_REG_WRITE, ADDR_FUNCTION_CONTROL, ADDR_OTG_CONTROL]
  rw [e2]
  have e3 := wait_data ⟨.holdWrite, ca, cw, cw, true, false, false, rd⟩ ⟨.wantData ca, r4, rA, o, n⟩ ca ws2 rfl rfl
  have e3' : jointRun (⟨.holdWrite, ca, cw, cw, true, false, false, rd⟩, (⟨.wantData ca, r4, rA, o, n⟩ : PhyRegs))
      (ws2.map (lowDir · false))
      = (⟨.holdWrite, ca, cw, cw, true, false, false, rd⟩, ⟨.wantData ca, r4, rA, o, n⟩) := by
    rcases e3 with h | h
    · simpa using h
    · subst h; rfl
  rw [e3']
  rcases ha with h | h <;> subst h <;>
    simp [joint, Window.step, lowDir, PhyRegs.step, PhyRegs.commit, ADDR_FUNCTION_CONTROL, ADDR_OTG_CONTROL]

/-- Non-vacuity: a write of 0x45 to Function Control with waits 2 and 1 while the live inputs point
elsewhere. -/
example : (jointRun (⟨.startWrite, 4, 0x45, 0, false, false, false, 0⟩, {})
      (writeSchedule ⟨0, true, true, 0x0A, 0x99, true, true⟩ [⟨0, false, false, 0, 0, false, false⟩, ⟨1, false, true, 9, 9, true, false⟩]
        ⟨0, false, false, 0x0A, 0, false, false⟩ [⟨0, false, false, 0, 0, false, false⟩] ⟨0, false, false, 0, 0, false, false⟩
        ⟨0, false, false, 0, 0, false, false⟩)).2.r04 = 0x45 := by decide

/-! ## The control translator: request, latch, credit -/

/-- A write is requested exactly when some shadow register differs from the requested value, the
window is not reporting `done`, and the bus is granted. -/
theorem request_iff_mismatch (k : Ctl) (v04 v0A : Nat) (bi dn : Bool) :
    (k.comb v04 v0A bi dn).writeReq = ((k.cur04 != v04 || k.cur0A != v0A) && !dn && bi) := by
  by_cases h4 : k.cur04 = v04 <;> by_cases hA : k.cur0A = v0A <;> simp [Ctl.comb, h4, hA] <;>
    cases dn <;> cases bi <;> simp_all

/-- …and what is presented to the window is the requested value *of the register addressed*. -/
theorem request_pair (k : Ctl) (v04 v0A : Nat) (bi dn : Bool) (h : (k.comb v04 v0A bi dn).writeReq = true) :
    ((k.comb v04 v0A bi dn).address = ADDR_FUNCTION_CONTROL ∧ (k.comb v04 v0A bi dn).writeData = v04 ∧ k.cur04 ≠ v04) ∨
    ((k.comb v04 v0A bi dn).address = ADDR_OTG_CONTROL ∧ (k.comb v04 v0A bi dn).writeData = v0A ∧ k.cur0A ≠ v0A
      ∧ k.cur04 = v04) := by
  by_cases h4 : k.cur04 = v04 <;> by_cases hA : k.cur0A = v0A <;> simp_all [Ctl.comb]

/-- Once both shadows agree with the requested values nothing is requested. -/
theorem settled_no_request (k : Ctl) (v04 v0A : Nat) (bi dn : Bool) (h4 : k.cur04 = v04) (hA : k.cur0A = v0A) :
    (k.comb v04 v0A bi dn).writeReq = false ∧ (k.comb v04 v0A bi dn).address = 0 := by
  simp [Ctl.comb, h4, hA]

/-- An idle window accepts the request and latches the presented pair; a busy window never changes
its latches. -/
theorem accept_latches (w : Window) (i : WindowIn) (hs : w.st = .idle) (hw : i.writeReq = true) :
    (w.step i).st = .startWrite ∧ (w.step i).curAddr = i.address ∧ (w.step i).curWrite = i.writeData := by
  simp [Window.step, hs, hw]; split <;> simp

theorem latch_stable (w : Window) (i : WindowIn) (hs : w.st ≠ .idle) :
    (w.step i).curAddr = w.curAddr ∧ (w.step i).curWrite = w.curWrite := by
  obtain ⟨st, ca, cw, d, oq, sp, dn, rd⟩ := w
  cases st <;> simp at hs <;> simp [Window.step] <;> (repeat' split) <;> simp

/-- When the window reports `done`, the shadow of the latched address takes the latched value and
the other shadow is untouched — whatever the control inputs are at that moment. -/
theorem credit (k : Ctl) (v04 v0A : Nat) (bi : Bool) (w : Window) (hd : w.done = true) :
    (w.curAddr = ADDR_FUNCTION_CONTROL → (k.step v04 v0A bi w).cur04 = w.curWrite ∧ (k.step v04 v0A bi w).cur0A = k.cur0A) ∧
    (w.curAddr = ADDR_OTG_CONTROL → (k.step v04 v0A bi w).cur0A = w.curWrite ∧ (k.step v04 v0A bi w).cur04 = k.cur04) := by
  simp [Ctl.step, hd, ADDR_FUNCTION_CONTROL, ADDR_OTG_CONTROL]
  constructor <;> intro h <;> simp [h]

theorem no_credit (k : Ctl) (v04 v0A : Nat) (bi : Bool) (w : Window) (hd : w.done = false) :
    (k.step v04 v0A bi w).cur04 = k.cur04 ∧ (k.step v04 v0A bi w).cur0A = k.cur0A := by
  simp [Ctl.step, hd]

/-- **converges_partial.**  One round of convergence, end to end over the components: shadows `k`,
requested values `(v04, v0A)` with a mismatch, bus granted, window idle and not `done`, PHY parser
idle.  Then (1) the request is accepted and the window latches the requested value of the register
the If/Elif selects; (2) for all NXT waits and all behaviours of the control inputs during the write
the PHY commits that very pair after `ws1.length + ws2.length + 4` further cycles; (3) at `done`
the shadow of that register — and only that one — becomes the committed value, for any control
inputs `(u04, u0A)` present then.  So after the round PHY register = shadow = value requested at
acceptance for the selected register, and a register whose shadow already agreed is not touched. -/
theorem converges_partial (k : Ctl) (v04 v0A : Nat) (w : Window) (p : PhyRegs) (xa : WindowIn)
    (x0 : WindowIn) (ws1 : List WindowIn) (x1 : WindowIn) (ws2 : List WindowIn) (x2 x3 : WindowIn)
    (u04 u0A : Nat) (ub : Bool)
    (hm : k.cur04 ≠ v04 ∨ k.cur0A ≠ v0A) (hw : w.st = .idle) (hd : w.done = false) (hp : p.bus = .idle) :
    let o := k.comb v04 v0A true w.done
    let a := if k.cur04 != v04 then ADDR_FUNCTION_CONTROL else ADDR_OTG_CONTROL
    let v := if k.cur04 != v04 then v04 else v0A
    let w1 := w.step { xa with address := o.address, writeData := o.writeData, readReq := false, writeReq := o.writeReq }
    let r := jointRun (w1, p) (writeSchedule x0 ws1 x1 ws2 x2 x3)
    let k' := k.step u04 u0A ub r.1
    o.writeReq = true ∧ o.address = a ∧ o.writeData = v ∧
    w1.st = .startWrite ∧ r.1.done = true ∧ r.2 = p.commit a v ∧
    (if k.cur04 != v04 then k'.cur04 = v04 ∧ k'.cur0A = k.cur0A else k'.cur0A = v0A ∧ k'.cur04 = k.cur04) := by
  intro o a v w1 r k'
  have hreq : o.writeReq = true := by
    simp only [o, request_iff_mismatch, hd]
    rcases hm with h | h <;> simp [h]
  have hoa : o.address = a ∧ o.writeData = v := by
    simp only [o, a, v, Ctl.comb]
    by_cases h : k.cur04 = v04
    · have h' : k.cur0A ≠ v0A := by rcases hm with g | g; exact absurd h g; exact g
      simp [h, h']
    · simp [h]
  have hacc := accept_latches w { xa with address := o.address, writeData := o.writeData, readReq := false, writeReq := o.writeReq }
    hw hreq
  have haa : a = ADDR_FUNCTION_CONTROL ∨ a = ADDR_OTG_CONTROL := by
    simp only [a]; split <;> simp
  have hrun := write_carries_own_value w1 p a v x0 ws1 x1 ws2 x2 x3 haa hacc.1
    (by rw [hacc.2.1]; exact hoa.1) (by rw [hacc.2.2]; exact hoa.2) hp
  simp only at hrun
  obtain ⟨_, hdone, hca, hcw, _, _, _, hcommit⟩ := hrun
  refine ⟨hreq, hoa.1, hoa.2, hacc.1, hdone, hcommit, ?_⟩
  have hc := credit k u04 u0A ub r.1 hdone
  by_cases h : k.cur04 = v04
  · have : a = ADDR_OTG_CONTROL := by simp [a, h]
    have := hc.2 (by rw [hca]; exact this)
    have hv : v = v0A := by simp [v, h]
    simp [h, k', this.1, this.2]
    exact hcw.trans hv
  · have : a = ADDR_FUNCTION_CONTROL := by simp [a, h]
    have := hc.1 (by rw [hca]; exact this)
    have hv : v = v04 := by simp [v, h]
    simp [h, k', this.1, this.2]
    exact hcw.trans hv

/-! ## Register writes and transmissions exclude each other and cannot dead-lock -/

/-- The exclusion invariant of the repaired cross gating: while the register window is busy the
control translator reports busy, the transmit translator is idle and has not claimed the bus (so the
pins show the window); and the window is never in a read state. -/
def Excl (s : Utmi) : Prop :=
  (s.win.busy = true → s.ctl.busy = true ∧ s.tx.st = .idle ∧ s.tx.outReq = false) ∧
  (s.win.st = .idle ∨ s.win.st = .startWrite ∨ s.win.st = .sendWriteAddress ∨ s.win.st = .holdWrite ∨
    s.win.st = .stopping)

theorem excl_step (cfg : Config) (s : Utmi) (i : UtmiIn) (h : Excl s) : Excl (s.step cfg i).1 := by
  obtain ⟨h1, h2⟩ := h
  obtain ⟨win, ctl, tx, rx, rdy, cnt⟩ := s
  obtain ⟨wst, ca, cw, d, oq, sp, dn, rd⟩ := win
  obtain ⟨tst, treq⟩ := tx
  obtain ⟨c4, cA, cb⟩ := ctl
  simp only [Window.busy] at h1 h2
  rcases h2 with h | h | h | h | h <;> subst h
  · -- window idle: it becomes busy only through a request, which needs the transmitter idle and unclaimed
    simp only [Excl, Utmi.step, Utmi.ctlOut, Utmi.ctlBusIdle, Utmi.txBusIdle, Window.step, Window.busy,
      Ctl.step, Ctl.comb, Tx.step, Tx.busy]
    cases tst <;> cases treq <;> cases rdy <;> cases dn <;>
      by_cases g4 : c4 = functionControl i.ctrl <;> by_cases gA : cA = otgControl i.ctrl <;>
      simp [g4, gA]
    all_goals (repeat' split) <;> simp_all
  all_goals
    obtain ⟨hb, ht, hr⟩ := h1 (by simp)
    subst hb ht hr
    simp only [Excl, Utmi.step, Utmi.ctlOut, Utmi.ctlBusIdle, Utmi.txBusIdle, Window.step, Window.busy,
      Ctl.step, Ctl.comb, Tx.step, Tx.busy]
    all_goals ((repeat' split) <;> simp_all)

/-- **no_mutual_blocking** (safety half).  For every configuration and every history of PHY, UTMI
and control inputs from reset: the register window and the transmit translator never hold the bus
together.  In particular the dead-lock state of the unrepaired code — transmitter stalled in IDLE
with `ulpi_out_req` stuck high while the register window waits for an NXT the PHY cannot give,
because the mux hides the window — is unreachable. -/
theorem no_mutual_blocking (cfg : Config) (h : List UtmiIn) : Excl (Utmi.run cfg (Utmi.init cfg) h) := by
  suffices ∀ s, Excl s → Excl (Utmi.run cfg s h) from this _ (by simp [Excl, Utmi.init, Window.busy])
  induction h with
  | nil => intro s hs; exact hs
  | cons i is ih => intro s hs; exact ih _ (excl_step cfg s i hs)

theorem deadlock_unreachable (cfg : Config) (h : List UtmiIn) :
    ¬ ((Utmi.run cfg (Utmi.init cfg) h).win.busy = true ∧ (Utmi.run cfg (Utmi.init cfg) h).tx.outReq = true) := by
  intro ⟨a, b⟩
  have := (no_mutual_blocking cfg h).1 a
  simp [this.2.2] at b

/-- (progress, transmitter) Nothing pending, control translator not busy, DIR low, start-up over:
a transmission request claims the bus in that very cycle — a settled control translator never
delays a packet. -/
theorem tx_starts_when_settled (cfg : Config) (s : Utmi) (i : UtmiIn)
    (h4 : s.ctl.cur04 = functionControl i.ctrl) (hA : s.ctl.cur0A = otgControl i.ctrl)
    (hb : s.ctl.busy = false) (hd : i.phy.dir = false) (hr : s.phyReady = true) (hv : i.txValid = true)
    (ht : s.tx.st = .idle) :
    (s.step cfg i).1.tx.outReq = true := by
  simp [Utmi.step, Utmi.txBusIdle, Utmi.ctlOut, Ctl.comb, h4, hA, hb, hd, hr, hv, Tx.step, ht]

/-- (progress, register write) A pending change with the transmitter idle and unclaimed, start-up
over and the window idle: the write is accepted in that very cycle, and the transmitter does not
claim the bus in it — a write waits for at most the packet in progress. -/
theorem write_starts_when_tx_idle (cfg : Config) (s : Utmi) (i : UtmiIn)
    (hm : s.ctl.cur04 ≠ functionControl i.ctrl ∨ s.ctl.cur0A ≠ otgControl i.ctrl)
    (ht : s.tx.st = .idle) (hq : s.tx.outReq = false) (hr : s.phyReady = true)
    (hw : s.win.st = .idle) (hd : s.win.done = false) :
    (s.step cfg i).1.win.st = .startWrite ∧ (s.step cfg i).1.tx.outReq = false := by
  have hreq : (s.ctlOut i.ctrl).writeReq = true := by
    simp only [Utmi.ctlOut, request_iff_mismatch, Utmi.ctlBusIdle, Tx.busy, ht, hq, hr, hd]
    rcases hm with h | h <;> simp [h]
  constructor
  · simp only [Utmi.step]
    exact (accept_latches s.win _ hw hreq).1
  · simp [Utmi.step, Utmi.txBusIdle, hreq, Tx.step, ht, hq]

/-- (no pre-emption) Once the transmitter has claimed the bus no write is requested until it lets go. -/
theorem claimed_tx_not_preempted (s : Utmi) (c : Controls) (h : s.tx.outReq = true) :
    (s.ctlOut c).writeReq = false := by
  simp [Utmi.ctlOut, request_iff_mismatch, Utmi.ctlBusIdle, h]

set_option linter.unusedSimpArgs false

/-! ## The PHY-side observer and the register window, for every legal PHY -/

/-- Number of cycles of the history in which the register window showed `done`. -/
def doneCount (cfg : Config) : Utmi → List UtmiIn → Nat
  | _, [] => 0
  | s, i :: is => (if s.win.done then 1 else 0) + doneCount cfg (s.step cfg i).1 is

theorem dones_run (cfg : Config) (x : World) (h : List UtmiIn) :
    (World.run cfg x h).e.dones = x.e.dones + doneCount cfg x.u h := by
  induction h generalizing x with
  | nil => rfl
  | cons i is ih =>
    simp only [World.run, doneCount, ih]
    simp only [World.step, Env.step]
    omega

/-- **phy_tracks_window.**  For every configuration and every history from reset whose PHY obeys
`safeCycle` in every cycle (E1 no NXT in the turnaround cycle, E2 no abort of an accepted link
transmission, E3 NXT with an idle parser only when a byte is on the bus) — whatever the UTMI
transmitter and the control inputs do: the observer attached to the translator's pins has committed
exactly the register window's completed writes.  Precisely, with `y` the state after the history:

* the number of writes the PHY committed equals the number of `done` pulses of the window (the one
  being shown included), and no write went to an address other than 0x04 / 0x0A;
* while `done` is low (window idle or in the middle of a write, transmissions included) the PHY's
  registers equal the shadow registers;
* while `done` is shown the register the window latched holds the latched value — which is the
  value the control inputs requested for that register in the cycle the write was accepted (ghost
  `acc04` / `acc0A` of the monitor), and which the control translator credits to that register's
  shadow at this clock edge (`credit`) — and the other one equals its shadow;
* the window's latched address is a control register whenever it is busy or done, and the PHY's bus
  parser is inside a transmission exactly when the transmit translator is. -/
theorem phy_tracks_window (cfg : Config) (h : List UtmiIn)
    (hl : SafeOk cfg (World.init cfg) h = true) :
    let y := World.run cfg (World.init cfg) h
    y.p.writes = doneCount cfg (Utmi.init cfg) h + (if y.u.win.done then 1 else 0) ∧ y.p.other = 0 ∧
    (y.u.win.done = false → y.p.r04 = y.u.ctl.cur04 ∧ y.p.r0A = y.u.ctl.cur0A) ∧
    (y.u.win.done = true →
      (y.u.win.curAddr = ADDR_FUNCTION_CONTROL ∧ y.p.r04 = y.u.win.curWrite ∧ y.u.win.curWrite = y.e.acc04 ∧
        y.p.r0A = y.u.ctl.cur0A) ∨
      (y.u.win.curAddr = ADDR_OTG_CONTROL ∧ y.p.r0A = y.u.win.curWrite ∧ y.u.win.curWrite = y.e.acc0A ∧
        y.p.r04 = y.u.ctl.cur04)) ∧
    (y.p.bus = .transmitting ↔ y.u.tx.st = .transmit) := by
  intro y
  have hc : Coh y := coh_run cfg _ h (coh_init cfg) hl
  have hd : y.e.dones = doneCount cfg (Utmi.init cfg) h := by
    have := dones_run cfg (World.init cfg) h
    simp only [World.init, Nat.zero_add] at this
    exact this
  obtain ⟨h1, h2, h3⟩ := hc
  refine ⟨by rw [h2, hd], h1, ?_⟩
  cases hw : y.u.win.st <;> simp only [hw] at h3
  case idle =>
    obtain ⟨_, _, h4⟩ := h3
    rcases h4 with ⟨g1, _, gt, gb, ga, g4, gA⟩ | ⟨g1, _, g4, gA, gt⟩
    · rcases ga with ⟨ga, gv⟩ | ⟨ga, gv⟩ <;> simp_all [ADDR_FUNCTION_CONTROL, ADDR_OTG_CONTROL]
    · rcases gt with ⟨gt, gb⟩ | ⟨gt, gb⟩ | ⟨gt, gb⟩ <;> simp_all
  case startWrite => obtain ⟨⟨_, gt, _, gd, g4, gA⟩, gb, _⟩ := h3; simp_all
  case sendWriteAddress => obtain ⟨⟨_, gt, _, gd, g4, gA⟩, gb, _⟩ := h3; simp_all
  case holdWrite => obtain ⟨⟨_, gt, _, gd, g4, gA⟩, gb, _⟩ := h3; simp_all
  case stopping => obtain ⟨⟨_, gt, _, gd, g4, gA⟩, gb, _⟩ := h3; simp_all

/-- **settled_regs_equal_requested** — the second clause of the property, for every history from reset
whose PHY obeys `safeCycle` and whatever the control inputs did: whenever no change is pending for the
control inputs `c` (both shadow registers equal the requested values, nothing being credited), the
PHY's registers equal the requested settings. -/
theorem settled_regs_equal_requested (cfg : Config) (h : List UtmiIn) (c : Controls)
    (hl : SafeOk cfg (World.init cfg) h = true) :
    let y := World.run cfg (World.init cfg) h
    y.u.win.done = false → y.u.ctl.cur04 = functionControl c → y.u.ctl.cur0A = otgControl c →
    y.p.r04 = functionControl c ∧ y.p.r0A = otgControl c := by
  intro y hd h4 hA
  obtain ⟨_, _, h3, _⟩ := phy_tracks_window cfg h hl
  obtain ⟨g4, gA⟩ := h3 hd
  exact ⟨g4.trans h4, gA.trans hA⟩

/-! ## Each write carries the value requested for the register it addresses -/

/-- The control inputs of the most recent cycle of the history in which the register window accepted
a write request (`r` if there is none), computed on the translator alone. -/
def lastAccepted (cfg : Config) : Utmi → List UtmiIn → Option Controls → Option Controls
  | _, [], r => r
  | s, i :: is, r =>
    lastAccepted cfg (s.step cfg i).1 is
      (if s.win.st == .idle && (s.ctlOut i.ctrl).writeReq then some i.ctrl else r)

/-- The monitor's ghosts `acc04` / `acc0A` are the requested values of that cycle, and there has been
such a cycle whenever the window is busy or shows `done`. -/
def AccRel (x : World) (r : Option Controls) : Prop :=
  (∀ c, r = some c → x.e.acc04 = functionControl c ∧ x.e.acc0A = otgControl c) ∧
  ((x.u.win.st ≠ .idle ∨ x.u.win.done = true) → r ≠ none) ∧
  (x.u.win.st = .idle ∨ x.u.win.st = .startWrite ∨ x.u.win.st = .sendWriteAddress ∨
    x.u.win.st = .holdWrite ∨ x.u.win.st = .stopping)

theorem accRel_step (cfg : Config) (x : World) (i : UtmiIn) (r : Option Controls) (h : AccRel x r) :
    AccRel (x.step cfg i)
      (if x.u.win.st == .idle && (x.u.ctlOut i.ctrl).writeReq then some i.ctrl else r) := by
  obtain ⟨h1, h2, h3⟩ := h
  obtain ⟨⟨win, ctl, tx, rx, rdy, cnt⟩, p, e⟩ := x
  obtain ⟨wst, ca, cw, d, oq, sp, wdn, rd⟩ := win
  simp only at h1 h2 h3
  rcases h3 with g | g | g | g | g <;> subst g
  · cases hq : (Utmi.ctlOut ⟨⟨.idle, ca, cw, d, oq, sp, wdn, rd⟩, ctl, tx, rx, rdy, cnt⟩ i.ctrl).writeReq
    · refine ⟨?_, ?_, ?_⟩
      · intro c hc; simp only [hq, Bool.and_false, Bool.false_eq_true, if_false] at hc
        have := h1 c hc
        simpa [World.step, Env.step, hq] using this
      · simp [World.step, Utmi.step, Window.step, hq]
      · simp [World.step, Utmi.step, Window.step, hq]
    · refine ⟨?_, ?_, ?_⟩
      · intro c hc
        simp only [hq, beq_self_eq_true, Bool.and_self, if_true, Option.some.injEq] at hc
        subst hc
        simp [World.step, Env.step, hq]
      · simp [hq]
      · simp [World.step, Utmi.step, Window.step, hq]
  all_goals
    refine ⟨?_, ?_, ?_⟩
    · intro c hc
      simp only [show ((WState.idle == WState.idle) = true) from rfl, Bool.false_and, Bool.false_eq_true, if_false,
        reduceCtorEq, beq_iff_eq] at hc
      have := h1 c (by simpa using hc)
      simpa [World.step, Env.step] using this
    · intro _
      have := h2 (by simp)
      simpa using this
    · simp only [World.step, Utmi.step, Window.step]
      (repeat' split) <;> simp

theorem accRel_run (cfg : Config) (x : World) (h : List UtmiIn) (r : Option Controls) (hr : AccRel x r) :
    AccRel (World.run cfg x h) (lastAccepted cfg x.u h r) := by
  induction h generalizing x r with
  | nil => exact hr
  | cons i is ih =>
    simp only [World.run, lastAccepted]
    have := ih (x.step cfg i) _ (accRel_step cfg x i r hr)
    simpa [World.step] using this

/-- **write_carries_requested_value** — the first clause of the property at history level.  For every
history from reset whose PHY obeys `safeCycle`, whatever the control inputs do (changes while the
write is in flight, reverts, changes of the other register included): whenever the register window
reports a write `done`, there was a cycle in which it accepted that write, and the PHY register it
addressed now holds the value that the control inputs `c` *of that cycle* requested for *that*
register; the other PHY register still equals its shadow. -/
theorem write_carries_requested_value (cfg : Config) (h : List UtmiIn)
    (hl : SafeOk cfg (World.init cfg) h = true) :
    let y := World.run cfg (World.init cfg) h
    y.u.win.done = true →
    ∃ c, lastAccepted cfg (Utmi.init cfg) h none = some c ∧
      ((y.u.win.curAddr = ADDR_FUNCTION_CONTROL ∧ y.p.r04 = functionControl c ∧ y.p.r0A = y.u.ctl.cur0A) ∨
       (y.u.win.curAddr = ADDR_OTG_CONTROL ∧ y.p.r0A = otgControl c ∧ y.p.r04 = y.u.ctl.cur04)) := by
  intro y hd
  have h0 : AccRel (World.init cfg) none := by
    unfold AccRel
    refine ⟨(fun c hc => nomatch hc), ?_, ?_⟩ <;> simp [World.init, Utmi.init]
  obtain ⟨a1, a2, _⟩ := accRel_run cfg (World.init cfg) h none h0
  have hne := a2 (Or.inr hd)
  obtain ⟨c, hc⟩ := Option.ne_none_iff_exists'.mp hne
  have hc' : lastAccepted cfg (Utmi.init cfg) h none = some c := hc
  obtain ⟨e4, eA⟩ := a1 c hc
  obtain ⟨_, _, _, h4, _⟩ := phy_tracks_window cfg h hl
  refine ⟨c, hc', ?_⟩
  rcases h4 hd with ⟨g1, g2, g3, g4⟩ | ⟨g1, g2, g3, g4⟩
  · left; exact ⟨g1, by rw [g2, g3]; exact e4, g4⟩
  · right; exact ⟨g1, by rw [g2, g3]; exact eA, g4⟩


/-! ## Convergence -/

/-- The explicit bound: three register writes of at most `2K+6` cycles each (one possibly in flight
with a stale value when the inputs settle, then one per register), one transmission of at most `T`
cycles in between, and `2K+5` cycles per DIR-high cycle `N` (the cycle itself plus the restart of the
register write it aborts). -/
def convergeBound (K T N : Nat) : Nat := 3 * (2 * K + 6) + T + (2 * K + 5) * N

/-- **converges.**  From any coherent state with the start-up timer expired: if the UTMI control
inputs are constant `= c` throughout the history `h`, the PHY and the UTMI transmitter satisfy the
bounded-fairness hypotheses `liveCycle K T` in every cycle (for arbitrary `K`, `T`), and `h` is at
least `convergeBound K T N` cycles long, `N` the number of DIR-high cycles in `h`, then after `h`
the PHY registers 0x04 / 0x0A equal the requested settings, so do the shadow registers, the register
window is idle, nothing is credited, requested or pending.  (Every longer history satisfying the
hypotheses ends settled too, so the registers *stay* equal.) -/
theorem converges (cfg : Config) (K T : Nat) (c : Controls) (x : World) (h : List UtmiIn)
    (hc : Coh x) (hl : Live K x) (hr : x.u.phyReady = true)
    (hcc : ctrlConst c h = true) (ho : LiveOk cfg K T x h = true)
    (hn : convergeBound K T (dirHigh h) ≤ h.length) :
    let y := World.run cfg x h
    y.p.r04 = functionControl c ∧ y.p.r0A = otgControl c ∧
    y.u.ctl.cur04 = functionControl c ∧ y.u.ctl.cur0A = otgControl c ∧
    y.u.win.st = .idle ∧ y.u.win.done = false ∧ y.u.ctl.busy = false ∧ (y.u.ctlOut c).writeReq = false := by
  intro y
  have hrk := rank_le K T (functionControl c) (otgControl c) x hc hl
  have hz := rank_reaches_zero cfg K T c x h hc hl hr hcc ho (by unfold convergeBound at hn; omega)
  obtain ⟨hc', hl'⟩ := inv_run cfg K T x h hc hl ho
  obtain ⟨s1, s2, s3, s4, s5, s6, s7⟩ := rank_zero_settled K T _ _ _ hc' hl' hz
  refine ⟨s6, s7, s4, s5, s1, s2, s3, ?_⟩
  exact (settled_no_request _ _ _ _ _ s4 s5).1

/-- **converges**, from reset: `h0` is an arbitrary prefix (control inputs changing at will) after
which the start-up timer has expired; the hypotheses are required of the whole history. -/
theorem converges_from_reset (cfg : Config) (K T : Nat) (c : Controls) (h0 h : List UtmiIn)
    (hr : (Utmi.run cfg (Utmi.init cfg) h0).phyReady = true)
    (hcc : ctrlConst c h = true) (ho : LiveOk cfg K T (World.init cfg) (h0 ++ h) = true)
    (hn : convergeBound K T (dirHigh h) ≤ h.length) :
    let y := World.run cfg (World.init cfg) (h0 ++ h)
    y.p.r04 = functionControl c ∧ y.p.r0A = otgControl c ∧
    y.u.ctl.cur04 = functionControl c ∧ y.u.ctl.cur0A = otgControl c ∧
    y.u.win.st = .idle ∧ y.u.win.done = false ∧ y.u.ctl.busy = false ∧ (y.u.ctlOut c).writeReq = false := by
  rw [LiveOk_append, Bool.and_eq_true] at ho
  have hl0 : Live K (World.init cfg) := by simp [Live, World.init, Utmi.init]
  obtain ⟨hc1, hl1⟩ := inv_run cfg K T _ h0 (coh_init cfg) hl0 ho.1
  have hr1 : (World.run cfg (World.init cfg) h0).u.phyReady = true := by
    rw [World.run_u]; exact hr
  rw [World.run_append]
  exact converges cfg K T c _ h hc1 hl1 hr1 hcc ho.2 hn


/-- Without a `rst` member in the ULPI record the start-up timer is bypassed: `phy_ready` holds after
the first cycle, so `converges_from_reset` applies with any non-empty prefix `h0`. -/
theorem ready_after_first_cycle (cfg : Config) (hc : cfg.hasRst = false) (i : UtmiIn) (is : List UtmiIn) :
    (Utmi.run cfg (Utmi.init cfg) (i :: is)).phyReady = true := by
  have h1 : ((Utmi.init cfg).step cfg i).1.phyReady = true := by simp [Utmi.step, hc]
  have := ready_run cfg ⟨((Utmi.init cfg).step cfg i).1, {}, {}⟩ is h1
  rw [World.run_u] at this
  exact this

/-- `P` holds in the start state and after every prefix of the history (the whole history included). -/
def Along (cfg : Config) (P : World → Bool) : World → List UtmiIn → Bool
  | x, [] => P x
  | x, i :: is => P x && Along cfg P (x.step cfg i) is

theorem Along_head (cfg : Config) (P : World → Bool) (x : World) (h : List UtmiIn)
    (ha : Along cfg P x h = true) : P x = true := by
  cases h with
  | nil => exact ha
  | cons i is => simp only [Along, Bool.and_eq_true] at ha; exact ha.1

/-- A change of a control register is pending, but the register window has not accepted the write. -/
def writeUnstarted (c : Controls) (y : World) : Bool :=
  y.u.win.st == .idle && !y.u.win.done &&
    (y.u.ctl.cur04 != functionControl c || y.u.ctl.cur0A != otgControl c)

/-- The transmit translator has not claimed the bus. -/
def txUnstarted (y : World) : Bool := !y.u.tx.outReq

def allTxValid : List UtmiIn → Bool
  | [] => true
  | i :: is => i.txValid && allTxValid is

theorem coh_tx_free (x : World) (hc : Coh x) (h : x.u.tx.outReq = false) : x.u.tx = ⟨.idle, false⟩ := by
  obtain ⟨_, _, h3⟩ := hc
  cases hw : x.u.win.st <;> simp only [hw] at h3
  case idle =>
    obtain ⟨_, _, h4⟩ := h3
    rcases h4 with ⟨_, _, gt, _⟩ | ⟨_, _, _, _, gt⟩
    · exact gt
    · rcases gt with ⟨gt, _⟩ | ⟨gt, _⟩ | ⟨gt, _⟩
      · exact gt
      · rw [gt] at h; simp at h
      · rw [gt] at h; simp at h
  all_goals exact h3.1.2.1

theorem rank_le_free (K T v04 v0A : Nat) (x : World) (hc : Coh x) (hf : x.u.tx.outReq = false) :
    rank K T v04 v0A x ≤ 3 * (2 * K + 6) := by
  have ht := coh_tx_free x hc hf
  obtain ⟨⟨win, ctl, tx, rx, rdy, cnt⟩, ⟨pb, r4, rA, po, pw⟩, ⟨pd, wt, tl, mh, dn, a4, aA⟩⟩ := x
  obtain ⟨wst, ca, cw, d, oq, sp, wdn, rd⟩ := win
  simp only at ht
  subst ht
  have e1 : ∀ a b, wcost K a b ≤ 2 * K + 6 := by intro a b; unfold wcost; split <;> omega
  have p1 := e1 ctl.cur04 v04
  have p2 := e1 ctl.cur0A v0A
  have p3 := e1 cw v04
  have p4 := e1 cw v0A
  cases wst <;> simp only [rank]
  case idle =>
    split
    · simp only [pendAfter]; (repeat' split) <;> omega
    · split
      · omega
      · simp only [pendNow, txRank]; omega
  all_goals ((try simp only [pendAfter]); (repeat' split) <;> omega)

/-- A waiting transmission: DIR-low cycles are bounded by the rank. -/
theorem tx_wait_low (cfg : Config) (K T : Nat) (c : Controls) (x : World) (h : List UtmiIn)
    (hc : Coh x) (hl : Live K x) (hr : x.u.phyReady = true) (hcc : ctrlConst c h = true)
    (ho : LiveOk cfg K T x h = true) (hv : allTxValid h = true)
    (hw : Along cfg txUnstarted x h = true) :
    dirLow h ≤ rank K T (functionControl c) (otgControl c) x + (2 * K + 4) * dirHigh h := by
  induction h generalizing x with
  | nil => simp [dirLow]
  | cons i is ih =>
    simp only [ctrlConst, LiveOk, allTxValid, Along, Bool.and_eq_true, decide_eq_true_eq] at hcc ho hv hw
    obtain ⟨hi, hcc⟩ := hcc
    obtain ⟨h1, h2⟩ := ho
    have hs := rank_step cfg K T x i hc hl h1
    have hc1 := coh_step cfg x i hc (liveCycle_safe h1)
    subst hi
    obtain ⟨hz, hstep⟩ := hs.2 hr
    have ih' := ih _ hc1 hs.1 (ready_step cfg x i hr) hcc h2 hv.2 hw.2
    have hx1 := Along_head cfg _ _ _ hw.2
    simp only [dirLow, dirHigh]
    have hm : (2 * K + 4) * (1 + dirHigh is) = (2 * K + 4) + (2 * K + 4) * dirHigh is := by
      rw [Nat.mul_add, Nat.mul_one]
    cases hd : i.phy.dir <;> simp only [hd, if_true, if_false, Bool.false_eq_true, Nat.zero_add] at hstep ⊢
    · by_cases hr0 : rank K T (functionControl i.ctrl) (otgControl i.ctrl) x = 0
      · -- settled, DIR low, tx_valid: the transmitter claims the bus in this cycle
        exfalso
        obtain ⟨s1, s2, s3, s4, s5, _, _⟩ := rank_zero_settled K T _ _ _ hc hl hr0
        have hfree := coh_tx_free x hc (by simpa [txUnstarted] using hw.1)
        have := tx_starts_when_settled cfg x.u i s4 s5 s3 hd hr hv.1 (by rw [hfree])
        simp only [txUnstarted, World.step, this] at hx1
        exact absurd hx1 (by decide)
      · omega
    · rw [hm]; omega

/-- **no_mutual_blocking, transmissions** (history level).  Control inputs constant, hypotheses
`liveCycle K T` satisfied, `tx_valid` high in every cycle of `h`, and the transmit translator has not
claimed the bus in the start state nor after any prefix of `h` (all of `h` included): then `h` is
shorter than three register writes (one possibly in flight, one per register) plus `2K+5` cycles per
DIR-high cycle.  Pending register writes delay a transmission by at most that. -/
theorem tx_delay_bounded (cfg : Config) (K T : Nat) (c : Controls) (x : World) (h : List UtmiIn)
    (hc : Coh x) (hl : Live K x) (hr : x.u.phyReady = true) (hcc : ctrlConst c h = true)
    (ho : LiveOk cfg K T x h = true) (hv : allTxValid h = true)
    (hw : Along cfg txUnstarted x h = true) :
    h.length ≤ 3 * (2 * K + 6) + (2 * K + 5) * dirHigh h := by
  have h1 := tx_wait_low cfg K T c x h hc hl hr hcc ho hv hw
  have h2 := rank_le_free K T (functionControl c) (otgControl c) x hc
    (by simpa [txUnstarted] using Along_head cfg _ _ _ hw)
  have hm : (2 * K + 5) * dirHigh h = (2 * K + 4) * dirHigh h + dirHigh h := by
    rw [show 2 * K + 5 = (2 * K + 4) + 1 from rfl, Nat.add_mul, Nat.one_mul]
  have := dir_count h
  omega

theorem shadows_keep (cfg : Config) (x : World) (i : UtmiIn) (hd : x.u.win.done = false) :
    (x.step cfg i).u.ctl.cur04 = x.u.ctl.cur04 ∧ (x.step cfg i).u.ctl.cur0A = x.u.ctl.cur0A := by
  simp [World.step, Utmi.step, Ctl.step, hd]

theorem unstarted_rank (K T : Nat) (c : Controls) (x : World) (hu : writeUnstarted c x = true) :
    rank K T (functionControl c) (otgControl c) x
      = pendNow K (functionControl c) (otgControl c) x.u + txRank K T x ∧
    1 ≤ pendNow K (functionControl c) (otgControl c) x.u := by
  simp only [writeUnstarted, Bool.and_eq_true, Bool.or_eq_true, beq_iff_eq, Bool.not_eq_true', bne_iff_ne] at hu
  obtain ⟨⟨hs, hd⟩, hm⟩ := hu
  have hp : 1 ≤ pendNow K (functionControl c) (otgControl c) x.u := by
    simp only [pendNow, wcost]
    rcases hm with g | g <;> simp only [g, if_false] <;> omega
  refine ⟨?_, hp⟩
  simp only [rank, hs, hd, Bool.false_eq_true, if_false]
  split
  · omega
  · rfl

/-- A pending write that is not accepted: DIR-low cycles are bounded by the transmitter's rank. -/
theorem write_wait_low (cfg : Config) (K T : Nat) (c : Controls) (x : World) (h : List UtmiIn)
    (hc : Coh x) (hl : Live K x) (hr : x.u.phyReady = true) (hcc : ctrlConst c h = true)
    (ho : LiveOk cfg K T x h = true) (hw : Along cfg (writeUnstarted c) x h = true) :
    dirLow h ≤ txRank K T x + (2 * K + 4) * dirHigh h := by
  induction h generalizing x with
  | nil => simp [dirLow]
  | cons i is ih =>
    simp only [ctrlConst, LiveOk, Along, Bool.and_eq_true, decide_eq_true_eq] at hcc ho hw
    obtain ⟨hi, hcc⟩ := hcc
    obtain ⟨h1, h2⟩ := ho
    have hs := rank_step cfg K T x i hc hl h1
    have hc1 := coh_step cfg x i hc (liveCycle_safe h1)
    subst hi
    obtain ⟨hz, hstep⟩ := hs.2 hr
    have ih' := ih _ hc1 hs.1 (ready_step cfg x i hr) hcc h2 hw.2
    have hx1 := Along_head cfg _ _ _ hw.2
    obtain ⟨e0, p0⟩ := unstarted_rank K T i.ctrl x hw.1
    obtain ⟨e1, p1⟩ := unstarted_rank K T i.ctrl _ hx1
    have hd0 : x.u.win.done = false := by
      have := hw.1
      simp only [writeUnstarted, Bool.and_eq_true, Bool.not_eq_true'] at this
      exact this.1.2
    have hk := shadows_keep cfg x i hd0
    have hp : pendNow K (functionControl i.ctrl) (otgControl i.ctrl) (x.step cfg i).u
        = pendNow K (functionControl i.ctrl) (otgControl i.ctrl) x.u := by
      simp only [pendNow, hk.1, hk.2]
    rw [e0, e1, hp] at hstep
    simp only [dirLow, dirHigh]
    have hm : (2 * K + 4) * (1 + dirHigh is) = (2 * K + 4) + (2 * K + 4) * dirHigh is := by
      rw [Nat.mul_add, Nat.mul_one]
    cases hd : i.phy.dir <;> simp only [hd, if_true, if_false, Bool.false_eq_true, Nat.zero_add] at hstep ⊢
    · omega
    · rw [hm]; omega

theorem txRank_le (K T : Nat) (x : World) : txRank K T x ≤ K + 2 + T := by
  obtain ⟨⟨win, ctl, ⟨tst, treq⟩, rx, rdy, cnt⟩, p, ⟨pd, wt, tl, mh, dn, a4, aA⟩⟩ := x
  cases tst <;> cases treq <;> cases pd <;> simp only [txRank, if_true, if_false, Bool.false_eq_true] <;> omega

/-- **no_mutual_blocking, register writes** (history level).  Control inputs constant, hypotheses
`liveCycle K T` satisfied, and in the start state and after every prefix of `h` a change of a control
register is pending without the register window having accepted the write: then `h` is shorter than
one transmission (`K + 2` cycles for the command plus `T`) plus `2K+5` cycles per DIR-high cycle.
A transmission delays a pending register write by at most that. -/
theorem write_delay_bounded (cfg : Config) (K T : Nat) (c : Controls) (x : World) (h : List UtmiIn)
    (hc : Coh x) (hl : Live K x) (hr : x.u.phyReady = true) (hcc : ctrlConst c h = true)
    (ho : LiveOk cfg K T x h = true) (hw : Along cfg (writeUnstarted c) x h = true) :
    h.length ≤ K + 2 + T + (2 * K + 5) * dirHigh h := by
  have h1 := write_wait_low cfg K T c x h hc hl hr hcc ho hw
  have h2 := txRank_le K T x
  have hm : (2 * K + 5) * dirHigh h = (2 * K + 4) * dirHigh h + dirHigh h := by
    rw [show 2 * K + 5 = (2 * K + 4) + 1 from rfl, Nat.add_mul, Nat.one_mul]
  have := dir_count h
  omega


/-! ## Non-vacuity of the hypotheses, and the counterexample to "DIR low once every D cycles" -/

/-- A cycle with PHY data lines 0. -/
def cyc (dir nxt : Bool) (txd : Nat) (txv : Bool) (c : Controls) : UtmiIn := ⟨⟨dir, nxt, 0⟩, txd, txv, c⟩

/-- `term_select` raised, everything else 0: Function Control 0x44, OTG Control 0x00. -/
def exCtrl : Controls := { termSelect := true }

def exH0 : List UtmiIn := [cyc false false 0 false {}]

/-- From the cycle after reset the control inputs are `exCtrl` (both PHY registers differ) and the
UTMI side wants to send C3 11: write of 0x04 with one NXT wait, aborted once by DIR and restarted,
write of 0x0A, then the packet, then idle cycles. -/
def exH : List UtmiIn :=
  [ cyc false false 0xC3 true exCtrl,   -- write 0x04 accepted (transmitter held off)
    cyc false false 0xC3 true exCtrl,   -- START_WRITE
    cyc false false 0xC3 true exCtrl,   -- command on the bus, PHY waits
    cyc true  false 0xC3 true exCtrl,   -- DIR high: abort
    cyc false false 0xC3 true exCtrl,   -- turnaround, START_WRITE again
    cyc false true  0xC3 true exCtrl,   -- command accepted
    cyc false false 0xC3 true exCtrl,   -- data, PHY waits
    cyc false true  0xC3 true exCtrl,   -- data accepted
    cyc false false 0xC3 true exCtrl,   -- STOPPING
    cyc false false 0xC3 true exCtrl,   -- done
    cyc false false 0xC3 true exCtrl,   -- write 0x0A accepted
    cyc false false 0xC3 true exCtrl,
    cyc false true  0xC3 true exCtrl,
    cyc false true  0xC3 true exCtrl,
    cyc false false 0xC3 true exCtrl,
    cyc false false 0xC3 true exCtrl,   -- done
    cyc false false 0xC3 true exCtrl,   -- transmitter claims the bus
    cyc false true  0xC3 true exCtrl,   -- transmit command accepted
    cyc false true  0x11 true exCtrl,
    cyc false false 0 false exCtrl ]    -- STP
  ++ List.replicate 20 (cyc false false 0 false exCtrl)

/-- Non-vacuity of `converges_from_reset` (K = 1, T = 3, one DIR-high cycle, bound 34 ≤ 40 cycles) and
of `phy_tracks_window`; the conclusion computed directly. -/
example : LiveOk {} 1 3 (World.init {}) (exH0 ++ exH) = true ∧ ctrlConst exCtrl exH = true ∧
    (Utmi.run {} (Utmi.init {}) exH0).phyReady = true ∧ convergeBound 1 3 (dirHigh exH) ≤ exH.length ∧
    (World.run {} (World.init {}) (exH0 ++ exH)).p.r04 = 0x44 ∧
    (World.run {} (World.init {}) (exH0 ++ exH)).p.r0A = 0 ∧
    (World.run {} (World.init {}) (exH0 ++ exH)).p.writes = 2 := by decide +kernel

/-- Non-vacuity of `write_carries_requested_value`: after ten cycles the first write is `done`. -/
example : SafeOk {} (World.init {}) (exH0 ++ exH.take 9) = true ∧
    (World.run {} (World.init {}) (exH0 ++ exH.take 9)).u.win.done = true ∧
    lastAccepted {} (Utmi.init {}) (exH0 ++ exH.take 9) none = some exCtrl := by decide +kernel

/-- Non-vacuity of `tx_delay_bounded`: during the first 16 cycles of `exH` the transmitter waits. -/
example : Along {} txUnstarted (World.run {} (World.init {}) exH0) (exH.take 16) = true ∧
    allTxValid (exH.take 16) = true ∧ LiveOk {} 1 3 (World.init {}) (exH0 ++ exH.take 16) = true := by
  decide +kernel

/-- Both registers settled at their values for all-zero control inputs, then a packet is started. -/
def exPre : List UtmiIn :=
  [ cyc false false 0 false {}, cyc false false 0 false {}, cyc false false 0 false {},
    cyc false true 0 false {}, cyc false true 0 false {}, cyc false false 0 false {}, cyc false false 0 false {},
    cyc false false 0 false {}, cyc false false 0 false {},
    cyc false true 0 false {}, cyc false true 0 false {}, cyc false false 0 false {}, cyc false false 0 false {},
    cyc false false 0 false {},
    cyc false false 0xC3 true {}, cyc false true 0xC3 true {} ]

/-- The control inputs change while the packet is on the bus: the write waits for the STP. -/
def exW : List UtmiIn :=
  [ cyc false true 0x11 true exCtrl, cyc false false 0x22 true exCtrl, cyc false true 0x22 true exCtrl,
    cyc false false 0 false exCtrl ]

/-- Non-vacuity of `write_delay_bounded` (K = 1, T = 5). -/
example : LiveOk {} 1 5 (World.init {}) (exPre ++ exW) = true ∧ ctrlConst exCtrl exW = true ∧
    (World.run {} (World.init {}) exPre).u.phyReady = true ∧
    Along {} (writeUnstarted exCtrl) (World.run {} (World.init {}) exPre) exW = true := by decide +kernel

/-- A PHY that raises DIR in every third cycle. -/
def exAbortPre : List UtmiIn :=
  [ cyc false false 0 false exCtrl, cyc false false 0 false exCtrl, cyc false false 0 false exCtrl,
    cyc false false 0 false exCtrl, cyc true false 0 false exCtrl ]

def exPattern : List UtmiIn :=
  [ cyc false false 0 false exCtrl, cyc false false 0 false exCtrl, cyc true false 0 false exCtrl ]

def exRepeat : Nat → List UtmiIn
  | 0 => []
  | n + 1 => exPattern ++ exRepeat n

/-- The state the system keeps coming back to: START_WRITE for `0x04 := 0x44` just after an abort. -/
def exLoop : World := World.run {} (World.init {}) (exAbortPre ++ exPattern)

/-- **dir_low_often_is_not_enough.**  DIR low in two cycles out of every three, every other hypothesis
of `converges` satisfied (`K = 1`: the command is never on the bus for more than one cycle without an
answer, because DIR cuts in; constant control inputs; start-up over; coherent start state reached from
reset under the same hypotheses) — and for every number `n` of repetitions the system is back in the
same state, the PHY's Function Control register still at its reset value.  Hence a convergence bound
cannot be a function of "DIR is low at least once every D cycles"; the bound of `converges` counts the
DIR-high cycles instead. -/
theorem dir_low_often_is_not_enough (n : Nat) :
    LiveOk {} 1 0 exLoop (exRepeat n) = true ∧ ctrlConst exCtrl (exRepeat n) = true ∧
    exLoop.u.phyReady = true ∧ World.run {} exLoop (exRepeat n) = exLoop ∧
    exLoop.p.r04 ≠ functionControl exCtrl ∧
    LiveOk {} 1 0 (World.init {}) (exAbortPre ++ exPattern) = true := by
  have hp : World.run {} exLoop exPattern = exLoop := by decide +kernel
  have hl : LiveOk {} 1 0 exLoop exPattern = true := by decide +kernel
  have hc : ctrlConst exCtrl exPattern = true := by decide +kernel
  refine ⟨?_, ?_, by decide +kernel, ?_, by decide +kernel, by decide +kernel⟩
  · induction n with
    | zero => rfl
    | succ n ih => simp only [exRepeat, LiveOk_append, hl, hp, ih, Bool.and_self]
  · induction n with
    | zero => rfl
    | succ n ih =>
      have happ : ∀ a b, ctrlConst exCtrl (a ++ b) = (ctrlConst exCtrl a && ctrlConst exCtrl b) := by
        intro a b
        induction a with
        | nil => simp [ctrlConst]
        | cons i is iha => simp [ctrlConst, iha, Bool.and_assoc]
      simp only [exRepeat, happ, hc, ih, Bool.and_self]
  · induction n with
    | zero => rfl
    | succ n ih => simp only [exRepeat, World.run_append, hp, ih]

end LunaVerif.Ulpi
