import LunaVerif.Lemmas.C39RoundRun
/-!
# C39 (4) — after an LBAD every unacknowledged header is retransmitted, in order, with DL, before new ones

History-level statement for `PacketTx.step` (the model of the repaired `PacketTransmitter`, incl. the
FLUSH_PACKET state).  `latches c s ins` is the sequence of headers handed to the raw transmitter
(`packet_tx.header` in the cycles in which `RawPacketTransmitter` leaves IDLE) during the history `ins`
from state `s`; by `tx_word_carries_header` these are the headers whose words go on the wire.

**Theorem** `lbad_retransmits_all_unacked_in_order_with_dl`: take any history `pre` from reset after
which `retry_required` is asserted (an LBAD has been received — the first, or a further one in the middle
of a retransmission round, in any FSM state), the LBAD cycle `i0`, and any continuation `post` with
arbitrary waiting times (`source.ready`, `lrty_pending`, queue and link-command timing) in which the link
stays up and no further LBAD arrives *before the last cycle of `post`*.  Let `unacked` be the `m` headers
that are unacknowledged after the LBAD cycle (they sit in `buffers[ack_pointer ..]`).  Then the first `m`
headers handed to the raw transmitter after the LBAD cycle are `unacked`, in their original order, each
with the delayed bit set and otherwise unchanged (`dl`), i.e. `(latches …).take m` is a prefix of
`unacked.map dl` — so no new header comes before them, and if a further LBAD cuts the round short, what
was sent of it is an initial segment (and the theorem applies again to that LBAD: the round restarts from
the first header unacknowledged then).

Environment (`EnvOkR` / `RoundEnv`, decidable, per cycle): `EnvStep` of `Props/C39` (link up; LGOOD only
for outstanding headers; credits ≤ 4 + retired) and `ackSent`: the partner acknowledges a header only once
its (re)transmission has at least been started (in the current round).  Without the latter a header could
be retired — and its buffer reused — before it is retransmitted.

A header latched in the LBAD cycle itself or before (a packet in flight) is not part of `latches … post`;
the FLUSH_PACKET / WAIT_FOR_SEND logic guarantees it does not advance the reloaded read pointer
(that is part of what `Ctl.inv_step`/`Ctl.lbad_step` prove).
-/
namespace LunaVerif.PacketTx
open LunaVerif.HeaderRx (Hdr Bufs bufQ)

/-- **The retry round, from any state satisfying the invariants.** -/
theorem lbad_round (c : Config) (s : State) (g : Ghost) (i : In) (post : List In)
    (hi : InvR s g) (e : EnvStepR s g i) (hL : retryRequired s = true) :
    let s1 := (step c s i).1
    let g1 := ghostStep s i g
    let unacked := g1.taken.drop g1.retired
    RoundEnv c s1 g1 post →
    unacked = bufQ s1.bufs s1.ap s1.paa ∧ unacked.length = s1.paa ∧ s1.pts = s1.paa ∧ s1.rp = s1.ap ∧
    s1.retryPending = true ∧
    (latches c s1 post).take unacked.length <+: unacked.map dl := by
  intro s1 g1 unacked henv
  have hi1 : InvR s1 g1 := invR_step hi e
  have o := evOk_of hi.inv e
  obtain ⟨h1, h2, _, h4⟩ := Ctl.lbad_step hi.ctl o hL
  rw [← ctlOf_step c s i e.env.en] at h1 h2 h4
  have hw := hi1.inv.hwin
  have hlen : unacked.length = s1.paa := by
    have := hi1.inv.hpaa
    simp only [unacked, List.length_drop]; omega
  exact ⟨hw.symm, hlen, h1, h2, h4, round_run c post s1 g1 unacked hi1 (round_start hi e hL) henv⟩

/-- **C39 (4)** — see the module comment. -/
theorem lbad_retransmits_all_unacked_in_order_with_dl (c : Config) (pre : List In) (i0 : In) (post : List In)
    (henv : EnvOkR c init Ghost.init (pre ++ [i0]))
    (hL : retryRequired (runG c init Ghost.init pre).1 = true) :
    let r0 := runG c init Ghost.init pre
    let s1 := (step c r0.1 i0).1
    let g1 := ghostStep r0.1 i0 r0.2
    let unacked := g1.taken.drop g1.retired
    RoundEnv c s1 g1 post →
    unacked = bufQ s1.bufs s1.ap s1.paa ∧ unacked.length = s1.paa ∧
    (latches c s1 post).take unacked.length <+: unacked.map dl := by
  intro r0 s1 g1 unacked hpost
  obtain ⟨e1, e2⟩ := EnvOkR.append henv
  have hi : InvR r0.1 r0.2 := invR_run c pre _ _ invR_init e1
  obtain ⟨a, b, _, _, _, d⟩ := lbad_round c r0.1 r0.2 i0 post hi e2.1 hL hpost
  exact ⟨a, b, d⟩

/-- The same, header by header: the `k`-th header (k < m) handed to the raw transmitter after the LBAD
cycle — if the history is long enough for it — is the `k`-th unacknowledged one with the delayed bit set;
its words 0–2, sequence number and the other link-control fields are those stored at enqueue time. -/
theorem lbad_retransmission_kth (c : Config) (pre : List In) (i0 : In) (post : List In)
    (henv : EnvOkR c init Ghost.init (pre ++ [i0]))
    (hL : retryRequired (runG c init Ghost.init pre).1 = true) :
    let r0 := runG c init Ghost.init pre
    let s1 := (step c r0.1 i0).1
    let g1 := ghostStep r0.1 i0 r0.2
    let unacked := g1.taken.drop g1.retired
    RoundEnv c s1 g1 post →
    ∀ (k : Nat) (h : Hdr), k < unacked.length → (latches c s1 post)[k]? = some h →
      ∃ u, unacked[k]? = some u ∧ h = dl u ∧ h.delayed = true ∧ h.dw0 = u.dw0 ∧ h.dw1 = u.dw1 ∧
        h.dw2 = u.dw2 ∧ h.seq = u.seq := by
  intro r0 s1 g1 unacked hpost k h hk hget
  obtain ⟨_, _, ⟨t, ht⟩⟩ := lbad_retransmits_all_unacked_in_order_with_dl c pre i0 post henv hL hpost
  have h1 : ((latches c s1 post).take unacked.length)[k]? = some h := by
    rw [List.getElem?_take_of_lt hk]; exact hget
  have h2 : (unacked.map dl)[k]? = some h := by
    rw [← ht, List.getElem?_append_left (by
      have := (List.getElem?_eq_some_iff.1 h1).1; exact this)]
    exact h1
  rw [List.getElem?_map] at h2
  cases hu : unacked[k]? with
  | none => rw [hu] at h2; cases h2
  | some u =>
    rw [hu] at h2
    have hh : h = dl u := (Option.some.inj h2).symm
    obtain ⟨d1, d2, d3, d4, d5, _, _⟩ := dl_spec u
    exact ⟨u, rfl, hh, by rw [hh]; exact d1, by rw [hh]; exact d2, by rw [hh]; exact d3, by rw [hh]; exact d4,
      by rw [hh]; exact d5⟩

/-! ## Non-vacuity -/

instance (s : State) (g : Ghost) (i : In) : Decidable (EnvStepR s g i) :=
  decidable_of_iff (EnvStep s g i ∧ (retire s = true → s.pts < s.paa + (ctlOf s).nCur))
    ⟨fun ⟨a, b⟩ => ⟨a, b⟩, fun ⟨a, b⟩ => ⟨a, b⟩⟩

def decEnvOkR (c : Config) : (s : State) → (g : Ghost) → (ins : List In) → Decidable (EnvOkR c s g ins)
  | _, _, [] => isTrue trivial
  | s, g, i :: is =>
    match (inferInstance : Decidable (EnvStepR s g i)), decEnvOkR c (step c s i).1 (ghostStep s i g) is with
    | isTrue a, isTrue b => isTrue ⟨a, b⟩
    | isFalse a, _ => isFalse (fun h => a h.1)
    | _, isFalse b => isFalse (fun h => b h.2)
instance (c : Config) (s : State) (g : Ghost) (ins : List In) : Decidable (EnvOkR c s g ins) := decEnvOkR c s g ins

def decRoundEnv (c : Config) : (s : State) → (g : Ghost) → (ins : List In) → Decidable (RoundEnv c s g ins)
  | _, _, [] => isTrue trivial
  | s, g, i :: is =>
    match (inferInstance : Decidable (EnvStepR s g i)),
      (inferInstance : Decidable (retryRequired s = true → is.isEmpty = true)),
      decRoundEnv c (step c s i).1 (ghostStep s i g) is with
    | isTrue a, isTrue b, isTrue d => isTrue ⟨a, b, d⟩
    | isFalse a, _, _ => isFalse (fun h => a h.1)
    | _, isFalse b, _ => isFalse (fun h => b h.2.1)
    | _, _, isFalse d => isFalse (fun h => d h.2.2)
instance (c : Config) (s : State) (g : Ghost) (ins : List In) : Decidable (RoundEnv c s g ins) :=
  decRoundEnv c s g ins

/-- advertisement LGOOD_5, three credits, three headers (the third one a DATA header) taken and sent,
LGOOD_6 for the first, then an LBAD -/
def retryPre : List In :=
  lcIn LGOOD 5 ++ lcIn LCRD 0 ++ lcIn LCRD 1 ++ lcIn LCRD 2 ++
  [idleIn, qIn ⟨4, 1, 2, 0⟩, qIn ⟨4, 3, 4, 0⟩, qIn ⟨8, 5, 6, 0⟩] ++
  List.replicate 24 idleIn ++ lcIn LGOOD 6 ++ lcIn LBAD 0
/-- after the LBAD: `lrty_pending` for three cycles, a stalled source, a new header from the queue in the
middle of the round, then enough time to finish -/
def retryPost : List In :=
  List.replicate 3 { idleIn with lrtyPending := true } ++ List.replicate 4 idleIn ++
  List.replicate 2 { idleIn with srcReady := false } ++ lcIn LCRD 3 ++ [idleIn, qIn ⟨0, 7, 8, 0⟩] ++
  List.replicate 30 idleIn

example : EnvOkR ⟨201, 256⟩ init Ghost.init (retryPre ++ [idleIn]) := by decide +kernel
example : retryRequired (runG ⟨201, 256⟩ init Ghost.init retryPre).1 = true := by decide +kernel
example : let r0 := runG ⟨201, 256⟩ init Ghost.init retryPre
    RoundEnv ⟨201, 256⟩ (step ⟨201, 256⟩ r0.1 idleIn).1 (ghostStep r0.1 idleIn r0.2) retryPost := by
  decide +kernel
/-- two headers are unacknowledged at the LBAD; the round retransmits them with DL, the header enqueued
during the round comes after them -/
example : let r0 := runG ⟨201, 256⟩ init Ghost.init retryPre
    let s1 := (step ⟨201, 256⟩ r0.1 idleIn).1
    let g1 := ghostStep r0.1 idleIn r0.2
    (g1.taken.drop g1.retired).map (fun h => (h.dw0, h.dw1, h.seq, h.delayed)) = [(4, 3, 7, false), (8, 5, 0, false)] ∧
    (latches ⟨201, 256⟩ s1 retryPost).map (fun h => (h.dw0, h.dw1, h.seq, h.delayed)) =
      [(4, 3, 7, true), (8, 5, 0, true), (0, 7, 1, true)] := by
  decide +kernel

/-- a second LBAD in the middle of the round (while the first retransmission is on the wire): the history
up to it satisfies `RoundEnv`, and the theorem applies again from it -/
def retryPost2 : List In :=
  List.replicate 4 idleIn ++ lcIn LBAD 0
example : let r0 := runG ⟨201, 256⟩ init Ghost.init retryPre
    RoundEnv ⟨201, 256⟩ (step ⟨201, 256⟩ r0.1 idleIn).1 (ghostStep r0.1 idleIn r0.2) (retryPost2 ++ [idleIn]) ∧
    retryRequired (runG ⟨201, 256⟩ init Ghost.init (retryPre ++ [idleIn] ++ retryPost2)).1 = true ∧
    EnvOkR ⟨201, 256⟩ init Ghost.init ((retryPre ++ [idleIn] ++ retryPost2) ++ [idleIn]) := by
  decide +kernel
example : let r0 := runG ⟨201, 256⟩ init Ghost.init (retryPre ++ [idleIn] ++ retryPost2)
    let s1 := (step ⟨201, 256⟩ r0.1 idleIn).1
    let g1 := ghostStep r0.1 idleIn r0.2
    r0.1.fsm = .waitRetry ∧ r0.1.raw ≠ .idle ∧ s1.fsm = .flush ∧
    RoundEnv ⟨201, 256⟩ s1 g1 (List.replicate 30 idleIn) ∧
    (latches ⟨201, 256⟩ s1 (List.replicate 30 idleIn)).map (fun h => (h.dw0, h.dw1, h.seq, h.delayed)) =
      [(4, 3, 7, true), (8, 5, 0, true)] := by
  decide +kernel

/-! ## `ackSent` is needed

A partner that acknowledges a header *after* the LBAD but before its retransmission (acknowledgements are
sent in order and so precede the LBAD: a conforming partner cannot do this) and hands back the credit lets
a fifth header overwrite the buffer that is still to be retransmitted: with `EnvStep` alone the statement
fails.  (Replayed on the gateware: it agrees with the model on this history.) -/

def lateAckPre : List In :=
  lcIn LGOOD 5 ++ lcIn LCRD 0 ++ lcIn LCRD 1 ++ lcIn LCRD 2 ++ lcIn LCRD 3 ++
  [idleIn, qIn ⟨4, 10, 0, 0⟩, qIn ⟨4, 11, 0, 0⟩, qIn ⟨4, 12, 0, 0⟩, qIn ⟨4, 13, 0, 0⟩] ++
  List.replicate 30 idleIn ++ lcIn LBAD 0
/-- `lrty_pending` holds the round back while LGOOD_6 (first unacknowledged header), a credit and a fifth
header arrive -/
def lateAckPost : List In :=
  ([idleIn, idleIn] ++ lcIn LGOOD 6 ++ lcIn LCRD 0 ++ [idleIn, qIn ⟨4, 14, 0, 0⟩]).map
    (fun i => { i with lrtyPending := true }) ++ List.replicate 40 idleIn

example : let r0 := runG ⟨201, 256⟩ init Ghost.init lateAckPre
    let s1 := (step ⟨201, 256⟩ r0.1 idleIn).1
    let g1 := ghostStep r0.1 idleIn r0.2
    EnvOk ⟨201, 256⟩ init Ghost.init (lateAckPre ++ [idleIn] ++ lateAckPost) ∧
    ¬ EnvOkR ⟨201, 256⟩ init Ghost.init (lateAckPre ++ [idleIn] ++ lateAckPost) ∧
    retryRequired r0.1 = true ∧
    (g1.taken.drop g1.retired).map (fun h => (h.dw1, h.seq)) = [(10, 6), (11, 7), (12, 0), (13, 1)] ∧
    (latches ⟨201, 256⟩ s1 lateAckPost).map (fun h => (h.dw1, h.seq, h.delayed)) =
      [(14, 2, true), (11, 7, true), (12, 0, true), (13, 1, true), (14, 2, true)] := by
  decide +kernel

end LunaVerif.PacketTx
