import LunaVerif.Props.C46Once
import LunaVerif.Lemmas.C46FrameStep2
/-!
# C46 — `ss_in_framing`: short-packet / ZLP transfer ends, host view, history level

Second half of the host view (the first is `ss_in_exactly_once`, Props/C46Once.lean; same observers, same
environment `EnvOK`, same configurations `CfgOK`).  `Frame.exp` is the output of a **reference packetizer** run
on the words the endpoint takes from the producer (`fProd`, Lemmas/C46Frame.lean): bytes are collected until a
word carries `last` (→ the packet is closed: a short packet, or a `max_packet_size` packet followed by a ZLP) or
until the packet reaches `max_packet_size` (→ closed as a full packet, no ZLP).  `Frame.pkts` is the list of
packets the host observer accepts (expected sequence number, not lost).

`ss_in_framing`: at every reachable cycle `pkts ++ pendingPkts = exp`, where `pendingPkts` are the packets held
in the endpoint (read buffer packet or owed ZLP not yet accepted, ZLP owed after a full packet that ended its
transfer, completed write buffer).  Hence `ss_in_packets_prefix`: the host receives exactly the reference
packetization, packet by packet, in order — every accepted data packet is `max_packet_size` long or ends a
transfer, a ZLP follows exactly the full packets that end a transfer, nothing is merged, split, lost or
duplicated.  `ss_in_packets_bytes` ties the packets to the byte streams of `ss_in_exactly_once`.
-/
namespace LunaVerif.SSStreamIn

theorem invF_init (c : Config) (hc : CfgOK c) : InvF c (view (init c)) Ghost.init Frame.init := by
  obtain ⟨hm4, hm8, haw⟩ := hc
  have h0 : ¬ c.mps ≤ 0 := by omega
  have h1 : ¬ 0 = c.mps := by omega
  constructor <;>
    simp [view, init, Frame.init, fillW, fillR, endedW, endedR, memW, memR, rpart, zowed, wpart,
      ppart, h0, h1]
  omega

theorem invF_step (c : Config) (v : View) (g : Ghost) (f : Frame) (i : In) (d : Bool) (hc : CfgOK c)
    (hI : Inv c v g) (hF : InvF c v g f) (he : EnvOK c g i (vout c v i)) :
    InvF c (vnext c v i) (gnext i (vout c v i) d g) (fnext c.mps i (vout c v i) d g f) := by
  cases hf : v.fsm
  · exact fstep_waitData c v g f i d hc hI hF he hf
  · exact fstep_reqIn c v g f i d hc hI hF he hf
  · exact fstep_waitSend c v g f i d hc hI hF he hf
  · exact fstep_send c v g f i d hc hI hF he hf
  · cases hack : (i.ack && i.hsEp == c.ep)
    · exact fstep_waitAck_quiet c v g f i d hc hI hF he hf hack
    · cases hre : (i.retry || !(i.nextSeq == (v.seq + 1) % 32))
      · exact fstep_waitAck_accept c v g f i d hc hI hF he hf hack hre
      · exact fstep_waitAck_retry c v g f i d hc hI hF he hf hack hre

/-! ### the observers are consistent with each other (independent of the endpoint) -/

theorem fProd_pkts (mps : Nat) (i : In) (o : Out) (f : Frame) : (fProd mps i o f).pkts = f.pkts := by
  simp only [fProd]
  repeat' split
  all_goals rfl

theorem gnext_prod (i : In) (o : Out) (d : Bool) (g : Ghost) : (gnext i o d g).prod = g.prod ++ prodBytes i o := by
  have h1 : ∀ g' : Ghost, (gZlp o d g').prod = g'.prod := by intro g'; unfold gZlp; split <;> simp
  have h2 : ∀ g' : Ghost, (gTx i o d g').prod = g'.prod := by
    intro g'
    simp only [gTx]
    repeat' split
    all_goals simp
  rw [gnext, h1, h2]; rfl

theorem fProd_bytes (mps : Nat) (i : In) (o : Out) (f : Frame) :
    (fProd mps i o f).exp.flatten ++ (fProd mps i o f).part = f.exp.flatten ++ f.part ++ prodBytes i o := by
  simp only [fProd, prodBytes]
  repeat' split
  all_goals simp

/-- The framing observers along a history (same run as `runG`). -/
def runF (c : Config) : State → Ghost → Frame → List (In × Bool) → State × Ghost × Frame
  | s, g, f, [] => (s, g, f)
  | s, g, f, (i, d) :: r =>
    runF c (next c s i) (gnext i (out c s i) d g) (fnext c.mps i (out c s i) d g f) r

theorem runF_runG (c : Config) (hist : List (In × Bool)) (s : State) (g : Ghost) (f : Frame) :
    ((runF c s g f hist).1, (runF c s g f hist).2.1) = runG c s g hist := by
  induction hist generalizing s g f with
  | nil => rfl
  | cons e r ih => obtain ⟨i, d⟩ := e; exact ih _ _ _

structure InvAll (c : Config) (s : State) (g : Ghost) (f : Frame) : Prop where
  inv : Inv c (view s) g
  invF : InvF c (view s) g f
  bytes : f.pkts.flatten = g.deliv
  pbytes : f.exp.flatten ++ f.part = g.prod

theorem invAll_run (c : Config) (hc : CfgOK c) (hist : List (In × Bool)) (s : State) (g : Ghost) (f : Frame)
    (hA : InvAll c s g f) (henv : envAll c s g hist = true) :
    InvAll c (runF c s g f hist).1 (runF c s g f hist).2.1 (runF c s g f hist).2.2 := by
  induction hist generalizing s g f with
  | nil => exact hA
  | cons e r ih =>
    obtain ⟨i, d⟩ := e
    simp only [envAll, Bool.and_eq_true, decide_eq_true_eq] at henv
    have he : EnvOK c g i (vout c (view s) i) := by rw [← out_eq_vout]; exact henv.1
    have h1 := inv_step c (view s) g i d hc hA.inv he
    have h2 := invF_step c (view s) g f i d hc hA.inv hA.invF he
    rw [← view_next, ← out_eq_vout] at h1 h2
    refine ih _ _ _ ⟨h1, h2, ?_, ?_⟩ henv.2
    · rw [gnext_deliv, fnext_pkts, fProd_pkts, List.flatten_append, hA.bytes]
    · rw [gnext_prod, fnext_exp, fnext_part, fProd_bytes, hA.pbytes]

theorem invAll_init (c : Config) (hc : CfgOK c) : InvAll c (init c) Ghost.init Frame.init :=
  ⟨inv_init c hc, invF_init c hc, rfl, rfl⟩

/-- packets held by the endpoint that the host has not accepted yet -/
def pendingPkts (c : Config) (s : State) (g : Ghost) : List (List Nat) :=
  rpart (view s) g ++ (zowed c (view s) ++ wpart c.mps (fillW s) (endedW s) (memW s))

/-- **ss_in_framing**: the packets the host has accepted, followed by the packets the endpoint holds, are
exactly the packets of the reference packetizer (short packet or full packet + ZLP at every transfer end, full
packets in between). -/
theorem ss_in_framing (c : Config) (hc : CfgOK c) (hist : List (In × Bool))
    (henv : envAll c (init c) Ghost.init hist = true) :
    (runF c (init c) Ghost.init Frame.init hist).2.2.pkts ++
        pendingPkts c (runF c (init c) Ghost.init Frame.init hist).1
          (runF c (init c) Ghost.init Frame.init hist).2.1 =
      (runF c (init c) Ghost.init Frame.init hist).2.2.exp :=
  (invAll_run c hc hist _ _ _ (invAll_init c hc) henv).invF.pk

/-- the host receives a prefix of the reference packetization, packet by packet -/
theorem ss_in_packets_prefix (c : Config) (hc : CfgOK c) (hist : List (In × Bool))
    (henv : envAll c (init c) Ghost.init hist = true) :
    (runF c (init c) Ghost.init Frame.init hist).2.2.pkts <+:
      (runF c (init c) Ghost.init Frame.init hist).2.2.exp :=
  ⟨_, ss_in_framing c hc hist henv⟩

/-- the packets are the byte streams of `ss_in_exactly_once`: accepted packets concatenate to `deliv`, the
reference packets and the current partial packet to `prod` -/
theorem ss_in_packets_bytes (c : Config) (hc : CfgOK c) (hist : List (In × Bool))
    (henv : envAll c (init c) Ghost.init hist = true) :
    (runF c (init c) Ghost.init Frame.init hist).2.2.pkts.flatten =
        (runG c (init c) Ghost.init hist).2.deliv ∧
      (runF c (init c) Ghost.init Frame.init hist).2.2.exp.flatten ++
          (runF c (init c) Ghost.init Frame.init hist).2.2.part =
        (runG c (init c) Ghost.init hist).2.prod := by
  have h := invAll_run c hc hist _ _ _ (invAll_init c hc) henv
  have e := runF_runG c hist (init c) Ghost.init Frame.init
  rw [← e]
  exact ⟨h.bytes, h.pbytes⟩

/-! ## Non-vacuity (max_packet_size 8): the histories of Props/C46Once.lean, packet by packet -/

example : (runF cfg8 (init cfg8) Ghost.init Frame.init hPlain).2.2.pkts =
    [[0x11, 0x11, 0x11, 0x11, 0x22, 0x22, 0x22, 0x22]] := by decide

/-- a full packet that ends its transfer: the host gets the packet and the ZLP (also when the ZLP is lost once) -/
example : ∀ h ∈ [hZlp, hZlpLost], (runF cfg8 (init cfg8) Ghost.init Frame.init h).2.2.pkts =
      [[0x11, 0x11, 0x11, 0x11, 0x22, 0x22, 0x22, 0x22], []] ∧
    (runF cfg8 (init cfg8) Ghost.init Frame.init h).2.2.exp =
      [[0x11, 0x11, 0x11, 0x11, 0x22, 0x22, 0x22, 0x22], []] := by decide

/-- two full packets of a continuing transfer: no ZLP -/
example : (runF cfg8 (init cfg8) Ghost.init Frame.init hSwap).2.2.pkts =
    [[1, 0, 0, 0, 2, 0, 0, 0], [3, 0, 0, 0, 4, 0, 0, 0]] := by decide

/-- a short packet -/
example : (runF cfg8 (init cfg8) Ghost.init Frame.init hShort).2.2.pkts = [[0xDD, 0xCC, 0xBB]] := by decide

end LunaVerif.SSStreamIn
