import LunaVerif.Props.C31
import LunaVerif.Model.Usb3.PhyTx
/-!
# C31 in the physical layer: the transmit wiring of `USB3PhysicalLayer`

"... The keystream advances only when a word is actually transferred (not while held for SKP
insertion) ... so descrambling a scrambled stream from the same starting state returns the original
stream."

`Props/C31.lean` proves this for `Scrambler` with `hold` as a free input.  Here `hold` is what
physical/layer.py connects to it: `tx_ctc.sending_skip` of the `CTCSkipInserter` that sits behind the
scrambler, in the same cycle.  The composed model is `Model/Usb3/PhyTx.lean` (co-simulated against
the real `USB3PhysicalLayer` on every run, driver model 3).

The far end is the *reference* receiver: serial LFSR x^16+x^5+x^4+x^3+1 (`keyByte`, `skip` of
`Props/C31.lean`), one key byte per symbol, data symbols XORed, control symbols untouched, register
restarted after a word whose symbol 0 is COM, **not advanced over a SKP word** (SKP words are dropped).
-/
namespace LunaVerif.PhyTx
open LunaVerif.Crc LunaVerif.XorAlg LunaVerif.Scrambler LunaVerif.Ss

def skpSym : Symbol := ⟨true, lsbBits 0x3C 8⟩
/-- SKP SKP SKP SKP as symbols of the scrambler model -/
def SKP4s : List Symbol := [skpSym, skpSym, skpSym, skpSym]
def idleSym : Symbol := ⟨false, lsbBits 0 8⟩
/-- logical idle: four D0.0 -/
def IDLE4s : List Symbol := [idleSym, idleSym, idleSym, idleSym]

/-- COM in symbol 0 -/
def headIsCom : List Symbol → Bool
  | s :: _ => isCom s
  | [] => false

/-- the word loaded into the inserter's output register in this cycle (on the PHY pins in the next) -/
def txWord (s : State) (i : In) : List Symbol :=
  if sendingSkip s i then SKP4s else scrWord i.enable i.syms (keyBytes s.reg)

/-- per cycle: `enable_scrambling` and the word put on the wire -/
def txWords : State → List In → List (Bool × List Symbol)
  | _, [] => []
  | s, i :: is => (i.enable, txWord s i) :: txWords (step s i).1 is

/-- per cycle: the link layer's word, or `none` where a SKP word was transmitted in its place -/
def linkView : State → List In → List (Option (List Symbol))
  | _, [] => []
  | s, i :: is => (if sendingSkip s i then none else some i.syms) :: linkView (step s i).1 is

/-- the four reference key bytes of a word -/
def refKeys (r : Reg) : List (List Bool) :=
  [keyByte r, keyByte (skip 1 r), keyByte (skip 2 r), keyByte (skip 3 r)]

/-- The reference receiver at the far end of the link (`none` = a SKP word, dropped). -/
def farEnd (r : Reg) : List (Bool × List Symbol) → List (Option (List Symbol))
  | [] => []
  | (en, w) :: rest =>
    if w = SKP4s then none :: farEnd r rest
    else some (scrWord en w (refKeys r))
      :: farEnd (if headIsCom w then initReg 0xFFFF else skip 4 r) rest

/-- environment (C33, `link_layer_idle_mux_guarantees_env`): `can_send_skp` only together with logical idle -/
def Env (ins : List In) : Prop := ∀ i ∈ ins, i.canSkp = true → i.syms = IDLE4s

/-! ## The wiring, one cycle -/

theorem SKP4s_toSs : SKP4s.map toSs = CtcInserter.SKP4 := by decide

/-- `scrambler.hold = tx_ctc.sending_skip` of the same cycle -/
theorem hold_is_sending_skip (s : State) (i : In) :
    (scrIn s i).hold = CtcInserter.sending s.ctc (ctcIn s i) := rfl

/-- the inserter's output register is loaded with `txWord` -/
theorem step_ctc_src (s : State) (i : In) :
    (step s i).1.ctc.src.syms = (txWord s i).map toSs := by
  simp only [step, CtcInserter.step, CtcInserter.next, txWord]
  have h : CtcInserter.sending s.ctc (ctcIn s i) = sendingSkip s i := rfl
  rw [h]
  cases sendingSkip s i
  · simp [ctcIn, Scrambler.step, scrIn]
  · simp [SKP4s_toSs]

/-- **The PHY pins in the next cycle carry the word loaded in this one** (outside electrical idle). -/
theorem pins_next_cycle (s : State) (i j : In) (hj : j.eidle = false) :
    (step (step s i).1 j).2.tx = (txWord s i).map toSs := by
  rw [← step_ctc_src]
  simp [step, CtcInserter.step, CtcInserter.outOf, hj]

/-- `sink.ready` is the inserter's registered ready -/
theorem step_sinkReady (s : State) (i : In) : (step s i).2.sinkReady = s.ctc.sinkReady := rfl

theorem step_ready_next (s : State) (i : In) :
    (step s i).1.ctc.sinkReady = if sendingSkip s i then s.ctc.sinkReady else !i.eidle := by
  simp only [step, CtcInserter.step, CtcInserter.next]
  have h : CtcInserter.sending s.ctc (ctcIn s i) = sendingSkip s i := rfl
  rw [h]; rfl

/-- a SKP word is sent only where the link layer allows it -/
theorem sending_needs_can_send_skp (s : State) (i : In) (h : sendingSkip s i = true) : i.canSkp = true := by
  simp only [sendingSkip, CtcInserter.sending, Bool.and_eq_true] at h
  exact h.1

/-- **Held over the SKP word**: while a SKP word replaces a logical-idle word the register stays. -/
theorem reg_held_over_skp (s : State) (i : In) (h : sendingSkip s i = true) (hidle : i.syms = IDLE4s) :
    (step s i).1.reg = s.reg := by
  have hc : isCom idleSym = false := by decide
  simp [step, Scrambler.step, lfsrStep, lfsrClear, lfsrAdvance, commaPresent, scrIn, h, hidle, IDLE4s, hc]

/-- **Moved over every other transferred word**: restart after COM in symbol 0, else one word on. -/
theorem reg_moves_with_word (s : State) (i : In) (h : sendingSkip s i = false) (hrdy : s.ctc.sinkReady = true) :
    (step s i).1.reg = if headIsCom i.syms then initReg 0xFFFF else lfsrNext s.reg := by
  have hcp : commaPresent (scrIn s i) = headIsCom i.syms := by
    simp only [commaPresent, scrIn, Bool.true_and]
    cases i.syms <;> rfl
  simp only [step, Scrambler.step, lfsrStep, lfsrClear, lfsrAdvance, hcp]
  simp [scrIn, h, hrdy, scrInit]

/-! ## What the far end sees -/

theorem scrWord_allK (enable : Bool) (ss : List Symbol) (ks : List (List Bool))
    (h : ∀ x ∈ ss, x.k = true) : scrWord enable ss ks = ss := by
  induction ss generalizing ks with
  | nil => cases ks <;> rfl
  | cons x xs ih =>
    cases ks with
    | nil => rfl
    | cons k ks =>
      simp only [scrWord]
      rw [scrSymbol_ctrl enable x k (h x (by simp)), ih ks (fun y hy => h y (by simp [hy]))]

/-- a scrambled word is a SKP word only if the link layer's word was one (control symbols pass) -/
theorem scrWord_eq_SKP4s (enable : Bool) (ss : List Symbol) (ks : List (List Bool))
    (h : scrWord enable ss ks = SKP4s) : ss = SKP4s := by
  have hk := scrWord_ctrl enable ss ks
  rw [h] at hk
  have hall : ∀ x ∈ ss, x.k = true := by
    intro x hx
    have : x.k ∈ ss.map (·.k) := List.mem_map_of_mem hx
    rw [← hk] at this
    simpa [SKP4s, skpSym] using this
  rw [scrWord_allK enable ss ks hall] at h
  exact h

theorem headIsCom_scrWord (enable : Bool) (ss : List Symbol) (ks : List (List Bool)) :
    headIsCom (scrWord enable ss ks) = headIsCom ss := by
  cases ss with
  | nil => cases ks <;> rfl
  | cons x xs =>
    cases ks with
    | nil => rfl
    | cons k ks => simp [scrWord, headIsCom, isCom_scrSymbol]

theorem keyBytes_eq_refKeys (r : Reg) (hr : r.length = 16) : keyBytes r = refKeys r :=
  keyBytes_eq_keystream r hr

/-- **C31 on the wire (`phy_tx_descrambles`).**  For every history of link-layer words, `can_send_skp`
and `enable_scrambling` values — outside electrical idle, the link layer asking for SKPs only over
logical idle (C33's environment) and not sending SKP words of its own — the reference receiver,
started from the transmitter's register value, whose keystream does **not** advance on SKP words,
recovers from the transmitted words exactly the link layer's words, with `none` exactly in the cycles
in which the inserter replaced a (logical idle) word by a SKP word. -/
theorem phy_tx_descrambles (s : State) (ins : List In) (hr : s.reg.length = 16)
    (hrdy : s.ctc.sinkReady = true) (hidle : ∀ i ∈ ins, i.eidle = false) (henv : Env ins)
    (hnoskp : ∀ i ∈ ins, i.syms ≠ SKP4s) :
    farEnd s.reg (txWords s ins) = linkView s ins := by
  induction ins generalizing s with
  | nil => rfl
  | cons i is ih =>
    have hidle' : ∀ j ∈ is, j.eidle = false := fun j hj => hidle j (by simp [hj])
    have henv' : Env is := fun j hj => henv j (by simp [hj])
    have hnoskp' : ∀ j ∈ is, j.syms ≠ SKP4s := fun j hj => hnoskp j (by simp [hj])
    have hei : i.eidle = false := hidle i (by simp)
    simp only [txWords, linkView, farEnd]
    cases hs : sendingSkip s i
    · -- the link layer's word goes out scrambled
      have hne : txWord s i ≠ SKP4s := by
        simp only [txWord, hs]
        intro h
        exact hnoskp i (by simp) (scrWord_eq_SKP4s _ _ _ h)
      have hrn : (step s i).1.ctc.sinkReady = true := by rw [step_ready_next, hs, hei]; rfl
      have hreg := reg_moves_with_word s i hs hrdy
      have hlen : (step s i).1.reg.length = 16 := by
        rw [hreg]; split
        · exact length_initReg _
        · exact length_lfsrNext _
      rw [if_neg hne]
      have hw : txWord s i = scrWord i.enable i.syms (keyBytes s.reg) := by simp [txWord, hs]
      have hcom : headIsCom (txWord s i) = headIsCom i.syms := by rw [hw, headIsCom_scrWord]
      have hnext : (if headIsCom (txWord s i) then initReg 0xFFFF else skip 4 s.reg) = (step s i).1.reg := by
        rw [hreg, hcom, lfsrNext_eq_skip4 s.reg hr]
      rw [hnext, ih (step s i).1 hlen hrn hidle' henv' hnoskp']
      rw [hw, ← keyBytes_eq_refKeys s.reg hr, scrWord_involutive]
      simp
    · -- a SKP word goes out in place of logical idle: both registers stay
      have hcan := sending_needs_can_send_skp s i hs
      have hsy : i.syms = IDLE4s := henv i (by simp) hcan
      have hw : txWord s i = SKP4s := by simp [txWord, hs]
      have hreg := reg_held_over_skp s i hs hsy
      have hrn : (step s i).1.ctc.sinkReady = true := by rw [step_ready_next, hs]; exact hrdy
      have hlen : (step s i).1.reg.length = 16 := by rw [hreg]; exact hr
      rw [if_pos hw]
      have := ih (step s i).1 hlen hrn hidle' henv' hnoskp'
      rw [hreg] at this
      rw [this]
      simp

/-- the SKP words stand only where the link layer offered logical idle with `can_send_skp` -/
theorem skp_only_over_idle (s : State) (i : In) (henv : Env [i]) (h : sendingSkip s i = true) :
    i.canSkp = true ∧ i.syms = IDLE4s :=
  ⟨sending_needs_can_send_skp s i h, henv i (by simp) (sending_needs_can_send_skp s i h)⟩

/-- from reset: register FFFFh; `sink.ready` is low in the very first cycle only (reset value of the
inserter's registered ready), so the theorem applies from the second cycle on -/
theorem ready_after_first_cycle (i : In) (h : i.eidle = false) :
    (step init i).1.ctc.sinkReady = true ∧ (step init i).1.reg.length = 16 := by
  constructor
  · rw [step_ready_next]; simp [sendingSkip, CtcInserter.sending, init, CtcInserter.init, h]
  · exact length_step _ _ (length_initReg _) _

/-! ## Non-vacuity -/

/-- A state with two SKP ordered sets owed (reached after 177 transferred words: C33's `example`), then logical
idle with `can_send_skp`, idle, a data word: the hypotheses of `phy_tx_descrambles` hold; the first idle word is
replaced by a SKP word, the register is held over it, the idle word after it is scrambled with the key bytes
the replaced word would have had, and the far end recovers `none, idle, data`. -/
example :
    let dw : In := ⟨[⟨false, lsbBits 0x11 8⟩, ⟨false, lsbBits 0x22 8⟩, ⟨false, lsbBits 0x33 8⟩, ⟨false, lsbBits 0x44 8⟩], false, true, false⟩
    let iw : In := ⟨IDLE4s, true, true, false⟩
    let s : State := ⟨lfsrNext (initReg 0xFFFF), ⟨2, 100, ⟨true, [], false, false⟩, true⟩⟩
    s.reg.length = 16 ∧ s.ctc.sinkReady = true
      ∧ sendingSkip s iw = true ∧ txWord s iw = SKP4s ∧ (step s iw).1.reg = s.reg
      ∧ sendingSkip (step s iw).1 iw = false
      ∧ txWord (step s iw).1 iw = scrWord true IDLE4s (keyBytes s.reg)
      ∧ farEnd s.reg (txWords s [iw, iw, dw]) = [none, some IDLE4s, some dw.syms] := by
  decide +kernel

end LunaVerif.PhyTx
