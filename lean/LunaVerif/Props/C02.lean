import LunaVerif.Model.Usb2.DataReceiver
import LunaVerif.Core.UtmiTrack
/-!
# C02 — USB2 data packets are accepted iff their CRC16 is valid, payload intact

"For any received packet, the receiver streams exactly the bytes between the PID and the two
trailing CRC bytes, in order, and then signals completion iff the PID is a valid DATA0/1/2/MDATA
PID and the CRC16 over those bytes equals the trailing CRC.  A data packet of at least two bytes
after its PID whose CRC does not match raises a CRC-mismatch strobe instead, and no packet ever
raises both.  The 'ready for response' indication follows only a completed packet."

Quantifier: all UTMI receive histories — any byte values and lengths (0- and 1-byte payloads,
packets shorter than a CRC), arbitrary `rx_valid` gaps, arbitrary sequences of packets.

Presentation.  A legal history is `renderAll ps` for a list of `RxPacket`s (`Core/Utmi.lean`):
every packet carries its bytes, the number of wait cycles before/after each byte, the number of
idle cycles after it, and the arbitrary `rx_data` of all byte-less cycles.  What the receiver
does is read off as a list of `Event`s in cycle order (`observed`): every `stream.next` with its
payload, every `packet_complete` with `packet_id`, every `crc_mismatch`, every
`ready_for_response`.  The specification `rxOutcome bytes` says what one packet must produce.

Environment assumptions (explicit hypotheses of the theorems):
* `p.wf`   — `rx_active` rises at least one cycle before the first byte, ≥ 1 idle cycle after a packet;
* `gapOk`  — after a packet that *completes* (valid CRC) the line is idle for ≥ delay + 2 cycles:
             the receiver waits in INTERPACKET_DELAY for the timer and does not look at the bus;
             every other packet may be followed by a single idle cycle;
* `c.delay ≤ c.counterMax + 1` — the timer's counter can reach the delay (all table entries do).
-/
namespace LunaVerif.DataReceiver
open LunaVerif.Utmi LunaVerif.DataCrc LunaVerif.Crc

/-- What an observer of the receiver's ports sees. -/
inductive Event
  | byte (b : Nat)        -- `stream.next` with `stream.payload = b`
  | complete (pid : Nat)  -- `packet_complete` with `packet_id = pid`
  | mismatch              -- `crc_mismatch`
  | ready                 -- `ready_for_response`
deriving Repr, DecidableEq

/-- **Specification**: the events one received packet must cause, from its bytes alone. -/
def rxOutcome : List Nat → List Event
  | [] => []
  | pid :: rest =>
    if isDataPid pid then
      match rest.reverse with
      | hi :: lo :: rp =>
        rp.reverse.map .byte ++
          (if usb2Crc16 rp.reverse = lo + 256 * hi then [.complete (pid % 16), .ready] else [.mismatch])
      | _ => []
    else []

/-- The registered strobes held in a state (they are on the ports in the next cycle). -/
def pending (s : State) : List Event :=
  (if s.packetComplete then [.complete s.packetId] else []) ++ (if s.crcMismatch then [.mismatch] else [])

/-- Events visible on the ports in one cycle. -/
def outEvents (o : Out) : List Event :=
  (if o.packetComplete then [.complete o.packetId] else []) ++ (if o.crcMismatch then [.mismatch] else []) ++
  (if o.streamNext then [.byte o.payload] else []) ++ (if o.ready then [.ready] else [])

/-- Everything observed on the ports during a history, in cycle order. -/
def observed (c : Config) (s : State) (h : List RxCycle) : List Event := (run c s h).flatMap outEvents

/-- Events *caused* by one cycle: its combinational strobes, then the strobes its clock edge latches. -/
def stepEvents (c : Config) (s : State) (i : RxCycle) : List Event :=
  (if (step c s i false).2.streamNext then [.byte (step c s i false).2.payload] else []) ++
  (if (step c s i false).2.ready then [.ready] else []) ++ pending (step c s i false).1

def trace (c : Config) : State → List RxCycle → List Event
  | _, [] => []
  | s, i :: is => stepEvents c s i ++ trace c (step c s i false).1 is

/-- The idle-time requirement after a packet. -/
def gapOk (c : Config) (p : RxPacket) : Prop :=
  Event.ready ∈ rxOutcome p.bytes → c.delay + 2 ≤ p.gap.length

/-! ## Bookkeeping -/

theorem trace_append (c : Config) (s : State) (h1 h2 : List RxCycle) :
    trace c s (h1 ++ h2) = trace c s h1 ++ trace c (final c s h1) h2 := by
  induction h1 generalizing s with
  | nil => rfl
  | cons i is ih => simp [trace, final, ih]

theorem final_append (c : Config) (s : State) (h1 h2 : List RxCycle) :
    final c s (h1 ++ h2) = final c (final c s h1) h2 := by
  induction h1 generalizing s with
  | nil => rfl
  | cons i is ih => simp [final, ih]

/-- Port observations and caused events differ only by the one-cycle latency of the two
registered strobes: what has been seen plus what is latched = what was latched before plus what
the cycles caused. -/
theorem observed_trace (c : Config) (s : State) (h : List RxCycle) :
    observed c s h ++ pending (final c s h) = pending s ++ trace c s h := by
  induction h generalizing s with
  | nil => simp [observed, run, final, trace]
  | cons i is ih =>
    have := ih (step c s i false).1
    simp only [observed] at this
    simp only [observed, run, final, trace, List.flatMap_cons, List.append_assoc, this]
    simp [outEvents, stepEvents, step, pending]

/-! ## Phases of one packet -/

/-- Cycles of one kind that neither change a property of the state nor cause an event. -/
theorem stutter (c : Config) (P : State → Prop) (cyc : Nat → RxCycle)
    (hstep : ∀ s d, P s → P (step c s (cyc d) false).1 ∧ stepEvents c s (cyc d) = [])
    (ws : List Nat) (s : State) (hs : P s) :
    trace c s (ws.map cyc) = [] ∧ P (final c s (ws.map cyc)) := by
  induction ws generalizing s with
  | nil => exact ⟨rfl, hs⟩
  | cons d ds ih =>
    obtain ⟨h1, h2⟩ := hstep s d hs
    obtain ⟨h3, h4⟩ := ih _ h1
    simp [trace, final, h2, h3, h4]

/-- idle line, FSM in IDLE: nothing happens. -/
theorem idle_idles (c : Config) (gs : List Nat) (s : State) (hs : s.fsm = .idle) :
    trace c s (gs.map idleC) = [] ∧ (final c s (gs.map idleC)).fsm = .idle :=
  stutter c (fun s => s.fsm = .idle) idleC
    (by intro s d h; simp [step, fsmStep, stepEvents, pending, idleC, h]) gs s hs

/-- READ_PID waits for the PID byte. -/
theorem readPid_waits (c : Config) (ws : List Nat) (s : State) (hs : s.fsm = .readPid) :
    trace c s (ws.map waitC) = [] ∧ (final c s (ws.map waitC)).fsm = .readPid :=
  stutter c (fun s => s.fsm = .readPid) waitC
    (by intro s d h; simp [step, fsmStep, stepEvents, pending, waitC, h]) ws s hs

/-- The lead-in: from IDLE, `rx_active` without bytes leaves the FSM in READ_PID. -/
theorem lead_in (c : Config) (d : Nat) (ds : List Nat) (s : State) (hs : s.fsm = .idle) :
    trace c s ((d :: ds).map waitC) = [] ∧ (final c s ((d :: ds).map waitC)).fsm = .readPid := by
  have h1 : (step c s (waitC d) false).1.fsm = .readPid := by simp [step, fsmStep, waitC, hs]
  have h2 : stepEvents c s (waitC d) = [] := by simp [step, fsmStep, stepEvents, pending, waitC, hs]
  obtain ⟨h3, h4⟩ := readPid_waits c ds _ h1
  simp [trace, final, h2, h3, h4]

/-- IRRELEVANT swallows everything while `rx_active` is high. -/
theorem irrelevant_slots (c : Config) (sl : List (Nat × List Nat)) (s : State) (hs : s.fsm = .irrelevant) :
    trace c s (renderSlots sl) = [] ∧ (final c s (renderSlots sl)).fsm = .irrelevant := by
  induction sl generalizing s with
  | nil => exact ⟨rfl, hs⟩
  | cons x rest ih =>
    obtain ⟨b, ws⟩ := x
    have h1 : (step c s (byteC b) false).1.fsm = .irrelevant := by simp [step, fsmStep, byteC, hs]
    have h2 : stepEvents c s (byteC b) = [] := by simp [step, fsmStep, stepEvents, pending, byteC, hs]
    obtain ⟨h3, h4⟩ := stutter c (fun s => s.fsm = .irrelevant) waitC
      (by intro s d h; simp [step, fsmStep, stepEvents, pending, waitC, h]) ws _ h1
    obtain ⟨h5, h6⟩ := ih _ h4
    simp [renderSlots, trace, final, trace_append, final_append, h2, h3, h5, h6]

/-- End of a packet that streams nothing and raises nothing: READ_PID / RECEIVE_FIRST /
RECEIVE_SECOND / IRRELEVANT all return to IDLE silently when `rx_active` falls. -/
theorem silent_end (c : Config) (g : Nat) (gs : List Nat) (s : State)
    (hs : s.fsm = .readPid ∨ s.fsm = .first ∨ s.fsm = .second ∨ s.fsm = .irrelevant) :
    trace c s ((g :: gs).map idleC) = [] ∧ (final c s ((g :: gs).map idleC)).fsm = .idle := by
  have h1 : (step c s (idleC g) false).1.fsm = .idle := by
    rcases hs with h | h | h | h <;> simp [step, fsmStep, idleC, h]
  have h2 : stepEvents c s (idleC g) = [] := by
    rcases hs with h | h | h | h <;> simp [step, fsmStep, stepEvents, pending, idleC, h]
  obtain ⟨h3, h4⟩ := idle_idles c gs _ h1
  simp [trace, final, h2, h3, h4]

/-! ### A packet with a data PID -/

/-- RECEIVE_FIRST_BYTE after the PID byte `pid`: CRC unit freshly cleared. -/
structure FirstInv (s : State) (pid : Nat) : Prop where
  hfsm : s.fsm = .first
  hpid : s.activePid = pid % 16
  hcrc : s.crc = usb2Crc16Reg []

/-- RECEIVE_SECOND_BYTE after `pid, b1`. -/
structure SecondInv (s : State) (pid b1 : Nat) : Prop where
  hfsm : s.fsm = .second
  hpid : s.activePid = pid % 16
  hhi  : s.pipeHi = b1
  hlbc : s.lastByteCrc = usb2Crc16 []
  hcrc : s.crc = usb2Crc16Reg [b1]

/-- RECEIVE_AND_EMIT after `pid, pre…, lo, hi`: the pipeline holds the last two bytes, the two CRC
snapshots are the CRC16 of everything before the last two / before the last byte. -/
structure EmitInv (s : State) (pid : Nat) (pre : List Nat) (lo hi : Nat) : Prop where
  hfsm : s.fsm = .emit
  hpid : s.activePid = pid % 16
  hlo  : s.pipeLo = lo
  hhi  : s.pipeHi = hi
  hlwc : s.lastWordCrc = usb2Crc16 pre
  hlbc : s.lastByteCrc = usb2Crc16 (pre ++ [lo])
  hcrc : s.crc = usb2Crc16Reg (pre ++ [lo, hi])

theorem pid_byte_data (c : Config) (s : State) (pid : Nat) (hs : s.fsm = .readPid) (hp : isDataPid pid = true) :
    stepEvents c s (byteC pid) = [] ∧ FirstInv (step c s (byteC pid) false).1 pid := by
  refine ⟨by simp [step, fsmStep, stepEvents, pending, byteC, hs, hp], ?_, ?_, ?_⟩ <;>
    simp [step, fsmStep, byteC, hs, hp, DataCrc.next, reg_nil]

theorem pid_byte_other (c : Config) (s : State) (pid : Nat) (hs : s.fsm = .readPid) (hp : isDataPid pid = false) :
    stepEvents c s (byteC pid) = [] ∧ (step c s (byteC pid) false).1.fsm = .irrelevant := by
  constructor <;> simp [step, fsmStep, stepEvents, pending, byteC, hs, hp]

theorem first_waits (c : Config) (pid : Nat) (ws : List Nat) (s : State) (hs : FirstInv s pid) :
    trace c s (ws.map waitC) = [] ∧ FirstInv (final c s (ws.map waitC)) pid :=
  stutter c (fun s => FirstInv s pid) waitC
    (by intro s d h
        refine ⟨⟨?_, ?_, ?_⟩, ?_⟩ <;>
          simp [step, fsmStep, stepEvents, pending, waitC, h.hfsm, h.hpid, DataCrc.next, h.hcrc]) ws s hs

theorem first_byte (c : Config) (s : State) (pid b1 : Nat) (hs : FirstInv s pid) :
    stepEvents c s (byteC b1) = [] ∧ SecondInv (step c s (byteC b1) false).1 pid b1 := by
  refine ⟨by simp [step, fsmStep, stepEvents, pending, byteC, hs.hfsm], ?_, ?_, ?_, ?_, ?_⟩ <;>
    simp [step, fsmStep, byteC, hs.hfsm, hs.hpid, hs.hcrc, DataCrc.next, output_reg]
  rw [← reg_snoc]; rfl

theorem second_waits (c : Config) (pid b1 : Nat) (ws : List Nat) (s : State) (hs : SecondInv s pid b1) :
    trace c s (ws.map waitC) = [] ∧ SecondInv (final c s (ws.map waitC)) pid b1 :=
  stutter c (fun s => SecondInv s pid b1) waitC
    (by intro s d h
        refine ⟨⟨?_, ?_, ?_, ?_, ?_⟩, ?_⟩ <;>
          simp [step, fsmStep, stepEvents, pending, waitC, h.hfsm, h.hpid, h.hhi, h.hlbc, DataCrc.next, h.hcrc]) ws s hs

theorem second_byte (c : Config) (s : State) (pid b1 b2 : Nat) (hs : SecondInv s pid b1) :
    stepEvents c s (byteC b2) = [] ∧ EmitInv (step c s (byteC b2) false).1 pid [] b1 b2 := by
  refine ⟨by simp [step, fsmStep, stepEvents, pending, byteC, hs.hfsm], ?_, ?_, ?_, ?_, ?_, ?_, ?_⟩ <;>
    simp [step, fsmStep, byteC, hs.hfsm, hs.hpid, hs.hhi, hs.hlbc, hs.hcrc, DataCrc.next, output_reg]
  rw [← reg_snoc]; rfl

theorem emit_waits (c : Config) (pid : Nat) (pre : List Nat) (lo hi : Nat) (ws : List Nat) (s : State)
    (hs : EmitInv s pid pre lo hi) :
    trace c s (ws.map waitC) = [] ∧ EmitInv (final c s (ws.map waitC)) pid pre lo hi :=
  stutter c (fun s => EmitInv s pid pre lo hi) waitC
    (by intro s d h
        refine ⟨⟨?_, ?_, ?_, ?_, ?_, ?_, ?_⟩, ?_⟩ <;>
          simp [step, fsmStep, stepEvents, pending, waitC, h.hfsm, h.hpid, h.hlo, h.hhi, h.hlwc, h.hlbc,
                DataCrc.next, h.hcrc]) ws s hs

theorem emit_byte (c : Config) (s : State) (pid : Nat) (pre : List Nat) (lo hi b : Nat)
    (hs : EmitInv s pid pre lo hi) :
    stepEvents c s (byteC b) = [.byte lo] ∧ EmitInv (step c s (byteC b) false).1 pid (pre ++ [lo]) hi b := by
  refine ⟨by simp [step, fsmStep, stepEvents, pending, byteC, hs.hfsm, hs.hlo], ?_, ?_, ?_, ?_, ?_, ?_, ?_⟩ <;>
    simp [step, fsmStep, byteC, hs.hfsm, hs.hpid, hs.hlo, hs.hhi, hs.hlbc, hs.hcrc, DataCrc.next, output_reg]
  rw [← reg_snoc]; simp

/-- INTERPACKET_DELAY with the timer at `k ≤ delay`: `ready_for_response` exactly once, when the
counter reaches the delay, then IDLE — provided the line stays idle long enough. -/
theorem delay_phase (c : Config) (hc : c.delay ≤ c.counterMax + 1) (gs : List Nat) (s : State) (k : Nat)
    (hs : s.fsm = .delay) (hk : s.counter = k) (hkd : k ≤ c.delay) (hg : c.delay - k + 1 ≤ gs.length) :
    trace c s (gs.map idleC) = [.ready] ∧ (final c s (gs.map idleC)).fsm = .idle := by
  induction gs generalizing s k with
  | nil => simp at hg
  | cons g gs ih =>
    subst hk
    by_cases hkeq : s.counter = c.delay
    · have h1 : (step c s (idleC g) false).1.fsm = .idle := by simp [step, fsmStep, idleC, hs, hkeq]
      have h2 : stepEvents c s (idleC g) = [.ready] := by
        simp [step, fsmStep, stepEvents, pending, idleC, hs, hkeq]
      obtain ⟨h3, h4⟩ := idle_idles c gs _ h1
      simp [trace, final, h2, h3, h4]
    · have hne : ¬ s.counter = c.delay := hkeq
      have h1 : (step c s (idleC g) false).1.fsm = .delay := by simp [step, fsmStep, idleC, hs, hne]
      have h2 : stepEvents c s (idleC g) = [] := by
        simp [step, fsmStep, stepEvents, pending, idleC, hs, hne]
      have h5 : (step c s (idleC g) false).1.counter = s.counter + 1 := by
        have : s.counter < c.counterMax + 1 := by omega
        simp [step, fsmStep, idleC, hs, hne, counterNext, this]
      have hg' : c.delay - (s.counter + 1) + 1 ≤ gs.length := by simp at hg; omega
      obtain ⟨h3, h4⟩ := ih _ (s.counter + 1) h1 h5 (by omega) hg'
      simp [trace, final, h2, h3, h4]

/-- What the end of a packet in RECEIVE_AND_EMIT must produce. -/
def endEvents (pid : Nat) (pre : List Nat) (lo hi : Nat) : List Event :=
  if usb2Crc16 pre = lo + 256 * hi then [.complete (pid % 16), .ready] else [.mismatch]

/-- `rx_active` falls in RECEIVE_AND_EMIT: CRC verdict, then (after a match) the inter-packet delay. -/
theorem emit_end (c : Config) (hc : c.delay ≤ c.counterMax + 1) (s : State) (pid : Nat) (pre : List Nat)
    (lo hi g : Nat) (gs : List Nat) (hs : EmitInv s pid pre lo hi)
    (hg : Event.ready ∈ endEvents pid pre lo hi → c.delay + 1 ≤ gs.length) :
    trace c s ((g :: gs).map idleC) = endEvents pid pre lo hi ∧
      (final c s ((g :: gs).map idleC)).fsm = .idle := by
  by_cases hm : usb2Crc16 pre = lo + 256 * hi
  · have hm' : s.lastWordCrc = s.pipeLo + 256 * s.pipeHi := by rw [hs.hlwc, hs.hlo, hs.hhi]; exact hm
    have h1 : (step c s (idleC g) false).1.fsm = .delay := by simp [step, fsmStep, idleC, hs.hfsm, hm']
    have h2 : stepEvents c s (idleC g) = [.complete (pid % 16)] := by
      simp [step, fsmStep, stepEvents, pending, idleC, hs.hfsm, hm', hs.hpid]
    have h5 : (step c s (idleC g) false).1.counter = 0 := by
      simp [step, fsmStep, idleC, hs.hfsm, hm', counterNext]
    have hg' : c.delay + 1 ≤ gs.length := hg (by simp [endEvents, hm])
    obtain ⟨h3, h4⟩ := delay_phase c hc gs _ 0 h1 h5 (by omega) (by omega)
    simp [trace, final, h2, h3, h4, endEvents, hm]
  · have hm' : ¬ s.lastWordCrc = s.pipeLo + 256 * s.pipeHi := by rw [hs.hlwc, hs.hlo, hs.hhi]; exact hm
    have h1 : (step c s (idleC g) false).1.fsm = .idle := by simp [step, fsmStep, idleC, hs.hfsm, hm']
    have h2 : stepEvents c s (idleC g) = [.mismatch] := by
      simp [step, fsmStep, stepEvents, pending, idleC, hs.hfsm, hm']
    obtain ⟨h3, h4⟩ := idle_idles c gs _ h1
    simp [trace, final, h2, h3, h4, endEvents, hm]

/-- Events of the rest of a packet once two bytes `lo, hi` are in the pipeline after `pre`. -/
def emitSpec (pid : Nat) : List Nat → Nat → Nat → List Nat → List Event
  | pre, lo, hi, [] => endEvents pid pre lo hi
  | pre, lo, hi, b :: bs => .byte lo :: emitSpec pid (pre ++ [lo]) hi b bs

theorem emit_phase (c : Config) (hc : c.delay ≤ c.counterMax + 1) (pid : Nat) (sl : List (Nat × List Nat))
    (g : Nat) (gs : List Nat) (s : State) (pre : List Nat) (lo hi : Nat) (hs : EmitInv s pid pre lo hi)
    (hg : Event.ready ∈ emitSpec pid pre lo hi (sl.map (·.1)) → c.delay + 1 ≤ gs.length) :
    trace c s (renderSlots sl ++ (g :: gs).map idleC) = emitSpec pid pre lo hi (sl.map (·.1)) ∧
      (final c s (renderSlots sl ++ (g :: gs).map idleC)).fsm = .idle := by
  induction sl generalizing s pre lo hi with
  | nil => exact emit_end c hc s pid pre lo hi g gs hs hg
  | cons x rest ih =>
    obtain ⟨b, ws⟩ := x
    obtain ⟨h1, h2⟩ := emit_byte c s pid pre lo hi b hs
    obtain ⟨h3, h4⟩ := emit_waits c pid (pre ++ [lo]) hi b ws _ h2
    have hg' : Event.ready ∈ emitSpec pid (pre ++ [lo]) hi b (rest.map (·.1)) → c.delay + 1 ≤ gs.length := by
      intro h; apply hg; simp [emitSpec, h]
    obtain ⟨h5, h6⟩ := ih _ (pre ++ [lo]) hi b h4 hg'
    have e : renderSlots ((b, ws) :: rest) ++ (g :: gs).map idleC
        = byteC b :: (ws.map waitC ++ (renderSlots rest ++ (g :: gs).map idleC)) := by
      simp [renderSlots]
    rw [e, trace, final, trace_append, final_append, h1, h3, h5, h6]
    simp [emitSpec]

/-- The specification, unfolded along the byte stream the way the pipeline sees it. -/
theorem rxOutcome_emitSpec (pid : Nat) (hp : isDataPid pid = true) (pre : List Nat) (lo hi : Nat) (bs : List Nat) :
    rxOutcome (pid :: (pre ++ lo :: hi :: bs)) = pre.map .byte ++ emitSpec pid pre lo hi bs := by
  induction bs generalizing pre lo hi with
  | nil => simp [rxOutcome, hp, emitSpec, endEvents]
  | cons b bs ih =>
    have := ih (pre ++ [lo]) hi b
    simp only [List.append_assoc, List.cons_append, List.nil_append] at this
    rw [this]; simp [emitSpec]

theorem irrelevant_waits (c : Config) (ws : List Nat) (s : State) (hs : s.fsm = .irrelevant) :
    trace c s (ws.map waitC) = [] ∧ (final c s (ws.map waitC)).fsm = .irrelevant :=
  stutter c (fun s => s.fsm = .irrelevant) waitC
    (by intro s d h; simp [step, fsmStep, stepEvents, pending, waitC, h]) ws s hs

/-! ## One packet, from any packet boundary -/

/-- From READ_PID (the lead-in is over): the bytes of the packet, then the idle gap. -/
theorem body_exact (c : Config) (hc : c.delay ≤ c.counterMax + 1) (sl : List (Nat × List Nat)) (g : Nat)
    (gs : List Nat) (s : State) (hs : s.fsm = .readPid)
    (hg : Event.ready ∈ rxOutcome (sl.map (·.1)) → c.delay + 1 ≤ gs.length) :
    trace c s (renderSlots sl ++ (g :: gs).map idleC) = rxOutcome (sl.map (·.1)) ∧
      (final c s (renderSlots sl ++ (g :: gs).map idleC)).fsm = .idle := by
  match sl with
  | [] =>
    obtain ⟨h1, h2⟩ := silent_end c g gs s (Or.inl hs)
    simpa [renderSlots, rxOutcome] using ⟨h1, h2⟩
  | (pid, w0) :: rest =>
    have e0 : renderSlots ((pid, w0) :: rest) ++ (g :: gs).map idleC
        = byteC pid :: (w0.map waitC ++ (renderSlots rest ++ (g :: gs).map idleC)) := by simp [renderSlots]
    rw [e0, trace, final, trace_append, final_append]
    cases hp : isDataPid pid with
    | false =>
      obtain ⟨h1, h2⟩ := pid_byte_other c s pid hs hp
      obtain ⟨h3, h4⟩ := irrelevant_waits c w0 _ h2
      rw [trace_append, final_append]
      obtain ⟨h5, h6⟩ := irrelevant_slots c rest _ h4
      obtain ⟨h7, h8⟩ := silent_end c g gs _ (Or.inr (Or.inr (Or.inr h6)))
      rw [h1, h3, h5, h7, h8]; simp [rxOutcome, hp]
    | true =>
      obtain ⟨h1, h2⟩ := pid_byte_data c s pid hs hp
      obtain ⟨h3, h4⟩ := first_waits c pid w0 _ h2
      rw [h1, h3]
      match rest with
      | [] =>
        obtain ⟨h5, h6⟩ := silent_end c g gs _ (Or.inr (Or.inl h4.hfsm))
        simp only [renderSlots, List.nil_append]
        rw [h5, h6]; simp [rxOutcome, hp]
      | (b1, w1) :: rest2 =>
        have e1 : renderSlots ((b1, w1) :: rest2) ++ (g :: gs).map idleC
            = byteC b1 :: (w1.map waitC ++ (renderSlots rest2 ++ (g :: gs).map idleC)) := by simp [renderSlots]
        rw [e1, trace, final, trace_append, final_append]
        obtain ⟨h5, h6⟩ := first_byte c _ pid b1 h4
        obtain ⟨h7, h8⟩ := second_waits c pid b1 w1 _ h6
        rw [h5, h7]
        match rest2 with
        | [] =>
          obtain ⟨h9, h10⟩ := silent_end c g gs _ (Or.inr (Or.inr (Or.inl h8.hfsm)))
          simp only [renderSlots, List.nil_append]
          rw [h9, h10]; simp [rxOutcome, hp]
        | (b2, w2) :: rest3 =>
          have e2 : renderSlots ((b2, w2) :: rest3) ++ (g :: gs).map idleC
              = byteC b2 :: (w2.map waitC ++ (renderSlots rest3 ++ (g :: gs).map idleC)) := by simp [renderSlots]
          rw [e2, trace, final, trace_append, final_append]
          obtain ⟨h9, h10⟩ := second_byte c _ pid b1 b2 h8
          obtain ⟨h11, h12⟩ := emit_waits c pid [] b1 b2 w2 _ h10
          have hspec := rxOutcome_emitSpec pid hp [] b1 b2 (rest3.map (·.1))
          simp only [List.nil_append, List.map_nil] at hspec
          have hg' : Event.ready ∈ emitSpec pid [] b1 b2 (rest3.map (·.1)) → c.delay + 1 ≤ gs.length := by
            intro h; apply hg; simp only [List.map_cons]; rw [hspec]; exact h
          obtain ⟨h13, h14⟩ := emit_phase c hc pid rest3 g gs _ [] b1 b2 h12 hg'
          rw [h9, h11, h13, h14]
          simp only [List.map_cons]; rw [hspec]; simp

/-- **One packet.**  From a packet boundary (receiver FSM in IDLE, everything else arbitrary: stale
pipeline, stale CRC snapshots, any CRC register, any timer count, strobes of the previous packet
still latched) a legal packet causes exactly the events of the specification, and the receiver is
at a packet boundary again afterwards. -/
theorem packet_exact (c : Config) (hc : c.delay ≤ c.counterMax + 1) (p : RxPacket) (s : State)
    (hs : s.fsm = .idle) (hw : p.wf) (hg : gapOk c p) :
    trace c s (render p) = rxOutcome p.bytes ∧ (final c s (render p)).fsm = .idle := by
  obtain ⟨lead, slots, gap⟩ := p
  obtain ⟨hl, hgap⟩ := hw
  match lead, gap, hl, hgap with
  | d :: ds, g :: gs, _, _ =>
    obtain ⟨h1, h2⟩ := lead_in c d ds s hs
    have hg' : Event.ready ∈ rxOutcome (slots.map (·.1)) → c.delay + 1 ≤ gs.length := by
      intro h; have := hg h; simp at this; omega
    obtain ⟨h3, h4⟩ := body_exact c hc slots g gs _ h2 hg'
    simp only [render, RxPacket.bytes]
    rw [trace_append, final_append, h1, h3, h4]; simp

/-- **C02, main theorem**: for every sequence of legal packets with every timing, the events caused
are exactly the concatenated per-packet specifications — nothing leaks from one packet into the next. -/
theorem trace_exact (c : Config) (hc : c.delay ≤ c.counterMax + 1) (ps : List RxPacket) (s : State)
    (hs : s.fsm = .idle) (hw : ∀ p ∈ ps, p.wf) (hg : ∀ p ∈ ps, gapOk c p) :
    trace c s (renderAll ps) = ps.flatMap (fun p => rxOutcome p.bytes) ∧
      (final c s (renderAll ps)).fsm = .idle := by
  induction ps generalizing s with
  | nil => exact ⟨rfl, hs⟩
  | cons p ps ih =>
    obtain ⟨h1, h2⟩ := packet_exact c hc p s hs (hw p (by simp)) (hg p (by simp))
    obtain ⟨h3, h4⟩ := ih _ h2 (fun q hq => hw q (by simp [hq])) (fun q hq => hg q (by simp [hq]))
    simp only [renderAll, List.flatMap_cons] at h3 h4 ⊢
    rw [trace_append, final_append, h1, h3, h4]; simp

/-- **C02 on the ports**, from reset: everything observed on `stream`, `packet_complete`,
`crc_mismatch`, `ready_for_response` during the history (plus the strobe still latched when the
history stops right after a packet end: it is on the port in the next cycle whatever happens) is
the concatenation of the per-packet specifications, in order. -/
theorem receiver_events_exact (c : Config) (hc : c.delay ≤ c.counterMax + 1) (ps : List RxPacket)
    (hw : ∀ p ∈ ps, p.wf) (hg : ∀ p ∈ ps, gapOk c p) :
    observed c init (renderAll ps) ++ pending (final c init (renderAll ps))
      = ps.flatMap (fun p => rxOutcome p.bytes) := by
  rw [observed_trace, (trace_exact c hc ps init rfl hw hg).1]; simp [pending, init]

/-- The same, with the packets read off the RAW cycle history by the packet tracker of
`Core/UtmiTrack.lean` (`packetsOf`: maximal `rx_active` runs and their `rx_valid` bytes): what the
receiver does is a function of the packets on the wire alone. -/
theorem receiver_events_of_raw_history (c : Config) (hc : c.delay ≤ c.counterMax + 1) (ps : List RxPacket)
    (hw : ∀ p ∈ ps, p.wf) (hg : ∀ p ∈ ps, gapOk c p) :
    observed c init (renderAll ps) ++ pending (final c init (renderAll ps))
      = (packetsOf none (renderAll ps)).flatMap rxOutcome := by
  rw [receiver_events_exact c hc ps hw hg, (packetsOf_renderAll ps hw).1]
  clear hw hg
  induction ps with
  | nil => rfl
  | cons p ps ih => simp [List.flatMap_cons, ih]

/-- No state leaks: at every packet boundary of a legal history the receiver FSM is in IDLE (and
`packet_exact` holds from every such state, whatever the other registers contain). -/
theorem boundary_state_is_idle (c : Config) (hc : c.delay ≤ c.counterMax + 1) (ps : List RxPacket)
    (hw : ∀ p ∈ ps, p.wf) (hg : ∀ p ∈ ps, gapOk c p) :
    (final c init (renderAll ps)).fsm = .idle :=
  (trace_exact c hc ps init rfl hw hg).2

/-! ## The specification, read out (these say what `rxOutcome` means; with `packet_exact` they are
statements about the receiver for a packet anywhere in a legal history) -/

theorem rxOutcome_data (pid : Nat) (payload : List Nat) (lo hi : Nat) (hp : isDataPid pid = true) :
    rxOutcome (pid :: (payload ++ [lo, hi])) = payload.map .byte ++ endEvents pid payload lo hi := by
  simp [rxOutcome, hp, endEvents]

theorem rxOutcome_nondata (pid : Nat) (rest : List Nat) (hp : isDataPid pid = false) :
    rxOutcome (pid :: rest) = [] := by simp [rxOutcome, hp]

theorem rxOutcome_short (pid : Nat) (rest : List Nat) (hl : rest.length < 2) : rxOutcome (pid :: rest) = [] := by
  match rest, hl with
  | [], _ => simp [rxOutcome]
  | [x], _ => simp [rxOutcome]

/-- Every packet is either silent or a data packet `pid, payload…, lo, hi`. -/
theorem rxOutcome_cases (bytes : List Nat) :
    rxOutcome bytes = [] ∨ ∃ pid payload lo hi, bytes = pid :: (payload ++ [lo, hi]) ∧ isDataPid pid = true ∧
      rxOutcome bytes = payload.map .byte ++ endEvents pid payload lo hi := by
  match bytes with
  | [] => left; rfl
  | pid :: rest =>
    cases hp : isDataPid pid with
    | false => left; exact rxOutcome_nondata pid rest hp
    | true =>
      cases hr : rest.reverse with
      | nil => left; simp [rxOutcome, hr]
      | cons hi t =>
        cases t with
        | nil => left; simp [rxOutcome, hr]
        | cons lo rp =>
          right
          have : rest = rp.reverse ++ [lo, hi] := by
            have := congrArg List.reverse hr; simpa using this
          exact ⟨pid, rp.reverse, lo, hi, by rw [this], hp, by rw [this]; exact rxOutcome_data pid _ lo hi hp⟩

/-- The payload bytes among a list of events. -/
def streamed : List Event → List Nat
  | [] => []
  | .byte b :: es => b :: streamed es
  | _ :: es => streamed es

theorem streamed_bytes (l : List Nat) (es : List Event) : streamed (l.map .byte ++ es) = l ++ streamed es := by
  induction l with
  | nil => rfl
  | cons b l ih => simp [streamed, ih]

theorem streamed_end (pid : Nat) (pre : List Nat) (lo hi : Nat) : streamed (endEvents pid pre lo hi) = [] := by
  unfold endEvents; split <;> simp [streamed]

section OnePacket
variable (c : Config) (hc : c.delay ≤ c.counterMax + 1) (p : RxPacket) (s : State) (hs : s.fsm = .idle)
  (hw : p.wf) (hg : gapOk c p)
include hc hs hw hg

/-- the receiver streams exactly the bytes between the PID and the two trailing CRC bytes, in order, once -/
theorem receiver_streams_payload (pid : Nat) (payload : List Nat) (lo hi : Nat)
    (hb : p.bytes = pid :: (payload ++ [lo, hi])) (hp : isDataPid pid = true) :
    streamed (trace c s (render p)) = payload := by
  rw [(packet_exact c hc p s hs hw hg).1, hb, rxOutcome_data _ _ _ _ hp, streamed_bytes, streamed_end]; simp

/-- … and nothing for a non-data PID or fewer than two bytes after the PID. -/
theorem receiver_streams_nothing (h : (∃ pid rest, p.bytes = pid :: rest ∧ (isDataPid pid = false ∨ rest.length < 2))
    ∨ p.bytes = []) : trace c s (render p) = [] := by
  rw [(packet_exact c hc p s hs hw hg).1]
  rcases h with ⟨pid, rest, hb, h | h⟩ | h
  · rw [hb]; exact rxOutcome_nondata pid rest h
  · rw [hb]; exact rxOutcome_short pid rest h
  · rw [h]; rfl

theorem complete_iff_crc_valid :
    (∃ k, Event.complete k ∈ trace c s (render p)) ↔
      ∃ pid payload lo hi, p.bytes = pid :: (payload ++ [lo, hi]) ∧ isDataPid pid = true ∧
        usb2Crc16 payload = lo + 256 * hi := by
  rw [(packet_exact c hc p s hs hw hg).1]
  constructor
  · rintro ⟨k, hk⟩
    rcases rxOutcome_cases p.bytes with h | ⟨pid, payload, lo, hi, hb, hp, h⟩
    · simp [h] at hk
    · refine ⟨pid, payload, lo, hi, hb, hp, ?_⟩
      rw [h] at hk
      by_cases hm : usb2Crc16 payload = lo + 256 * hi
      · exact hm
      · simp [endEvents, hm] at hk
  · rintro ⟨pid, payload, lo, hi, hb, hp, hm⟩
    exact ⟨pid % 16, by rw [hb, rxOutcome_data _ _ _ _ hp]; simp [endEvents, hm]⟩

theorem mismatch_iff_crc_invalid_and_len_ge_2 :
    Event.mismatch ∈ trace c s (render p) ↔
      ∃ pid payload lo hi, p.bytes = pid :: (payload ++ [lo, hi]) ∧ isDataPid pid = true ∧
        usb2Crc16 payload ≠ lo + 256 * hi := by
  rw [(packet_exact c hc p s hs hw hg).1]
  constructor
  · intro hk
    rcases rxOutcome_cases p.bytes with h | ⟨pid, payload, lo, hi, hb, hp, h⟩
    · simp [h] at hk
    · refine ⟨pid, payload, lo, hi, hb, hp, ?_⟩
      rw [h] at hk
      intro hm
      simp [endEvents, hm] at hk
  · rintro ⟨pid, payload, lo, hi, hb, hp, hm⟩
    rw [hb, rxOutcome_data _ _ _ _ hp]; simp [endEvents, hm]

theorem never_both : ¬ (Event.mismatch ∈ trace c s (render p) ∧ ∃ k, Event.complete k ∈ trace c s (render p)) := by
  rw [(packet_exact c hc p s hs hw hg).1]
  rintro ⟨h1, k, h2⟩
  rcases rxOutcome_cases p.bytes with h | ⟨pid, payload, lo, hi, _, _, h⟩
  · simp [h] at h1
  · rw [h] at h1 h2
    by_cases hm : usb2Crc16 payload = lo + 256 * hi <;> simp [endEvents, hm] at h1 h2

/-- `ready_for_response` only ever follows a completed packet — and it is the last thing the packet
causes, directly after `packet_complete`; a completed packet gets exactly this one. -/
theorem ready_for_response_only_after_complete :
    (Event.ready ∈ trace c s (render p) ↔ ∃ k, Event.complete k ∈ trace c s (render p)) ∧
    (Event.ready ∈ trace c s (render p) →
      ∃ (k : Nat) (payload : List Nat), trace c s (render p) = payload.map .byte ++ [.complete k, .ready]) := by
  rw [(packet_exact c hc p s hs hw hg).1]
  rcases rxOutcome_cases p.bytes with h | ⟨pid, payload, lo, hi, _, _, h⟩
  · simp [h]
  · rw [h]
    by_cases hm : usb2Crc16 payload = lo + 256 * hi
    · simp only [endEvents, hm, if_true]
      exact ⟨by simp, fun _ => ⟨pid % 16, payload, rfl⟩⟩
    · simp [endEvents, hm]

/-- the reported `packet_id` is the PID nibble of the packet -/
theorem pid_reported (k : Nat) (h : Event.complete k ∈ trace c s (render p)) :
    ∃ pid rest, p.bytes = pid :: rest ∧ k = pid % 16 := by
  rw [(packet_exact c hc p s hs hw hg).1] at h
  rcases rxOutcome_cases p.bytes with h0 | ⟨pid, payload, lo, hi, hb, _, h0⟩
  · simp [h0] at h
  · refine ⟨pid, _, hb, ?_⟩
    rw [h0] at h
    by_cases hm : usb2Crc16 payload = lo + 256 * hi <;> simp [endEvents, hm] at h
    exact h

end OnePacket

/-! ## Non-vacuity: concrete histories satisfying the hypotheses, evaluated on the model -/

/-- DATA0 [0x12, 0x34] with its correct CRC16 (0xC70E… computed by the oracle), then a 1-cycle-later
corrupted DATA1, then a PID-only packet, at HS timing (delay 1). -/
def demoCfg : Config := ⟨1, 640⟩
def demoGood : RxPacket :=
  ⟨[0], [(0xC3, []), (0x12, [7]), (0x34, []), (usb2Crc16 [0x12, 0x34] % 256, [9, 9]),
          (usb2Crc16 [0x12, 0x34] / 256, [])], [0, 0, 0]⟩
def demoBad : RxPacket := ⟨[5, 5], [(0x4B, []), (1, []), (2, []), (3, [])], [0]⟩
def demoShort : RxPacket := ⟨[0], [(0xC3, [])], [0]⟩

example : demoGood.wf ∧ demoBad.wf ∧ demoShort.wf := by decide
example : gapOk demoCfg demoGood ∧ gapOk demoCfg demoBad ∧ gapOk demoCfg demoShort :=
  ⟨fun _ => by decide, fun h => absurd h (by decide +kernel), fun h => absurd h (by decide +kernel)⟩
example : observed demoCfg init (renderAll [demoGood, demoBad, demoShort]) ++
      pending (final demoCfg init (renderAll [demoGood, demoBad, demoShort]))
    = [.byte 0x12, .byte 0x34, .complete 3, .ready, .byte 1, .mismatch] := by decide +kernel

end LunaVerif.DataReceiver
