import LunaVerif.Model.Usb3.DataPacketReceiver
/-!
# C40 — Each received data packet is reported good or bad exactly once

"For every data packet received, exactly one of 'packet good' or 'packet bad' is reported, once,
after its payload; 'good' is reported iff the header CRCs and the payload CRC32 are valid,
independently of idle (not-valid) words the receive path inserts, and the payload stream carries
exactly data-length bytes."

The model is the gateware after the repairs of F15, F16, F17, F15b (notes/C40.md).  A "data packet
received" is a data packet payload the receiver has started on: a DATA-type header whose CRC-5 and
CRC-16 are valid followed by DPPSTART (`startsDpp`); headers with a bad CRC are dropped silently
(they are the header receiver's business: LBAD), as the gateware's comments say.
-/
namespace LunaVerif.DataPacketReceiver

/-- The receiver is inside a data packet payload. -/
def inDpp (s : State) : Bool := s.fsm == .payload || s.fsm == .checkCrc

def verdict (o : Out) : Bool := o.good || o.bad

/-- Payload bytes delivered on `source` in one cycle (`source.valid` is a low mask of lanes). -/
def laneBytes (o : Out) : List Nat :=
  (wordBytes o.srcData).take (if o.srcValid == 15 then 4 else if o.srcValid == 7 then 3
    else if o.srcValid == 3 then 2 else if o.srcValid == 1 then 1 else 0)

/-- This cycle starts a data packet payload (CHECK_HEADER accepts the header and sees DPPSTART). -/
def startsDpp (s : State) (i : In) : Bool := !inDpp s && inDpp (step s i).1

def b2n (b : Bool) : Nat := if b then 1 else 0

/-! ## exactly one verdict per packet -/

/-- One cycle: verdicts are raised only inside a payload, never both at once, and a verdict ends
the payload; the only way out of a payload is a verdict. -/
theorem step_verdict (s : State) (i : In) :
    let o := (step s i).2
    (o.good && o.bad) = false ∧
    b2n (verdict o) + b2n (inDpp (step s i).1) = b2n (inDpp s) + b2n (startsDpp s i) := by
  obtain ⟨f, h, e, r, pw, pv, c16, c32, oh, nh, fi⟩ := s
  obtain ⟨v, d, c⟩ := i
  cases f <;> cases v <;> simp [step, quiet, inDpp, verdict, startsDpp, b2n]
  all_goals (repeat' split) <;> simp_all

def countVerdicts : List Out → Nat
  | [] => 0
  | o :: os => b2n (verdict o) + countVerdicts os

def countStarts : State → List In → Nat
  | _, [] => 0
  | s, i :: is => b2n (startsDpp s i) + countStarts (step s i).1 is

/-- **C40 (a).**  For every start state and every word history: the number of verdicts raised equals
the number of data packet payloads started (plus one if the history began inside a payload, minus
one if it ends inside one).  With `step_verdict` (never good and bad together; a verdict leaves the
payload): every payload started gets exactly one verdict, and nothing else does. -/
theorem exactly_one_verdict_per_packet (s : State) (h : List In) :
    countVerdicts (run s h) + b2n (inDpp (final s h)) = b2n (inDpp s) + countStarts s h := by
  induction h generalizing s with
  | nil => simp [run, final, countVerdicts, countStarts]
  | cons i is ih =>
    have h1 := (step_verdict s i).2
    have h2 := ih (step s i).1
    simp only [run, final, countVerdicts, countStarts] at *
    omega

/-- From reset (not inside a payload). -/
theorem exactly_one_verdict_per_packet_from_reset (h : List In) :
    countVerdicts (run init h) + b2n (inDpp (final init h)) = countStarts init h := by
  have := exactly_one_verdict_per_packet init h
  simpa [inDpp, init, b2n] using this

/-! ## good iff the CRCs are valid -/

/-- Little-endian value of a byte list. -/
def leNat : List Nat → Nat
  | [] => 0
  | b :: bs => b + 256 * leNat bs

/-- A payload is only started for a DATA header whose CRC-5 (over the link control word, DWORD 3
bits 26:16) and CRC-16 (over the words the CRC unit absorbed: DWORD 0..2) are both valid, on a
valid DPPSTART word; the header is published and the byte counter loaded with the length field. -/
theorem dpp_start_requires_header_crcs (s : State) (i : In) (h : startsDpp s i = true) :
    s.fsm = .checkHeader ∧ s.expCrc5 = s.hdr.dw3 / 2 ^ 27 ∧ crc16Of s.crc16In = s.hdr.dw3 % 2 ^ 16 ∧
    i.valid = true ∧ i.data % 2 ^ 32 = DPPSTART ∧ i.ctrl % 16 = 0xF ∧
    (step s i).1.outHdr = s.hdr ∧ (step s i).1.remaining = s.hdr.dw1 / 2 ^ 16 % 2 ^ 11 ∧
    (step s i).1.crc32In = s.crc32In := by
  obtain ⟨f, hd, e, r, pw, pv, c16, c32, oh, nh, fi⟩ := s
  obtain ⟨v, d, c⟩ := i
  cases f <;> cases v <;> simp [step, quiet, inDpp, startsDpp] at h ⊢
  all_goals (repeat' split at h) <;> simp_all
  all_goals (repeat' split) <;> simp_all

/-- In CHECK_CRC32 a valid word yields the verdict: good iff the assembled CRC field equals the
CRC-32 of the bytes the CRC unit absorbed; an invalid word yields nothing and changes nothing
(F16 repaired). -/
theorem check_crc_verdict (s : State) (hs : s.fsm = .checkCrc) (i : In) :
    let o := (step s i).2
    (i.valid = true → o.good = (dataToCheck s.prevValid s.prevWord (i.data % 2 ^ 32) == crc32Of s.crc32In) ∧
        o.bad = !o.good ∧ (step s i).1.fsm = .waitHp) ∧
    (i.valid = false → o.good = false ∧ o.bad = false ∧ (step s i).1 = s) := by
  obtain ⟨f, hd, e, r, pw, pv, c16, c32, oh, nh, fi⟩ := s
  obtain ⟨v, d, c⟩ := i
  simp only at hs
  subst hs
  cases v <;> simp [step, quiet]

/-- The value compared with the CRC-32 is made of the 4 bytes that immediately follow the `k`
payload bytes of the last payload word: the rest of that word, then the beginning of the next. -/
theorem crc_field_assembly (prev cur : Nat) (hp : prev < 2 ^ 32) (hc : cur < 2 ^ 32) :
    dataToCheck 0b1111 prev cur = leNat ((wordBytes cur).take 4) ∧
    dataToCheck 0b0111 prev cur = leNat (((wordBytes prev).drop 3 ++ wordBytes cur).take 4) ∧
    dataToCheck 0b0011 prev cur = leNat (((wordBytes prev).drop 2 ++ wordBytes cur).take 4) ∧
    dataToCheck 0b0001 prev cur = leNat (((wordBytes prev).drop 1 ++ wordBytes cur).take 4) := by
  simp [dataToCheck, wordBytes, leNat]
  omega

/-! ## the payload stream carries exactly data-length bytes -/

/-- A valid payload word without control symbols in its payload lanes: the word delivers
`min remaining 4` bytes on `source`, the CRC unit absorbs exactly those bytes, the counter drops by
4 (more to come) or the receiver moves on to the CRC check remembering how many lanes were payload;
no verdict is raised. -/
theorem payload_word (s : State) (hs : s.fsm = .payload) (d c : Nat) (hd : d < 2 ^ 32)
    (hr : 1 ≤ s.remaining) (hclean : c % 16 % 2 ^ (min s.remaining 4) = 0) :
    let k := min s.remaining 4
    let o := (step s ⟨true, d, c⟩).2
    let s' := (step s ⟨true, d, c⟩).1
    laneBytes o = (wordBytes d).take k ∧ verdict o = false ∧ o.last = decide (s.remaining ≤ 4) ∧
    s'.crc32In = s.crc32In ++ (wordBytes d).take k ∧ s'.prevWord = d ∧ s'.prevValid = 2 ^ k - 1 ∧
    (4 < s.remaining → s'.fsm = .payload ∧ s'.remaining = s.remaining - 4) ∧
    (s.remaining ≤ 4 → s'.fsm = .checkCrc) := by
  obtain ⟨f, hh, e, r, pw, pv, c16, c32, oh, nh, fi⟩ := s
  simp only at hs hr hclean
  subst hs
  have hm : d % 2 ^ 32 = d := Nat.mod_eq_of_lt hd
  by_cases hbig : 4 < r
  · have hk : min r 4 = 4 := by omega
    rw [hk] at hclean
    have hnb : ¬ r ≤ 4 := by omega
    simp [step, laneBytes, verdict, hm, hk, hbig, hclean, hnb]
  · have : r = 1 ∨ r = 2 ∨ r = 3 ∨ r = 4 := by omega
    rcases this with h | h | h | h <;> subst h <;> simp at hclean <;>
      simp [step, laneBytes, verdict, hm, hclean]

/-- Running `ws` (the ⌈r/4⌉ payload words, all valid, no control symbols in payload lanes) from a
payload state with `r` bytes remaining. -/
def payloadIns (ws : List Nat) : List In := ws.map fun d => ⟨true, d, 0⟩

def allLaneBytes : List Out → List Nat
  | [] => []
  | o :: os => laneBytes o ++ allLaneBytes os

/-- **C40 (c).**  From a payload state with `r ≥ 1` bytes remaining, the ⌈r/4⌉ payload words deliver
exactly the first `r` bytes of those words on `source` — no more, no fewer —, the CRC unit absorbs
exactly the same bytes, no verdict is raised meanwhile, and the receiver is then in CHECK_CRC32. -/
theorem payload_len_exact (ws : List Nat) (s : State) (hs : s.fsm = .payload)
    (hw : ∀ w ∈ ws, w < 2 ^ 32) (hr : 1 ≤ s.remaining) (hn : ws.length = (s.remaining + 3) / 4) :
    allLaneBytes (run s (payloadIns ws)) = (ws.flatMap wordBytes).take s.remaining ∧
    (final s (payloadIns ws)).crc32In = s.crc32In ++ (ws.flatMap wordBytes).take s.remaining ∧
    (final s (payloadIns ws)).fsm = .checkCrc ∧ countVerdicts (run s (payloadIns ws)) = 0 := by
  induction ws generalizing s with
  | nil => simp at hn; omega
  | cons w ws ih =>
    have hw0 : w < 2 ^ 32 := hw w List.mem_cons_self
    have hclean : 0 % 16 % 2 ^ (min s.remaining 4) = 0 := by simp
    have ⟨p1, p2, _, p4, _, _, p7, p8⟩ := payload_word s hs w 0 hw0 hr hclean
    have hlen : (wordBytes w).length = 4 := rfl
    by_cases hbig : 4 < s.remaining
    · have ⟨q1, q2⟩ := p7 hbig
      have hmin : min s.remaining 4 = 4 := by omega
      have ih' := ih (step s ⟨true, w, 0⟩).1 q1 (fun x hx => hw x (List.mem_cons_of_mem _ hx))
        (by rw [q2]; omega) (by rw [q2]; simp at hn; omega)
      rw [q2] at ih'
      rw [hmin] at p1 p4
      have htake : (wordBytes w).take 4 = wordBytes w := List.take_of_length_le (by simp [hlen])
      have hsplit : ((w :: ws).flatMap wordBytes).take s.remaining
          = wordBytes w ++ (ws.flatMap wordBytes).take (s.remaining - 4) := by
        simp only [List.flatMap_cons]
        rw [List.take_append, hlen, List.take_of_length_le (by rw [hlen]; omega)]
      simp only [payloadIns, List.map_cons, run, final, allLaneBytes, countVerdicts] at *
      rw [p1, htake, ih'.1, ih'.2.1, p4, htake, hsplit, p2]
      simp [List.append_assoc, ih'.2.2.1, ih'.2.2.2, b2n]
    · have hsmall : s.remaining ≤ 4 := by omega
      have hws : ws = [] := by
        have : ws.length = 0 := by simp at hn; omega
        exact List.length_eq_zero_iff.mp this
      subst hws
      have hmin : min s.remaining 4 = s.remaining := by omega
      rw [hmin] at p1 p4
      have hsplit : ([w].flatMap wordBytes).take s.remaining = (wordBytes w).take s.remaining := by simp
      simp only [payloadIns, List.map_cons, List.map_nil, run, final, allLaneBytes, countVerdicts]
      rw [p1, p4, hsplit, p2, p8 hsmall]
      simp [b2n]

/-! ## independence of invalid words -/

/-- First verdict of a payload and the bytes delivered up to it. -/
def firstVerdict : State → List In → List Nat → Option (Bool × List Nat)
  | _, [], _ => none
  | s, i :: is, acc =>
    let o := (step s i).2
    if o.good then some (true, acc ++ laneBytes o)
    else if o.bad then some (false, acc ++ laneBytes o)
    else firstVerdict (step s i).1 is (acc ++ laneBytes o)

def validOnly (h : List In) : List In := h.filter (·.valid)

/-- Inside a payload an invalid word is a pure stutter: no state change, no bytes, no verdict. -/
theorem invalid_word_stutters (s : State) (hs : inDpp s = true) (d c : Nat) :
    (step s ⟨false, d, c⟩).1 = s ∧ laneBytes (step s ⟨false, d, c⟩).2 = [] ∧
      (step s ⟨false, d, c⟩).2.good = false ∧ (step s ⟨false, d, c⟩).2.bad = false := by
  obtain ⟨f, hh, e, r, pw, pv, c16, c32, oh, nh, fi⟩ := s
  cases f <;> simp [inDpp] at hs <;> simp [step, quiet, laneBytes]

/-- Inside a payload, a cycle without verdict stays inside the payload. -/
theorem stays_in_dpp (s : State) (hs : inDpp s = true) (i : In)
    (hg : (step s i).2.good = false) (hb : (step s i).2.bad = false) : inDpp (step s i).1 = true := by
  have h := (step_verdict s i).2
  have hst : startsDpp s i = false := by simp [startsDpp, hs]
  simp only [verdict, hg, hb, hs, hst, b2n, Bool.or_self] at h
  cases hI : inDpp (step s i).1
  · simp [hI] at h
  · rfl

/-- **C40 (d).**  From any state inside a payload and for any history: the verdict of that payload
and the payload bytes delivered before it are the same as for the history with all its invalid
words removed — invalid words, wherever they are inserted, change neither. -/
theorem independent_of_invalid_words (s : State) (hs : inDpp s = true) (h : List In) (acc : List Nat) :
    firstVerdict s h acc = firstVerdict s (validOnly h) acc := by
  induction h generalizing s acc with
  | nil => rfl
  | cons i is ih =>
    obtain ⟨v, d, c⟩ := i
    cases v
    · have ⟨e1, e2, e3, e4⟩ := invalid_word_stutters s hs d c
      have hv : validOnly (⟨false, d, c⟩ :: is) = validOnly is := by simp [validOnly]
      rw [hv, firstVerdict]
      simp only [e1, e2, e3, e4, List.append_nil]
      exact ih s hs acc
    · have hv : validOnly (⟨true, d, c⟩ :: is) = ⟨true, d, c⟩ :: validOnly is := by simp [validOnly]
      rw [hv, firstVerdict, firstVerdict]
      cases hg : (step s ⟨true, d, c⟩).2.good
      · cases hb : (step s ⟨true, d, c⟩).2.bad
        · simp only [Bool.false_eq_true, if_false]
          exact ih _ (stays_in_dpp s hs _ hg hb) _
        · simp
      · simp

/-! ## the pieces together -/

/-- **C40 (b).**  A whole data packet payload with arbitrary invalid words interleaved: from a
payload state with `r ≥ 1` bytes remaining and a freshly cleared CRC unit, any history whose valid
words are the ⌈r/4⌉ payload words followed by the word `crcw` yields exactly one verdict — good iff
the 4 bytes following the `r` payload bytes equal the CRC-32 of those `r` bytes (`good_iff_crcs_valid`;
the header CRCs were the precondition for starting, `dpp_start_requires_header_crcs`) — after
delivering exactly those `r` bytes. -/
theorem good_iff_crcs_valid (ws : List Nat) (crcw cc : Nat) (s : State) (hs : s.fsm = .payload)
    (hfresh : s.crc32In = []) (hw : ∀ w ∈ ws, w < 2 ^ 32) (hr : 1 ≤ s.remaining)
    (hn : ws.length = (s.remaining + 3) / 4) (h : List In)
    (hh : validOnly h = payloadIns ws ++ [⟨true, crcw, cc⟩]) :
    let payload := (ws.flatMap wordBytes).take s.remaining
    let st := final s (payloadIns ws)
    firstVerdict s h [] =
      some (dataToCheck st.prevValid st.prevWord (crcw % 2 ^ 32) == crc32Of payload, payload) := by
  have hin : inDpp s = true := by simp [inDpp, hs]
  rw [independent_of_invalid_words s hin h [], hh]
  have ⟨l1, l2, l3, l4⟩ := payload_len_exact ws s hs hw hr hn
  -- run through the payload words: no verdict, bytes accumulate
  have key : ∀ (xs : List In) (t : State) (acc : List Nat) (rest : List In),
      countVerdicts (run t xs) = 0 →
      firstVerdict t (xs ++ rest) acc = firstVerdict (final t xs) rest (acc ++ allLaneBytes (run t xs)) := by
    intro xs
    induction xs with
    | nil => intro t acc rest _; simp [run, final, allLaneBytes]
    | cons x xs ihx =>
      intro t acc rest hc
      simp only [run, countVerdicts, verdict, b2n] at hc
      have hg : (step t x).2.good = false := by
        cases hgg : (step t x).2.good <;> simp_all
      have hb : (step t x).2.bad = false := by
        cases hbb : (step t x).2.bad <;> simp_all
      have hrest : countVerdicts (run (step t x).1 xs) = 0 := by
        simp [hg, hb] at hc; exact hc
      simp only [List.cons_append, firstVerdict, hg, hb, Bool.false_eq_true, if_false, run, final,
        allLaneBytes]
      rw [ihx _ _ _ hrest, List.append_assoc]
  rw [key _ _ _ _ l4, l1]
  have hc := (check_crc_verdict (final s (payloadIns ws)) l3 ⟨true, crcw, cc⟩).1 rfl
  simp only [firstVerdict, List.nil_append]
  have hlane : laneBytes (step (final s (payloadIns ws)) ⟨true, crcw, cc⟩).2 = [] := by
    have : (final s (payloadIns ws)).fsm = .checkCrc := l3
    revert this
    generalize final s (payloadIns ws) = t
    intro ht
    obtain ⟨f, hh', e, r, pw, pv, c16, c32, oh, nh, fi⟩ := t
    simp only at ht
    subst ht
    simp [step, quiet, laneBytes, wordBytes]
  rw [hlane, l2, hfresh] at *
  simp only [List.nil_append, List.append_nil] at *
  cases hgood : (step (final s (payloadIns ws)) ⟨true, crcw, cc⟩).2.good
  · have hbad : (step (final s (payloadIns ws)) ⟨true, crcw, cc⟩).2.bad = true := by
      rw [hc.2.1, hgood]; rfl
    simp [hbad, ← hc.1, hgood]
  · simp [← hc.1, hgood]

end LunaVerif.DataPacketReceiver
