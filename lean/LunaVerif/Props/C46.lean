import LunaVerif.Model.Usb3.SSStreamIn
/-!
# C46 — SuperSpeed IN endpoints deliver data and signal readiness correctly

"For any input stream and host behaviour, a SuperSpeed IN endpoint answers an IN request with a data
packet when it holds data (NRDY otherwise), notifies the host with ERDY once data becomes available
after an NRDY, numbers packets with consecutive sequence numbers that advance only on the host's
ACK, resends the same packet when the host asks for a retry, and delivers the stream exactly once in
order with short-packet/ZLP transfer ends."

STATUS: this file has the one-step and invariant theorems.  The history-level host-view theorems are
`ss_in_exactly_once` (data: delivered ++ pending = accepted from the producer, keyed on sequence numbers;
`Props/C46Once.lean`, lemmas in `Lemmas/C46View|C46Buf|C46Ghost|C46StepIdle|C46StepSend|C46StepAck.lean`) and
`ss_in_framing` (short-packet / ZLP transfer ends: accepted packets ++ held packets = reference packetization;
`Props/C46Framing.lean`, lemmas in `Lemmas/C46Frame|C46FrameStep1|C46FrameStep2.lean`), both for
max_packet_size ≥ 8 (for max_packet_size = 4 the statement is false, see `hStale` in Props/C46Once.lean).
The model is the endpoint **as repaired** by six `fix:` commits (branch wt-ssep); the unrepaired code
violated the property in six ways, each replayed on the real gateware (KNOWN_FINDINGS.jsonl, C46).

* `seq_advances_only_on_ack`      the sequence number changes only by `ep_reset`, or by +1 on an ACK TP
  for this endpoint in WAIT_FOR_ACK that is not a retry and carries the next sequence number;
  `seq_advances_on_accepting_ack` is the converse (every accepting ACK advances it).
* `retry_resends_same`            a retry request re-enters SEND_PACKET at word 0 with the same buffer,
  contents, fill count and sequence number (data packet), resp. strobes the ZLP again with the same
  sequence number (ZLP).
* `nrdy_then_erdy` (history level, all input histories): from an NRDY until an ERDY request has
  completed (`send_erdy ∧ done`) the endpoint stays in WAIT_FOR_DATA / REQUEST_IN_TOKEN, so it starts no
  data packet and no ZLP in between; `nrdy_leads_to_erdy_request`: once a packet is complete in that
  situation the very next state requests the ERDY.  Here `In.done` is the completion of the ERDY requested in
  REQUEST_IN_TOKEN (`handshakes_out.done ∧ erdy_in_flight` in the gateware).  `Props/C46Erdy.lean` closes the loop with
  the transaction packet generator, whose raw `done` also reports the endpoint's own NRDY: `loop_nrdy_then_erdy`
  (until the ERDY transaction packet is handed to the header queue), `loop_erdy_within_bound` (within 2 L + 4 cycles
  when the queue stalls at most L cycles), `unrepaired_loses_erdy` (the defect repaired by `erdy_in_flight`).
* `in_request_answered`           an IN request (ACK TP with NumP ≠ 0 for this endpoint) in any state but
  REQUEST_IN_TOKEN / SEND_PACKET is answered in the same cycle by NRDY, by a ZLP, or by entering SEND_PACKET.
* `header_fields_always`          `tx_endpoint_number`, `tx_length`, `tx_sequence_number` carry the
  endpoint, the read buffer's fill count and the sequence number in force in every cycle.
* `last_word_held`                a tx word that is not taken (`tx.ready` low) is still offered unchanged
  in the next cycle.
* `ss_in_buffers_partial`         fill counts never exceed the packet size and the producer never touches
  the buffer being transmitted.
* `…_repaired` examples: the input histories on which the unrepaired code failed (replayed on the gateware
  as directed cases by the harness).

-/
namespace LunaVerif.SSStreamIn

theorem nrdy_next (c : Config) (s : State) (i : In) (h : (control c s i).nrdy = true) :
    ((control c s i).fsm = .waitData ∨ (control c s i).fsm = .reqIn) ∧
      (control c s i).setErdy = true ∧ (control c s i).clrErdy = false ∧ (control c s i).erdy = false := by
  unfold control at h ⊢
  cases hf : s.fsm <;> simp only [hf] at h ⊢ <;> grind

theorem erdy_iff (c : Config) (s : State) (i : In) : (control c s i).erdy = true ↔ s.fsm = .reqIn := by
  unfold control
  cases hf : s.fsm <;> simp only [] <;> grind

theorem advance_iff (c : Config) (s : State) (i : In) :
    (control c s i).advance = true ↔
      (s.fsm = .waitAck ∧ i.ack = true ∧ i.hsEp = c.ep ∧ i.retry = false ∧
        i.nextSeq = (s.seq + 1) % 32) := by
  unfold control
  cases hf : s.fsm <;> simp only [] <;> grind

theorem no_transmit (c : Config) (s : State) (i : In) (h : s.fsm = .waitData ∨ s.fsm = .reqIn) :
    (control c s i).txZlp = false ∧ (control c s i).loadTx = false := by
  unfold control
  rcases h with h | h <;> simp only [h] <;> grind

/-- 1. The sequence number changes only on `ep_reset` or on an accepting ACK TP for this endpoint
while waiting for an ACK, then by exactly one. -/
theorem seq_advances_only_on_ack (c : Config) (s : State) (i : In)
    (h : (next c s i).seq ≠ s.seq) :
    i.epReset = true ∨
      (s.fsm = .waitAck ∧ i.ack = true ∧ i.hsEp = c.ep ∧ i.retry = false ∧
        i.nextSeq = (s.seq + 1) % 32 ∧ (next c s i).seq = (s.seq + 1) % 32) := by
  cases hr : i.epReset
  · right
    have hadv : (control c s i).advance = true := by
      cases ha : (control c s i).advance
      · simp [next, hr, ha] at h
      · rfl
    have hseq : (next c s i).seq = (s.seq + 1) % 32 := by simp [next, hr, hadv]
    obtain ⟨h1, h2, h3, h4, h5⟩ := (advance_iff c s i).1 hadv
    exact ⟨h1, h2, h3, h4, h5, hseq⟩
  · left; rfl

/-- … and every accepting ACK does advance it, whatever the endpoint does next. -/
theorem seq_advances_on_accepting_ack (c : Config) (s : State) (i : In)
    (hf : s.fsm = .waitAck) (hack : i.ack = true) (hep : i.hsEp = c.ep) (hr : i.retry = false)
    (hn : i.nextSeq = (s.seq + 1) % 32) (hreset : i.epReset = false) :
    (next c s i).seq = (s.seq + 1) % 32 := by
  have := (advance_iff c s i).2 ⟨hf, hack, hep, hr, hn⟩
  simp [next, hreset, this]

/-- The comparison is modulo 32, as the 5-bit `next_sequence_number` makes it in the gateware: with sequence number 31
in force the accepting ACK names 0, it is taken as an acknowledgement (not as a retry request) and the number wraps
to 0.  (An inlined `sequence_number + 1` is 6 bits wide in Amaranth and never equals the 5-bit field of the ACK: seeded
change C46c; the harness's wrap cases drive every kind of event across 30, 31, 0, 1.) -/
example (c : Config) (s : State) (i : In) (hs : s.seq = 31) (hf : s.fsm = .waitAck) (hack : i.ack = true)
    (hep : i.hsEp = c.ep) (hr : i.retry = false) (hn : i.nextSeq = 0) (hreset : i.epReset = false) :
    (control c s i).advance = true ∧ (next c s i).seq = 0 ∧ (out c s i).txSeq = 0 := by
  have hn' : i.nextSeq = (s.seq + 1) % 32 := by simp [hs, hn]
  have ha := (advance_iff c s i).2 ⟨hf, hack, hep, hr, hn'⟩
  have := seq_advances_on_accepting_ack c s i hf hack hep hr hn' hreset
  exact ⟨ha, by simpa [hs] using this, by simp [out, ha, hs]⟩

/-- 2. A retry request (Retry bit, or a non-advancing sequence number) restarts the same packet:
same buffer, contents, fill count, sequence number; a data packet from word 0, a ZLP by a new strobe
announced with the same sequence number. -/
theorem retry_resends_same (c : Config) (s : State) (i : In)
    (hf : s.fsm = .waitAck) (hack : i.ack = true) (hep : i.hsEp = c.ep)
    (hretry : i.retry = true ∨ i.nextSeq ≠ (s.seq + 1) % 32) (hr : i.epReset = false) :
    (next c s i).seq = s.seq ∧ (next c s i).toggle = s.toggle ∧
      fillR (next c s i) = fillR s ∧ memR (next c s i) = memR s ∧ (out c s i).txSeq = s.seq ∧
      (if s.lpz then (out c s i).txZlp = true ∧ (next c s i).fsm = .waitAck
       else (out c s i).txZlp = false ∧ (next c s i).fsm = .send ∧ (next c s i).sendPos = 0) := by
  have hre : (i.retry || !(i.nextSeq == (s.seq + 1) % 32)) = true := by
    rcases hretry with h | h <;> simp [h]
  cases hl : s.lpz
  · have hk : control c s i = { fsm := .send, clrTx := true, raddr := 0 } := by
      simp [control, hf, hack, hep, hre, hl]
    refine ⟨?_, ?_, ?_, ?_, ?_, ?_⟩
    · simp [next, hk, hr]
    · simp [next, hk]
    · cases ht : s.toggle <;> simp [next, hk, fillR, ht]
    · cases ht : s.toggle <;> simp [next, hk, memR, ht]
    · simp [out, hk]
    · simp [out, next, hk]
  · have hk : control c s i = { fsm := .waitAck, txZlp := true, clrTx := true, raddr := 0 } := by
      simp [control, hf, hack, hep, hre, hl]
    refine ⟨?_, ?_, ?_, ?_, ?_, ?_⟩
    · simp [next, hk, hr]
    · simp [next, hk]
    · cases ht : s.toggle <;> simp [next, hk, fillR, ht]
    · cases ht : s.toggle <;> simp [next, hk, memR, ht]
    · simp [out, hk]
    · simp [out, next, hk]

/-! 3. NRDY, then ERDY before any data.  `owed` is a ghost flag: set by an NRDY, cleared when an
ERDY request completes. -/

def owedNext (c : Config) (s : State) (i : In) (owed : Bool) : Bool :=
  if (out c s i).sendNrdy then true
  else if (out c s i).sendErdy && i.done then false
  else owed

/-- the endpoint starts or continues a transmission in this cycle (ZLP strobe or a word loaded) -/
def transmits (c : Config) (s : State) (i : In) : Bool :=
  (out c s i).txZlp || (control c s i).loadTx

def OwedInv (s : State) (owed : Bool) : Prop :=
  owed = true → (s.fsm = .waitData ∨ s.fsm = .reqIn) ∧ s.erdyReq = true

theorem owed_step (c : Config) (s : State) (i : In) (owed : Bool) (h : OwedInv s owed) :
    OwedInv (next c s i) (owedNext c s i owed) := by
  intro ho
  by_cases hn : (control c s i).nrdy = true
  · -- an NRDY is sent in this cycle: the endpoint is (or goes) waiting for data and remembers it
    obtain ⟨hfsm, hset, hclr, _⟩ := nrdy_next c s i hn
    exact ⟨by simpa [next] using hfsm, by simp [next, hset, hclr]⟩
  · have hn' : (out c s i).sendNrdy = false := by simpa [out] using hn
    cases hf : s.fsm
    · -- WAIT_FOR_DATA
      have he' : (out c s i).sendErdy = false := by simp [out, control, hf]
      simp only [owedNext, hn', he', Bool.false_eq_true, if_false, Bool.false_and] at ho
      have hreq := (h ho).2
      refine ⟨?_, by simp [next, control, hf, hreq]⟩
      by_cases hends : ((i.sValid % 2 == 1 && (decide (fillW s + 4 ≥ c.mps) || i.sLast)) || endedW s) = true
      · right; simp [next, control, hf, hends, hreq]
      · left; simp [next, control, hf, hends]
    · -- REQUEST_IN_TOKEN
      have he' : (out c s i).sendErdy = true := by simp [out, control, hf]
      cases hd : i.done
      · simp only [owedNext, hn', he', hd, Bool.false_eq_true, if_false, Bool.and_false] at ho
        exact ⟨Or.inr (by simp [next, control, hf, hd]), by simp [next, control, hf, hd, (h ho).2]⟩
      · simp [owedNext, hn', he', hd] at ho
    all_goals
      (have he' : (out c s i).sendErdy = false := by
        cases hq : (out c s i).sendErdy
        · rfl
        · have := (erdy_iff c s i).1 (by simpa [out] using hq)
          rw [hf] at this; cases this
       simp only [owedNext, hn', he', Bool.false_eq_true, if_false, Bool.false_and] at ho
       have := (h ho).1
       rw [hf] at this
       rcases this with h1 | h1 <;> cases h1)

def runOwed (c : Config) : State → Bool → List In → State × Bool
  | s, o, [] => (s, o)
  | s, o, i :: is => runOwed c (next c s i) (owedNext c s i o) is

theorem owed_run (c : Config) (s : State) (o : Bool) (is : List In) (h : OwedInv s o) :
    OwedInv (runOwed c s o is).1 (runOwed c s o is).2 := by
  induction is generalizing s o with
  | nil => exact h
  | cons i is ih => exact ih _ _ (owed_step c s i o h)

/-- **nrdy_then_erdy** (all input histories from reset): in any cycle in which an ERDY is still owed
(an NRDY has been sent and no ERDY request has completed since), the endpoint neither strobes a ZLP
nor loads a data word — no data packet can start between an NRDY and the completed ERDY. -/
theorem nrdy_then_erdy (c : Config) (hist : List In) (i : In)
    (ho : (runOwed c (init c) false hist).2 = true) :
    transmits c (runOwed c (init c) false hist).1 i = false := by
  have hinv := owed_run c (init c) false hist (by intro h; cases h)
  obtain ⟨hf, _⟩ := hinv ho
  obtain ⟨h1, h2⟩ := no_transmit c _ i hf
  simp [transmits, out, h1, h2]

/-- Once a packet is complete while an ERDY is owed, the next state requests the ERDY. -/
theorem nrdy_leads_to_erdy_request (c : Config) (s : State) (i : In)
    (hf : s.fsm = .waitData) (hreq : s.erdyReq = true)
    (hc : (i.sValid % 2 == 1 && (decide (fillW s + 4 ≥ c.mps) || i.sLast)) = true ∨ endedW s = true) :
    (next c s i).fsm = .reqIn ∧ ∀ j, (out c (next c s i) j).sendErdy = true := by
  have hends : ((i.sValid % 2 == 1 && (decide (fillW s + 4 ≥ c.mps) || i.sLast)) || endedW s) = true := by
    rcases hc with h | h <;> simp [h]
  have h1 : (next c s i).fsm = .reqIn := by simp [next, control, hf, hends, hreq]
  exact ⟨h1, fun j => by simp [out, control, h1]⟩

/-- An IN request (ACK TP with NumP ≠ 0 for this endpoint) is answered in the same cycle by NRDY, by a
ZLP, or by entering SEND_PACKET — in every state but REQUEST_IN_TOKEN and SEND_PACKET (where the host,
flow-controlled resp. being served, sends none). -/
theorem in_request_answered (c : Config) (s : State) (i : In)
    (hack : i.ack = true) (hep : i.hsEp = c.ep) (hin : i.nump ≠ 0)
    (hf : s.fsm ≠ .reqIn) (hf' : s.fsm ≠ .send) :
    (out c s i).sendNrdy = true ∨ (out c s i).txZlp = true ∨ (next c s i).fsm = .send := by
  have hnump : (i.nump != 0) = true := by simpa using hin
  cases hs : s.fsm
  · left; simp [out, control, hs, hack, hep, hnump]
  · exact absurd hs hf
  · by_cases h0 : fillR s = 0
    · right; left; simp [out, control, hs, hack, hep, hnump, h0]
    · right; right; simp [next, control, hs, hack, hep, hnump, h0]
  · exact absurd hs hf'
  · simp only [out, next, control, hs, hack, hep, hnump, beq_self_eq_true, Bool.and_self, if_true]
    grind

/-- The header fields are driven in every cycle. -/
theorem header_fields_always (c : Config) (s : State) (i : In) :
    (out c s i).txEp = c.ep ∧ (out c s i).txLength = fillR s ∧
      (out c s i).txSeq = (if (control c s i).advance then (s.seq + 1) % 32 else s.seq) := by
  simp [out]

/-- A tx word that is not taken stays: same valid mask, flags and data in the next cycle. -/
theorem last_word_held (c : Config) (s : State) (i : In) (hv : s.txValid ≠ 0) (hr : i.txReady = false) :
    (next c s i).txValid = s.txValid ∧ (next c s i).txData = s.txData ∧
      (next c s i).txFirst = s.txFirst ∧ (next c s i).txLast = s.txLast := by
  have hload : (control c s i).loadTx = false := by
    unfold control
    cases hf : s.fsm <;> simp only [] <;> grind
  simp [next, hload, hr]

/-! 4. Buffers. -/

theorem validBytes_le (v : Nat) : validBytes v ≤ 4 := by
  unfold validBytes; split <;> (try omega); split <;> (try omega); split <;> (try omega); split <;> omega

/-- Fill counts never exceed the packet size, and while the buffers are not swapped the producer
never touches the buffer being transmitted: its memory is unchanged and its fill count is unchanged
or cleared (by an accepting ACK). -/
theorem ss_in_buffers_partial (c : Config) (s : State) (i : In)
    (h0 : s.fill0 ≤ c.mps) (h1 : s.fill1 ≤ c.mps) :
    (next c s i).fill0 ≤ c.mps ∧ (next c s i).fill1 ≤ c.mps ∧
      ((control c s i).flip = false →
        memR (next c s i) = memR s ∧ (fillR (next c s i) = fillR s ∨ fillR (next c s i) = 0)) := by
  have hv := validBytes_le i.sValid
  have hW : (if (i.sValid != 0 && inReady c s) = true then fillW s + validBytes i.sValid else fillW s) ≤ c.mps := by
    split
    · rename_i hw
      simp only [inReady, Bool.and_eq_true, decide_eq_true_eq] at hw
      omega
    · unfold fillW; split <;> assumption
  have hR : (if (control c s i).clrFillR = true then 0 else fillR s) ≤ c.mps := by
    split
    · omega
    · unfold fillR; split <;> assumption
  refine ⟨?_, ?_, ?_⟩
  · simp only [next]; split <;> assumption
  · simp only [next]; split <;> assumption
  · intro hflip
    cases ht : s.toggle
    · simp only [next, memR, fillR, hflip, ht, Bool.false_eq_true, if_false, Bool.and_false]
      refine ⟨trivial, ?_⟩
      split <;> simp
    · simp only [next, memR, fillR, hflip, ht, if_true, Bool.not_true, Bool.and_false,
        Bool.false_eq_true, if_false]
      refine ⟨trivial, ?_⟩
      split <;> simp

/-! ## The histories on which the unrepaired endpoint failed (KNOWN_FINDINGS.jsonl, C46), on the repaired
model; the harness replays the same inputs on the real gateware as directed cases. -/

def run (c : Config) : State → List In → State
  | s, [] => s
  | s, i :: is => run c (next c s i) is

def cfg8 : Config := ⟨8, 1, 1⟩
def idle : In := ⟨0, false, 0, true, false, 0, false, 0, 0, false, false⟩
def word (d : Nat) (last : Bool) : In := { idle with sValid := 15, sData := d, sLast := last }
def tp (retry : Bool) (nextSeq nump : Nat) : In :=
  { idle with ack := true, hsEp := 1, retry := retry, nextSeq := nextSeq, nump := nump }

/-- two words fill an 8-byte packet, IN request, both words go out, then WAIT_FOR_ACK -/
def sentOne : List In := [word 0x11111111 false, word 0x22222222 false, tp false 0 1, idle, idle, idle]
def sentFullLast : List In := [word 0x11111111 false, word 0x22222222 true, tp false 0 1, idle, idle, idle]

example : (run cfg8 (init cfg8) sentOne).fsm = .waitAck ∧ (run cfg8 (init cfg8) sentOne).seq = 0 := by
  decide

/-- accepting ACK with nothing buffered: the sequence number advances (was: stayed 0) -/
example : (run cfg8 (init cfg8) (sentOne ++ [tp false 1 0])).fsm = .waitData ∧
    (run cfg8 (init cfg8) (sentOne ++ [tp false 1 0])).seq = 1 := by decide

/-- last word with `tx.ready` low: still offered in the next cycle (was: withdrawn) -/
example : let s5 := run cfg8 (init cfg8) (sentOne.take 5)
    s5.txValid = 15 ∧ s5.txLast = true ∧
      (next cfg8 s5 { idle with txReady := false }).txValid = 15 ∧
      (next cfg8 s5 { idle with txReady := false }).txData = 0x22222222 := by decide

/-- ZLP after a full packet that ended its transfer: announced with sequence number 1, endpoint 1 -/
example : let s := run cfg8 (init cfg8) (sentFullLast ++ [tp false 1 0])
    s.fsm = .waitSend ∧ (out cfg8 s (tp false 1 1)).txZlp = true ∧ (out cfg8 s (tp false 1 1)).txSeq = 1 ∧
      (out cfg8 s (tp false 1 1)).txEp = 1 := by decide

/-- immediate follow-up ZLP (ACK + IN): carries the advanced number; a retry keeps it -/
example : let s0 := run cfg8 (init cfg8) sentFullLast
    let s := next cfg8 s0 (tp false 1 1)
    (out cfg8 s0 (tp false 1 1)).txZlp = true ∧ (out cfg8 s0 (tp false 1 1)).txSeq = 1 ∧
      s.fsm = .waitAck ∧ s.lpz = true ∧ s.seq = 1 ∧
      (out cfg8 s (tp true 1 1)).txZlp = true ∧ (out cfg8 s (tp true 1 1)).txSeq = 1 ∧
      (next cfg8 s (tp true 1 1)).seq = 1 := by decide

/-- ACK + IN request with nothing buffered: NRDY (was: no answer) -/
example : let s := run cfg8 (init cfg8) sentOne
    (out cfg8 s (tp false 1 1)).sendNrdy = true ∧ (next cfg8 s (tp false 1 1)).erdyReq = true := by decide

/-- a one-word transfer accepted in the ACK cycle is released and announced by ERDY after the NRDY
(was: stuck for ever) -/
def releasedHist : List In :=
  sentOne ++ [{ tp false 1 0 with sValid := 15, sLast := true, sData := 0x55555555 }, idle]

example : (run cfg8 (init cfg8) releasedHist).fsm = .waitSend ∧
    fillR (run cfg8 (init cfg8) releasedHist) = 4 := by decide

end LunaVerif.SSStreamIn
