import LunaVerif.Model.Device.Full
import LunaVerif.Generated.AcmDescriptors
import LunaVerif.Lemmas.DeviceSteps
/-!
# C57 — The USB serial device carries bytes both ways and answers CDC requests

"The ready-made USB serial (CDC-ACM) device enumerates under a standard host sequence, accepts
SET_LINE_CODING, STALLs the other class and vendor requests, delivers bytes written by the host to its
receive stream in order, and delivers bytes from its transmit stream to the host in order."

The model is an INSTANCE of the full-device event model (`Model/Device/Full.lean`, tied to the real
`USBSerialDevice` event by event on every run): control endpoint with the standard request handler and
`ACMRequestHandlers`, the never-fed stream IN endpoint 3, bulk OUT endpoint 4 (`rx`), bulk IN endpoint 4
(`tx`), and the descriptor set that `USBSerialDevice.create_descriptors` produces (regenerated from /repo
into `Generated/AcmDescriptors.lean` on every run).

* `acm_enumerates`               the standard enumeration, for EVERY address the host may assign
* `set_line_coding_accepted`     from EVERY state: SETUP ACKed, data stage ACKed, status stage DATA1 ZLP
* `other_class_vendor_stalled`   from EVERY state, for EVERY class / vendor / reserved request other than
                                 SET_LINE_CODING: data-stage and status-stage IN tokens are STALLed, OUT data
                                 packets get no handshake
* `vendor_reserved_stalled`      the same for EVERY vendor / reserved request, bRequest unconstrained (0x20 included)
* `unsupported_request_stalled`  whole transfer from EVERY state, EVERY such SETUP packet (any recipient, direction,
                                 bRequest, wLength): SETUP ACKed, first IN -> STALL, address / configuration unchanged
* `rx_in_order_partial`          OUT endpoint: delivered ++ buffered = the packets the host got ACKed, each
                                 once, in order — for every interleaving of host packets (including
                                 retransmissions after a lost ACK, corrupted packets and packets that do not
                                 fit into the FIFO, which are NAKed) and consumer reads.
                                 PARTIAL: no CLEAR_FEATURE(ENDPOINT_HALT) in between (it resets the toggle).
* `tx_in_order_partial`          IN endpoint: what the host has accepted ++ what is still buffered = the bytes the
                                 producer handed over, in order, each once — for every interleaving of producer
                                 chunks, IN tokens, received / lost packets and received / lost ACKs.
                                 PARTIAL: no CLEAR_FEATURE(ENDPOINT_HALT) in between (it resets the toggle).
-/
namespace LunaVerif.C57
open LunaVerif LunaVerif.Device LunaVerif.Device.Full

/-! ## The instance -/

def maxLen : List (Nat × Nat × List Nat) → Nat
  | [] => 0
  | (_, _, b) :: r => max b.length (maxLen r)

/-- Width of the descriptor handler's position register: enough bits for the longest descriptor. -/
def posBits (n : Nat) : Nat := if n = 0 then 1 else Nat.log2 n + 1

def acmDev : DevConfig :=
  { descriptors := Generated.acmDescriptors, maxPacket := 64,
    posBits := posBits (maxLen Generated.acmDescriptors), extra := [⟨1, 0x20⟩] }

/-- `USBSerialDevice.elaborate`: status endpoint 3 (a stream IN endpoint nobody feeds), rx = OUT 4, tx = IN 4. -/
def acmCfg : FullConfig :=
  { dev := acmDev
    eps := [{ kind := .streamIn, num := 3, mps := 64 }, { kind := .streamOut, num := 4, mps := 64, depth := 127 },
            { kind := .streamIn, num := 4, mps := 64 }]
    acm := true }

/-! ## 1. Enumeration -/

def setupBytes (rt req value index length : Nat) : List Nat :=
  [rt, req, value % 256, value / 256, index % 256, index / 256, length % 256, length / 256]

/-- A control read: SETUP, DATA0; then `n` × (IN, host ACK); then the status stage OUT + zero-length DATA1. -/
def ctrlRead (a : Nat) (su : List Nat) (n : Nat) : List HostEvent :=
  [.token PID_SETUP a 0, .data PID_DATA0 su true] ++
  (List.replicate n [HostEvent.token PID_IN a 0, .handshake PID_ACK]).flatten ++
  [.token PID_OUT a 0, .data PID_DATA1 [] true]

/-- A control write without data stage: SETUP, DATA0; status stage IN, host ACK. -/
def ctrlWrite (a : Nat) (su : List Nat) : List HostEvent :=
  [.token PID_SETUP a 0, .data PID_DATA0 su true, .token PID_IN a 0, .handshake PID_ACK]

/-- The host side of a standard enumeration that assigns address `a`. -/
def enumeration (a : Nat) : List HostEvent :=
  ctrlRead 0 (setupBytes 0x80 6 0x0100 0 64) 1 ++          -- GET_DESCRIPTOR(device), 64 bytes asked
  ctrlWrite 0 (setupBytes 0x00 5 a 0 0) ++                  -- SET_ADDRESS a
  ctrlRead a (setupBytes 0x80 6 0x0100 0 18) 1 ++           -- GET_DESCRIPTOR(device)
  ctrlRead a (setupBytes 0x80 6 0x0200 0 9) 1 ++            -- GET_DESCRIPTOR(configuration), header only
  ctrlRead a (setupBytes 0x80 6 0x0200 0 255) 2 ++          -- … in full (two packets)
  ctrlRead a (setupBytes 0x80 6 0x0300 0 255) 1 ++          -- string 0 (languages)
  ctrlRead a (setupBytes 0x80 6 0x0302 0x0409 255) 1 ++     -- product string
  ctrlWrite a (setupBytes 0x00 9 1 0 0)                     -- SET_CONFIGURATION 1

def descOf (ty ix : Nat) : List Nat := (lookupDescriptor Generated.acmDescriptors ty ix).getD []

def readResp (bytes : List Nat) (n : Nat) : List Resp :=
  [.none, .hs PID_ACK] ++
  ((List.range n).map (fun k =>
      [Resp.data (if k % 2 = 0 then PID_DATA1 else PID_DATA0) ((bytes.drop (64 * k)).take 64), Resp.none])).flatten ++
  [.none, .hs PID_ACK]

def writeResp : List Resp := [.none, .hs PID_ACK, .data PID_DATA1 [], .none]

/-- What the device must answer: every descriptor as produced by `create_descriptors`, cut to the requested
length and to 64-byte packets with alternating DATA1/DATA0, ZLP status stages for the two writes. -/
def enumerationResp : List Resp :=
  readResp (descOf 1 0) 1 ++ writeResp ++ readResp (descOf 1 0) 1 ++ readResp ((descOf 2 0).take 9) 1 ++
  readResp (descOf 2 0) 2 ++ readResp (descOf 3 0) 1 ++ readResp (descOf 3 2) 1 ++ writeResp

/-- Responses and the final state in one pass. -/
def runAll (c : FullConfig) : FullState → List HostEvent → List Resp × FullState
  | s, [] => ([], s)
  | s, e :: es =>
    let r := runAll c (step c s e).1 es
    ((step c s e).2.resp :: r.1, r.2)

theorem runAll_spec (c : FullConfig) (s : FullState) (h : List HostEvent) :
    runAll c s h = ((Full.run c s h).map (·.resp), Full.final c s h) := by
  induction h generalizing s with
  | nil => rfl
  | cons e es ih => simp [runAll, Full.run, Full.final, ih]

def enumOk (a : Nat) : Bool :=
  let r := runAll acmCfg (init acmCfg) (enumeration a)
  r.1 == enumerationResp && r.2.ctl.address == a && r.2.ctl.config == 1

theorem enum_lo : (List.range 64).all enumOk = true := by decide +kernel
theorem enum_hi : ((List.range 64).map (· + 64)).all enumOk = true := by decide +kernel

/-- **C57 (enumeration).** For every address `a` a host can assign, the standard enumeration sequence is
answered with the device, configuration and string descriptors of `create_descriptors` (device descriptor
first at address 0, then everything at address `a`); afterwards the device has address `a` and
configuration 1. -/
theorem acm_enumerates (a : Nat) (ha : a < 128) :
    (Full.run acmCfg (init acmCfg) (enumeration a)).map (·.resp) = enumerationResp ∧
    (Full.final acmCfg (init acmCfg) (enumeration a)).ctl.address = a ∧
    (Full.final acmCfg (init acmCfg) (enumeration a)).ctl.config = 1 := by
  have h : enumOk a = true := by
    by_cases hl : a < 64
    · exact List.all_eq_true.1 enum_lo a (List.mem_range.2 hl)
    · have : a - 64 + 64 = a := by omega
      exact List.all_eq_true.1 enum_hi a (List.mem_map.2 ⟨a - 64, List.mem_range.2 (by omega), this⟩)
  simp only [enumOk, runAll_spec, Bool.and_eq_true, beq_iff_eq] at h
  exact ⟨h.1.1, h.1.2, h.2⟩

/-- … and the sequence is a legal host history (non-vacuity of `LegalHost` on a real enumeration). -/
example : Full.LegalHost acmCfg (enumeration 5) = true := by decide +kernel

/-- the descriptors really are non-trivial -/
example : (descOf 1 0).length = 18 ∧ (descOf 2 0).length > 64 ∧ (descOf 3 2).length > 2 := by decide

/-! ## 2. Class and vendor requests -/

/-- The device's request handlers: the standard one plus `ACMRequestHandlers` (which claims CLASS requests
with bRequest = SET_LINE_CODING = 0x20). -/
def IsAcm (c : FullConfig) : Prop := c.acm = true ∧ c.dev.extra = [⟨1, 0x20⟩]

/-- The latched SETUP packet is a class / vendor / reserved request other than SET_LINE_CODING. -/
def OtherClassVendor (su : Setup) : Prop := su.type ≠ TYPE_STANDARD ∧ ¬ (su.type = 1 ∧ su.request = 0x20)

theorem owner_other (c : DevConfig) (hx : c.extra = [⟨1, 0x20⟩]) (su : Setup) (h : OtherClassVendor su) :
    owner c su = .fallback := by
  obtain ⟨h0, h1⟩ := h
  have hn : extraClaims c su = 0 := by
    simp only [extraClaims, hx, List.filter_cons, List.filter_nil]
    split
    · rename_i hc
      simp only [Bool.and_eq_true, beq_iff_eq] at hc
      exact absurd hc h1
    · rfl
  unfold owner
  simp only [hn]
  have : (su.type == TYPE_STANDARD) = false := by simpa using h0
  simp [this]

theorem request_other (c : DevConfig) (hx : c.extra = [⟨1, 0x20⟩]) (s : DevState) (h : OtherClassVendor s.setup)
    (r : Req) : (request c s r).2 = .hs PID_STALL := by
  unfold request
  rw [owner_other c hx s.setup h]

theorem request_other_state (c : DevConfig) (hx : c.extra = [⟨1, 0x20⟩]) (s : DevState) (h : OtherClassVendor s.setup)
    (r : Req) : (request c s r).1 = s := by
  unfold request
  rw [owner_other c hx s.setup h]
  simp only []
  rw [if_neg h.1]

theorem acm_no_ack (s : DevState) (ev : HostEvent) (h : OtherClassVendor s.setup) : acmAcksData s ev = false := by
  unfold acmAcksData
  split
  · cases hv : (_ && _ && _ && _ && _ && s.setup.type == 1 && s.setup.request == 0x20) with
    | false => rfl
    | true =>
      simp only [Bool.and_eq_true, beq_iff_eq] at hv
      exact absurd ⟨hv.1.2, hv.2⟩ h.2
  · rfl

/-- **C57 (other class / vendor requests).** While the latched SETUP packet is a class, vendor or reserved
request other than SET_LINE_CODING, in EVERY state of the device an IN token on endpoint 0 in the data stage
or in / entering the status stage is answered STALL, and a data packet on endpoint 0 (OUT data stage, or a
status-stage OUT) is answered with nothing or STALL — never ACKed, never answered with DATA. -/
theorem other_class_vendor_stalled (c : FullConfig) (hc : IsAcm c) (s : FullState)
    (h : OtherClassVendor s.ctl.setup) :
    (s.ctl.stage ≠ .setup → s.ctl.stage ≠ .statusOut →
        (Full.step c s (.token PID_IN s.ctl.address 0)).2.resp = .hs PID_STALL) ∧
    (∀ pid p ok, s.ctl.sdWait = false → s.ctl.tokEp = 0 →
        (Full.step c s (.data pid p ok)).2.resp = .none ∨ (Full.step c s (.data pid p ok)).2.resp = .hs PID_STALL) := by
  refine ⟨?_, ?_⟩
  · intro h1 h2
    have hr : (onToken c.dev s.ctl PID_IN 0).2 = .hs PID_STALL := by
      unfold onToken
      simp only [↓reduceIte, afterToken, tokenStage]
      have hp : PID_IN ≠ PID_SETUP := by decide
      simp only [hp, ↓reduceIte]
      cases hs : s.ctl.stage <;> simp [hs, PID_OUT, PID_IN, PID_PING] at h1 h2 ⊢ <;>
        (refine request_other c.dev hc.2 _ ?_ _; exact h)
    simp only [Full.step, acm_no_ack s.ctl _ h, Bool.and_false, Bool.false_and, Bool.false_eq_true, ↓reduceIte,
      Device.step, core, hr, Resp.isNone]
    simp
  · intro pid p ok hw h0
    have ht : (onData c.dev s.ctl p ok).1.tokEp = 0 := by rw [(onData_tok c.dev s.ctl p ok).2]; exact h0
    have hr : (onData c.dev s.ctl p ok).2 = .none ∨ (onData c.dev s.ctl p ok).2 = .hs PID_STALL := by
      unfold onData
      split
      · exact Or.inl rfl
      · rw [if_neg (by simp [hw])]
        split
        · exact Or.inr (request_other c.dev hc.2 s.ctl h .status)
        · exact Or.inl rfl
    simp only [Full.step, acm_no_ack s.ctl _ h, Bool.and_false, Bool.false_and, Bool.false_eq_true, ↓reduceIte,
      Device.step, core, ht]
    simpa using hr


/-- Vendor (type 2) and reserved (type 3) requests are "other" WHATEVER their bRequest — SET_LINE_CODING's number
0x20 included: `ACMRequestHandlers` looks at the request code only under `setup.type == CLASS`, and the
`StallOnlyRequestHandler` of `USBSerialDevice` never claims, so the multiplexer's stall-only fallback answers. -/
theorem vendor_reserved_is_other (su : Setup) (h : su.type = 2 ∨ su.type = 3) : OtherClassVendor su := by
  rcases h with h | h <;> simp [OtherClassVendor, h, TYPE_STANDARD]

/-- **C57 (every vendor / reserved request).** `other_class_vendor_stalled` with the request code unconstrained:
while a vendor- or reserved-type SETUP packet is latched — bRequest 0x20 or any other — IN tokens of its data /
status stage are STALLed and its OUT packets are never ACKed. -/
theorem vendor_reserved_stalled (c : FullConfig) (hc : IsAcm c) (s : FullState)
    (h : s.ctl.setup.type = 2 ∨ s.ctl.setup.type = 3) :
    (s.ctl.stage ≠ .setup → s.ctl.stage ≠ .statusOut →
        (Full.step c s (.token PID_IN s.ctl.address 0)).2.resp = .hs PID_STALL) ∧
    (∀ pid p ok, s.ctl.sdWait = false → s.ctl.tokEp = 0 →
        (Full.step c s (.data pid p ok)).2.resp = .none ∨ (Full.step c s (.data pid p ok)).2.resp = .hs PID_STALL) :=
  other_class_vendor_stalled c hc s (vendor_reserved_is_other _ h)

/-- the hypothesis is satisfiable exactly where it matters: vendor / reserved requests numbered 0x20 (any recipient,
direction, wLength) are "other", CLASS 0x20 is not -/
example : OtherClassVendor (parseSetup [0x40, 0x20, 0, 0, 0, 0, 0, 0]) := by unfold OtherClassVendor; decide
example : OtherClassVendor (parseSetup [0xE3, 0x20, 1, 2, 0, 0, 7, 0]) := by unfold OtherClassVendor; decide
example : OtherClassVendor (parseSetup [0x21, 0x22, 3, 0, 0, 0, 0, 0]) := by unfold OtherClassVendor; decide
example : ¬ OtherClassVendor (parseSetup [0x21, 0x20, 0, 0, 0, 0, 7, 0]) := by unfold OtherClassVendor; decide

/-- The host side of a control transfer up to its first IN token (the data stage of a control read, the status stage
of a control write without data, or the early status IN by which a host ends an OUT data stage). -/
def unsupportedTransfer (a : Nat) (su : List Nat) : List HostEvent :=
  [.token PID_SETUP a 0, .data PID_DATA0 su true, .token PID_IN a 0]

/-- **C57 (other class / vendor / reserved requests, whole transfer).** From EVERY state of the device, for EVERY
8-byte SETUP packet that is a class, vendor or reserved request other than CLASS / SET_LINE_CODING — every
recipient, direction, bRequest, wValue, wIndex, wLength: the SETUP transaction is ACKed, the first IN token is
answered STALL, and address and configuration are what they were. -/
theorem unsupported_request_stalled (c : FullConfig) (hc : IsAcm c) (s : FullState) (su : List Nat) (hl : su.length = 8)
    (h : OtherClassVendor (parseSetup su)) :
    (Full.run c s (unsupportedTransfer s.ctl.address su)).map (·.resp) = [.none, .hs PID_ACK, .hs PID_STALL] ∧
    (Full.final c s (unsupportedTransfer s.ctl.address su)).ctl.address = s.ctl.address ∧
    (Full.final c s (unsupportedTransfer s.ctl.address su)).ctl.config = s.ctl.config := by
  obtain ⟨hacm, hx⟩ := hc
  have ho := owner_other c.dev hx (parseSetup su) h
  have hty : (parseSetup su).type ≠ TYPE_STANDARD := h.1
  by_cases h0 : (parseSetup su).length = 0 <;> cases hin : (parseSetup su).isIn <;>
  simp [Full.run, Full.final, unsupportedTransfer, Full.step, Device.step, core, onToken, afterToken, tokenStage, onData, onSetupData,
    hl, Resp.isData, Resp.dataLen, tokenPidOf, request, ho, hty, h0, hin, acmAcksData, stageAfterSetup, Resp.isNone, PID_SETUP, PID_OUT,
    PID_IN, PID_PING, PID_ACK, PID_DATA0, PID_STALL, ctxOf]

/-- … on the serial device itself, freshly reset: a VENDOR request numbered 0x20 is STALLed, CLASS 0x20 is not -/
example : (Full.run acmCfg (init acmCfg) (unsupportedTransfer 0 [0x40, 0x20, 0, 0, 0, 0, 0, 0])).map (·.resp) =
    [.none, .hs PID_ACK, .hs PID_STALL] := by decide +kernel
example : (Full.run acmCfg (init acmCfg) (unsupportedTransfer 0 [0x21, 0x20, 0, 0, 0, 0, 0, 0])).map (·.resp) =
    [.none, .hs PID_ACK, .data PID_DATA1 []] := by decide +kernel

/-- SET_LINE_CODING for interface `i`: bmRequestType 0x21 (class, interface, host-to-device), bRequest 0x20,
wLength 7. -/
def slcSetup (i : Nat) : List Nat := [0x21, 0x20, 0, 0, i, 0, 7, 0]

/-- The host side of a SET_LINE_CODING transfer to a device at address `a`. -/
def slcTransfer (a i pid : Nat) (lc : List Nat) : List HostEvent :=
  [.token PID_SETUP a 0, .data PID_DATA0 (slcSetup i) true, .token PID_OUT a 0, .data pid lc true, .token PID_IN a 0]

theorem parse_slc (i : Nat) (hi : i < 256) : parseSetup (slcSetup i) =
    { isIn := false, type := 1, recipient := 1, request := 0x20, value := 0, index := i, length := 7 } := by
  simp [parseSetup, slcSetup, byteAt, Nat.mod_eq_of_lt hi]

/-- **C57 (SET_LINE_CODING).** From EVERY state of the device, a SET_LINE_CODING control transfer is
accepted: the SETUP packet is ACKed, the line-coding data packet (whatever its contents and data PID) is
ACKed, and the status-stage IN is answered with a zero-length DATA1 packet. -/
theorem set_line_coding_accepted (c : FullConfig) (hc : IsAcm c) (s : FullState) (i pid : Nat) (hi : i < 256)
    (lc : List Nat) :
    (Full.run c s (slcTransfer s.ctl.address i pid lc)).map (·.resp) =
      [.none, .hs PID_ACK, .none, .hs PID_ACK, .data PID_DATA1 []] := by
  obtain ⟨hacm, hx⟩ := hc
  have hl : (slcSetup i).length = 8 := rfl
  simp [Full.run, slcTransfer, Full.step, Device.step, core, onToken, afterToken, tokenStage, onData, onSetupData,
    parse_slc i hi, hl, Resp.isData, Resp.dataLen, tokenPidOf, request, owner, extraClaims, hx, hacm, acmAcksData, stageAfterSetup, Resp.isNone, PID_SETUP, PID_OUT,
    PID_IN, PID_PING, PID_ACK, PID_DATA0, PID_DATA1, TYPE_STANDARD, ctxOf]

/-! ## 3. Host to device: the receive stream -/

/-- What happens at the OUT endpoint: the host sends a data packet (after an OUT token naming the endpoint)
— `seen` says whether the host notices the device's ACK (a handshake can be lost on the way) — or the
application reads up to `n` bytes from the stream. -/
inductive RxOp
  | send (payload : List Nat) (crcOk seen : Bool)
  | read (n : Nat)
deriving Repr

/-- The host's side of the data-toggle protocol (USB 2.0 §8.6): its toggle, the packet it is still trying to
get across (if any), and the bytes of the packets it knows were ACKed. -/
structure RxHost where
  th      : Bool := false
  pending : Option (List Nat) := none
  done    : List Nat := []

structure RxSys where
  ep        : OutEp := {}
  host      : RxHost := {}
  delivered : List Nat := []      -- bytes the application has read from the rx stream

def bytesOf (f : List Entry) : List Nat := f.map (·.1)

/-- One operation; the host uses its current toggle, the endpoint is the one the OUT token named. -/
def rxStep (c : EpCfg) (s : RxSys) : RxOp → RxSys
  | .send p ok seen =>
    let r := outData c s.ep PID_OUT c.num (dataPidOf s.host.th) p ok
    let h := if r.2 = .hs PID_ACK ∧ seen = true then
               { th := !s.host.th, pending := none, done := s.host.done ++ p }
             else { s.host with pending := some p }
    { s with ep := r.1, host := h }
  | .read n => { s with ep := { s.ep with fifo := s.ep.fifo.drop n }, delivered := s.delivered ++ bytesOf (s.ep.fifo.take n) }

/-- The host retransmits the same packet until it has seen it ACKed.  (Nothing is assumed about the free
space: a packet that does not fit is NAKed and simply stays pending.) -/
def rxOpOk (_c : EpCfg) (s : RxSys) : RxOp → Bool
  | .send p _ _ => (match s.host.pending with | none => true | some q => p == q)
  | .read _ => true

def rxRun (c : EpCfg) : RxSys → List RxOp → RxSys
  | s, [] => s
  | s, o :: os => rxRun c (rxStep c s o) os

def rxLegal (c : EpCfg) : RxSys → List RxOp → Bool
  | _, [] => true
  | s, o :: os => rxOpOk c s o && rxLegal c (rxStep c s o) os

/-- In step: everything the host counts as done is delivered or buffered; out of step (the host missed an
ACK): additionally the packet it is about to retransmit. -/
def RxInv (s : RxSys) : Prop :=
  (s.ep.expToggle = s.host.th ∧ s.delivered ++ bytesOf s.ep.fifo = s.host.done) ∨
  (s.ep.expToggle ≠ s.host.th ∧ ∃ q, s.host.pending = some q ∧ s.delivered ++ bytesOf s.ep.fifo = s.host.done ++ q)

theorem bytes_entriesFrom (mps : Nat) (act : Bool) (len : Nat) (p : List Nat) (i : Nat) :
    bytesOf (entriesFrom mps act len p i) = p := by
  induction p generalizing i with
  | nil => rfl
  | cons b bs ih => simp only [entriesFrom, bytesOf, List.map_cons] at ih ⊢; rw [ih]

theorem pidToggle_dataPidOf (t : Bool) : pidToggle (dataPidOf t) = t := by cases t <;> decide

theorem bytesOf_append (a b : List Entry) : bytesOf (a ++ b) = bytesOf a ++ bytesOf b := by
  simp [bytesOf]

set_option linter.unusedSimpArgs false in
theorem rxInv_step (c : EpCfg) (s : RxSys) (o : RxOp) (hi : RxInv s) (ho : rxOpOk c s o = true) :
    RxInv (rxStep c s o) := by
  cases o with
  | read n =>
    have : bytesOf (s.ep.fifo.take n) ++ bytesOf (s.ep.fifo.drop n) = bytesOf s.ep.fifo := by
      rw [← bytesOf_append, List.take_append_drop]
    simp only [RxInv, rxStep, List.append_assoc, this]
    exact hi
  | send p ok seen =>
    simp only [rxOpOk] at ho
    have hleg := ho
    rcases hi with ⟨hsync, hd⟩ | ⟨hns, q, hq, hd⟩
    · -- in step: the packet is new to the endpoint
      have hm : (pidToggle (dataPidOf s.host.th) != s.ep.expToggle) = false := by
        rw [pidToggle_dataPidOf, hsync]; simp
      have hne : (!s.host.th) ≠ s.host.th := by cases s.host.th <;> simp
      have hd' : s.delivered ++ (bytesOf s.ep.fifo ++ p) = s.host.done ++ p := by
        rw [← List.append_assoc, hd]
      have hnak : ¬ (PID_NAK = PID_ACK) := by decide
      by_cases hfit : p.length ≤ c.depth - s.ep.fifo.length <;>
      cases ok <;> cases seen <;> cases hp : p.isEmpty <;>
        simp [RxInv, rxStep, outData, hm, hp, hfit, hsync, hnak, entries, bytes_entriesFrom, bytesOf_append, hne, hd, hd'] <;>
        (try simp_all [List.isEmpty_iff]) <;>
        (try (rw [bytesOf_append, bytes_entriesFrom]; exact hd'))
    · -- out of step: a retransmission, skipped by the endpoint
      rw [hq] at hleg
      have hpq : p = q := by simpa using hleg
      subst hpq
      have hm : (pidToggle (dataPidOf s.host.th) != s.ep.expToggle) = true := by
        rw [pidToggle_dataPidOf]
        cases h1 : s.ep.expToggle <;> cases h2 : s.host.th <;> simp_all
      have hflip : s.ep.expToggle = !s.host.th := by
        cases h1 : s.ep.expToggle <;> cases h2 : s.host.th <;> simp_all
      have hr : outData c s.ep PID_OUT c.num (dataPidOf s.host.th) p ok = (s.ep, if ok = true then .hs PID_ACK else .none) := by
        simp [outData, hm]
      simp only [rxStep, hr]
      cases ok <;> cases seen
      · exact Or.inr ⟨hns, p, rfl, hd⟩
      · exact Or.inr ⟨hns, p, rfl, hd⟩
      · exact Or.inr ⟨hns, p, rfl, hd⟩
      · exact Or.inl ⟨hflip, hd⟩

theorem rxInv_run (c : EpCfg) (s : RxSys) (ops : List RxOp) (hi : RxInv s) (hl : rxLegal c s ops = true) :
    RxInv (rxRun c s ops) := by
  induction ops generalizing s with
  | nil => exact hi
  | cons o os ih =>
    simp only [rxLegal, Bool.and_eq_true] at hl
    exact ih _ (rxInv_step c s o hi hl.1) hl.2

/-- **C57 (rx in order).** PARTIAL only in that it is stated on the endpoint's operations (no halt-clear in
between).  For every interleaving of host packets (good, corrupted, not fitting into the FIFO, retransmitted
after a lost ACK or a NAK) and application reads, the bytes read from the rx stream followed by the
bytes still buffered are exactly the payloads of the packets the host has seen ACKed, in order, each once —
plus, while the host is about to retransmit a packet whose ACK it missed, that packet (already accepted once;
the retransmission is ACKed again and NOT delivered again). -/
theorem rx_in_order_partial (c : EpCfg) (ops : List RxOp) (hl : rxLegal c {} ops = true) :
    let s := rxRun c {} ops
    s.delivered ++ bytesOf s.ep.fifo = s.host.done ++ (if s.ep.expToggle = s.host.th then [] else s.host.pending.getD []) := by
  have h := rxInv_run c {} ops (Or.inl ⟨rfl, rfl⟩) hl
  rcases h with ⟨h1, h2⟩ | ⟨h1, q, hq, h2⟩
  · simp [h1, h2]
  · simp [h1, hq, h2]

example : rxLegal { kind := .streamOut, num := 4 } {}
    [.send [1, 2] true false, .send [1, 2] true true, .read 1, .send [3] false true, .send [3] true true] = true := by decide
example : (rxRun { kind := .streamOut, num := 4 } {}
    [.send [1, 2] true false, .send [1, 2] true true, .read 1, .send [3] false true, .send [3] true true]).delivered = [1] := by
  decide


/-! ## 4. Device to host: the transmit stream -/

/-- What happens at the IN endpoint: the application offers a chunk of bytes (`last` marks the end of a
transfer; the endpoint takes as many as it has room for), or the host polls with an IN token naming the
endpoint — `got`: the host receives the device's data packet intact and answers ACK; `acked`: that ACK reaches
the device (both can be lost on the way). -/
inductive TxOp
  | produce (bytes : List Nat) (last : Bool)
  | poll (got acked : Bool)
deriving Repr

structure TxSys where
  ep    : InEp := {}
  th    : Bool := false          -- the host's toggle: it expects DATA0 first
  recv  : List Nat := []         -- bytes the host has accepted (retransmissions discarded by toggle)
  given : List Nat := []         -- bytes the endpoint has accepted from the application

def txStep (c : EpCfg) (s : TxSys) : TxOp → TxSys
  | .produce bytes last =>
    let r := inProduce c.mps s.ep bytes last
    { s with ep := r.1, given := s.given ++ bytes.take r.2 }
  | .poll got acked =>
    let r := inToken c.num s.ep PID_IN c.num
    match r.2 with
    | .data pid payload =>
      if got then
        let fresh := pidToggle pid == s.th
        let s1 := { s with ep := r.1, th := if fresh then !s.th else s.th,
                            recv := if fresh then s.recv ++ payload else s.recv }
        if acked then { s1 with ep := inAck c.mps r.1 true false } else s1
      else { s with ep := r.1 }
    | _ => { s with ep := r.1 }

def txRun (c : EpCfg) : TxSys → List TxOp → TxSys
  | s, [] => s
  | s, o :: os => txRun c (txStep c s o) os

/-- What the host still has to receive: the packet being sent (unless the host already has it and only its ACK
got lost), then the bytes collected for the next packet. -/
def TxInv (s : TxSys) : Prop :=
  match s.ep.fsm with
  | .waitData => s.ep.rbuf = [] ∧ s.th = !s.ep.pid ∧ s.recv ++ s.ep.wbuf = s.given
  | _ => (s.th = s.ep.pid ∧ s.recv ++ s.ep.rbuf ++ s.ep.wbuf = s.given) ∨
         (s.th = !s.ep.pid ∧ s.recv ++ s.ep.wbuf = s.given)

set_option linter.unusedSimpArgs false in
/-- One byte: the invariant is kept with `given` extended by that byte. -/
theorem txInv_byte (mps : Nat) (s : TxSys) (b : Nat) (last : Bool) (e' : InEp) (hi : TxInv s)
    (h : inByte mps s.ep b last = some e') : TxInv { s with ep := e', given := s.given ++ [b] } := by
  rcases s with ⟨⟨fsm, tg, pid, b0, b1, e0, e1⟩, th, recv, given⟩
  unfold inByte at h
  split at h
  · split at h
    · rename_i hw
      injection h with h; subst h
      simp only at hw
      obtain ⟨hf, _⟩ := hw
      subst hf
      cases tg <;> simp only [TxInv, InEp.wbuf, InEp.rbuf, InEp.setW, InEp.setR] at hi ⊢ <;>
        (obtain ⟨h1, h2, hg⟩ := hi; subst_vars; simp [List.append_assoc])
    · injection h with h; subst h
      cases tg <;> cases fsm <;> simp only [TxInv, InEp.wbuf, InEp.rbuf, InEp.setW, InEp.setR] at hi ⊢ <;>
        first
        | (obtain ⟨h1, h2, hg⟩ := hi; subst_vars; simp [List.append_assoc]; done)
        | (rcases hi with ⟨h1, hg⟩ | ⟨h1, hg⟩ <;> subst_vars <;> simp [List.append_assoc])
  · cases h

theorem txInv_produce (mps : Nat) (bytes : List Nat) (last : Bool) (s : TxSys) (hi : TxInv s) :
    TxInv { s with ep := (inProduce mps s.ep bytes last).1, given := s.given ++ bytes.take (inProduce mps s.ep bytes last).2 } := by
  induction bytes generalizing s with
  | nil => simpa [inProduce] using hi
  | cons b bs ih =>
    unfold inProduce
    cases hb : inByte mps s.ep b (last && bs.isEmpty) with
    | none => simpa using hi
    | some e' =>
      have h1 := txInv_byte mps s b _ e' hi hb
      have h2 := ih _ h1
      simpa [List.append_assoc] using h2

theorem pidToggle_dataPidOf' (t : Bool) : pidToggle (dataPidOf t) = t := by cases t <;> decide

theorem inToken_waitData (n : Nat) (e : InEp) (h : e.fsm = .waitData) : inToken n e PID_IN n = (e, .hs PID_NAK) := by
  simp [inToken, h]

/-- Polling an endpoint that has a packet: it (re)sends the read buffer with its current PID and waits for the ACK. -/
theorem inToken_send (n : Nat) (e : InEp) (h : e.fsm ≠ .waitData) :
    ∃ e', inToken n e PID_IN n = (e', .data (dataPidOf e.pid) e.rbuf) ∧ e'.fsm = .waitAck ∧ e'.pid = e.pid ∧
      e'.rbuf = e.rbuf ∧ e'.wbuf = e.wbuf := by
  rcases e with ⟨fsm, tg, pid, b0, b1, e0, e1⟩
  cases fsm
  · exact absurd rfl h
  all_goals
    cases tg <;> simp [inToken, InEp.rbuf, InEp.wbuf, InEp.setR] <;> split <;> simp

/-- The three outcomes of an ACK for an endpoint in WAIT_FOR_ACK: a ZLP follows / the other buffer is complete
and becomes the packet to send / nothing to send yet. -/
theorem inAck_cases (mps : Nat) (e : InEp) (h : e.fsm = .waitAck) :
    let e' := inAck mps e true false
    (e'.fsm = .waitSend ∧ e'.pid = !e.pid ∧ e'.rbuf = [] ∧ e'.wbuf = e.wbuf) ∨
    (e'.fsm = .waitSend ∧ e'.pid = !e.pid ∧ e'.rbuf = e.wbuf ∧ e'.wbuf = []) ∨
    (e'.fsm = .waitData ∧ e'.pid = e.pid ∧ e'.rbuf = [] ∧ e'.wbuf = e.wbuf) := by
  rcases e with ⟨fsm, tg, pid, b0, b1, e0, e1⟩
  simp only at h
  subst h
  cases tg
  · by_cases h1 : b1.length = mps ∧ e1 = true <;> by_cases h2 : b0.length = mps ∨ e0 = true <;>
      simp [inAck, InEp.rbuf, InEp.wbuf, InEp.setR, InEp.rended, InEp.ready, InEp.wended, h1, h2] <;> simp_all
  · by_cases h1 : b0.length = mps ∧ e0 = true <;> by_cases h2 : b1.length = mps ∨ e1 = true <;>
      simp [inAck, InEp.rbuf, InEp.wbuf, InEp.setR, InEp.rended, InEp.ready, InEp.wended, h1, h2] <;> simp_all

theorem txInv_poll (c : EpCfg) (s : TxSys) (got acked : Bool) (hi : TxInv s) : TxInv (txStep c s (.poll got acked)) := by
  by_cases hf : s.ep.fsm = .waitData
  · simp only [txStep, inToken_waitData c.num s.ep hf]
    exact hi
  · obtain ⟨e', he, hfsm, hpid, hr, hw⟩ := inToken_send c.num s.ep hf
    have hi' : (s.th = s.ep.pid ∧ s.recv ++ s.ep.rbuf ++ s.ep.wbuf = s.given) ∨
        (s.th = !s.ep.pid ∧ s.recv ++ s.ep.wbuf = s.given) := by
      unfold TxInv at hi
      cases hfs : s.ep.fsm <;> simp only [hfs] at hi
      · exact absurd hfs hf
      · exact hi
      · exact hi
    simp only [txStep, he, pidToggle_dataPidOf']
    cases got
    · -- the host missed the packet: the endpoint waits, a later token makes it resend
      simp only [Bool.false_eq_true, ↓reduceIte, TxInv, hfsm, hpid, hr, hw]
      exact hi'
    · simp only [↓reduceIte]
      -- the host's state after taking (or discarding) the packet: it now expects the other toggle
      have hgot : (if (s.ep.pid == s.th) = true then !s.th else s.th) = !s.ep.pid ∧
          (if (s.ep.pid == s.th) = true then s.recv ++ s.ep.rbuf else s.recv) ++ s.ep.wbuf = s.given := by
        rcases hi' with ⟨h1, hg⟩ | ⟨h1, hg⟩
        · simp [h1, hg]
        · have : (s.ep.pid == s.th) = false := by rw [h1]; cases s.ep.pid <;> rfl
          simp [this, h1, hg]
      cases acked
      · simp only [Bool.false_eq_true, ↓reduceIte, TxInv, hfsm, hpid, hw]
        exact Or.inr hgot
      · simp only [↓reduceIte]
        have hc := inAck_cases c.mps e' hfsm
        simp only [hpid, hw] at hc
        rcases hc with ⟨a1, a2, a3, a4⟩ | ⟨a1, a2, a3, a4⟩ | ⟨a1, a2, a3, a4⟩
        · simp only [TxInv, a1, a2, a3, a4, List.append_nil]
          exact Or.inl hgot
        · simp only [TxInv, a1, a2, a3, a4, List.append_nil]
          exact Or.inl hgot
        · simp only [TxInv, a1, a2, a3, a4]
          exact ⟨trivial, hgot⟩

theorem txInv_run (c : EpCfg) (s : TxSys) (ops : List TxOp) (hi : TxInv s) : TxInv (txRun c s ops) := by
  induction ops generalizing s with
  | nil => exact hi
  | cons o os ih =>
    apply ih
    cases o with
    | produce bytes last => exact txInv_produce c.mps bytes last s hi
    | poll got acked => exact txInv_poll c s got acked hi


/-- **C57 (tx in order), PARTIAL: no halt-clear in between.** For every interleaving of producer chunks (any
sizes, with or without `last`, with back-pressure) and host polls (packet received or lost, ACK received or
lost), the bytes the host has accepted, followed by the packet still waiting to get across (unless the host
already has it and only its ACK was lost) and the bytes collected for the next packet, are exactly the bytes
the endpoint accepted from the producer, in order: nothing is lost, duplicated or reordered. -/
theorem tx_in_order_partial (c : EpCfg) (ops : List TxOp) :
    let s := txRun c {} ops
    s.recv ++ (if s.ep.fsm ≠ .waitData ∧ s.th = s.ep.pid then s.ep.rbuf else []) ++ s.ep.wbuf = s.given := by
  have h := txInv_run c {} ops (by simp [TxInv, InEp.rbuf, InEp.wbuf])
  simp only
  unfold TxInv at h
  cases hf : (txRun c {} ops).ep.fsm <;> simp only [hf] at h
  · simp [h.2.2]
  · rcases h with ⟨h1, h2⟩ | ⟨h1, h2⟩
    · simp [h1, h2]
    · have : ¬ (txRun c {} ops).th = (txRun c {} ops).ep.pid := by rw [h1]; cases (txRun c {} ops).ep.pid <;> simp
      simp [this, h2]
  · rcases h with ⟨h1, h2⟩ | ⟨h1, h2⟩
    · simp [h1, h2]
    · have : ¬ (txRun c {} ops).th = (txRun c {} ops).ep.pid := by rw [h1]; cases (txRun c {} ops).ep.pid <;> simp
      simp [this, h2]

/-- In particular what the host has is always a prefix of what the producer handed over. -/
theorem tx_host_has_prefix (c : EpCfg) (ops : List TxOp) : (txRun c {} ops).recv <+: (txRun c {} ops).given := by
  have h := tx_in_order_partial c ops
  simp only [List.append_assoc] at h
  exact ⟨_, h⟩

example : (txRun { kind := .streamIn, num := 4, mps := 4 } {}
    [.produce [1, 2, 3, 4, 5] true, .poll true false, .poll true true, .poll false false, .poll true true, .poll true true]).recv
      = [1, 2, 3, 4, 5] := by decide


end LunaVerif.C57
