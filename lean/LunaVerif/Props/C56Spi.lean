import LunaVerif.Props.C56
import LunaVerif.Model.Periph.IlaSpi
/-!
# C56 — read-out of the captured samples through `SyncSerialILA` (SPI)

The wrapper = core analyzer + C50's `SPIDeviceInterface` + a sample counter that is registered into the core's read
address, whose read port is registered again.  The theorem here is about that address pipeline: the word the SPI
interface loads into its transmit register for word `k` of a chip-select window is recorded sample `k`
(`spi_readout_words`), because between two word boundaries the bit counter has to count `bits_per_word ≥ 4` sample
edges, one per cycle at most, which leaves the three cycles the pipeline needs (`WinInv`, `win_step`).
Environment (the monitor's "judged window" conditions): no trigger from the end of the capture to the end of the
window, chip select low for at least four cycles before the window.  The serialisation of the transmit register onto
`sdo` is C50's theorem about the same `SpiDevice.step` function.
-/
namespace LunaVerif.IlaSpi
open LunaVerif.Ila

/-- the completing sample edge: the SPI interface latches `word_out` for the next word in this cycle -/
def completing (c : SpiDevice.Config) (s : SpiDevice.State) (i : SpiDevice.In) : Bool :=
  SpiDevice.selected c i && SpiDevice.sampleEdge c s.pastClk i && (s.bitCount + 1 == c.w)

theorem edges_excl (c : SpiDevice.Config) (p : Bool) (i : SpiDevice.In) :
    SpiDevice.sampleEdge c p i = true → SpiDevice.outputEdge c p i = false := by
  unfold SpiDevice.sampleEdge SpiDevice.outputEdge SpiDevice.leading SpiDevice.trailing
  cases c.phase <;> cases p <;> cases SpiDevice.serialClock c i <;> simp

theorem spi_step_sel (c : SpiDevice.Config) (s : SpiDevice.State) (i : SpiDevice.In)
    (hsel : SpiDevice.selected c i = true) :
    (SpiDevice.step c s i).1.bitCount =
      (if SpiDevice.sampleEdge c s.pastClk i then (if s.bitCount + 1 == c.w then 0 else (s.bitCount + 1) % 2 ^ SpiDevice.bcWidth c.w)
       else s.bitCount) ∧
    (SpiDevice.step c s i).1.wordAccepted = completing c s i ∧
    (completing c s i = true → (SpiDevice.step c s i).1.tx = i.wordOut) := by
  have hex := edges_excl c s.pastClk i
  unfold completing
  cases hs : SpiDevice.sampleEdge c s.pastClk i <;> cases ho : SpiDevice.outputEdge c s.pastClk i <;>
    cases hc : (s.bitCount + 1 == c.w) <;>
    simp [SpiDevice.step, SpiDevice.stepGen, hsel, hs, ho, hc] <;> simp_all

theorem spi_step_out (c : SpiDevice.Config) (s : SpiDevice.State) (i : SpiDevice.In) :
    (SpiDevice.step c s i).2.wordAccepted = s.wordAccepted ∧ (SpiDevice.step c s i).2.sdo = s.sdo := by
  simp [SpiDevice.step, SpiDevice.stepGen, SpiDevice.outOf]

theorem spi_step_unsel (c : SpiDevice.Config) (s : SpiDevice.State) (i : SpiDevice.In)
    (hsel : SpiDevice.selected c i = false) :
    (SpiDevice.step c s i).1.bitCount = 0 ∧ (SpiDevice.step c s i).1.wordAccepted = false ∧
    (SpiDevice.step c s i).1.tx = i.wordOut := by
  simp [SpiDevice.step, SpiDevice.stepGen, hsel]

/-- width modulus of `current_sample_number` -/
def wd (c : Config) : Nat := 2 ^ rangeWidth c.ila.depth

/-- The wrapper inside a chip-select window with the analyzer at rest (memory `M`): `K` words have been completed,
`j` cycles ago (for `K = 0`: the window started `j` cycles ago).  The sample counter, the registered read address and
the read-port register follow one another by one cycle each; the SPI bit counter cannot have advanced more than
`j` bits. -/
structure WinInv (c : Config) (M : List Nat) (K j : Nat) (s : State) : Prop where
  cfsm : s.core.fsm = .idle
  cwen : s.core.wen = false
  cmem : s.core.mem = M
  bc   : s.spi.bitCount ≤ j
  csn  : s.csn = (if j = 0 then K else K + 1) % wd c
  addr : s.rdaddr = (if j ≤ 1 then K else K + 1) % wd c
  rd   : s.core.rdata = memRead M ((if j ≤ 2 then K else K + 1) % wd c)
  pcs  : s.pastCs = !(decide (K = 0 ∧ j = 0))
  wa   : s.spi.wordAccepted = decide (1 ≤ K ∧ j = 0)

theorem step_proj (c : Config) (s : State) (i : In) :
    (step c s i).1.core = (Ila.step c.ila s.core ⟨i.trigger, i.inputs, s.rdaddr⟩).1 ∧
    (step c s i).1.spi = (SpiDevice.step c.spi s.spi (spiIn c s i)).1 ∧
    (step c s i).1.pastCs = i.cs ∧
    (step c s i).1.rdaddr = s.csn ∧
    (step c s i).1.csn = (if i.cs then
      (if !s.pastCs then 1 % wd c else if s.spi.wordAccepted then (s.csn + 1) % wd c else s.csn) else 0) := by
  simp [step, wd, (spi_step_out c.spi s.spi (spiIn c s i)).1]

theorem core_rest (c : Ila.Config) (σ : Ila.State) (hf : σ.fsm = .idle) (hw : σ.wen = false) (inp a : Nat) :
    (Ila.step c σ ⟨false, inp, a⟩).1.fsm = .idle ∧ (Ila.step c σ ⟨false, inp, a⟩).1.wen = false ∧
    (Ila.step c σ ⟨false, inp, a⟩).1.mem = σ.mem ∧ (Ila.step c σ ⟨false, inp, a⟩).1.rdata = memRead σ.mem a ∧
    (Ila.step c σ ⟨false, inp, a⟩).1.complete = σ.complete := by
  obtain ⟨f, wpos, wen, cpl, mem, rd, dl⟩ := σ
  simp only at hf hw; subst hf hw
  simp [Ila.step]

/-- one cycle inside the window -/
theorem win_step (c : Config) (hw : 4 ≤ c.spi.w) (hcs : c.spi.csIdlesHigh = false) (M : List Nat) (K j : Nat)
    (s : State) (h : WinInv c M K j s) (i : In) (hsel : i.cs = true) (htr : i.trigger = false) :
    (completing c.spi s.spi (spiIn c s i) = true →
      wordOut c s = SpiDevice.natToBits c.spi.w (memRead M ((K + 1) % wd c)) ∧
      (step c s i).1.spi.tx = SpiDevice.natToBits c.spi.w (memRead M ((K + 1) % wd c)) ∧
      WinInv c M (K + 1) 0 (step c s i).1) ∧
    (completing c.spi s.spi (spiIn c s i) = false → WinInv c M K (j + 1) (step c s i).1) := by
  obtain ⟨p1, p2, p3, p4, p5⟩ := step_proj c s i
  have hselS : SpiDevice.selected c.spi (spiIn c s i) = true := by simp [SpiDevice.selected, spiIn, hcs, hsel]
  obtain ⟨q1, q2, q3⟩ := spi_step_sel c.spi s.spi (spiIn c s i) hselS
  rw [htr] at p1
  obtain ⟨r1, r2, r3, r4, _⟩ := core_rest c.ila s.core h.cfsm h.cwen i.inputs s.rdaddr
  rw [← p1] at r1 r2 r3 r4
  rw [← p2] at q1 q2 q3
  rw [hsel] at p3 p5
  simp only [if_true] at p5
  have hmodle : (s.spi.bitCount + 1) % 2 ^ SpiDevice.bcWidth c.spi.w ≤ s.spi.bitCount + 1 := Nat.mod_le _ _
  have hb := h.bc
  constructor
  · intro hc
    have hc' := hc
    simp only [completing, Bool.and_eq_true, beq_iff_eq] at hc'
    obtain ⟨⟨_, hsm⟩, hcw⟩ := hc'
    have hj3 : 3 ≤ j := by omega
    have hrd : s.core.rdata = memRead M ((K + 1) % wd c) := by
      rw [h.rd]; congr 2; split <;> omega
    have hwo : wordOut c s = SpiDevice.natToBits c.spi.w (memRead M ((K + 1) % wd c)) := by
      simp [wordOut, hrd]
    refine ⟨hwo, ?_, ?_⟩
    · rw [q3 hc]; simpa [spiIn] using hwo
    · have hpcs : s.pastCs = true := by rw [h.pcs]; simp; omega
      have hwa : s.spi.wordAccepted = false := by rw [h.wa]; simp; omega
      have hcsn : s.csn = (K + 1) % wd c := by rw [h.csn]; congr 1; split <;> omega
      have haddr : s.rdaddr = (K + 1) % wd c := by rw [h.addr]; congr 1; split <;> omega
      constructor
      · exact r1
      · exact r2
      · rw [r3]; exact h.cmem
      · rw [q1, hsm]; simp [hcw]
      · rw [p5, hpcs, hwa]; simp [hcsn]
      · rw [p4, hcsn]; simp
      · rw [r4, h.cmem, haddr]; simp
      · rw [p3]; simp
      · rw [q2, hc]; simp
  · intro hc
    have hnc : ¬ (SpiDevice.sampleEdge c.spi s.spi.pastClk (spiIn c s i) = true ∧ s.spi.bitCount + 1 = c.spi.w) := by
      intro ⟨a, b⟩
      simp [completing, hselS, a, b] at hc
    constructor
    · exact r1
    · exact r2
    · rw [r3]; exact h.cmem
    · rw [q1]; split
      · split <;> omega
      · omega
    · -- csn
      rw [p5, h.pcs, h.wa, h.csn]
      rcases Nat.eq_zero_or_pos j with hj | hj
      · subst hj
        rcases Nat.eq_zero_or_pos K with hK | hK
        · subst hK; simp
        · have : ¬ K = 0 := by omega
          simp [this, Nat.mod_add_mod]
      · have : ¬ j = 0 := by omega
        simp [this]
    · -- rdaddr
      rw [p4, h.csn]
      congr 1
      split <;> split <;> omega
    · -- rdata
      rw [r4, h.cmem, h.addr]
      congr 2
      split <;> split <;> omega
    · rw [p3]; simp
    · rw [q2, hc]; simp


/-! ## a whole chip-select window -/

/-- the words loaded into the SPI transmit register by completing sample edges during a history -/
def latchedWords (c : Config) : State → List In → List (List Bool)
  | _, [] => []
  | s, x :: xs =>
    (if completing c.spi s.spi (spiIn c s x) then [wordOut c s] else []) ++ latchedWords c (step c s x).1 xs

/-- chip select held, no trigger -/
def InWindow (xs : List In) : Prop := ∀ x ∈ xs, x.cs = true ∧ x.trigger = false

/-- chip select released, no trigger -/
def AtRest (xs : List In) : Prop := ∀ x ∈ xs, x.cs = false ∧ x.trigger = false

def sampleWord (c : Config) (M : List Nat) (q : Nat) : List Bool :=
  SpiDevice.natToBits c.spi.w (memRead M (q % wd c))

theorem win_run (c : Config) (hw : 4 ≤ c.spi.w) (hcs : c.spi.csIdlesHigh = false) (M : List Nat) (xs : List In) :
    ∀ (K j : Nat) (s : State), WinInv c M K j s → InWindow xs →
      ∃ n j', latchedWords c s xs = (List.range' (K + 1) n).map (sampleWord c M) ∧
        WinInv c M (K + n) j' (runState c s xs) := by
  induction xs with
  | nil => intro K j s h _; exact ⟨0, j, by simp [latchedWords], by simpa [runState] using h⟩
  | cons x xs ih =>
    intro K j s h hin
    have hx := hin x (by simp)
    have hrest : InWindow xs := fun y hy => hin y (by simp [hy])
    obtain ⟨hT, hF⟩ := win_step c hw hcs M K j s h x hx.1 hx.2
    cases hc : completing c.spi s.spi (spiIn c s x)
    · obtain ⟨n, j', e1, e2⟩ := ih K (j + 1) _ (hF hc) hrest
      exact ⟨n, j', by simp [latchedWords, hc, e1], by simpa [runState] using e2⟩
    · obtain ⟨hwo, _, hinv⟩ := hT hc
      obtain ⟨n, j', e1, e2⟩ := ih (K + 1) 0 _ hinv hrest
      refine ⟨n + 1, j', ?_, ?_⟩
      · simp only [latchedWords, hc, if_true, e1, List.range'_succ, List.map_cons, hwo, sampleWord]
        simp
      · have : K + (n + 1) = K + 1 + n := by omega
        rw [this]; simpa [runState] using e2

/-! ## between windows: chip select low -/

theorem rest_step (c : Config) (hcs : c.spi.csIdlesHigh = false) (M : List Nat) (s : State)
    (hf : s.core.fsm = .idle) (hwen : s.core.wen = false) (hm : s.core.mem = M) (i : In)
    (hsel : i.cs = false) (htr : i.trigger = false) :
    (step c s i).1.core.fsm = .idle ∧ (step c s i).1.core.wen = false ∧ (step c s i).1.core.mem = M ∧
    (step c s i).1.core.complete = s.core.complete ∧
    (step c s i).1.core.rdata = memRead M s.rdaddr ∧ (step c s i).1.rdaddr = s.csn ∧ (step c s i).1.csn = 0 ∧
    (step c s i).1.pastCs = false ∧ (step c s i).1.spi.bitCount = 0 ∧ (step c s i).1.spi.wordAccepted = false ∧
    (step c s i).1.spi.tx = SpiDevice.natToBits c.spi.w s.core.rdata := by
  obtain ⟨p1, p2, p3, p4, p5⟩ := step_proj c s i
  have hselS : SpiDevice.selected c.spi (spiIn c s i) = false := by simp [SpiDevice.selected, spiIn, hcs, hsel]
  obtain ⟨q1, q2, q3⟩ := spi_step_unsel c.spi s.spi (spiIn c s i) hselS
  rw [htr] at p1
  obtain ⟨r1, r2, r3, r4, r5⟩ := core_rest c.ila s.core hf hwen i.inputs s.rdaddr
  rw [← p1] at r1 r2 r3 r4 r5
  rw [← p2] at q1 q2 q3
  refine ⟨r1, r2, by rw [r3, hm], r5, by rw [r4, hm], p4, by rw [p5, hsel]; simp, by rw [p3, hsel], q1, q2, ?_⟩
  rw [q3]; simp [spiIn, wordOut]

theorem rest_run (c : Config) (hcs : c.spi.csIdlesHigh = false) (M : List Nat) (xs : List In) :
    ∀ s : State, s.core.fsm = .idle → s.core.wen = false → s.core.mem = M → AtRest xs →
      (runState c s xs).core.fsm = .idle ∧ (runState c s xs).core.wen = false ∧ (runState c s xs).core.mem = M ∧
      (runState c s xs).core.complete = s.core.complete := by
  induction xs with
  | nil => intro s a b d _; exact ⟨a, b, d, rfl⟩
  | cons x xs ih =>
    intro s a b d hr
    have hx := hr x (by simp)
    obtain ⟨r1, r2, r3, r4, _⟩ := rest_step c hcs M s a b d x hx.1 hx.2
    obtain ⟨e1, e2, e3, e4⟩ := ih _ r1 r2 r3 (fun y hy => hr y (by simp [hy]))
    exact ⟨e1, e2, e3, by simp only [runState]; rw [e4, r4]⟩

/-- four cycles with chip select low (analyzer at rest) put sample 0 into the SPI transmit register and the
wrapper into the window-start state -/
theorem window_start (c : Config) (hcs : c.spi.csIdlesHigh = false) (M : List Nat) (s : State)
    (hf : s.core.fsm = .idle) (hwen : s.core.wen = false) (hm : s.core.mem = M) (g1 g2 g3 g4 : In)
    (hr : AtRest [g1, g2, g3, g4]) :
    WinInv c M 0 0 (runState c s [g1, g2, g3, g4]) ∧
    (runState c s [g1, g2, g3, g4]).spi.tx = sampleWord c M 0 ∧
    (runState c s [g1, g2, g3, g4]).core.complete = s.core.complete := by
  have h1 := hr g1 (by simp); have h2 := hr g2 (by simp); have h3 := hr g3 (by simp); have h4 := hr g4 (by simp)
  obtain ⟨a1, a2, a3, a4, _, _, a7, _⟩ := rest_step c hcs M s hf hwen hm g1 h1.1 h1.2
  obtain ⟨b1, b2, b3, b4, _, b6, b7, _⟩ := rest_step c hcs M _ a1 a2 a3 g2 h2.1 h2.2
  obtain ⟨c1, c2, c3, c4, c5, c6, c7, _⟩ := rest_step c hcs M _ b1 b2 b3 g3 h3.1 h3.2
  obtain ⟨d1, d2, d3, d4, d5, d6, d7, d8, d9, d10, d11⟩ := rest_step c hcs M _ c1 c2 c3 g4 h4.1 h4.2
  simp only [runState]
  rw [a7] at b6
  rw [b6] at c5
  rw [b7] at c6
  rw [c6] at d5
  rw [c7] at d6
  rw [c5] at d11
  have hz : 0 % wd c = 0 := Nat.zero_mod _
  refine ⟨⟨d1, d2, d3, by rw [d9]; exact Nat.le_refl 0, by simp [d7], by simp [d6], by simp [d5], by simp [d8], by simp [d10]⟩, ?_, ?_⟩
  · rw [d11]; simp [sampleWord]
  · rw [d4, c4, b4, a4]


/-! ## capture, then read-out -/

/-- what the core sees during a history of the wrapper -/
def coreHist (c : Config) : State → List In → List Ila.In
  | _, [] => []
  | s, x :: xs => ⟨x.trigger, x.inputs, s.rdaddr⟩ :: coreHist c (step c s x).1 xs

theorem core_run (c : Config) (xs : List In) : ∀ s : State,
    (runState c s xs).core = Ila.runState c.ila s.core (coreHist c s xs) := by
  induction xs with
  | nil => intro s; rfl
  | cons x xs ih => intro s; simp only [runState, coreHist, Ila.runState, ih, (step_proj c s x).1]

theorem coreHist_inputs (c : Config) (xs : List In) : ∀ s : State,
    inputsOf (coreHist c s xs) = xs.map (·.inputs) ∧ (coreHist c s xs).length = xs.length := by
  induction xs with
  | nil => intro s; exact ⟨rfl, rfl⟩
  | cons x xs ih =>
    intro s
    obtain ⟨a, b⟩ := ih (step c s x).1
    simp only [inputsOf] at a
    simp [coreHist, inputsOf, a, b]

theorem runState_append (c : Config) (a b : List In) : ∀ s,
    runState c s (a ++ b) = runState c (runState c s a) b := by
  induction a with
  | nil => intro s; rfl
  | cons x a ih => intro s; simp [runState, ih]

theorem sampleWord_lt (c : Config) (M : List Nat) (hm : M.length = c.ila.depth) (q : Nat) (hq : q < c.ila.depth) :
    sampleWord c M q = SpiDevice.natToBits c.spi.w (M[q]'(by omega)) := by
  have hP := le_two_pow_rangeWidth c.ila.depth
  have : q % wd c = q := Nat.mod_eq_of_lt (by unfold wd; omega)
  simp [sampleWord, this, memRead, List.getElem?_eq_getElem (show q < M.length by omega)]

/-- **spi_readout_words**: a trigger seen by the idle analyzer (`x0`), the `depth` capture cycles `xs` (any SPI
activity, any further triggers), then chip select low and no trigger for at least four cycles (`gs ++ [g1..g4]`), then
a chip-select window `ws` without a trigger, any SPI clock activity: when the window opens the SPI transmit register
holds recorded sample 0, and the words loaded into it at the completing sample edges of the window are the recorded
samples 1, 2, 3, … in order (`sampleWord c S q` = sample `q mod 2^width(range depth)`, which is `S[q]` for
`q < depth`: `sampleWord_lt`), `S` = the captured buffer of `captures_depth_consecutive_samples`.  How the transmit
register goes out on `sdo`, MSB first, is C50 (`sdo_msb_first`, the same `SpiDevice.step`). -/
theorem spi_readout_words (c : Config) (hw : 4 ≤ c.spi.w) (hcs : c.spi.csIdlesHigh = false) (hd : 1 ≤ c.ila.depth)
    (σ : State) (hσ : IdleState c.ila σ.core) (x0 : In) (ht : x0.trigger = true) (xs : List In)
    (hl : xs.length = c.ila.depth) (gs : List In) (hgs : AtRest gs) (g1 g2 g3 g4 : In)
    (hg : AtRest [g1, g2, g3, g4]) (ws : List In) (hws : InWindow ws) :
    (runState c σ (x0 :: xs ++ gs ++ [g1, g2, g3, g4])).spi.tx
      = sampleWord c (((σ.core.dl ++ (x0 :: xs).map (·.inputs)).drop 1).take c.ila.depth) 0 ∧
    (runState c σ (x0 :: xs ++ gs ++ [g1, g2, g3, g4])).core.complete = true ∧
    ∃ n, latchedWords c (runState c σ (x0 :: xs ++ gs ++ [g1, g2, g3, g4])) ws
      = (List.range' 1 n).map (sampleWord c (((σ.core.dl ++ (x0 :: xs).map (·.inputs)).drop 1).take c.ila.depth)) := by
  have hc := core_run c (x0 :: xs) σ
  obtain ⟨hi, hlen⟩ := coreHist_inputs c (x0 :: xs) σ
  have hcap := captures_depth_consecutive_samples c.ila hd σ.core hσ ⟨x0.trigger, x0.inputs, σ.rdaddr⟩ ht
    (coreHist c (step c σ x0).1 xs) (by simpa [coreHist, hl] using hlen)
  obtain ⟨k1, k2, k3, k4, _⟩ := hcap
  have hh : coreHist c σ (x0 :: xs) = ⟨x0.trigger, x0.inputs, σ.rdaddr⟩ :: coreHist c (step c σ x0).1 xs := rfl
  rw [← hh, ← hc] at k1 k2 k3 k4
  rw [hi] at k4
  obtain ⟨r1, r2, r3, r4⟩ := rest_run c hcs _ gs (runState c σ (x0 :: xs)) k1 k2 k4 hgs
  obtain ⟨w1, w2, w3⟩ := window_start c hcs _ (runState c (runState c σ (x0 :: xs)) gs) r1 r2 r3 g1 g2 g3 g4 hg
  have happ : runState c σ (x0 :: xs ++ gs ++ [g1, g2, g3, g4])
      = runState c (runState c (runState c σ (x0 :: xs)) gs) [g1, g2, g3, g4] := by
    rw [runState_append, runState_append]
  rw [happ]
  refine ⟨w2, by rw [w3, r4, k3], ?_⟩
  obtain ⟨n, _, e, _⟩ := win_run c hw hcs _ ws 0 0 _ w1 hws
  exact ⟨n, by simpa using e⟩

/-! ## Non-vacuity: depth 2, pre-trigger 1, 4-bit words, SPI mode (0,1): trigger, capture, 4 rest cycles, then a window
clocking two words: sample 1 and (the counter wraps at depth 2) sample 0 again are loaded. -/
def cfgX : Config := ⟨⟨2, 1⟩, ⟨4, false, true, true, false⟩⟩
def restX : In := ⟨false, 0, false, false, false⟩
def bitX : List In := [⟨false, 0, true, false, true⟩, ⟨false, 0, false, false, true⟩]
def winX : List In := bitX ++ bitX ++ bitX ++ bitX ++ bitX ++ bitX ++ bitX ++ bitX
def capX : List In := [⟨true, 5, false, false, false⟩, ⟨false, 6, false, false, false⟩, ⟨true, 7, false, false, false⟩]

example : AtRest [restX, restX, restX, restX] := by unfold AtRest; decide
example : InWindow winX := by unfold InWindow; decide
example : (runState cfgX (init cfgX) (capX ++ [restX, restX, restX, restX])).spi.tx = SpiDevice.natToBits 4 5 := by
  decide
example : latchedWords cfgX (runState cfgX (init cfgX) (capX ++ [restX, restX, restX, restX])) winX
    = [SpiDevice.natToBits 4 6, SpiDevice.natToBits 4 5] := by decide

end LunaVerif.IlaSpi
